(* SrvRestartSimCb: the restart simulation (C08.8) for servers with AllowPush whose earlier incarnations DID register
   Callbacks (SrvRestartSim covers the histories without callback records).

   [embk dk ocb ocl x]: the state x of a server with, in front of its callback table, the callback records [ocb] of
   earlier incarnations and, behind its registrations, the registrations [ocl] of those old callbacks that are still
   pending (the Callback has not returned: Stop cancelled its context and its watcher has not run yet); the id counter
   is advanced by dk, every callback index (calls, LRelCbWatch) is shifted by |ocb| and every callback id is RENAMED
   by [ren dk]: the numeral of k >= 1 becomes the numeral of dk + k; every other byte string is left alone.  The
   renaming applies to the ids in the callback table and in [calls], to the ids of the members of fed records that are
   not requests (in the channel, in the reader's hands and in LFeed labels) and to the ids of the OSendReq
   observations.  [old_ok]: the old records bear old ids (numerals of 1..dk), the pending registrations are keyed by
   old ids and their records are cancelled with a watcher that is not blocked.
   [embc ...] = [emb] (tasks, units, counters: SrvRestartSim) after [embk].

   Theorem [embc_step]: [step] commutes with the embedding for EVERY label, up to this renaming, under
     (i)   [pinv]: c_push x = true, 1 <= call_id x, the fed records held by x are shaped (an invariant: [step_pinv]);
     (ii)  [shaped_feed]: a fed member that is neither a request/notification nor reply-shaped (no method, a result or
           an error) does not carry a positive numeral as its id (such a member is answered under its own id when that
           id is not registered: [restart_unshaped_refuted]);
     (iii) [lab_ok]: LCbCtxEnd n is not used with the operation number of an old record ([restart_ops_reuse_refuted]).
   Labels that address an old task or unit are disabled (SrvRestartSim); LRelCbWatch on an old record is disabled or
   changes the old records only ([old_release], [embc_old_watch]): silent, or the return of the cancellation to the
   caller of an old Callback still registered.  Fed records in the image of the renaming are exactly those without
   the id of an old callback ([no_old_feed]); a reply bearing the id of an old callback that has returned is dropped
   as any unknown id is ([embc_old_reply_late]).
   Runs: [embc_run_fwd], [embc_run_bwd]; the restarted server: [reach_old_ok], [restart_is_embc],
   [restart_simulation_cb], [restart_trace_properties_cb]. *)
From Coq Require Import List NArith ZArith Bool Arith Lia.
From RecordUpdate Require Import RecordUpdate.
From JV Require Import Bytes Msg SrvModel SrvLemmas SrvBasics SrvC01 SrvC07 SrvC09 SrvC10 SrvC08 SrvC08b SrvC08c SrvC08q.
From JV Require Import SrvRestartSim.
From JV Require SrvC09b.
Import ListNotations.

(** * numerals *)
Definition idnum (b : bytes) : option nat :=
  if beq b (dec_of_nat (nat_of_dec b)) then Some (nat_of_dec b) else None.

Lemma idnum_dec n : idnum (dec_of_nat n) = Some n.
Proof. unfold idnum. rewrite nat_of_dec_of_nat, beq_refl. reflexivity. Qed.

Lemma idnum_some b n : idnum b = Some n -> b = dec_of_nat n.
Proof.
  unfold idnum. destruct (beq b (dec_of_nat (nat_of_dec b))) eqn:E; [|discriminate].
  intros [= <-]. apply beq_eq. exact E.
Qed.

Definition is_posnum (b : bytes) : bool := match idnum b with Some (S _) => true | _ => false end.

Lemma idnum_nil : idnum [] = None.
Proof. vm_compute. reflexivity. Qed.
Lemma idnum_null : idnum null_bytes = None.
Proof. vm_compute. reflexivity. Qed.

Section Ren.
  Variable dk : nat.

  (* the renaming of callback ids: the numeral of k >= 1 becomes the numeral of dk + k *)
  Definition ren (b : bytes) : bytes := match idnum b with Some (S j) => dec_of_nat (dk + S j) | _ => b end.
  (* the ids the earlier incarnations may have used: the numerals of 1 .. dk *)
  Definition old_id (b : bytes) : bool := match idnum b with Some (S j) => S j <=? dk | _ => false end.
  (* the inverse renaming *)
  Definition unren (b : bytes) : bytes :=
    match idnum b with Some j => if dk <? j then dec_of_nat (j - dk) else b | None => b end.

  Lemma ren_dec j : ren (dec_of_nat (S j)) = dec_of_nat (dk + S j).
  Proof. unfold ren. rewrite idnum_dec. reflexivity. Qed.

  Lemma ren_not_pos b : is_posnum b = false -> ren b = b.
  Proof. unfold is_posnum, ren. destruct (idnum b) as [[|j]|]; auto; discriminate. Qed.

  Lemma ren_nil : ren [] = [].
  Proof. unfold ren. rewrite idnum_nil. reflexivity. Qed.
  Lemma ren_null : ren null_bytes = null_bytes.
  Proof. unfold ren. rewrite idnum_null. reflexivity. Qed.

  Lemma idnum_ren b : idnum (ren b) = match idnum b with Some (S j) => Some (dk + S j) | x => x end.
  Proof.
    unfold ren. destruct (idnum b) as [[|j]|] eqn:E; auto. apply idnum_dec.
  Qed.

  Lemma ren_inj a b : ren a = ren b -> a = b.
  Proof.
    intros H. pose proof (f_equal idnum H) as N. rewrite !idnum_ren in N. unfold ren in H.
    destruct (idnum a) as [[|j]|] eqn:Ea; destruct (idnum b) as [[|i]|] eqn:Eb; try discriminate; auto;
      try (injection N as N; lia).
    injection N as N. assert (j = i) by lia. subst i.
    apply idnum_some in Ea, Eb. congruence.
  Qed.

  Lemma old_id_ren b : old_id (ren b) = false.
  Proof.
    unfold old_id. rewrite idnum_ren. destruct (idnum b) as [[|j]|]; auto.
    replace (dk + S j) with (S (dk + j)) by lia. apply Nat.leb_gt. lia.
  Qed.

  Lemma beq_ren a b : beq (ren a) (ren b) = beq a b.
  Proof.
    destruct (beq_spec a b) as [->|N]; [apply beq_refl|]. apply beq_neq. intros H. apply N, ren_inj, H.
  Qed.

  Lemma old_ren_neq o b : old_id o = true -> beq o (ren b) = false.
  Proof. intros H. apply beq_neq. intros ->. rewrite old_id_ren in H. discriminate. Qed.

  Lemma fix_id_ren b : fix_id (ren b) = ren (fix_id b).
  Proof.
    unfold fix_id, is_null. rewrite <- ren_null at 1. rewrite beq_ren.
    destruct (beq b null_bytes); [rewrite ren_nil|]; reflexivity.
  Qed.

  Lemma ren_unren b : old_id b = false -> ren (unren b) = b.
  Proof.
    unfold old_id, unren, ren. destruct (idnum b) as [[|j]|] eqn:E; intros H.
    - cbn [Nat.ltb Nat.leb]. rewrite E. reflexivity.
    - apply Nat.leb_gt in H. destruct (Nat.ltb_spec dk (S j)) as [L|L]; [|lia].
      rewrite idnum_dec. destruct (S j - dk) as [|i] eqn:D; [lia|].
      replace (dk + S i) with (S j) by lia. symmetry. apply idnum_some. exact E.
    - rewrite E. reflexivity.
  Qed.

  Lemma unren_ren b : unren (ren b) = b.
  Proof. apply ren_inj. apply ren_unren. apply old_id_ren. Qed.

  (** ** association lists keyed by renamed ids *)
  Lemma assoc_ren {A B} (h : A -> B) k (m : list (bytes * A)) :
    assoc (ren k) (map (fun p => (ren (fst p), h (snd p))) m) = option_map h (assoc k m).
  Proof. induction m as [|[k' v] m IH]; cbn; auto. rewrite beq_ren. destruct (beq k k'); auto. Qed.

  Lemma assoc_del_ren {A B} (h : A -> B) k (m : list (bytes * A)) :
    assoc_del (ren k) (map (fun p => (ren (fst p), h (snd p))) m) =
    map (fun p => (ren (fst p), h (snd p))) (assoc_del k m).
  Proof. induction m as [|[k' v] m IH]; cbn; auto. rewrite beq_ren. destruct (beq k k'); cbn; auto. f_equal; auto. Qed.

  Lemma assoc_old {A B} (h : A -> B) o (m : list (bytes * A)) : old_id o = true ->
    assoc o (map (fun p => (ren (fst p), h (snd p))) m) = None.
  Proof. intros H. induction m as [|[k' v] m IH]; cbn; auto. rewrite (old_ren_neq o k' H). exact IH. Qed.

  Lemma assoc_app {A} k (a b : list (bytes * A)) :
    assoc k (a ++ b) = match assoc k a with Some v => Some v | None => assoc k b end.
  Proof. induction a as [|[k' v] a IH]; cbn; auto. destruct (beq k k'); auto. Qed.

  Lemma assoc_del_app {A} k (a b : list (bytes * A)) : assoc_del k (a ++ b) = assoc_del k a ++ assoc_del k b.
  Proof. induction a as [|[k' v] a IH]; cbn; auto. destruct (beq k k'); cbn; auto. f_equal; auto. Qed.

  Lemma assoc_del_old {A B} (h : A -> B) o (m : list (bytes * A)) : old_id o = true ->
    assoc_del o (map (fun p => (ren (fst p), h (snd p))) m) = map (fun p => (ren (fst p), h (snd p))) m.
  Proof. intros H. apply assoc_del_absent. apply assoc_old. exact H. Qed.

  (* keys that are all old ids *)
  Lemma assoc_ren_olds {A} k (m : list (bytes * A)) : (forall p, In p m -> old_id (fst p) = true) -> assoc (ren k) m = None.
  Proof.
    intros H. induction m as [|[k' v] m IH]; cbn; auto.
    assert (E : beq (ren k) k' = false).
    { apply beq_neq. intros <-. pose proof (H (ren k, v) (or_introl eq_refl)) as O. cbn in O. rewrite old_id_ren in O. discriminate. }
    rewrite E. apply IH. intros p Ip. apply H. right. exact Ip.
  Qed.

  (** ** the renaming of records, observations *)
  Definition ren_cb (c : cb) : cb :=
    mkCb (cb_op c) (ren (cb_id c)) (cb_slot c) (cb_ctx c) (cb_cancelled c) (cb_watch c) (cb_ret c).
  Definition reid (g : bytes -> bytes) (m : jmsg) : jmsg :=
    if is_req_or_notif m then m
    else Build_jmsg (g (j_id m)) (j_method m) (j_params m) (j_error m) (j_result m) (j_err m).
  Definition map_in (g : bytes -> bytes) (i : inbound) : inbound :=
    match i with InBad => InBad | InMsgs b ms => InMsgs b (map (reid g) ms) end.
  Definition map_feed (g : bytes -> bytes) (f : feed) : feed :=
    match f with FMsg i => FMsg (map_in g i) | FMsgEOF i => FMsgEOF (map_in g i) | FErr c => FErr c end.
  Definition ren_msg := reid ren.
  Definition ren_feed := map_feed ren.
  Definition ren_rd (r : rdpc) : rdpc := match r with RHold f => RHold (ren_feed f) | x => x end.
  Definition ren_obs (o : obs) : obs := match o with OSendReq ok id m p => OSendReq ok (ren id) m p | x => x end.

  (* (ii) the members whose id may be renamed: requests and notifications (never renamed), reply-shaped members
     (delivered to a callback or dropped, never answered), and members whose id is not a positive numeral *)
  Definition reply_shaped (m : jmsg) : bool := is_nil (j_method m) && has_reply_fields m.
  Definition shaped_msg (m : jmsg) : bool := is_req_or_notif m || reply_shaped m || negb (is_posnum (j_id m)).
  Definition shaped_in (i : inbound) : bool := match i with InBad => true | InMsgs _ ms => forallb shaped_msg ms end.
  Definition shaped_feed (f : feed) : bool := match f with FMsg i | FMsgEOF i => shaped_in i | FErr _ => true end.
  (* no member that is not a request bears the id of an old callback *)
  Definition no_old_msg (m : jmsg) : bool := is_req_or_notif m || negb (old_id (j_id m)).
  Definition no_old_in (i : inbound) : bool := match i with InBad => true | InMsgs _ ms => forallb no_old_msg ms end.
  Definition no_old_feed (f : feed) : bool := match f with FMsg i | FMsgEOF i => no_old_in i | FErr _ => true end.

  Lemma reid_req g m : is_req_or_notif (reid g m) = is_req_or_notif m.
  Proof. unfold reid. destruct (is_req_or_notif m) eqn:E; [exact E|]. exact E. Qed.

  Lemma reid_same g m : g (j_id m) = j_id m -> reid g m = m.
  Proof. unfold reid. intros H. destruct (is_req_or_notif m); [reflexivity|]. rewrite H. destruct m; reflexivity. Qed.

  Lemma ren_unren_msg m : no_old_msg m = true -> ren_msg (reid unren m) = m.
  Proof.
    unfold no_old_msg, ren_msg, reid. destruct (is_req_or_notif m) eqn:R; cbn [orb].
    - intros _. rewrite R. reflexivity.
    - intros H. apply negb_true_iff in H.
      change (is_req_or_notif (Build_jmsg (unren (j_id m)) (j_method m) (j_params m) (j_error m) (j_result m) (j_err m)))
        with (is_req_or_notif m). rewrite R. cbn [j_id j_method j_params j_error j_result j_err].
      rewrite (ren_unren _ H). destruct m; reflexivity.
  Qed.

  Lemma unren_ren_msg m : reid unren (ren_msg m) = m.
  Proof.
    unfold ren_msg, reid. destruct (is_req_or_notif m) eqn:R; [rewrite R; reflexivity|].
    change (is_req_or_notif (Build_jmsg (ren (j_id m)) (j_method m) (j_params m) (j_error m) (j_result m) (j_err m)))
      with (is_req_or_notif m). rewrite R. cbn [j_id j_method j_params j_error j_result j_err].
    rewrite unren_ren. destruct m; reflexivity.
  Qed.

  Lemma no_old_ren_msg m : no_old_msg (ren_msg m) = true.
  Proof.
    unfold no_old_msg, ren_msg. rewrite reid_req. destruct (is_req_or_notif m) eqn:R; [reflexivity|].
    unfold reid. rewrite R. cbn [j_id orb]. rewrite old_id_ren. reflexivity.
  Qed.

  Lemma ren_unren_feed f : no_old_feed f = true -> ren_feed (map_feed unren f) = f.
  Proof.
    assert (L : forall ms, forallb no_old_msg ms = true -> map ren_msg (map (reid unren) ms) = ms).
    { induction ms as [|m ms IH]; cbn [forallb map]; auto. intros H. apply andb_true_iff in H as [H1 H2].
      rewrite (ren_unren_msg m H1), (IH H2). reflexivity. }
    unfold ren_feed, ren_msg in *. destruct f as [[|b ms]|[|b ms]|c]; cbn; auto; intros H; rewrite (L ms H); reflexivity.
  Qed.

  Lemma unren_ren_feed f : map_feed unren (ren_feed f) = f.
  Proof.
    assert (L : forall ms, map (reid unren) (map ren_msg ms) = ms).
    { induction ms as [|m ms IH]; cbn [map]; auto. rewrite unren_ren_msg, IH. reflexivity. }
    unfold ren_feed, ren_msg in *. destruct f as [[|b ms]|[|b ms]|c]; cbn; auto; rewrite (L ms); reflexivity.
  Qed.

  Lemma no_old_ren_feed f : no_old_feed (ren_feed f) = true.
  Proof.
    assert (L : forall ms, forallb no_old_msg (map ren_msg ms) = true).
    { induction ms as [|m ms IH]; cbn [forallb map]; auto. rewrite no_old_ren_msg, IH. reflexivity. }
    destruct f as [[|b ms]|[|b ms]|c]; cbn; auto.
  Qed.

  (* un-renaming a shaped member leaves it shaped *)
  Lemma shaped_unren_msg m : shaped_msg m = true -> shaped_msg (reid unren m) = true.
  Proof.
    unfold shaped_msg. destruct (is_req_or_notif m) eqn:R; [unfold reid; rewrite R, R; reflexivity|].
    rewrite reid_req, R. cbn [orb]. unfold reid. rewrite R. unfold reply_shaped, has_reply_fields.
    cbn [j_id j_method j_error j_result].
    destruct (is_nil (j_method m) && match j_error m with Some _ => true | None => negb (is_nil (j_result m)) end);
      [reflexivity|]. cbn [orb]. intros H. apply negb_true_iff in H.
    unfold is_posnum in H. unfold unren. destruct (idnum (j_id m)) as [[|j]|] eqn:E; try discriminate.
    - cbn [Nat.ltb Nat.leb]. unfold is_posnum. rewrite E. reflexivity.
    - unfold is_posnum. rewrite E. reflexivity.
  Qed.

  Lemma shaped_unren_feed f : shaped_feed f = true -> shaped_feed (map_feed unren f) = true.
  Proof.
    assert (L : forall ms, forallb shaped_msg ms = true -> forallb shaped_msg (map (reid unren) ms) = true).
    { induction ms as [|m ms IH]; cbn [forallb map]; auto. intros H. apply andb_true_iff in H as [H1 H2].
      rewrite (shaped_unren_msg m H1), (IH H2). reflexivity. }
    destruct f as [[|b ms]|[|b ms]|c]; cbn; auto.
  Qed.

  (** * The embedding of the callback machinery *)
  Section K.
    Variable ocb : list cb.
    Variable ocl : list (bytes * nat).
    Notation nc := (length ocb).
    (* the old records bear old ids; the old registrations still pending are keyed by old ids, and their records
       are cancelled with a watcher that is not blocked (parked, or done) *)
    Hypothesis Hid : forall c, In c ocb -> old_id (cb_id c) = true.
    Hypothesis Hcl : forall p, In p ocl -> old_id (fst p) = true.
    Hypothesis Hreg : forall c, In c ocb -> assoc (cb_id c) ocl <> None -> cb_cancelled c = true /\ cb_watch c <> WBlocked.

    Definition sh_call (p : bytes * nat) : bytes * nat := (ren (fst p), nc + snd p).

    Definition embk (s : state) : state :=
      mkState (c_K s) (c_push s) (c_builtin s) (c_methods s) (c_unblock s) (map ren_feed (ch_in s)) (send_fail s)
        (running s) (stop_err s) (work_closed s) (closes s) (starts s) (ren_rd (rd s)) (dp s) (inq s)
        (units s) (tasks s) (nbar s) (sem_free s) (sem_wait s) (used s)
        (map sh_call (calls s) ++ ocl) (dk + call_id s) (ocb ++ map ren_cb (cbs s)) (wg s) (ops s) (waits s) (ended s) (crash s).

    Definition renk_label (l : label) : label :=
      match l with LFeed f => LFeed (ren_feed f) | LRelCbWatch i => LRelCbWatch (nc + i) | x => x end.

    Definition embkp (x : state * list obs) : state * list obs := (embk (fst x), map ren_obs (snd x)).

    Lemma assoc_k k (m : list (bytes * nat)) : assoc (ren k) (map sh_call m ++ ocl) = option_map (Nat.add nc) (assoc k m).
    Proof.
      rewrite assoc_app. unfold sh_call. rewrite assoc_ren. destruct (assoc k m); [reflexivity|].
      apply assoc_ren_olds. exact Hcl.
    Qed.

    Lemma assoc_del_k k (m : list (bytes * nat)) :
      assoc_del (ren k) (map sh_call m ++ ocl) = map sh_call (assoc_del k m) ++ ocl.
    Proof.
      rewrite assoc_del_app. unfold sh_call. rewrite assoc_del_ren. f_equal.
      apply assoc_del_absent. apply assoc_ren_olds. exact Hcl.
    Qed.

    Lemma assoc_old_k o (m : list (bytes * nat)) : old_id o = true -> assoc o (map sh_call m ++ ocl) = assoc o ocl.
    Proof. intros H. rewrite assoc_app. unfold sh_call. rewrite (assoc_old _ _ _ H). reflexivity. Qed.

    Lemma assoc_del_old_k o (m : list (bytes * nat)) : old_id o = true ->
      assoc_del o (map sh_call m ++ ocl) = map sh_call m ++ assoc_del o ocl.
    Proof. intros H. rewrite assoc_del_app. unfold sh_call. rewrite (assoc_del_old _ _ _ H). reflexivity. Qed.

    (** ** tasks, semaphore *)
    Lemma k_cancel_task s k : cancel_task k (embk s) = embk (cancel_task k s).
    Proof.
      unfold cancel_task. change (tasks (embk s)) with (tasks s).
      destruct (nth_error (tasks s) k) as [t|]; [|reflexivity]. destruct (t_st t); reflexivity.
    Qed.

    Lemma k_grant : forall fuel s acc,
      grant fuel (embk s) (map ren_obs acc) = (embk (fst (grant fuel s acc)), map ren_obs (snd (grant fuel s acc))).
    Proof.
      induction fuel as [|f IH]; intros s acc; [reflexivity|].
      cbn [grant]. change (sem_wait (embk s)) with (sem_wait s). change (sem_free (embk s)) with (sem_free s).
      destruct (sem_wait s) as [|k r]; [reflexivity|]. destruct (sem_free s) as [|fr]; [reflexivity|].
      change (tasks (embk s)) with (tasks s). destruct (nth_error (tasks s) k) as [t|]; [|reflexivity].
      destruct (t_builtin t).
      - rewrite <- IH. reflexivity.
      - rewrite <- IH. rewrite map_app. reflexivity.
    Qed.

    Lemma k_fold_cancel : forall (l : list (bytes * nat)) s,
      fold_left (fun st p => cancel_task (snd p) st) l (embk s) = embk (fold_left (fun st p => cancel_task (snd p) st) l s).
    Proof. induction l as [|p l IH]; intros s; cbn [fold_left]; auto. rewrite k_cancel_task. apply IH. Qed.

    (** ** stopLocked *)
    Lemma k_stage3_cbs s :
      map (fun c => match assoc (cb_id c) (calls (embk s)) with
                    | Some _ => c <| cb_cancelled := true |>
                                  <| cb_watch := match cb_watch c with WBlocked => WParked | w => w end |>
                    | None => c end) (cbs (embk s)) =
      ocb ++ map ren_cb (map (fun c => match assoc (cb_id c) (calls s) with
                    | Some _ => c <| cb_cancelled := true |>
                                  <| cb_watch := match cb_watch c with WBlocked => WParked | w => w end |>
                    | None => c end) (cbs s)).
    Proof.
      cbn [cbs calls embk]. rewrite map_app. f_equal.
      - rewrite <- (map_id ocb) at 2. apply map_ext_in. intros c Ic. rewrite (assoc_old_k _ _ (Hid c Ic)).
        destruct (assoc (cb_id c) ocl) as [j|] eqn:A; [|reflexivity].
        destruct (Hreg c Ic) as [Hc Hw]; [rewrite A; discriminate|].
        destruct c as [o i sl cx cc w rt]. cbn in *. subst cc. destruct w; try reflexivity. congruence.
      - rewrite !map_map. apply map_ext. intros c. cbn [cb_id ren_cb]. rewrite assoc_k.
        destruct (assoc (cb_id c) (calls s)); reflexivity.
    Qed.

    Lemma k_stage1 s : stage1 (embk s) = embk (stage1 s).
    Proof. reflexivity. Qed.
    Lemma k_stage2 s : stage2 (embk s) = embk (stage2 s).
    Proof. unfold stage2. change (work_closed (embk s)) with (work_closed s). destruct (work_closed s); reflexivity. Qed.
    Lemma k_stage3 s : stage3 (embk s) = embk (stage3 s).
    Proof. unfold stage3. st_ext. apply k_stage3_cbs. Qed.
    Lemma k_stage4 s : stage4 (embk s) = embk (stage4 s).
    Proof. unfold stage4. change (used (embk s)) with (used s). apply k_fold_cancel. Qed.
    Lemma k_stage5 c s : stage5 c (embk s) = embk (stage5 c s).
    Proof. reflexivity. Qed.
    Lemma k_stage6 s : stage6 (embk s) = embk (stage6 s).
    Proof.
      unfold stage6. change (c_unblock (embk s)) with (c_unblock s). destruct (c_unblock s); [|reflexivity].
      st_ext. rewrite map_app. reflexivity.
    Qed.

    Lemma k_stop_locked c s : stop_locked c (embk s) = embkp (stop_locked c s).
    Proof.
      rewrite !stop_locked_stages. change (running (embk s)) with (running s). destruct (running s); cbn [negb]; [|reflexivity].
      unfold embkp. cbn [fst snd map ren_obs].
      rewrite k_stage1, k_stage2, k_stage3, k_stage4, k_stage5, k_stage6. reflexivity.
    Qed.

    (** ** the dispatcher *)
    Lemma k_dequeue s : dequeue (embk s) = embk (dequeue s).
    Proof.
      unfold dequeue. change (inq (embk s)) with (inq s). change (running (embk s)) with (running s).
      destruct (inq s) as [|[batch ms] q]; [destruct (running s); reflexivity|]. reflexivity.
    Qed.

    Lemma k_release_ids : forall ts s, release_ids ts (embk s) = embk (release_ids ts s).
    Proof.
      induction ts as [|t r IH]; intros s; cbn [release_ids]; auto.
      destruct (t_hasctx t && negb (is_note t)); [|apply IH].
      change (used (embk s)) with (used s). destruct (assoc (t_id t) (used s)) as [owner|]; [|apply IH].
      rewrite k_cancel_task. rewrite <- IH. reflexivity.
    Qed.

    (** ** wake-ups *)
    Lemma k_settle_dp s : settle_dp (embk s) = option_map embkp (settle_dp s).
    Proof.
      unfold settle_dp. change (dp (embk s)) with (dp s). destruct (dp s) as [| | |u|u|]; try reflexivity.
      - change (running (embk s)) with (running s). change (inq (embk s)) with (inq s).
        destruct (negb (running s) || negb (is_nil_list (inq s))); [|reflexivity]. rewrite k_dequeue. reflexivity.
      - change (nbar (embk s)) with (nbar s). destruct (nbar s =? 0); [|reflexivity].
        change (units (embk s)) with (units s). destruct (nth_error (units s) u) as [un|]; reflexivity.
    Qed.

    Lemma k_settle_units s : settle_units (embk s) = option_map embkp (settle_units s).
    Proof.
      unfold settle_units.
      change (find_unit (unit_complete (embk s)) 0 (units (embk s))) with (find_unit (unit_complete s) 0 (units s)).
      destruct (find_unit (unit_complete s) 0 (units s)) as [i|].
      - change (units (embk s)) with (units s). destruct (nth_error (units s) i) as [un|]; [|reflexivity].
        change (unit_tasks (embk s) i) with (unit_tasks s i).
        destruct (is_nil_list (responses (unit_tasks s i))); reflexivity.
      - change (waits (embk s)) with (waits s). change (wg (embk s)) with (wg s). change (inq (embk s)) with (inq s).
        destruct ((0 <? waits s) && (wg s =? 0)); [|reflexivity]. destruct (is_nil_list (inq s)); reflexivity.
    Qed.

    Lemma k_settle1 s : settle1 (embk s) = option_map embkp (settle1 s).
    Proof.
      rewrite !settle1_rest. change (rd (embk s)) with (ren_rd (rd s)). change (ch_in (embk s)) with (map ren_feed (ch_in s)).
      assert (Rest : settle_rest (embk s) = option_map embkp (settle_rest s)).
      { unfold settle_rest. rewrite k_settle_dp. destruct (settle_dp s); [reflexivity|]. apply k_settle_units. }
      destruct (rd s); cbn [ren_rd]; try exact Rest. destruct (ch_in s) as [|f q]; cbn [map]; [exact Rest|]. reflexivity.
    Qed.

    Lemma k_settle : forall fuel s acc, settle fuel (embk s) (map ren_obs acc) = embkp (settle fuel s acc).
    Proof.
      induction fuel as [|f IH]; intros s acc; [reflexivity|]. cbn [settle]. rewrite k_settle1.
      destruct (settle1 s) as [[s1 os1]|]; cbn [option_map embkp fst snd]; [|reflexivity].
      rewrite <- map_app. apply IH.
    Qed.

    Lemma k_settle_fuel s : settle_fuel (embk s) = settle_fuel s.
    Proof. unfold settle_fuel. cbn [units ch_in inq waits embk]. rewrite map_length. reflexivity. Qed.

    (** ** callbacks *)
    Lemma k_nth_cb s i : nth_error (cbs (embk s)) (nc + i) = option_map ren_cb (nth_error (cbs s) i).
    Proof.
      cbn [cbs embk]. rewrite nth_error_app_shift. destruct (nth_error (cbs s) i) as [c|] eqn:E.
      - apply map_nth_error. exact E.
      - apply nth_error_None. rewrite map_length. apply nth_error_None. exact E.
    Qed.

    Lemma k_upd_cbs s i (f : cb -> cb) : (forall c, f (ren_cb c) = ren_cb (f c)) ->
      upd_nth (nc + i) f (cbs (embk s)) = ocb ++ map ren_cb (upd_nth i f (cbs s)).
    Proof. intros Hf. cbn [cbs embk]. rewrite upd_nth_app_shift. f_equal. apply upd_nth_map. exact Hf. Qed.

    Lemma k_complete_cb i r s : complete_cb (nc + i) r (embk s) = embkp (complete_cb i r s).
    Proof.
      unfold complete_cb. rewrite k_nth_cb. destruct (nth_error (cbs s) i) as [c|]; cbn [option_map]; [|reflexivity].
      unfold embkp. cbn [fst snd]. f_equal.
      - apply state_ext; try reflexivity.
        + apply assoc_del_k.
        + apply k_upd_cbs. reflexivity.
      - change (cb_ret (ren_cb c)) with (cb_ret c). destruct (cb_ret c); reflexivity.
    Qed.

    Lemma complete_cb_push i r s : c_push (fst (complete_cb i r s)) = c_push s.
    Proof. unfold complete_cb. destruct (nth_error (cbs s) i); reflexivity. Qed.

    Lemma reid_fields g m : j_method (reid g m) = j_method m /\ j_error (reid g m) = j_error m /\
      j_result (reid g m) = j_result m /\ has_reply_fields (reid g m) = has_reply_fields m.
    Proof. unfold reid. destruct (is_req_or_notif m); repeat split. Qed.

    Lemma k_filter_batch : forall ms s keep acc, c_push s = true -> forallb shaped_msg ms = true ->
      filter_batch (map ren_msg ms) (embk s) keep (map ren_obs acc) =
      let '(s1, k, o) := filter_batch ms s keep acc in (embk s1, k, map ren_obs o).
    Proof.
      induction ms as [|m r IH]; intros s keep acc Cp Sh; cbn [filter_batch map]; [reflexivity|].
      cbn [forallb] in Sh. apply andb_true_iff in Sh as [Sm Sr].
      unfold ren_msg at 1. rewrite reid_req. fold ren_msg.
      destruct (is_req_or_notif m) eqn:R.
      - assert (E : ren_msg m = m) by (unfold ren_msg, reid; rewrite R; reflexivity). rewrite E. apply IH; auto.
      - assert (Eid : fix_id (j_id (ren_msg m)) = ren (fix_id (j_id m))).
        { unfold ren_msg, reid. rewrite R. cbn [j_id]. apply fix_id_ren. }
        destruct (reid_fields ren m) as (Fm & Fe & Fr & Fh). fold ren_msg in Fm, Fe, Fr, Fh.
        rewrite Eid, Fm, Fe, Fr, Fh. change (calls (embk s)) with (map sh_call (calls s) ++ ocl). rewrite assoc_k.
        destruct (assoc (fix_id (j_id m)) (calls s)) as [i|]; cbn [option_map].
        + rewrite k_complete_cb.
          match goal with |- context [complete_cb i ?v s] =>
            pose proof (complete_cb_push i v s) as Cp1; destruct (complete_cb i v s) as [s1 os1] end.
          cbn [fst] in Cp1. cbn [embkp fst snd]. rewrite <- map_app. apply IH; [congruence|auto].
        + change (c_push (embk s)) with (c_push s). rewrite Cp. cbn [andb].
          destruct (is_nil (j_method m) && has_reply_fields m) eqn:RS; [apply IH; auto|].
          assert (E : ren_msg m = m).
          { apply reid_same. apply ren_not_pos. unfold shaped_msg, reply_shaped in Sm. rewrite R, RS in Sm.
            cbn [orb] in Sm. apply negb_true_iff in Sm. exact Sm. }
          rewrite E. apply IH; auto.
    Qed.

    Lemma k_filter_batch0 ms s : c_push s = true -> forallb shaped_msg ms = true ->
      filter_batch (map ren_msg ms) (embk s) [] [] =
      let '(s1, k, o) := filter_batch ms s [] [] in (embk s1, k, map ren_obs o).
    Proof. intros Cp Sh. exact (k_filter_batch ms s [] [] Cp Sh). Qed.

    Lemma k_read_cs f s : c_push s = true -> shaped_feed f = true -> read_cs (ren_feed f) (embk s) = embkp (read_cs f s).
    Proof.
      intros Cp Sh. destruct f as [i|i|sc]; unfold read_cs; unfold ren_feed; cbn [map_feed].
      1,2: change (running (embk s)) with (running s); destruct (negb (running s)); [reflexivity|];
           destruct i as [|b ms]; [reflexivity|]; destruct ms as [|m ms]; [reflexivity|];
           cbn [map_in]; change (map (reid ren) (m :: ms)) with (map ren_msg (m :: ms));
           cbn [shaped_feed shaped_in] in Sh; cbn [map];
           change (ren_msg m :: map ren_msg ms) with (map ren_msg (m :: ms));
           rewrite (k_filter_batch0 (m :: ms) s Cp Sh); destruct (filter_batch (m :: ms) s [] []) as [[s1 keep] os1];
           destruct keep as [|k0 kr]; [reflexivity|]; cbv zeta;
           match goal with |- (if ?x then _ else _) = embkp (if ?y then _ else _) => change x with y; destruct y end;
           unfold embkp; cbn [fst snd]; rewrite ?map_app; reflexivity.
      rewrite k_stop_locked. destruct (stop_locked sc s) as [s2 os2]. reflexivity.
    Qed.

    Lemma k_grant0 fuel s : grant fuel (embk s) [] = (embk (fst (grant fuel s [])), map ren_obs (snd (grant fuel s []))).
    Proof. exact (k_grant fuel s []). Qed.

    (** ** critical sections *)
    (* (iii) LCbCtxEnd is not used with the operation number of an old record *)
    Definition ops_fresh (l : label) : bool :=
      match l with LCbCtxEnd n _ => forallb (fun c => negb (cb_op c =? n)) ocb | _ => true end.
    Definition rd_shaped (s : state) : bool := match rd s with RHold f => shaped_feed f | _ => true end.

    Lemma add_eqb_l j i : (nc + j =? nc + i) = (j =? i).
    Proof. destruct (Nat.eqb_spec j i), (Nat.eqb_spec (nc + j) (nc + i)); auto; lia. Qed.

    Lemma k_step_raw s l : c_push s = true -> 1 <= call_id s -> rd_shaped s = true -> ops_fresh l = true ->
      step_raw (embk s) (renk_label l) = option_map embkp (step_raw s l).
    Proof.
      intros Cp Ci Rs Of. destruct l; cbn [renk_label step_raw].
      - (* LStart *)
        change (running (embk s)) with (running s). change (wg (embk s)) with (wg s).
        destruct (negb (running s) && (wg s =? 0)); reflexivity.
      - (* LFeed *)
        cbn [option_map]. unfold embkp. cbn [fst snd map]. f_equal. f_equal. apply state_ext; try reflexivity.
        cbn. rewrite map_app. reflexivity.
      - reflexivity.
      - (* LGate *)
        change (tasks (embk s)) with (tasks s). destruct (find_idx _ 0 (tasks s)) as [k|]; [|reflexivity].
        destruct (nth_error (tasks s) k) as [t|]; reflexivity.
      - reflexivity.
      - reflexivity.
      - change (c_push (embk s)) with (c_push s). destruct (c_push s); reflexivity.
      - reflexivity.
      - (* LCbCtxEnd *)
        cbn [ops_fresh] in Of.
        assert (F : find_idx (fun c => cb_op c =? n) 0 (cbs (embk s)) =
                    option_map (Nat.add nc) (find_idx (fun c => cb_op c =? n) 0 (cbs s))).
        { cbn [cbs embk]. rewrite find_idx_app_none.
          - rewrite find_idx_map. cbn [Nat.add]. replace nc with (nc + 0) at 1 by lia.
            rewrite find_idx_add. reflexivity.
          - intros c Ic. rewrite forallb_forall in Of. apply negb_true_iff. apply Of. exact Ic. }
        rewrite F. destruct (find_idx _ 0 (cbs s)) as [i|]; cbn [option_map]; [|reflexivity].
        unfold embkp. cbn [fst snd map]. f_equal. f_equal. apply state_ext; try reflexivity.
        apply k_upd_cbs. intros c. change (cb_cancelled (ren_cb c)) with (cb_cancelled c).
        destruct (cb_cancelled c); reflexivity.
      - (* LRelRead *)
        unfold rd_shaped in Rs. change (rd (embk s)) with (ren_rd (rd s)). destruct (rd s); try reflexivity.
        cbn [ren_rd option_map]. f_equal. apply k_read_cs; auto.
      - (* LRelNext *)
        change (dp (embk s)) with (dp s). destruct (dp s); try reflexivity. rewrite k_dequeue. reflexivity.
      - (* LRelBarrier *)
        change (dp (embk s)) with (dp s). destruct (dp s); reflexivity.
      - (* LRelAcquire *)
        change (tasks (embk s)) with (tasks s). destruct (nth_error (tasks s) k) as [t|]; [|reflexivity].
        destruct (t_st t); try reflexivity.
        change (unit_running (embk s) t) with (unit_running s t). destruct (negb (unit_running s t)); [reflexivity|].
        destruct (t_cancelled t); [reflexivity|].
        change (sem_free (embk s)) with (sem_free s). change (sem_wait (embk s)) with (sem_wait s).
        destruct (sem_free s) as [|fr]; [reflexivity|]. destruct (sem_wait s) as [|j r]; [|reflexivity].
        destruct (t_builtin t); reflexivity.
      - (* LRelHandled *)
        change (tasks (embk s)) with (tasks s). destruct (nth_error (tasks s) k) as [t|]; [|reflexivity].
        destruct (t_st t) as [| | | |o|]; try reflexivity.
        set (s1 := set_task k (fun t0 => t0 <| t_st := TDone (body_of_outcome t0 o) |>) s <| sem_free ::= S |>).
        change (set_task k (fun t0 => t0 <| t_st := TDone (body_of_outcome t0 o) |>) (embk s) <| sem_free ::= S |>)
          with (embk s1).
        change (sem_wait (embk s1)) with (sem_wait s1). rewrite k_grant0.
        destruct (grant (S (length (sem_wait s1))) s1 []) as [s2 os2]. cbn [fst snd].
        change (nbar (embk s2)) with (nbar s2).
        destruct (is_note t); [destruct (nbar s2)|]; cbn [option_map]; unfold embkp; cbn [fst snd]; rewrite ?map_app;
          reflexivity.
      - (* LRelDeliver *)
        change (units (embk s)) with (units s). destruct (nth_error (units s) u) as [un|]; [|reflexivity].
        destruct (u_st un); try reflexivity.
        change (unit_tasks (embk s) u) with (unit_tasks s u). rewrite k_release_ids.
        destruct (negb (u_chok un)); reflexivity.
      - (* LRelStop *)
        change (ops (embk s)) with (ops s). destruct (find_op n (ops s)) as [[n0|n0 id|n0 w m p]|]; try reflexivity.
        change (embk s <| ops ::= del_op n |>) with (embk (s <| ops ::= del_op n |>)). rewrite k_stop_locked.
        destruct (stop_locked SCStop (s <| ops ::= del_op n |>)) as [s2 os2].
        cbn [option_map]. unfold embkp. cbn [fst snd]. rewrite map_app. reflexivity.
      - (* LRelCancel *)
        change (ops (embk s)) with (ops s). destruct (find_op n (ops s)) as [[n0|n0 id|n0 w m p]|]; try reflexivity.
        change (embk s <| ops ::= del_op n |>) with (embk (s <| ops ::= del_op n |>)).
        change (used (embk (s <| ops ::= del_op n |>))) with (used (s <| ops ::= del_op n |>)).
        destruct (assoc id (used (s <| ops ::= del_op n |>))) as [owner|]; [rewrite k_cancel_task|]; reflexivity.
      - (* LRelPush *)
        change (ops (embk s)) with (ops s). destruct (find_op n (ops s)) as [[n0|n0 id|n0 w m p]|]; try reflexivity.
        set (s1 := s <| ops ::= del_op n |>). change (embk s <| ops ::= del_op n |>) with (embk s1).
        change (running (embk s1)) with (running s1). destruct (negb (running s1)); [reflexivity|].
        change (send_fail (embk s1)) with (send_fail s1).
        destruct w.
        2:{ cbn [option_map]. unfold embkp. cbn [fst snd map ren_obs]. rewrite ren_nil. reflexivity. }
        change (call_id (embk s1)) with (dk + call_id s1).
        assert (Cj : exists j, call_id s1 = S j) by (exists (call_id s - 1); change (call_id s1) with (call_id s); lia).
        destruct Cj as (j & Cj). rewrite Cj. rewrite <- (ren_dec j).
        destruct (send_fail s1).
        + cbn [option_map]. unfold embkp. cbn [fst snd map ren_obs]. f_equal. f_equal.
          apply state_ext; try reflexivity.
          * cbn. lia.
          * cbn. rewrite map_app, app_assoc. reflexivity.
        + change (ended (embk s1)) with (ended s1).
          cbn [option_map]. unfold embkp. cbn [fst snd map ren_obs]. f_equal. f_equal.
          apply state_ext; try reflexivity.
          * cbn. rewrite app_length, map_length. f_equal. apply assoc_del_k.
          * cbn. lia.
          * cbn. rewrite map_app, app_assoc. f_equal. cbn [map]. f_equal.
            destruct (find (fun e => fst e =? n) (ended s)) as [[? ?]|]; reflexivity.
      - (* LRelCbWatch *)
        rewrite k_nth_cb. destruct (nth_error (cbs s) c) as [cb0|]; [|reflexivity]. cbn [option_map].
        change (cb_watch (ren_cb cb0)) with (cb_watch cb0). destruct (cb_watch cb0); try reflexivity.
        assert (E1 : embk s <| cbs ::= upd_nth (nc + c) (fun c0 => c0 <| cb_watch := WDone |>) |> =
                     embk (s <| cbs ::= upd_nth c (fun c0 => c0 <| cb_watch := WDone |>) |>)).
        { apply state_ext; try reflexivity. apply k_upd_cbs. reflexivity. }
        rewrite E1. set (s1 := s <| cbs ::= upd_nth c (fun c0 => c0 <| cb_watch := WDone |>) |>).
        change (calls (embk s1)) with (map sh_call (calls s1) ++ ocl). change (cb_id (ren_cb cb0)) with (ren (cb_id cb0)).
        rewrite assoc_k.
        destruct (assoc (cb_id cb0) (calls s1)) as [j|]; cbn [option_map]; [|reflexivity].
        change (cb_slot (ren_cb cb0)) with (cb_slot cb0). destruct (cb_slot cb0); [reflexivity|].
        rewrite add_eqb_l. destruct (j =? c); [|reflexivity].
        change (cb_ctx (ren_cb cb0)) with (cb_ctx cb0).
        destruct (match cb_ctx cb0 with Some WDeadline => _ | _ => _ end) as [code msg].
        cbn [option_map]. f_equal. apply k_complete_cb.
    Qed.

    (** ** windows *)
    Theorem k_step s l : c_push s = true -> 1 <= call_id s -> rd_shaped s = true -> ops_fresh l = true ->
      step (embk s) (renk_label l) = option_map embkp (step s l).
    Proof.
      intros Cp Ci Rs Of. unfold step. change (crash (embk s)) with (crash s). destruct (crash s); [reflexivity|].
      rewrite k_step_raw by auto. destruct (step_raw s l) as [[s1 os]|]; cbn [option_map embkp fst snd]; [|reflexivity].
      change (crash (embk s1)) with (crash s1). destruct (crash s1); [reflexivity|].
      rewrite k_settle_fuel, k_settle. reflexivity.
    Qed.
  End K.

  (** ** the old records, and the release of the watcher of one of them *)
  (* ocb: the callback records of earlier incarnations; ocl: the registrations among them that are still pending (the
     Callback has not returned yet: its context was cancelled by Stop and its watcher has not run yet) *)
  Definition old_ok (ocb : list cb) (ocl : list (bytes * nat)) : Prop :=
    (forall c, In c ocb -> old_id (cb_id c) = true) /\
    (forall p, In p ocl -> old_id (fst p) = true) /\
    (forall c, In c ocb -> assoc (cb_id c) ocl <> None -> cb_cancelled c = true /\ cb_watch c <> WBlocked).

  Definition mark_done (i : nat) (ocb : list cb) : list cb := upd_nth i (fun c => c <| cb_watch := WDone |>) ocb.
  Definition cancel_code (c : cb) : Z * bytes :=
    match cb_ctx c with Some WDeadline => (DeadlineExceeded, s_ctx_deadline) | _ => (Cancelled, s_ctx_canceled) end.

  (* what the release of the watcher of old record i does to the old records: it is marked done; if its callback is
     still registered and unanswered, the callback is completed with the cancellation, which returns to its caller *)
  Definition old_release (i : nat) (ocb : list cb) (ocl : list (bytes * nat)) :
    option (list cb * list (bytes * nat) * list obs) :=
    match nth_error ocb i with
    | Some c =>
        match cb_watch c with
        | WParked =>
            match assoc (cb_id c) ocl, cb_slot c with
            | Some j, None =>
                if j =? i then
                  Some (upd_nth i (fun c0 => wake_watch (c0 <| cb_slot := Some (CErr (fst (cancel_code c)) (snd (cancel_code c))) |>))
                          (mark_done i ocb),
                        assoc_del (cb_id c) ocl,
                        if cb_ret c then [] else [ORet (cb_op c) (ctx_res (fst (cancel_code c)) (snd (cancel_code c)))])
                else Some (mark_done i ocb, ocl, [])
            | _, _ => Some (mark_done i ocb, ocl, [])
            end
        | _ => None
        end
    | None => None
    end.

  Lemma mark_done_length i ocb : length (mark_done i ocb) = length ocb.
  Proof. apply upd_nth_length. Qed.

  Lemma old_ok_upd ocb ocl ocl' i (F : cb -> cb) : old_ok ocb ocl ->
    (forall c, cb_id (F c) = cb_id c /\ cb_watch (F c) <> WBlocked /\ (cb_cancelled c = true -> cb_cancelled (F c) = true)) ->
    (forall p, In p ocl' -> In p ocl) -> (forall k, assoc k ocl' <> None -> assoc k ocl <> None) ->
    old_ok (upd_nth i F ocb) ocl'.
  Proof.
    intros (H1 & H2 & H3) HF Sub SubA. split; [|split].
    - intros c Ic. apply in_upd_nth in Ic as [Ic|(x & N & ->)]; [apply H1; exact Ic|].
      destruct (HF x) as (E & _). rewrite E. apply H1. eapply nth_error_In; eauto.
    - intros q Iq. apply H2, Sub, Iq.
    - intros c Ic A. apply in_upd_nth in Ic as [Ic|(x & N & ->)]; [apply H3; auto|].
      destruct (HF x) as (E & W & Cc). rewrite E in A. split; [|exact W].
      apply Cc. apply (H3 x); [eapply nth_error_In; eauto|apply SubA; exact A].
  Qed.

  Lemma old_release_ok i ocb ocl ocb' ocl' os : old_ok ocb ocl -> old_release i ocb ocl = Some (ocb', ocl', os) ->
    old_ok ocb' ocl' /\ length ocb' = length ocb /\ map cb_op ocb' = map cb_op ocb /\ map cb_id ocb' = map cb_id ocb /\
    (forall p, In p ocl' -> In p ocl) /\ map ren_obs os = os /\
    (os = [] \/ (ocl <> [] /\ exists n r, In n (map cb_op ocb) /\ os = [ORet n r])).
  Proof.
    intros Ho H. unfold old_release in H. destruct (nth_error ocb i) as [c|] eqn:N; [|discriminate].
    destruct (cb_watch c); try discriminate.
    assert (Mk : old_ok (mark_done i ocb) ocl /\ length (mark_done i ocb) = length ocb /\
                 map cb_op (mark_done i ocb) = map cb_op ocb /\ map cb_id (mark_done i ocb) = map cb_id ocb).
    { split; [|split; [|split]].
      - apply (old_ok_upd ocb ocl ocl i _ Ho); auto. intros c0. cbn. repeat split; auto. discriminate.
      - apply mark_done_length.
      - apply map_upd_nth_same. reflexivity.
      - apply map_upd_nth_same. reflexivity. }
    destruct Mk as (M1 & M2 & M3 & M4).
    assert (Silent : (mark_done i ocb, ocl, @nil obs) = (ocb', ocl', os) ->
      old_ok ocb' ocl' /\ length ocb' = length ocb /\ map cb_op ocb' = map cb_op ocb /\ map cb_id ocb' = map cb_id ocb /\
      (forall p, In p ocl' -> In p ocl) /\ map ren_obs os = os /\
      (os = [] \/ (ocl <> [] /\ exists n r, In n (map cb_op ocb) /\ os = [ORet n r]))).
    { intros [= <- <- <-]. split; [exact M1|]. repeat split; auto. }
    destruct (assoc (cb_id c) ocl) as [j|] eqn:A; [|apply Silent; congruence].
    destruct (cb_slot c); [apply Silent; congruence|].
    destruct (j =? i); [|apply Silent; congruence].
    injection H as <- <- <-. split; [|split; [|split; [|split; [|split; [|split]]]]].
    - unfold mark_done. rewrite upd_nth_upd_nth.
      apply (old_ok_upd ocb ocl _ i _ Ho).
      + intros c0. cbn. repeat split; auto. discriminate.
      + intros p Ip. apply in_assoc_del in Ip as [Ip _]. exact Ip.
      + intros k Ak. destruct (assoc k (assoc_del (cb_id c) ocl)) as [v|] eqn:E; [|congruence].
        rewrite (assoc_assoc_del_some _ _ _ _ E). discriminate.
    - rewrite upd_nth_length. exact M2.
    - rewrite map_upd_nth_same by reflexivity. exact M3.
    - rewrite map_upd_nth_same by reflexivity. exact M4.
    - intros p Ip. apply in_assoc_del in Ip as [Ip _]. exact Ip.
    - destruct (cb_ret c); reflexivity.
    - destruct (cb_ret c); [left; reflexivity|right]. split; [intros E; rewrite E in A; discriminate|].
      eexists _, _. split; [|reflexivity]. apply in_map. eapply nth_error_In; eauto.
  Qed.

  Lemma embk_calls_len ocb ocb' ocl s : length ocb' = length ocb ->
    map (sh_call ocb') (calls s) ++ ocl = map (sh_call ocb) (calls s) ++ ocl.
  Proof. intros L. unfold sh_call. rewrite L. reflexivity. Qed.

  Lemma embk_old_watch_raw ocb ocl s i : old_ok ocb ocl -> i < length ocb ->
    step_raw (embk ocb ocl s) (LRelCbWatch i) =
    match old_release i ocb ocl with Some (ocb', ocl', os) => Some (embk ocb' ocl' s, os) | None => None end.
  Proof.
    intros (H1 & H2 & H3) L. cbn [step_raw]. unfold old_release.
    destruct (nth_error ocb i) as [c|] eqn:N; [|apply nth_error_None in N; lia].
    assert (N' : nth_error (cbs (embk ocb ocl s)) i = Some c) by (cbn [cbs embk]; apply nth_error_app_old; exact N).
    rewrite N'. destruct (cb_watch c); try reflexivity.
    set (s1 := embk ocb ocl s <| cbs ::= upd_nth i (fun c0 => c0 <| cb_watch := WDone |>) |>).
    assert (Oc : old_id (cb_id c) = true) by (apply H1; eapply nth_error_In; eauto).
    change (calls s1) with (map (sh_call ocb) (calls s) ++ ocl). rewrite (assoc_old_k ocb ocl _ _ Oc).
    assert (Silent : Some (s1, @nil obs) = Some (embk (mark_done i ocb) ocl s, [])).
    { f_equal. f_equal. unfold s1. apply state_ext; try reflexivity.
      - cbn. apply embk_calls_len. symmetry. apply mark_done_length.
      - cbn. apply upd_nth_app_l. exact L. }
    destruct (assoc (cb_id c) ocl) as [j|]; [|exact Silent]. destruct (cb_slot c); [exact Silent|].
    destruct (j =? i); [|exact Silent].
    unfold cancel_code. destruct (match cb_ctx c with Some WDeadline => _ | _ => _ end) as [code msg]. cbn [fst snd].
    unfold complete_cb.
    assert (N1 : nth_error (cbs s1) i = Some (c <| cb_watch := WDone |>)).
    { unfold s1. cbn [cbs embk set]. cbn. rewrite (upd_nth_app_l _ _ _ _ L).
      apply nth_error_app_old. apply nth_error_upd_nth_eq. exact N. }
    rewrite N1. f_equal. f_equal. apply state_ext; try reflexivity.
    - cbn. rewrite (assoc_del_old_k ocb ocl _ _ Oc). unfold sh_call. rewrite upd_nth_length, mark_done_length. reflexivity.
    - cbn. rewrite (upd_nth_app_l _ _ _ _ L). apply upd_nth_app_l. unfold mark_done. rewrite upd_nth_length. exact L.
  Qed.

  Lemma embk_old_watch ocb ocl s i : old_ok ocb ocl -> i < length ocb -> settle1 s = None ->
    step (embk ocb ocl s) (LRelCbWatch i) =
    match crash s, old_release i ocb ocl with
    | None, Some (ocb', ocl', os) => Some (embk ocb' ocl' s, os)
    | _, _ => None
    end.
  Proof.
    intros Ho L St. unfold step. change (crash (embk ocb ocl s)) with (crash s). destruct (crash s) eqn:Cr; [reflexivity|].
    rewrite (embk_old_watch_raw ocb ocl s i Ho L).
    destruct (old_release i ocb ocl) as [[[ocb' ocl'] os]|] eqn:E; [|reflexivity].
    destruct (old_release_ok _ _ _ _ _ _ Ho E) as (_ & _ & _ & _ & _ & Eo & _).
    change (crash (embk ocb' ocl' s)) with (crash s). rewrite Cr.
    rewrite k_settle_fuel. rewrite <- Eo at 1. rewrite k_settle.
    rewrite (SrvC09b.settle_none _ s os St). unfold embkp. cbn [fst snd]. rewrite Eo. reflexivity.
  Qed.
End Ren.

(** * Invariants of the run of a server with AllowPush, fed shaped records *)
Definition fed_ok (s : state) : Prop := (forall f, In f (ch_in s) -> shaped_feed f = true) /\ rd_shaped s = true.
Definition pinv (s : state) : Prop := c_push s = true /\ 1 <= call_id s /\ fed_ok s.
Definition lab_shaped (l : label) : bool := match l with LFeed f => shaped_feed f | _ => true end.

Definition pvw (s : state) := (c_push s, call_id s, ch_in s, rd s).
Definition evo (s s' : state) : Prop :=
  c_push s' = c_push s /\ call_id s <= call_id s' /\
  (forall f, In f (ch_in s') -> In f (ch_in s) \/ f = FErr SCClosing) /\
  (rd s' = rd s \/ forall f, rd s' <> RHold f).

Lemma evo_pvw s s' : pvw s' = pvw s -> evo s s'.
Proof. unfold pvw. intros [= A B C D]. unfold evo. rewrite A, B, C, D. repeat split; auto. Qed.

Lemma evo_trans a b c : evo a b -> evo b c -> evo a c.
Proof.
  intros (A1 & A2 & A3 & A4) (B1 & B2 & B3 & B4). split; [congruence|]. split; [lia|]. split.
  - intros f I. destruct (B3 f I) as [I'|E]; auto.
  - destruct B4 as [E|N]; [|right; exact N]. destruct A4 as [E'|N']; [left; congruence|right]. rewrite E. exact N'.
Qed.

Lemma evo_pinv s s' : evo s s' -> pinv s -> pinv s'.
Proof.
  intros (A1 & A2 & A3 & A4) (P1 & P2 & P3 & P4). split; [congruence|]. split; [lia|]. split.
  - intros f I. destruct (A3 f I) as [I'|E]; [auto|subst f; reflexivity].
  - unfold rd_shaped in *. destruct A4 as [E|N]; [rewrite E; exact P4|].
    destruct (rd s') as [| |f|] eqn:R; auto. exfalso. apply (N f). reflexivity.
Qed.

Lemma cancel_task_pvw k s : pvw (cancel_task k s) = pvw s.
Proof. unfold cancel_task. destruct (nth_error (tasks s) k) as [t|]; auto. destruct (t_st t); reflexivity. Qed.

Lemma grant_pvw : forall fuel s acc, pvw (fst (grant fuel s acc)) = pvw s.
Proof.
  induction fuel as [|f IH]; cbn [grant]; intros s acc; [reflexivity|].
  destruct (sem_wait s) as [|k r]; [reflexivity|]. destruct (sem_free s) as [|fr]; [reflexivity|].
  destruct (nth_error (tasks s) k) as [t|]; [|reflexivity]. destruct (t_builtin t); rewrite IH; reflexivity.
Qed.

Lemma fold_cancel_pvw : forall (l : list (bytes * nat)) s,
  pvw (fold_left (fun st p => cancel_task (snd p) st) l s) = pvw s.
Proof. induction l as [|p l IH]; cbn; intros s; auto. rewrite IH. apply cancel_task_pvw. Qed.

Lemma release_ids_pvw : forall ts s, pvw (release_ids ts s) = pvw s.
Proof.
  induction ts as [|t r IH]; cbn [release_ids]; intros s; auto. rewrite IH.
  destruct (t_hasctx t && negb (is_note t)); auto. destruct (assoc (t_id t) (used s)) as [n|]; auto.
  change (pvw (cancel_task n s) = pvw s). apply cancel_task_pvw.
Qed.

Lemma dequeue_pvw s : pvw (dequeue s) = pvw s.
Proof. unfold dequeue. destruct (inq s) as [|[b ms] q]; [destruct (running s)|]; reflexivity. Qed.

Lemma complete_cb_pvw i r s : pvw (fst (complete_cb i r s)) = pvw s.
Proof. unfold complete_cb. destruct (nth_error (cbs s) i); reflexivity. Qed.

Lemma filter_batch_pvw : forall ms s keep acc, pvw (fst (fst (filter_batch ms s keep acc))) = pvw s.
Proof.
  induction ms as [|m r IH]; intros s keep acc; cbn [filter_batch]; [reflexivity|].
  destruct (is_req_or_notif m); [apply IH|].
  destruct (assoc (fix_id (j_id m)) (calls s)) as [i|].
  - match goal with |- context [complete_cb i ?v s] =>
      pose proof (complete_cb_pvw i v s) as P; destruct (complete_cb i v s) as [s1 os1] end.
    cbn [fst] in P. rewrite IH. exact P.
  - destruct (c_push s && is_nil (j_method m) && has_reply_fields m); apply IH.
Qed.

Lemma stop_locked_evo c s : evo s (fst (stop_locked c s)) /\ rd (fst (stop_locked c s)) = rd s.
Proof.
  rewrite stop_locked_stages. destruct (negb (running s)); cbn [fst]; [split; [apply evo_pvw|]; reflexivity|].
  set (s3 := stage3 (stage2 (stage1 s))).
  assert (P3 : pvw s3 = pvw s).
  { unfold s3, stage3, stage2. destruct (work_closed (stage1 s)); reflexivity. }
  pose proof (fold_cancel_pvw (used s3) s3) as P4. fold (stage4 s3) in P4. rewrite P3 in P4.
  unfold pvw in P4. injection P4 as Q1 Q2 Q3 Q4. set (s4 := stage4 s3) in *. clearbody s4. clear P3. clearbody s3.
  unfold stage6, stage5. match goal with |- context [if ?b then _ else _] => destruct b end; (split; [|exact Q4]).
  - unfold evo. cbn. rewrite Q1, Q2, Q3, Q4. repeat split; auto.
    intros f I. apply in_app_or in I as [I|[<-|[]]]; auto.
  - apply evo_pvw. unfold pvw. cbn. congruence.
Qed.

Lemma read_cs_evo f s : evo (s <| rd := RIdle |>) (fst (read_cs f s)) /\ forall g, rd (fst (read_cs f s)) <> RHold g.
Proof.
  destruct f as [i|i|sc]; unfold read_cs.
  1,2: destruct (negb (running s));
       [split; [unfold evo; cbn; repeat split; auto; right; intros ?; discriminate|cbn; intros ?; discriminate]|];
       destruct i as [|b ms]; [split; [apply evo_pvw; reflexivity|cbn; intros ?; discriminate]|];
       destruct ms as [|m ms]; [split; [apply evo_pvw; reflexivity|cbn; intros ?; discriminate]|];
       pose proof (filter_batch_pvw (m :: ms) s [] []) as P;
       destruct (filter_batch (m :: ms) s [] []) as [[s1 keep] os1]; cbn [fst] in P;
       unfold pvw in P; injection P as Q1 Q2 Q3 Q4;
       destruct keep as [|k0 kr];
       [split; [apply evo_pvw; unfold pvw; cbn; congruence|cbn; intros ?; discriminate]|]; cbv zeta;
       match goal with |- context [if ?b then _ else _] => destruct b end;
       (split; [apply evo_pvw; unfold pvw; cbn; congruence|cbn; intros ?; discriminate]).
  destruct (stop_locked_evo sc s) as [(E1 & E2 & E3 & E4) Er]. destruct (stop_locked sc s) as [s2 os2]. cbn [fst] in *.
  split; [|cbn; intros ?; discriminate]. unfold evo. cbn. repeat split; auto. right. intros ?; discriminate.
Qed.

Lemma evo_rd_upd s s' : evo (s <| rd := RIdle |>) s' -> (forall g, rd s' <> RHold g) -> evo s s'.
Proof. intros (A1 & A2 & A3 & _) N. repeat split; auto. Qed.

Lemma settle1_pinv s s' os : settle1 s = Some (s', os) -> pinv s -> pinv s'.
Proof.
  intros H P. apply settle1_inv in H. destruct H.
  - destruct P as (P1 & P2 & P3 & P4). repeat split; auto.
    + cbn. intros g I. apply P3. rewrite H0. right. exact I.
    + unfold rd_shaped. cbn. apply P3. rewrite H0. left. reflexivity.
  - eapply evo_pinv; [apply evo_pvw, dequeue_pvw|exact P].
  - eapply evo_pinv; [apply evo_pvw; reflexivity|exact P].
  - eapply evo_pinv; [apply evo_pvw; reflexivity|exact P].
  - eapply evo_pinv; [apply evo_pvw; reflexivity|exact P].
  - eapply evo_pinv; [apply evo_pvw; reflexivity|exact P].
  - eapply evo_pinv; [apply evo_pvw; reflexivity|exact P].
Qed.

Lemma settle_pinv : forall fuel s acc, pinv s -> pinv (fst (settle fuel s acc)).
Proof.
  induction fuel as [|f IH]; intros s acc P; cbn [settle]; [exact P|].
  destruct (settle1 s) as [[s1 os1]|] eqn:E; [|exact P]. apply IH. eapply settle1_pinv; eauto.
Qed.

Lemma step_raw_pinv s l s' os : step_raw s l = Some (s', os) -> lab_shaped l = true -> pinv s -> pinv s'.
Proof.
  intros H Ls P.
  assert (EV : forall x, evo s x -> pinv x) by (intros x E; eapply evo_pinv; eauto).
  assert (PV : forall x, pvw x = pvw s -> pinv x) by (intros x E; apply EV, evo_pvw, E).
  destruct l; cbn [step_raw] in H.
  - (* LStart *)
    destruct (negb (running s) && (wg s =? 0)); [|discriminate]. injection H as <- _. apply EV.
    unfold evo. cbn. repeat split; auto; [intros f []|right; discriminate].
  - (* LFeed *)
    injection H as <- _. destruct P as (P1 & P2 & P3 & P4). repeat split; auto.
    cbn. intros g I. apply in_app_or in I as [I|[<-|[]]]; auto.
  - injection H as <- _. apply PV. reflexivity.
  - destruct (find_idx _ 0 (tasks s)) as [k|]; [|discriminate]. destruct (nth_error (tasks s) k); [|discriminate].
    injection H as <- _. apply PV. reflexivity.
  - injection H as <- _. apply PV. reflexivity.
  - injection H as <- _. apply PV. reflexivity.
  - destruct (c_push s); injection H as <- _; apply PV; reflexivity.
  - injection H as <- _. apply PV. reflexivity.
  - destruct (find_idx _ 0 (cbs s)); injection H as <- _; apply PV; reflexivity.
  - (* LRelRead *)
    destruct (rd s) as [| |f|] eqn:R; try discriminate. injection H as H.
    destruct (read_cs_evo f s) as [E N]. rewrite H in E, N. cbn [fst] in E, N. apply EV. apply evo_rd_upd; auto.
  - destruct (dp s); try discriminate. injection H as <- _. apply PV, dequeue_pvw.
  - destruct (dp s); try discriminate. injection H as <- _. apply PV. reflexivity.
  - (* LRelAcquire *)
    destruct (nth_error (tasks s) k) as [t|]; [|discriminate]. destruct (t_st t); try discriminate.
    destruct (negb (unit_running s t)); [discriminate|].
    destruct (t_cancelled t); [injection H as <- _; apply PV; reflexivity|].
    destruct (sem_free s) as [|fr]; [injection H as <- _; apply PV; reflexivity|].
    destruct (sem_wait s) as [|j r]; [|injection H as <- _; apply PV; reflexivity].
    destruct (t_builtin t); injection H as <- _; apply PV; reflexivity.
  - (* LRelHandled *)
    destruct (nth_error (tasks s) k) as [t|]; [|discriminate]. destruct (t_st t) as [| | | |o|]; try discriminate.
    match type of H with context [grant ?f ?x ?a] =>
      pose proof (grant_pvw f x a) as G; destruct (grant f x a) as [s2 os2] end.
    cbn [fst] in G.
    destruct (is_note t); [destruct (nbar s2)|]; injection H as <- _; apply PV;
      (transitivity (pvw s2); [reflexivity|rewrite G; reflexivity]).
  - (* LRelDeliver *)
    destruct (nth_error (units s) u) as [un|]; [|discriminate]. destruct (u_st un); try discriminate.
    pose proof (release_ids_pvw (unit_tasks s u) s) as G.
    destruct (negb (u_chok un)); injection H as <- _; apply PV;
      (transitivity (pvw (release_ids (unit_tasks s u) s)); [reflexivity|exact G]).
  - (* LRelStop *)
    destruct (find_op n (ops s)) as [[| |]|]; try discriminate.
    destruct (stop_locked_evo SCStop (s <| ops ::= del_op n |>)) as [E _].
    destruct (stop_locked SCStop (s <| ops ::= del_op n |>)) as [s2 os2]. cbn [fst] in E. injection H as <- _.
    apply EV. eapply evo_trans; [|exact E]. apply evo_pvw. reflexivity.
  - (* LRelCancel *)
    destruct (find_op n (ops s)) as [[| |]|]; try discriminate. injection H as <- _.
    destruct (assoc id _) as [owner|]; apply PV; [|reflexivity].
    exact (cancel_task_pvw owner (s <| ops ::= del_op n |>)).
  - (* LRelPush *)
    destruct (find_op n (ops s)) as [[| |n' w m p]|]; try discriminate.
    destruct (negb (running (s <| ops ::= del_op n |>))); [injection H as <- _; apply PV; reflexivity|].
    destruct w; [|injection H as <- _; apply PV; reflexivity].
    destruct (send_fail (s <| ops ::= del_op n |>)); injection H as <- _; apply EV;
      unfold evo; cbn; repeat split; auto.
  - (* LRelCbWatch *)
    destruct (nth_error (cbs s) c) as [cb0|]; [|discriminate]. destruct (cb_watch cb0); try discriminate.
    set (s1 := s <| cbs ::= upd_nth c (fun c0 => c0 <| cb_watch := WDone |>) |>) in *.
    destruct (assoc (cb_id cb0) (calls s1)) as [j|]; [|injection H as <- _; apply PV; reflexivity].
    destruct (cb_slot cb0); [injection H as <- _; apply PV; reflexivity|].
    destruct (j =? c); [|injection H as <- _; apply PV; reflexivity].
    destruct (match cb_ctx cb0 with Some WDeadline => _ | _ => _ end) as [code msg].
    injection H as H. pose proof (complete_cb_pvw c (CErr code msg) s1) as G. rewrite H in G. cbn [fst] in G.
    apply PV. rewrite G. reflexivity.
Qed.

Lemma step_pinv s l s' os : step s l = Some (s', os) -> lab_shaped l = true -> pinv s -> pinv s'.
Proof.
  intros H Ls P. apply step_decompose in H as (_ & s1 & os1 & Raw & [(_ & -> & _)|(_ & Hs)]).
  - eapply step_raw_pinv; eauto.
  - pose proof (settle_pinv (settle_fuel s1) s1 os1 (step_raw_pinv _ _ _ _ Raw Ls P)) as Q. rewrite Hs in Q. exact Q.
Qed.

Lemma step_settled s l s' os : step s l = Some (s', os) -> crash s' = None -> settle1 s' = None.
Proof.
  intros H Cr. apply step_decompose in H as (_ & s1 & os1 & _ & [(C1 & -> & _)|(_ & Hs)]); [congruence|].
  pose proof (settle_settled (settle_fuel s1) s1 os1 (mu_fuel s1)) as S. rewrite Hs in S. exact S.
Qed.

(** * The full embedding: tasks, units, counters ([emb], SrvRestartSim) and callbacks ([embk]) *)
Lemma run_length : forall tr x x' oss, run x tr = Some (x', oss) -> length oss = length tr.
Proof.
  induction tr as [|l r IH]; cbn [run]; intros x x' oss H; [injection H as _ <-; reflexivity|].
  destruct (step x l) as [[x1 os]|]; [|discriminate]. destruct (run x1 r) as [[x2 oss2]|] eqn:E; [|discriminate].
  injection H as _ <-. cbn. f_equal. eapply IH; eauto.
Qed.

Section EmbC.
  Variable ot : list task.
  Variable ou : list unit_.
  Variables ds dc dk : nat.
  Hypothesis Hot : forall t, In t ot -> finished t = true /\ t_unit t < length ou.
  Hypothesis Hou : forall u, In u ou -> u_st u = UFinished.

  Definition embc (ocb : list cb) (ocl : list (bytes * nat)) (x : state) : state := emb ot ou ds dc (embk dk ocb ocl x).
  Definition rs_labelc (nc : nat) (l : label) : label :=
    match l with
    | LFeed f => LFeed (ren_feed dk f)
    | LRelCbWatch i => LRelCbWatch (nc + i)
    | x => sh_label ot ou x
    end.
  (* (ii) and (iii): what the environment of the fresh run may do; oops = the operation numbers of the old records *)
  Definition lab_ok (oops : list nat) (l : label) : bool :=
    match l with
    | LFeed f => shaped_feed f
    | LCbCtxEnd n _ => forallb (fun o => negb (o =? n)) oops
    | _ => true
    end.

  Lemma rs_labelc_eq ocb l : rs_labelc (length ocb) l = sh_label ot ou (renk_label dk ocb l).
  Proof. destruct l; reflexivity. Qed.

  Lemma lab_ok_parts ocb l : lab_ok (map cb_op ocb) l = true -> ops_fresh ocb l = true /\ lab_shaped l = true.
  Proof.
    destruct l; cbn [lab_ok ops_fresh lab_shaped]; auto. intros H. split; auto.
    rewrite <- H. clear H. induction ocb as [|c r IH]; cbn [forallb map]; auto. rewrite IH. reflexivity.
  Qed.

  Definition embcp (ocb : list cb) (ocl : list (bytes * nat)) (r : state * list obs) : state * list obs :=
    (embc ocb ocl (fst r), map (ren_obs dk) (snd r)).

  Theorem embc_step ocb ocl x l : old_ok dk ocb ocl -> pinv x -> lab_ok (map cb_op ocb) l = true ->
    step (embc ocb ocl x) (rs_labelc (length ocb) l) = option_map (embcp ocb ocl) (step x l).
  Proof.
    intros (H1 & H2 & H3) (Cp & Ci & _ & Rs) Lo. destruct (lab_ok_parts ocb l Lo) as [Of _].
    rewrite rs_labelc_eq. unfold embc. rewrite (emb_step ot ou ds dc Hot Hou).
    rewrite (k_step dk ocb ocl H1 H2 H3 x l Cp Ci Rs Of). destruct (step x l) as [[x' os]|]; reflexivity.
  Qed.

  (** ** runs, forward *)
  Theorem embc_run_fwd ocb ocl : old_ok dk ocb ocl -> forall tr x x' oss, pinv x ->
    forallb (lab_ok (map cb_op ocb)) tr = true -> run x tr = Some (x', oss) ->
    run (embc ocb ocl x) (map (rs_labelc (length ocb)) tr) = Some (embc ocb ocl x', map (map (ren_obs dk)) oss).
  Proof.
    intros Ho. induction tr as [|l r IH]; cbn [run map forallb]; intros x x' oss P L H.
    - injection H as <- <-. reflexivity.
    - apply andb_true_iff in L as [L1 L2]. rewrite (embc_step ocb ocl x l Ho P L1).
      destruct (step x l) as [[x1 os]|] eqn:E; [|discriminate]. cbn [option_map embcp fst snd].
      destruct (run x1 r) as [[x2 oss2]|] eqn:E2; [|discriminate]. injection H as <- <-.
      assert (P1 : pinv x1) by (eapply step_pinv; eauto; apply (lab_ok_parts ocb l L1)).
      rewrite (IH _ _ _ P1 L2 E2). reflexivity.
  Qed.

  (** ** runs, backward *)
  (* the label of the restarted run addresses the watcher of an old record *)
  Definition old_watch (nc : nat) (l : label) : bool := match l with LRelCbWatch i => i <? nc | _ => false end.
  Definition unlabelc (nc : nat) (l : label) : label :=
    match l with
    | LFeed f => LFeed (map_feed (unren dk) f)
    | LRelCbWatch i => LRelCbWatch (i - nc)
    | x => unsh_label ot ou x
    end.
  (* what the environment of the restarted run may do: as above, and no reply bears the id of an old callback *)
  Definition lab_ok' (oops : list nat) (l : label) : bool :=
    lab_ok oops l && match l with LFeed f => no_old_feed dk f | _ => true end.

  Lemma relabel nc oops l' : old_label ot ou l' = false -> old_watch nc l' = false -> lab_ok' oops l' = true ->
    rs_labelc nc (unlabelc nc l') = l' /\ lab_ok oops (unlabelc nc l') = true.
  Proof.
    unfold lab_ok'. intros O W L. apply andb_true_iff in L as [L1 L2].
    destruct l'; cbn [unlabelc unsh_label rs_labelc sh_label lab_ok] in *; auto.
    - split; [f_equal; apply ren_unren_feed; exact L2|apply shaped_unren_feed; exact L1].
    - split; auto. f_equal. apply Nat.ltb_ge in O. lia.
    - split; auto. f_equal. apply Nat.ltb_ge in O. lia.
    - split; auto. f_equal. apply Nat.ltb_ge in O. lia.
    - split; auto. f_equal. apply Nat.ltb_ge in W. lia.
  Qed.

  (* the fresh run that corresponds to a restarted run: the releases of old watchers removed, labels un-shifted and
     un-renamed; the windows of the restarted run, split into those of the fresh run and those of the old watchers *)
  Fixpoint strip (nc : nat) (tr' : list label) : list label :=
    match tr' with
    | [] => []
    | l' :: r => if old_watch nc l' then strip nc r else unlabelc nc l' :: strip nc r
    end.
  Fixpoint fresh_windows (nc : nat) (tr' : list label) (oss : list (list obs)) : list (list obs) :=
    match tr', oss with
    | l' :: r, o :: q => if old_watch nc l' then fresh_windows nc r q else o :: fresh_windows nc r q
    | _, _ => []
    end.
  Fixpoint old_windows (nc : nat) (tr' : list label) (oss : list (list obs)) : list (list obs) :=
    match tr', oss with
    | l' :: r, o :: q => if old_watch nc l' then o :: old_windows nc r q else old_windows nc r q
    | _, _ => []
    end.
  (* the window of an old watcher: silent, or (only if some old callback is still registered) the return of an old
     Callback to its caller *)
  Definition old_window (oops : list nat) (ocl : list (bytes * nat)) (w : list obs) : Prop :=
    w = [] \/ (ocl <> [] /\ exists n r, In n oops /\ w = [ORet n r]).

  Lemma old_window_mono oops ocl ocl' w : (forall p, In p ocl' -> In p ocl) -> old_window oops ocl' w -> old_window oops ocl w.
  Proof.
    intros Sub [E|(Ne & X)]; [left; exact E|right]. split; [|exact X].
    intros Z. destruct ocl' as [|p r]; [congruence|]. specialize (Sub p (or_introl eq_refl)). rewrite Z in Sub. destruct Sub.
  Qed.

  Theorem embc_run_bwd : forall tr' ocb ocl x sr oss, old_ok dk ocb ocl -> pinv x ->
    (crash x = None -> settle1 x = None) ->
    forallb (lab_ok' (map cb_op ocb)) tr' = true -> run (embc ocb ocl x) tr' = Some (sr, oss) ->
    exists ocb' ocl' x' ossf,
      run x (strip (length ocb) tr') = Some (x', ossf) /\ sr = embc ocb' ocl' x' /\
      fresh_windows (length ocb) tr' oss = map (map (ren_obs dk)) ossf /\
      Forall (old_window (map cb_op ocb) ocl) (old_windows (length ocb) tr' oss) /\
      forallb (lab_ok (map cb_op ocb)) (strip (length ocb) tr') = true /\
      old_ok dk ocb' ocl' /\ length ocb' = length ocb /\ map cb_op ocb' = map cb_op ocb /\
      map cb_id ocb' = map cb_id ocb /\ (forall p, In p ocl' -> In p ocl).
  Proof.
    induction tr' as [|l' r IH]; cbn [run strip fresh_windows old_windows forallb]; intros ocb ocl x sr oss Ho P St L H.
    - injection H as <- <-. exists ocb, ocl, x, []. split; [reflexivity|]. split; [reflexivity|]. split; [reflexivity|].
      split; [constructor|]. split; [reflexivity|]. split; [exact Ho|]. repeat split; auto.
    - apply andb_true_iff in L as [L1 L2].
      destruct (step (embc ocb ocl x) l') as [[s1 os]|] eqn:E; [|discriminate].
      destruct (run s1 r) as [[s2 oss2]|] eqn:E2; [|discriminate]. injection H as <- <-.
      destruct (old_label ot ou l') eqn:O.
      { unfold embc in E. rewrite (emb_old_label_disabled ot ou ds dc Hot Hou _ l' O) in E. discriminate. }
      destruct (old_watch (length ocb) l') eqn:W.
      + (* the watcher of an old record *)
        destruct l'; try discriminate W. cbn [old_watch] in W. apply Nat.ltb_lt in W.
        unfold embc in E. change (LRelCbWatch c) with (sh_label ot ou (LRelCbWatch c)) in E.
        rewrite (emb_step ot ou ds dc Hot Hou) in E.
        destruct (crash x) eqn:Cr.
        { unfold step in E. change (crash (embk dk ocb ocl x)) with (crash x) in E. rewrite Cr in E. discriminate. }
        rewrite (embk_old_watch dk ocb ocl x c Ho W (St eq_refl)), Cr in E.
        destruct (old_release c ocb ocl) as [[[ocb1 ocl1] os1]|] eqn:Er; [|discriminate].
        cbn [option_map embp fst snd] in E. injection E as <- <-.
        destruct (old_release_ok dk _ _ _ _ _ _ Ho Er) as (Ho1 & Ln & Op & Id & Sub & _ & Wn).
        fold (embc ocb1 ocl1 x) in E2. rewrite <- Op in L2.
        destruct (IH ocb1 ocl1 x s2 oss2 Ho1 P (fun _ => St eq_refl) L2 E2)
          as (ocb' & ocl' & x' & ossf & R1 & R2 & R3 & R4 & R5 & R6 & R7 & R8 & R9 & R10).
        rewrite Ln, Op in *.
        exists ocb', ocl', x', ossf. split; [exact R1|]. split; [exact R2|]. split; [exact R3|]. split.
        { constructor; [exact Wn|]. eapply Forall_impl; [|exact R4]. intros w. apply old_window_mono. exact Sub. }
        split; [exact R5|]. split; [exact R6|]. split; [exact R7|]. split; [exact R8|]. split; [congruence|].
        intros p Ip. apply Sub, R10, Ip.
      + (* a label of the fresh run *)
        destruct (relabel (length ocb) (map cb_op ocb) l' O W L1) as [Rl Lk].
        rewrite <- Rl in E. rewrite (embc_step ocb ocl x _ Ho P Lk) in E.
        destruct (step x (unlabelc (length ocb) l')) as [[x1 os0]|] eqn:E0; [|discriminate].
        cbn [option_map embcp fst snd] in E. injection E as <- <-.
        assert (P1 : pinv x1) by (eapply step_pinv; eauto; apply (lab_ok_parts ocb _ Lk)).
        destruct (IH ocb ocl x1 s2 oss2 Ho P1 (step_settled _ _ _ _ E0) L2 E2) as
          (ocb' & ocl' & x' & ossf & R1 & R2 & R3 & R4 & R5 & R6 & R7 & R8 & R9 & R10).
        exists ocb', ocl', x', (os0 :: ossf). cbn [run forallb map]. rewrite E0, R1, Lk, R5, R3.
        split; [reflexivity|]. split; [exact R2|]. split; [reflexivity|]. split; [exact R4|]. split; [reflexivity|].
        split; [exact R6|]. repeat split; auto.
  Qed.

  (* the watcher of an old record, in the full embedding *)
  Theorem embc_old_watch ocb ocl x i : old_ok dk ocb ocl -> i < length ocb -> settle1 x = None ->
    step (embc ocb ocl x) (LRelCbWatch i) =
    match crash x, old_release i ocb ocl with
    | None, Some (ocb', ocl', os) => Some (embc ocb' ocl' x, os)
    | _, _ => None
    end.
  Proof.
    intros Ho L St. unfold embc. change (LRelCbWatch i) with (sh_label ot ou (LRelCbWatch i)).
    rewrite (emb_step ot ou ds dc Hot Hou). rewrite (embk_old_watch dk ocb ocl x i Ho L St).
    destruct (crash x); [reflexivity|]. destruct (old_release i ocb ocl) as [[[ocb' ocl'] os]|]; reflexivity.
  Qed.

  Lemma embc_old_label_disabled ocb ocl x l' : old_label ot ou l' = true -> step (embc ocb ocl x) l' = None.
  Proof. intros O. unfold embc. apply (emb_old_label_disabled ot ou ds dc Hot Hou). exact O. Qed.

  (* a reply bearing the id of an old callback that has returned is unsolicited in the restarted run: a late reply in
     the sense of C09.5 (SrvC09.late_reply), skipped by the reader like any reply with an unknown id *)
  Theorem embc_old_reply_late ocb ocl x m : old_ok dk ocb ocl -> c_push x = true -> is_req_or_notif m = false ->
    j_method m = [] -> has_reply_fields m = true -> old_id dk (fix_id (j_id m)) = true ->
    assoc (fix_id (j_id m)) ocl = None ->
    late_reply (embc ocb ocl x) m /\
    forall r keep acc, filter_batch (m :: r) (embc ocb ocl x) keep acc = filter_batch r (embc ocb ocl x) keep acc.
  Proof.
    intros Ho Cp Q M F O A.
    assert (L : late_reply (embc ocb ocl x) m).
    { unfold late_reply. repeat split; auto.
      change (calls (embc ocb ocl x)) with (map (sh_call dk ocb) (calls x) ++ ocl).
      rewrite (assoc_old_k dk ocb ocl _ _ O). exact A. }
    split; [exact L|]. intros r keep acc. apply late_reply_skipped. exact L.
  Qed.
End EmbC.

(** * ids of the callback records of a reachable state: the numerals of 1 .. call_id - 1 *)
Definition idv (s : state) := (map cb_id (cbs s), call_id s).
Definition tight (s : state) : Prop :=
  1 <= call_id s /\ forall b, In b (map cb_id (cbs s)) -> exists j, 1 <= j < call_id s /\ b = dec_of_nat j.

Lemma tight_idv s s' : idv s' = idv s -> tight s -> tight s'.
Proof. unfold idv, tight. intros [= A B]. rewrite A, B. auto. Qed.

Lemma pv_idv s s' : pv s' = pv s -> idv s' = idv s.
Proof.
  intros P. apply pv_fields in P. destruct P as (_ & _ & _ & _ & _ & P6 & P7 & _). unfold idv. rewrite P6, P7. reflexivity.
Qed.

Lemma complete_cb_idv i r s : idv (fst (complete_cb i r s)) = idv s.
Proof.
  unfold complete_cb. destruct (nth_error (cbs s) i); [|reflexivity]. unfold idv. cbn.
  rewrite map_upd_nth_same by (intros; reflexivity). reflexivity.
Qed.

Lemma filter_batch_idv : forall ms s keep acc, idv (fst (fst (filter_batch ms s keep acc))) = idv s.
Proof.
  induction ms as [|m r IH]; intros s keep acc; cbn [filter_batch]; [reflexivity|].
  destruct (is_req_or_notif m); [apply IH|].
  destruct (assoc (fix_id (j_id m)) (calls s)) as [i|].
  - match goal with |- context [complete_cb i ?v s] =>
      pose proof (complete_cb_idv i v s) as P; destruct (complete_cb i v s) as [s1 os1] end.
    cbn [fst] in P. rewrite IH. exact P.
  - destruct (c_push s && is_nil (j_method m) && has_reply_fields m); apply IH.
Qed.

Lemma stop_locked_idv sc s : idv (fst (stop_locked sc s)) = idv s.
Proof.
  destruct (stop_locked sc s) as [s' os] eqn:E. cbn [fst].
  apply SrvC09.stop_locked_spec in E as [(_ & -> & _)|(_ & _ & _ & _ & _ & _ & _ & Ci & _ & _ & _ & Cb)]; [reflexivity|].
  unfold idv. rewrite Ci, Cb, map_map. f_equal. apply map_ext. intros; apply stop_cb_id.
Qed.

Lemma read_cs_idv f s : idv (fst (read_cs f s)) = idv s.
Proof.
  destruct f as [i|i|sc]; unfold read_cs.
  1,2: destruct (negb (running s)); [reflexivity|]; destruct i as [|b ms]; [reflexivity|];
       destruct ms as [|m ms]; [reflexivity|];
       pose proof (filter_batch_idv (m :: ms) s [] []) as P;
       destruct (filter_batch (m :: ms) s [] []) as [[s1 keep] os1]; cbn [fst] in P;
       destruct keep as [|k0 kr]; [exact P|]; cbv zeta;
       match goal with |- context [if ?b then _ else _] => destruct b end; exact P.
  pose proof (stop_locked_idv sc s) as P. destruct (stop_locked sc s) as [s2 os2]. exact P.
Qed.

Lemma reachf_tight c s : reachf c s -> tight s.
Proof.
  induction 1 as [|s l s' os R IH C H|s s' os R IH H].
  - split; cbn; [lia|intros b []].
  - destruct (neutral l) eqn:Neu.
    { apply step_raw_neutral in H as [P _]; auto. eapply tight_idv; [apply pv_idv; exact P|exact IH]. }
    assert (IV : forall x, idv x = idv s -> tight x) by (intros x E; eapply tight_idv; eauto).
    destruct l; try discriminate Neu; cbn [step_raw] in H.
    + destruct (negb (running s) && (wg s =? 0)); [|discriminate]. injection H as <- _. apply IV. reflexivity.
    + injection H as <- _. apply IV. reflexivity.
    + injection H as <- _. apply IV. reflexivity.
    + injection H as <- _. apply IV. reflexivity.
    + destruct (c_push s); injection H as <- _; apply IV; reflexivity.
    + destruct (find_idx _ 0 (cbs s)) as [i|]; injection H as <- _; apply IV; [|reflexivity].
      unfold idv. cbn. rewrite map_upd_nth_same; [reflexivity|]. intros x. destruct (cb_cancelled x); reflexivity.
    + destruct (rd s) as [| |f|]; try discriminate. injection H as H.
      pose proof (read_cs_idv f s) as P. rewrite H in P. apply IV. exact P.
    + destruct (find_op n (ops s)) as [[| |]|]; try discriminate.
      pose proof (stop_locked_idv SCStop (s <| ops ::= del_op n |>)) as P.
      destruct (stop_locked SCStop (s <| ops ::= del_op n |>)) as [s2 os2]. injection H as <- _. apply IV. exact P.
    + destruct (find_op n (ops s)) as [[| |]|]; try discriminate. injection H as <- _.
      destruct (assoc id _) as [owner|]; apply IV; [|reflexivity].
      exact (pv_idv _ _ (cancel_task_pv owner (s <| ops ::= del_op n |>))).
    + destruct (find_op n (ops s)) as [[| |n' w m p]|]; try discriminate.
      destruct (negb (running (s <| ops ::= del_op n |>))); [injection H as <- _; apply IV; reflexivity|].
      destruct w; [|injection H as <- _; apply IV; reflexivity].
      destruct IH as [I1 I2].
      assert (T : forall cnew, cb_id cnew = dec_of_nat (call_id s) ->
                  tight (s <| ops ::= del_op n |> <| call_id ::= S |> <| cbs ::= fun l => l ++ [cnew] |>)).
      { intros cnew Eid. split; cbn; [lia|]. intros b I. rewrite map_app in I. apply in_app_or in I as [I|[<-|[]]].
        - destruct (I2 b I) as (j & L & ->). exists j. split; [lia|reflexivity].
        - exists (call_id s). split; [lia|exact Eid]. }
      destruct (send_fail (s <| ops ::= del_op n |>)); injection H as <- _.
      * apply (T (mkCb n (dec_of_nat (call_id s)) None None true WParked true)). reflexivity.
      * match goal with |- context [fun l => l ++ [?cn]] => set (cnew := cn) end.
        assert (Eid : cb_id cnew = dec_of_nat (call_id s)).
        { unfold cnew. destruct (find _ _) as [[? ?]|]; reflexivity. }
        eapply tight_idv; [|exact (T cnew Eid)]. reflexivity.
    + destruct (nth_error (cbs s) c0) as [cb0|]; [|discriminate]. destruct (cb_watch cb0); try discriminate.
      set (s1 := s <| cbs ::= upd_nth c0 (fun c1 => c1 <| cb_watch := WDone |>) |>) in *.
      assert (E1 : idv s1 = idv s).
      { unfold idv, s1. cbn. rewrite map_upd_nth_same by (intros; reflexivity). reflexivity. }
      destruct (assoc (cb_id cb0) (calls s1)) as [j|]; [|injection H as <- _; apply IV; exact E1].
      destruct (cb_slot cb0); [injection H as <- _; apply IV; exact E1|].
      destruct (j =? c0); [|injection H as <- _; apply IV; exact E1].
      destruct (match cb_ctx cb0 with Some WDeadline => _ | _ => _ end) as [code msg].
      injection H as H. pose proof (complete_cb_idv c0 (CErr code msg) s1) as G. rewrite H in G. cbn [fst] in G.
      apply IV. rewrite G. exact E1.
  - eapply tight_idv; [apply pv_idv; eapply settle1_pv; eauto|exact IH].
Qed.

Lemma NoDup_map_inj {A B} (f : A -> B) : forall l a b, NoDup (map f l) -> In a l -> In b l -> f a = f b -> a = b.
Proof.
  induction l as [|x r IH]; cbn [map In]; intros a b N Ia Ib E; [destruct Ia|].
  inversion N as [|? ? Nx Nr]; subst.
  destruct Ia as [<-|Ia], Ib as [<-|Ib]; auto.
  - exfalso. apply Nx. rewrite E. apply in_map. exact Ib.
  - exfalso. apply Nx. rewrite <- E. apply in_map. exact Ia.
Qed.

(* the callback records of a stopped reachable state are "old records" for its successor incarnations: their ids are
   the numerals of 1 .. call_id - 1, and those still registered are cancelled, their watcher parked *)
Lemma reach_old_ok c s : reach c s -> running s = false -> old_ok (call_id s - 1) (cbs s) (calls s).
Proof.
  intros R Rn. destruct (reachf_tight c s (reach_reachf _ _ R)) as [T1 T2]. pose proof (inv_push_reach c s R) as Ip.
  assert (H1 : forall c0, In c0 (cbs s) -> old_id (call_id s - 1) (cb_id c0) = true).
  { intros c0 Ic. destruct (T2 (cb_id c0)) as (j & L & E); [apply in_map; exact Ic|].
    unfold old_id. rewrite E, idnum_dec. destruct j as [|j']; [lia|]. apply Nat.leb_le. lia. }
  split; [exact H1|]. split.
  - intros [k i] Ip0. destruct (ip_reg _ Ip k i Ip0) as (c0 & N & E & _). cbn [fst]. rewrite <- E. apply H1.
    eapply nth_error_In; eauto.
  - intros c0 Ic A. destruct (assoc (cb_id c0) (calls s)) as [i|] eqn:As; [|congruence].
    apply assoc_in in As. destruct (ip_reg _ Ip _ _ As) as (c1 & N & E & (_ & _ & Ow & _ & Or)).
    assert (c1 = c0).
    { apply (NoDup_map_inj cb_id (cbs s)); auto; [apply (ip_cbnodup _ Ip)|eapply nth_error_In; eauto]. }
    subst c1. rewrite (Or Rn) in Ow. split; [apply Or; exact Rn|]. rewrite Ow. discriminate.
Qed.

(** * C08.8 restart, with callback records in the history *)
Definition rsc_emb (s : state) (ocb : list cb) (ocl : list (bytes * nat)) (x : state) : state :=
  embc (tasks s) (units s) (starts s) (closes s) (call_id s - 1) ocb ocl x.
Definition rsc_label (s : state) (nc : nat) (l : label) : label := rs_labelc (tasks s) (units s) (call_id s - 1) nc l.

Theorem restart_is_embc c s : reach c s -> wg s = 0 -> running s = false ->
  started s = rsc_emb s (cbs s) (calls s) (fresh_of c s).
Proof.
  intros R Z Rn. rewrite (restart_fresh_eq c s R Z Rn).
  destruct (reachf_tight c s (reach_reachf _ _ R)) as [T1 _].
  pose proof (idle_no_waits c s R Z) as W.
  unfold rsc_emb, embc, fresh_of, pre_fresh, started. st_ext; rewrite ?W, ?app_nil_r; try reflexivity; try lia.
Qed.

Lemma shaped_ren_msg dk m : shaped_msg m = true -> shaped_msg (ren_msg dk m) = true.
Proof.
  unfold shaped_msg, ren_msg. rewrite reid_req. destruct (is_req_or_notif m) eqn:R; [reflexivity|]. cbn [orb].
  destruct (reid_fields (ren dk) m) as (Fm & _ & _ & Fh). unfold reply_shaped. rewrite Fm, Fh.
  destruct (is_nil (j_method m) && has_reply_fields m); [reflexivity|]. cbn [orb]. intros H.
  rewrite (reid_same (ren dk) m); [exact H|]. apply ren_not_pos. apply negb_true_iff. exact H.
Qed.

Lemma shaped_ren_feed dk f : shaped_feed f = true -> shaped_feed (ren_feed dk f) = true.
Proof.
  assert (L : forall ms, forallb shaped_msg ms = true -> forallb shaped_msg (map (ren_msg dk) ms) = true).
  { induction ms as [|m ms IH]; cbn [forallb map]; auto. intros H. apply andb_true_iff in H as [H1 H2].
    rewrite (shaped_ren_msg dk m H1), (IH H2). reflexivity. }
  unfold ren_feed, ren_msg in *. destruct f as [[|b ms]|[|b ms]|c]; cbn; auto.
Qed.

Lemma lab_ok'_relabel ot ou dk nc oops l : lab_ok oops l = true -> lab_ok' dk oops (rs_labelc ot ou dk nc l) = true.
Proof.
  unfold lab_ok'. destruct l; cbn [rs_labelc sh_label lab_ok]; intros H; rewrite ?H; auto.
  rewrite (shaped_ren_feed dk f H), no_old_ren_feed. reflexivity.
Qed.

Lemma fresh_windows_length ot ou dk nc : forall tr' oss, length oss = length tr' ->
  length (fresh_windows nc tr' oss) = length (strip ot ou dk nc tr').
Proof.
  induction tr' as [|l' r IH]; intros [|o q] L; cbn [fresh_windows strip]; try reflexivity; try discriminate L.
  cbn in L. destruct (old_watch nc l'); cbn [length]; rewrite IH; auto.
Qed.

(* The restart simulation for a server with AllowPush, whatever Callbacks its earlier incarnations registered. *)
Theorem restart_simulation_cb c s : reach c s -> cf_push c = true -> wg s = 0 -> running s = false ->
  let dk := call_id s - 1 in
  let nc := length (cbs s) in
  let oops := map cb_op (cbs s) in
  step s LStart = Some (started s, []) /\ reach c (fresh_of c s) /\ pinv (fresh_of c s) /\
  old_ok dk (cbs s) (calls s) /\ started s = rsc_emb s (cbs s) (calls s) (fresh_of c s) /\
  (* one window, every label of the fresh server *)
  (forall ocb ocl x l, old_ok dk ocb ocl -> pinv x -> lab_ok (map cb_op ocb) l = true ->
     step (rsc_emb s ocb ocl x) (rsc_label s (length ocb) l) =
     match step x l with Some (x', os) => Some (rsc_emb s ocb ocl x', map (ren_obs dk) os) | None => None end) /\
  (* the labels of the history: disabled (tasks, units); the watcher of an old callback record: disabled, or a step
     that changes the old records only *)
  (forall ocb ocl x l', old_label (tasks s) (units s) l' = true -> step (rsc_emb s ocb ocl x) l' = None) /\
  (forall ocb ocl x i, old_ok dk ocb ocl -> i < length ocb -> settle1 x = None ->
     step (rsc_emb s ocb ocl x) (LRelCbWatch i) =
     match crash x, old_release i ocb ocl with
     | None, Some (ocb', ocl', os) => Some (rsc_emb s ocb' ocl' x, os)
     | _, _ => None
     end) /\
  (* every other label is a relabelled one *)
  (forall l', old_label (tasks s) (units s) l' = false -> old_watch nc l' = false -> lab_ok' dk oops l' = true ->
     exists l, l' = rsc_label s nc l /\ lab_ok oops l = true) /\
  (* whole runs, both directions *)
  (forall tr x oss, forallb (lab_ok oops) tr = true -> run (fresh_of c s) tr = Some (x, oss) ->
     run (started s) (map (rsc_label s nc) tr) = Some (rsc_emb s (cbs s) (calls s) x, map (map (ren_obs dk)) oss) /\
     forallb (lab_ok' dk oops) (map (rsc_label s nc) tr) = true) /\
  (forall tr' sr oss, forallb (lab_ok' dk oops) tr' = true -> run (started s) tr' = Some (sr, oss) ->
     exists ocb' ocl' x ossf,
       run (fresh_of c s) (strip (tasks s) (units s) dk nc tr') = Some (x, ossf) /\
       forallb (lab_ok oops) (strip (tasks s) (units s) dk nc tr') = true /\
       sr = rsc_emb s ocb' ocl' x /\
       fresh_windows nc tr' oss = map (map (ren_obs dk)) ossf /\
       Forall (old_window oops (calls s)) (old_windows nc tr' oss) /\
       old_ok dk ocb' ocl' /\ length ocb' = nc /\ map cb_op ocb' = oops /\ map cb_id ocb' = map cb_id (cbs s) /\
       (forall p, In p ocl' -> In p (calls s))).
Proof.
  intros R Cp Z Rn. cbv zeta. destruct (restart_old_finished c s R Z) as [Hot Hou].
  pose proof (restart_is_embc c s R Z Rn) as E.
  pose proof (reach_old_ok c s R Rn) as Ho.
  pose proof (fresh_of_reachable c s R) as Rf.
  assert (Pf : pinv (fresh_of c s)).
  { unfold pinv, fed_ok, rd_shaped, fresh_of, pre_fresh, started. cbn. repeat split; auto; try (intros f []). }
  assert (Sf : crash (fresh_of c s) = None -> settle1 (fresh_of c s) = None) by (apply (reach_settled c); exact Rf).
  split; [apply (restart_fresh c s R Z Rn)|]. split; [exact Rf|]. split; [exact Pf|]. split; [exact Ho|].
  split; [exact E|]. split; [|split; [|split; [|split; [|split]]]].
  - intros ocb ocl x l Hk Px Lk. unfold rsc_emb, rsc_label.
    rewrite (embc_step _ _ _ _ _ Hot Hou ocb ocl x l Hk Px Lk). destruct (step x l) as [[x' os]|]; reflexivity.
  - intros ocb ocl x l' O. apply (embc_old_label_disabled _ _ _ _ _ Hot Hou). exact O.
  - intros ocb ocl x i Hk N St. apply (embc_old_watch _ _ _ _ _ Hot Hou); auto.
  - intros l' O W L. exists (unlabelc (tasks s) (units s) (call_id s - 1) (length (cbs s)) l').
    destruct (relabel (tasks s) (units s) (call_id s - 1) _ _ l' O W L) as [A B]. split; [symmetry; exact A|exact B].
  - intros tr x oss L H. split.
    + rewrite E. apply (embc_run_fwd _ _ _ _ _ Hot Hou (cbs s) (calls s) Ho); auto.
    + clear H. induction tr as [|l r IH]; cbn [map forallb] in *; auto. apply andb_true_iff in L as [L1 L2].
      unfold rsc_label at 1.
      rewrite (lab_ok'_relabel (tasks s) (units s) (call_id s - 1) (length (cbs s)) (map cb_op (cbs s)) l L1).
      apply IH. exact L2.
  - intros tr' sr oss L H. rewrite E in H.
    destruct (embc_run_bwd _ _ _ _ _ Hot Hou tr' (cbs s) (calls s) _ sr oss Ho Pf Sf L H)
      as (ocb' & ocl' & x' & ossf & R1 & R2 & R3 & R4 & R5 & R6 & R7 & R8 & R9 & R10).
    exists ocb', ocl', x', ossf. repeat (split; [assumption|]). assumption.
Qed.

(* hence every property of the observations of a fresh server (fed shaped records, not reusing the operation numbers
   of old records for LCbCtxEnd) that is invariant under the renaming of callback ids holds of the observations of the
   restarted server (fed shaped records that bear no id of an old callback) other than the returns of old Callbacks
   in the windows of old watchers, and conversely *)
Corollary restart_trace_properties_cb c s (P : list obs -> Prop) : reach c s -> cf_push c = true -> wg s = 0 ->
  running s = false ->
  (forall os, P os <-> P (map (ren_obs (call_id s - 1)) os)) ->
  ((forall tr x oss, forallb (lab_ok (map cb_op (cbs s))) tr = true -> run (fresh_of c s) tr = Some (x, oss) ->
      P (concat oss)) <->
   (forall tr' sr oss, forallb (lab_ok' (call_id s - 1) (map cb_op (cbs s))) tr' = true ->
      run (started s) tr' = Some (sr, oss) -> P (concat (fresh_windows (length (cbs s)) tr' oss)))).
Proof.
  intros R Cp Z Rn Inv.
  destruct (restart_simulation_cb c s R Cp Z Rn) as (_ & _ & _ & _ & _ & _ & _ & _ & _ & Fw & Bw). split.
  - intros H tr' sr oss L Hr. destruct (Bw _ _ _ L Hr) as (ocb' & ocl' & x & ossf & R1 & R2 & _ & R4 & _).
    rewrite R4, <- concat_map. apply (proj1 (Inv (concat ossf))). eapply H; eauto.
  - intros H tr x oss L Hr. destruct (Fw _ _ _ L Hr) as [F1 F2]. apply (proj2 (Inv (concat oss))).
    rewrite concat_map. specialize (H _ _ _ F2 F1).
    assert (Fr : forall tr0 oss0, length oss0 = length tr0 ->
              fresh_windows (length (cbs s)) (map (rsc_label s (length (cbs s))) tr0) oss0 = oss0).
    { induction tr0 as [|l0 r0 IH]; intros [|o q] Ln; cbn [map fresh_windows]; try reflexivity; try discriminate Ln.
      assert (W : old_watch (length (cbs s)) (rsc_label s (length (cbs s)) l0) = false).
      { destruct l0; cbn; auto. apply Nat.ltb_ge. lia. }
      rewrite W. f_equal. apply IH. cbn in Ln. lia. }
    rewrite Fr in H; [exact H|]. rewrite !map_length. eapply run_length; eauto.
Qed.

(** * non-vacuity *)
(* The history: a call (id 1) is served; Callback operation 1 is sent under id "1", answered, returns (its watcher
   stays parked); Callback operation 4 is sent under id "2" and is still unanswered when Stop closes the server: it
   stays registered, cancelled, its watcher parked; reader and dispatcher exit.  The restarted server then serves a
   batch holding a call whose id is again 1 and the reply to its new callback: the callback id is renamed (the fresh
   server sends it under "1", the restarted one under "3", and the replies fed bear "1" and "3"), the id of the call
   and of its response is not; task and unit indices are shifted by one, callback indices by two.  The watchers of the
   two old records, released first: the first is silent, the second returns the cancellation of operation 4. *)
Definition ex_reply (id res : bytes) : jmsg :=
  {| j_id := id; j_method := []; j_params := []; j_error := None; j_result := res; j_err := None |}.
Definition ex_tr_hist : list label :=
  [LStart; LFeed (FMsg (InMsgs false [ex_call [49%N] [7%N]])); LRelRead; LRelNext; LRelBarrier; LRelAcquire 0;
   LGate [7%N] (ORes [51%N]); LRelHandled 0; LRelDeliver 0; LRelNext;
   LCallPush 1 true [112%N] [113%N]; LRelPush 1; LFeed (FMsg (InMsgs false [ex_reply [49%N] [55%N]])); LRelRead;
   LCallPush 4 true [112%N] [115%N]; LRelPush 4;
   LCallStop 2; LRelStop 2; LFeed (FErr SCClosing); LRelRead].
Definition ex_s0 : state := st_of ex_cfg2 ex_tr_hist.
Definition ex_tr_fresh : list label :=
  [LCallPush 3 true [112%N] [114%N]; LRelPush 3;
   LFeed (FMsg (InMsgs false [ex_call [49%N] [8%N]; ex_reply [49%N] [56%N]])); LRelRead; LRelCbWatch 0;
   LRelNext; LRelBarrier; LRelAcquire 0; LGate [8%N] (ORes [52%N]); LRelHandled 0; LRelDeliver 0].
Definition ex_tr_restarted : list label := LRelCbWatch 0 :: LRelCbWatch 1 :: map (rsc_label ex_s0 2) ex_tr_fresh.
Definition ex_ocb' : list cb :=
  match old_release 0 (cbs ex_s0) (calls ex_s0) with
  | Some (o1, l1, _) => match old_release 1 o1 l1 with Some (o2, _, _) => o2 | None => [] end
  | None => []
  end.

Example restart_simulation_cb_nonvacuous :
  let s := ex_s0 in
  reach ex_cfg2 s /\ cf_push ex_cfg2 = true /\ wg s = 0 /\ running s = false /\ calls s = [([50%N], 1)] /\
  map cb_id (cbs s) = [[49%N]; [50%N]] /\ map cb_watch (cbs s) = [WParked; WParked] /\ map cb_op (cbs s) = [1; 4] /\
  call_id s = 3 /\ length (tasks s) = 1 /\ length (units s) = 1 /\
  forallb (lab_ok (map cb_op (cbs s))) ex_tr_fresh = true /\
  forallb (lab_ok' (call_id s - 1) (map cb_op (cbs s))) ex_tr_restarted = true /\
  strip (tasks s) (units s) 2 2 ex_tr_restarted = ex_tr_fresh /\
  map (rsc_label s 2) ex_tr_fresh =
    [LCallPush 3 true [112%N] [114%N]; LRelPush 3;
     LFeed (FMsg (InMsgs false [ex_call [49%N] [8%N]; ex_reply [51%N] [56%N]])); LRelRead; LRelCbWatch 2;
     LRelNext; LRelBarrier; LRelAcquire 1; LGate [8%N] (ORes [52%N]); LRelHandled 1; LRelDeliver 1] /\
  map cb_watch ex_ocb' = [WDone; WDone] /\
  exists x oss oss', run (fresh_of ex_cfg2 s) ex_tr_fresh = Some (x, oss) /\
    run (started s) (map (rsc_label s 2) ex_tr_fresh) = Some (rsc_emb s (cbs s) (calls s) x, map (map (ren_obs 2)) oss) /\
    run (started s) ex_tr_restarted = Some (rsc_emb s ex_ocb' [] x, oss') /\
    fresh_windows 2 ex_tr_restarted oss' = map (map (ren_obs 2)) oss /\
    old_windows 2 ex_tr_restarted oss' = [[]; [ORet 4 (ACbCtx WCancel)]] /\
    concat oss = [OSendReq true [49%N] [112%N] [114%N]; ORet 3 (ACbRes [56%N]); OStart [8%N] false; OGate [8%N] false;
                  OSend true false [{| r_id := [49%N]; r_body := BRes [52%N] |}]] /\
    concat (map (map (ren_obs 2)) oss) =
                 [OSendReq true [51%N] [112%N] [114%N]; ORet 3 (ACbRes [56%N]); OStart [8%N] false; OGate [8%N] false;
                  OSend true false [{| r_id := [49%N]; r_body := BRes [52%N] |}]].
Proof.
  cbv zeta. split; [apply reach_st_of; vm_compute; discriminate|].
  repeat (split; [vm_compute; reflexivity|]).
  eexists _, _, _. split; [vm_compute; reflexivity|]. split; [vm_compute; reflexivity|].
  split; [vm_compute; reflexivity|]. repeat (split; [vm_compute; reflexivity|]). vm_compute. reflexivity.
Qed.

(* a reply bearing the id "1" of the old callback that has returned, fed to the restarted server: a late reply
   (C09.5); the reader's window produces nothing and nothing but the reader's own position changes *)
Example restart_old_reply_unsolicited_nonvacuous :
  let s := ex_s0 in
  let m := ex_reply [49%N] [57%N] in
  forallb (fun c0 => old_id (call_id s - 1) (cb_id c0)) (cbs s) = true /\ c_push (fresh_of ex_cfg2 s) = true /\
  is_req_or_notif m = false /\ j_method m = [] /\
  has_reply_fields m = true /\ old_id (call_id s - 1) (fix_id (j_id m)) = true /\ assoc (fix_id (j_id m)) (calls s) = None /\
  no_old_feed (call_id s - 1) (FMsg (InMsgs false [m])) = false /\
  exists s', run (started s) [LFeed (FMsg (InMsgs false [m])); LRelRead] = Some (s', [[]; []]) /\
    s' = started s <| rd := RIdle |>.
Proof.
  cbv zeta. repeat (split; [vm_compute; reflexivity|]). eexists. split; vm_compute; reflexivity.
Qed.

(* hypothesis (iii) is needed: when the caller's context of the new Callback number 1 ends before it registers, the
   fresh server cancels it (its watcher reports the cancellation); in the restarted server LCbCtxEnd 1 hits the OLD
   record of operation 1 instead, and the watcher of the new callback stays blocked *)
Example restart_ops_reuse_refuted :
  let s := ex_s0 in
  let tr := [LCbCtxEnd 1 WCancel; LCallPush 1 true [112%N] [114%N]; LRelPush 1; LRelCbWatch 0] in
  forallb (lab_ok (map cb_op (cbs s))) tr = false /\
  (exists x, run (fresh_of ex_cfg2 s) tr =
             Some (x, [[]; []; [OSendReq true [49%N] [112%N] [114%N]]; [ORet 1 (ACbCtx WCancel)]])) /\
  run (started s) (map (rsc_label s 2) tr) = None.
Proof. cbv zeta. split; [vm_compute; reflexivity|]. split; [eexists|]; vm_compute; reflexivity. Qed.

(* hypothesis (ii) is needed: a member with an id but neither method, result nor error is answered under its own id,
   so renaming its id changes the observations *)
Example restart_unshaped_refuted :
  let s := ex_s0 in
  let m := {| j_id := [49%N]; j_method := []; j_params := []; j_error := None; j_result := []; j_err := None |} in
  let tr := [LFeed (FMsg (InMsgs false [m])); LRelRead; LRelNext; LRelBarrier; LRelDeliver 0] in
  forallb (lab_ok (map cb_op (cbs s))) tr = false /\
  (exists x, run (fresh_of ex_cfg2 s) tr =
     Some (x, [[]; []; []; []; [OSend true false [{| r_id := [49%N]; r_body := BErr InvalidRequest s_empty_method |}]]])) /\
  (exists x, run (started s) (map (rsc_label s 2) tr) =
     Some (x, [[]; []; []; []; [OSend true false [{| r_id := [51%N]; r_body := BErr InvalidRequest s_empty_method |}]]])).
Proof. cbv zeta. split; [vm_compute; reflexivity|]. split; eexists; vm_compute; reflexivity. Qed.

(** * the definitions, spelled out *)
Lemma ren_spec dk :
  (forall j, ren dk (dec_of_nat (S j)) = dec_of_nat (dk + S j)) /\
  (forall b, (forall j, b <> dec_of_nat (S j)) -> ren dk b = b) /\
  (forall a b, ren dk a = ren dk b -> a = b).
Proof.
  split; [apply ren_dec|]. split; [|apply ren_inj].
  intros b H. unfold ren. destruct (idnum b) as [[|j]|] eqn:E; auto. exfalso. apply (H j). apply idnum_some. exact E.
Qed.

Lemma is_posnum_spec b : is_posnum b = true <-> exists j, b = dec_of_nat (S j).
Proof.
  unfold is_posnum. split.
  - destruct (idnum b) as [[|j]|] eqn:E; try discriminate. intros _. exists j. apply idnum_some. exact E.
  - intros (j & ->). rewrite idnum_dec. reflexivity.
Qed.

Lemma old_id_spec dk b : old_id dk b = true <-> exists j, 1 <= j <= dk /\ b = dec_of_nat j.
Proof.
  unfold old_id. split.
  - destruct (idnum b) as [[|j]|] eqn:E; try discriminate. intros H. apply Nat.leb_le in H.
    exists (S j). split; [lia|]. apply idnum_some. exact E.
  - intros (j & L & ->). rewrite idnum_dec. destruct j as [|j]; [lia|]. apply Nat.leb_le. lia.
Qed.

Lemma shaped_msg_spec m : shaped_msg m = true <->
  is_req_or_notif m = true \/ (j_method m = [] /\ has_reply_fields m = true) \/ (forall j, j_id m <> dec_of_nat (S j)).
Proof.
  unfold shaped_msg, reply_shaped. rewrite !orb_true_iff, andb_true_iff, negb_true_iff, is_nil_true. split.
  - intros [[H|H]|H]; auto. right. right. intros j E.
    assert (P : is_posnum (j_id m) = true) by (apply is_posnum_spec; eauto). congruence.
  - intros [H|[H|H]]; auto. right. destruct (is_posnum (j_id m)) eqn:P; auto.
    apply is_posnum_spec in P as (j & E). destruct (H j E).
Qed.

Lemma no_old_msg_spec dk m : no_old_msg dk m = true <->
  is_req_or_notif m = true \/ (forall j, 1 <= j <= dk -> j_id m <> dec_of_nat j).
Proof.
  unfold no_old_msg. rewrite orb_true_iff, negb_true_iff. split.
  - intros [H|H]; auto. right. intros j L E.
    assert (O : old_id dk (j_id m) = true) by (apply old_id_spec; eauto). congruence.
  - intros [H|H]; auto. right. destruct (old_id dk (j_id m)) eqn:O; auto.
    apply old_id_spec in O as (j & L & E). destruct (H j L E).
Qed.

Lemma feed_preds_spec dk f :
  shaped_feed f = match f with FMsg (InMsgs _ ms) | FMsgEOF (InMsgs _ ms) => forallb shaped_msg ms | _ => true end /\
  no_old_feed dk f = match f with FMsg (InMsgs _ ms) | FMsgEOF (InMsgs _ ms) => forallb (no_old_msg dk) ms | _ => true end /\
  ren_feed dk f = match f with
                  | FMsg (InMsgs b ms) => FMsg (InMsgs b (map (ren_msg dk) ms))
                  | FMsgEOF (InMsgs b ms) => FMsgEOF (InMsgs b (map (ren_msg dk) ms))
                  | x => x
                  end /\
  (forall m, ren_msg dk m = if is_req_or_notif m then m
                            else Build_jmsg (ren dk (j_id m)) (j_method m) (j_params m) (j_error m) (j_result m) (j_err m)).
Proof. repeat split; destruct f as [[|b ms]|[|b ms]|c]; reflexivity. Qed.

Lemma pinv_spec x : pinv x <->
  c_push x = true /\ 1 <= call_id x /\ (forall f, In f (ch_in x) -> shaped_feed f = true) /\
  (forall f, rd x = RHold f -> shaped_feed f = true).
Proof.
  unfold pinv, fed_ok, rd_shaped. split.
  - intros (A & B & C & D). repeat split; auto. intros f E. rewrite E in D. exact D.
  - intros (A & B & C & D). repeat split; auto. destruct (rd x) as [| |f|]; auto.
Qed.

Lemma rsc_emb_cb_spec s ocb ocl x :
  let y := embk (call_id s - 1) ocb ocl x in
  rsc_emb s ocb ocl x = rs_emb s y /\
  calls y = map (fun p => (ren (call_id s - 1) (fst p), length ocb + snd p)) (calls x) ++ ocl /\
  call_id y = call_id s - 1 + call_id x /\
  cbs y = ocb ++ map (fun c0 => mkCb (cb_op c0) (ren (call_id s - 1) (cb_id c0)) (cb_slot c0) (cb_ctx c0) (cb_cancelled c0)
                                     (cb_watch c0) (cb_ret c0)) (cbs x) /\
  ch_in y = map (ren_feed (call_id s - 1)) (ch_in x) /\
  rd y = match rd x with RHold f => RHold (ren_feed (call_id s - 1) f) | r => r end /\
  (c_K y, c_push y, c_builtin y, c_methods y, c_unblock y) = (c_K x, c_push x, c_builtin x, c_methods x, c_unblock x) /\
  (send_fail y, running y, stop_err y, work_closed y, closes y, starts y) =
    (send_fail x, running x, stop_err x, work_closed x, closes x, starts x) /\
  (dp y, inq y, units y, tasks y, nbar y, sem_free y, sem_wait y, used y) =
    (dp x, inq x, units x, tasks x, nbar x, sem_free x, sem_wait x, used x) /\
  (wg y, ops y, waits y, ended y, crash y) = (wg x, ops x, waits x, ended x, crash x).
Proof. cbv zeta. repeat split. cbn. destruct (rd x); reflexivity. Qed.

Lemma rsc_label_spec s nc l : rsc_label s nc l =
  match l with
  | LFeed f => LFeed (ren_feed (call_id s - 1) f)
  | LRelCbWatch i => LRelCbWatch (nc + i)
  | LRelAcquire k => LRelAcquire (length (tasks s) + k)
  | LRelHandled k => LRelHandled (length (tasks s) + k)
  | LRelDeliver u => LRelDeliver (length (units s) + u)
  | x => x
  end.
Proof. destruct l; reflexivity. Qed.

Lemma lab_ok_spec dk oops l :
  lab_ok oops l = match l with
                  | LFeed f => shaped_feed f
                  | LCbCtxEnd n _ => forallb (fun o => negb (o =? n)) oops
                  | _ => true
                  end /\
  lab_ok' dk oops l = (lab_ok oops l && match l with LFeed f => no_old_feed dk f | _ => true end) /\
  (forall nc, old_watch nc l = match l with LRelCbWatch i => i <? nc | _ => false end).
Proof. repeat split. Qed.

Lemma strip_spec ot ou dk nc :
  strip ot ou dk nc [] = [] /\
  (forall l' r, strip ot ou dk nc (l' :: r) =
     if old_watch nc l' then strip ot ou dk nc r
     else match l' with
          | LFeed f => LFeed (map_feed (unren dk) f)
          | LRelCbWatch i => LRelCbWatch (i - nc)
          | LRelAcquire k => LRelAcquire (k - length ot)
          | LRelHandled k => LRelHandled (k - length ot)
          | LRelDeliver u => LRelDeliver (u - length ou)
          | x => x
          end :: strip ot ou dk nc r) /\
  (forall b, unren dk b = match idnum b with Some j => if dk <? j then dec_of_nat (j - dk) else b | None => b end) /\
  (forall b, old_id dk b = false -> ren dk (unren dk b) = b) /\ (forall b, unren dk (ren dk b) = b).
Proof.
  split; [reflexivity|]. split; [|split; [reflexivity|split; [apply ren_unren|apply unren_ren]]].
  intros l' r. cbn [strip]. destruct (old_watch nc l'); [reflexivity|]. destruct l'; reflexivity.
Qed.

Lemma windows_spec nc :
  (forall l' r o q, fresh_windows nc (l' :: r) (o :: q) =
     if old_watch nc l' then fresh_windows nc r q else o :: fresh_windows nc r q) /\
  (forall l' r o q, old_windows nc (l' :: r) (o :: q) =
     if old_watch nc l' then o :: old_windows nc r q else old_windows nc r q) /\
  (forall oss, fresh_windows nc [] oss = [] /\ old_windows nc [] oss = []) /\
  (forall tr', fresh_windows nc tr' [] = [] /\ old_windows nc tr' [] = []) /\
  (forall oops ocl w, old_window oops ocl w <-> w = [] \/ (ocl <> [] /\ exists n r, In n oops /\ w = [ORet n r])).
Proof.
  repeat split; try reflexivity; try (destruct tr'; reflexivity); auto.
Qed.

Lemma old_ok_spec dk ocb ocl : old_ok dk ocb ocl <->
  (forall c, In c ocb -> old_id dk (cb_id c) = true) /\
  (forall p, In p ocl -> old_id dk (fst p) = true) /\
  (forall c, In c ocb -> assoc (cb_id c) ocl <> None -> cb_cancelled c = true /\ cb_watch c <> WBlocked).
Proof. reflexivity. Qed.

Lemma old_release_spec i ocb ocl : old_release i ocb ocl =
  match nth_error ocb i with
  | Some c =>
      match cb_watch c with
      | WParked =>
          let done := upd_nth i (fun c0 => c0 <| cb_watch := WDone |>) ocb in
          let '(code, msg) := match cb_ctx c with
                              | Some WDeadline => (DeadlineExceeded, s_ctx_deadline)
                              | _ => (Cancelled, s_ctx_canceled) end in
          match assoc (cb_id c) ocl, cb_slot c with
          | Some j, None =>
              if j =? i then
                Some (upd_nth i (fun c0 => wake_watch (c0 <| cb_slot := Some (CErr code msg) |>)) done,
                      assoc_del (cb_id c) ocl,
                      if cb_ret c then [] else [ORet (cb_op c) (ctx_res code msg)])
              else Some (done, ocl, [])
          | _, _ => Some (done, ocl, [])
          end
      | _ => None
      end
  | None => None
  end.
Proof.
  unfold old_release, cancel_code, mark_done. destruct (nth_error ocb i) as [c|]; [|reflexivity].
  destruct (cb_watch c); try reflexivity. cbv zeta. destruct (cb_ctx c) as [[|]|]; reflexivity.
Qed.
