(* SrvRestartSimCb: the restart simulation (C08.8) for servers with AllowPush whose earlier incarnations DID register
   Callbacks.

   [embk dk ocb x]: the state x of a server with, in front of its callback table, the callback records [ocb] of
   earlier incarnations, none of them registered any more ("completed": its id is not a key of [calls]; its watcher is
   done, or blocked for ever, or parked with nothing left to do: releasing it only marks it done), the id counter
   advanced by dk, every callback index (calls, LRelCbWatch) shifted by |ocb| and every callback id RENAMED by
   [ren dk]: the numeral of k >= 1 becomes the numeral of dk + k; every other byte string is left alone.  The renaming
   applies to the ids in the callback table and in [calls], to the ids of the reply members of fed records (in the
   channel, in the reader's hands and in LFeed labels) and to the ids of the OSendReq observations.
   [embc ...] = [emb] (tasks, units, counters: SrvRestartSim) after [embk].

   Theorem [embc_step]: [step] commutes with the embedding for EVERY label, up to this renaming, under three
   environment hypotheses stated as boolean predicates:
     (i)   c_push x = true and 1 <= call_id x (invariants of the run of a server with AllowPush);
     (ii)  [shaped]: a fed member that is neither a request/notification nor reply-shaped (no method, a result or an
           error) does not carry a positive numeral as its id (such a member is answered under its own id when that id
           is not registered, so its id cannot be renamed);
     (iii) [ops_fresh]: LCbCtxEnd n is not used with the operation number of an old record.
   Labels that address an old task or unit are disabled (SrvRestartSim); LRelCbWatch on an old record is a SILENT step
   (no observation, only the old record changes) or disabled.  Fed records in the image of the renaming are exactly
   those without the id of an old callback ([no_old_ids]); a reply bearing an old id is dropped as any unknown id is
   ([restart_old_reply_unsolicited]). *)
From Coq Require Import List NArith ZArith Bool Arith Lia.
From RecordUpdate Require Import RecordUpdate.
From JV Require Import Bytes Msg SrvModel SrvLemmas SrvBasics SrvC01 SrvC07 SrvC09 SrvC10 SrvC08 SrvC08b SrvC08c SrvC08q.
From JV Require Import SrvRestartSim.
From JV Require SrvC09b.
Import ListNotations.

(** * numerals *)
Definition idnum (b : bytes) : option nat :=
  if beq b (dec_of_nat (nat_of_dec b)) then Some (nat_of_dec b) else None.

Lemma idnum_dec n : idnum (dec_of_nat n) = Some n.
Proof. unfold idnum. rewrite nat_of_dec_of_nat, beq_refl. reflexivity. Qed.

Lemma idnum_some b n : idnum b = Some n -> b = dec_of_nat n.
Proof.
  unfold idnum. destruct (beq b (dec_of_nat (nat_of_dec b))) eqn:E; [|discriminate].
  intros [= <-]. apply beq_eq. exact E.
Qed.

Definition is_posnum (b : bytes) : bool := match idnum b with Some (S _) => true | _ => false end.

Lemma idnum_nil : idnum [] = None.
Proof. vm_compute. reflexivity. Qed.
Lemma idnum_null : idnum null_bytes = None.
Proof. vm_compute. reflexivity. Qed.

Section Ren.
  Variable dk : nat.

  (* the renaming of callback ids: the numeral of k >= 1 becomes the numeral of dk + k *)
  Definition ren (b : bytes) : bytes := match idnum b with Some (S j) => dec_of_nat (dk + S j) | _ => b end.
  (* the ids the earlier incarnations may have used: the numerals of 1 .. dk *)
  Definition old_id (b : bytes) : bool := match idnum b with Some (S j) => S j <=? dk | _ => false end.
  (* the inverse renaming *)
  Definition unren (b : bytes) : bytes :=
    match idnum b with Some j => if dk <? j then dec_of_nat (j - dk) else b | None => b end.

  Lemma ren_dec j : ren (dec_of_nat (S j)) = dec_of_nat (dk + S j).
  Proof. unfold ren. rewrite idnum_dec. reflexivity. Qed.

  Lemma ren_not_pos b : is_posnum b = false -> ren b = b.
  Proof. unfold is_posnum, ren. destruct (idnum b) as [[|j]|]; auto; discriminate. Qed.

  Lemma ren_nil : ren [] = [].
  Proof. unfold ren. rewrite idnum_nil. reflexivity. Qed.
  Lemma ren_null : ren null_bytes = null_bytes.
  Proof. unfold ren. rewrite idnum_null. reflexivity. Qed.

  Lemma idnum_ren b : idnum (ren b) = match idnum b with Some (S j) => Some (dk + S j) | x => x end.
  Proof.
    unfold ren. destruct (idnum b) as [[|j]|] eqn:E; auto. apply idnum_dec.
  Qed.

  Lemma ren_inj a b : ren a = ren b -> a = b.
  Proof.
    intros H. pose proof (f_equal idnum H) as N. rewrite !idnum_ren in N. unfold ren in H.
    destruct (idnum a) as [[|j]|] eqn:Ea; destruct (idnum b) as [[|i]|] eqn:Eb; try discriminate; auto;
      try (injection N as N; lia).
    injection N as N. assert (j = i) by lia. subst i.
    apply idnum_some in Ea, Eb. congruence.
  Qed.

  Lemma old_id_ren b : old_id (ren b) = false.
  Proof.
    unfold old_id. rewrite idnum_ren. destruct (idnum b) as [[|j]|]; auto.
    replace (dk + S j) with (S (dk + j)) by lia. apply Nat.leb_gt. lia.
  Qed.

  Lemma beq_ren a b : beq (ren a) (ren b) = beq a b.
  Proof.
    destruct (beq_spec a b) as [->|N]; [apply beq_refl|]. apply beq_neq. intros H. apply N, ren_inj, H.
  Qed.

  Lemma old_ren_neq o b : old_id o = true -> beq o (ren b) = false.
  Proof. intros H. apply beq_neq. intros ->. rewrite old_id_ren in H. discriminate. Qed.

  Lemma fix_id_ren b : fix_id (ren b) = ren (fix_id b).
  Proof.
    unfold fix_id, is_null. rewrite <- ren_null at 1. rewrite beq_ren.
    destruct (beq b null_bytes); [rewrite ren_nil|]; reflexivity.
  Qed.

  Lemma ren_unren b : old_id b = false -> ren (unren b) = b.
  Proof.
    unfold old_id, unren, ren. destruct (idnum b) as [[|j]|] eqn:E; intros H.
    - cbn [Nat.ltb Nat.leb]. rewrite E. reflexivity.
    - apply Nat.leb_gt in H. destruct (Nat.ltb_spec dk (S j)) as [L|L]; [|lia].
      rewrite idnum_dec. destruct (S j - dk) as [|i] eqn:D; [lia|].
      replace (dk + S i) with (S j) by lia. symmetry. apply idnum_some. exact E.
    - rewrite E. reflexivity.
  Qed.

  Lemma unren_ren b : unren (ren b) = b.
  Proof. apply ren_inj. apply ren_unren. apply old_id_ren. Qed.

  (** ** association lists keyed by renamed ids *)
  Lemma assoc_ren {A B} (h : A -> B) k (m : list (bytes * A)) :
    assoc (ren k) (map (fun p => (ren (fst p), h (snd p))) m) = option_map h (assoc k m).
  Proof. induction m as [|[k' v] m IH]; cbn; auto. rewrite beq_ren. destruct (beq k k'); auto. Qed.

  Lemma assoc_del_ren {A B} (h : A -> B) k (m : list (bytes * A)) :
    assoc_del (ren k) (map (fun p => (ren (fst p), h (snd p))) m) =
    map (fun p => (ren (fst p), h (snd p))) (assoc_del k m).
  Proof. induction m as [|[k' v] m IH]; cbn; auto. rewrite beq_ren. destruct (beq k k'); cbn; auto. f_equal; auto. Qed.

  Lemma assoc_old {A B} (h : A -> B) o (m : list (bytes * A)) : old_id o = true ->
    assoc o (map (fun p => (ren (fst p), h (snd p))) m) = None.
  Proof. intros H. induction m as [|[k' v] m IH]; cbn; auto. rewrite (old_ren_neq o k' H). exact IH. Qed.

  (** ** the renaming of records, observations *)
  Definition ren_cb (c : cb) : cb :=
    mkCb (cb_op c) (ren (cb_id c)) (cb_slot c) (cb_ctx c) (cb_cancelled c) (cb_watch c) (cb_ret c).
  Definition reid (g : bytes -> bytes) (m : jmsg) : jmsg :=
    if is_req_or_notif m then m
    else Build_jmsg (g (j_id m)) (j_method m) (j_params m) (j_error m) (j_result m) (j_err m).
  Definition map_in (g : bytes -> bytes) (i : inbound) : inbound :=
    match i with InBad => InBad | InMsgs b ms => InMsgs b (map (reid g) ms) end.
  Definition map_feed (g : bytes -> bytes) (f : feed) : feed :=
    match f with FMsg i => FMsg (map_in g i) | FMsgEOF i => FMsgEOF (map_in g i) | FErr c => FErr c end.
  Definition ren_msg := reid ren.
  Definition ren_feed := map_feed ren.
  Definition ren_rd (r : rdpc) : rdpc := match r with RHold f => RHold (ren_feed f) | x => x end.
  Definition ren_obs (o : obs) : obs := match o with OSendReq ok id m p => OSendReq ok (ren id) m p | x => x end.

  (* (ii) the members whose id may be renamed: requests and notifications (never renamed), reply-shaped members
     (delivered to a callback or dropped, never answered), and members whose id is not a positive numeral *)
  Definition reply_shaped (m : jmsg) : bool := is_nil (j_method m) && has_reply_fields m.
  Definition shaped_msg (m : jmsg) : bool := is_req_or_notif m || reply_shaped m || negb (is_posnum (j_id m)).
  Definition shaped_in (i : inbound) : bool := match i with InBad => true | InMsgs _ ms => forallb shaped_msg ms end.
  Definition shaped_feed (f : feed) : bool := match f with FMsg i | FMsgEOF i => shaped_in i | FErr _ => true end.
  (* no member that is not a request bears the id of an old callback *)
  Definition no_old_msg (m : jmsg) : bool := is_req_or_notif m || negb (old_id (j_id m)).
  Definition no_old_in (i : inbound) : bool := match i with InBad => true | InMsgs _ ms => forallb no_old_msg ms end.
  Definition no_old_feed (f : feed) : bool := match f with FMsg i | FMsgEOF i => no_old_in i | FErr _ => true end.

  Lemma reid_req g m : is_req_or_notif (reid g m) = is_req_or_notif m.
  Proof. unfold reid. destruct (is_req_or_notif m) eqn:E; [exact E|]. exact E. Qed.

  Lemma reid_same g m : g (j_id m) = j_id m -> reid g m = m.
  Proof. unfold reid. intros H. destruct (is_req_or_notif m); [reflexivity|]. rewrite H. destruct m; reflexivity. Qed.

  Lemma ren_unren_msg m : no_old_msg m = true -> ren_msg (reid unren m) = m.
  Proof.
    unfold no_old_msg, ren_msg, reid. destruct (is_req_or_notif m) eqn:R; cbn [orb].
    - intros _. rewrite R. reflexivity.
    - intros H. apply negb_true_iff in H.
      change (is_req_or_notif (Build_jmsg (unren (j_id m)) (j_method m) (j_params m) (j_error m) (j_result m) (j_err m)))
        with (is_req_or_notif m). rewrite R. cbn [j_id j_method j_params j_error j_result j_err].
      rewrite (ren_unren _ H). destruct m; reflexivity.
  Qed.

  Lemma unren_ren_msg m : reid unren (ren_msg m) = m.
  Proof.
    unfold ren_msg, reid. destruct (is_req_or_notif m) eqn:R; [rewrite R; reflexivity|].
    change (is_req_or_notif (Build_jmsg (ren (j_id m)) (j_method m) (j_params m) (j_error m) (j_result m) (j_err m)))
      with (is_req_or_notif m). rewrite R. cbn [j_id j_method j_params j_error j_result j_err].
    rewrite unren_ren. destruct m; reflexivity.
  Qed.

  Lemma no_old_ren_msg m : no_old_msg (ren_msg m) = true.
  Proof.
    unfold no_old_msg, ren_msg. rewrite reid_req. destruct (is_req_or_notif m) eqn:R; [reflexivity|].
    unfold reid. rewrite R. cbn [j_id orb]. rewrite old_id_ren. reflexivity.
  Qed.

  Lemma ren_unren_feed f : no_old_feed f = true -> ren_feed (map_feed unren f) = f.
  Proof.
    assert (L : forall ms, forallb no_old_msg ms = true -> map ren_msg (map (reid unren) ms) = ms).
    { induction ms as [|m ms IH]; cbn [forallb map]; auto. intros H. apply andb_true_iff in H as [H1 H2].
      rewrite (ren_unren_msg m H1), (IH H2). reflexivity. }
    unfold ren_feed, ren_msg in *. destruct f as [[|b ms]|[|b ms]|c]; cbn; auto; intros H; rewrite (L ms H); reflexivity.
  Qed.

  Lemma unren_ren_feed f : map_feed unren (ren_feed f) = f.
  Proof.
    assert (L : forall ms, map (reid unren) (map ren_msg ms) = ms).
    { induction ms as [|m ms IH]; cbn [map]; auto. rewrite unren_ren_msg, IH. reflexivity. }
    unfold ren_feed, ren_msg in *. destruct f as [[|b ms]|[|b ms]|c]; cbn; auto; rewrite (L ms); reflexivity.
  Qed.

  Lemma no_old_ren_feed f : no_old_feed (ren_feed f) = true.
  Proof.
    assert (L : forall ms, forallb no_old_msg (map ren_msg ms) = true).
    { induction ms as [|m ms IH]; cbn [forallb map]; auto. rewrite no_old_ren_msg, IH. reflexivity. }
    destruct f as [[|b ms]|[|b ms]|c]; cbn; auto.
  Qed.

  (* un-renaming a shaped member leaves it shaped *)
  Lemma shaped_unren_msg m : shaped_msg m = true -> shaped_msg (reid unren m) = true.
  Proof.
    unfold shaped_msg. destruct (is_req_or_notif m) eqn:R; [unfold reid; rewrite R, R; reflexivity|].
    rewrite reid_req, R. cbn [orb]. unfold reid. rewrite R. unfold reply_shaped, has_reply_fields.
    cbn [j_id j_method j_error j_result].
    destruct (is_nil (j_method m) && match j_error m with Some _ => true | None => negb (is_nil (j_result m)) end);
      [reflexivity|]. cbn [orb]. intros H. apply negb_true_iff in H.
    unfold is_posnum in H. unfold unren. destruct (idnum (j_id m)) as [[|j]|] eqn:E; try discriminate.
    - cbn [Nat.ltb Nat.leb]. unfold is_posnum. rewrite E. reflexivity.
    - unfold is_posnum. rewrite E. reflexivity.
  Qed.

  Lemma shaped_unren_feed f : shaped_feed f = true -> shaped_feed (map_feed unren f) = true.
  Proof.
    assert (L : forall ms, forallb shaped_msg ms = true -> forallb shaped_msg (map (reid unren) ms) = true).
    { induction ms as [|m ms IH]; cbn [forallb map]; auto. intros H. apply andb_true_iff in H as [H1 H2].
      rewrite (shaped_unren_msg m H1), (IH H2). reflexivity. }
    destruct f as [[|b ms]|[|b ms]|c]; cbn; auto.
  Qed.

  (** * The embedding of the callback machinery *)
  Section K.
    Variable ocb : list cb.
    Notation nc := (length ocb).
    (* the old records bear old ids *)
    Hypothesis Hid : forall c, In c ocb -> old_id (cb_id c) = true.

    Definition sh_call (p : bytes * nat) : bytes * nat := (ren (fst p), nc + snd p).

    Definition embk (s : state) : state :=
      mkState (c_K s) (c_push s) (c_builtin s) (c_methods s) (c_unblock s) (map ren_feed (ch_in s)) (send_fail s)
        (running s) (stop_err s) (work_closed s) (closes s) (starts s) (ren_rd (rd s)) (dp s) (inq s)
        (units s) (tasks s) (nbar s) (sem_free s) (sem_wait s) (used s)
        (map sh_call (calls s)) (dk + call_id s) (ocb ++ map ren_cb (cbs s)) (wg s) (ops s) (waits s) (ended s) (crash s).

    Definition renk_label (l : label) : label :=
      match l with LFeed f => LFeed (ren_feed f) | LRelCbWatch i => LRelCbWatch (nc + i) | x => x end.

    Definition embkp (x : state * list obs) : state * list obs := (embk (fst x), map ren_obs (snd x)).

    (** ** tasks, semaphore *)
    Lemma k_cancel_task s k : cancel_task k (embk s) = embk (cancel_task k s).
    Proof.
      unfold cancel_task. change (tasks (embk s)) with (tasks s).
      destruct (nth_error (tasks s) k) as [t|]; [|reflexivity]. destruct (t_st t); reflexivity.
    Qed.

    Lemma k_grant : forall fuel s acc,
      grant fuel (embk s) (map ren_obs acc) = (embk (fst (grant fuel s acc)), map ren_obs (snd (grant fuel s acc))).
    Proof.
      induction fuel as [|f IH]; intros s acc; [reflexivity|].
      cbn [grant]. change (sem_wait (embk s)) with (sem_wait s). change (sem_free (embk s)) with (sem_free s).
      destruct (sem_wait s) as [|k r]; [reflexivity|]. destruct (sem_free s) as [|fr]; [reflexivity|].
      change (tasks (embk s)) with (tasks s). destruct (nth_error (tasks s) k) as [t|]; [|reflexivity].
      destruct (t_builtin t).
      - rewrite <- IH. reflexivity.
      - rewrite <- IH. rewrite map_app. reflexivity.
    Qed.

    Lemma k_fold_cancel : forall (l : list (bytes * nat)) s,
      fold_left (fun st p => cancel_task (snd p) st) l (embk s) = embk (fold_left (fun st p => cancel_task (snd p) st) l s).
    Proof. induction l as [|p l IH]; intros s; cbn [fold_left]; auto. rewrite k_cancel_task. apply IH. Qed.

    (** ** stopLocked *)
    Lemma k_stage3_cbs s :
      map (fun c => match assoc (cb_id c) (calls (embk s)) with
                    | Some _ => c <| cb_cancelled := true |>
                                  <| cb_watch := match cb_watch c with WBlocked => WParked | w => w end |>
                    | None => c end) (cbs (embk s)) =
      ocb ++ map ren_cb (map (fun c => match assoc (cb_id c) (calls s) with
                    | Some _ => c <| cb_cancelled := true |>
                                  <| cb_watch := match cb_watch c with WBlocked => WParked | w => w end |>
                    | None => c end) (cbs s)).
    Proof.
      cbn [cbs calls embk]. rewrite map_app. f_equal.
      - rewrite <- (map_id ocb) at 2. apply map_ext_in. intros c Ic. unfold sh_call. rewrite (assoc_old _ _ _ (Hid c Ic)). reflexivity.
      - rewrite !map_map. apply map_ext. intros c. cbn [cb_id ren_cb]. unfold sh_call. rewrite assoc_ren.
        destruct (assoc (cb_id c) (calls s)); reflexivity.
    Qed.

    Lemma k_stage1 s : stage1 (embk s) = embk (stage1 s).
    Proof. reflexivity. Qed.
    Lemma k_stage2 s : stage2 (embk s) = embk (stage2 s).
    Proof. unfold stage2. change (work_closed (embk s)) with (work_closed s). destruct (work_closed s); reflexivity. Qed.
    Lemma k_stage3 s : stage3 (embk s) = embk (stage3 s).
    Proof. unfold stage3. st_ext. apply k_stage3_cbs. Qed.
    Lemma k_stage4 s : stage4 (embk s) = embk (stage4 s).
    Proof. unfold stage4. change (used (embk s)) with (used s). apply k_fold_cancel. Qed.
    Lemma k_stage5 c s : stage5 c (embk s) = embk (stage5 c s).
    Proof. reflexivity. Qed.
    Lemma k_stage6 s : stage6 (embk s) = embk (stage6 s).
    Proof.
      unfold stage6. change (c_unblock (embk s)) with (c_unblock s). destruct (c_unblock s); [|reflexivity].
      st_ext. rewrite map_app. reflexivity.
    Qed.

    Lemma k_stop_locked c s : stop_locked c (embk s) = embkp (stop_locked c s).
    Proof.
      rewrite !stop_locked_stages. change (running (embk s)) with (running s). destruct (running s); cbn [negb]; [|reflexivity].
      unfold embkp. cbn [fst snd map ren_obs].
      rewrite k_stage1, k_stage2, k_stage3, k_stage4, k_stage5, k_stage6. reflexivity.
    Qed.

    (** ** the dispatcher *)
    Lemma k_dequeue s : dequeue (embk s) = embk (dequeue s).
    Proof.
      unfold dequeue. change (inq (embk s)) with (inq s). change (running (embk s)) with (running s).
      destruct (inq s) as [|[batch ms] q]; [destruct (running s); reflexivity|]. reflexivity.
    Qed.

    Lemma k_release_ids : forall ts s, release_ids ts (embk s) = embk (release_ids ts s).
    Proof.
      induction ts as [|t r IH]; intros s; cbn [release_ids]; auto.
      destruct (t_hasctx t && negb (is_note t)); [|apply IH].
      change (used (embk s)) with (used s). destruct (assoc (t_id t) (used s)) as [owner|]; [|apply IH].
      rewrite k_cancel_task. rewrite <- IH. reflexivity.
    Qed.

    (** ** wake-ups *)
    Lemma k_settle_dp s : settle_dp (embk s) = option_map embkp (settle_dp s).
    Proof.
      unfold settle_dp. change (dp (embk s)) with (dp s). destruct (dp s) as [| | |u|u|]; try reflexivity.
      - change (running (embk s)) with (running s). change (inq (embk s)) with (inq s).
        destruct (negb (running s) || negb (is_nil_list (inq s))); [|reflexivity]. rewrite k_dequeue. reflexivity.
      - change (nbar (embk s)) with (nbar s). destruct (nbar s =? 0); [|reflexivity].
        change (units (embk s)) with (units s). destruct (nth_error (units s) u) as [un|]; reflexivity.
    Qed.

    Lemma k_settle_units s : settle_units (embk s) = option_map embkp (settle_units s).
    Proof.
      unfold settle_units.
      change (find_unit (unit_complete (embk s)) 0 (units (embk s))) with (find_unit (unit_complete s) 0 (units s)).
      destruct (find_unit (unit_complete s) 0 (units s)) as [i|].
      - change (units (embk s)) with (units s). destruct (nth_error (units s) i) as [un|]; [|reflexivity].
        change (unit_tasks (embk s) i) with (unit_tasks s i).
        destruct (is_nil_list (responses (unit_tasks s i))); reflexivity.
      - change (waits (embk s)) with (waits s). change (wg (embk s)) with (wg s). change (inq (embk s)) with (inq s).
        destruct ((0 <? waits s) && (wg s =? 0)); [|reflexivity]. destruct (is_nil_list (inq s)); reflexivity.
    Qed.

    Lemma k_settle1 s : settle1 (embk s) = option_map embkp (settle1 s).
    Proof.
      rewrite !settle1_rest. change (rd (embk s)) with (ren_rd (rd s)). change (ch_in (embk s)) with (map ren_feed (ch_in s)).
      assert (Rest : settle_rest (embk s) = option_map embkp (settle_rest s)).
      { unfold settle_rest. rewrite k_settle_dp. destruct (settle_dp s); [reflexivity|]. apply k_settle_units. }
      destruct (rd s); cbn [ren_rd]; try exact Rest. destruct (ch_in s) as [|f q]; cbn [map]; [exact Rest|]. reflexivity.
    Qed.

    Lemma k_settle : forall fuel s acc, settle fuel (embk s) (map ren_obs acc) = embkp (settle fuel s acc).
    Proof.
      induction fuel as [|f IH]; intros s acc; [reflexivity|]. cbn [settle]. rewrite k_settle1.
      destruct (settle1 s) as [[s1 os1]|]; cbn [option_map embkp fst snd]; [|reflexivity].
      rewrite <- map_app. apply IH.
    Qed.

    Lemma k_settle_fuel s : settle_fuel (embk s) = settle_fuel s.
    Proof. unfold settle_fuel. cbn [units ch_in inq waits embk]. rewrite map_length. reflexivity. Qed.

    (** ** callbacks *)
    Lemma k_nth_cb s i : nth_error (cbs (embk s)) (nc + i) = option_map ren_cb (nth_error (cbs s) i).
    Proof.
      cbn [cbs embk]. rewrite nth_error_app_shift. destruct (nth_error (cbs s) i) as [c|] eqn:E.
      - apply map_nth_error. exact E.
      - apply nth_error_None. rewrite map_length. apply nth_error_None. exact E.
    Qed.

    Lemma k_upd_cbs s i (f : cb -> cb) : (forall c, f (ren_cb c) = ren_cb (f c)) ->
      upd_nth (nc + i) f (cbs (embk s)) = ocb ++ map ren_cb (upd_nth i f (cbs s)).
    Proof. intros Hf. cbn [cbs embk]. rewrite upd_nth_app_shift. f_equal. apply upd_nth_map. exact Hf. Qed.

    Lemma k_complete_cb i r s : complete_cb (nc + i) r (embk s) = embkp (complete_cb i r s).
    Proof.
      unfold complete_cb. rewrite k_nth_cb. destruct (nth_error (cbs s) i) as [c|]; cbn [option_map]; [|reflexivity].
      unfold embkp. cbn [fst snd]. f_equal.
      - apply state_ext; try reflexivity.
        + apply (assoc_del_ren (Nat.add nc)).
        + apply k_upd_cbs. reflexivity.
      - change (cb_ret (ren_cb c)) with (cb_ret c). destruct (cb_ret c); reflexivity.
    Qed.

    Lemma complete_cb_push i r s : c_push (fst (complete_cb i r s)) = c_push s.
    Proof. unfold complete_cb. destruct (nth_error (cbs s) i); reflexivity. Qed.

    Lemma reid_fields g m : j_method (reid g m) = j_method m /\ j_error (reid g m) = j_error m /\
      j_result (reid g m) = j_result m /\ has_reply_fields (reid g m) = has_reply_fields m.
    Proof. unfold reid. destruct (is_req_or_notif m); repeat split. Qed.

    Lemma k_filter_batch : forall ms s keep acc, c_push s = true -> forallb shaped_msg ms = true ->
      filter_batch (map ren_msg ms) (embk s) keep (map ren_obs acc) =
      let '(s1, k, o) := filter_batch ms s keep acc in (embk s1, k, map ren_obs o).
    Proof.
      induction ms as [|m r IH]; intros s keep acc Cp Sh; cbn [filter_batch map]; [reflexivity|].
      cbn [forallb] in Sh. apply andb_true_iff in Sh as [Sm Sr].
      unfold ren_msg at 1. rewrite reid_req. fold ren_msg.
      destruct (is_req_or_notif m) eqn:R.
      - assert (E : ren_msg m = m) by (unfold ren_msg, reid; rewrite R; reflexivity). rewrite E. apply IH; auto.
      - assert (Eid : fix_id (j_id (ren_msg m)) = ren (fix_id (j_id m))).
        { unfold ren_msg, reid. rewrite R. cbn [j_id]. apply fix_id_ren. }
        destruct (reid_fields ren m) as (Fm & Fe & Fr & Fh). fold ren_msg in Fm, Fe, Fr, Fh.
        rewrite Eid, Fm, Fe, Fr, Fh. change (calls (embk s)) with (map sh_call (calls s)). unfold sh_call. rewrite assoc_ren.
        destruct (assoc (fix_id (j_id m)) (calls s)) as [i|]; cbn [option_map].
        + rewrite k_complete_cb.
          match goal with |- context [complete_cb i ?v s] =>
            pose proof (complete_cb_push i v s) as Cp1; destruct (complete_cb i v s) as [s1 os1] end.
          cbn [fst] in Cp1. cbn [embkp fst snd]. rewrite <- map_app. apply IH; [congruence|auto].
        + change (c_push (embk s)) with (c_push s). rewrite Cp. cbn [andb].
          destruct (is_nil (j_method m) && has_reply_fields m) eqn:RS; [apply IH; auto|].
          assert (E : ren_msg m = m).
          { apply reid_same. apply ren_not_pos. unfold shaped_msg, reply_shaped in Sm. rewrite R, RS in Sm.
            cbn [orb] in Sm. apply negb_true_iff in Sm. exact Sm. }
          rewrite E. apply IH; auto.
    Qed.

    Lemma k_filter_batch0 ms s : c_push s = true -> forallb shaped_msg ms = true ->
      filter_batch (map ren_msg ms) (embk s) [] [] =
      let '(s1, k, o) := filter_batch ms s [] [] in (embk s1, k, map ren_obs o).
    Proof. intros Cp Sh. exact (k_filter_batch ms s [] [] Cp Sh). Qed.

    Lemma k_read_cs f s : c_push s = true -> shaped_feed f = true -> read_cs (ren_feed f) (embk s) = embkp (read_cs f s).
    Proof.
      intros Cp Sh. destruct f as [i|i|sc]; unfold read_cs; unfold ren_feed; cbn [map_feed].
      1,2: change (running (embk s)) with (running s); destruct (negb (running s)); [reflexivity|];
           destruct i as [|b ms]; [reflexivity|]; destruct ms as [|m ms]; [reflexivity|];
           cbn [map_in]; change (map (reid ren) (m :: ms)) with (map ren_msg (m :: ms));
           cbn [shaped_feed shaped_in] in Sh; cbn [map];
           change (ren_msg m :: map ren_msg ms) with (map ren_msg (m :: ms));
           rewrite (k_filter_batch0 (m :: ms) s Cp Sh); destruct (filter_batch (m :: ms) s [] []) as [[s1 keep] os1];
           destruct keep as [|k0 kr]; [reflexivity|]; cbv zeta;
           match goal with |- (if ?x then _ else _) = embkp (if ?y then _ else _) => change x with y; destruct y end;
           unfold embkp; cbn [fst snd]; rewrite ?map_app; reflexivity.
      rewrite k_stop_locked. destruct (stop_locked sc s) as [s2 os2]. reflexivity.
    Qed.

    Lemma k_grant0 fuel s : grant fuel (embk s) [] = (embk (fst (grant fuel s [])), map ren_obs (snd (grant fuel s []))).
    Proof. exact (k_grant fuel s []). Qed.

    (** ** critical sections *)
    (* (iii) LCbCtxEnd is not used with the operation number of an old record *)
    Definition ops_fresh (l : label) : bool :=
      match l with LCbCtxEnd n _ => forallb (fun c => negb (cb_op c =? n)) ocb | _ => true end.
    Definition rd_shaped (s : state) : bool := match rd s with RHold f => shaped_feed f | _ => true end.

    Lemma add_eqb_l j i : (nc + j =? nc + i) = (j =? i).
    Proof. destruct (Nat.eqb_spec j i), (Nat.eqb_spec (nc + j) (nc + i)); auto; lia. Qed.

    Lemma k_step_raw s l : c_push s = true -> 1 <= call_id s -> rd_shaped s = true -> ops_fresh l = true ->
      step_raw (embk s) (renk_label l) = option_map embkp (step_raw s l).
    Proof.
      intros Cp Ci Rs Of. destruct l; cbn [renk_label step_raw].
      - (* LStart *)
        change (running (embk s)) with (running s). change (wg (embk s)) with (wg s).
        destruct (negb (running s) && (wg s =? 0)); reflexivity.
      - (* LFeed *)
        cbn [option_map]. unfold embkp. cbn [fst snd map]. f_equal. f_equal. apply state_ext; try reflexivity.
        cbn. rewrite map_app. reflexivity.
      - reflexivity.
      - (* LGate *)
        change (tasks (embk s)) with (tasks s). destruct (find_idx _ 0 (tasks s)) as [k|]; [|reflexivity].
        destruct (nth_error (tasks s) k) as [t|]; reflexivity.
      - reflexivity.
      - reflexivity.
      - change (c_push (embk s)) with (c_push s). destruct (c_push s); reflexivity.
      - reflexivity.
      - (* LCbCtxEnd *)
        cbn [ops_fresh] in Of.
        assert (F : find_idx (fun c => cb_op c =? n) 0 (cbs (embk s)) =
                    option_map (Nat.add nc) (find_idx (fun c => cb_op c =? n) 0 (cbs s))).
        { cbn [cbs embk]. rewrite find_idx_app_none.
          - rewrite find_idx_map. cbn [Nat.add]. replace nc with (nc + 0) at 1 by lia.
            rewrite find_idx_add. reflexivity.
          - intros c Ic. rewrite forallb_forall in Of. apply negb_true_iff. apply Of. exact Ic. }
        rewrite F. destruct (find_idx _ 0 (cbs s)) as [i|]; cbn [option_map]; [|reflexivity].
        unfold embkp. cbn [fst snd map]. f_equal. f_equal. apply state_ext; try reflexivity.
        apply k_upd_cbs. intros c. change (cb_cancelled (ren_cb c)) with (cb_cancelled c).
        destruct (cb_cancelled c); reflexivity.
      - (* LRelRead *)
        unfold rd_shaped in Rs. change (rd (embk s)) with (ren_rd (rd s)). destruct (rd s); try reflexivity.
        cbn [ren_rd option_map]. f_equal. apply k_read_cs; auto.
      - (* LRelNext *)
        change (dp (embk s)) with (dp s). destruct (dp s); try reflexivity. rewrite k_dequeue. reflexivity.
      - (* LRelBarrier *)
        change (dp (embk s)) with (dp s). destruct (dp s); reflexivity.
      - (* LRelAcquire *)
        change (tasks (embk s)) with (tasks s). destruct (nth_error (tasks s) k) as [t|]; [|reflexivity].
        destruct (t_st t); try reflexivity.
        change (unit_running (embk s) t) with (unit_running s t). destruct (negb (unit_running s t)); [reflexivity|].
        destruct (t_cancelled t); [reflexivity|].
        change (sem_free (embk s)) with (sem_free s). change (sem_wait (embk s)) with (sem_wait s).
        destruct (sem_free s) as [|fr]; [reflexivity|]. destruct (sem_wait s) as [|j r]; [|reflexivity].
        destruct (t_builtin t); reflexivity.
      - (* LRelHandled *)
        change (tasks (embk s)) with (tasks s). destruct (nth_error (tasks s) k) as [t|]; [|reflexivity].
        destruct (t_st t) as [| | | |o|]; try reflexivity.
        set (s1 := set_task k (fun t0 => t0 <| t_st := TDone (body_of_outcome t0 o) |>) s <| sem_free ::= S |>).
        change (set_task k (fun t0 => t0 <| t_st := TDone (body_of_outcome t0 o) |>) (embk s) <| sem_free ::= S |>)
          with (embk s1).
        change (sem_wait (embk s1)) with (sem_wait s1). rewrite k_grant0.
        destruct (grant (S (length (sem_wait s1))) s1 []) as [s2 os2]. cbn [fst snd].
        change (nbar (embk s2)) with (nbar s2).
        destruct (is_note t); [destruct (nbar s2)|]; cbn [option_map]; unfold embkp; cbn [fst snd]; rewrite ?map_app;
          reflexivity.
      - (* LRelDeliver *)
        change (units (embk s)) with (units s). destruct (nth_error (units s) u) as [un|]; [|reflexivity].
        destruct (u_st un); try reflexivity.
        change (unit_tasks (embk s) u) with (unit_tasks s u). rewrite k_release_ids.
        destruct (negb (u_chok un)); reflexivity.
      - (* LRelStop *)
        change (ops (embk s)) with (ops s). destruct (find_op n (ops s)) as [[n0|n0 id|n0 w m p]|]; try reflexivity.
        change (embk s <| ops ::= del_op n |>) with (embk (s <| ops ::= del_op n |>)). rewrite k_stop_locked.
        destruct (stop_locked SCStop (s <| ops ::= del_op n |>)) as [s2 os2].
        cbn [option_map]. unfold embkp. cbn [fst snd]. rewrite map_app. reflexivity.
      - (* LRelCancel *)
        change (ops (embk s)) with (ops s). destruct (find_op n (ops s)) as [[n0|n0 id|n0 w m p]|]; try reflexivity.
        change (embk s <| ops ::= del_op n |>) with (embk (s <| ops ::= del_op n |>)).
        change (used (embk (s <| ops ::= del_op n |>))) with (used (s <| ops ::= del_op n |>)).
        destruct (assoc id (used (s <| ops ::= del_op n |>))) as [owner|]; [rewrite k_cancel_task|]; reflexivity.
      - (* LRelPush *)
        change (ops (embk s)) with (ops s). destruct (find_op n (ops s)) as [[n0|n0 id|n0 w m p]|]; try reflexivity.
        set (s1 := s <| ops ::= del_op n |>). change (embk s <| ops ::= del_op n |>) with (embk s1).
        change (running (embk s1)) with (running s1). destruct (negb (running s1)); [reflexivity|].
        change (send_fail (embk s1)) with (send_fail s1).
        destruct w.
        2:{ cbn [option_map]. unfold embkp. cbn [fst snd map ren_obs]. rewrite ren_nil. reflexivity. }
        change (call_id (embk s1)) with (dk + call_id s1).
        assert (Cj : exists j, call_id s1 = S j) by (exists (call_id s - 1); change (call_id s1) with (call_id s); lia).
        destruct Cj as (j & Cj). rewrite Cj. rewrite <- (ren_dec j).
        destruct (send_fail s1).
        + cbn [option_map]. unfold embkp. cbn [fst snd map ren_obs]. f_equal. f_equal.
          apply state_ext; try reflexivity.
          * cbn. lia.
          * cbn. rewrite map_app, app_assoc. reflexivity.
        + change (ended (embk s1)) with (ended s1).
          cbn [option_map]. unfold embkp. cbn [fst snd map ren_obs]. f_equal. f_equal.
          apply state_ext; try reflexivity.
          * cbn. rewrite app_length, map_length. f_equal.
            apply (assoc_del_ren (Nat.add nc)).
          * cbn. lia.
          * cbn. rewrite map_app, app_assoc. f_equal. cbn [map]. f_equal.
            destruct (find (fun e => fst e =? n) (ended s)) as [[? ?]|]; reflexivity.
      - (* LRelCbWatch *)
        rewrite k_nth_cb. destruct (nth_error (cbs s) c) as [cb0|]; [|reflexivity]. cbn [option_map].
        change (cb_watch (ren_cb cb0)) with (cb_watch cb0). destruct (cb_watch cb0); try reflexivity.
        assert (E1 : embk s <| cbs ::= upd_nth (nc + c) (fun c0 => c0 <| cb_watch := WDone |>) |> =
                     embk (s <| cbs ::= upd_nth c (fun c0 => c0 <| cb_watch := WDone |>) |>)).
        { apply state_ext; try reflexivity. apply k_upd_cbs. reflexivity. }
        rewrite E1. set (s1 := s <| cbs ::= upd_nth c (fun c0 => c0 <| cb_watch := WDone |>) |>).
        change (calls (embk s1)) with (map sh_call (calls s1)). change (cb_id (ren_cb cb0)) with (ren (cb_id cb0)).
        unfold sh_call. rewrite assoc_ren.
        destruct (assoc (cb_id cb0) (calls s1)) as [j|]; cbn [option_map]; [|reflexivity].
        change (cb_slot (ren_cb cb0)) with (cb_slot cb0). destruct (cb_slot cb0); [reflexivity|].
        rewrite add_eqb_l. destruct (j =? c); [|reflexivity].
        change (cb_ctx (ren_cb cb0)) with (cb_ctx cb0).
        destruct (match cb_ctx cb0 with Some WDeadline => _ | _ => _ end) as [code msg].
        cbn [option_map]. f_equal. apply k_complete_cb.
    Qed.

    (** ** windows *)
    Theorem k_step s l : c_push s = true -> 1 <= call_id s -> rd_shaped s = true -> ops_fresh l = true ->
      step (embk s) (renk_label l) = option_map embkp (step s l).
    Proof.
      intros Cp Ci Rs Of. unfold step. change (crash (embk s)) with (crash s). destruct (crash s); [reflexivity|].
      rewrite k_step_raw by auto. destruct (step_raw s l) as [[s1 os]|]; cbn [option_map embkp fst snd]; [|reflexivity].
      change (crash (embk s1)) with (crash s1). destruct (crash s1); [reflexivity|].
      rewrite k_settle_fuel, k_settle. reflexivity.
    Qed.
  End K.

  (** ** the watcher of an old record: a silent step *)
  Definition old_ok (ocb : list cb) : Prop := forall c, In c ocb -> old_id (cb_id c) = true.
  Definition mark_done (i : nat) (ocb : list cb) : list cb := upd_nth i (fun c => c <| cb_watch := WDone |>) ocb.

  Lemma old_ok_mark i ocb : old_ok ocb -> old_ok (mark_done i ocb).
  Proof.
    intros H c Ic. apply in_upd_nth in Ic as [Ic|(x & N & ->)]; [apply H; exact Ic|].
    apply (H x). eapply nth_error_In; eauto.
  Qed.

  Lemma mark_done_length i ocb : length (mark_done i ocb) = length ocb.
  Proof. apply upd_nth_length. Qed.

  Lemma mark_done_ops i ocb : map cb_op (mark_done i ocb) = map cb_op ocb.
  Proof. apply map_upd_nth_same. reflexivity. Qed.

  Lemma embk_old_watch_raw ocb s i c : old_ok ocb -> nth_error ocb i = Some c ->
    step_raw (embk ocb s) (LRelCbWatch i) =
    match cb_watch c with WParked => Some (embk (mark_done i ocb) s, []) | _ => None end.
  Proof.
    intros Ho N. cbn [step_raw].
    assert (N' : nth_error (cbs (embk ocb s)) i = Some c) by (cbn [cbs embk]; apply nth_error_app_old; exact N).
    rewrite N'. destruct (cb_watch c); try reflexivity.
    set (s1 := embk ocb s <| cbs ::= upd_nth i (fun c0 => c0 <| cb_watch := WDone |>) |>).
    assert (A : assoc (cb_id c) (calls s1) = None).
    { apply (assoc_old (Nat.add (length ocb))). apply Ho. eapply nth_error_In; eauto. }
    rewrite A. f_equal. f_equal. unfold s1. apply state_ext; try reflexivity.
    - cbn. unfold sh_call. rewrite mark_done_length. reflexivity.
    - cbn. apply upd_nth_app_l. eapply nth_error_some_lt; eauto.
  Qed.

  Lemma embk_old_watch ocb s i c : old_ok ocb -> nth_error ocb i = Some c -> settle1 s = None ->
    step (embk ocb s) (LRelCbWatch i) =
    match crash s, cb_watch c with None, WParked => Some (embk (mark_done i ocb) s, []) | _, _ => None end.
  Proof.
    intros Ho N St. unfold step. change (crash (embk ocb s)) with (crash s). destruct (crash s) eqn:Cr; [reflexivity|].
    rewrite (embk_old_watch_raw ocb s i c Ho N). destruct (cb_watch c); try reflexivity.
    change (crash (embk (mark_done i ocb) s)) with (crash s). rewrite Cr.
    rewrite k_settle_fuel. pose proof (k_settle (mark_done i ocb) (settle_fuel s) s []) as K. cbn [map] in K. rewrite K.
    rewrite (SrvC09b.settle_none _ s [] St). reflexivity.
  Qed.

End Ren.

(** * Invariants of the run of a server with AllowPush, fed shaped records *)
Definition fed_ok (s : state) : Prop := (forall f, In f (ch_in s) -> shaped_feed f = true) /\ rd_shaped s = true.
Definition pinv (s : state) : Prop := c_push s = true /\ 1 <= call_id s /\ fed_ok s.
Definition lab_shaped (l : label) : bool := match l with LFeed f => shaped_feed f | _ => true end.

Definition pvw (s : state) := (c_push s, call_id s, ch_in s, rd s).
Definition evo (s s' : state) : Prop :=
  c_push s' = c_push s /\ call_id s <= call_id s' /\
  (forall f, In f (ch_in s') -> In f (ch_in s) \/ f = FErr SCClosing) /\
  (rd s' = rd s \/ forall f, rd s' <> RHold f).

Lemma evo_pvw s s' : pvw s' = pvw s -> evo s s'.
Proof. unfold pvw. intros [= A B C D]. unfold evo. rewrite A, B, C, D. repeat split; auto. Qed.

Lemma evo_trans a b c : evo a b -> evo b c -> evo a c.
Proof.
  intros (A1 & A2 & A3 & A4) (B1 & B2 & B3 & B4). split; [congruence|]. split; [lia|]. split.
  - intros f I. destruct (B3 f I) as [I'|E]; auto.
  - destruct B4 as [E|N]; [|right; exact N]. destruct A4 as [E'|N']; [left; congruence|right]. rewrite E. exact N'.
Qed.

Lemma evo_pinv s s' : evo s s' -> pinv s -> pinv s'.
Proof.
  intros (A1 & A2 & A3 & A4) (P1 & P2 & P3 & P4). split; [congruence|]. split; [lia|]. split.
  - intros f I. destruct (A3 f I) as [I'|E]; [auto|subst f; reflexivity].
  - unfold rd_shaped in *. destruct A4 as [E|N]; [rewrite E; exact P4|].
    destruct (rd s') as [| |f|] eqn:R; auto. exfalso. apply (N f). reflexivity.
Qed.

Lemma cancel_task_pvw k s : pvw (cancel_task k s) = pvw s.
Proof. unfold cancel_task. destruct (nth_error (tasks s) k) as [t|]; auto. destruct (t_st t); reflexivity. Qed.

Lemma grant_pvw : forall fuel s acc, pvw (fst (grant fuel s acc)) = pvw s.
Proof.
  induction fuel as [|f IH]; cbn [grant]; intros s acc; [reflexivity|].
  destruct (sem_wait s) as [|k r]; [reflexivity|]. destruct (sem_free s) as [|fr]; [reflexivity|].
  destruct (nth_error (tasks s) k) as [t|]; [|reflexivity]. destruct (t_builtin t); rewrite IH; reflexivity.
Qed.

Lemma fold_cancel_pvw : forall (l : list (bytes * nat)) s,
  pvw (fold_left (fun st p => cancel_task (snd p) st) l s) = pvw s.
Proof. induction l as [|p l IH]; cbn; intros s; auto. rewrite IH. apply cancel_task_pvw. Qed.

Lemma release_ids_pvw : forall ts s, pvw (release_ids ts s) = pvw s.
Proof.
  induction ts as [|t r IH]; cbn [release_ids]; intros s; auto. rewrite IH.
  destruct (t_hasctx t && negb (is_note t)); auto. destruct (assoc (t_id t) (used s)) as [n|]; auto.
  change (pvw (cancel_task n s) = pvw s). apply cancel_task_pvw.
Qed.

Lemma dequeue_pvw s : pvw (dequeue s) = pvw s.
Proof. unfold dequeue. destruct (inq s) as [|[b ms] q]; [destruct (running s)|]; reflexivity. Qed.

Lemma complete_cb_pvw i r s : pvw (fst (complete_cb i r s)) = pvw s.
Proof. unfold complete_cb. destruct (nth_error (cbs s) i); reflexivity. Qed.

Lemma filter_batch_pvw : forall ms s keep acc, pvw (fst (fst (filter_batch ms s keep acc))) = pvw s.
Proof.
  induction ms as [|m r IH]; intros s keep acc; cbn [filter_batch]; [reflexivity|].
  destruct (is_req_or_notif m); [apply IH|].
  destruct (assoc (fix_id (j_id m)) (calls s)) as [i|].
  - match goal with |- context [complete_cb i ?v s] =>
      pose proof (complete_cb_pvw i v s) as P; destruct (complete_cb i v s) as [s1 os1] end.
    cbn [fst] in P. rewrite IH. exact P.
  - destruct (c_push s && is_nil (j_method m) && has_reply_fields m); apply IH.
Qed.

Lemma stop_locked_evo c s : evo s (fst (stop_locked c s)) /\ rd (fst (stop_locked c s)) = rd s.
Proof.
  rewrite stop_locked_stages. destruct (negb (running s)); cbn [fst]; [split; [apply evo_pvw|]; reflexivity|].
  set (s3 := stage3 (stage2 (stage1 s))).
  assert (P3 : pvw s3 = pvw s).
  { unfold s3, stage3, stage2. destruct (work_closed (stage1 s)); reflexivity. }
  pose proof (fold_cancel_pvw (used s3) s3) as P4. fold (stage4 s3) in P4. rewrite P3 in P4.
  unfold pvw in P4. injection P4 as Q1 Q2 Q3 Q4. set (s4 := stage4 s3) in *. clearbody s4. clear P3. clearbody s3.
  unfold stage6, stage5. match goal with |- context [if ?b then _ else _] => destruct b end; (split; [|exact Q4]).
  - unfold evo. cbn. rewrite Q1, Q2, Q3, Q4. repeat split; auto.
    intros f I. apply in_app_or in I as [I|[<-|[]]]; auto.
  - apply evo_pvw. unfold pvw. cbn. congruence.
Qed.

Lemma read_cs_evo f s : evo (s <| rd := RIdle |>) (fst (read_cs f s)) /\ forall g, rd (fst (read_cs f s)) <> RHold g.
Proof.
  destruct f as [i|i|sc]; unfold read_cs.
  1,2: destruct (negb (running s));
       [split; [unfold evo; cbn; repeat split; auto; right; intros ?; discriminate|cbn; intros ?; discriminate]|];
       destruct i as [|b ms]; [split; [apply evo_pvw; reflexivity|cbn; intros ?; discriminate]|];
       destruct ms as [|m ms]; [split; [apply evo_pvw; reflexivity|cbn; intros ?; discriminate]|];
       pose proof (filter_batch_pvw (m :: ms) s [] []) as P;
       destruct (filter_batch (m :: ms) s [] []) as [[s1 keep] os1]; cbn [fst] in P;
       unfold pvw in P; injection P as Q1 Q2 Q3 Q4;
       destruct keep as [|k0 kr];
       [split; [apply evo_pvw; unfold pvw; cbn; congruence|cbn; intros ?; discriminate]|]; cbv zeta;
       match goal with |- context [if ?b then _ else _] => destruct b end;
       (split; [apply evo_pvw; unfold pvw; cbn; congruence|cbn; intros ?; discriminate]).
  destruct (stop_locked_evo sc s) as [(E1 & E2 & E3 & E4) Er]. destruct (stop_locked sc s) as [s2 os2]. cbn [fst] in *.
  split; [|cbn; intros ?; discriminate]. unfold evo. cbn. repeat split; auto. right. intros ?; discriminate.
Qed.

Lemma evo_rd_upd s s' : evo (s <| rd := RIdle |>) s' -> (forall g, rd s' <> RHold g) -> evo s s'.
Proof. intros (A1 & A2 & A3 & _) N. repeat split; auto. Qed.

Lemma settle1_pinv s s' os : settle1 s = Some (s', os) -> pinv s -> pinv s'.
Proof.
  intros H P. apply settle1_inv in H. destruct H.
  - destruct P as (P1 & P2 & P3 & P4). repeat split; auto.
    + cbn. intros g I. apply P3. rewrite H0. right. exact I.
    + unfold rd_shaped. cbn. apply P3. rewrite H0. left. reflexivity.
  - eapply evo_pinv; [apply evo_pvw, dequeue_pvw|exact P].
  - eapply evo_pinv; [apply evo_pvw; reflexivity|exact P].
  - eapply evo_pinv; [apply evo_pvw; reflexivity|exact P].
  - eapply evo_pinv; [apply evo_pvw; reflexivity|exact P].
  - eapply evo_pinv; [apply evo_pvw; reflexivity|exact P].
  - eapply evo_pinv; [apply evo_pvw; reflexivity|exact P].
Qed.

Lemma settle_pinv : forall fuel s acc, pinv s -> pinv (fst (settle fuel s acc)).
Proof.
  induction fuel as [|f IH]; intros s acc P; cbn [settle]; [exact P|].
  destruct (settle1 s) as [[s1 os1]|] eqn:E; [|exact P]. apply IH. eapply settle1_pinv; eauto.
Qed.

Lemma step_raw_pinv s l s' os : step_raw s l = Some (s', os) -> lab_shaped l = true -> pinv s -> pinv s'.
Proof.
  intros H Ls P.
  assert (EV : forall x, evo s x -> pinv x) by (intros x E; eapply evo_pinv; eauto).
  assert (PV : forall x, pvw x = pvw s -> pinv x) by (intros x E; apply EV, evo_pvw, E).
  destruct l; cbn [step_raw] in H.
  - (* LStart *)
    destruct (negb (running s) && (wg s =? 0)); [|discriminate]. injection H as <- _. apply EV.
    unfold evo. cbn. repeat split; auto; [intros f []|right; discriminate].
  - (* LFeed *)
    injection H as <- _. destruct P as (P1 & P2 & P3 & P4). repeat split; auto.
    cbn. intros g I. apply in_app_or in I as [I|[<-|[]]]; auto.
  - injection H as <- _. apply PV. reflexivity.
  - destruct (find_idx _ 0 (tasks s)) as [k|]; [|discriminate]. destruct (nth_error (tasks s) k); [|discriminate].
    injection H as <- _. apply PV. reflexivity.
  - injection H as <- _. apply PV. reflexivity.
  - injection H as <- _. apply PV. reflexivity.
  - destruct (c_push s); injection H as <- _; apply PV; reflexivity.
  - injection H as <- _. apply PV. reflexivity.
  - destruct (find_idx _ 0 (cbs s)); injection H as <- _; apply PV; reflexivity.
  - (* LRelRead *)
    destruct (rd s) as [| |f|] eqn:R; try discriminate. injection H as H.
    destruct (read_cs_evo f s) as [E N]. rewrite H in E, N. cbn [fst] in E, N. apply EV. apply evo_rd_upd; auto.
  - destruct (dp s); try discriminate. injection H as <- _. apply PV, dequeue_pvw.
  - destruct (dp s); try discriminate. injection H as <- _. apply PV. reflexivity.
  - (* LRelAcquire *)
    destruct (nth_error (tasks s) k) as [t|]; [|discriminate]. destruct (t_st t); try discriminate.
    destruct (negb (unit_running s t)); [discriminate|].
    destruct (t_cancelled t); [injection H as <- _; apply PV; reflexivity|].
    destruct (sem_free s) as [|fr]; [injection H as <- _; apply PV; reflexivity|].
    destruct (sem_wait s) as [|j r]; [|injection H as <- _; apply PV; reflexivity].
    destruct (t_builtin t); injection H as <- _; apply PV; reflexivity.
  - (* LRelHandled *)
    destruct (nth_error (tasks s) k) as [t|]; [|discriminate]. destruct (t_st t) as [| | | |o|]; try discriminate.
    match type of H with context [grant ?f ?x ?a] =>
      pose proof (grant_pvw f x a) as G; destruct (grant f x a) as [s2 os2] end.
    cbn [fst] in G.
    destruct (is_note t); [destruct (nbar s2)|]; injection H as <- _; apply PV;
      (transitivity (pvw s2); [reflexivity|rewrite G; reflexivity]).
  - (* LRelDeliver *)
    destruct (nth_error (units s) u) as [un|]; [|discriminate]. destruct (u_st un); try discriminate.
    pose proof (release_ids_pvw (unit_tasks s u) s) as G.
    destruct (negb (u_chok un)); injection H as <- _; apply PV;
      (transitivity (pvw (release_ids (unit_tasks s u) s)); [reflexivity|exact G]).
  - (* LRelStop *)
    destruct (find_op n (ops s)) as [[| |]|]; try discriminate.
    destruct (stop_locked_evo SCStop (s <| ops ::= del_op n |>)) as [E _].
    destruct (stop_locked SCStop (s <| ops ::= del_op n |>)) as [s2 os2]. cbn [fst] in E. injection H as <- _.
    apply EV. eapply evo_trans; [|exact E]. apply evo_pvw. reflexivity.
  - (* LRelCancel *)
    destruct (find_op n (ops s)) as [[| |]|]; try discriminate. injection H as <- _.
    destruct (assoc id _) as [owner|]; apply PV; [|reflexivity].
    exact (cancel_task_pvw owner (s <| ops ::= del_op n |>)).
  - (* LRelPush *)
    destruct (find_op n (ops s)) as [[| |n' w m p]|]; try discriminate.
    destruct (negb (running (s <| ops ::= del_op n |>))); [injection H as <- _; apply PV; reflexivity|].
    destruct w; [|injection H as <- _; apply PV; reflexivity].
    destruct (send_fail (s <| ops ::= del_op n |>)); injection H as <- _; apply EV;
      unfold evo; cbn; repeat split; auto.
  - (* LRelCbWatch *)
    destruct (nth_error (cbs s) c) as [cb0|]; [|discriminate]. destruct (cb_watch cb0); try discriminate.
    set (s1 := s <| cbs ::= upd_nth c (fun c0 => c0 <| cb_watch := WDone |>) |>) in *.
    destruct (assoc (cb_id cb0) (calls s1)) as [j|]; [|injection H as <- _; apply PV; reflexivity].
    destruct (cb_slot cb0); [injection H as <- _; apply PV; reflexivity|].
    destruct (j =? c); [|injection H as <- _; apply PV; reflexivity].
    destruct (match cb_ctx cb0 with Some WDeadline => _ | _ => _ end) as [code msg].
    injection H as H. pose proof (complete_cb_pvw c (CErr code msg) s1) as G. rewrite H in G. cbn [fst] in G.
    apply PV. rewrite G. reflexivity.
Qed.

Lemma step_pinv s l s' os : step s l = Some (s', os) -> lab_shaped l = true -> pinv s -> pinv s'.
Proof.
  intros H Ls P. apply step_decompose in H as (_ & s1 & os1 & Raw & [(_ & -> & _)|(_ & Hs)]).
  - eapply step_raw_pinv; eauto.
  - pose proof (settle_pinv (settle_fuel s1) s1 os1 (step_raw_pinv _ _ _ _ Raw Ls P)) as Q. rewrite Hs in Q. exact Q.
Qed.

Lemma step_settled s l s' os : step s l = Some (s', os) -> crash s' = None -> settle1 s' = None.
Proof.
  intros H Cr. apply step_decompose in H as (_ & s1 & os1 & _ & [(C1 & -> & _)|(_ & Hs)]); [congruence|].
  pose proof (settle_settled (settle_fuel s1) s1 os1 (mu_fuel s1)) as S. rewrite Hs in S. exact S.
Qed.

(** * The full embedding: tasks, units, counters ([emb], SrvRestartSim) and callbacks ([embk]) *)
Lemma run_length : forall tr x x' oss, run x tr = Some (x', oss) -> length oss = length tr.
Proof.
  induction tr as [|l r IH]; cbn [run]; intros x x' oss H; [injection H as _ <-; reflexivity|].
  destruct (step x l) as [[x1 os]|]; [|discriminate]. destruct (run x1 r) as [[x2 oss2]|] eqn:E; [|discriminate].
  injection H as _ <-. cbn. f_equal. eapply IH; eauto.
Qed.

Section EmbC.
  Variable ot : list task.
  Variable ou : list unit_.
  Variables ds dc dk : nat.
  Hypothesis Hot : forall t, In t ot -> finished t = true /\ t_unit t < length ou.
  Hypothesis Hou : forall u, In u ou -> u_st u = UFinished.

  Definition embc (ocb : list cb) (x : state) : state := emb ot ou ds dc (embk dk ocb x).
  Definition rs_labelc (nc : nat) (l : label) : label :=
    match l with
    | LFeed f => LFeed (ren_feed dk f)
    | LRelCbWatch i => LRelCbWatch (nc + i)
    | x => sh_label ot ou x
    end.
  (* (ii) and (iii): what the environment of the fresh run may do; oops = the operation numbers of the old records *)
  Definition lab_ok (oops : list nat) (l : label) : bool :=
    match l with
    | LFeed f => shaped_feed f
    | LCbCtxEnd n _ => forallb (fun o => negb (o =? n)) oops
    | _ => true
    end.

  Lemma rs_labelc_eq ocb l : rs_labelc (length ocb) l = sh_label ot ou (renk_label dk ocb l).
  Proof. destruct l; reflexivity. Qed.

  Lemma lab_ok_parts ocb l : lab_ok (map cb_op ocb) l = true -> ops_fresh ocb l = true /\ lab_shaped l = true.
  Proof.
    destruct l; cbn [lab_ok ops_fresh lab_shaped]; auto. intros H. split; auto.
    rewrite <- H. clear H. induction ocb as [|c r IH]; cbn [forallb map]; auto. rewrite IH. reflexivity.
  Qed.

  Definition embcp (ocb : list cb) (r : state * list obs) : state * list obs :=
    (embc ocb (fst r), map (ren_obs dk) (snd r)).

  Theorem embc_step ocb x l : old_ok dk ocb -> pinv x -> lab_ok (map cb_op ocb) l = true ->
    step (embc ocb x) (rs_labelc (length ocb) l) = option_map (embcp ocb) (step x l).
  Proof.
    intros Ho (Cp & Ci & _ & Rs) Lo. destruct (lab_ok_parts ocb l Lo) as [Of _].
    rewrite rs_labelc_eq. unfold embc. rewrite (emb_step ot ou ds dc Hot Hou).
    rewrite (k_step dk ocb Ho x l Cp Ci Rs Of). destruct (step x l) as [[x' os]|]; reflexivity.
  Qed.

  (** ** runs, forward *)
  Theorem embc_run_fwd ocb : old_ok dk ocb -> forall tr x x' oss, pinv x ->
    forallb (lab_ok (map cb_op ocb)) tr = true -> run x tr = Some (x', oss) ->
    run (embc ocb x) (map (rs_labelc (length ocb)) tr) = Some (embc ocb x', map (map (ren_obs dk)) oss).
  Proof.
    intros Ho. induction tr as [|l r IH]; cbn [run map forallb]; intros x x' oss P L H.
    - injection H as <- <-. reflexivity.
    - apply andb_true_iff in L as [L1 L2]. rewrite (embc_step ocb x l Ho P L1).
      destruct (step x l) as [[x1 os]|] eqn:E; [|discriminate]. cbn [option_map embcp fst snd].
      destruct (run x1 r) as [[x2 oss2]|] eqn:E2; [|discriminate]. injection H as <- <-.
      assert (P1 : pinv x1) by (eapply step_pinv; eauto; apply (lab_ok_parts ocb l L1)).
      rewrite (IH _ _ _ P1 L2 E2). reflexivity.
  Qed.

  (** ** runs, backward *)
  (* the label of the restarted run addresses the watcher of an old record *)
  Definition old_watch (nc : nat) (l : label) : bool := match l with LRelCbWatch i => i <? nc | _ => false end.
  Definition unlabelc (nc : nat) (l : label) : label :=
    match l with
    | LFeed f => LFeed (map_feed (unren dk) f)
    | LRelCbWatch i => LRelCbWatch (i - nc)
    | x => unsh_label ot ou x
    end.
  (* what the environment of the restarted run may do: as above, and no reply bears the id of an old callback *)
  Definition lab_ok' (oops : list nat) (l : label) : bool :=
    lab_ok oops l && match l with LFeed f => no_old_feed dk f | _ => true end.

  Lemma relabel nc oops l' : old_label ot ou l' = false -> old_watch nc l' = false -> lab_ok' oops l' = true ->
    rs_labelc nc (unlabelc nc l') = l' /\ lab_ok oops (unlabelc nc l') = true.
  Proof.
    unfold lab_ok'. intros O W L. apply andb_true_iff in L as [L1 L2].
    destruct l'; cbn [unlabelc unsh_label rs_labelc sh_label lab_ok] in *; auto.
    - split; [f_equal; apply ren_unren_feed; exact L2|apply shaped_unren_feed; exact L1].
    - split; auto. f_equal. apply Nat.ltb_ge in O. lia.
    - split; auto. f_equal. apply Nat.ltb_ge in O. lia.
    - split; auto. f_equal. apply Nat.ltb_ge in O. lia.
    - split; auto. f_equal. apply Nat.ltb_ge in W. lia.
  Qed.

  (* the fresh run that corresponds to a restarted run: silent steps of old watchers removed, labels un-shifted and
     un-renamed; its windows, renamed, interleaved with the empty windows of the silent steps *)
  Fixpoint strip (nc : nat) (tr' : list label) : list label :=
    match tr' with
    | [] => []
    | l' :: r => if old_watch nc l' then strip nc r else unlabelc nc l' :: strip nc r
    end.
  Fixpoint weave (nc : nat) (tr' : list label) (ossf : list (list obs)) : list (list obs) :=
    match tr' with
    | [] => []
    | l' :: r => if old_watch nc l' then [] :: weave nc r ossf
                 else match ossf with o :: q => map (ren_obs dk) o :: weave nc r q | [] => [] end
    end.

  Lemma concat_weave nc : forall tr' ossf, length ossf = length (strip nc tr') ->
    concat (weave nc tr' ossf) = map (ren_obs dk) (concat ossf).
  Proof.
    induction tr' as [|l' r IH]; cbn [strip weave]; intros ossf L.
    - destruct ossf; [reflexivity|discriminate].
    - destruct (old_watch nc l'); [cbn [concat app]; apply IH; exact L|].
      destruct ossf as [|o q]; [discriminate|]. cbn [concat]. rewrite map_app. f_equal. apply IH.
      cbn in L. lia.
  Qed.

  Theorem embc_run_bwd : forall tr' ocb x sr oss, old_ok dk ocb -> pinv x -> (crash x = None -> settle1 x = None) ->
    forallb (lab_ok' (map cb_op ocb)) tr' = true -> run (embc ocb x) tr' = Some (sr, oss) ->
    exists ocb' x' ossf,
      run x (strip (length ocb) tr') = Some (x', ossf) /\ sr = embc ocb' x' /\ oss = weave (length ocb) tr' ossf /\
      forallb (lab_ok (map cb_op ocb)) (strip (length ocb) tr') = true /\
      old_ok dk ocb' /\ length ocb' = length ocb /\ map cb_op ocb' = map cb_op ocb /\ map cb_id ocb' = map cb_id ocb.
  Proof.
    induction tr' as [|l' r IH]; cbn [run strip weave forallb]; intros ocb x sr oss Ho P St L H.
    - injection H as <- <-. exists ocb, x, []. repeat split; auto.
    - apply andb_true_iff in L as [L1 L2].
      destruct (step (embc ocb x) l') as [[s1 os]|] eqn:E; [|discriminate].
      destruct (run s1 r) as [[s2 oss2]|] eqn:E2; [|discriminate]. injection H as <- <-.
      destruct (old_label ot ou l') eqn:O.
      { unfold embc in E. rewrite (emb_old_label_disabled ot ou ds dc Hot Hou _ l' O) in E. discriminate. }
      destruct (old_watch (length ocb) l') eqn:W.
      + (* the watcher of an old record *)
        destruct l'; try discriminate W. cbn [old_watch] in W. apply Nat.ltb_lt in W.
        destruct (nth_error ocb c) as [c0|] eqn:N; [|apply nth_error_None in N; lia].
        unfold embc in E. change (LRelCbWatch c) with (sh_label ot ou (LRelCbWatch c)) in E.
        rewrite (emb_step ot ou ds dc Hot Hou) in E.
        destruct (crash x) eqn:Cr.
        { unfold step in E. change (crash (embk dk ocb x)) with (crash x) in E. rewrite Cr in E. discriminate. }
        rewrite (embk_old_watch dk ocb x c c0 Ho N (St eq_refl)), Cr in E.
        destruct (cb_watch c0); try discriminate. cbn [option_map embp fst snd] in E. injection E as <- <-.
        fold (embc (mark_done c ocb) x) in E2.
        destruct (IH (mark_done c ocb) x s2 oss2) as (ocb' & x' & ossf & R1 & R2 & R3 & R4 & R5 & R6 & R7 & R8); auto.
        { apply old_ok_mark; auto. }
        { rewrite mark_done_ops. exact L2. }
        rewrite mark_done_length, mark_done_ops in *.
        exists ocb', x', ossf. repeat split; auto; try congruence.
        rewrite R8. unfold mark_done. apply map_upd_nth_same. reflexivity.
      + (* a label of the fresh run *)
        destruct (relabel (length ocb) (map cb_op ocb) l' O W L1) as [Rl Lk].
        rewrite <- Rl in E. rewrite (embc_step ocb x _ Ho P Lk) in E.
        destruct (step x (unlabelc (length ocb) l')) as [[x1 os0]|] eqn:E0; [|discriminate].
        cbn [option_map embcp fst snd] in E. injection E as <- <-.
        assert (P1 : pinv x1) by (eapply step_pinv; eauto; apply (lab_ok_parts ocb _ Lk)).
        destruct (IH ocb x1 s2 oss2 Ho P1 (step_settled _ _ _ _ E0) L2 E2) as
          (ocb' & x' & ossf & R1 & R2 & R3 & R4 & R5 & R6 & R7 & R8).
        exists ocb', x', (os0 :: ossf). cbn [run forallb]. rewrite E0, R1, Lk, R4. repeat split; auto. rewrite R3. reflexivity.
  Qed.

  (* the watcher of an old record, in the full embedding *)
  Theorem embc_old_watch ocb x i c0 : old_ok dk ocb -> nth_error ocb i = Some c0 -> settle1 x = None ->
    step (embc ocb x) (LRelCbWatch i) =
    match crash x, cb_watch c0 with None, WParked => Some (embc (mark_done i ocb) x, []) | _, _ => None end.
  Proof.
    intros Ho N St. unfold embc. change (LRelCbWatch i) with (sh_label ot ou (LRelCbWatch i)).
    rewrite (emb_step ot ou ds dc Hot Hou). rewrite (embk_old_watch dk ocb x i c0 Ho N St).
    destruct (crash x), (cb_watch c0); reflexivity.
  Qed.

  Lemma embc_old_label_disabled ocb x l' : old_label ot ou l' = true -> step (embc ocb x) l' = None.
  Proof. intros O. unfold embc. apply (emb_old_label_disabled ot ou ds dc Hot Hou). exact O. Qed.

  (* a reply bearing the id of an old callback is unsolicited in the restarted run: a late reply in the sense of
     C09.5 (SrvC09.late_reply), skipped by the reader like any reply with an unknown id *)
  Theorem embc_old_reply_late ocb x m : old_ok dk ocb -> c_push x = true -> is_req_or_notif m = false ->
    j_method m = [] -> has_reply_fields m = true -> old_id dk (fix_id (j_id m)) = true ->
    late_reply (embc ocb x) m /\
    forall r keep acc, filter_batch (m :: r) (embc ocb x) keep acc = filter_batch r (embc ocb x) keep acc.
  Proof.
    intros Ho Cp Q M F O.
    assert (L : late_reply (embc ocb x) m).
    { unfold late_reply. repeat split; auto. change (calls (embc ocb x)) with (map (sh_call dk ocb) (calls x)).
      apply (assoc_old dk (Nat.add (length ocb))). exact O. }
    split; [exact L|]. intros r keep acc. apply late_reply_skipped. exact L.
  Qed.
End EmbC.

(** * ids of the callback records of a reachable state: the numerals of 1 .. call_id - 1 *)
Definition idv (s : state) := (map cb_id (cbs s), call_id s).
Definition tight (s : state) : Prop :=
  1 <= call_id s /\ forall b, In b (map cb_id (cbs s)) -> exists j, 1 <= j < call_id s /\ b = dec_of_nat j.

Lemma tight_idv s s' : idv s' = idv s -> tight s -> tight s'.
Proof. unfold idv, tight. intros [= A B]. rewrite A, B. auto. Qed.

Lemma pv_idv s s' : pv s' = pv s -> idv s' = idv s.
Proof.
  intros P. apply pv_fields in P. destruct P as (_ & _ & _ & _ & _ & P6 & P7 & _). unfold idv. rewrite P6, P7. reflexivity.
Qed.

Lemma complete_cb_idv i r s : idv (fst (complete_cb i r s)) = idv s.
Proof.
  unfold complete_cb. destruct (nth_error (cbs s) i); [|reflexivity]. unfold idv. cbn.
  rewrite map_upd_nth_same by (intros; reflexivity). reflexivity.
Qed.

Lemma filter_batch_idv : forall ms s keep acc, idv (fst (fst (filter_batch ms s keep acc))) = idv s.
Proof.
  induction ms as [|m r IH]; intros s keep acc; cbn [filter_batch]; [reflexivity|].
  destruct (is_req_or_notif m); [apply IH|].
  destruct (assoc (fix_id (j_id m)) (calls s)) as [i|].
  - match goal with |- context [complete_cb i ?v s] =>
      pose proof (complete_cb_idv i v s) as P; destruct (complete_cb i v s) as [s1 os1] end.
    cbn [fst] in P. rewrite IH. exact P.
  - destruct (c_push s && is_nil (j_method m) && has_reply_fields m); apply IH.
Qed.

Lemma stop_locked_idv sc s : idv (fst (stop_locked sc s)) = idv s.
Proof.
  destruct (stop_locked sc s) as [s' os] eqn:E. cbn [fst].
  apply SrvC09.stop_locked_spec in E as [(_ & -> & _)|(_ & _ & _ & _ & _ & _ & _ & Ci & _ & _ & _ & Cb)]; [reflexivity|].
  unfold idv. rewrite Ci, Cb, map_map. f_equal. apply map_ext. intros; apply stop_cb_id.
Qed.

Lemma read_cs_idv f s : idv (fst (read_cs f s)) = idv s.
Proof.
  destruct f as [i|i|sc]; unfold read_cs.
  1,2: destruct (negb (running s)); [reflexivity|]; destruct i as [|b ms]; [reflexivity|];
       destruct ms as [|m ms]; [reflexivity|];
       pose proof (filter_batch_idv (m :: ms) s [] []) as P;
       destruct (filter_batch (m :: ms) s [] []) as [[s1 keep] os1]; cbn [fst] in P;
       destruct keep as [|k0 kr]; [exact P|]; cbv zeta;
       match goal with |- context [if ?b then _ else _] => destruct b end; exact P.
  pose proof (stop_locked_idv sc s) as P. destruct (stop_locked sc s) as [s2 os2]. exact P.
Qed.

Lemma reachf_tight c s : reachf c s -> tight s.
Proof.
  induction 1 as [|s l s' os R IH C H|s s' os R IH H].
  - split; cbn; [lia|intros b []].
  - destruct (neutral l) eqn:Neu.
    { apply step_raw_neutral in H as [P _]; auto. eapply tight_idv; [apply pv_idv; exact P|exact IH]. }
    assert (IV : forall x, idv x = idv s -> tight x) by (intros x E; eapply tight_idv; eauto).
    destruct l; try discriminate Neu; cbn [step_raw] in H.
    + destruct (negb (running s) && (wg s =? 0)); [|discriminate]. injection H as <- _. apply IV. reflexivity.
    + injection H as <- _. apply IV. reflexivity.
    + injection H as <- _. apply IV. reflexivity.
    + injection H as <- _. apply IV. reflexivity.
    + destruct (c_push s); injection H as <- _; apply IV; reflexivity.
    + destruct (find_idx _ 0 (cbs s)) as [i|]; injection H as <- _; apply IV; [|reflexivity].
      unfold idv. cbn. rewrite map_upd_nth_same; [reflexivity|]. intros x. destruct (cb_cancelled x); reflexivity.
    + destruct (rd s) as [| |f|]; try discriminate. injection H as H.
      pose proof (read_cs_idv f s) as P. rewrite H in P. apply IV. exact P.
    + destruct (find_op n (ops s)) as [[| |]|]; try discriminate.
      pose proof (stop_locked_idv SCStop (s <| ops ::= del_op n |>)) as P.
      destruct (stop_locked SCStop (s <| ops ::= del_op n |>)) as [s2 os2]. injection H as <- _. apply IV. exact P.
    + destruct (find_op n (ops s)) as [[| |]|]; try discriminate. injection H as <- _.
      destruct (assoc id _) as [owner|]; apply IV; [|reflexivity].
      exact (pv_idv _ _ (cancel_task_pv owner (s <| ops ::= del_op n |>))).
    + destruct (find_op n (ops s)) as [[| |n' w m p]|]; try discriminate.
      destruct (negb (running (s <| ops ::= del_op n |>))); [injection H as <- _; apply IV; reflexivity|].
      destruct w; [|injection H as <- _; apply IV; reflexivity].
      destruct IH as [I1 I2].
      assert (T : forall cnew, cb_id cnew = dec_of_nat (call_id s) ->
                  tight (s <| ops ::= del_op n |> <| call_id ::= S |> <| cbs ::= fun l => l ++ [cnew] |>)).
      { intros cnew Eid. split; cbn; [lia|]. intros b I. rewrite map_app in I. apply in_app_or in I as [I|[<-|[]]].
        - destruct (I2 b I) as (j & L & ->). exists j. split; [lia|reflexivity].
        - exists (call_id s). split; [lia|exact Eid]. }
      destruct (send_fail (s <| ops ::= del_op n |>)); injection H as <- _.
      * apply (T (mkCb n (dec_of_nat (call_id s)) None None true WParked true)). reflexivity.
      * match goal with |- context [fun l => l ++ [?cn]] => set (cnew := cn) end.
        assert (Eid : cb_id cnew = dec_of_nat (call_id s)).
        { unfold cnew. destruct (find _ _) as [[? ?]|]; reflexivity. }
        eapply tight_idv; [|exact (T cnew Eid)]. reflexivity.
    + destruct (nth_error (cbs s) c0) as [cb0|]; [|discriminate]. destruct (cb_watch cb0); try discriminate.
      set (s1 := s <| cbs ::= upd_nth c0 (fun c1 => c1 <| cb_watch := WDone |>) |>) in *.
      assert (E1 : idv s1 = idv s).
      { unfold idv, s1. cbn. rewrite map_upd_nth_same by (intros; reflexivity). reflexivity. }
      destruct (assoc (cb_id cb0) (calls s1)) as [j|]; [|injection H as <- _; apply IV; exact E1].
      destruct (cb_slot cb0); [injection H as <- _; apply IV; exact E1|].
      destruct (j =? c0); [|injection H as <- _; apply IV; exact E1].
      destruct (match cb_ctx cb0 with Some WDeadline => _ | _ => _ end) as [code msg].
      injection H as H. pose proof (complete_cb_idv c0 (CErr code msg) s1) as G. rewrite H in G. cbn [fst] in G.
      apply IV. rewrite G. exact E1.
  - eapply tight_idv; [apply pv_idv; eapply settle1_pv; eauto|exact IH].
Qed.

Lemma tight_old_ok s : tight s -> old_ok (call_id s - 1) (cbs s).
Proof.
  intros [T1 T2] c Ic. destruct (T2 (cb_id c)) as (j & L & E); [apply in_map; exact Ic|].
  unfold old_id. rewrite E, idnum_dec. destruct j as [|j']; [lia|]. apply Nat.leb_le. lia.
Qed.

(** * C08.8 restart, with callback records in the history *)
Definition rsc_emb (s : state) (ocb : list cb) (x : state) : state :=
  embc (tasks s) (units s) (starts s) (closes s) (call_id s - 1) ocb x.
Definition rsc_label (s : state) (nc : nat) (l : label) : label := rs_labelc (tasks s) (units s) (call_id s - 1) nc l.

Theorem restart_is_embc c s : reach c s -> wg s = 0 -> running s = false -> calls s = [] ->
  started s = rsc_emb s (cbs s) (fresh_of c s).
Proof.
  intros R Z Rn Cl. rewrite (restart_fresh_eq c s R Z Rn).
  destruct (reachf_tight c s (reach_reachf _ _ R)) as [T1 _].
  pose proof (idle_no_waits c s R Z) as W.
  unfold rsc_emb, embc, fresh_of, pre_fresh, started. st_ext; rewrite ?Cl, ?W, ?app_nil_r; try reflexivity; try lia.
Qed.

Lemma shaped_ren_msg dk m : shaped_msg m = true -> shaped_msg (ren_msg dk m) = true.
Proof.
  unfold shaped_msg, ren_msg. rewrite reid_req. destruct (is_req_or_notif m) eqn:R; [reflexivity|]. cbn [orb].
  destruct (reid_fields (ren dk) m) as (Fm & _ & _ & Fh). unfold reply_shaped. rewrite Fm, Fh.
  destruct (is_nil (j_method m) && has_reply_fields m); [reflexivity|]. cbn [orb]. intros H.
  rewrite (reid_same (ren dk) m); [exact H|]. apply ren_not_pos. apply negb_true_iff. exact H.
Qed.

Lemma shaped_ren_feed dk f : shaped_feed f = true -> shaped_feed (ren_feed dk f) = true.
Proof.
  assert (L : forall ms, forallb shaped_msg ms = true -> forallb shaped_msg (map (ren_msg dk) ms) = true).
  { induction ms as [|m ms IH]; cbn [forallb map]; auto. intros H. apply andb_true_iff in H as [H1 H2].
    rewrite (shaped_ren_msg dk m H1), (IH H2). reflexivity. }
  unfold ren_feed, ren_msg in *. destruct f as [[|b ms]|[|b ms]|c]; cbn; auto.
Qed.

Lemma lab_ok'_relabel ot ou dk nc oops l : lab_ok oops l = true -> lab_ok' dk oops (rs_labelc ot ou dk nc l) = true.
Proof.
  unfold lab_ok'. destruct l; cbn [rs_labelc sh_label lab_ok]; intros H; rewrite ?H; auto.
  rewrite (shaped_ren_feed dk f H), no_old_ren_feed. reflexivity.
Qed.

(* The restart simulation for a server with AllowPush, whatever Callbacks its earlier incarnations registered, as long
   as none of them is still registered (calls s = []: every old callback has returned to its caller). *)
Theorem restart_simulation_cb c s : reach c s -> cf_push c = true -> wg s = 0 -> running s = false -> calls s = [] ->
  let dk := call_id s - 1 in
  let nc := length (cbs s) in
  let oops := map cb_op (cbs s) in
  step s LStart = Some (started s, []) /\ reach c (fresh_of c s) /\ pinv (fresh_of c s) /\ old_ok dk (cbs s) /\
  started s = rsc_emb s (cbs s) (fresh_of c s) /\
  (* one window, every label of the fresh server *)
  (forall ocb x l, old_ok dk ocb -> pinv x -> lab_ok (map cb_op ocb) l = true ->
     step (rsc_emb s ocb x) (rsc_label s (length ocb) l) =
     match step x l with Some (x', os) => Some (rsc_emb s ocb x', map (ren_obs dk) os) | None => None end) /\
  (* the labels of the history: disabled (tasks, units), silent or disabled (watchers of old callback records) *)
  (forall ocb x l', old_label (tasks s) (units s) l' = true -> step (rsc_emb s ocb x) l' = None) /\
  (forall ocb x i c0, old_ok dk ocb -> nth_error ocb i = Some c0 -> settle1 x = None ->
     step (rsc_emb s ocb x) (LRelCbWatch i) =
     match crash x, cb_watch c0 with None, WParked => Some (rsc_emb s (mark_done i ocb) x, []) | _, _ => None end) /\
  (* every other label is a relabelled one *)
  (forall l', old_label (tasks s) (units s) l' = false -> old_watch nc l' = false -> lab_ok' dk oops l' = true ->
     exists l, l' = rsc_label s nc l /\ lab_ok oops l = true) /\
  (* whole runs, both directions *)
  (forall tr x oss, forallb (lab_ok oops) tr = true -> run (fresh_of c s) tr = Some (x, oss) ->
     run (started s) (map (rsc_label s nc) tr) = Some (rsc_emb s (cbs s) x, map (map (ren_obs dk)) oss) /\
     forallb (lab_ok' dk oops) (map (rsc_label s nc) tr) = true) /\
  (forall tr' sr oss, forallb (lab_ok' dk oops) tr' = true -> run (started s) tr' = Some (sr, oss) ->
     exists ocb' x ossf,
       run (fresh_of c s) (strip (tasks s) (units s) dk nc tr') = Some (x, ossf) /\
       forallb (lab_ok oops) (strip (tasks s) (units s) dk nc tr') = true /\
       sr = rsc_emb s ocb' x /\ oss = weave dk nc tr' ossf /\ concat oss = map (ren_obs dk) (concat ossf) /\
       old_ok dk ocb' /\ length ocb' = nc /\ map cb_op ocb' = oops /\ map cb_id ocb' = map cb_id (cbs s)).
Proof.
  intros R Cp Z Rn Cl. cbv zeta. destruct (restart_old_finished c s R Z) as [Hot Hou].
  pose proof (restart_is_embc c s R Z Rn Cl) as E.
  pose proof (tight_old_ok s (reachf_tight c s (reach_reachf _ _ R))) as Ho.
  pose proof (fresh_of_reachable c s R) as Rf.
  assert (Pf : pinv (fresh_of c s)).
  { unfold pinv, fed_ok, rd_shaped, fresh_of, pre_fresh, started. cbn. repeat split; auto; try (intros f []). }
  assert (Sf : crash (fresh_of c s) = None -> settle1 (fresh_of c s) = None) by (apply (reach_settled c); exact Rf).
  split; [apply (restart_fresh c s R Z Rn)|]. split; [exact Rf|]. split; [exact Pf|]. split; [exact Ho|].
  split; [exact E|]. split; [|split; [|split; [|split; [|split]]]].
  - intros ocb x l Hk Px Lk. unfold rsc_emb, rsc_label.
    rewrite (embc_step _ _ _ _ _ Hot Hou ocb x l Hk Px Lk). destruct (step x l) as [[x' os]|]; reflexivity.
  - intros ocb x l' O. apply (embc_old_label_disabled _ _ _ _ _ Hot Hou). exact O.
  - intros ocb x i c0 Hk N St. apply (embc_old_watch _ _ _ _ _ Hot Hou); auto.
  - intros l' O W L. exists (unlabelc (tasks s) (units s) (call_id s - 1) (length (cbs s)) l').
    destruct (relabel (tasks s) (units s) (call_id s - 1) _ _ l' O W L) as [A B]. split; [symmetry; exact A|exact B].
  - intros tr x oss L H. split.
    + rewrite E. apply (embc_run_fwd _ _ _ _ _ Hot Hou (cbs s) Ho); auto.
    + clear H. induction tr as [|l r IH]; cbn [map forallb] in *; auto. apply andb_true_iff in L as [L1 L2].
      unfold rsc_label at 1. rewrite (lab_ok'_relabel (tasks s) (units s) (call_id s - 1) (length (cbs s)) (map cb_op (cbs s)) l L1). apply IH. exact L2.
  - intros tr' sr oss L H. rewrite E in H.
    destruct (embc_run_bwd _ _ _ _ _ Hot Hou tr' (cbs s) _ sr oss Ho Pf Sf L H)
      as (ocb' & x' & ossf & R1 & R2 & R3 & R4 & R5 & R6 & R7 & R8).
    exists ocb', x', ossf. repeat split; auto. rewrite R3. apply (concat_weave (tasks s) (units s)).
    apply run_length in R1. exact R1.
Qed.

(* hence every property of the observations of a fresh server (fed shaped records, not reusing the operation numbers
   of old records for LCbCtxEnd) that is invariant under the renaming of callback ids holds of the restarted server
   (fed shaped records that bear no id of an old callback), and conversely *)
Corollary restart_trace_properties_cb c s (P : list obs -> Prop) : reach c s -> cf_push c = true -> wg s = 0 ->
  running s = false -> calls s = [] ->
  (forall os, P os <-> P (map (ren_obs (call_id s - 1)) os)) ->
  ((forall tr x oss, forallb (lab_ok (map cb_op (cbs s))) tr = true -> run (fresh_of c s) tr = Some (x, oss) ->
      P (concat oss)) <->
   (forall tr' sr oss, forallb (lab_ok' (call_id s - 1) (map cb_op (cbs s))) tr' = true ->
      run (started s) tr' = Some (sr, oss) -> P (concat oss))).
Proof.
  intros R Cp Z Rn Cl Inv.
  destruct (restart_simulation_cb c s R Cp Z Rn Cl) as (_ & _ & _ & _ & _ & _ & _ & _ & _ & Fw & Bw). split.
  - intros H tr' sr oss L Hr. destruct (Bw _ _ _ L Hr) as (ocb' & x & ossf & R1 & R2 & _ & _ & R5 & _).
    rewrite R5. apply (proj1 (Inv (concat ossf))). eapply H; eauto.
  - intros H tr x oss L Hr. destruct (Fw _ _ _ L Hr) as [F1 F2]. apply (proj2 (Inv (concat oss))). rewrite concat_map. eapply H; eauto.
Qed.

(** * non-vacuity *)
(* The history: a call (id 1) is served; Callback number 1 (operation 1) is sent under id "1", answered, returns; its
   watcher is still parked when Stop closes the server; reader and dispatcher exit.  The restarted server then serves
   a batch holding a call whose id is again 1 and the reply to its new callback: the callback id is renamed (the fresh
   server sends it under "1", the restarted one under "2", and the replies fed bear "1" and "2"), the id of the
   call and of its response is not; task, unit and callback indices are shifted by one; the old watcher, released
   first, is a silent step. *)
Definition ex_reply (id res : bytes) : jmsg :=
  {| j_id := id; j_method := []; j_params := []; j_error := None; j_result := res; j_err := None |}.
Definition ex_tr_hist : list label :=
  [LStart; LFeed (FMsg (InMsgs false [ex_call [49%N] [7%N]])); LRelRead; LRelNext; LRelBarrier; LRelAcquire 0;
   LGate [7%N] (ORes [51%N]); LRelHandled 0; LRelDeliver 0; LRelNext;
   LCallPush 1 true [112%N] [113%N]; LRelPush 1; LFeed (FMsg (InMsgs false [ex_reply [49%N] [55%N]])); LRelRead;
   LCallStop 2; LRelStop 2; LFeed (FErr SCClosing); LRelRead].
Definition ex_s0 : state := st_of ex_cfg2 ex_tr_hist.
Definition ex_tr_fresh : list label :=
  [LCallPush 3 true [112%N] [114%N]; LRelPush 3;
   LFeed (FMsg (InMsgs false [ex_call [49%N] [8%N]; ex_reply [49%N] [56%N]])); LRelRead; LRelCbWatch 0;
   LRelNext; LRelBarrier; LRelAcquire 0; LGate [8%N] (ORes [52%N]); LRelHandled 0; LRelDeliver 0].

Example restart_simulation_cb_nonvacuous :
  let s := ex_s0 in
  reach ex_cfg2 s /\ cf_push ex_cfg2 = true /\ wg s = 0 /\ running s = false /\ calls s = [] /\
  map cb_id (cbs s) = [[49%N]] /\ map cb_watch (cbs s) = [WParked] /\ map cb_op (cbs s) = [1] /\ call_id s = 2 /\
  length (tasks s) = 1 /\ length (units s) = 1 /\
  forallb (lab_ok (map cb_op (cbs s))) ex_tr_fresh = true /\
  forallb (lab_ok' (call_id s - 1) (map cb_op (cbs s))) (LRelCbWatch 0 :: map (rsc_label s 1) ex_tr_fresh) = true /\
  strip (tasks s) (units s) 1 1 (LRelCbWatch 0 :: map (rsc_label s 1) ex_tr_fresh) = ex_tr_fresh /\
  map (rsc_label s 1) ex_tr_fresh =
    [LCallPush 3 true [112%N] [114%N]; LRelPush 3;
     LFeed (FMsg (InMsgs false [ex_call [49%N] [8%N]; ex_reply [50%N] [56%N]])); LRelRead; LRelCbWatch 1;
     LRelNext; LRelBarrier; LRelAcquire 1; LGate [8%N] (ORes [52%N]); LRelHandled 1; LRelDeliver 1] /\
  exists x oss, run (fresh_of ex_cfg2 s) ex_tr_fresh = Some (x, oss) /\
    run (started s) (map (rsc_label s 1) ex_tr_fresh) = Some (rsc_emb s (cbs s) x, map (map (ren_obs 1)) oss) /\
    run (started s) (LRelCbWatch 0 :: map (rsc_label s 1) ex_tr_fresh) =
      Some (rsc_emb s (mark_done 0 (cbs s)) x, weave 1 1 (LRelCbWatch 0 :: map (rsc_label s 1) ex_tr_fresh) oss) /\
    concat oss = [OSendReq true [49%N] [112%N] [114%N]; ORet 3 (ACbRes [56%N]); OStart [8%N] false; OGate [8%N] false;
                  OSend true false [{| r_id := [49%N]; r_body := BRes [52%N] |}]] /\
    concat (map (map (ren_obs 1)) oss) =
                 [OSendReq true [50%N] [112%N] [114%N]; ORet 3 (ACbRes [56%N]); OStart [8%N] false; OGate [8%N] false;
                  OSend true false [{| r_id := [49%N]; r_body := BRes [52%N] |}]].
Proof.
  cbv zeta. split; [apply reach_st_of; vm_compute; discriminate|].
  repeat (split; [vm_compute; reflexivity|]).
  eexists _, _. split; [vm_compute; reflexivity|]. repeat (split; [vm_compute; reflexivity|]). vm_compute. reflexivity.
Qed.

(* a reply bearing the id "1" of the old callback, fed to the restarted server: a late reply (C09.5); the reader's
   window produces nothing and nothing but the reader's own position changes *)
Example restart_old_reply_unsolicited_nonvacuous :
  let s := ex_s0 in
  let m := ex_reply [49%N] [57%N] in
  forallb (fun c0 => old_id (call_id s - 1) (cb_id c0)) (cbs s) = true /\ c_push (fresh_of ex_cfg2 s) = true /\ is_req_or_notif m = false /\ j_method m = [] /\
  has_reply_fields m = true /\ old_id (call_id s - 1) (fix_id (j_id m)) = true /\
  no_old_feed (call_id s - 1) (FMsg (InMsgs false [m])) = false /\
  exists s', run (started s) [LFeed (FMsg (InMsgs false [m])); LRelRead] = Some (s', [[]; []]) /\
    s' = started s <| rd := RIdle |>.
Proof.
  cbv zeta. repeat (split; [vm_compute; reflexivity|]). eexists. split; vm_compute; reflexivity.
Qed.

(* hypothesis (iii) is needed: when the caller's context of the new Callback number 1 ends before it registers, the
   fresh server cancels it (its watcher reports the cancellation); in the restarted server LCbCtxEnd 1 hits the OLD
   record of operation 1 instead, and the watcher of the new callback stays blocked *)
Example restart_ops_reuse_refuted :
  let s := ex_s0 in
  let tr := [LCbCtxEnd 1 WCancel; LCallPush 1 true [112%N] [114%N]; LRelPush 1; LRelCbWatch 0] in
  forallb (lab_ok (map cb_op (cbs s))) tr = false /\
  (exists x, run (fresh_of ex_cfg2 s) tr =
             Some (x, [[]; []; [OSendReq true [49%N] [112%N] [114%N]]; [ORet 1 (ACbCtx WCancel)]])) /\
  run (started s) (map (rsc_label s 1) tr) = None.
Proof. cbv zeta. split; [vm_compute; reflexivity|]. split; [eexists|]; vm_compute; reflexivity. Qed.

(* hypothesis (ii) is needed: a member with an id but neither method, result nor error is answered under its own id,
   so renaming its id changes the observations *)
Example restart_unshaped_refuted :
  let s := ex_s0 in
  let m := {| j_id := [49%N]; j_method := []; j_params := []; j_error := None; j_result := []; j_err := None |} in
  let tr := [LFeed (FMsg (InMsgs false [m])); LRelRead; LRelNext; LRelBarrier; LRelDeliver 0] in
  forallb (lab_ok (map cb_op (cbs s))) tr = false /\
  (exists x, run (fresh_of ex_cfg2 s) tr =
     Some (x, [[]; []; []; []; [OSend true false [{| r_id := [49%N]; r_body := BErr InvalidRequest s_empty_method |}]]])) /\
  (exists x, run (started s) (map (rsc_label s 1) tr) =
     Some (x, [[]; []; []; []; [OSend true false [{| r_id := [50%N]; r_body := BErr InvalidRequest s_empty_method |}]]])).
Proof. cbv zeta. split; [vm_compute; reflexivity|]. split; eexists; vm_compute; reflexivity. Qed.
