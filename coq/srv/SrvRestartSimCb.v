(* SrvRestartSimCb: the restart simulation (C08.8) for servers with AllowPush whose earlier incarnations DID register
   Callbacks.

   [embk dk ocb x]: the state x of a server with, in front of its callback table, the callback records [ocb] of
   earlier incarnations, none of them registered any more ("completed": its id is not a key of [calls]; its watcher is
   done, or blocked for ever, or parked with nothing left to do: releasing it only marks it done), the id counter
   advanced by dk, every callback index (calls, LRelCbWatch) shifted by |ocb| and every callback id RENAMED by
   [ren dk]: the numeral of k >= 1 becomes the numeral of dk + k; every other byte string is left alone.  The renaming
   applies to the ids in the callback table and in [calls], to the ids of the reply members of fed records (in the
   channel, in the reader's hands and in LFeed labels) and to the ids of the OSendReq observations.
   [embc ...] = [emb] (tasks, units, counters: SrvRestartSim) after [embk].

   Theorem [embc_step]: [step] commutes with the embedding for EVERY label, up to this renaming, under three
   environment hypotheses stated as boolean predicates:
     (i)   c_push x = true and 1 <= call_id x (invariants of the run of a server with AllowPush);
     (ii)  [shaped]: a fed member that is neither a request/notification nor reply-shaped (no method, a result or an
           error) does not carry a positive numeral as its id (such a member is answered under its own id when that id
           is not registered, so its id cannot be renamed);
     (iii) [ops_fresh]: LCbCtxEnd n is not used with the operation number of an old record.
   Labels that address an old task or unit are disabled (SrvRestartSim); LRelCbWatch on an old record is a SILENT step
   (no observation, only the old record changes) or disabled.  Fed records in the image of the renaming are exactly
   those without the id of an old callback ([no_old_ids]); a reply bearing an old id is dropped as any unknown id is
   ([restart_old_reply_unsolicited]). *)
From Coq Require Import List NArith ZArith Bool Arith Lia.
From RecordUpdate Require Import RecordUpdate.
From JV Require Import Bytes Msg SrvModel SrvLemmas SrvBasics SrvC01 SrvC07 SrvC09 SrvC10 SrvC08 SrvC08b SrvC08c SrvC08q.
From JV Require Import SrvRestartSim.
From JV Require SrvC09b.
Import ListNotations.

(** * numerals *)
Definition idnum (b : bytes) : option nat :=
  if beq b (dec_of_nat (nat_of_dec b)) then Some (nat_of_dec b) else None.

Lemma idnum_dec n : idnum (dec_of_nat n) = Some n.
Proof. unfold idnum. rewrite nat_of_dec_of_nat, beq_refl. reflexivity. Qed.

Lemma idnum_some b n : idnum b = Some n -> b = dec_of_nat n.
Proof.
  unfold idnum. destruct (beq b (dec_of_nat (nat_of_dec b))) eqn:E; [|discriminate].
  intros [= <-]. apply beq_eq. exact E.
Qed.

Definition is_posnum (b : bytes) : bool := match idnum b with Some (S _) => true | _ => false end.

Lemma idnum_nil : idnum [] = None.
Proof. vm_compute. reflexivity. Qed.
Lemma idnum_null : idnum null_bytes = None.
Proof. vm_compute. reflexivity. Qed.

Section Ren.
  Variable dk : nat.

  (* the renaming of callback ids: the numeral of k >= 1 becomes the numeral of dk + k *)
  Definition ren (b : bytes) : bytes := match idnum b with Some (S j) => dec_of_nat (dk + S j) | _ => b end.
  (* the ids the earlier incarnations may have used: the numerals of 1 .. dk *)
  Definition old_id (b : bytes) : bool := match idnum b with Some (S j) => S j <=? dk | _ => false end.
  (* the inverse renaming *)
  Definition unren (b : bytes) : bytes :=
    match idnum b with Some j => if dk <? j then dec_of_nat (j - dk) else b | None => b end.

  Lemma ren_dec j : ren (dec_of_nat (S j)) = dec_of_nat (dk + S j).
  Proof. unfold ren. rewrite idnum_dec. reflexivity. Qed.

  Lemma ren_not_pos b : is_posnum b = false -> ren b = b.
  Proof. unfold is_posnum, ren. destruct (idnum b) as [[|j]|]; auto; discriminate. Qed.

  Lemma ren_nil : ren [] = [].
  Proof. unfold ren. rewrite idnum_nil. reflexivity. Qed.
  Lemma ren_null : ren null_bytes = null_bytes.
  Proof. unfold ren. rewrite idnum_null. reflexivity. Qed.

  Lemma idnum_ren b : idnum (ren b) = match idnum b with Some (S j) => Some (dk + S j) | x => x end.
  Proof.
    unfold ren. destruct (idnum b) as [[|j]|] eqn:E; auto. apply idnum_dec.
  Qed.

  Lemma ren_inj a b : ren a = ren b -> a = b.
  Proof.
    intros H. pose proof (f_equal idnum H) as N. rewrite !idnum_ren in N. unfold ren in H.
    destruct (idnum a) as [[|j]|] eqn:Ea; destruct (idnum b) as [[|i]|] eqn:Eb; try discriminate; auto;
      try (injection N as N; lia).
    injection N as N. assert (j = i) by lia. subst i.
    apply idnum_some in Ea, Eb. congruence.
  Qed.

  Lemma old_id_ren b : old_id (ren b) = false.
  Proof.
    unfold old_id. rewrite idnum_ren. destruct (idnum b) as [[|j]|]; auto.
    replace (dk + S j) with (S (dk + j)) by lia. apply Nat.leb_gt. lia.
  Qed.

  Lemma beq_ren a b : beq (ren a) (ren b) = beq a b.
  Proof.
    destruct (beq_spec a b) as [->|N]; [apply beq_refl|]. apply beq_neq. intros H. apply N, ren_inj, H.
  Qed.

  Lemma old_ren_neq o b : old_id o = true -> beq o (ren b) = false.
  Proof. intros H. apply beq_neq. intros ->. rewrite old_id_ren in H. discriminate. Qed.

  Lemma fix_id_ren b : fix_id (ren b) = ren (fix_id b).
  Proof.
    unfold fix_id, is_null. rewrite <- ren_null at 1. rewrite beq_ren.
    destruct (beq b null_bytes); [rewrite ren_nil|]; reflexivity.
  Qed.

  Lemma ren_unren b : old_id b = false -> ren (unren b) = b.
  Proof.
    unfold old_id, unren, ren. destruct (idnum b) as [[|j]|] eqn:E; intros H.
    - cbn [Nat.ltb Nat.leb]. rewrite E. reflexivity.
    - apply Nat.leb_gt in H. destruct (Nat.ltb_spec dk (S j)) as [L|L]; [|lia].
      rewrite idnum_dec. destruct (S j - dk) as [|i] eqn:D; [lia|].
      replace (dk + S i) with (S j) by lia. symmetry. apply idnum_some. exact E.
    - rewrite E. reflexivity.
  Qed.

  Lemma unren_ren b : unren (ren b) = b.
  Proof. apply ren_inj. apply ren_unren. apply old_id_ren. Qed.

  (** ** association lists keyed by renamed ids *)
  Lemma assoc_ren {A B} (h : A -> B) k (m : list (bytes * A)) :
    assoc (ren k) (map (fun p => (ren (fst p), h (snd p))) m) = option_map h (assoc k m).
  Proof. induction m as [|[k' v] m IH]; cbn; auto. rewrite beq_ren. destruct (beq k k'); auto. Qed.

  Lemma assoc_del_ren {A B} (h : A -> B) k (m : list (bytes * A)) :
    assoc_del (ren k) (map (fun p => (ren (fst p), h (snd p))) m) =
    map (fun p => (ren (fst p), h (snd p))) (assoc_del k m).
  Proof. induction m as [|[k' v] m IH]; cbn; auto. rewrite beq_ren. destruct (beq k k'); cbn; auto. f_equal; auto. Qed.

  Lemma assoc_old {A B} (h : A -> B) o (m : list (bytes * A)) : old_id o = true ->
    assoc o (map (fun p => (ren (fst p), h (snd p))) m) = None.
  Proof. intros H. induction m as [|[k' v] m IH]; cbn; auto. rewrite (old_ren_neq o k' H). exact IH. Qed.

  (** ** the renaming of records, observations *)
  Definition ren_cb (c : cb) : cb :=
    mkCb (cb_op c) (ren (cb_id c)) (cb_slot c) (cb_ctx c) (cb_cancelled c) (cb_watch c) (cb_ret c).
  Definition reid (g : bytes -> bytes) (m : jmsg) : jmsg :=
    if is_req_or_notif m then m
    else Build_jmsg (g (j_id m)) (j_method m) (j_params m) (j_error m) (j_result m) (j_err m).
  Definition map_in (g : bytes -> bytes) (i : inbound) : inbound :=
    match i with InBad => InBad | InMsgs b ms => InMsgs b (map (reid g) ms) end.
  Definition map_feed (g : bytes -> bytes) (f : feed) : feed :=
    match f with FMsg i => FMsg (map_in g i) | FMsgEOF i => FMsgEOF (map_in g i) | FErr c => FErr c end.
  Definition ren_msg := reid ren.
  Definition ren_feed := map_feed ren.
  Definition ren_rd (r : rdpc) : rdpc := match r with RHold f => RHold (ren_feed f) | x => x end.
  Definition ren_obs (o : obs) : obs := match o with OSendReq ok id m p => OSendReq ok (ren id) m p | x => x end.

  (* (ii) the members whose id may be renamed: requests and notifications (never renamed), reply-shaped members
     (delivered to a callback or dropped, never answered), and members whose id is not a positive numeral *)
  Definition reply_shaped (m : jmsg) : bool := is_nil (j_method m) && has_reply_fields m.
  Definition shaped_msg (m : jmsg) : bool := is_req_or_notif m || reply_shaped m || negb (is_posnum (j_id m)).
  Definition shaped_in (i : inbound) : bool := match i with InBad => true | InMsgs _ ms => forallb shaped_msg ms end.
  Definition shaped_feed (f : feed) : bool := match f with FMsg i | FMsgEOF i => shaped_in i | FErr _ => true end.
  (* no member that is not a request bears the id of an old callback *)
  Definition no_old_msg (m : jmsg) : bool := is_req_or_notif m || negb (old_id (j_id m)).
  Definition no_old_in (i : inbound) : bool := match i with InBad => true | InMsgs _ ms => forallb no_old_msg ms end.
  Definition no_old_feed (f : feed) : bool := match f with FMsg i | FMsgEOF i => no_old_in i | FErr _ => true end.

  Lemma reid_req g m : is_req_or_notif (reid g m) = is_req_or_notif m.
  Proof. unfold reid. destruct (is_req_or_notif m) eqn:E; [exact E|]. exact E. Qed.

  Lemma reid_same g m : g (j_id m) = j_id m -> reid g m = m.
  Proof. unfold reid. intros H. destruct (is_req_or_notif m); [reflexivity|]. rewrite H. destruct m; reflexivity. Qed.

  Lemma ren_unren_msg m : no_old_msg m = true -> ren_msg (reid unren m) = m.
  Proof.
    unfold no_old_msg, ren_msg, reid. destruct (is_req_or_notif m) eqn:R; cbn [orb].
    - intros _. rewrite R. reflexivity.
    - intros H. apply negb_true_iff in H.
      change (is_req_or_notif (Build_jmsg (unren (j_id m)) (j_method m) (j_params m) (j_error m) (j_result m) (j_err m)))
        with (is_req_or_notif m). rewrite R. cbn [j_id j_method j_params j_error j_result j_err].
      rewrite (ren_unren _ H). destruct m; reflexivity.
  Qed.

  Lemma unren_ren_msg m : reid unren (ren_msg m) = m.
  Proof.
    unfold ren_msg, reid. destruct (is_req_or_notif m) eqn:R; [rewrite R; reflexivity|].
    change (is_req_or_notif (Build_jmsg (ren (j_id m)) (j_method m) (j_params m) (j_error m) (j_result m) (j_err m)))
      with (is_req_or_notif m). rewrite R. cbn [j_id j_method j_params j_error j_result j_err].
    rewrite unren_ren. destruct m; reflexivity.
  Qed.

  Lemma no_old_ren_msg m : no_old_msg (ren_msg m) = true.
  Proof.
    unfold no_old_msg, ren_msg. rewrite reid_req. destruct (is_req_or_notif m) eqn:R; [reflexivity|].
    unfold reid. rewrite R. cbn [j_id orb]. rewrite old_id_ren. reflexivity.
  Qed.

  Lemma ren_unren_feed f : no_old_feed f = true -> ren_feed (map_feed unren f) = f.
  Proof.
    assert (L : forall ms, forallb no_old_msg ms = true -> map ren_msg (map (reid unren) ms) = ms).
    { induction ms as [|m ms IH]; cbn [forallb map]; auto. intros H. apply andb_true_iff in H as [H1 H2].
      rewrite (ren_unren_msg m H1), (IH H2). reflexivity. }
    unfold ren_feed, ren_msg in *. destruct f as [[|b ms]|[|b ms]|c]; cbn; auto; intros H; rewrite (L ms H); reflexivity.
  Qed.

  Lemma unren_ren_feed f : map_feed unren (ren_feed f) = f.
  Proof.
    assert (L : forall ms, map (reid unren) (map ren_msg ms) = ms).
    { induction ms as [|m ms IH]; cbn [map]; auto. rewrite unren_ren_msg, IH. reflexivity. }
    unfold ren_feed, ren_msg in *. destruct f as [[|b ms]|[|b ms]|c]; cbn; auto; rewrite (L ms); reflexivity.
  Qed.

  Lemma no_old_ren_feed f : no_old_feed (ren_feed f) = true.
  Proof.
    assert (L : forall ms, forallb no_old_msg (map ren_msg ms) = true).
    { induction ms as [|m ms IH]; cbn [forallb map]; auto. rewrite no_old_ren_msg, IH. reflexivity. }
    destruct f as [[|b ms]|[|b ms]|c]; cbn; auto.
  Qed.

  (* un-renaming a shaped member leaves it shaped *)
  Lemma shaped_unren_msg m : shaped_msg m = true -> shaped_msg (reid unren m) = true.
  Proof.
    unfold shaped_msg. destruct (is_req_or_notif m) eqn:R; [unfold reid; rewrite R, R; reflexivity|].
    rewrite reid_req, R. cbn [orb]. unfold reid. rewrite R. unfold reply_shaped, has_reply_fields.
    cbn [j_id j_method j_error j_result].
    destruct (is_nil (j_method m) && match j_error m with Some _ => true | None => negb (is_nil (j_result m)) end);
      [reflexivity|]. cbn [orb]. intros H. apply negb_true_iff in H.
    unfold is_posnum in H. unfold unren. destruct (idnum (j_id m)) as [[|j]|] eqn:E; try discriminate.
    - cbn [Nat.ltb Nat.leb]. unfold is_posnum. rewrite E. reflexivity.
    - unfold is_posnum. rewrite E. reflexivity.
  Qed.

  Lemma shaped_unren_feed f : shaped_feed f = true -> shaped_feed (map_feed unren f) = true.
  Proof.
    assert (L : forall ms, forallb shaped_msg ms = true -> forallb shaped_msg (map (reid unren) ms) = true).
    { induction ms as [|m ms IH]; cbn [forallb map]; auto. intros H. apply andb_true_iff in H as [H1 H2].
      rewrite (shaped_unren_msg m H1), (IH H2). reflexivity. }
    destruct f as [[|b ms]|[|b ms]|c]; cbn; auto.
  Qed.

  (** * The embedding of the callback machinery *)
  Section K.
    Variable ocb : list cb.
    Notation nc := (length ocb).
    (* the old records bear old ids *)
    Hypothesis Hid : forall c, In c ocb -> old_id (cb_id c) = true.

    Definition sh_call (p : bytes * nat) : bytes * nat := (ren (fst p), nc + snd p).

    Definition embk (s : state) : state :=
      mkState (c_K s) (c_push s) (c_builtin s) (c_methods s) (c_unblock s) (map ren_feed (ch_in s)) (send_fail s)
        (running s) (stop_err s) (work_closed s) (closes s) (starts s) (ren_rd (rd s)) (dp s) (inq s)
        (units s) (tasks s) (nbar s) (sem_free s) (sem_wait s) (used s)
        (map sh_call (calls s)) (dk + call_id s) (ocb ++ map ren_cb (cbs s)) (wg s) (ops s) (waits s) (ended s) (crash s).

    Definition renk_label (l : label) : label :=
      match l with LFeed f => LFeed (ren_feed f) | LRelCbWatch i => LRelCbWatch (nc + i) | x => x end.

    Definition embkp (x : state * list obs) : state * list obs := (embk (fst x), map ren_obs (snd x)).

    (** ** tasks, semaphore *)
    Lemma k_cancel_task s k : cancel_task k (embk s) = embk (cancel_task k s).
    Proof.
      unfold cancel_task. change (tasks (embk s)) with (tasks s).
      destruct (nth_error (tasks s) k) as [t|]; [|reflexivity]. destruct (t_st t); reflexivity.
    Qed.

    Lemma k_grant : forall fuel s acc,
      grant fuel (embk s) (map ren_obs acc) = (embk (fst (grant fuel s acc)), map ren_obs (snd (grant fuel s acc))).
    Proof.
      induction fuel as [|f IH]; intros s acc; [reflexivity|].
      cbn [grant]. change (sem_wait (embk s)) with (sem_wait s). change (sem_free (embk s)) with (sem_free s).
      destruct (sem_wait s) as [|k r]; [reflexivity|]. destruct (sem_free s) as [|fr]; [reflexivity|].
      change (tasks (embk s)) with (tasks s). destruct (nth_error (tasks s) k) as [t|]; [|reflexivity].
      destruct (t_builtin t).
      - rewrite <- IH. reflexivity.
      - rewrite <- IH. rewrite map_app. reflexivity.
    Qed.

    Lemma k_fold_cancel : forall (l : list (bytes * nat)) s,
      fold_left (fun st p => cancel_task (snd p) st) l (embk s) = embk (fold_left (fun st p => cancel_task (snd p) st) l s).
    Proof. induction l as [|p l IH]; intros s; cbn [fold_left]; auto. rewrite k_cancel_task. apply IH. Qed.

    (** ** stopLocked *)
    Lemma k_stage3_cbs s :
      map (fun c => match assoc (cb_id c) (calls (embk s)) with
                    | Some _ => c <| cb_cancelled := true |>
                                  <| cb_watch := match cb_watch c with WBlocked => WParked | w => w end |>
                    | None => c end) (cbs (embk s)) =
      ocb ++ map ren_cb (map (fun c => match assoc (cb_id c) (calls s) with
                    | Some _ => c <| cb_cancelled := true |>
                                  <| cb_watch := match cb_watch c with WBlocked => WParked | w => w end |>
                    | None => c end) (cbs s)).
    Proof.
      cbn [cbs calls embk]. rewrite map_app. f_equal.
      - rewrite <- (map_id ocb) at 2. apply map_ext_in. intros c Ic. unfold sh_call. rewrite (assoc_old _ _ _ (Hid c Ic)). reflexivity.
      - rewrite !map_map. apply map_ext. intros c. cbn [cb_id ren_cb]. unfold sh_call. rewrite assoc_ren.
        destruct (assoc (cb_id c) (calls s)); reflexivity.
    Qed.

    Lemma k_stage1 s : stage1 (embk s) = embk (stage1 s).
    Proof. reflexivity. Qed.
    Lemma k_stage2 s : stage2 (embk s) = embk (stage2 s).
    Proof. unfold stage2. change (work_closed (embk s)) with (work_closed s). destruct (work_closed s); reflexivity. Qed.
    Lemma k_stage3 s : stage3 (embk s) = embk (stage3 s).
    Proof. unfold stage3. st_ext. apply k_stage3_cbs. Qed.
    Lemma k_stage4 s : stage4 (embk s) = embk (stage4 s).
    Proof. unfold stage4. change (used (embk s)) with (used s). apply k_fold_cancel. Qed.
    Lemma k_stage5 c s : stage5 c (embk s) = embk (stage5 c s).
    Proof. reflexivity. Qed.
    Lemma k_stage6 s : stage6 (embk s) = embk (stage6 s).
    Proof.
      unfold stage6. change (c_unblock (embk s)) with (c_unblock s). destruct (c_unblock s); [|reflexivity].
      st_ext. rewrite map_app. reflexivity.
    Qed.

    Lemma k_stop_locked c s : stop_locked c (embk s) = embkp (stop_locked c s).
    Proof.
      rewrite !stop_locked_stages. change (running (embk s)) with (running s). destruct (running s); cbn [negb]; [|reflexivity].
      unfold embkp. cbn [fst snd map ren_obs].
      rewrite k_stage1, k_stage2, k_stage3, k_stage4, k_stage5, k_stage6. reflexivity.
    Qed.

    (** ** the dispatcher *)
    Lemma k_dequeue s : dequeue (embk s) = embk (dequeue s).
    Proof.
      unfold dequeue. change (inq (embk s)) with (inq s). change (running (embk s)) with (running s).
      destruct (inq s) as [|[batch ms] q]; [destruct (running s); reflexivity|]. reflexivity.
    Qed.

    Lemma k_release_ids : forall ts s, release_ids ts (embk s) = embk (release_ids ts s).
    Proof.
      induction ts as [|t r IH]; intros s; cbn [release_ids]; auto.
      destruct (t_hasctx t && negb (is_note t)); [|apply IH].
      change (used (embk s)) with (used s). destruct (assoc (t_id t) (used s)) as [owner|]; [|apply IH].
      rewrite k_cancel_task. rewrite <- IH. reflexivity.
    Qed.

    (** ** wake-ups *)
    Lemma k_settle_dp s : settle_dp (embk s) = option_map embkp (settle_dp s).
    Proof.
      unfold settle_dp. change (dp (embk s)) with (dp s). destruct (dp s) as [| | |u|u|]; try reflexivity.
      - change (running (embk s)) with (running s). change (inq (embk s)) with (inq s).
        destruct (negb (running s) || negb (is_nil_list (inq s))); [|reflexivity]. rewrite k_dequeue. reflexivity.
      - change (nbar (embk s)) with (nbar s). destruct (nbar s =? 0); [|reflexivity].
        change (units (embk s)) with (units s). destruct (nth_error (units s) u) as [un|]; reflexivity.
    Qed.

    Lemma k_settle_units s : settle_units (embk s) = option_map embkp (settle_units s).
    Proof.
      unfold settle_units.
      change (find_unit (unit_complete (embk s)) 0 (units (embk s))) with (find_unit (unit_complete s) 0 (units s)).
      destruct (find_unit (unit_complete s) 0 (units s)) as [i|].
      - change (units (embk s)) with (units s). destruct (nth_error (units s) i) as [un|]; [|reflexivity].
        change (unit_tasks (embk s) i) with (unit_tasks s i).
        destruct (is_nil_list (responses (unit_tasks s i))); reflexivity.
      - change (waits (embk s)) with (waits s). change (wg (embk s)) with (wg s). change (inq (embk s)) with (inq s).
        destruct ((0 <? waits s) && (wg s =? 0)); [|reflexivity]. destruct (is_nil_list (inq s)); reflexivity.
    Qed.

    Lemma k_settle1 s : settle1 (embk s) = option_map embkp (settle1 s).
    Proof.
      rewrite !settle1_rest. change (rd (embk s)) with (ren_rd (rd s)). change (ch_in (embk s)) with (map ren_feed (ch_in s)).
      assert (Rest : settle_rest (embk s) = option_map embkp (settle_rest s)).
      { unfold settle_rest. rewrite k_settle_dp. destruct (settle_dp s); [reflexivity|]. apply k_settle_units. }
      destruct (rd s); cbn [ren_rd]; try exact Rest. destruct (ch_in s) as [|f q]; cbn [map]; [exact Rest|]. reflexivity.
    Qed.

    Lemma k_settle : forall fuel s acc, settle fuel (embk s) (map ren_obs acc) = embkp (settle fuel s acc).
    Proof.
      induction fuel as [|f IH]; intros s acc; [reflexivity|]. cbn [settle]. rewrite k_settle1.
      destruct (settle1 s) as [[s1 os1]|]; cbn [option_map embkp fst snd]; [|reflexivity].
      rewrite <- map_app. apply IH.
    Qed.

    Lemma k_settle_fuel s : settle_fuel (embk s) = settle_fuel s.
    Proof. unfold settle_fuel. cbn [units ch_in inq waits embk]. rewrite map_length. reflexivity. Qed.

    (** ** callbacks *)
    Lemma k_nth_cb s i : nth_error (cbs (embk s)) (nc + i) = option_map ren_cb (nth_error (cbs s) i).
    Proof.
      cbn [cbs embk]. rewrite nth_error_app_shift. destruct (nth_error (cbs s) i) as [c|] eqn:E.
      - apply map_nth_error. exact E.
      - apply nth_error_None. rewrite map_length. apply nth_error_None. exact E.
    Qed.

    Lemma k_upd_cbs s i (f : cb -> cb) : (forall c, f (ren_cb c) = ren_cb (f c)) ->
      upd_nth (nc + i) f (cbs (embk s)) = ocb ++ map ren_cb (upd_nth i f (cbs s)).
    Proof. intros Hf. cbn [cbs embk]. rewrite upd_nth_app_shift. f_equal. apply upd_nth_map. exact Hf. Qed.

    Lemma k_complete_cb i r s : complete_cb (nc + i) r (embk s) = embkp (complete_cb i r s).
    Proof.
      unfold complete_cb. rewrite k_nth_cb. destruct (nth_error (cbs s) i) as [c|]; cbn [option_map]; [|reflexivity].
      unfold embkp. cbn [fst snd]. f_equal.
      - apply state_ext; try reflexivity.
        + apply (assoc_del_ren (Nat.add nc)).
        + apply k_upd_cbs. reflexivity.
      - change (cb_ret (ren_cb c)) with (cb_ret c). destruct (cb_ret c); reflexivity.
    Qed.

    Lemma complete_cb_push i r s : c_push (fst (complete_cb i r s)) = c_push s.
    Proof. unfold complete_cb. destruct (nth_error (cbs s) i); reflexivity. Qed.

    Lemma reid_fields g m : j_method (reid g m) = j_method m /\ j_error (reid g m) = j_error m /\
      j_result (reid g m) = j_result m /\ has_reply_fields (reid g m) = has_reply_fields m.
    Proof. unfold reid. destruct (is_req_or_notif m); repeat split. Qed.

    Lemma k_filter_batch : forall ms s keep acc, c_push s = true -> forallb shaped_msg ms = true ->
      filter_batch (map ren_msg ms) (embk s) keep (map ren_obs acc) =
      let '(s1, k, o) := filter_batch ms s keep acc in (embk s1, k, map ren_obs o).
    Proof.
      induction ms as [|m r IH]; intros s keep acc Cp Sh; cbn [filter_batch map]; [reflexivity|].
      cbn [forallb] in Sh. apply andb_true_iff in Sh as [Sm Sr].
      unfold ren_msg at 1. rewrite reid_req. fold ren_msg.
      destruct (is_req_or_notif m) eqn:R.
      - assert (E : ren_msg m = m) by (unfold ren_msg, reid; rewrite R; reflexivity). rewrite E. apply IH; auto.
      - assert (Eid : fix_id (j_id (ren_msg m)) = ren (fix_id (j_id m))).
        { unfold ren_msg, reid. rewrite R. cbn [j_id]. apply fix_id_ren. }
        destruct (reid_fields ren m) as (Fm & Fe & Fr & Fh). fold ren_msg in Fm, Fe, Fr, Fh.
        rewrite Eid, Fm, Fe, Fr, Fh. change (calls (embk s)) with (map sh_call (calls s)). unfold sh_call. rewrite assoc_ren.
        destruct (assoc (fix_id (j_id m)) (calls s)) as [i|]; cbn [option_map].
        + rewrite k_complete_cb.
          match goal with |- context [complete_cb i ?v s] =>
            pose proof (complete_cb_push i v s) as Cp1; destruct (complete_cb i v s) as [s1 os1] end.
          cbn [fst] in Cp1. cbn [embkp fst snd]. rewrite <- map_app. apply IH; [congruence|auto].
        + change (c_push (embk s)) with (c_push s). rewrite Cp. cbn [andb].
          destruct (is_nil (j_method m) && has_reply_fields m) eqn:RS; [apply IH; auto|].
          assert (E : ren_msg m = m).
          { apply reid_same. apply ren_not_pos. unfold shaped_msg, reply_shaped in Sm. rewrite R, RS in Sm.
            cbn [orb] in Sm. apply negb_true_iff in Sm. exact Sm. }
          rewrite E. apply IH; auto.
    Qed.

    Lemma k_filter_batch0 ms s : c_push s = true -> forallb shaped_msg ms = true ->
      filter_batch (map ren_msg ms) (embk s) [] [] =
      let '(s1, k, o) := filter_batch ms s [] [] in (embk s1, k, map ren_obs o).
    Proof. intros Cp Sh. exact (k_filter_batch ms s [] [] Cp Sh). Qed.

    Lemma k_read_cs f s : c_push s = true -> shaped_feed f = true -> read_cs (ren_feed f) (embk s) = embkp (read_cs f s).
    Proof.
      intros Cp Sh. destruct f as [i|i|sc]; unfold read_cs; unfold ren_feed; cbn [map_feed].
      1,2: change (running (embk s)) with (running s); destruct (negb (running s)); [reflexivity|];
           destruct i as [|b ms]; [reflexivity|]; destruct ms as [|m ms]; [reflexivity|];
           cbn [map_in]; change (map (reid ren) (m :: ms)) with (map ren_msg (m :: ms));
           cbn [shaped_feed shaped_in] in Sh; cbn [map];
           change (ren_msg m :: map ren_msg ms) with (map ren_msg (m :: ms));
           rewrite (k_filter_batch0 (m :: ms) s Cp Sh); destruct (filter_batch (m :: ms) s [] []) as [[s1 keep] os1];
           destruct keep as [|k0 kr]; [reflexivity|]; cbv zeta;
           match goal with |- (if ?x then _ else _) = embkp (if ?y then _ else _) => change x with y; destruct y end;
           unfold embkp; cbn [fst snd]; rewrite ?map_app; reflexivity.
      rewrite k_stop_locked. destruct (stop_locked sc s) as [s2 os2]. reflexivity.
    Qed.

    Lemma k_grant0 fuel s : grant fuel (embk s) [] = (embk (fst (grant fuel s [])), map ren_obs (snd (grant fuel s []))).
    Proof. exact (k_grant fuel s []). Qed.

    (** ** critical sections *)
    (* (iii) LCbCtxEnd is not used with the operation number of an old record *)
    Definition ops_fresh (l : label) : bool :=
      match l with LCbCtxEnd n _ => forallb (fun c => negb (cb_op c =? n)) ocb | _ => true end.
    Definition rd_shaped (s : state) : bool := match rd s with RHold f => shaped_feed f | _ => true end.

    Lemma add_eqb_l j i : (nc + j =? nc + i) = (j =? i).
    Proof. destruct (Nat.eqb_spec j i), (Nat.eqb_spec (nc + j) (nc + i)); auto; lia. Qed.

    Lemma k_step_raw s l : c_push s = true -> 1 <= call_id s -> rd_shaped s = true -> ops_fresh l = true ->
      step_raw (embk s) (renk_label l) = option_map embkp (step_raw s l).
    Proof.
      intros Cp Ci Rs Of. destruct l; cbn [renk_label step_raw].
      - (* LStart *)
        change (running (embk s)) with (running s). change (wg (embk s)) with (wg s).
        destruct (negb (running s) && (wg s =? 0)); reflexivity.
      - (* LFeed *)
        cbn [option_map]. unfold embkp. cbn [fst snd map]. f_equal. f_equal. apply state_ext; try reflexivity.
        cbn. rewrite map_app. reflexivity.
      - reflexivity.
      - (* LGate *)
        change (tasks (embk s)) with (tasks s). destruct (find_idx _ 0 (tasks s)) as [k|]; [|reflexivity].
        destruct (nth_error (tasks s) k) as [t|]; reflexivity.
      - reflexivity.
      - reflexivity.
      - change (c_push (embk s)) with (c_push s). destruct (c_push s); reflexivity.
      - reflexivity.
      - (* LCbCtxEnd *)
        cbn [ops_fresh] in Of.
        assert (F : find_idx (fun c => cb_op c =? n) 0 (cbs (embk s)) =
                    option_map (Nat.add nc) (find_idx (fun c => cb_op c =? n) 0 (cbs s))).
        { cbn [cbs embk]. rewrite find_idx_app_none.
          - rewrite find_idx_map. cbn [Nat.add]. replace nc with (nc + 0) at 1 by lia.
            rewrite find_idx_add. reflexivity.
          - intros c Ic. rewrite forallb_forall in Of. apply negb_true_iff. apply Of. exact Ic. }
        rewrite F. destruct (find_idx _ 0 (cbs s)) as [i|]; cbn [option_map]; [|reflexivity].
        unfold embkp. cbn [fst snd map]. f_equal. f_equal. apply state_ext; try reflexivity.
        apply k_upd_cbs. intros c. change (cb_cancelled (ren_cb c)) with (cb_cancelled c).
        destruct (cb_cancelled c); reflexivity.
      - (* LRelRead *)
        unfold rd_shaped in Rs. change (rd (embk s)) with (ren_rd (rd s)). destruct (rd s); try reflexivity.
        cbn [ren_rd option_map]. f_equal. apply k_read_cs; auto.
      - (* LRelNext *)
        change (dp (embk s)) with (dp s). destruct (dp s); try reflexivity. rewrite k_dequeue. reflexivity.
      - (* LRelBarrier *)
        change (dp (embk s)) with (dp s). destruct (dp s); reflexivity.
      - (* LRelAcquire *)
        change (tasks (embk s)) with (tasks s). destruct (nth_error (tasks s) k) as [t|]; [|reflexivity].
        destruct (t_st t); try reflexivity.
        change (unit_running (embk s) t) with (unit_running s t). destruct (negb (unit_running s t)); [reflexivity|].
        destruct (t_cancelled t); [reflexivity|].
        change (sem_free (embk s)) with (sem_free s). change (sem_wait (embk s)) with (sem_wait s).
        destruct (sem_free s) as [|fr]; [reflexivity|]. destruct (sem_wait s) as [|j r]; [|reflexivity].
        destruct (t_builtin t); reflexivity.
      - (* LRelHandled *)
        change (tasks (embk s)) with (tasks s). destruct (nth_error (tasks s) k) as [t|]; [|reflexivity].
        destruct (t_st t) as [| | | |o|]; try reflexivity.
        set (s1 := set_task k (fun t0 => t0 <| t_st := TDone (body_of_outcome t0 o) |>) s <| sem_free ::= S |>).
        change (set_task k (fun t0 => t0 <| t_st := TDone (body_of_outcome t0 o) |>) (embk s) <| sem_free ::= S |>)
          with (embk s1).
        change (sem_wait (embk s1)) with (sem_wait s1). rewrite k_grant0.
        destruct (grant (S (length (sem_wait s1))) s1 []) as [s2 os2]. cbn [fst snd].
        change (nbar (embk s2)) with (nbar s2).
        destruct (is_note t); [destruct (nbar s2)|]; cbn [option_map]; unfold embkp; cbn [fst snd]; rewrite ?map_app;
          reflexivity.
      - (* LRelDeliver *)
        change (units (embk s)) with (units s). destruct (nth_error (units s) u) as [un|]; [|reflexivity].
        destruct (u_st un); try reflexivity.
        change (unit_tasks (embk s) u) with (unit_tasks s u). rewrite k_release_ids.
        destruct (negb (u_chok un)); reflexivity.
      - (* LRelStop *)
        change (ops (embk s)) with (ops s). destruct (find_op n (ops s)) as [[n0|n0 id|n0 w m p]|]; try reflexivity.
        change (embk s <| ops ::= del_op n |>) with (embk (s <| ops ::= del_op n |>)). rewrite k_stop_locked.
        destruct (stop_locked SCStop (s <| ops ::= del_op n |>)) as [s2 os2].
        cbn [option_map]. unfold embkp. cbn [fst snd]. rewrite map_app. reflexivity.
      - (* LRelCancel *)
        change (ops (embk s)) with (ops s). destruct (find_op n (ops s)) as [[n0|n0 id|n0 w m p]|]; try reflexivity.
        change (embk s <| ops ::= del_op n |>) with (embk (s <| ops ::= del_op n |>)).
        change (used (embk (s <| ops ::= del_op n |>))) with (used (s <| ops ::= del_op n |>)).
        destruct (assoc id (used (s <| ops ::= del_op n |>))) as [owner|]; [rewrite k_cancel_task|]; reflexivity.
      - (* LRelPush *)
        change (ops (embk s)) with (ops s). destruct (find_op n (ops s)) as [[n0|n0 id|n0 w m p]|]; try reflexivity.
        set (s1 := s <| ops ::= del_op n |>). change (embk s <| ops ::= del_op n |>) with (embk s1).
        change (running (embk s1)) with (running s1). destruct (negb (running s1)); [reflexivity|].
        change (send_fail (embk s1)) with (send_fail s1).
        destruct w.
        2:{ cbn [option_map]. unfold embkp. cbn [fst snd map ren_obs]. rewrite ren_nil. reflexivity. }
        change (call_id (embk s1)) with (dk + call_id s1).
        assert (Cj : exists j, call_id s1 = S j) by (exists (call_id s - 1); change (call_id s1) with (call_id s); lia).
        destruct Cj as (j & Cj). rewrite Cj. rewrite <- (ren_dec j).
        destruct (send_fail s1).
        + cbn [option_map]. unfold embkp. cbn [fst snd map ren_obs]. f_equal. f_equal.
          apply state_ext; try reflexivity.
          * cbn. lia.
          * cbn. rewrite map_app, app_assoc. reflexivity.
        + change (ended (embk s1)) with (ended s1).
          cbn [option_map]. unfold embkp. cbn [fst snd map ren_obs]. f_equal. f_equal.
          apply state_ext; try reflexivity.
          * cbn. rewrite app_length, map_length. f_equal.
            apply (assoc_del_ren (Nat.add nc)).
          * cbn. lia.
          * cbn. rewrite map_app, app_assoc. f_equal. cbn [map]. f_equal.
            destruct (find (fun e => fst e =? n) (ended s)) as [[? ?]|]; reflexivity.
      - (* LRelCbWatch *)
        rewrite k_nth_cb. destruct (nth_error (cbs s) c) as [cb0|]; [|reflexivity]. cbn [option_map].
        change (cb_watch (ren_cb cb0)) with (cb_watch cb0). destruct (cb_watch cb0); try reflexivity.
        assert (E1 : embk s <| cbs ::= upd_nth (nc + c) (fun c0 => c0 <| cb_watch := WDone |>) |> =
                     embk (s <| cbs ::= upd_nth c (fun c0 => c0 <| cb_watch := WDone |>) |>)).
        { apply state_ext; try reflexivity. apply k_upd_cbs. reflexivity. }
        rewrite E1. set (s1 := s <| cbs ::= upd_nth c (fun c0 => c0 <| cb_watch := WDone |>) |>).
        change (calls (embk s1)) with (map sh_call (calls s1)). change (cb_id (ren_cb cb0)) with (ren (cb_id cb0)).
        unfold sh_call. rewrite assoc_ren.
        destruct (assoc (cb_id cb0) (calls s1)) as [j|]; cbn [option_map]; [|reflexivity].
        change (cb_slot (ren_cb cb0)) with (cb_slot cb0). destruct (cb_slot cb0); [reflexivity|].
        rewrite add_eqb_l. destruct (j =? c); [|reflexivity].
        change (cb_ctx (ren_cb cb0)) with (cb_ctx cb0).
        destruct (match cb_ctx cb0 with Some WDeadline => _ | _ => _ end) as [code msg].
        cbn [option_map]. f_equal. apply k_complete_cb.
    Qed.

    (** ** windows *)
    Theorem k_step s l : c_push s = true -> 1 <= call_id s -> rd_shaped s = true -> ops_fresh l = true ->
      step (embk s) (renk_label l) = option_map embkp (step s l).
    Proof.
      intros Cp Ci Rs Of. unfold step. change (crash (embk s)) with (crash s). destruct (crash s); [reflexivity|].
      rewrite k_step_raw by auto. destruct (step_raw s l) as [[s1 os]|]; cbn [option_map embkp fst snd]; [|reflexivity].
      change (crash (embk s1)) with (crash s1). destruct (crash s1); [reflexivity|].
      rewrite k_settle_fuel, k_settle. reflexivity.
    Qed.
  End K.
End Ren.
