(* SrvMonCancel: soundness of [mon_cancel_cause] (srv/SrvMonitors3.v) for every run of the server model.

   A task's cancelled flag is set (C07: cancel_targets_raw) by LRelCancel n - whose pending OpCancel n id was queued by
   a label LCallCancel n id, and id is the non-empty id of that task (inv_used) -, by the delivery of its own unit -
   after which the task is finished and reports nothing any more (a handler entry comes from a task before its
   handler, a handler return from a task in its handler) -, or by stopLocked on a running server (LRelStop, LRelRead
   holding a Recv error).  The critical section in which stopLocked runs on a running server reports [OClose] as its
   first observation and no handler entry or return: so every context reported as cancelled BEFORE the first OClose
   of the observation sequence was cancelled by CancelRequest ([CI], kept by every window that does not stop the
   server).  If the environment contains no stop cause at all (no Stop call, no fed Recv error), stopLocked never
   runs on a running server ([NS]: LRelStop needs a pending OpStop, only LCallStop queues one; the reader never
   holds an error, the closing error the model appends to the channel being appended by stopLocked only): then every
   context reported as cancelled anywhere was cancelled by CancelRequest.  Every task was made from a member on the
   inbound path, and every member on the inbound path was fed. *)
From Coq Require Import List NArith ZArith Bool Arith Lia.
From RecordUpdate Require Import RecordUpdate.
From JV Require Import Bytes Msg SrvModel SrvLemmas SrvBasics SrvC01 SrvHist SrvMonitors SrvMonBarrier SrvMonReply
  SrvMonitors3 SrvMonFrame.
From JV Require SrvC07 SrvC08 SrvMonDup.
Import ListNotations.

(** * the invariants, relative to a fixed environment sequence E that contains every environment label taken *)
Definition op_ok (E : list label) (o : op) : Prop :=
  match o with OpCancel _ id => In id (cancel_ids E) | _ => True end.

(* as long as stopLocked has not run on a running server *)
Record CI (E : list label) (s : state) : Prop := {
  ci_canc : forall k t, nth_error (tasks s) k = Some t -> t_cancelled t = true -> finished t = false ->
              t_id t <> [] /\ In (t_id t) (cancel_ids E);
  ci_task : forall k t, nth_error (tasks s) k = Some t ->
              exists m, In m (fed_msgs E) /\ j_params m = t_params t /\ idk m = t_id t;
  ci_pend : forall m, In m (pend_msgs s) -> In m (fed_msgs E);
  ci_ops : forall o, In o (ops s) -> op_ok E o
}.

(* when E has no stop cause: no Stop call is pending and no Recv error is on the inbound path *)
Record NS (s : state) : Prop := {
  ns_ops : forall n, ~ In (OpStop n) (ops s);
  ns_ferr : forall c, ~ In (FErr c) (ch_in s) /\ rd s <> RHold (FErr c)
}.

Lemma stop_label_in E l : stop_in E = false -> In l E -> is_stop_label l = false.
Proof.
  intros N H. destruct (is_stop_label l) eqn:P; auto.
  assert (T : stop_in E = true) by (apply existsb_exists; eauto). congruence.
Qed.

Lemma cancel_label_in E n id : In (LCallCancel n id) E -> In id (cancel_ids E).
Proof. intros H. apply in_flat_map. exists (LCallCancel n id). split; auto. left. reflexivity. Qed.

Lemma fed_label_in E f m : In (LFeed f) E -> In m (feed_msgs f) -> In m (fed_msgs E).
Proof. intros H Hm. apply in_flat_map. exists (LFeed f). split; auto. Qed.

Lemma finished_back t t' : task_le t t' -> finished t' = false -> finished t = false.
Proof. intros Le F. destruct (finished t) eqn:Ft; auto. rewrite (finished_le _ _ Le Ft) in F. discriminate. Qed.

(* the tasks a dequeue makes come from members on the inbound path *)
Lemma dequeue_task_origin s k t : nth_error (tasks (dequeue s)) k = Some t ->
  nth_error (tasks s) k = Some t \/ exists m u ids, In m (pend_msgs s) /\ t = mk_task s u ids m.
Proof.
  unfold dequeue. destruct (inq s) as [|[b ms] q] eqn:Q.
  - destruct (running s); cbn; auto.
  - cbn [tasks set]. intros E.
    destruct (Nat.lt_ge_cases k (length (tasks s))) as [Lt|Ge].
    + rewrite nth_error_app1 in E by exact Lt. auto.
    + rewrite nth_error_app2 in E by exact Ge. apply nth_error_In, in_map_iff in E as (m & <- & Im).
      right. exists m, (length (units s)), (map (fun m0 => fix_id (j_id m0)) ms). split; auto.
      unfold pend_msgs. rewrite Q. change (qmsgs ((b, ms) :: q)) with (ms ++ qmsgs q).
      apply in_or_app. left. apply in_or_app. left. exact Im.
Qed.

Lemma dequeue_CI_tasks E s : CI E s ->
  (forall k t, nth_error (tasks (dequeue s)) k = Some t -> t_cancelled t = true -> finished t = false ->
     t_id t <> [] /\ In (t_id t) (cancel_ids E)) /\
  (forall k t, nth_error (tasks (dequeue s)) k = Some t ->
     exists m, In m (fed_msgs E) /\ j_params m = t_params t /\ idk m = t_id t).
Proof.
  intros [Cc Ct Cp _]. split.
  - intros k t E0 C F. destruct (dequeue_task_origin _ _ _ E0) as [Old|(m & u & ids & _ & ->)]; [eauto|].
    rewrite mk_task_cancelled in C. discriminate C.
  - intros k t E0. destruct (dequeue_task_origin _ _ _ E0) as [Old|(m & u & ids & Im & ->)]; [eauto|].
    exists m. rewrite mk_task_params, mk_task_id. repeat split; auto.
Qed.

(** * one critical section *)
(* without a stop cause in E, stopLocked never runs on a running server *)
Lemma raw_NS E s l s' os : stop_in E = false -> inv s -> NS s -> step_raw s l = Some (s', os) -> covers E l ->
  NS s' /\ ~ stops s s'.
Proof.
  intros N I [No Nf] H Cv. destruct (raw_from _ _ _ _ I H) as [Fo Fc].
  assert (NoStop : ~ stops s s').
  { intros [R1 R2]. destruct (raw_stop_view _ _ _ _ I H) as [(_ & X & _)|[(c & Sc & _)|(X & _)]]; try congruence.
    destruct Sc as [n|c Rd].
    - destruct (relstop_op _ _ _ _ H) as (n0 & Hn). exact (No _ Hn).
    - exact (proj2 (Nf c) Rd). }
  split; [|exact NoStop]. constructor.
  - intros n Hn. destruct (Fo _ Hn) as [X|X]; [exact (No _ X)|].
    destruct l; cbn in X; try discriminate X. injection X as ->.
    assert (Hl : In (LCallStop n) E) by (apply Cv; reflexivity).
    pose proof (stop_label_in _ _ N Hl) as Z. discriminate Z.
  - intros c. split.
    + intros Hi. destruct (Fc _ Hi) as [X|[X|(_ & R1 & R2)]].
      * exact (proj1 (Nf c) X).
      * assert (Hl : In l E) by (apply Cv; rewrite X; reflexivity).
        pose proof (stop_label_in _ _ N Hl) as Z. rewrite X in Z. discriminate Z.
      * apply NoStop. split; assumption.
    + intros Hr. apply (proj2 (Nf c)). eapply raw_rd_hold; eauto.
Qed.

Lemma raw_CI E c0 s l s' os : reachf c0 s -> crash s = None -> CI E s ->
  step_raw s l = Some (s', os) -> covers E l -> ~ stops s s' -> CI E s'.
Proof.
  intros R Cr W H Cv NoStop. pose proof W as [Cc Ct Cp Co]. pose proof (reachf_inv _ _ R) as I.
  destruct (raw_from _ _ _ _ I H) as [Fo _].
  assert (Back : length (tasks s') = length (tasks s) ->
    (forall k t, nth_error (tasks s') k = Some t -> t_cancelled t = true -> finished t = false ->
       t_id t <> [] /\ In (t_id t) (cancel_ids E)) /\
    (forall k t, nth_error (tasks s') k = Some t -> exists m, In m (fed_msgs E) /\ j_params m = t_params t /\ idk m = t_id t)).
  { intros L. destruct (raw_step_ok _ _ _ _ I H) as [_ [X _]]. split.
    - intros k t' E' C' F'. destruct (SrvC07.back_task s s' k t' X L E') as (t & Et & Le).
      pose proof (finished_back _ _ Le F') as F. destruct Le as [_ Li _ _ _ _ _ _ _]. rewrite Li.
      destruct (t_cancelled t) eqn:C; [eauto|].
      assert (Same : tasks s' = tasks s -> False).
      { intros T. rewrite T, Et in E'. injection E' as <-. congruence. }
      destruct (SrvC07.cancel_targets_raw _ _ _ _ _ _ _ _ R Cr H Et E' C C') as [n id Fo' As Ei|n|e Rd|].
      + apply SrvC07.find_op_some in Fo' as [Io _]. specialize (Co _ Io). cbn in Co. rewrite Ei. split; auto.
        apply assoc_in in As. destruct (SrvC07.iu_in _ (SrvC07.reachf_inv_used _ _ R) _ _ As) as (_ & _ & _ & Ni & _).
        exact Ni.
      + destruct (relstop_view _ _ _ _ H) as [(St & _)|T]; [destruct (NoStop St)|destruct (Same T)].
      + destruct (relread_err_view _ _ _ _ Rd H) as [(St & _)|T]; [destruct (NoStop St)|destruct (Same T)].
      + (* its own delivery: the task had finished *)
        unfold step_raw in H. destruct (nth_error (units s) (t_unit t)) as [un|] eqn:Eu; [|discriminate].
        destruct (u_st un) eqn:Su; try discriminate.
        assert (Af : all_finished s (t_unit t) = true) by (eapply (i_fin _ I); eauto).
        unfold all_finished in Af. rewrite forallb_forall in Af.
        assert (It : In t (unit_tasks s (t_unit t))).
        { unfold unit_tasks. apply filter_In. split; [eapply nth_error_In; eauto|apply Nat.eqb_refl]. }
        rewrite (Af _ It) in F. discriminate F.
    - intros k t' E'. destruct (SrvC07.back_task s s' k t' X L E') as (t & Et & Le).
      destruct (Ct _ _ Et) as (m & Im & Ep & Ei). exists m. destruct Le. repeat split; auto; congruence. }
  assert (Tk : (forall k t, nth_error (tasks s') k = Some t -> t_cancelled t = true -> finished t = false ->
       t_id t <> [] /\ In (t_id t) (cancel_ids E)) /\
    (forall k t, nth_error (tasks s') k = Some t -> exists m, In m (fed_msgs E) /\ j_params m = t_params t /\ idk m = t_id t)).
  { destruct (raw_shape_ok _ _ _ _ I H) as [U L| -> |u un _ _ _ U L]; auto. apply dequeue_CI_tasks; auto. }
  destruct Tk as [Tk1 Tk2]. constructor; auto.
  - (* members on the inbound path *)
    intros m Hm. apply (subl_in _ _ _ (raw_pendq _ _ _ _ I H)) in Hm. apply in_app_or in Hm as [Hm|Hm]; [auto|].
    destruct l; cbn [label_msgs] in Hm; try contradiction.
    apply (fed_label_in E f m); [apply Cv; reflexivity|exact Hm].
  - (* pending operations *)
    intros o Ho. destruct (Fo _ Ho) as [X|X]; [auto|].
    destruct l; cbn in X; try discriminate X; injection X as <-; cbn; try exact Logic.I.
    apply (cancel_label_in E n id). apply Cv. reflexivity.
Qed.

(* what a critical section reports about cancelled contexts *)
Lemma named_by E t m : In m (fed_msgs E) -> j_params m = t_params t -> idk m = t_id t ->
  t_id t <> [] -> In (t_id t) (cancel_ids E) -> cancel_named E (t_params t) = true.
Proof.
  intros Im Ep Ei Ni Ic. unfold cancel_named. apply existsb_exists. exists m. split; auto.
  unfold names_member. rewrite Ep, beq_refl, Ei. cbn [andb].
  apply andb_true_iff. split.
  - destruct (t_id t); [congruence|reflexivity].
  - apply mem_bytes_in. exact Ic.
Qed.

Lemma in_cancelled_params p os : In p (cancelled_params os) <-> In (OStart p true) os \/ In (OGate p true) os.
Proof.
  unfold cancelled_params. rewrite in_flat_map. split.
  - intros (o & Ho & Hp). destruct o as [q [|]|q [|]| | | | | |]; cbn in Hp; try contradiction;
      destruct Hp as [->|[]]; auto.
  - intros [H|H]; eexists; (split; [exact H|left; reflexivity]).
Qed.

Lemma raw_gate_origin s l s' os p cn : inv s -> step_raw s l = Some (s', os) -> In (OGate p cn) os ->
  exists k t, nth_error (tasks s) k = Some t /\ t_params t = p /\ t_cancelled t = cn /\ t_st t = TRunning.
Proof.
  intros I H Hi. destruct (raw_acct _ _ _ _ I H) as [Sh _].
  destruct l; cbn [gate_shape] in Sh;
    try (exfalso; assert (G : In p (gates os)) by (apply in_flat_map; exists (OGate p cn); split; [auto|left; reflexivity]);
         rewrite Sh in G; exact G).
  unfold step_raw in H.
  destruct (find_idx _ 0 (tasks s)) as [k|] eqn:F; [|discriminate].
  destruct (nth_error (tasks s) k) as [t|] eqn:E; [|discriminate]. injection H as <- <-.
  destruct Hi as [Hi|[]]. injection Hi as <- <-.
  apply find_idx_some in F as (x & Ex & Px & _). rewrite Nat.sub_0_r, E in Ex. injection Ex as <-.
  apply andb_true_iff in Px as [Pp Px]. apply beq_eq in Pp. exists k, t. repeat split; auto.
  destruct (t_st t); try discriminate Px. reflexivity.
Qed.

Lemma raw_cancelled_named E s l s' os p : inv s -> CI E s -> step_raw s l = Some (s', os) ->
  In p (cancelled_params os) -> cancel_named E p = true.
Proof.
  intros I [Cc Ct _ _] H Hp. apply in_cancelled_params in Hp as [Hp|Hp].
  - pose proof (raw_obs _ _ _ _ _ I H Hp) as O. cbn in O.
    destruct O as (k & t & t' & Et & _ & Ep & Ec & Rk & _).
    assert (F : finished t = false) by (unfold finished; destruct (t_st t); cbn in Rk; try reflexivity; lia).
    destruct (Cc _ _ Et Ec F) as [Ni Ic]. destruct (Ct _ _ Et) as (m & Im & Em & Ei).
    rewrite <- Ep. eapply named_by; eauto.
  - destruct (raw_gate_origin _ _ _ _ _ _ I H Hp) as (k & t & Et & Ep & Ec & St).
    assert (F : finished t = false) by (unfold finished; rewrite St; reflexivity).
    destruct (Cc _ _ Et Ec F) as [Ni Ic]. destruct (Ct _ _ Et) as (m & Im & Em & Ei).
    rewrite <- Ep. eapply named_by; eauto.
Qed.

(** * one wake-up *)
Lemma settle1_CI E s s' os : CI E s -> settle1 s = Some (s', os) -> CI E s'.
Proof.
  intros W H. pose proof W as [Cc Ct Cp Co]. destruct (settle1_from _ _ _ H) as (Eo & _ & _ & Ch & Rd).
  assert (Tk : (forall k t, nth_error (tasks s') k = Some t -> t_cancelled t = true -> finished t = false ->
       t_id t <> [] /\ In (t_id t) (cancel_ids E)) /\
    (forall k t, nth_error (tasks s') k = Some t -> exists m, In m (fed_msgs E) /\ j_params m = t_params t /\ idk m = t_id t)).
  { pose proof (settle1_inv _ _ _ H) as Sp.
    destruct Sp as [f q Hrd Hch|Hdp Hc|u un H1 H2 H3|i un H1 H2 H3|i un H1 H2 H3|H1 H2 H3|H1 H2 H3];
      try (split; [exact Cc|exact Ct]).
    apply dequeue_CI_tasks; auto. }
  destruct Tk as [Tk1 Tk2]. constructor; auto.
  - intros m Hm. apply Cp. eapply SrvMonDup.settle1_pend; eauto.
  - intros o Ho. rewrite Eo in Ho. auto.
Qed.

Lemma settle1_NS s s' os : NS s -> settle1 s = Some (s', os) -> NS s'.
Proof.
  intros [No Nf] H. destruct (settle1_from _ _ _ H) as (Eo & _ & _ & Ch & Rd). constructor.
  - intros n Hn. rewrite Eo in Hn. exact (No _ Hn).
  - intros c. split.
    + intros Hi. exact (proj1 (Nf c) (Ch _ Hi)).
    + intros Hr. destruct (Rd _ Hr) as [X|X]; [exact (proj2 (Nf c) X)|exact (proj1 (Nf c) X)].
Qed.

Lemma settle_CI E c0 : forall fuel s acc s' os, reachf c0 s -> CI E s -> settle fuel s acc = (s', os) -> CI E s'.
Proof.
  induction fuel as [|f IH]; cbn; intros s acc s' os R W H.
  - injection H as <- _. exact W.
  - destruct (settle1 s) as [[s1 os1]|] eqn:E1.
    + eapply IH; [eapply rf_settle; eauto|eapply settle1_CI; eauto|exact H].
    + injection H as <- _. exact W.
Qed.

Lemma settle_NS : forall fuel s acc s' os, NS s -> settle fuel s acc = (s', os) -> NS s'.
Proof.
  induction fuel as [|f IH]; cbn; intros s acc s' os W H.
  - injection H as <- _. exact W.
  - destruct (settle1 s) as [[s1 os1]|] eqn:E1.
    + eapply IH; [eapply settle1_NS; eauto|exact H].
    + injection H as <- _. exact W.
Qed.

Lemma settle_obs_no_cancelled extra : Forall settle_obs extra -> cancelled_params extra = [].
Proof.
  induction 1 as [|o l H _ IH]; auto.
  change (cancelled_params (o :: l)) with (cancelled_of o ++ cancelled_params l). rewrite IH.
  destruct o; cbn [settle_obs] in H; try contradiction; reflexivity.
Qed.

Lemma cancelled_params_app a b : cancelled_params (a ++ b) = cancelled_params a ++ cancelled_params b.
Proof. apply flat_map_app. Qed.

(** * one window: either it stops the server - its first observation is then the close of the channel - or the
    invariant is kept and every cancelled context it reports is named *)
Lemma step_CI E c0 s l s' os : reachf c0 s -> CI E s -> step s l = Some (s', os) -> covers E l ->
  ((exists r, os = OClose :: r) /\ (stop_in E = false -> NS s -> False)) \/
  (CI E s' /\ (forall p, In p (cancelled_params os) -> cancel_named E p = true) /\
   (stop_in E = false -> NS s -> NS s')).
Proof.
  intros R W H Cv. pose proof (reachf_inv _ _ R) as I.
  apply step_decompose in H as (Cr & s1 & os1 & Hr & Hs).
  destruct (stops_dec s s1) as [St|NoStop].
  - left. split; [|intros N Ns; exact (proj2 (raw_NS _ _ _ _ _ N I Ns Hr Cv) St)].
    destruct (raw_stop_obs _ _ _ _ I Hr St) as (r & ->).
    destruct Hs as [(_ & _ & ->)|(_ & Hs)]; [eauto|].
    destruct (settle_obs_app _ _ _ _ _ Hs) as (ex & -> & _). exists (r ++ ex). reflexivity.
  - right. pose proof (raw_CI _ _ _ _ _ _ R Cr W Hr Cv NoStop) as W1.
    destruct Hs as [(_ & -> & ->)|(_ & Hs)].
    + split; auto. split; [intros p Hp; exact (raw_cancelled_named E _ _ _ _ p I W Hr Hp)|].
      intros N Ns. exact (proj1 (raw_NS _ _ _ _ _ N I Ns Hr Cv)).
    + split; [eapply settle_CI; [eapply rf_raw; eauto|exact W1|exact Hs]|]. split.
      * destruct (settle_obs_app _ _ _ _ _ Hs) as (ex & -> & Fx).
        intros p Hp. rewrite cancelled_params_app, (settle_obs_no_cancelled _ Fx), app_nil_r in Hp.
        exact (raw_cancelled_named E _ _ _ _ p I W Hr Hp).
      * intros N Ns. eapply settle_NS; [exact (proj1 (raw_NS _ _ _ _ _ N I Ns Hr Cv))|exact Hs].
Qed.

(** * runs *)
Lemma before_close_cancelled a b p : In p (cancelled_params (before_close (a ++ b))) ->
  In p (cancelled_params a) \/ In p (cancelled_params (before_close b)).
Proof.
  induction a as [|o a IH]; cbn [app]; [auto|]. intros H.
  assert (K : In p (cancelled_params (o :: before_close (a ++ b))) ->
              In p (cancelled_params (o :: a)) \/ In p (cancelled_params (before_close b))).
  { change (cancelled_params (o :: before_close (a ++ b))) with (cancelled_of o ++ cancelled_params (before_close (a ++ b))).
    change (cancelled_params (o :: a)) with (cancelled_of o ++ cancelled_params a).
    intros Hi. apply in_app_or in Hi as [Hi|Hi]; [left; apply in_or_app; auto|].
    destruct (IH Hi) as [X|X]; [left; apply in_or_app; auto|right; exact X]. }
  destruct o; cbn [before_close] in H; try (apply K; exact H). destruct H.
Qed.

(* before the first close: every cancelled context reported is named *)
Lemma run_CI E c0 : forall tr s s' oss, reachf c0 s -> CI E s -> (forall l, In l tr -> covers E l) ->
  run s tr = Some (s', oss) -> forall p, In p (cancelled_params (before_close (concat oss))) -> cancel_named E p = true.
Proof.
  induction tr as [|l r IH]; cbn [run]; intros s s' oss R W Cv H p Hp.
  - injection H as <- <-. destruct Hp.
  - destruct (step s l) as [[s1 os]|] eqn:E1; [|discriminate].
    destruct (run s1 r) as [[s2 oss2]|] eqn:E2; [|discriminate]. injection H as <- <-.
    cbn [concat] in Hp.
    destruct (step_CI E c0 _ _ _ _ R W E1 (Cv l (or_introl eq_refl))) as [((r0 & ->) & _)|(W1 & C1 & _)].
    + cbn in Hp. destruct Hp.
    + apply before_close_cancelled in Hp as [Hp|Hp]; [auto|].
      eapply (IH _ _ _ (step_reachf _ _ _ _ _ R E1) W1 (fun l0 H0 => Cv l0 (or_intror H0)) E2); eauto.
Qed.

(* without a stop cause in the environment: every cancelled context reported is named *)
Lemma run_CI_nostop E c0 : stop_in E = false -> forall tr s s' oss, reachf c0 s -> CI E s -> NS s ->
  (forall l, In l tr -> covers E l) ->
  run s tr = Some (s', oss) -> forall p, In p (cancelled_params (concat oss)) -> cancel_named E p = true.
Proof.
  intros N. induction tr as [|l r IH]; cbn [run]; intros s s' oss R W Ns Cv H p Hp.
  - injection H as <- <-. destruct Hp.
  - destruct (step s l) as [[s1 os]|] eqn:E1; [|discriminate].
    destruct (run s1 r) as [[s2 oss2]|] eqn:E2; [|discriminate]. injection H as <- <-.
    destruct (step_CI E c0 _ _ _ _ R W E1 (Cv l (or_introl eq_refl))) as [(_ & Z)|(W1 & C1 & Ns1)]; [destruct (Z N Ns)|].
    cbn [concat] in Hp. rewrite cancelled_params_app in Hp. apply in_app_or in Hp as [Hp|Hp]; [auto|].
    eapply (IH _ _ _ (step_reachf _ _ _ _ _ R E1) W1 (Ns1 N Ns) (fun l0 H0 => Cv l0 (or_intror H0)) E2); eauto.
Qed.

Lemma CI_init E c0 : CI E (init_of c0).
Proof.
  constructor.
  - intros k t H. destruct k; discriminate H.
  - intros k t H. destruct k; discriminate H.
  - intros m [].
  - intros o [].
Qed.

Lemma NS_init c0 : NS (init_of c0).
Proof.
  constructor.
  - intros n [].
  - intros c. split; [intros []|intros H; discriminate H].
Qed.

(** * Soundness *)
(* a context reported as cancelled before the first close of the channel was cancelled by CancelRequest *)
Theorem cancelled_before_close_named c tr s oss p : run (init_of c) tr = Some (s, oss) ->
  In p (cancelled_params (before_close (concat oss))) -> cancel_named (env_of tr) p = true.
Proof.
  intros H Hp. exact (run_CI (env_of tr) c tr _ _ _ (rf_init c) (CI_init _ c) (covers_env_of tr) H p Hp).
Qed.

Theorem cancelled_has_cause c tr s oss p : run (init_of c) tr = Some (s, oss) ->
  In p (cancelled_params (concat oss)) -> stop_in (env_of tr) = false -> cancel_named (env_of tr) p = true.
Proof.
  intros H Hp N.
  exact (run_CI_nostop (env_of tr) c N tr _ _ _ (rf_init c) (CI_init _ c) (NS_init c) (covers_env_of tr) H p Hp).
Qed.

Theorem mon_cancel_cause_sound c tr s oss : run (init_of c) tr = Some (s, oss) ->
  mon_cancel_cause (env_of tr) (concat oss) = true.
Proof.
  intros H. unfold mon_cancel_cause. apply andb_true_iff. split.
  - apply forallb_forall. intros p Hp. eapply cancelled_before_close_named; eauto.
  - destruct (stop_in (env_of tr)) eqn:N; [reflexivity|]. cbn [orb].
    apply forallb_forall. intros p Hp. eapply cancelled_has_cause; eauto.
Qed.

(* the observations before the first close, spelled out *)
Lemma before_close_spec os : forall o, In o (before_close os) <->
  exists pre post, os = pre ++ o :: post /\ ~ In OClose pre /\ o <> OClose.
Proof.
  induction os as [|x os IH]; intros o.
  - cbn. split; [intros []|]. intros (pre & post & E & _). destruct pre; discriminate E.
  - assert (K : x <> OClose -> (In o (x :: before_close os) <->
                  exists pre post, x :: os = pre ++ o :: post /\ ~ In OClose pre /\ o <> OClose)).
    { intros Nx. split.
      - intros [<-|Hi]; [exists [], os; repeat split; auto|].
        apply IH in Hi as (pre & post & -> & Np & No). exists (x :: pre), post. repeat split; auto.
        intros [Z|Z]; [exact (Nx Z)|exact (Np Z)].
      - intros (pre & post & E & Np & No). destruct pre as [|y pre]; injection E as -> E; [left; reflexivity|].
        right. apply IH. exists pre, post. repeat split; auto. intros Z. apply Np. right. exact Z. }
    destruct x; try (apply K; discriminate). cbn [before_close]. split; [intros []|].
    intros (pre & post & E & Np & No). destruct pre as [|y pre]; injection E as E1 E2.
    + symmetry in E1. destruct (No E1).
    + apply Np. left. symmetry. exact E1.
Qed.

(* spelled out: a handler that sees its context cancelled either runs in a scenario with a stop cause (a Stop call or a
   fed Recv error), or a CancelRequest call names the non-empty id of a fed member with its params *)
Theorem cancel_cause_spelled c tr s oss p : run (init_of c) tr = Some (s, oss) ->
  In (OStart p true) (concat oss) \/ In (OGate p true) (concat oss) ->
  (exists n, In (LCallStop n) (env_of tr)) \/ (exists e, In (LFeed (FErr e)) (env_of tr)) \/
  exists m n, In m (fed_msgs (env_of tr)) /\ j_params m = p /\ idk m <> [] /\ In (LCallCancel n (idk m)) (env_of tr).
Proof.
  intros H Hp. apply in_cancelled_params in Hp.
  destruct (stop_in (env_of tr)) eqn:N.
  - apply existsb_exists in N as (l & Hl & Pl).
    destruct l as [|[| |e]| | | | | | | | | | | | | | | | |]; try discriminate Pl; [right; left; eauto|left; eauto].
  - right. right. pose proof (cancelled_has_cause _ _ _ _ _ H Hp N) as Cn.
    apply existsb_exists in Cn as (m & Im & Pm). unfold names_member in Pm.
    apply andb_true_iff in Pm as [Pm P3]. apply andb_true_iff in Pm as [P1 P2].
    apply beq_eq in P1. apply mem_bytes_in in P3. apply in_flat_map in P3 as (l & Hl & Il).
    destruct l; cbn in Il; try contradiction. destruct Il as [->|[]].
    exists m, n. repeat split; auto. intros Z. rewrite Z in P2. discriminate P2.
Qed.

(* with the harness's unique tokens: THE fed member with those params is the one named *)
Lemma unique_member (l : list jmsg) : nodupb (map j_params l) = true ->
  forall m m', In m l -> In m' l -> j_params m = j_params m' -> m = m'.
Proof.
  induction l as [|x l IH]; cbn [map nodupb]; intros U m m'; [intros []|].
  apply andb_true_iff in U as [U1 U2]. apply negb_true_iff in U1.
  assert (Nx : forall y, In y l -> j_params y <> j_params x).
  { intros y Hy E. assert (T : mem_bytes (j_params x) (map j_params l) = true).
    { apply mem_bytes_in. rewrite <- E. apply in_map. exact Hy. } congruence. }
  intros [<-|Hm] [<-|Hm'] E; auto.
  - symmetry in E. destruct (Nx _ Hm' E).
  - destruct (Nx _ Hm E).
Qed.

Lemma fed_params_msgs env : fed_params env = map j_params (fed_msgs env).
Proof.
  unfold fed_params, fed_msgs. induction env as [|l env IH]; auto. cbn [flat_map]. rewrite map_app, IH.
  destruct l; reflexivity.
Qed.

Theorem cancel_cause_unique c tr s oss p m : run (init_of c) tr = Some (s, oss) ->
  unique_params (env_of tr) = true -> stop_in (env_of tr) = false ->
  In (OStart p true) (concat oss) \/ In (OGate p true) (concat oss) ->
  In m (fed_msgs (env_of tr)) -> j_params m = p ->
  idk m <> [] /\ exists n, In (LCallCancel n (idk m)) (env_of tr).
Proof.
  intros H U N Hp Im Ep.
  destruct (cancel_cause_spelled _ _ _ _ _ H Hp) as [(n & Hn)|[(e & He)|(m' & n & Im' & Ep' & Ni & Hc)]].
  - pose proof (stop_label_in _ _ N Hn) as Z. discriminate Z.
  - pose proof (stop_label_in _ _ N He) as Z. discriminate Z.
  - unfold unique_params in U. rewrite fed_params_msgs in U.
    rewrite (unique_member _ U m m' Im Im') by congruence. split; eauto.
Qed.

(** * Examples *)
(* request "1" (token "[]") is in its handler; CancelRequest("1") is called and runs; the handler returns and reports
   its context as cancelled *)
Definition ex_tr_cancelled : list label :=
  ex_tr_running ++ [LCallCancel 7 [49%N]; LRelCancel 7; LGate [91;93]%N (OErr Cancelled s_ctx_canceled)].
(* the same handler, its context cancelled by Stop *)
Definition ex_tr_stop_cancelled : list label :=
  ex_tr_running ++ [LCallStop 3; LRelStop 3; LGate [91;93]%N (OErr Cancelled s_ctx_canceled)].

Example mon_cancel_cause_nonvacuous :
  run (init_of ex_cfg) ex_tr_cancelled <> None /\
  stop_in (env_of ex_tr_cancelled) = false /\
  cancelled_params (concat (obs_of ex_cfg ex_tr_cancelled)) = [[91;93]%N] /\
  cancel_ids (env_of ex_tr_cancelled) = [[49%N]] /\
  mon_cancel_cause (env_of ex_tr_cancelled) (concat (obs_of ex_cfg ex_tr_cancelled)) = true /\
  run (init_of ex_cfg) ex_tr_stop_cancelled <> None /\
  cancelled_params (concat (obs_of ex_cfg ex_tr_stop_cancelled)) = [[91;93]%N] /\
  stop_in (env_of ex_tr_stop_cancelled) = true /\
  mon_cancel_cause (env_of ex_tr_stop_cancelled) (concat (obs_of ex_cfg ex_tr_stop_cancelled)) = true.
Proof. vm_compute. repeat split; auto; discriminate. Qed.

(* sensitivity: a cancelled context although nobody cancelled anything; although another id was cancelled; although
   the id of a request with OTHER params was cancelled; fine when the id was cancelled, or - after the close of the
   channel - when the environment stopped the server (not before the close, and not without a stop cause), or when the
   context is not cancelled *)
Example mon_cancel_cause_sensitive :
  let fed := [LStart; LFeed (FMsg (InMsgs false [ex_call [49%N] [91;93]%N])); LFeed (FMsg (InMsgs false [ex_call [50%N] [91;49;93]%N]))] in
  mon_cancel_cause fed [OStart [91;93]%N false; OGate [91;93]%N true] = false /\
  mon_cancel_cause fed [OStart [91;93]%N true] = false /\
  mon_cancel_cause (fed ++ [LCallCancel 0 [51%N]]) [OGate [91;93]%N true] = false /\
  mon_cancel_cause (fed ++ [LCallCancel 0 [50%N]]) [OGate [91;93]%N true] = false /\
  mon_cancel_cause (fed ++ [LCallCancel 0 [49%N]]) [OGate [91;93]%N true] = true /\
  mon_cancel_cause (fed ++ [LCallStop 0]) [OClose; OGate [91;93]%N true] = true /\
  mon_cancel_cause (fed ++ [LFeed (FErr SCEOF)]) [OClose; OGate [91;93]%N true] = true /\
  mon_cancel_cause (fed ++ [LCallStop 0]) [OGate [91;93]%N true; OClose] = false /\
  mon_cancel_cause fed [OClose; OGate [91;93]%N true] = false /\
  mon_cancel_cause fed [OStart [91;93]%N false; OGate [91;93]%N false] = true /\
  mon_cancel_cause [LStart; LFeed (FMsg (InMsgs false [ex_note [91;93]%N])); LCallCancel 0 []] [OGate [91;93]%N true] = false.
Proof. vm_compute. repeat split; reflexivity. Qed.
