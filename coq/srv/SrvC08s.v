(* SrvC08s: the C08 statements in their published form (unfolded records, combined conjunctions). *)
From Coq Require Import List NArith ZArith Bool Arith Lia.
From RecordUpdate Require Import RecordUpdate.
From JV Require Import Bytes Msg SrvModel SrvLemmas SrvBasics SrvC01 SrvC08 SrvC08b SrvC08c.
Import ListNotations.

Theorem no_crash_invariants c s : reachf c s ->
  (running s = true -> work_closed s = false) /\
  (dp s = DExited \/ dp s = DNone -> inq s = [] /\ running s = false) /\
  (running s = false -> Forall (fun bm => exists m, snd bm = [m] /\ keep_note m = true) (inq s)) /\
  (forall u un, nth_error (units s) u = Some un -> u_chok un = false -> responses (unit_tasks s u) = []) /\
  nbar s = countb (pend (units s)) (tasks s).
Proof.
  intros R. destruct (reachf_inv8 _ _ R) as [Ic It N]. pose proof (reachf_inv _ _ R) as I.
  split; [apply Ic|]. split; [apply Ic|]. split; [apply Ic|]. split; [|exact N].
  intros u un E Ck. eapply nil_unit_silent; eauto.
Qed.

Theorem all_done_spec s : all_done s ->
  wg s = 0 /\ (rd s = RExited \/ rd s = RNone) /\ (dp s = DExited \/ dp s = DNone) /\
  (forall u un, nth_error (units s) u = Some un -> u_st un = UFinished) /\
  (forall k t, nth_error (tasks s) k = Some t -> finished t = true) /\
  inq s = [] /\ running s = false /\ used s = [] /\ sem_wait s = [] /\ nbar s = 0.
Proof. intros []. repeat split; auto. Qed.

Theorem notifications_kept_full c s l s' os : reach c s -> step s l = Some (s', os) ->
  running s = true -> running s' = false ->
  inq s' = stop_queue (inq s) /\
  (forall b m, In (b, [m]) (inq s') <-> exists ms, In (b, ms) (inq s) /\ In m ms /\ keep_note m = true) /\
  concat (map snd (inq s')) = queue_notes (inq s).
Proof.
  intros R H Rn Rn'. pose proof (notifications_kept_exact _ _ _ _ _ R H Rn Rn') as E. rewrite E.
  split; auto. split; [intros b m; apply in_stop_queue|apply stop_queue_order].
Qed.

Theorem fresh_fields_spec c s' : fresh_fields c s' ->
  running s' = true /\ stop_err s' = None /\ work_closed s' = false /\ wg s' = 2 /\ rd s' = RIdle /\
  dp s' = DAtNext /\ ch_in s' = [] /\ inq s' = [] /\ used s' = [] /\ sem_wait s' = [] /\ sem_free s' = cf_K c /\
  nbar s' = 0 /\ crash s' = None /\
  (forall u un, nth_error (units s') u = Some un -> u_st un = UFinished) /\
  (forall k t, nth_error (tasks s') k = Some t -> finished t = true) /\
  (forall id i, In (id, i) (calls s') ->
      exists cb0, nth_error (cbs s') i = Some cb0 /\ cb_id cb0 = id /\ cb_cancelled cb0 = true /\
                  cb_watch cb0 = WParked /\ cb_slot cb0 = None).
Proof. intros []. repeat split; auto. Qed.

Theorem restart_reachable c s : reach c s -> wg s = 0 -> running s = false -> reach c (started s).
Proof.
  intros R Z Rn. destruct (restart_fresh _ _ R Z Rn) as (St & _). eapply reach_step; eauto.
Qed.

(* the cause named by a stopping window: a Stop call, or the error the reader's Recv returned *)
Theorem stop_cause_spec s l k :
  stop_cause s l k <-> (exists n, l = LRelStop n /\ k = SCStop) \/ (l = LRelRead /\ rd s = RHold (FErr k)).
Proof.
  split.
  - intros [n|k0 H]; [left; eauto|right; auto].
  - intros [(n & -> & ->)|(-> & H)]; constructor; auto.
Qed.
