(* SrvC08v: C08.8 "after WaitStatus returns the same server can be started": the window in which a WaitStatus
   call returns ends in a state from which Start is enabled (and stays enabled until it is taken), and Start
   yields the fresh fields of [fresh_fields]. *)
From Coq Require Import List NArith ZArith Bool Arith Lia.
From RecordUpdate Require Import RecordUpdate.
From JV Require Import Bytes Msg SrvModel SrvLemmas SrvBasics SrvC01 SrvC07 SrvC09 SrvC10 SrvC08 SrvC08b SrvC08c SrvC08s SrvC08x.
Import ListNotations.

Theorem restart_after_wait c s l s' os r : reach c s -> step s l = Some (s', os) -> In (OWaitRet r) os ->
  r = stop_err s' /\ all_done s' /\ reach c s' /\
  step s' LStart = Some (started s', []) /\ fresh_fields c (started s') /\ reach c (started s') /\
  tasks (started s') = tasks s' /\ units (started s') = units s' /\ cbs (started s') = cbs s' /\
  starts (started s') = S (starts s') /\ closes (started s') = closes s'.
Proof.
  intros R H Hin. destruct (status _ _ _ _ _ _ R H Hin) as (Er & Z & Rn & _).
  destruct (wait_after_handlers _ _ _ _ _ _ R H Hin) as (Ad & _).
  assert (R' : reach c s') by (eapply reach_step; eauto).
  destruct (restart_fresh _ _ R' Z Rn) as (A & B & C & D & E & _ & F & G).
  pose proof (restart_reachable _ _ R' Z Rn) as Rs.
  split; [exact Er|]. split; [exact Ad|]. split; [exact R'|]. split; [exact A|]. split; [exact B|]. split; [exact Rs|].
  repeat split; assumption.
Qed.

(* Start stays enabled, with the same outcome, whatever else happens before it *)
Lemma idle_run c : forall tr s s' oss, reach c s -> wg s = 0 -> running s = false -> run s tr = Some (s', oss) ->
  ~ In LStart tr -> wg s' = 0 /\ running s' = false /\ tasks s' = tasks s /\ units s' = units s.
Proof.
  induction tr as [|l r IH]; cbn; intros s s' oss R Z Rn H Ns.
  - injection H as <- _. auto.
  - destruct (step s l) as [[s1 os]|] eqn:E; [|discriminate].
    destruct (run s1 r) as [[s2 oss2]|] eqn:E2; [|discriminate]. injection H as <- _.
    destruct (idle_until_start _ _ _ _ _ R Z E (fun X => Ns (or_introl X))) as (Z1 & T1 & U1 & (Rn1 & _)).
    destruct (IH _ _ _ (reach_step _ _ _ _ _ R E) Z1 (eq_trans Rn1 Rn) E2 (fun X => Ns (or_intror X))) as (A & B & C & D).
    repeat split; congruence.
Qed.

Theorem restart_after_wait_trace c s l s1 os r tr s2 oss : reach c s -> step s l = Some (s1, os) ->
  In (OWaitRet r) os -> run s1 tr = Some (s2, oss) -> ~ In LStart tr ->
  step s2 LStart = Some (started s2, []) /\ fresh_fields c (started s2) /\ reach c (started s2) /\
  tasks (started s2) = tasks s1 /\ units (started s2) = units s1.
Proof.
  intros R H Hin Hr Ns. destruct (status _ _ _ _ _ _ R H Hin) as (_ & Z & Rn & _).
  assert (R1 : reach c s1) by (eapply reach_step; eauto).
  destruct (idle_run c _ _ _ _ R1 Z Rn Hr Ns) as (Z2 & Rn2 & T2 & U2).
  assert (R2 : reach c s2) by (eapply run_reach; eauto).
  destruct (restart_fresh _ _ R2 Z2 Rn2) as (A & B & C & D & _).
  pose proof (restart_reachable _ _ R2 Z2 Rn2) as Rs.
  split; [exact A|]. split; [exact B|]. split; [exact Rs|]. split; congruence.
Qed.

(* WaitStatus returns in the window in which the reader sees EOF; then Start, and a call is served *)
Example restart_after_wait_nonvacuous :
  exists s s' os, reach ex_cfg s /\ step s LRelRead = Some (s', os) /\ In (OWaitRet (Some SCEOF)) os /\
    step s' LStart = Some (st_of ex_cfg tr_restart, []) /\
    run (st_of ex_cfg tr_restart) (skipn 6 tr_restart_served) <> None.
Proof.
  exists (st_of ex_cfg tr_before_eof). eexists _, _. split; [reach_ex|].
  split; [vm_compute; reflexivity|]. split; [vm_compute; tauto|]. split; [vm_compute; reflexivity|].
  vm_compute. discriminate.
Qed.
