(* SrvHist: the dispatch units of the server are the accepted inbound messages, first in first out.

   Ghost history.  [accepted s tr] replays the label sequence [tr] from [s] with the model's own
   functions and records, in the order in which it happens, what every reader window appended to
   the work queue [inq]: the batch flag of the inbound record and the members that survive
   [filter_batch] (requests and notifications; replies are routed to callbacks and dropped).
   The history is ghost: it is computed from the run, no transition reads it.

   [alog s tr acc] is the same log with the effect of a stop written out: a window in which the
   server goes from running to stopped keeps the entries that were already dispatched
   (one per dispatch unit) and rewrites the still queued ones with [stop_queue], as stopLocked does
   (each retained notification becomes a message of its own).

   Invariant ([hist_ok]): log = (one entry per dispatch unit, in order, with the unit's batch flag and
   the id, method and params of its tasks in order) ++ work queue. *)
From Coq Require Import List NArith ZArith Bool Arith Lia.
From RecordUpdate Require Import RecordUpdate.
From JV Require Import Bytes Msg SrvModel SrvLemmas SrvBasics SrvC07 SrvC01 SrvC08.
Import ListNotations.

(** * members *)
Definition member := (bytes * bytes * bytes)%type.     (* id after fixID, method, params *)
Definition jmem (m : jmsg) : member := (fix_id (j_id m), j_method m, j_params m).
Definition tmem (t : task) : member := (t_id t, t_method t, t_params t).
Definition qmem (bm : bool * list jmsg) : bool * list member := (fst bm, map jmem (snd bm)).

(* the dispatch units of a state as messages: batch flag and members in request order *)
Fixpoint uhist (ts : list task) (i : nat) (us : list unit_) : list (bool * list member) :=
  match us with
  | [] => []
  | un :: r => (u_batch un, map tmem (filter (fun t => t_unit t =? i) ts)) :: uhist ts (S i) r
  end.
Definition unit_hist (s : state) : list (bool * list member) := uhist (tasks s) 0 (units s).

(** * the ghost log *)
Definition acc_msg (s : state) (i : inbound) : list (bool * list jmsg) :=
  match i with
  | InMsgs b (m :: ms) =>
      match filter_batch (m :: ms) s [] [] with
      | (_, [], _) => []
      | (_, keep, _) => [(b, keep)]
      end
  | _ => []
  end.

(* what the window of label l, taken in state s, appends to the work queue *)
Definition acc_raw (s : state) (l : label) : list (bool * list jmsg) :=
  match l with
  | LRelRead =>
      if running s then
        match rd s with
        | RHold (FMsg i) | RHold (FMsgEOF i) => acc_msg s i
        | _ => []
        end
      else []
  | _ => []
  end.

Fixpoint accepted (s : state) (tr : list label) : list (bool * list jmsg) :=
  match tr with
  | [] => []
  | l :: r => match step s l with
              | Some (s1, _) => acc_raw s l ++ accepted s1 r
              | None => []
              end
  end.

(* a window that stops the server: it was running before and is not after *)
Definition stop_window (s s1 : state) : bool := running s && negb (running s1).

Fixpoint stop_free (s : state) (tr : list label) : bool :=
  match tr with
  | [] => true
  | l :: r => match step s l with
              | Some (s1, _) => negb (stop_window s s1) && stop_free s1 r
              | None => true
              end
  end.

Definition alog_step (s : state) (l : label) (s1 : state) (acc : list (bool * list jmsg)) : list (bool * list jmsg) :=
  if stop_window s s1
  then firstn (length (units s)) acc ++ stop_queue (skipn (length (units s)) acc)
  else acc ++ acc_raw s l.

Fixpoint alog (s : state) (tr : list label) (acc : list (bool * list jmsg)) : list (bool * list jmsg) :=
  match tr with
  | [] => acc
  | l :: r => match step s l with
              | Some (s1, _) => alog s1 r (alog_step s l s1 acc)
              | None => acc
              end
  end.

Lemma alog_stop_free : forall tr s acc, stop_free s tr = true -> alog s tr acc = acc ++ accepted s tr.
Proof.
  induction tr as [|l r IH]; intros s acc H; cbn in *; [rewrite app_nil_r; auto|].
  destruct (step s l) as [[s1 os]|]; [|rewrite app_nil_r; auto].
  apply andb_true_iff in H as [H1 H2]. apply negb_true_iff in H1.
  rewrite (IH _ _ H2). unfold alog_step. rewrite H1. rewrite app_assoc. reflexivity.
Qed.

Lemma accepted_app : forall tr1 s tr2 s1 oss, run s tr1 = Some (s1, oss) ->
  accepted s (tr1 ++ tr2) = accepted s tr1 ++ accepted s1 tr2.
Proof.
  induction tr1 as [|l r IH]; intros s tr2 s1 oss H; cbn in *.
  - injection H as <- _. reflexivity.
  - destruct (step s l) as [[s0 os]|]; [|discriminate].
    destruct (run s0 r) as [[s2 oss2]|] eqn:Rn; [|discriminate]. injection H as <- _.
    rewrite (IH _ tr2 _ _ Rn). rewrite app_assoc. reflexivity.
Qed.

(** * list facts *)
Lemma list_ext_forall2 {A} (R : A -> A -> Prop) : forall l l', list_ext R l l' -> length l' = length l -> Forall2 R l l'.
Proof.
  induction l as [|x l IH]; intros [|y l'] X L; cbn in L; try discriminate; constructor.
  - destruct (X 0 x eq_refl) as (y' & E & Rxy). cbn in E. injection E as <-. auto.
  - apply IH; [|lia]. intros k a E. apply (X (S k) a E).
Qed.

Lemma uhist_length ts : forall us i, length (uhist ts i us) = length us.
Proof. induction us as [|un r IH]; intros i; cbn; auto. Qed.

Lemma uhist_app ts : forall us i r, uhist ts i (us ++ r) = uhist ts i us ++ uhist ts (i + length us) r.
Proof.
  induction us as [|un us IH]; intros i r; cbn.
  - rewrite Nat.add_0_r. auto.
  - rewrite IH. replace (S i + length us) with (i + S (length us)) by lia. auto.
Qed.

Lemma uhist_nth ts : forall us i u un, nth_error us u = Some un ->
  nth_error (uhist ts i us) u = Some (u_batch un, map tmem (filter (fun t => t_unit t =? i + u) ts)).
Proof.
  induction us as [|x us IH]; intros i [|u] un E; cbn in *; try discriminate.
  - injection E as ->. rewrite Nat.add_0_r. auto.
  - rewrite (IH (S i) u un E). replace (S i + u) with (i + S u) by lia. auto.
Qed.

Lemma unit_hist_nth s u un : nth_error (units s) u = Some un ->
  nth_error (unit_hist s) u = Some (u_batch un, map tmem (unit_tasks s u)).
Proof. intros E. unfold unit_hist. rewrite (uhist_nth _ _ 0 u un E). reflexivity. Qed.

Lemma unit_hist_length s : length (unit_hist s) = length (units s).
Proof. apply uhist_length. Qed.

(* the members of a unit depend only on the immutable fields of the tasks *)
Definition same_mem (t t' : task) : Prop := t_unit t' = t_unit t /\ tmem t' = tmem t.

Lemma filter_mem_ext i : forall ts ts', Forall2 same_mem ts ts' ->
  map tmem (filter (fun t => t_unit t =? i) ts') = map tmem (filter (fun t => t_unit t =? i) ts).
Proof.
  induction 1 as [|t t' ts ts' [Eu Em] _ IH]; cbn; auto.
  rewrite Eu. destruct (t_unit t =? i); cbn; congruence.
Qed.

Lemma uhist_ext ts ts' : Forall2 same_mem ts ts' -> forall us us' i,
  Forall2 (fun u u' => u_batch u' = u_batch u) us us' -> uhist ts' i us' = uhist ts i us.
Proof.
  intros T us us' i U. revert i. induction U as [|u u' us us' Eb _ IH]; intros i; cbn; auto.
  rewrite Eb, (filter_mem_ext i _ _ T), IH. reflexivity.
Qed.

Lemma task_le_same_mem t t' : task_le t t' -> same_mem t t'.
Proof. intros [Lu Li Lm Lp _ _ _ _ _]. split; auto. unfold tmem. congruence. Qed.

Lemma forall2_impl {A} (P Q : A -> A -> Prop) l l' : (forall x y, P x y -> Q x y) -> Forall2 P l l' -> Forall2 Q l l'.
Proof. intros H. induction 1; constructor; auto. Qed.

(* a step that neither creates tasks nor units keeps the unit history *)
Lemma unit_hist_stable s s' : ext s s' -> length (tasks s') = length (tasks s) -> length (units s') = length (units s) ->
  unit_hist s' = unit_hist s.
Proof.
  intros [X U] Lt Lu. unfold unit_hist. apply uhist_ext.
  - apply (forall2_impl task_le); [apply task_le_same_mem|]. apply list_ext_forall2; auto.
  - apply (forall2_impl unit_le); [intros x y []; auto|]. apply list_ext_forall2; auto.
Qed.

(** * mk_task keeps the member *)
Lemma mk_task_mem s u ids m : tmem (mk_task s u ids m) = jmem m.
Proof.
  unfold mk_task, tmem, jmem. destruct (pre_err s ids m); cbn; auto. destruct (is_nil (j_method m)); cbn; auto.
  destruct (assign_method s (j_method m)); cbn; auto.
Qed.

Lemma filter_all {A} (p : A -> bool) l : (forall x, In x l -> p x = true) -> filter p l = l.
Proof.
  induction l as [|x r IH]; cbn; auto. intros H. rewrite (H x (or_introl eq_refl)). f_equal. apply IH. auto.
Qed.

(* nextRequest: the head of the queue becomes the next dispatch unit *)
Lemma dequeue_hist s b ms q : inv s -> inq s = (b, ms) :: q ->
  unit_hist (dequeue s) = unit_hist s ++ [qmem (b, ms)] /\ inq (dequeue s) = q.
Proof.
  intros I Q. unfold dequeue. rewrite Q. cbn. split; auto.
  unfold unit_hist. cbn. rewrite uhist_app. cbn.
  set (new := map (mk_task s (length (units s)) (map (fun m => fix_id (j_id m)) ms)) ms).
  f_equal.
  - (* old units: the new tasks belong to the new unit *)
    assert (G : forall us i, i + length us <= length (units s) -> uhist (tasks s ++ new) i us = uhist (tasks s) i us).
    { induction us as [|un us IH]; intros i L; cbn in *; auto.
      rewrite IH by lia. rewrite filter_app. rewrite (filter_none _ new), app_nil_r; auto.
      intros t Ht. apply in_map_iff in Ht as (m & <- & _). rewrite mk_task_unit. apply Nat.eqb_neq. lia. }
    apply G. lia.
  - (* the new unit: no old task, all new ones, members unchanged *)
    rewrite filter_app. rewrite (filter_none _ (tasks s)).
    + cbn. rewrite filter_all.
      * unfold qmem, new. cbn. rewrite map_map. f_equal. f_equal. apply map_ext. intros m. apply mk_task_mem.
      * intros t Ht. apply in_map_iff in Ht as (m & <- & _). rewrite mk_task_unit. apply Nat.eqb_refl.
    + intros t Ht. apply In_nth_error in Ht as [k Ek]. pose proof (i_unit _ I _ _ Ek). apply Nat.eqb_neq. lia.
Qed.

Lemma dequeue_empty s : inq s = [] -> unit_hist (dequeue s) = unit_hist s /\ inq (dequeue s) = [].
Proof. intros Q. unfold dequeue. rewrite Q. destruct (running s); cbn; auto. Qed.

Lemma dequeue_running s : running (dequeue s) = running s.
Proof. unfold dequeue. destruct (inq s) as [|[b ms] q]; [destruct (running s) eqn:R; cbn; auto|reflexivity]. Qed.

(** * the invariant *)
Definition hist_ok (s : state) (acc : list (bool * list jmsg)) : Prop :=
  exists done, acc = done ++ inq s /\ map qmem done = unit_hist s.

Lemma hist_ok_init c : hist_ok (init_of c) [].
Proof. exists []. split; reflexivity. Qed.

Lemma hist_dequeue s acc : inv s -> hist_ok s acc -> hist_ok (dequeue s) acc.
Proof.
  intros I (done & -> & Hd). destruct (inq s) as [|[b ms] q] eqn:Q.
  - destruct (dequeue_empty s Q) as [Hu Hq]. exists done. rewrite Hq, Hu. auto.
  - destruct (dequeue_hist s b ms q I Q) as [Hu Hq]. exists (done ++ [(b, ms)]). rewrite Hq, Hu. split.
    + rewrite <- app_assoc. reflexivity.
    + rewrite map_app, Hd. reflexivity.
Qed.

Lemma hist_same s s' acc extra : hist_ok s acc -> unit_hist s' = unit_hist s -> inq s' = inq s ++ extra ->
  hist_ok s' (acc ++ extra).
Proof.
  intros (done & -> & Hd) Hu Hq. exists done. rewrite Hq, Hu. split; auto. rewrite app_assoc. reflexivity.
Qed.

Lemma hist_stop s s' acc : hist_ok s acc -> unit_hist s' = unit_hist s -> inq s' = stop_queue (inq s) ->
  hist_ok s' (firstn (length (units s)) acc ++ stop_queue (skipn (length (units s)) acc)).
Proof.
  intros (done & -> & Hd) Hu Hq.
  assert (L : length done = length (units s)).
  { rewrite <- unit_hist_length, <- Hd, map_length. auto. }
  rewrite <- L, firstn_app, skipn_app, Nat.sub_diag, firstn_all, skipn_all. cbn. rewrite app_nil_r.
  exists done. rewrite Hq, Hu. auto.
Qed.

(** * the reader's critical section *)
Lemma read_cs_inq f i s s' os : f = FMsg i \/ f = FMsgEOF i -> running s = true ->
  read_cs f s = (s', os) -> inq s' = inq s ++ acc_msg s i.
Proof.
  intros Hf R H.
  assert (H' : (match i with
           | InBad => let '(s', os) := push_error s ParseError s_invalid_value in (s' <| rd := RIdle |>, os)
           | InMsgs _ [] => let '(s', os) := push_error s InvalidRequest s_empty_batch in (s' <| rd := RIdle |>, os)
           | InMsgs b ms =>
               let '(s1, keep, os) := filter_batch ms s [] [] in
               match keep with
               | [] => (s1 <| rd := RIdle |>, os)
               | _ => let s2 := s1 <| inq ::= fun q => q ++ [(b, keep)] |> <| rd := RIdle |> in
                      if work_closed s2 && (length (inq s2) =? 1)
                      then (s2 <| crash := Some CrSendOnClosedWork |>, os ++ [OCrash CrSendOnClosedWork])
                      else (s2, os)
               end
           end) = (s', os)).
  { destruct Hf as [-> | ->]; unfold read_cs in H; rewrite R in H; exact H. }
  clear H. destruct i as [|b ms].
  - cbn in H'. injection H' as <- <-. cbn. rewrite app_nil_r. auto.
  - destruct ms as [|m ms].
    + cbn in H'. injection H' as <- <-. cbn. rewrite app_nil_r. auto.
    + unfold acc_msg. destruct (filter_batch (m :: ms) s [] []) as [[s1 keep] os1] eqn:F.
      apply filter_batch_core in F as [_ F]. unfold core_nord in F.
      injection F as T U Us W Fr D G Rn B Iq Cr Wc Sf Cp Op.
      destruct keep as [|k0 kr].
      * injection H' as <- <-. cbn. rewrite app_nil_r. auto.
      * cbv zeta in H'.
        match type of H' with (if ?c then _ else _) = _ => destruct c end;
          injection H' as <- <-; cbn; congruence.
Qed.

(** * one critical section *)
Lemma stop_hist s s1 : running s = true -> ext s s1 -> running s1 = false ->
  length (tasks s1) = length (tasks s) -> units s1 = units s -> inq s1 = stop_queue (inq s) ->
  stop_window s s1 = true /\ unit_hist s1 = unit_hist s /\ inq s1 = stop_queue (inq s).
Proof.
  intros R X R1 L U Q. unfold stop_window. rewrite R, R1. split; auto. split; auto.
  apply unit_hist_stable; auto; congruence.
Qed.

Lemma hist_raw s l s1 os acc : inv s -> step_raw s l = Some (s1, os) -> hist_ok s acc ->
  hist_ok s1 (alog_step s l s1 acc).
Proof.
  intros I H Hk. destruct (raw_step_ok _ _ _ _ I H) as [_ X]. unfold alog_step.
  assert (Same : running s1 = running s -> inq s1 = inq s ++ acc_raw s l ->
                 length (tasks s1) = length (tasks s) -> length (units s1) = length (units s) ->
                 hist_ok s1 (if stop_window s s1 then firstn (length (units s)) acc ++ stop_queue (skipn (length (units s)) acc)
                             else acc ++ acc_raw s l)).
  { intros Rn Q Lt Lu. unfold stop_window. rewrite Rn. destruct (running s); cbn [andb negb];
      apply (hist_same s); auto; apply unit_hist_stable; auto. }
  assert (Same0 : acc_raw s l = [] -> running s1 = running s -> inq s1 = inq s ->
                 length (tasks s1) = length (tasks s) -> length (units s1) = length (units s) ->
                 hist_ok s1 (if stop_window s s1 then firstn (length (units s)) acc ++ stop_queue (skipn (length (units s)) acc)
                             else acc ++ acc_raw s l)).
  { intros Z Rn Q Lt Lu. apply Same; auto. rewrite Z, app_nil_r. auto. }
  assert (Stop : running s = true -> running s1 = false ->
                 length (tasks s1) = length (tasks s) -> units s1 = units s -> inq s1 = stop_queue (inq s) ->
                 hist_ok s1 (if stop_window s s1 then firstn (length (units s)) acc ++ stop_queue (skipn (length (units s)) acc)
                             else acc ++ acc_raw s l)).
  { intros R R1 L U Q. destruct (stop_hist s s1 R X R1 L U Q) as (W & Hu & Hq). rewrite W.
    apply hist_stop; auto. }
  destruct l.
  10:{ (* LRelRead *)
    unfold step_raw in H. destruct (rd s) as [| |f|] eqn:Rd; try discriminate. injection H as H.
    assert (Rc : {running s = true} + {running s = false}) by (destruct (running s); auto).
    destruct Rc as [Rn|Rn].
    2:{ assert (E1 : s1 = s <| rd := RExited |> <| wg ::= pred |>).
        { destruct f as [i|i|c]; cbn in H; rewrite ?Rn in H; cbn in H; try (injection H as <- _; reflexivity).
          unfold stop_locked in H. rewrite Rn in H. cbn in H. injection H as <- _. reflexivity. }
        subst s1. apply Same; auto. unfold acc_raw. rewrite Rn. cbn. rewrite app_nil_r. auto. }
    destruct f as [i|i|c].
    3:{ cbn in H. destruct (stop_locked c s) as [s0 os0] eqn:St. injection H as <- <-.
        apply stop_locked_run in St as [_ P]; auto.
        destruct P. apply Stop; cbn; auto. }
    all: pose proof (read_cs_msg _ i s s1 os ltac:(auto) Rn H) as (C0 & _).
    all: pose proof (read_cs_inq _ i s s1 os ltac:(auto) Rn H) as Q.
    all: unfold core0 in C0; injection C0 as T U _ _ _ _ _ Rn' _.
    all: apply Same; auto; try congruence.
    all: unfold acc_raw; rewrite Rn, Rd; auto. }
  all: pose proof (raw_ctl _ _ _ _ I H) as Ce.
  all: destruct Ce as [El Rn Wg Es|c0 s0 s2 Sc Rn Hs0 P Es|f0 El Rd Rn Es|f0 i0 El Rd Hf Rn S5 C0 Ri Wa Hq|El D Es|u0 El D Es
                      |u0 un s2 El Eu Su Es2 Es|S5 Cp Wa Hx Lt]; try discriminate El.
  all: try (inversion Sc; fail).
  all: try (destruct S5 as (R5 & _); unfold ctlp in Cp; injection Cp as _ Q _ _ U;
            apply Same0; [reflexivity|congruence|congruence|auto|congruence]; fail).
  - (* LStart *) subst s1. unfold stop_window. rewrite Rn. cbn [andb]. apply (hist_same s); auto. cbn. rewrite app_nil_r. auto.
  - (* LRelNext *) subst s1. unfold stop_window. rewrite dequeue_running. rewrite andb_negb_r. cbn [acc_raw]. rewrite app_nil_r.
    apply hist_dequeue; auto.
  - (* LRelBarrier *) subst s1. apply Same0; auto.
  - (* LRelDeliver *)
    injection El as <-.
    destruct (release_ids_spec (unit_tasks s u) s) as [_ _ L (Eun & _ & _ & _ & Rn & _ & Q & _) _ _ _].
    rewrite <- Es2 in *.
    destruct Es as [(_ & ->)|(_ & ->)]; apply Same0; cbn; rewrite ?upd_nth_length; auto; congruence.
  - (* LRelStop, running *)
    destruct Es as [->|(El & _)]; [|discriminate El].
    destruct P. destruct Hs0 as [->|(n' & ->)]; apply Stop; cbn in *; auto.
Qed.

(** * settling *)
Lemma settle1_running s s' os : settle1 s = Some (s', os) -> running s' = running s.
Proof. intros H. apply settle1_inv in H. destruct H; cbn; auto. apply dequeue_running. Qed.

Lemma settle_running : forall fuel s acc s' os, settle fuel s acc = (s', os) -> running s' = running s.
Proof.
  induction fuel as [|f IH]; cbn; intros s acc s' os H.
  - injection H as <- _. auto.
  - destruct (settle1 s) as [[s1 os1]|] eqn:E.
    + rewrite (IH _ _ _ _ H). eapply settle1_running; eauto.
    + injection H as <- _. auto.
Qed.

Lemma hist_settle1 s s' os acc : inv s -> settle1 s = Some (s', os) -> hist_ok s acc -> hist_ok s' acc.
Proof.
  intros I H Hk. destruct (settle1_ok _ _ _ I H) as [_ X].
  assert (Same : inq s' = inq s -> length (tasks s') = length (tasks s) -> length (units s') = length (units s) ->
                 hist_ok s' acc).
  { intros Q Lt Lu. rewrite <- (app_nil_r acc). apply (hist_same s); auto.
    - apply unit_hist_stable; auto.
    - rewrite app_nil_r. auto. }
  apply settle1_inv in H. destruct H; try (apply Same; cbn; rewrite ?upd_nth_length; auto; fail).
  apply hist_dequeue; auto.
Qed.

Lemma hist_settle c : forall fuel s a s' os acc, reachf c s -> settle fuel s a = (s', os) -> hist_ok s acc -> hist_ok s' acc.
Proof.
  induction fuel as [|f IH]; cbn; intros s a s' os acc R H Hk.
  - injection H as <- _. auto.
  - destruct (settle1 s) as [[s1 os1]|] eqn:E.
    + eapply IH; [|exact H|]; [eapply rf_settle; eauto|]. eapply hist_settle1; eauto. eapply reachf_inv; eauto.
    + injection H as <- _. auto.
Qed.

(** * windows and traces *)
Lemma hist_step c s l s' os acc : reachf c s -> step s l = Some (s', os) -> hist_ok s acc ->
  hist_ok s' (alog_step s l s' acc).
Proof.
  intros R H Hk. pose proof (reachf_inv _ _ R) as I.
  apply step_decompose in H as (Cr & s1 & os1 & Hr & [(_ & -> & _)|(_ & Hs)]).
  - eapply hist_raw; eauto.
  - assert (E : alog_step s l s' acc = alog_step s l s1 acc).
    { unfold alog_step, stop_window. rewrite (settle_running _ _ _ _ _ Hs). reflexivity. }
    rewrite E. eapply hist_settle; [|exact Hs|]; [eapply rf_raw; eauto|]. eapply hist_raw; eauto.
Qed.

Lemma hist_run c : forall tr s s' oss acc, reachf c s -> run s tr = Some (s', oss) -> hist_ok s acc ->
  hist_ok s' (alog s tr acc).
Proof.
  induction tr as [|l r IH]; cbn; intros s s' oss acc R H Hk.
  - injection H as <- _. auto.
  - destruct (step s l) as [[s1 os]|] eqn:E; [|discriminate].
    destruct (run s1 r) as [[s2 oss2]|] eqn:E2; [|discriminate]. injection H as <- _.
    eapply IH; [|exact E2|]; [eapply step_reachf; eauto|]. eapply hist_step; eauto.
Qed.

(** * Theorems *)
(* every trace: the log, with stops applied, is the dispatched units followed by the work queue *)
Theorem hist_units_fifo c tr s oss : run (init_of c) tr = Some (s, oss) ->
  exists done, alog (init_of c) tr [] = done ++ inq s /\ map qmem done = unit_hist s.
Proof. intros H. apply (hist_run c tr _ _ _ [] (rf_init c) H (hist_ok_init c)). Qed.

(* no stop so far: the dispatch units and the queue are exactly what the reader accepted, in that order *)
Theorem units_are_accepted_fifo c tr s oss : run (init_of c) tr = Some (s, oss) -> stop_free (init_of c) tr = true ->
  unit_hist s ++ map qmem (inq s) = map qmem (accepted (init_of c) tr).
Proof.
  intros H Sf. destruct (hist_units_fifo c tr s oss H) as (done & E & Hd).
  rewrite alog_stop_free in E by auto. cbn in E. rewrite E, map_app, Hd. reflexivity.
Qed.

(* every reachable state is the end of a trace *)
Lemma run_app_fwd : forall tr1 s s1 oss1 tr2 s2 oss2, run s tr1 = Some (s1, oss1) -> run s1 tr2 = Some (s2, oss2) ->
  run s (tr1 ++ tr2) = Some (s2, oss1 ++ oss2).
Proof.
  induction tr1 as [|l r IH]; cbn; intros s s1 oss1 tr2 s2 oss2 H1 H2.
  - injection H1 as <- <-. auto.
  - destruct (step s l) as [[s0 os]|]; [|discriminate].
    destruct (run s0 r) as [[sa ossa]|] eqn:E; [|discriminate]. injection H1 as <- <-.
    rewrite (IH _ _ _ _ _ _ E H2). reflexivity.
Qed.

Lemma reach_trace c s : reach c s -> exists tr oss, run (init_of c) tr = Some (s, oss).
Proof.
  induction 1 as [|s l s' os R (tr & oss & IH) H].
  - exists [], []. reflexivity.
  - exists (tr ++ [l]), (oss ++ [os]). eapply run_app_fwd; eauto. cbn. rewrite H. reflexivity.
Qed.

Lemma reach_hist c s : reach c s -> exists done, map qmem done = unit_hist s.
Proof.
  intros R. destruct (reach_trace c s R) as (tr & oss & H).
  destruct (hist_units_fifo c tr s oss H) as (done & _ & Hd). eauto.
Qed.

(* one window, from any reachable state: a stop rewrites the queue with stop_queue (the dispatched units stay),
   any other window appends what its reader accepted; nextRequest moves the head of the queue to a new unit *)
Theorem hist_window c s l s' os : reach c s -> step s l = Some (s', os) ->
  unit_hist s' ++ map qmem (inq s') =
  unit_hist s ++ map qmem (if stop_window s s' then stop_queue (inq s) else inq s ++ acc_raw s l).
Proof.
  intros R H. destruct (reach_hist c s R) as (done & Hd). apply reach_reachf in R.
  assert (Hk : hist_ok s (done ++ inq s)) by (exists done; auto).
  assert (L : length done = length (units s)) by (rewrite <- unit_hist_length, <- Hd, map_length; auto).
  destruct (hist_step c s l s' os _ R H Hk) as (done' & E & Hd').
  rewrite <- Hd', <- map_app, <- E, <- Hd, <- map_app. f_equal.
  unfold alog_step. destruct (stop_window s s').
  - rewrite <- L, firstn_app, skipn_app, Nat.sub_diag, firstn_all, skipn_all. cbn. rewrite app_nil_r. reflexivity.
  - rewrite app_assoc. reflexivity.
Qed.

(* what stop_queue leaves: one message per retained notification *)
Theorem stop_queue_singletons q :
  Forall (fun bm => exists m, snd bm = [m] /\ keep_note m = true) (stop_queue q).
Proof. exact (stop_queue_kept q). Qed.

(* which windows stop the server *)
Theorem stop_window_label c s l s' os : reach c s -> step s l = Some (s', os) -> stop_window s s' = true ->
  (exists n, l = LRelStop n) \/ (l = LRelRead /\ exists e, rd s = RHold (FErr e)).
Proof.
  intros R H W. apply reach_reachf in R. pose proof (reachf_inv _ _ R) as I.
  unfold stop_window in W. apply andb_true_iff in W as [R0 R1]. apply negb_true_iff in R1.
  apply step_decompose in H as (Cr & s1 & os1 & Hr & Hs).
  assert (R1' : running s1 = false).
  { destruct Hs as [(_ & -> & _)|(_ & Hs)]; auto. rewrite <- (settle_running _ _ _ _ _ Hs). auto. }
  pose proof (raw_ctl _ _ _ _ I Hr) as Ce.
  destruct Ce as [El Rn Wg Es|c0 s0 s2 Sc Rn Hs0 P Es|f0 El Rd Rn Es|f0 i0 El Rd Hf Rn S5 C0 Ri Wa Hq|El D Es|u0 El D Es
                 |u0 un s2 El Eu Su Es2 Es|S5 Cp Wa Hx Lt]; try congruence.
  - destruct Sc; [left; eauto|right; eauto].
  - destruct S5 as (R5 & _). congruence.
  - subst s1. rewrite dequeue_running in R1'. congruence.
  - subst s1. cbn in R1'. congruence.
  - destruct (release_ids_spec (unit_tasks s u0) s) as [_ _ _ (_ & _ & _ & _ & Rn & _) _ _ _].
    rewrite <- Es2 in *. destruct Es as [(_ & ->)|(_ & ->)]; cbn in R1'; congruence.
  - destruct S5 as (R5 & _). congruence.
Qed.

(** * Non-vacuity *)
(* two batches are accepted; the first has been dispatched, the second is still queued *)
Definition ex_tr_fifo : list label :=
  [LStart; LFeed (FMsg (InMsgs true [ex_call [49%N] []; ex_note []])); LRelRead;
   LFeed (FMsg (InMsgs true [ex_note [91;93]%N; ex_call [50%N] []; ex_note [123;125]%N])); LRelRead; LRelNext].

Example units_are_accepted_fifo_nonvacuous :
  run (init_of ex_cfg) ex_tr_fifo <> None /\ stop_free (init_of ex_cfg) ex_tr_fifo = true /\
  map qmem (accepted (init_of ex_cfg) ex_tr_fifo) =
    [(true, [([49%N], ex_m, []); ([], ex_m, [])]);
     (true, [([], ex_m, [91;93]%N); ([50%N], ex_m, []); ([], ex_m, [123;125]%N)])] /\
  unit_hist (st_of ex_cfg ex_tr_fifo) = [(true, [([49%N], ex_m, []); ([], ex_m, [])])] /\
  length (inq (st_of ex_cfg ex_tr_fifo)) = 1.
Proof. vm_compute. repeat split; auto. discriminate. Qed.

(* then the server is stopped: the queued batch is rewritten to its two notifications, one message each *)
Definition ex_tr_stopq : list label := ex_tr_fifo ++ [LCallStop 3; LRelStop 3].

Example hist_units_fifo_stop_nonvacuous :
  run (init_of ex_cfg) ex_tr_stopq <> None /\ stop_free (init_of ex_cfg) ex_tr_stopq = false /\
  map qmem (alog (init_of ex_cfg) ex_tr_stopq []) =
    [(true, [([49%N], ex_m, []); ([], ex_m, [])]);
     (true, [([], ex_m, [91;93]%N)]); (true, [([], ex_m, [123;125]%N)])] /\
  map qmem (inq (st_of ex_cfg ex_tr_stopq)) = [(true, [([], ex_m, [91;93]%N)]); (true, [([], ex_m, [123;125]%N)])].
Proof. vm_compute. repeat split; auto. discriminate. Qed.

Example hist_window_stop_nonvacuous :
  exists s s' os, reach ex_cfg s /\ step s (LRelStop 3) = Some (s', os) /\ stop_window s s' = true /\ length (inq s) = 1.
Proof.
  exists (st_of ex_cfg (ex_tr_fifo ++ [LCallStop 3])). eexists _, _.
  split; [apply reach_st_of; vm_compute; discriminate|]. vm_compute. repeat split; reflexivity.
Qed.

(** * Consequences: unit number = arrival index *)
(* dispatch unit number u is entry number u of the log: same batch flag, same members in the same order *)
Theorem alog_unit c tr s oss u un : run (init_of c) tr = Some (s, oss) -> nth_error (units s) u = Some un ->
  exists ms, nth_error (alog (init_of c) tr []) u = Some (u_batch un, ms) /\ map jmem ms = map tmem (unit_tasks s u).
Proof.
  intros H E. destruct (hist_units_fifo c tr s oss H) as (done & Ea & Hd).
  pose proof (unit_hist_nth s u un E) as Hn. rewrite <- Hd, nth_error_map in Hn.
  destruct (nth_error done u) as [[b ms]|] eqn:Ed; [|discriminate]. cbn in Hn. injection Hn as -> Hm.
  exists ms. split; auto. rewrite Ea. apply nth_error_app_old. auto.
Qed.

(* a message still in the work queue is a later entry of the log *)
Theorem alog_queue c tr s oss j : run (init_of c) tr = Some (s, oss) ->
  nth_error (alog (init_of c) tr []) (length (units s) + j) = nth_error (inq s) j.
Proof.
  intros H. destruct (hist_units_fifo c tr s oss H) as (done & Ea & Hd).
  assert (L : length done = length (units s)) by (rewrite <- unit_hist_length, <- Hd, map_length; auto).
  rewrite Ea, <- L, nth_error_app2 by lia. f_equal. lia.
Qed.

(* every task is a member of the log entry whose index is its unit number *)
Theorem task_arrival_index c tr s oss k t : run (init_of c) tr = Some (s, oss) -> nth_error (tasks s) k = Some t ->
  exists b ms, nth_error (alog (init_of c) tr []) (t_unit t) = Some (b, ms) /\ In (tmem t) (map jmem ms).
Proof.
  intros H E.
  assert (R : reachf c s) by (apply reach_reachf; eapply run_reach; [apply reach_init|eauto]).
  pose proof (task_unit_bound _ _ _ _ R E) as Lu.
  destruct (nth_error (units s) (t_unit t)) as [un|] eqn:Eu; [|apply nth_error_None in Eu; lia].
  destruct (alog_unit c tr s oss _ un H Eu) as (ms & Ea & Hm). exists (u_batch un), ms. split; auto.
  rewrite Hm. apply in_map. unfold unit_tasks. apply filter_In. split; [eapply nth_error_In; eauto|apply Nat.eqb_refl].
Qed.

(* no stop: the log is the concatenation of what the reader windows accepted, in trace order; so a task whose
   message was accepted in the first part of a trace has a smaller unit number than any task whose message was
   accepted in the rest *)
Theorem task_arrival_order c tr1 tr2 s1 oss1 s oss k t :
  run (init_of c) tr1 = Some (s1, oss1) -> run (init_of c) (tr1 ++ tr2) = Some (s, oss) ->
  stop_free (init_of c) (tr1 ++ tr2) = true -> nth_error (tasks s) k = Some t ->
  let n1 := length (accepted (init_of c) tr1) in
  exists b ms, In (tmem t) (map jmem ms) /\
    ((t_unit t < n1 /\ nth_error (accepted (init_of c) tr1) (t_unit t) = Some (b, ms)) \/
     (n1 <= t_unit t /\ nth_error (accepted s1 tr2) (t_unit t - n1) = Some (b, ms))).
Proof.
  intros H1 H Sf E n1. destruct (task_arrival_index c _ s oss k t H E) as (b & ms & Ea & Hm).
  exists b, ms. split; auto.
  rewrite alog_stop_free in Ea by auto. cbn in Ea. rewrite (accepted_app _ _ _ _ _ H1) in Ea.
  destruct (Nat.lt_ge_cases (t_unit t) n1) as [Lt|Ge].
  - left. split; auto. rewrite nth_error_app1 in Ea; auto.
  - right. split; auto. rewrite nth_error_app2 in Ea; auto.
Qed.

Example task_arrival_index_nonvacuous :
  exists t, nth_error (tasks (st_of ex_cfg ex_tr_fifo)) 1 = Some t /\ t_unit t = 0 /\
    nth_error (map qmem (accepted (init_of ex_cfg) ex_tr_fifo)) 0 = Some (true, [([49%N], ex_m, []); tmem t]).
Proof. eexists. vm_compute. repeat split; reflexivity. Qed.

(* the second message is accepted after the first has been dispatched: its tasks get unit 1 *)
Example task_arrival_order_nonvacuous :
  let tr1 := [LStart; LFeed (FMsg (InMsgs false [ex_call [49%N] []])); LRelRead; LRelNext; LRelBarrier] in
  let tr2 := [LFeed (FMsg (InMsgs false [ex_call [50%N] []])); LRelRead; LRelNext] in
  run (init_of ex_cfg) (tr1 ++ tr2) <> None /\ stop_free (init_of ex_cfg) (tr1 ++ tr2) = true /\
  length (accepted (init_of ex_cfg) tr1) = 1 /\
  map t_unit (tasks (st_of ex_cfg (tr1 ++ tr2))) = [0; 1] /\
  map qmem (accepted (st_of ex_cfg tr1) tr2) = [(false, [([50%N], ex_m, [])])].
Proof. vm_compute. repeat split; auto. discriminate. Qed.

(** * "no stop so far" read off the state: the counter of stopLocked executions *)
Fixpoint stop_count (s : state) (tr : list label) : nat :=
  match tr with
  | [] => 0
  | l :: r => match step s l with
              | Some (s1, _) => (if stop_window s s1 then 1 else 0) + stop_count s1 r
              | None => 0
              end
  end.

Lemma stop_free_count : forall tr s, stop_free s tr = true <-> stop_count s tr = 0.
Proof.
  induction tr as [|l r IH]; intros s; cbn; [tauto|].
  destruct (step s l) as [[s1 os]|]; [|tauto].
  rewrite andb_true_iff, IH. destruct (stop_window s s1); cbn; split; intros H; try lia; try tauto.
Qed.

Lemma settle1_closes s s' os : settle1 s = Some (s', os) -> closes s' = closes s.
Proof.
  intros H. apply settle1_inv in H. destruct H; cbn; auto.
  unfold dequeue. destruct (inq s) as [|[b ms] q]; [destruct (running s)|]; reflexivity.
Qed.

Lemma settle_closes : forall fuel s acc s' os, settle fuel s acc = (s', os) -> closes s' = closes s.
Proof.
  induction fuel as [|f IH]; cbn; intros s acc s' os H.
  - injection H as <- _. auto.
  - destruct (settle1 s) as [[s1 os1]|] eqn:E.
    + rewrite (IH _ _ _ _ H). eapply settle1_closes; eauto.
    + injection H as <- _. auto.
Qed.

Lemma closes_raw s l s1 os : inv s -> step_raw s l = Some (s1, os) ->
  closes s1 = closes s + (if stop_window s s1 then 1 else 0).
Proof.
  intros I H.
  assert (Same : running s1 = running s -> closes s1 = closes s ->
                 closes s1 = closes s + (if stop_window s s1 then 1 else 0)).
  { intros Rn Cl. unfold stop_window. rewrite Rn, andb_negb_r. lia. }
  pose proof (raw_ctl _ _ _ _ I H) as Ce.
  destruct Ce as [El Rn Wg Es|c0 s0 s2 Sc Rn Hs0 P Es|f0 El Rd Rn Es|f0 i0 El Rd Hf Rn S5 C0 Ri Wa Hq|El D Es|u0 El D Es
                 |u0 un s2 El Eu Su Es2 Es|S5 Cp Wa Hx Lt].
  - subst s1. unfold stop_window. rewrite Rn. cbn. lia.
  - assert (Q : running s1 = false /\ closes s1 = S (closes s)).
    { destruct P. destruct Es as [->|(_ & ->)]; destruct Hs0 as [->|(n' & ->)]; cbn in *; auto. }
    destruct Q as [Q1 Q2]. unfold stop_window. rewrite Rn, Q1. cbn. lia.
  - subst s1. apply Same; auto.
  - destruct S5 as (A1 & _ & _ & A4 & _). apply Same; auto.
  - subst s1. apply Same; [apply dequeue_running|].
    unfold dequeue. destruct (inq s) as [|[b ms] q]; [destruct (running s)|]; reflexivity.
  - subst s1. apply Same; auto.
  - pose proof (nontask_same5 _ _ (nontask_release (unit_tasks s u0) s)) as (A1 & _ & _ & A4 & _).
    rewrite <- Es2 in *. destruct Es as [(_ & ->)|(_ & ->)]; apply Same; cbn; auto.
  - destruct S5 as (A1 & _ & _ & A4 & _). apply Same; auto.
Qed.

Lemma closes_step c s l s' os : reachf c s -> step s l = Some (s', os) ->
  closes s' = closes s + (if stop_window s s' then 1 else 0).
Proof.
  intros R H. pose proof (reachf_inv _ _ R) as I.
  apply step_decompose in H as (_ & s1 & os1 & Hr & [(_ & -> & _)|(_ & Hs)]).
  - eapply closes_raw; eauto.
  - unfold stop_window. rewrite (settle_running _ _ _ _ _ Hs), (settle_closes _ _ _ _ _ Hs).
    eapply closes_raw; eauto.
Qed.

Lemma closes_run c : forall tr s s' oss, reachf c s -> run s tr = Some (s', oss) ->
  closes s' = closes s + stop_count s tr.
Proof.
  induction tr as [|l r IH]; cbn; intros s s' oss R H.
  - injection H as <- _. lia.
  - destruct (step s l) as [[s1 os]|] eqn:E; [|discriminate].
    destruct (run s1 r) as [[s2 oss2]|] eqn:E2; [|discriminate]. injection H as <- _.
    rewrite (IH _ _ _ (step_reachf _ _ _ _ _ R E) E2), (closes_step _ _ _ _ _ R E). lia.
Qed.

(* the run has no stop window iff stopLocked never closed the channel: closes = 0 at the end *)
Theorem stop_free_iff_closes c tr s oss : run (init_of c) tr = Some (s, oss) ->
  (stop_free (init_of c) tr = true <-> closes s = 0).
Proof.
  intros H. rewrite stop_free_count. rewrite (closes_run c tr _ _ _ (rf_init c) H). cbn. tauto.
Qed.

(* the FIFO theorem with the hypothesis read off the final state *)
Theorem units_are_accepted_fifo_closes c tr s oss : run (init_of c) tr = Some (s, oss) -> closes s = 0 ->
  unit_hist s ++ map qmem (inq s) = map qmem (accepted (init_of c) tr).
Proof. intros H Z. apply (units_are_accepted_fifo c tr s oss H). apply (stop_free_iff_closes c tr s oss H). auto. Qed.
