(* SrvC08r: C08.6 liveness form: once the handlers have returned, a stopped quiescent server has handed
   every retained notification to its handler and the handler has finished (the reader is not involved). *)
From Coq Require Import List NArith ZArith Bool Arith Lia.
From RecordUpdate Require Import RecordUpdate.
From JV Require Import Bytes Msg SrvModel SrvLemmas SrvBasics SrvC01 SrvC07 SrvC08 SrvC08b SrvC08q.
From JV Require SrvC06.
Import ListNotations.

Theorem notifications_drained c s : reach c s -> quiescent s = true -> running s = false ->
  (forall k t, nth_error (tasks s) k = Some t -> t_st t <> TRunning) -> 0 < cf_K c ->
  inq s = [] /\ (dp s = DNone \/ dp s = DExited) /\
  (forall k t, nth_error (tasks s) k = Some t -> finished t = true) /\
  (forall u un, nth_error (units s) u = Some un -> u_st un = UFinished).
Proof.
  intros R Q Rn Hnr HK.
  pose proof (reach_reachf _ _ R) as Rf. pose proof (no_crash _ _ R) as Cr.
  pose proof (reachf_inv _ _ Rf) as I. pose proof (reachf_inv2 _ _ Rf) as I2.
  destruct (reachf_inv8 _ _ Rf) as [Ic It N].
  destruct (SrvC06.inv_reachf _ _ Rf) as [[W0 Wq] KK].
  assert (NoW : forall k t, nth_error (tasks s) k = Some t -> t_st t <> TWaiting).
  { intros k t E Sw.
    destruct (quiescent_tasks _ _ _ _ R Q E) as [Z|[(b & Z)|[Z|[(_ & F)|(Z & _)]]]]; try congruence.
    pose proof (SrvC06.wf_sem _ _ _ _ W0) as Sem. rewrite F, KK in Sem.
    destruct (countb_pos_exists SrvC06.holds (tasks s)) as (x & Hx & Px); [lia|].
    apply In_nth_error in Hx as (j & Ej). unfold SrvC06.holds in Px.
    destruct (quiescent_tasks _ _ _ _ R Q Ej) as [Z|[(b & Z)|[Z|[(Z & _)|(Z & _)]]]];
      try (rewrite Z in Px; discriminate).
    apply (Hnr _ _ Ej Z). }
  assert (T : forall k t, nth_error (tasks s) k = Some t ->
            finished t = true \/ (t_st t = TAtAcquire /\ unit_running s t = false)).
  { intros k t E. unfold finished.
    destruct (quiescent_tasks _ _ _ _ R Q E) as [Z|[(b & Z)|[Z|[(Z & _)|Z]]]]; auto.
    - rewrite Z. auto.
    - rewrite Z. auto.
    - destruct (Hnr _ _ E Z).
    - destruct (NoW _ _ E Z). }
  assert (D : dp s = DNone \/ dp s = DExited).
  { destruct (quiescent_dp _ _ R Q) as [Z|[Z|[(_ & Z & _)|(u & Du & B)]]]; auto; [congruence|]. exfalso.
    unfold invn in N. rewrite N in B.
    destruct (countb_pos_exists _ _ B) as (t & Ht & P). apply In_nth_error in Ht as (k & Ek).
    unfold pend in P. apply andb_true_iff in P as [P Ur]. apply andb_true_iff in P as [_ F].
    apply negb_true_iff in F.
    destruct (T _ _ Ek) as [Z|(_ & Z)]; [congruence|].
    rewrite unit_running_urun in Z. congruence. }
  assert (Dx : dp s = DExited \/ dp s = DNone) by tauto.
  assert (Fin : forall k t, nth_error (tasks s) k = Some t -> finished t = true).
  { intros k t E. destruct (T _ _ E) as [Z|(Sa & Ur)]; auto. exfalso.
    pose proof (i_unit _ I _ _ E) as Lt.
    destruct (nth_error (units s) (t_unit t)) as [un|] eqn:Eu; [|apply nth_error_None in Eu; lia].
    unfold unit_running in Ur. rewrite Eu in Ur.
    destruct (u_st un) eqn:Su; try discriminate.
    1,2: destruct (i_bar _ I2 _ _ Eu) as [Hb|Hb]; auto; destruct D as [D|D]; congruence.
    all: assert (Fa : all_finished s (t_unit t) = true) by (apply (i_fin _ I _ _ Eu); auto).
    all: pose proof (all_finished_in _ _ _ Fa (nth_error_In _ _ E) eq_refl) as F; unfold finished in F;
      rewrite Sa in F; discriminate. }
  split; [apply (ic_dpx _ Ic Dx)|]. split; auto. split; auto.
  intros u un Eu. destruct (quiescent_units _ _ _ _ R Q Eu) as [Nd Hr].
  destruct (u_st un) eqn:Su; auto; try congruence.
  1,2: destruct (i_bar _ I2 _ _ Eu) as [Hb|Hb]; auto; destruct D as [D|D]; congruence.
  destruct (Hr eq_refl) as (k & t & Ek & _ & F). rewrite (Fin _ _ Ek) in F. discriminate.
Qed.

Example notifications_drained_nonvacuous :
  exists s, reach ex_cfg s /\ quiescent s = true /\ running s = false /\
    forallb (fun t => match t_st t with TRunning => false | _ => true end) (tasks s) = true /\ 0 < cf_K ex_cfg /\
    rd s = RIdle /\ map t_st (tasks s) = [TDone None] /\ map u_chok (units s) = [false].
Proof.
  (* Stop with a queued notification; the reader is still blocked in Recv *)
  exists (st_of ex_cfg [LStart; LFeed (FMsg (InMsgs false [ex_note [1%N]])); LRelRead; LCallStop 1; LRelStop 1;
                        LRelNext; LRelBarrier; LRelAcquire 0; LGate [1%N] (ORes []); LRelHandled 0; LRelNext]).
  split; [apply reach_st_of; vm_compute; discriminate|].
  repeat split; try (vm_compute; reflexivity).
Qed.
