(* SrvC08u: when the channel's Close unblocks Recv (c_unblock), the reader's exit needs no assumption:
   a stopped server whose reader is still alive has the closing error in flight. *)
From Coq Require Import List NArith ZArith Bool Arith Lia.
From RecordUpdate Require Import RecordUpdate.
From JV Require Import Bytes Msg SrvModel SrvLemmas SrvBasics SrvC01 SrvC07 SrvC09 SrvC08 SrvC08b SrvC08c SrvC08q.
Import ListNotations.

Definition chp (s : state) := (ch_in s, rd s, running s).

Lemma nontask_chp s s' : nontask s' = nontask s -> chp s' = chp s.
Proof.
  intros H. apply nontask_fields in H.
  destruct H as (_ & _ & _ & _ & _ & H6 & _ & H8 & _ & _ & _ & _ & H13 & _).
  unfold chp. rewrite H6, H8, H13. reflexivity.
Qed.

Definition quiet_label (l : label) : bool :=
  match l with LStart | LFeed _ | LRelRead | LRelStop _ => false | _ => true end.

Lemma raw_chp s l s' os : quiet_label l = true -> step_raw s l = Some (s', os) -> chp s' = chp s.
Proof.
  intros Ql H. destruct l; try discriminate Ql; unfold step_raw in H.
  - injection H as <- <-. reflexivity.
  - destruct (find_idx _ 0 (tasks s)) as [k|]; [|discriminate].
    destruct (nth_error (tasks s) k) as [t|]; [|discriminate]. injection H as <- <-. reflexivity.
  - injection H as <- <-. reflexivity.
  - injection H as <- <-. reflexivity.
  - destruct (c_push s); injection H as <- <-; reflexivity.
  - injection H as <- <-. reflexivity.
  - destruct (find_idx _ 0 (cbs s)); injection H as <- <-; reflexivity.
  - destruct (dp s); try discriminate. injection H as <- <-.
    unfold dequeue. destruct (inq s) as [|[b ms] q]; [destruct (running s) eqn:Rn|]; unfold chp; cbn; rewrite ?Rn; reflexivity.
  - destruct (dp s); try discriminate. injection H as <- <-. reflexivity.
  - destruct (nth_error (tasks s) k) as [t|]; [|discriminate].
    destruct (t_st t); try discriminate.
    destruct (negb (unit_running s t)); [discriminate|].
    destruct (t_cancelled t); [injection H as <- <-; reflexivity|].
    destruct (sem_free s); [injection H as <- <-; reflexivity|].
    destruct (sem_wait s); [|injection H as <- <-; reflexivity].
    destruct (t_builtin t); injection H as <- <-; reflexivity.
  - destruct (nth_error (tasks s) k) as [t|] eqn:E; [|discriminate].
    destruct (t_st t) eqn:St; try discriminate.
    set (s0 := set_task k (fun t => t <| t_st := TDone (body_of_outcome t o) |>) s <| sem_free ::= S |>) in *.
    pose proof (nontask_grant (S (length (sem_wait s0))) s0 []) as G.
    destruct (grant (S (length (sem_wait s0))) s0 []) as [s2 os2]. cbn [fst] in G.
    apply nontask_chp in G.
    destruct (is_note t); [destruct (nbar s2)|]; injection H as <- <-; exact G.
  - destruct (nth_error (units s) u) as [un|]; [|discriminate].
    destruct (u_st un); try discriminate.
    pose proof (nontask_chp _ _ (nontask_release (unit_tasks s u) s)) as G.
    destruct (u_chok un); cbn in H; injection H as <- <-; exact G.
  - destruct (find_op n (ops s)) as [[n0|n0 id|n0 w m p]|]; try discriminate.
    injection H as <- <-. destruct (assoc id _) as [owner|]; [|reflexivity].
    rewrite (nontask_chp _ _ (nontask_cancel owner (s <| ops ::= del_op n |>))). reflexivity.
  - destruct (find_op n (ops s)) as [[| |n0 wantid m p]|]; try discriminate.
    cbn in H. destruct (running s); cbn in H; [|injection H as <- <-; reflexivity].
    destruct wantid; [|injection H as <- <-; reflexivity].
    destruct (send_fail s); [injection H as <- <-; reflexivity|].
    destruct (find _ (ended s)) as [[? ?]|]; injection H as <- <-; reflexivity.
  - destruct (nth_error (cbs s) c) as [cb0|]; [|discriminate].
    destruct (cb_watch cb0); try discriminate.
    cbn in H.
    destruct (assoc (cb_id cb0) (calls s)) as [j|]; [|injection H as <- <-; reflexivity].
    destruct (cb_slot cb0); [injection H as <- <-; reflexivity|].
    destruct (j =? c); [|injection H as <- <-; reflexivity].
    destruct (match cb_ctx cb0 with Some WDeadline => _ | _ => _ end) as [code msg].
    injection H as H. unfold complete_cb in H. cbn in H.
    destruct (nth_error (upd_nth c _ (cbs s)) c); injection H as <- <-; reflexivity.
Qed.

(* a stopped server on an unblocking channel: an idle reader has something to receive *)
Definition inv_unblock (s : state) : Prop :=
  c_unblock s = true -> running s = false -> rd s = RIdle -> ch_in s <> [].

Lemma app_not_nil {A} (l : list A) x : l ++ [x] <> [].
Proof. destruct l; discriminate. Qed.

Lemma unblock_raw s l s' os : inv s -> inv_unblock s -> step_raw s l = Some (s', os) -> inv_unblock s'.
Proof.
  intros I U H. pose proof (raw_cfgp _ _ _ _ H) as Cf. unfold cfgp in Cf. injection Cf as _ _ _ _ Cu.
  destruct (quiet_label l) eqn:Ql.
  { apply raw_chp in H; auto. unfold chp in H. injection H as H1 H2 H3. unfold inv_unblock. rewrite Cu, H1, H2, H3. exact U. }
  destruct l; try discriminate Ql; unfold step_raw in H.
  - destruct (negb (running s) && (wg s =? 0)); [|discriminate]. injection H as <- <-. intros _ R. discriminate R.
  - injection H as <- <-. intros _ _ _. cbn. apply app_not_nil.
  - destruct (rd s) as [| |f|] eqn:Rd; try discriminate. injection H as H.
    destruct f as [i|i|k].
    3:{ cbn in H. destruct (stop_locked k s) as [s0 os0]. injection H as <- <-. intros _ _ Ri. discriminate Ri. }
    all: destruct (running s) eqn:Rn;
      [ eapply read_cs_msg in H as (C & _); eauto; unfold core0 in C; injection C as _ _ _ _ _ _ _ R' _;
        intros _ R; congruence
      | cbn in H; rewrite Rn in H; cbn in H; injection H as <- <-; intros _ _ Ri; discriminate Ri ].
  - destruct (find_op n (ops s)) as [[n0|n0 id|n0 w m p]|]; try discriminate.
    destruct (stop_locked SCStop (s <| ops ::= del_op n |>)) as [s0 os0] eqn:St. injection H as <- <-.
    destruct (running s) eqn:Rn.
    + apply stop_locked_run in St as [_ P]; auto. pose proof (sr_chin _ _ _ P) as Ch. cbn in Ch.
      intros Ub _ _. rewrite Cu in Ub. rewrite Ub in Ch. rewrite Ch. apply app_not_nil.
    + apply stop_locked_spec in St as [(_ & -> & _)|(Rn' & _)]; [|cbn in Rn'; congruence]. exact U.
Qed.

Theorem reachf_inv_unblock c s : reachf c s -> inv_unblock s.
Proof.
  induction 1 as [|s l s' os R IH Cr H|s s' os R IH H].
  - intros _ _ Ri. discriminate Ri.
  - eapply unblock_raw; eauto. eapply reachf_inv; eauto.
  - pose proof (settle1_same5 _ _ _ H) as (A & _).
    apply settle1_inv in H. destruct H; try exact IH.
    + intros _ _ Ri. discriminate Ri.
    + unfold inv_unblock, dequeue in *. destruct (inq s) as [|[b ms] q]; [destruct (running s) eqn:Rn|]; cbn; rewrite ?Rn; exact IH.
Qed.

(* on a channel whose Close unblocks Recv the reader of a quiescent stopped server has exited *)
Theorem unblock_reader_exits c s : reach c s -> quiescent s = true -> running s = false -> cf_unblock c = true ->
  rd s = RExited \/ rd s = RNone.
Proof.
  intros R Q Rn Ub. pose proof (reach_reachf _ _ R) as Rf. pose proof (no_crash _ _ R) as Cr.
  pose proof (reach_settled _ _ R Cr) as St.
  pose proof (cfg_const _ _ Rf) as Cf. unfold cfgp in Cf. injection Cf as _ _ _ _ Cu. rewrite Ub in Cu.
  destruct (rd s) as [| |f|] eqn:Rd; auto; exfalso.
  - (* idle: the closing error is in flight, so the reader would wake up *)
    pose proof (reachf_inv_unblock _ _ Rf Cu Rn Rd) as Ne.
    unfold settle1 in St. rewrite Rd in St. destruct (ch_in s); [congruence|discriminate St].
  - (* holding a record: LRelRead is enabled *)
    apply (quiescent_contra s LRelRead (read_cs f s) Q Cr).
    + apply (in_cand s SRead); [cbn; tauto|]. cbn. rewrite Rd. left. reflexivity.
    + cbn. rewrite Rd. reflexivity.
Qed.

Theorem terminates_unblock c s : reach c s -> quiescent s = true -> running s = false -> cf_unblock c = true ->
  (forall k t, nth_error (tasks s) k = Some t -> t_st t <> TRunning) -> 0 < cf_K c ->
  wg s = 0 /\ waits s = 0 /\ all_done s.
Proof.
  intros R Q Rn Ub Hnr HK. apply (c08_terminates_q c); auto. eapply unblock_reader_exits; eauto.
Qed.

Example terminates_unblock_nonvacuous :
  let cfg := {| cf_K := 1; cf_push := false; cf_builtin := false; cf_methods := [ex_m]; cf_unblock := true |} in
  exists s, reach cfg s /\ quiescent s = true /\ running s = false /\ cf_unblock cfg = true /\
    forallb (fun t => match t_st t with TRunning => false | _ => true end) (tasks s) = true /\
    wg s = 0 /\ rd s = RExited /\ stop_err s = Some SCStop /\ length (tasks s) = 1.
Proof.
  (* Stop with a call in flight; Close makes Recv fail, nothing is fed by the peer *)
  exists (st_of {| cf_K := 1; cf_push := false; cf_builtin := false; cf_methods := [ex_m]; cf_unblock := true |}
           [LStart; LRelNext; LFeed (FMsg (InMsgs false [ex_call [49%N] [91;93]%N])); LRelRead; LRelBarrier;
            LRelAcquire 0; LCallStop 1; LRelStop 1; LRelRead; LGate [91;93]%N (ORes [50%N]); LRelHandled 0;
            LRelDeliver 0; LRelNext]).
  split; [apply reach_st_of; vm_compute; discriminate|]. repeat split; vm_compute; reflexivity.
Qed.
