(* SrvMonitors2: three more executable monitors over the two sequences of a run of the server model (the
   environment labels [env_of tr] and the flat observation list [concat oss]; never their interleaving), proved
   sound for EVERY run and extracted (extract/srvmon.list) so that the runner evaluates them on every harness log,
   racing ones included.  Same pattern as srv/SrvMonitors.v.

   (a) [mon_concurrency K] : (C06) scanning the observations in order, the number of handlers executing (handler
                             entries [OStart] minus handler returns [OGate] so far) never exceeds K.  Sound with
                             K = cf_K c (the model has exactly K semaphore slots; with K = 0 no handler ever runs).
                             Proof: this file.
   (b) [mon_push_ids]      : (C09) the non-empty ids of the pushed requests [OSendReq] are pairwise distinct across
                             the whole run (the counter is never reset, not even by a restart), and for every
                             operation number n the final returns of a push ([ORet n] with a callback result, a
                             callback error, a context error or a send failure) are at most as many as the
                             [LCallPush n] labels of the environment.  Proof: srv/SrvMonPush.v.
   (c) [mon_duplicate]     : (C07) a response with the error -32600 "duplicate request ID" and an id i other than
                             null is sent only if at least two members with id i were fed - unless the environment
                             itself produced that error value (a handler outcome [LGate _ (OErr -32600 "duplicate
                             request ID")] or a fed member whose recorded parse error is that value): then the
                             monitor says nothing.  Proof: srv/SrvMonDup.v.

   Definitions first (executable, extracted), proofs after. *)
From Coq Require Import List NArith ZArith Bool Arith Lia.
From RecordUpdate Require Import RecordUpdate.
From JV Require Import Bytes Msg SrvModel SrvLemmas SrvBasics SrvC01 SrvHist SrvMonitors.
From JV Require SrvC06.
Import ListNotations.

(** * (a) never more than K handlers executing *)
(* [n] = handlers executing before the first observation of [os] *)
Fixpoint conc_scan (K n : nat) (os : list obs) : bool :=
  match os with
  | [] => true
  | OStart _ _ :: r => (S n <=? K) && conc_scan K (S n) r
  | OGate _ _ :: r => conc_scan K (pred n) r
  | _ :: r => conc_scan K n r
  end.
Definition mon_concurrency (K : nat) (env : list label) (os : list obs) : bool := conc_scan K 0 os.

(** * (b) pushed request ids are pairwise distinct; a push returns at most as often as it was called *)
Definition req_id (o : obs) : list bytes :=
  match o with OSendReq _ id _ _ => if is_nil id then [] else [id] | _ => [] end.
Definition req_ids (os : list obs) : list bytes := flat_map req_id os.

Definition final_res (r : apires) : bool :=
  match r with ACbRes _ | ACbErr _ _ | ACbCtx _ | ASendFailed => true | _ => false end.
Definition final_num (o : obs) : list nat := match o with ORet n r => if final_res r then [n] else [] | _ => [] end.
Definition final_nums (os : list obs) : list nat := flat_map final_num os.
Definition final_of (n : nat) (o : obs) : bool :=
  match o with ORet n' r => (n' =? n) && final_res r | _ => false end.
Definition push_of (n : nat) (l : label) : bool := match l with LCallPush n' _ _ _ => n' =? n | _ => false end.
Definition mon_push_ids (env : list label) (os : list obs) : bool :=
  nodupb (req_ids os) &&
  forallb (fun n => countb (final_of n) os <=? countb (push_of n) env) (final_nums os).

(** * (c) a duplicate-id error answers an id that was received at least twice *)
Definition is_dup_err (c : Z) (m : bytes) : bool := (c =? InvalidRequest)%Z && beq m s_dup.
Definition is_dup_body (b : body) : bool := match b with BErr c m => is_dup_err c m | _ => false end.
Definition dup_ids_of (o : obs) : list bytes :=
  match o with OSend _ _ rs => map r_id (filter (fun r => is_dup_body (r_body r)) rs) | _ => [] end.
Definition dup_ids (os : list obs) : list bytes := flat_map dup_ids_of os.
(* the environment itself produced the error value *)
Definition msg_excuse (m : jmsg) : bool :=
  match j_err m with Some e => is_dup_err (we_code e) (we_msg e) | None => false end.
Definition label_excuse (l : label) : bool :=
  match l with
  | LGate _ (OErr c m) => is_dup_err c m
  | LFeed f => existsb msg_excuse (feed_msgs f)
  | _ => false
  end.
Definition mon_duplicate (env : list label) (os : list obs) : bool :=
  existsb label_excuse env ||
  forallb (fun i => beq i null_bytes || (2 <=? count_bytes i (fed_ids env))) (dup_ids os).

(** * Proof of (a) *)

(* lists with the same number of occurrences of every key have the same length *)
Lemma count_eq_length : forall A B : list bytes, (forall p, count_bytes p A = count_bytes p B) -> length A = length B.
Proof.
  induction A as [|x A IH]; intros B H.
  - destruct B as [|y B]; auto. specialize (H y). cbn in H. rewrite beq_refl in H. lia.
  - assert (I : In x B).
    { apply count_bytes_in. specialize (H x). cbn in H. rewrite beq_refl in H. lia. }
    apply in_split in I as (B1 & B2 & ->). rewrite app_length. cbn [length].
    rewrite (IH (B1 ++ B2)); [rewrite app_length; lia|].
    intros p. specialize (H p). rewrite count_bytes_app in *. cbn [count_bytes] in H. lia.
Qed.

Definition run_params (ts : list task) : list bytes := map t_params (filter st_running ts).

Lemma crun_count p ts : crun p ts = count_bytes p (run_params ts).
Proof.
  unfold crun, run_params. induction ts as [|t ts IH]; auto. cbn [countb filter]. unfold prun at 1.
  destruct (st_running t); cbn [map count_bytes]; rewrite ?andb_true_r, ?andb_false_r, IH; reflexivity.
Qed.

Lemma executing_len s : SrvC06.executing s = length (run_params (tasks s)).
Proof.
  unfold SrvC06.executing, run_params. rewrite map_length. induction (tasks s) as [|t ts IH]; auto.
  cbn [countb filter]. change (SrvC06.is_running t) with (st_running t). destruct (st_running t); cbn [length]; lia.
Qed.

Lemma quiet_starts os : Forall quiet_obs os -> SrvMonitors.starts os = [].
Proof.
  induction 1 as [|o os Ho _ IH]; auto. change (SrvMonitors.starts (o :: os)) with (start_of o ++ SrvMonitors.starts os).
  rewrite IH. destruct o; cbn in Ho; try tauto; reflexivity.
Qed.

(* one window: entries and returns against the handlers executing before and after *)
Lemma step_total c s l s' os : reachf c s -> step s l = Some (s', os) ->
  window_shape l os /\
  length (SrvMonitors.starts os) + SrvC06.executing s = length (gates os) + SrvC06.executing s'.
Proof.
  intros R H. destruct (step_acct _ _ _ _ _ R H) as [Sh A]. split; auto.
  rewrite !executing_len, <- !app_length. apply count_eq_length. intros p. rewrite !count_bytes_app, <- !crun_count.
  destruct (A p) as [A1 _]. exact A1.
Qed.

(* the counter after the scan *)
Fixpoint conc_end (n : nat) (os : list obs) : nat :=
  match os with
  | [] => n
  | OStart _ _ :: r => conc_end (S n) r
  | OGate _ _ :: r => conc_end (pred n) r
  | _ :: r => conc_end n r
  end.

Lemma conc_scan_app K : forall a n b, conc_scan K n (a ++ b) = conc_scan K n a && conc_scan K (conc_end n a) b.
Proof.
  induction a as [|o a IH]; intros n b; cbn [app conc_scan conc_end]; auto.
  destruct o; rewrite ?IH, ?andb_assoc; reflexivity.
Qed.

Lemma conc_end_app : forall a n b, conc_end n (a ++ b) = conc_end (conc_end n a) b.
Proof. induction a as [|o a IH]; intros n b; cbn [app conc_end]; auto. destruct o; apply IH. Qed.

(* without handler returns the counter only grows: it is enough that its last value is within the bound *)
Lemma conc_scan_nogates K : forall os n, gates os = [] -> n + length (SrvMonitors.starts os) <= K ->
  conc_scan K n os = true /\ conc_end n os = n + length (SrvMonitors.starts os).
Proof.
  induction os as [|o os IH]; intros n G L; cbn [conc_scan conc_end].
  - cbn. split; auto.
  - change (gates (o :: os)) with (gate_of o ++ gates os) in G. apply app_eq_nil in G as [G1 G2].
    change (SrvMonitors.starts (o :: os)) with (start_of o ++ SrvMonitors.starts os) in *. rewrite app_length in *.
    destruct o; cbn [gate_of start_of length app] in *; try discriminate G1;
      try (destruct (IH n G2) as [I1 I2]; [lia|]; split; [exact I1|rewrite I2; lia]).
    destruct (IH (S n) G2) as [I1 I2]; [lia|]. rewrite I1, I2, andb_true_r. split; [apply Nat.leb_le; lia|lia].
Qed.

Lemma window_conc c s l s' os : reachf c s -> step s l = Some (s', os) ->
  conc_scan (cf_K c) (SrvC06.executing s) os = true /\ conc_end (SrvC06.executing s) os = SrvC06.executing s'.
Proof.
  intros R H. destruct (step_total _ _ _ _ _ R H) as [Sh T].
  destruct (SrvC06.bound_f _ _ (step_reachf _ _ _ _ _ R H)) as [B1 B2].
  assert (Gen : gates os = [] ->
    conc_scan (cf_K c) (SrvC06.executing s) os = true /\ conc_end (SrvC06.executing s) os = SrvC06.executing s').
  { intros G. rewrite G in T. cbn [length] in T.
    destruct (conc_scan_nogates (cf_K c) os (SrvC06.executing s) G) as [I1 I2]; [lia|]. split; auto. lia. }
  destruct l; cbn [window_shape] in Sh; try (apply Gen; exact Sh).
  destruct Sh as (cn & extra & -> & Q). cbn [conc_scan conc_end].
  change (gates (OGate params cn :: extra)) with (params :: gates extra) in T.
  change (SrvMonitors.starts (OGate params cn :: extra)) with (SrvMonitors.starts extra) in T.
  pose proof (quiet_starts _ Q) as Qs. pose proof (quiet_gates _ Q) as Qg. rewrite Qs, Qg in T. cbn [length] in T.
  destruct (conc_scan_nogates (cf_K c) extra (pred (SrvC06.executing s)) Qg) as [I1 I2];
    [rewrite Qs; cbn [length]; lia|]. rewrite Qs in I2. cbn [length] in I2. split; auto. lia.
Qed.

Lemma run_conc c : forall tr s s' oss, reachf c s -> run s tr = Some (s', oss) ->
  conc_scan (cf_K c) (SrvC06.executing s) (concat oss) = true.
Proof.
  induction tr as [|l r IH]; cbn [run]; intros s s' oss R H.
  - injection H as <- <-. reflexivity.
  - destruct (step s l) as [[s1 os]|] eqn:E; [|discriminate].
    destruct (run s1 r) as [[s2 oss2]|] eqn:E2; [|discriminate]. injection H as <- <-.
    destruct (window_conc _ _ _ _ _ R E) as [W1 W2]. cbn [concat]. rewrite conc_scan_app, W1, W2. cbn [andb].
    eapply IH; [eapply step_reachf; eauto|exact E2].
Qed.

(** * Soundness of (a) *)
Theorem mon_concurrency_sound c tr s oss : run (init_of c) tr = Some (s, oss) ->
  mon_concurrency (cf_K c) (env_of tr) (concat oss) = true.
Proof. intros H. unfold mon_concurrency. exact (run_conc c _ _ _ _ (rf_init c) H). Qed.

(* the scan, spelled out: at every point of the observation sequence, entries so far minus returns so far is at
   most K (given that returns never outnumber entries: mon_gate_after_start) *)
Lemma conc_scan_prefix K : forall os n, conc_scan K n os = true ->
  forall pre post, os = pre ++ post -> conc_end n pre <= Nat.max n K.
Proof.
  induction os as [|o os IH]; intros n H pre post E.
  - destruct pre; [cbn; lia|discriminate].
  - destruct pre as [|o' pre]; [cbn; lia|]. injection E as <- E. cbn [conc_scan conc_end] in *.
    destruct o; try (eapply IH; eauto; fail).
    + apply andb_true_iff in H as [H1 H2]. apply Nat.leb_le in H1. specialize (IH _ H2 _ _ E). lia.
    + specialize (IH _ H _ _ E). lia.
Qed.

Theorem concurrency_every_prefix c tr s oss pre post : run (init_of c) tr = Some (s, oss) ->
  concat oss = pre ++ post -> conc_end 0 pre <= cf_K c.
Proof.
  intros H E. pose proof (mon_concurrency_sound c tr s oss H) as M. unfold mon_concurrency in M.
  pose proof (conc_scan_prefix _ _ _ M pre post E). lia.
Qed.

(** * Examples *)
(* K = 1, a batch of three calls: one runs, two wait; the running one returns and the next one is granted the slot *)
Definition ex_tr_conc : list label :=
  SrvC06.ex_dispatch SrvC06.ex_batch ++
  [LRelAcquire 0; LRelAcquire 1; LRelAcquire 2; LGate [1%N] (ORes [53%N]); LRelHandled 0; LGate [2%N] (ORes [53%N]);
   LRelHandled 1].
Definition ex_cfg1 : config := {| cf_K := 1; cf_push := false; cf_builtin := false; cf_methods := [[109]%N]; cf_unblock := false |}.

Example mon_concurrency_nonvacuous :
  run (init_of ex_cfg1) ex_tr_conc <> None /\
  SrvMonitors.starts (concat (obs_of ex_cfg1 ex_tr_conc)) = [[1%N]; [2%N]; [3%N]] /\
  gates (concat (obs_of ex_cfg1 ex_tr_conc)) = [[1%N]; [2%N]] /\
  mon_concurrency (cf_K ex_cfg1) (env_of ex_tr_conc) (concat (obs_of ex_cfg1 ex_tr_conc)) = true /\
  mon_concurrency 0 (env_of ex_tr_conc) (concat (obs_of ex_cfg1 ex_tr_conc)) = false.
Proof. vm_compute. repeat split; auto. discriminate. Qed.

(* sensitivity: two handlers executing with K = 1; fine with K = 2; fine when the first returned before *)
Example mon_concurrency_sensitive :
  mon_concurrency 1 [] [OStart [1%N] false; OStart [2%N] false] = false /\
  mon_concurrency 2 [] [OStart [1%N] false; OStart [2%N] false] = true /\
  mon_concurrency 1 [] [OStart [1%N] false; OGate [1%N] false; OStart [2%N] false] = true /\
  mon_concurrency 1 [] [OStart [1%N] false; OGate [1%N] false; OStart [2%N] false; OStart [3%N] false] = false.
Proof. vm_compute. repeat split; reflexivity. Qed.
