(* SrvC10b: C10 (server half): every run of the server model, read as the event sequence an instrumented Channel and
   the server mutex would see, is well-locked and disciplined in the sense of chan/Discipline.v - hence (by
   Discipline.no_overlap) no two Sends in progress at once, no Send overlapping Close, no two Recvs at once.

   The reading.  A window of a release label is one critical section of the goroutine [gid l] under the server mutex:
   Lock g; its channel operations (OSend / OSendReq -> SendB g; SendE g, OClose -> CloseB g; CloseE g), in the order
   observed; Unlock g.  Environment labels take no lock and perform no channel operation.  The reader goroutine of the
   current run is goroutine 0: it enters Recv when it becomes idle (at Start, and at the end of its own critical
   section unless it exits) and leaves Recv when a record or an error is handed to it ([settle]'s S1Recv: rd goes
   from RIdle to RHold).  A restarted server has a new reader; it is given the same number 0, which is sound because
   Start is enabled only when the previous reader has exited ([reader_exclusive] below). *)
From Coq Require Import List NArith ZArith Bool Arith Lia.
From RecordUpdate Require Import RecordUpdate.
From JV Require Import Bytes Msg SrvModel SrvLemmas SrvBasics SrvC01 SrvC07 SrvC09 SrvC10 SrvC08 SrvC08b SrvC08c SrvC08q SrvC08u SrvC08y Discipline.
Import ListNotations.

(** * 1. an executable form of the discipline: one pass over the events *)
Definition lock_ok1 (h : option nat) (e : ev) : Prop :=
  match e with Lock _ => h = None | Unlock g => h = Some g | _ => True end.
Definition disc_ok1 (rdr : nat) (h : option nat) (ins : nat -> option call) (e : ev) : Prop :=
  match e with
  | SendB g | CloseB g => h = Some g /\ ins g = None
  | SendE g => ins g = Some CSend
  | CloseE g => ins g = Some CClose
  | Unlock g => ins g <> Some CSend /\ ins g <> Some CClose
  | RecvB g => g = rdr /\ ins g = None
  | RecvE g => g = rdr /\ ins g = Some CRecv
  | Lock _ => True
  end.
Fixpoint ok_from (rdr : nat) (h : option nat) (ins : nat -> option call) (es : list ev) : Prop :=
  match es with
  | [] => True
  | e :: r => lock_ok1 h e /\ disc_ok1 rdr h ins e /\ ok_from rdr (hstep h e) (fun g => istep g (ins g) e) r
  end.

Lemma disc_ok1_ext rdr h ins ins' e : (forall g, ins g = ins' g) -> disc_ok1 rdr h ins e -> disc_ok1 rdr h ins' e.
Proof. intros E. destruct e; cbn; rewrite <- ?E; auto. Qed.

Lemma ok_from_ext rdr : forall es h ins ins', (forall g, ins g = ins' g) -> ok_from rdr h ins es -> ok_from rdr h ins' es.
Proof.
  induction es as [|e r IH]; cbn; auto. intros h ins ins' E (A & B & C).
  split; auto. split; [eapply disc_ok1_ext; eauto|]. eapply IH; [|exact C]. intros g. cbv beta. rewrite E. reflexivity.
Qed.

Lemma ok_from_app rdr : forall a b h ins, ok_from rdr h ins a ->
  ok_from rdr (fold_left hstep a h) (fun g => fold_left (istep g) a (ins g)) b -> ok_from rdr h ins (a ++ b).
Proof.
  induction a as [|e r IH]; cbn; intros b h ins A B.
  - exact B.
  - destruct A as (A1 & A2 & A3). split; [auto|split; [auto|apply IH; auto]].
Qed.

Lemma ok_from_sound rdr : forall es p0, ok_from rdr (holder p0) (fun g => inside g p0) es ->
  forall p e r, es = p ++ e :: r -> lock_ok (p0 ++ p) e /\ disc_ok rdr (p0 ++ p) e.
Proof.
  induction es as [|e0 r0 IH]; intros p0 H p e r E.
  - destruct p; discriminate.
  - cbn in H. destruct H as (A & B & C). destruct p as [|x p'].
    + cbn in E. injection E as <- <-. rewrite app_nil_r. split.
      * destruct e0; cbn in *; auto.
      * destruct e0; cbn in *; auto.
    + cbn in E. injection E as <- ->.
      replace (p0 ++ e0 :: p') with ((p0 ++ [e0]) ++ p') by (rewrite <- app_assoc; reflexivity).
      apply (IH (p0 ++ [e0])) with (r := r); auto.
      rewrite holder_snoc. eapply ok_from_ext; [|exact C]. intros g. cbv beta. rewrite inside_snoc. reflexivity.
Qed.

Theorem ok_from_disciplined rdr es : ok_from rdr None (fun _ => None) es -> well_locked es /\ disciplined rdr es.
Proof.
  intros H. split; intros p e r E; apply (ok_from_sound rdr es [] H p e r E).
Qed.

(** * 2. the events of a window *)
(* one goroutine number per parked goroutine: the reader 0, the dispatcher 1, the handler goroutine of task k,
   the deliverer of unit u, the API caller of operation n, the watcher of callback c *)
Definition gid (l : label) : nat :=
  match l with
  | LRelRead => 0
  | LRelNext | LRelBarrier => 1
  | LRelAcquire k | LRelHandled k => 2 + 4 * k
  | LRelDeliver u => 3 + 4 * u
  | LRelStop n | LRelCancel n | LRelPush n => 4 + 4 * n
  | LRelCbWatch c => 5 + 4 * c
  | _ => 1
  end.
Definition takes_lock (l : label) : bool :=
  match l with
  | LRelRead | LRelNext | LRelBarrier | LRelAcquire _ | LRelHandled _ | LRelDeliver _
  | LRelStop _ | LRelCancel _ | LRelPush _ | LRelCbWatch _ => true
  | _ => false
  end.
Definition op_evs (g : nat) (o : obs) : list ev :=
  match o with
  | OSend _ _ _ | OSendReq _ _ _ _ => [SendB g; SendE g]
  | OClose => [CloseB g; CloseE g]
  | _ => []
  end.
Definition lock_evs (l : label) (os : list obs) : list ev :=
  if takes_lock l then [Lock (gid l)] ++ flat_map (op_evs (gid l)) os ++ [Unlock (gid l)] else [].

Definition rd_in_recv (r : rdpc) : bool := match r with RIdle => true | _ => false end.
Definition rd_alive (r : rdpc) : bool := match r with RIdle | RHold _ => true | _ => false end.
Definition is_hold (r : rdpc) : bool := match r with RHold _ => true | _ => false end.
(* what the reader does in a window: r = rd before, r' = rd after *)
Definition recv_evs (l : label) (r r' : rdpc) : list ev :=
  match l with
  | LStart | LRelRead => (if rd_alive r' then [RecvB 0] else []) ++ (if is_hold r' then [RecvE 0] else [])
  | _ => if rd_in_recv r && is_hold r' then [RecvE 0] else []
  end.
Definition win_evs (s : state) (l : label) (os : list obs) (s' : state) : list ev :=
  lock_evs l os ++ recv_evs l (rd s) (rd s').

Fixpoint evs (s : state) (tr : list label) : list ev :=
  match tr with
  | [] => []
  | l :: r => match step s l with Some (s1, os) => win_evs s l os s1 ++ evs s1 r | None => [] end
  end.

(** * 3. how the reader's program counter moves *)
Lemma settle_rd : forall fuel a acc b os, settle fuel a acc = (b, os) ->
  rd b = rd a \/ (rd a = RIdle /\ exists f, rd b = RHold f).
Proof.
  induction fuel as [|n IH]; cbn; intros a acc b os H.
  - injection H as <- _. auto.
  - destruct (settle1 a) as [[a1 os1]|] eqn:E; [|injection H as <- _; auto].
    specialize (IH _ _ _ _ H). apply settle1_inv in E.
    assert (X : rd a1 = rd a \/ (rd a = RIdle /\ exists f, rd a1 = RHold f)).
    { destruct E; cbn; auto.
      - right. eauto.
      - left. unfold dequeue. destruct (inq a) as [|[bb ms] q]; [destruct (running a)|]; reflexivity. }
    destruct X as [X|(X1 & f & X2)].
    + rewrite X in IH. exact IH.
    + right. split; auto. destruct IH as [IH|(IH & _)]; [exists f; congruence|congruence].
Qed.

Lemma raw_rd_same s l s1 os1 : l <> LStart -> l <> LRelRead -> step_raw s l = Some (s1, os1) -> rd s1 = rd s.
Proof.
  intros N1 N2 H. destruct (quiet_label l) eqn:Ql.
  { apply raw_chp in H; auto. unfold chp in H. injection H as _ H _. exact H. }
  destruct l; try discriminate Ql; try congruence; unfold step_raw in H.
  - injection H as <- _. reflexivity.
  - destruct (find_op n (ops s)) as [[n0|n0 id|n0 w m p]|]; try discriminate.
    destruct (stop_locked SCStop (s <| ops ::= del_op n |>)) as [s0 os0] eqn:St. injection H as <- _.
    apply stop_locked_chin in St as [_ B]. exact B.
Qed.

Lemma step_rd c s l s' os : reach c s -> step s l = Some (s', os) ->
  match l with
  | LStart => rd s = RExited \/ rd s = RNone
  | LRelRead => exists f, rd s = RHold f
  | _ => rd s' = rd s \/ (rd s = RIdle /\ exists f, rd s' = RHold f)
  end.
Proof.
  intros R H. apply step_decompose in H as (_ & s1 & os1 & Hr & Hs).
  assert (Other : l <> LStart -> l <> LRelRead -> rd s' = rd s \/ (rd s = RIdle /\ exists f, rd s' = RHold f)).
  { intros N1 N2. rewrite <- (raw_rd_same _ _ _ _ N1 N2 Hr).
    destruct Hs as [(_ & -> & _)|(_ & Hs)]; auto. eapply settle_rd; eauto. }
  destruct l; try (apply Other; discriminate).
  - unfold step_raw in Hr. destruct (negb (running s) && (wg s =? 0)) eqn:G; [|discriminate].
    apply andb_true_iff in G as [_ G]. apply Nat.eqb_eq in G.
    apply (wg0_dp_rd s (reachf_inv2 _ _ (reach_reachf _ _ R)) G).
  - unfold step_raw in Hr. destruct (rd s) as [| |f|]; try discriminate. eauto.
Qed.

(* reader exclusivity across restarts: Start is enabled only when the previous reader goroutine has exited (or there
   never was one), and the window of Start ends with the new reader in Recv on the fresh channel *)
Theorem reader_exclusive c s s' os : reach c s -> step s LStart = Some (s', os) ->
  (rd s = RExited \/ rd s = RNone) /\ wg s = 0 /\ running s = false /\ rd s' = RIdle /\ ch_in s' = [].
Proof.
  intros R H. pose proof (step_rd _ _ _ _ _ R H) as X. cbn in X. split; auto.
  pose proof (no_crash _ _ R) as Cr.
  apply step_decompose in H as (_ & s1 & os1 & Hr & Hs). unfold step_raw in Hr.
  destruct (negb (running s) && (wg s =? 0)) eqn:G; [|discriminate].
  apply andb_true_iff in G as [G1 G2]. apply Nat.eqb_eq in G2. apply negb_true_iff in G1.
  injection Hr as <- <-. split; auto. split; auto.
  destruct Hs as [(_ & -> & _)|(_ & Hs)]; [cbn; auto|].
  (* nothing for the new reader to receive yet: settling does not move it *)
  assert (K : forall fuel a acc b o, settle fuel a acc = (b, o) -> rd a = RIdle -> ch_in a = [] -> rd b = RIdle /\ ch_in b = []).
  { induction fuel as [|n IH]; cbn; intros a acc b o Hh Ra Ca.
    - injection Hh as <- _. auto.
    - destruct (settle1 a) as [[a1 o1]|] eqn:E; [|injection Hh as <- _; auto].
      apply (IH _ _ _ _ Hh); apply settle1_inv in E; destruct E; cbn; auto; try congruence.
      + unfold dequeue. destruct (inq a) as [|[bb ms] q]; [destruct (running a)|]; cbn; auto.
      + unfold dequeue. destruct (inq a) as [|[bb ms] q]; [destruct (running a)|]; cbn; auto. }
  apply (K _ _ _ _ _ Hs); reflexivity.
Qed.

(** * 4. one window is disciplined, and re-establishes the boundary invariant *)
(* at a window boundary: the mutex is free, no goroutine is inside Send or Close, and the reader is inside Recv
   exactly when it is idle *)
Definition Binv (s : state) (ins : nat -> option call) : Prop :=
  (forall g, g <> 0 -> ins g = None) /\ ins 0 = (if rd_in_recv (rd s) then Some CRecv else None).

Lemma ops_ok g : forall os h ins, h = Some g -> ins g = None ->
  ok_from 0 h ins (flat_map (op_evs g) os) /\ fold_left hstep (flat_map (op_evs g) os) h = h /\
  forall g', fold_left (istep g') (flat_map (op_evs g) os) (ins g') = ins g'.
Proof.
  induction os as [|o r IH]; intros h ins Hh Hi; cbn [flat_map]; [cbn; auto|].
  assert (Pair : forall b e c, (b = SendB g /\ e = SendE g /\ c = CSend) \/ (b = CloseB g /\ e = CloseE g /\ c = CClose) ->
            ok_from 0 h ins ([b; e] ++ flat_map (op_evs g) r) /\
            fold_left hstep ([b; e] ++ flat_map (op_evs g) r) h = h /\
            forall g', fold_left (istep g') ([b; e] ++ flat_map (op_evs g) r) (ins g') = ins g').
  { intros b e c Hc.
    assert (E2 : forall g', istep g' (istep g' (ins g') b) e = ins g').
    { intros g'. destruct Hc as [(-> & -> & ->)|(-> & -> & ->)]; cbn;
        destruct (Nat.eqb_spec g g') as [<-|Ne]; auto. }
    assert (H2 : hstep (hstep h b) e = h) by (destruct Hc as [(-> & -> & _)|(-> & -> & _)]; reflexivity).
    destruct (IH h ins Hh Hi) as (A & B & C).
    split; [|split].
    - cbn [app ok_from]. split; [destruct Hc as [(-> & _)|(-> & _)]; cbn; auto|].
      split; [destruct Hc as [(-> & _)|(-> & _)]; cbn; auto|].
      split; [destruct Hc as [(_ & -> & _)|(_ & -> & _)]; cbn; auto|].
      split; [destruct Hc as [(-> & -> & _)|(-> & -> & _)]; cbn; rewrite Nat.eqb_refl; auto|].
      rewrite H2. eapply ok_from_ext; [|exact A]. intros g'. cbv beta. rewrite E2. reflexivity.
    - cbn [app fold_left]. rewrite H2. exact B.
    - intros g'. cbn [app fold_left]. rewrite E2. apply C. }
  destruct o; cbn [op_evs]; try (apply IH; auto; fail).
  - apply (Pair (SendB g) (SendE g) CSend). auto.
  - apply (Pair (SendB g) (SendE g) CSend). auto.
  - apply (Pair (CloseB g) (CloseE g) CClose). auto.
Qed.

Lemma lock_evs_ok l os ins : (takes_lock l = true -> ins (gid l) = None) ->
  ok_from 0 None ins (lock_evs l os) /\ fold_left hstep (lock_evs l os) None = None /\
  forall g', fold_left (istep g') (lock_evs l os) (ins g') = ins g'.
Proof.
  intros Hi. unfold lock_evs. destruct (takes_lock l); [|cbn; auto]. specialize (Hi eq_refl).
  set (g := gid l) in *.
  destruct (ops_ok g os (Some g) ins eq_refl Hi) as (A & B & C).
  split; [|split].
  - cbn [app ok_from]. split; [reflexivity|]. split; [exact I|]. cbn [hstep].
    apply ok_from_app.
    + eapply ok_from_ext; [|exact A]. reflexivity.
    + rewrite B. cbn. split; [reflexivity|]. split; [|exact I].
      rewrite C. cbn. rewrite Hi. split; discriminate.
  - cbn [app fold_left hstep]. rewrite fold_left_app, B. reflexivity.
  - intros g'. cbn [app fold_left istep]. rewrite fold_left_app, C. reflexivity.
Qed.

Lemma win_ok c s l s1 os ins : reach c s -> step s l = Some (s1, os) -> Binv s ins ->
  ok_from 0 None ins (win_evs s l os s1) /\ fold_left hstep (win_evs s l os s1) None = None /\
  Binv s1 (fun g => fold_left (istep g) (win_evs s l os s1) (ins g)).
Proof.
  intros R H [Bo B0]. pose proof (step_rd _ _ _ _ _ R H) as Rd.
  assert (Hl : takes_lock l = true -> ins (gid l) = None).
  { intros T. destruct l; try discriminate T; cbn [gid]; try (apply Bo; lia).
    destruct Rd as (f & Rd). rewrite B0, Rd. reflexivity. }
  destruct (lock_evs_ok l os ins Hl) as (A & B & C).
  unfold win_evs.
  (* the reader's part, from the state after the critical section *)
  assert (Rp : ok_from 0 None ins (recv_evs l (rd s) (rd s1)) /\
               fold_left hstep (recv_evs l (rd s) (rd s1)) None = None /\
               Binv s1 (fun g => fold_left (istep g) (recv_evs l (rd s) (rd s1)) (ins g))).
  { assert (Start : (rd_in_recv (rd s) = false) ->
       ok_from 0 None ins ((if rd_alive (rd s1) then [RecvB 0] else []) ++ (if is_hold (rd s1) then [RecvE 0] else [])) /\
       fold_left hstep ((if rd_alive (rd s1) then [RecvB 0] else []) ++ (if is_hold (rd s1) then [RecvE 0] else [])) None = None /\
       Binv s1 (fun g => fold_left (istep g) ((if rd_alive (rd s1) then [RecvB 0] else []) ++ (if is_hold (rd s1) then [RecvE 0] else [])) (ins g))).
    { intros Nr. rewrite Nr in B0.
      destruct (rd s1) eqn:R1; cbn; unfold Binv; rewrite ?R1; cbn; rewrite ?B0; repeat split; auto;
        intros g Hg; (destruct g as [|g0]; [lia|apply Bo; lia]). }
    assert (Other : (rd s1 = rd s \/ (rd s = RIdle /\ exists f, rd s1 = RHold f)) ->
       ok_from 0 None ins (if rd_in_recv (rd s) && is_hold (rd s1) then [RecvE 0] else []) /\
       fold_left hstep (if rd_in_recv (rd s) && is_hold (rd s1) then [RecvE 0] else []) None = None /\
       Binv s1 (fun g => fold_left (istep g) (if rd_in_recv (rd s) && is_hold (rd s1) then [RecvE 0] else []) (ins g))).
    { intros [E|(E & f & E1)].
      - rewrite E. assert (Z : rd_in_recv (rd s) && is_hold (rd s) = false) by (destruct (rd s); reflexivity).
        rewrite Z. cbn. unfold Binv. rewrite E. auto.
      - rewrite E, E1. rewrite E in B0. cbn in B0. cbn. unfold Binv. rewrite E1. cbn. rewrite B0.
        repeat split; auto. intros g Hg. destruct g as [|g0]; [lia|apply Bo; lia]. }
    destruct l; cbn [recv_evs]; try (apply Other; exact Rd).
    - apply Start. destruct Rd as [-> | ->]; reflexivity.
    - apply Start. destruct Rd as (f & ->). reflexivity. }
  destruct Rp as (A' & B' & C').
  split; [|split].
  - apply ok_from_app; auto. rewrite B. eapply ok_from_ext; [|exact A']. intros g. cbv beta. rewrite C. reflexivity.
  - rewrite fold_left_app, B. exact B'.
  - destruct C' as [C1 C2]. split.
    + intros g Hg. rewrite fold_left_app, C. apply C1; auto.
    + rewrite fold_left_app, C. exact C2.
Qed.

(** * 5. every run *)
Lemma evs_ok c : forall tr s s' oss ins, reach c s -> run s tr = Some (s', oss) -> Binv s ins ->
  ok_from 0 None ins (evs s tr).
Proof.
  induction tr as [|l r IH]; cbn [run evs]; intros s s' oss ins R H Bi; [exact I|].
  destruct (step s l) as [[s1 os]|] eqn:E; [|discriminate].
  destruct (run s1 r) as [[s2 oss2]|] eqn:E2; [|discriminate].
  destruct (win_ok _ _ _ _ _ _ R E Bi) as (A & B & C).
  apply ok_from_app; auto. rewrite B. eapply IH; eauto. eapply reach_step; eauto.
Qed.

Theorem model_disciplined c tr s oss : run (init_of c) tr = Some (s, oss) ->
  well_locked (evs (init_of c) tr) /\ disciplined 0 (evs (init_of c) tr).
Proof.
  intros H. apply ok_from_disciplined. eapply evs_ok; [apply reach_init|exact H|]. split; auto.
Qed.

(* hence the Channel contract, at every prefix of the events of every run *)
Theorem model_no_overlap c tr s oss : run (init_of c) tr = Some (s, oss) ->
  forall p r, evs (init_of c) tr = p ++ r ->
    (forall i b i' b', open p i b -> is_wrB b -> open p i' b' -> is_wrB b' -> i = i' /\ b = b') /\
    (forall i b, open p i b -> is_wrB b -> holder p = Some (ev_g b)) /\
    (forall i b i' b', open p i b -> is_rdB b -> open p i' b' -> is_rdB b' -> i = i' /\ b = b').
Proof. intros H. destruct (model_disciplined _ _ _ _ H) as [W D]. apply (no_overlap 0); auto. Qed.

(** * 6. the reading is complete: every channel operation of a window is among its events *)
Definition is_wr_begin (e : ev) : bool := match e with SendB _ | CloseB _ => true | _ => false end.

Lemma win_evs_complete s l s' os : step s l = Some (s', os) ->
  length (filter is_wr_begin (win_evs s l os s')) = length (filter is_chan_op os) /\
  (takes_lock l = false -> filter is_chan_op os = []).
Proof.
  intros H. destruct (sends_in_critical_sections _ _ _ _ H) as (s1 & os1 & _ & _ & Co & _).
  assert (Nl : takes_lock l = false -> filter is_chan_op os = []).
  { intros T. destruct (filter is_chan_op os) eqn:F; auto. exfalso.
    destruct (chan_op_labels _ _ _ Co ltac:(discriminate)) as [-> |[(u & ->)|[(n & ->)|(n & ->)]]]; discriminate T. }
  split; auto. unfold win_evs. rewrite filter_app, app_length.
  assert (Z : filter is_wr_begin (recv_evs l (rd s) (rd s')) = []).
  { unfold recv_evs. destruct l; try (destruct (rd_in_recv (rd s) && is_hold (rd s')); reflexivity);
      destruct (rd_alive (rd s')), (is_hold (rd s')); reflexivity. }
  rewrite Z. cbn [length]. rewrite Nat.add_0_r.
  unfold lock_evs. destruct (takes_lock l) eqn:T; [|rewrite Nl; auto].
  cbn [app filter is_wr_begin]. rewrite filter_app. cbn [filter is_wr_begin]. rewrite app_nil_r.
  generalize (gid l). clear. intros g. induction os as [|o r IH]; cbn; auto. destruct o; cbn; auto.
Qed.

(** * non-vacuity: a call is delivered while the reader sits in Recv, then Stop closes the channel *)
Definition tr_disc : list label :=
  [LStart; LRelNext; LFeed (FMsg (InMsgs false [ex_call [49%N] [91;93]%N])); LRelRead; LRelBarrier; LRelAcquire 0;
   LGate [91;93]%N (ORes [50%N]); LRelHandled 0; LRelDeliver 0; LCallStop 1; LRelStop 1].
Example model_disciplined_nonvacuous :
  run (init_of ex_cfg) tr_disc <> None /\
  evs (init_of ex_cfg) tr_disc =
    [RecvB 0; Lock 1; Unlock 1; RecvE 0; Lock 0; Unlock 0; RecvB 0; Lock 1; Unlock 1; Lock 2; Unlock 2; Lock 2; Unlock 2;
     Lock 3; SendB 3; SendE 3; Unlock 3; Lock 8; CloseB 8; CloseE 8; Unlock 8].
Proof. split; [vm_compute; discriminate|vm_compute; reflexivity]. Qed.

Example reader_exclusive_nonvacuous :
  exists s s' os, reach ex_cfg s /\ step s LStart = Some (s', os) /\ rd s = RExited /\ starts s = 1.
Proof.
  exists (st_of ex_cfg [LStart; LRelNext; LFeed (FErr SCEOF); LRelRead]). eexists _, _.
  split; [apply reach_st_of; vm_compute; discriminate|]. split; [vm_compute; reflexivity|]. split; reflexivity.
Qed.

Lemma events_spec :
  (forall s l os s', win_evs s l os s' = lock_evs l os ++ recv_evs l (rd s) (rd s')) /\
  (forall l os, lock_evs l os =
     if takes_lock l then [Lock (gid l)] ++ flat_map (op_evs (gid l)) os ++ [Unlock (gid l)] else []) /\
  (forall g o, op_evs g o = match o with
                            | OSend _ _ _ | OSendReq _ _ _ _ => [SendB g; SendE g]
                            | OClose => [CloseB g; CloseE g]
                            | _ => []
                            end) /\
  (forall l r r', recv_evs l r r' =
     match l with
     | LStart | LRelRead => (if rd_alive r' then [RecvB 0] else []) ++ (if is_hold r' then [RecvE 0] else [])
     | _ => if rd_in_recv r && is_hold r' then [RecvE 0] else []
     end) /\
  (forall s, evs s [] = []) /\
  (forall s l r, evs s (l :: r) = match step s l with Some (s1, os) => win_evs s l os s1 ++ evs s1 r | None => [] end).
Proof. repeat split. Qed.
