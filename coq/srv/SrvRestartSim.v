(* SrvRestartSim: the restart simulation (C08.8).
   [emb ot ou ds dc s]: the state s of a server with, in front of its tasks and dispatch units, the finished tasks
   [ot] and finished units [ou] of earlier incarnations (and [ds], [dc] more Starts and closes counted): every task
   index (sem_wait, used, labels) is shifted by |ot|, every unit index (t_unit, dp, labels) by |ou|.
   Theorem [step_emb]: [step] commutes with [emb] for EVERY label (indices shifted by [sh_label]) with the SAME
   observations, and the labels that address an old task or unit are disabled.  Hence the runs of [emb s] are exactly
   the runs of s with shifted labels and identical observations (a bisimulation, both directions).
   A restarted server whose earlier incarnations registered no Callback (in particular: without AllowPush) IS the
   embedding of a freshly started server with the same pending environment calls, and that fresh state is reachable:
   every property of the observations of a fresh server holds of the restarted one. *)
From Coq Require Import List NArith ZArith Bool Arith Lia.
From RecordUpdate Require Import RecordUpdate.
From JV Require Import Bytes Msg SrvModel SrvLemmas SrvBasics SrvC01 SrvC07 SrvC09 SrvC10 SrvC08 SrvC08b SrvC08c SrvC08q.
From JV Require SrvC09b.
Import ListNotations.

(** * list facts *)
Lemma nth_error_app_shift {A} (l r : list A) k : nth_error (l ++ r) (length l + k) = nth_error r k.
Proof. rewrite nth_error_app2 by lia. f_equal. lia. Qed.

Lemma upd_nth_app_shift {A} (f : A -> A) (l r : list A) k : upd_nth (length l + k) f (l ++ r) = l ++ upd_nth k f r.
Proof. induction l as [|x l IH]; cbn; auto. f_equal. exact IH. Qed.

Lemma upd_nth_map {A B} (h : A -> B) (f : A -> A) (g : B -> B) k l :
  (forall x, g (h x) = h (f x)) -> upd_nth k g (map h l) = map h (upd_nth k f l).
Proof. intros H. revert k; induction l as [|x l IH]; intros [|k]; cbn; auto; f_equal; auto. Qed.

Lemma assoc_map_snd {A B} (h : A -> B) k (m : list (bytes * A)) :
  assoc k (map (fun p => (fst p, h (snd p))) m) = option_map h (assoc k m).
Proof. induction m as [|[k' v] m IH]; cbn; auto. destruct (beq k k'); auto. Qed.

Lemma assoc_del_map_snd {A B} (h : A -> B) k (m : list (bytes * A)) :
  assoc_del k (map (fun p => (fst p, h (snd p))) m) = map (fun p => (fst p, h (snd p))) (assoc_del k m).
Proof. induction m as [|[k' v] m IH]; cbn; auto. destruct (beq k k'); cbn; auto. f_equal; auto. Qed.

Lemma find_idx_shift {A} (p : A -> bool) : forall l i, find_idx p (S i) l = option_map S (find_idx p i l).
Proof. induction l as [|x l IH]; intros i; cbn; auto. destruct (p x); auto. Qed.

Lemma find_idx_app_none {A} (p : A -> bool) : forall l r i, (forall x, In x l -> p x = false) ->
  find_idx p i (l ++ r) = find_idx p (i + length l) r.
Proof.
  induction l as [|x l IH]; intros r i H; cbn.
  - rewrite Nat.add_0_r. reflexivity.
  - rewrite (H x (or_introl eq_refl)). rewrite IH by (intros y Hy; apply H; right; auto). f_equal. lia.
Qed.

Lemma find_idx_add {A} (p : A -> bool) : forall l i n, find_idx p (n + i) l = option_map (Nat.add n) (find_idx p i l).
Proof.
  intros l i n. induction n as [|n IH]; cbn.
  - destruct (find_idx p i l); reflexivity.
  - rewrite find_idx_shift, IH. destruct (find_idx p i l); reflexivity.
Qed.

Lemma find_idx_map {A B} (h : A -> B) (p : B -> bool) : forall l i, find_idx p i (map h l) = find_idx (fun x => p (h x)) i l.
Proof. induction l as [|x l IH]; intros i; cbn; auto. destruct (p (h x)); auto. Qed.

Lemma find_unit_app_none (p : nat -> unit_ -> bool) : forall l r i,
  (forall k x, nth_error l k = Some x -> p (i + k) x = false) -> find_unit p i (l ++ r) = find_unit p (i + length l) r.
Proof.
  induction l as [|x l IH]; intros r i H; cbn.
  - rewrite Nat.add_0_r. reflexivity.
  - pose proof (H 0 x eq_refl) as H0. rewrite Nat.add_0_r in H0. rewrite H0.
    rewrite IH; [f_equal; lia|]. intros k y E. replace (S i + k) with (i + S k) by lia. apply H. exact E.
Qed.

Lemma find_unit_shift (p : nat -> unit_ -> bool) n : forall l i,
  find_unit p (n + i) l = option_map (Nat.add n) (find_unit (fun j => p (n + j)) i l).
Proof.
  induction l as [|x l IH]; intros i; cbn; auto. destruct (p (n + i) x); auto.
  replace (S (n + i)) with (n + S i) by lia. apply IH.
Qed.

Lemma find_unit_ext (p q : nat -> unit_ -> bool) : forall l i, (forall j x, p j x = q j x) -> find_unit p i l = find_unit q i l.
Proof. induction l as [|x l IH]; intros i H; cbn; auto. rewrite H. destruct (q i x); auto. Qed.

(* two states with the same fields are equal *)
Lemma state_ext (a b : state) :
  c_K a = c_K b -> c_push a = c_push b -> c_builtin a = c_builtin b -> c_methods a = c_methods b ->
  c_unblock a = c_unblock b -> ch_in a = ch_in b -> send_fail a = send_fail b -> running a = running b ->
  stop_err a = stop_err b -> work_closed a = work_closed b -> closes a = closes b -> starts a = starts b ->
  rd a = rd b -> dp a = dp b -> inq a = inq b -> units a = units b -> tasks a = tasks b -> nbar a = nbar b ->
  sem_free a = sem_free b -> sem_wait a = sem_wait b -> used a = used b -> calls a = calls b ->
  call_id a = call_id b -> cbs a = cbs b -> wg a = wg b -> ops a = ops b -> waits a = waits b ->
  ended a = ended b -> crash a = crash b -> a = b.
Proof. destruct a, b. cbn. intros. subst. reflexivity. Qed.

Ltac st_ext := apply state_ext; cbn; try reflexivity.

Section Emb.
  Variable ot : list task.
  Variable ou : list unit_.
  Variables ds dc : nat.
  Notation nt := (length ot).
  Notation nu := (length ou).
  (* the old tasks are finished and belong to old units; the old units are finished *)
  Hypothesis Hot : forall t, In t ot -> finished t = true /\ t_unit t < nu.
  Hypothesis Hou : forall u, In u ou -> u_st u = UFinished.

  Definition sh_task (t : task) : task :=
    mkTask (nu + t_unit t) (t_id t) (t_method t) (t_params t) (t_pre t) (t_hasctx t) (t_builtin t) (t_cancelled t) (t_st t).
  Definition sh_dp (d : dppc) : dppc :=
    match d with DAtBarrier u => DAtBarrier (nu + u) | DBarrierWait u => DBarrierWait (nu + u) | x => x end.
  Definition sh_used (p : bytes * nat) : bytes * nat := (fst p, nt + snd p).

  Definition emb (s : state) : state :=
    mkState (c_K s) (c_push s) (c_builtin s) (c_methods s) (c_unblock s) (ch_in s) (send_fail s) (running s)
      (stop_err s) (work_closed s) (dc + closes s) (ds + starts s) (rd s) (sh_dp (dp s)) (inq s)
      (ou ++ units s) (ot ++ map sh_task (tasks s)) (nbar s) (sem_free s) (map (Nat.add nt) (sem_wait s))
      (map sh_used (used s)) (calls s) (call_id s) (cbs s) (wg s) (ops s) (waits s) (ended s) (crash s).

  Definition sh_label (l : label) : label :=
    match l with
    | LRelAcquire k => LRelAcquire (nt + k) | LRelHandled k => LRelHandled (nt + k) | LRelDeliver u => LRelDeliver (nu + u)
    | x => x
    end.

  Definition embp (x : state * list obs) : state * list obs := (emb (fst x), snd x).

  (** ** tasks *)
  Lemma sh_task_st t x : sh_task (t <| t_st := x |>) = sh_task t <| t_st := x |>.
  Proof. reflexivity. Qed.
  Lemma sh_task_cancel t : sh_task (t <| t_cancelled := true |>) = sh_task t <| t_cancelled := true |>.
  Proof. reflexivity. Qed.

  Lemma emb_nth_task s k : nth_error (tasks (emb s)) (nt + k) = option_map sh_task (nth_error (tasks s) k).
  Proof.
    cbn. rewrite nth_error_app_shift. destruct (nth_error (tasks s) k) as [t|] eqn:E.
    - apply map_nth_error. exact E.
    - apply nth_error_None. rewrite map_length. apply nth_error_None. exact E.
  Qed.

  Lemma emb_nth_old s k : k < nt -> exists t, nth_error (tasks (emb s)) k = Some t /\ finished t = true.
  Proof.
    intros L. cbn. rewrite nth_error_app1 by exact L.
    destruct (nth_error ot k) as [t|] eqn:E; [|apply nth_error_None in E; lia].
    exists t. split; auto. apply (Hot t). eapply nth_error_In; eauto.
  Qed.

  Lemma emb_nth_unit s u : nth_error (units (emb s)) (nu + u) = nth_error (units s) u.
  Proof. cbn. apply nth_error_app_shift. Qed.

  Lemma emb_nth_unit_old s u : u < nu -> exists un, nth_error (units (emb s)) u = Some un /\ u_st un = UFinished.
  Proof.
    intros L. cbn. rewrite nth_error_app1 by exact L.
    destruct (nth_error ou u) as [un|] eqn:E; [|apply nth_error_None in E; lia].
    exists un. split; auto. apply Hou. eapply nth_error_In; eauto.
  Qed.

  (* a point update of a task that commutes with the shift *)
  Lemma emb_set_task s k (f : task -> task) : (forall t, f (sh_task t) = sh_task (f t)) ->
    set_task (nt + k) f (emb s) = emb (set_task k f s).
  Proof.
    intros Hf. unfold set_task. st_ext.
    rewrite upd_nth_app_shift. f_equal. apply upd_nth_map. exact Hf.
  Qed.

  Lemma emb_upd_tasks s k (f : task -> task) : (forall t, f (sh_task t) = sh_task (f t)) ->
    upd_nth (nt + k) f (tasks (emb s)) = ot ++ map sh_task (upd_nth k f (tasks s)).
  Proof. intros Hf. cbn. rewrite upd_nth_app_shift. f_equal. apply upd_nth_map. exact Hf. Qed.

  Lemma emb_set_unit s u (f : unit_ -> unit_) : set_unit (nu + u) f (emb s) = emb (set_unit u f s).
  Proof. unfold set_unit. st_ext. apply upd_nth_app_shift. Qed.

  Lemma filter_shift_neq k (q : list nat) :
    filter (fun j => negb (j =? nt + k)) (map (Nat.add nt) q) = map (Nat.add nt) (filter (fun j => negb (j =? k)) q).
  Proof.
    induction q as [|j q IH]; cbn; auto.
    replace (nt + j =? nt + k) with (j =? k).
    - destruct (j =? k); cbn; auto. f_equal. exact IH.
    - destruct (Nat.eqb_spec j k), (Nat.eqb_spec (nt + j) (nt + k)); auto; lia.
  Qed.

  Lemma emb_cancel_task s k : cancel_task (nt + k) (emb s) = emb (cancel_task k s).
  Proof.
    unfold cancel_task. rewrite emb_nth_task. destruct (nth_error (tasks s) k) as [t|] eqn:E; cbn [option_map]; auto.
    change (t_st (sh_task t)) with (t_st t).
    destruct (t_st t); st_ext; rewrite ?upd_nth_app_shift; try apply filter_shift_neq; f_equal.
    all: rewrite ?(upd_nth_map sh_task (fun t => t <| t_cancelled := true |>) (fun t => t <| t_cancelled := true |>)) by reflexivity.
    all: rewrite ?(upd_nth_map sh_task (fun t => t <| t_st := TDone (Some cancel_err) |>) (fun t => t <| t_st := TDone (Some cancel_err) |>)) by reflexivity.
    all: reflexivity.
  Qed.
  (** ** the semaphore *)
  Lemma emb_grant : forall fuel s acc,
    grant fuel (emb s) acc = (emb (fst (grant fuel s acc)), snd (grant fuel s acc)).
  Proof.
    induction fuel as [|f IH]; intros s acc; [reflexivity|].
    cbn [grant]. change (sem_wait (emb s)) with (map (Nat.add nt) (sem_wait s)).
    change (sem_free (emb s)) with (sem_free s).
    destruct (sem_wait s) as [|k r]; [reflexivity|]. cbn [map]. destruct (sem_free s) as [|fr]; [reflexivity|].
    rewrite emb_nth_task. destruct (nth_error (tasks s) k) as [t|]; cbn [option_map]; [|reflexivity].
    change (t_builtin (sh_task t)) with (t_builtin t). change (t_params (sh_task t)) with (t_params t).
    change (t_cancelled (sh_task t)) with (t_cancelled t).
    destruct (t_builtin t).
    - rewrite <- IH. f_equal. st_ext. apply emb_upd_tasks. reflexivity.
    - rewrite <- IH. f_equal. st_ext. apply emb_upd_tasks. reflexivity.
  Qed.

  Lemma emb_fold_cancel : forall (l : list (bytes * nat)) s,
    fold_left (fun st p => cancel_task (snd p) st) (map sh_used l) (emb s) =
    emb (fold_left (fun st p => cancel_task (snd p) st) l s).
  Proof.
    induction l as [|p l IH]; intros s; cbn [fold_left map]; auto.
    cbn [sh_used snd]. rewrite emb_cancel_task. apply IH.
  Qed.

  (** ** stopLocked, stage by stage *)
  Definition stage1 (s : state) : state := s <| closes ::= S |> <| inq ::= stop_queue |>.
  Definition stage2 (s1 : state) : state :=
    if work_closed s1 then s1 <| crash := Some CrCloseOfClosedWork |> else s1 <| work_closed := true |>.
  Definition stage3 (s2 : state) : state :=
    s2 <| cbs ::= map (fun c => match assoc (cb_id c) (calls s2) with
                                | Some _ => c <| cb_cancelled := true |>
                                              <| cb_watch := match cb_watch c with WBlocked => WParked | w => w end |>
                                | None => c end) |>.
  Definition stage4 (s3 : state) : state := fold_left (fun st p => cancel_task (snd p) st) (used s3) s3.
  Definition stage5 (c : stopcause) (s4 : state) : state := s4 <| used := [] |> <| stop_err := Some c |> <| running := false |>.
  Definition stage6 (s5 : state) : state :=
    if c_unblock s5 then s5 <| ch_in ::= fun q => q ++ [FErr SCClosing] |> else s5.

  Lemma stop_locked_stages c s : stop_locked c s =
    if negb (running s) then (s, []) else (stage6 (stage5 c (stage4 (stage3 (stage2 (stage1 s))))), [OClose]).
  Proof. unfold stop_locked, stage6, stage5, stage4, stage3, stage2, stage1. cbv zeta. reflexivity. Qed.

  Lemma emb_stage1 s : stage1 (emb s) = emb (stage1 s).
  Proof. unfold stage1. st_ext. lia. Qed.
  Lemma emb_stage2 s : stage2 (emb s) = emb (stage2 s).
  Proof. unfold stage2. change (work_closed (emb s)) with (work_closed s). destruct (work_closed s); st_ext. Qed.
  Lemma emb_stage3 s : stage3 (emb s) = emb (stage3 s).
  Proof. unfold stage3. st_ext. Qed.
  Lemma emb_stage4 s : stage4 (emb s) = emb (stage4 s).
  Proof. unfold stage4. change (used (emb s)) with (map sh_used (used s)). apply emb_fold_cancel. Qed.
  Lemma emb_stage5 c s : stage5 c (emb s) = emb (stage5 c s).
  Proof. unfold stage5. st_ext. Qed.
  Lemma emb_stage6 s : stage6 (emb s) = emb (stage6 s).
  Proof. unfold stage6. change (c_unblock (emb s)) with (c_unblock s). destruct (c_unblock s); [st_ext|reflexivity]. Qed.

  Lemma emb_stop_locked c s : stop_locked c (emb s) = embp (stop_locked c s).
  Proof.
    rewrite !stop_locked_stages. change (running (emb s)) with (running s). destruct (running s); cbn [negb]; [|reflexivity].
    unfold embp. cbn [fst snd]. rewrite emb_stage1, emb_stage2, emb_stage3, emb_stage4, emb_stage5, emb_stage6. reflexivity.
  Qed.

  (** ** the dispatcher's nextRequest *)
  Lemma emb_pre_err s ids m : pre_err (emb s) ids m = pre_err s ids m.
  Proof.
    unfold pre_err. change (used (emb s)) with (map (fun p => (fst p, nt + snd p)) (used s)).
    rewrite assoc_map_snd. destruct (assoc (fix_id (j_id m)) (used s)); reflexivity.
  Qed.

  Lemma emb_mk_task s u ids m : mk_task (emb s) (nu + u) ids m = sh_task (mk_task s u ids m).
  Proof.
    unfold mk_task. rewrite emb_pre_err. destruct (pre_err s ids m); [reflexivity|].
    destruct (is_nil (j_method m)); [reflexivity|].
    change (assign_method (emb s) (j_method m)) with (assign_method s (j_method m)).
    destruct (assign_method s (j_method m)); reflexivity.
  Qed.

  Lemma emb_reserve : forall ts base us,
    reserve (nt + base) (map sh_task ts) (map sh_used us) = map sh_used (reserve base ts us).
  Proof.
    induction ts as [|t r IH]; intros base us; cbn [reserve map]; auto.
    change (t_hasctx (sh_task t)) with (t_hasctx t). change (t_id (sh_task t)) with (t_id t).
    replace (S (nt + base)) with (nt + S base) by lia.
    destruct (t_hasctx t && negb (is_nil (t_id t))); [|apply IH].
    rewrite <- IH. f_equal. cbn [map]. f_equal. unfold sh_used. apply assoc_del_map_snd.
  Qed.

  Lemma filter_sh_task (p : task -> bool) ts : (forall t, p (sh_task t) = p t) ->
    filter p (map sh_task ts) = map sh_task (filter p ts).
  Proof. intros H. induction ts as [|t r IH]; cbn; auto. rewrite H. destruct (p t); cbn; f_equal; auto. Qed.

  Lemma emb_dequeue s : dequeue (emb s) = emb (dequeue s).
  Proof.
    unfold dequeue. change (inq (emb s)) with (inq s). change (running (emb s)) with (running s).
    destruct (inq s) as [|[batch ms] q].
    - destruct (running s); st_ext.
    - cbv zeta.
      assert (Ts : map (mk_task (emb s) (length (units (emb s))) (map (fun m => fix_id (j_id m)) ms)) ms =
                   map sh_task (map (mk_task s (length (units s)) (map (fun m => fix_id (j_id m)) ms)) ms)).
      { rewrite map_map. apply map_ext. intros m. cbn [units emb]. rewrite app_length. apply emb_mk_task. }
      rewrite Ts. st_ext.
      + rewrite app_length. reflexivity.
      + rewrite <- app_assoc. f_equal. f_equal.
        rewrite filter_sh_task by reflexivity. rewrite map_length. reflexivity.
      + rewrite <- app_assoc, map_app. reflexivity.
      + rewrite app_length, map_length. apply emb_reserve.
  Qed.

  (** ** the tasks of a unit, replies *)
  Lemma filter_map {A B} (h : A -> B) (p : B -> bool) (l : list A) :
    filter p (map h l) = map h (filter (fun x => p (h x)) l).
  Proof. induction l as [|x l IH]; cbn; auto. destruct (p (h x)); cbn; f_equal; auto. Qed.

  Lemma emb_unit_tasks s u : unit_tasks (emb s) (nu + u) = map sh_task (unit_tasks s u).
  Proof.
    unfold unit_tasks. cbn [tasks emb]. rewrite filter_app.
    rewrite (filter_none (fun t => t_unit t =? nu + u) ot).
    - cbn [app]. rewrite filter_map. f_equal. apply filter_ext. intros t. cbn [t_unit sh_task].
      destruct (Nat.eqb_spec (nu + t_unit t) (nu + u)), (Nat.eqb_spec (t_unit t) u); auto; lia.
    - intros t It. destruct (Hot t It) as [_ L]. apply Nat.eqb_neq. lia.
  Qed.

  Lemma responses_sh_task ts : responses (map sh_task ts) = responses ts.
  Proof.
    induction ts as [|t r IH]; cbn [map responses]; auto.
    change (response_of (sh_task t)) with (response_of t). rewrite IH. reflexivity.
  Qed.

  Lemma forallb_finished_sh ts : forallb finished (map sh_task ts) = forallb finished ts.
  Proof. induction ts as [|t r IH]; cbn; auto. rewrite IH. reflexivity. Qed.

  Lemma emb_all_finished s u : all_finished (emb s) (nu + u) = all_finished s u.
  Proof. unfold all_finished. rewrite emb_unit_tasks. apply forallb_finished_sh. Qed.

  Lemma emb_unit_running s t : unit_running (emb s) (sh_task t) = unit_running s t.
  Proof. unfold unit_running. cbn [t_unit sh_task]. rewrite emb_nth_unit. reflexivity. Qed.

  Lemma emb_release_ids : forall ts s, release_ids (map sh_task ts) (emb s) = emb (release_ids ts s).
  Proof.
    induction ts as [|t r IH]; intros s; cbn [release_ids map]; auto.
    change (t_hasctx (sh_task t)) with (t_hasctx t). change (is_note (sh_task t)) with (is_note t).
    change (t_id (sh_task t)) with (t_id t).
    destruct (t_hasctx t && negb (is_note t)); [|apply IH].
    change (used (emb s)) with (map (fun p => (fst p, nt + snd p)) (used s)). rewrite assoc_map_snd.
    destruct (assoc (t_id t) (used s)) as [owner|]; cbn [option_map]; [|apply IH].
    rewrite emb_cancel_task. rewrite <- IH. f_equal. st_ext. apply (assoc_del_map_snd (Nat.add nt)).
  Qed.

  (* the old units are never complete: they are finished *)
  Lemma emb_find_complete s :
    find_unit (unit_complete (emb s)) 0 (units (emb s)) = option_map (Nat.add nu) (find_unit (unit_complete s) 0 (units s)).
  Proof.
    cbn [units emb]. rewrite find_unit_app_none.
    - cbn [Nat.add]. replace nu with (nu + 0) at 1 by lia. rewrite find_unit_shift. f_equal.
      apply find_unit_ext. intros j x. unfold unit_complete. destruct (u_st x); auto. apply emb_all_finished.
    - intros k x E. unfold unit_complete. rewrite (Hou x (nth_error_In _ _ E)). reflexivity.
  Qed.

  (** ** wake-ups *)
  Definition settle_dp (s : state) : option (state * list obs) :=
    match dp s with
    | DWaitWork => if negb (running s) || negb (is_nil_list (inq s)) then Some (dequeue s, []) else None
    | DBarrierWait u =>
        if nbar s =? 0 then
          match nth_error (units s) u with
          | Some un => Some (set_unit u (fun x => x <| u_st := URunning |>) s
                               <| nbar := u_notes un |> <| wg ::= S |> <| dp := DAtNext |>, [])
          | None => None
          end
        else None
    | _ => None
    end.
  Definition settle_units (s : state) : option (state * list obs) :=
    match find_unit (unit_complete s) 0 (units s) with
    | Some i =>
        match nth_error (units s) i with
        | Some un =>
            if is_nil_list (responses (unit_tasks s i))
            then Some (set_unit i (fun x => x <| u_st := UFinished |>) s <| wg ::= pred |>, [])
            else Some (set_unit i (fun x => x <| u_st := UAtDeliver |>) s, [])
        | None => None
        end
    | None =>
        if (0 <? waits s) && (wg s =? 0) then
          if is_nil_list (inq s)
          then Some (s <| waits ::= pred |>, [OWaitRet (stop_err s)])
          else Some (s <| waits ::= pred |> <| crash := Some CrQueueNotEmpty |>, [OCrash CrQueueNotEmpty])
        else None
    end.
  Definition settle_rest (s : state) : option (state * list obs) :=
    match settle_dp s with Some r => Some r | None => settle_units s end.

  Lemma settle1_rest s : settle1 s =
    match rd s, ch_in s with
    | RIdle, f :: q => Some (s <| rd := RHold f |> <| ch_in := q |>, [])
    | _, _ => settle_rest s
    end.
  Proof. unfold settle1, settle_rest, settle_dp, settle_units. destruct (rd s); try reflexivity; destruct (ch_in s); reflexivity. Qed.

  Lemma emb_settle_dp s : settle_dp (emb s) = option_map embp (settle_dp s).
  Proof.
    unfold settle_dp. change (dp (emb s)) with (sh_dp (dp s)). destruct (dp s) as [| | |u|u|]; cbn [sh_dp]; try reflexivity.
    - change (running (emb s)) with (running s). change (inq (emb s)) with (inq s).
      destruct (negb (running s) || negb (is_nil_list (inq s))); [|reflexivity].
      rewrite emb_dequeue. reflexivity.
    - change (nbar (emb s)) with (nbar s). destruct (nbar s =? 0); [|reflexivity].
      rewrite emb_nth_unit. destruct (nth_error (units s) u) as [un|]; [|reflexivity].
      cbn [option_map]. unfold embp. cbn [fst snd]. f_equal. f_equal. rewrite emb_set_unit. st_ext.
  Qed.

  Lemma emb_settle_units s : settle_units (emb s) = option_map embp (settle_units s).
  Proof.
    unfold settle_units. rewrite emb_find_complete.
    destruct (find_unit (unit_complete s) 0 (units s)) as [i|]; cbn [option_map].
    - rewrite emb_nth_unit. destruct (nth_error (units s) i) as [un|]; [|reflexivity].
      rewrite emb_unit_tasks, responses_sh_task.
      destruct (is_nil_list (responses (unit_tasks s i))); cbn [option_map]; unfold embp; cbn [fst snd];
        f_equal; f_equal; rewrite emb_set_unit; st_ext.
    - change (waits (emb s)) with (waits s). change (wg (emb s)) with (wg s). change (inq (emb s)) with (inq s).
      destruct ((0 <? waits s) && (wg s =? 0)); [|reflexivity].
      destruct (is_nil_list (inq s)); cbn [option_map]; unfold embp; cbn [fst snd]; f_equal; f_equal; st_ext.
  Qed.

  Lemma emb_settle1 s : settle1 (emb s) = option_map embp (settle1 s).
  Proof.
    rewrite !settle1_rest. change (rd (emb s)) with (rd s). change (ch_in (emb s)) with (ch_in s).
    assert (Rest : settle_rest (emb s) = option_map embp (settle_rest s)).
    { unfold settle_rest. rewrite emb_settle_dp. destruct (settle_dp s); [reflexivity|]. apply emb_settle_units. }
    destruct (rd s); try exact Rest. destruct (ch_in s) as [|f q]; [exact Rest|].
    cbn [option_map]. unfold embp. cbn [fst snd]. f_equal.
  Qed.

  Lemma emb_settle : forall fuel s acc, settle fuel (emb s) acc = embp (settle fuel s acc).
  Proof.
    induction fuel as [|f IH]; intros s acc; [reflexivity|]. cbn [settle]. rewrite emb_settle1.
    destruct (settle1 s) as [[s1 os1]|]; cbn [option_map embp fst snd]; [apply IH|reflexivity].
  Qed.

  (* more fuel than needed changes nothing *)
  Lemma settle_more_fuel : forall f d s acc, settle1 (fst (settle f s acc)) = None -> settle (f + d) s acc = settle f s acc.
  Proof.
    induction f as [|f IH]; intros d s acc H; cbn [settle Nat.add] in *.
    - apply SrvC09b.settle_none. exact H.
    - destruct (settle1 s) as [[s1 os1]|] eqn:E; [apply IH; exact H|]. destruct d; reflexivity.
  Qed.

  Lemma emb_settle_window s os : settle (settle_fuel (emb s)) (emb s) os = embp (settle (settle_fuel s) s os).
  Proof.
    assert (F : settle_fuel (emb s) = settle_fuel s + 2 * nu).
    { unfold settle_fuel. cbn [units ch_in inq waits emb]. rewrite app_length. lia. }
    rewrite F, emb_settle. f_equal. apply settle_more_fuel. apply settle_settled. apply mu_fuel.
  Qed.

  (** ** the reader *)
  Lemma emb_complete_cb i r s : complete_cb i r (emb s) = embp (complete_cb i r s).
  Proof.
    unfold complete_cb. change (cbs (emb s)) with (cbs s). destruct (nth_error (cbs s) i) as [c|]; [|reflexivity].
    unfold embp. cbn [fst snd]. f_equal; try st_ext.
  Qed.

  Lemma emb_filter_batch : forall ms s keep acc,
    filter_batch ms (emb s) keep acc = let '(s1, k, o) := filter_batch ms s keep acc in (emb s1, k, o).
  Proof.
    induction ms as [|m r IH]; intros s keep acc; cbn [filter_batch]; [reflexivity|].
    destruct (is_req_or_notif m); [apply IH|].
    change (calls (emb s)) with (calls s). change (c_push (emb s)) with (c_push s).
    destruct (assoc (fix_id (j_id m)) (calls s)) as [i|].
    - rewrite emb_complete_cb. destruct (complete_cb i _ s) as [s1 os1]. cbn [embp fst snd]. apply IH.
    - destruct (c_push s && is_nil (j_method m) && has_reply_fields m); apply IH.
  Qed.

  Lemma emb_read_cs f s : read_cs f (emb s) = embp (read_cs f s).
  Proof.
    destruct f as [i|i|sc]; unfold read_cs.
    1,2: change (running (emb s)) with (running s); destruct (negb (running s));
         [unfold embp; cbn [fst snd]; f_equal; try st_ext|];
         destruct i as [|b ms]; [unfold push_error, embp; cbn [fst snd]; f_equal; try st_ext|];
         destruct ms as [|m ms]; [unfold push_error, embp; cbn [fst snd]; f_equal; try st_ext|];
         rewrite emb_filter_batch; destruct (filter_batch (m :: ms) s [] []) as [[s1 keep] os1];
         destruct keep as [|k0 kr]; [unfold embp; cbn [fst snd]; f_equal; try st_ext|]; cbv zeta;
         match goal with |- (if ?x then _ else _) = embp (if ?y then _ else _) => change x with y; destruct y end;
         unfold embp; cbn [fst snd]; f_equal; try st_ext.
    rewrite emb_stop_locked. destruct (stop_locked sc s) as [s2 os2]. unfold embp. cbn [fst snd]. f_equal; try st_ext.
  Qed.

  (** ** critical sections *)
  Lemma emb_upd_field_ops s f : emb s <| ops ::= f |> = emb (s <| ops ::= f |>).
  Proof. st_ext. Qed.

  Lemma old_not_running : forall t, In t ot -> (match t_st t with TRunning => true | _ => false end) = false.
  Proof. intros t It. destruct (Hot t It) as [F _]. unfold finished in F. destruct (t_st t); auto; discriminate. Qed.

  Lemma emb_gate_idx s p :
    find_idx (fun t => beq (t_params t) p && match t_st t with TRunning => true | _ => false end) 0 (tasks (emb s)) =
    option_map (Nat.add nt)
      (find_idx (fun t => beq (t_params t) p && match t_st t with TRunning => true | _ => false end) 0 (tasks s)).
  Proof.
    cbn [tasks emb]. rewrite find_idx_app_none.
    - rewrite find_idx_map. cbn [Nat.add]. replace nt with (nt + 0) at 1 by lia. apply find_idx_add.
    - intros t It. rewrite (old_not_running t It). apply andb_false_r.
  Qed.

  Lemma emb_step_raw s l : step_raw (emb s) (sh_label l) = option_map embp (step_raw s l).
  Proof.
    destruct l; cbn [sh_label step_raw].
    - (* LStart *)
      change (running (emb s)) with (running s). change (wg (emb s)) with (wg s).
      destruct (negb (running s) && (wg s =? 0)); [|reflexivity].
      cbn [option_map]; unfold embp; cbn [fst snd]; f_equal; f_equal; try st_ext; lia.
    - cbn [option_map]; unfold embp; cbn [fst snd]; f_equal; f_equal; try st_ext.
    - cbn [option_map]; unfold embp; cbn [fst snd]; f_equal; f_equal; try st_ext.
    - (* LGate *)
      rewrite emb_gate_idx.
      destruct (find_idx _ 0 (tasks s)) as [k|]; cbn [option_map]; [|reflexivity].
      rewrite emb_nth_task. destruct (nth_error (tasks s) k) as [t|]; cbn [option_map]; [|reflexivity].
      unfold embp. cbn [fst snd]. rewrite emb_set_task by reflexivity. reflexivity.
    - cbn [option_map]; unfold embp; cbn [fst snd]; f_equal; f_equal; try st_ext.
    - cbn [option_map]; unfold embp; cbn [fst snd]; f_equal; f_equal; try st_ext.
    - change (c_push (emb s)) with (c_push s). destruct (c_push s); cbn [option_map]; unfold embp; cbn [fst snd];
        [f_equal; f_equal; try st_ext|reflexivity].
    - cbn [option_map]; unfold embp; cbn [fst snd]; f_equal; f_equal; try st_ext.
    - (* LCbCtxEnd *)
      change (cbs (emb s)) with (cbs s). destruct (find_idx _ 0 (cbs s)); cbn [option_map]; unfold embp; cbn [fst snd];
        f_equal; f_equal; try st_ext.
    - (* LRelRead *)
      change (rd (emb s)) with (rd s). destruct (rd s); try reflexivity. cbn [option_map]. f_equal. apply emb_read_cs.
    - (* LRelNext *)
      change (dp (emb s)) with (sh_dp (dp s)). destruct (dp s); cbn [sh_dp]; try reflexivity.
      cbn [option_map]. unfold embp. cbn [fst snd]. rewrite emb_dequeue. reflexivity.
    - (* LRelBarrier *)
      change (dp (emb s)) with (sh_dp (dp s)). destruct (dp s); cbn [sh_dp]; try reflexivity.
      all: cbn [option_map]; unfold embp; cbn [fst snd]; f_equal; f_equal; try st_ext.
    - (* LRelAcquire *)
      rewrite emb_nth_task. destruct (nth_error (tasks s) k) as [t|]; cbn [option_map]; [|reflexivity].
      change (t_st (sh_task t)) with (t_st t). destruct (t_st t); try reflexivity.
      rewrite emb_unit_running. destruct (negb (unit_running s t)); [reflexivity|].
      change (t_cancelled (sh_task t)) with (t_cancelled t). change (t_builtin (sh_task t)) with (t_builtin t).
      change (t_params (sh_task t)) with (t_params t).
      change (sem_free (emb s)) with (sem_free s). change (sem_wait (emb s)) with (map (Nat.add nt) (sem_wait s)).
      destruct (t_cancelled t).
      { cbn [option_map]. unfold embp. cbn [fst snd]. rewrite emb_set_task by reflexivity. reflexivity. }
      assert (W : Some (set_task (nt + k) (fun t0 => t0 <| t_st := TWaiting |>) (emb s)
                          <| sem_wait ::= fun q => q ++ [nt + k] |>, @nil obs) =
                  option_map embp (Some (set_task k (fun t0 => t0 <| t_st := TWaiting |>) s
                                           <| sem_wait ::= fun q => q ++ [k] |>, []))).
      { cbn [option_map]. unfold embp. cbn [fst snd]. f_equal. f_equal.
        rewrite emb_set_task by reflexivity. st_ext. rewrite map_app. reflexivity. }
      destruct (sem_free s) as [|fr]; [exact W|].
      destruct (sem_wait s) as [|j r]; cbn [map]; [|exact W].
      destruct (t_builtin t); cbn [option_map]; unfold embp; cbn [fst snd]; f_equal; f_equal;
        rewrite emb_set_task by reflexivity; st_ext.
    - (* LRelHandled *)
      rewrite emb_nth_task. destruct (nth_error (tasks s) k) as [t|]; cbn [option_map]; [|reflexivity].
      change (t_st (sh_task t)) with (t_st t). destruct (t_st t) as [| | | |o|]; try reflexivity.
      rewrite (emb_set_task s k (fun t0 => t0 <| t_st := TDone (body_of_outcome t0 o) |>)) by reflexivity.
      set (s1 := set_task k (fun t0 => t0 <| t_st := TDone (body_of_outcome t0 o) |>) s <| sem_free ::= S |>).
      assert (E1 : emb (set_task k (fun t0 => t0 <| t_st := TDone (body_of_outcome t0 o) |>) s) <| sem_free ::= S |> = emb s1)
        by (unfold s1; st_ext).
      rewrite E1. change (sem_wait (emb s1)) with (map (Nat.add nt) (sem_wait s1)). rewrite map_length, emb_grant.
      destruct (grant (S (length (sem_wait s1))) s1 []) as [s2 os2]. cbn [fst snd].
      change (is_note (sh_task t)) with (is_note t). change (nbar (emb s2)) with (nbar s2).
      destruct (is_note t); [destruct (nbar s2)|]; cbn [option_map]; unfold embp; cbn [fst snd]; f_equal; f_equal; try st_ext.
    - (* LRelDeliver *)
      rewrite emb_nth_unit. destruct (nth_error (units s) u) as [un|]; [|reflexivity].
      destruct (u_st un); try reflexivity.
      rewrite emb_unit_tasks, responses_sh_task, emb_release_ids.
      destruct (negb (u_chok un)); cbn [option_map]; unfold embp; cbn [fst snd]; f_equal; f_equal;
        rewrite ?emb_set_unit; try st_ext.
    - (* LRelStop *)
      change (ops (emb s)) with (ops s). destruct (find_op n (ops s)) as [[n0|n0 id|n0 w m p]|]; try reflexivity.
      rewrite emb_upd_field_ops, emb_stop_locked. destruct (stop_locked SCStop (s <| ops ::= del_op n |>)) as [s2 os2].
      reflexivity.
    - (* LRelCancel *)
      change (ops (emb s)) with (ops s). destruct (find_op n (ops s)) as [[n0|n0 id|n0 w m p]|]; try reflexivity.
      cbn [option_map]. unfold embp. cbn [fst snd]. f_equal. f_equal. rewrite emb_upd_field_ops.
      change (used (emb (s <| ops ::= del_op n |>))) with (map (fun p => (fst p, nt + snd p)) (used (s <| ops ::= del_op n |>))).
      rewrite assoc_map_snd. destruct (assoc id (used (s <| ops ::= del_op n |>))) as [owner|]; cbn [option_map]; [|reflexivity].
      apply emb_cancel_task.
    - (* LRelPush *)
      change (ops (emb s)) with (ops s). destruct (find_op n (ops s)) as [[n0|n0 id|n0 w m p]|]; try reflexivity.
      rewrite emb_upd_field_ops. set (s1 := s <| ops ::= del_op n |>).
      change (running (emb s1)) with (running s1). destruct (negb (running s1)); [reflexivity|].
      destruct w; [|reflexivity].
      change (send_fail (emb s1)) with (send_fail s1). change (call_id (emb s1)) with (call_id s1).
      destruct (send_fail s1); cbn [option_map]; unfold embp; cbn [fst snd]; [f_equal; f_equal; try st_ext|].
      change (ended (emb s1)) with (ended s1). change (cbs (emb s1)) with (cbs s1).
      f_equal; f_equal; try st_ext.
    - (* LRelCbWatch *)
      change (cbs (emb s)) with (cbs s). destruct (nth_error (cbs s) c) as [cb0|]; [|reflexivity].
      destruct (cb_watch cb0); try reflexivity.
      assert (E1 : emb s <| cbs ::= upd_nth c (fun c0 => c0 <| cb_watch := WDone |>) |> =
                   emb (s <| cbs ::= upd_nth c (fun c0 => c0 <| cb_watch := WDone |>) |>)) by st_ext.
      rewrite E1. set (s1 := s <| cbs ::= upd_nth c (fun c0 => c0 <| cb_watch := WDone |>) |>).
      change (calls (emb s1)) with (calls s1).
      destruct (assoc (cb_id cb0) (calls s1)) as [j|]; [|reflexivity].
      destruct (cb_slot cb0); [reflexivity|]. destruct (j =? c); [|reflexivity].
      destruct (match cb_ctx cb0 with Some WDeadline => _ | _ => _ end) as [code msg].
      cbn [option_map]. f_equal. apply emb_complete_cb.
  Qed.

  (** ** windows *)
  Theorem emb_step s l : step (emb s) (sh_label l) = option_map embp (step s l).
  Proof.
    unfold step. change (crash (emb s)) with (crash s). destruct (crash s); [reflexivity|].
    rewrite emb_step_raw. destruct (step_raw s l) as [[s1 os]|]; cbn [option_map embp fst snd]; [|reflexivity].
    change (crash (emb s1)) with (crash s1). destruct (crash s1); [reflexivity|].
    rewrite emb_settle_window. reflexivity.
  Qed.

  (* the labels that address a task or a unit of an earlier incarnation *)
  Definition old_label (l : label) : bool :=
    match l with
    | LRelAcquire k | LRelHandled k => k <? nt
    | LRelDeliver u => u <? nu
    | _ => false
    end.
  Definition unsh_label (l : label) : label :=
    match l with
    | LRelAcquire k => LRelAcquire (k - nt) | LRelHandled k => LRelHandled (k - nt) | LRelDeliver u => LRelDeliver (u - nu)
    | x => x
    end.

  Lemma sh_unsh_label l : old_label l = false -> sh_label (unsh_label l) = l.
  Proof.
    destruct l; cbn; try reflexivity; intros H; apply Nat.ltb_ge in H; f_equal; lia.
  Qed.

  Lemma unsh_sh_label l : unsh_label (sh_label l) = l /\ old_label (sh_label l) = false.
  Proof.
    destruct l; cbn; try (split; reflexivity); (split; [f_equal; lia|apply Nat.ltb_ge; lia]).
  Qed.

  Lemma sh_label_inj a b : sh_label a = sh_label b -> a = b.
  Proof. intros H. rewrite <- (proj1 (unsh_sh_label a)), <- (proj1 (unsh_sh_label b)), H. reflexivity. Qed.

  (* they are disabled: the old tasks and units are finished *)
  Theorem emb_old_label_disabled s l : old_label l = true -> step (emb s) l = None.
  Proof.
    intros H. unfold step. destruct (crash (emb s)); [reflexivity|].
    assert (R : step_raw (emb s) l = None); [|rewrite R; reflexivity].
    destruct l; try discriminate H; cbn [old_label] in H; apply Nat.ltb_lt in H; cbn [step_raw].
    - destruct (emb_nth_old s k H) as (t & E & F). rewrite E. unfold finished in F. destruct (t_st t); auto; discriminate.
    - destruct (emb_nth_old s k H) as (t & E & F). rewrite E. unfold finished in F. destruct (t_st t); auto; discriminate.
    - destruct (emb_nth_unit_old s u H) as (un & E & F). rewrite E, F. reflexivity.
  Qed.

  (** ** runs: the runs of [emb s] are the runs of s, with shifted labels and the same observations *)
  Theorem emb_run_fwd : forall tr s s' oss, run s tr = Some (s', oss) ->
    run (emb s) (map sh_label tr) = Some (emb s', oss).
  Proof.
    induction tr as [|l r IH]; cbn [run map]; intros s s' oss H.
    - injection H as <- <-. reflexivity.
    - rewrite emb_step. destruct (step s l) as [[s1 os]|]; [|discriminate]. cbn [option_map embp fst snd].
      destruct (run s1 r) as [[s2 oss2]|] eqn:E; [|discriminate]. injection H as <- <-.
      rewrite (IH _ _ _ E). reflexivity.
  Qed.

  Theorem emb_run_bwd : forall tr' s sr oss, run (emb s) tr' = Some (sr, oss) ->
    exists tr s', tr' = map sh_label tr /\ run s tr = Some (s', oss) /\ sr = emb s'.
  Proof.
    induction tr' as [|l' r IH]; cbn [run]; intros s sr oss H.
    - injection H as <- <-. exists [], s. auto.
    - destruct (old_label l') eqn:O; [rewrite (emb_old_label_disabled s l' O) in H; discriminate|].
      rewrite <- (sh_unsh_label l' O) in H. rewrite emb_step in H.
      destruct (step s (unsh_label l')) as [[s1 os]|] eqn:E; [|discriminate]. cbn [option_map embp fst snd] in H.
      destruct (run (emb s1) r) as [[s2 oss2]|] eqn:E2; [|discriminate]. injection H as <- <-.
      destruct (IH _ _ _ E2) as (tr & s' & -> & Hr & ->).
      exists (unsh_label l' :: tr), s'. cbn [map run]. rewrite (sh_unsh_label l' O), E, Hr. auto.
  Qed.

  Lemma emb_enabled_iff s l x : step s l = Some x -> step (emb s) (sh_label l) = Some (embp x).
  Proof. intros H. rewrite emb_step, H. reflexivity. Qed.

  Lemma emb_quiescent_fields s :
    running (emb s) = running s /\ stop_err (emb s) = stop_err s /\ wg (emb s) = wg s /\ waits (emb s) = waits s /\
    inq (emb s) = inq s /\ rd (emb s) = rd s /\ ch_in (emb s) = ch_in s /\ ops (emb s) = ops s /\ cbs (emb s) = cbs s /\
    calls (emb s) = calls s /\ crash (emb s) = crash s /\ sem_free (emb s) = sem_free s /\ nbar (emb s) = nbar s /\
    length (tasks (emb s)) = nt + length (tasks s) /\ length (units (emb s)) = nu + length (units s).
  Proof. repeat split; cbn; rewrite app_length, ?map_length; reflexivity. Qed.

End Emb.

(** * The restarted server *)
(* the freshly started server with the same pending environment calls (API operations not yet run, caller contexts
   that ended before their Callback registered, the state of the transport) *)
Definition pre_fresh (c : config) (sf : bool) (o : list op) (e : list (nat * why)) : state :=
  init_of c <| ops := o |> <| ended := e |> <| send_fail := sf |>.
Definition fresh_of (c : config) (s : state) : state := started (pre_fresh c (send_fail s) (ops s) (ended s)).

(* a stopped server whose wait group is empty has no pending WaitStatus call at a window boundary *)
Lemma idle_no_waits c s : reach c s -> wg s = 0 -> waits s = 0.
Proof.
  intros R Z. pose proof (reach_reachf _ _ R) as Rf. pose proof (no_crash _ _ R) as Cr.
  pose proof (reach_settled _ _ R Cr) as St. pose proof (idle_all_done _ _ Rf Z) as A.
  destruct (waits s) as [|n] eqn:W; auto. exfalso.
  pose proof (settled_no_complete _ St) as F.
  unfold settle1 in St. rewrite F, W, Z, (ad_inq _ A) in St. cbn in St.
  destruct (ad_rd _ A) as [Hr|Hr]; rewrite Hr in St; destruct (ad_dp _ A) as [Hd|Hd]; rewrite Hd in St; discriminate.
Qed.

(* the restarted server IS the embedding of that fresh server behind its own history, when no Callback was ever
   registered in the earlier incarnations *)
Theorem restart_is_emb c s : reach c s -> wg s = 0 -> running s = false -> cbs s = [] -> call_id s = 1 ->
  started s = emb (tasks s) (units s) (starts s) (closes s) (fresh_of c s).
Proof.
  intros R Z Rn Cb Ci. rewrite (restart_fresh_eq c s R Z Rn).
  assert (Cl : calls s = []).
  { destruct (calls s) as [|[k i] r] eqn:E; auto. exfalso.
    destruct (ip_reg _ (inv_push_reach _ _ R) k i) as (c0 & N & _); [rewrite E; left; reflexivity|].
    rewrite Cb in N. destruct i; discriminate. }
  pose proof (idle_no_waits c s R Z) as W.
  unfold fresh_of, pre_fresh, started. st_ext; rewrite ?Cb, ?Ci, ?Cl, ?W; try reflexivity.
  - lia.
  - lia.
  - rewrite app_nil_r. reflexivity.
  - rewrite app_nil_r. reflexivity.
Qed.

Lemma restart_old_finished c s : reach c s -> wg s = 0 ->
  (forall t, In t (tasks s) -> finished t = true /\ t_unit t < length (units s)) /\
  (forall u, In u (units s) -> u_st u = UFinished).
Proof.
  intros R Z. pose proof (reach_reachf _ _ R) as Rf. pose proof (idle_all_done _ _ Rf Z) as A. split.
  - intros t It. apply In_nth_error in It as (k & E). split; [apply (ad_tasks _ A _ _ E)|apply (task_unit_bound c s k t Rf E)].
  - intros u Iu. apply In_nth_error in Iu as (k & E). apply (ad_units _ A _ _ E).
Qed.

(** ** the fresh counterpart is reachable *)
Definition unstarted (x : state) : Prop :=
  rd x = RNone /\ dp x = DNone /\ units x = [] /\ waits x = 0 /\ crash x = None /\ running x = false /\ wg x = 0 /\
  cbs x = [].

Lemma settle1_unstarted x : unstarted x -> settle1 x = None.
Proof.
  intros (Rd & D & U & W & _). unfold settle1. rewrite Rd, D, U, W. reflexivity.
Qed.

Lemma step_unstarted x l x' os : unstarted x -> unstarted x' -> step_raw x l = Some (x', os) -> step x l = Some (x', os).
Proof.
  intros Ux Ux' H. apply SrvC09b.step_of_raw; auto; [apply Ux|apply Ux'|apply settle1_unstarted; auto].
Qed.

Definition op_label (o : op) : label :=
  match o with OpStop n => LCallStop n | OpCancel n id => LCallCancel n id | OpPush n w m p => LCallPush n w m p end.

Lemma pre_fresh_unstarted c sf o e : unstarted (pre_fresh c sf o e).
Proof. unfold unstarted, pre_fresh. cbn. repeat split. Qed.

Lemma reach_pre_fresh c sf o e : (forall x, In x o -> SrvC10.is_push_op x = true -> cf_push c = true) ->
  reach c (pre_fresh c sf o e).
Proof.
  intros Hp.
  assert (R0 : reach c (pre_fresh c sf [] [])).
  { apply (reach_step c (init_of c) (LSendFault sf) _ []); [apply reach_init|].
    apply step_unstarted; [apply (pre_fresh_unstarted c false [] [])|apply pre_fresh_unstarted|reflexivity]. }
  assert (R1 : reach c (pre_fresh c sf o [])).
  { revert Hp. induction o as [|x o IH] using rev_ind; intros Hp; [exact R0|].
    assert (Ro : reach c (pre_fresh c sf o [])) by (apply IH; intros y Iy; apply Hp; apply in_or_app; auto).
    apply (reach_step c _ (op_label x) _ [] Ro).
    apply step_unstarted; [apply pre_fresh_unstarted|apply pre_fresh_unstarted|].
    destruct x as [n|n id|n w m p]; cbn [op_label step_raw]; try reflexivity.
    assert (Cp : c_push (pre_fresh c sf o []) = true).
    { cbn. apply (Hp (OpPush n w m p)); [apply in_or_app; right; left; reflexivity|reflexivity]. }
    rewrite Cp. reflexivity. }
  clear R0. induction e as [|[n w] e IH] using rev_ind; [exact R1|].
  apply (reach_step c _ (LCbCtxEnd n w) _ [] IH).
  apply step_unstarted; [apply pre_fresh_unstarted|apply pre_fresh_unstarted|reflexivity].
Qed.

Lemma reach_fresh_of_pre c sf o e : (forall x, In x o -> SrvC10.is_push_op x = true -> cf_push c = true) ->
  reach c (started (pre_fresh c sf o e)).
Proof.
  intros Hp. apply (reach_step c _ LStart _ [] (reach_pre_fresh c sf o e Hp)).
  apply SrvC09b.step_of_raw; try reflexivity.
Qed.

(* a pending push operation exists only with AllowPush *)
Lemma push_ops_need_push c s : reach c s -> forall o, In o (ops s) -> SrvC10.is_push_op o = true -> cf_push c = true.
Proof.
  intros R. pose proof (cfg_const _ _ (reach_reachf _ _ R)) as Cf. unfold cfgp in Cf. injection Cf as _ C2 _ _ _.
  rewrite <- C2. clear C2. induction R as [|s l s' os R IH H]; [intros o []|].
  destruct (SrvC10.step_ops _ _ _ _ H) as [Cp Ops]. intros o Io Po. rewrite Cp.
  destruct (Ops o Io) as [Old|[(n & w & m & p & _ & Cpt & _)|Np]]; [apply (IH o Old Po)|exact Cpt|congruence].
Qed.

Theorem fresh_of_reachable c s : reach c s -> reach c (fresh_of c s).
Proof. intros R. apply reach_fresh_of_pre. apply (push_ops_need_push c s R). Qed.

(** ** without AllowPush no Callback is ever registered *)
Definition no_cb (s : state) : Prop :=
  c_push s = false /\ (forall o, In o (ops s) -> SrvC10.is_push_op o = false) /\ cbs s = [] /\ calls s = [] /\
  call_id s = 1.

Lemma no_cb_pv s s' : pv s' = pv s -> no_cb s -> no_cb s'.
Proof.
  intros P. apply pv_fields in P. destruct P as (P1 & _ & _ & _ & P5 & P6 & P7 & P8 & _).
  unfold no_cb. rewrite P1, P5, P6, P7, P8. auto.
Qed.

Lemma filter_batch_no_calls : forall ms s keep acc, calls s = [] -> fst (fst (filter_batch ms s keep acc)) = s.
Proof.
  induction ms as [|m r IH]; intros s keep acc Cl; cbn [filter_batch]; [reflexivity|].
  destruct (is_req_or_notif m); [apply IH; auto|]. rewrite Cl. cbn [assoc].
  destruct (c_push s && is_nil (j_method m) && has_reply_fields m); apply IH; auto.
Qed.

Lemma no_cb_stop_locked sc s : no_cb s -> no_cb (fst (stop_locked sc s)).
Proof.
  intros (A & B & C & D & E). destruct (stop_locked sc s) as [s' os] eqn:St. cbn [fst].
  apply SrvC09.stop_locked_spec in St as [(_ & -> & _)|(_ & _ & _ & _ & _ & P & Cl & Ci & O & _ & _ & Cb)];
    [repeat split; auto|].
  unfold no_cb. rewrite P, Cl, Ci, O, Cb, C. repeat split; auto.
Qed.

Lemma no_cb_del_op s n : no_cb s -> no_cb (s <| ops ::= del_op n |>).
Proof.
  intros (A & B & C & D & E). repeat split; auto. cbn. intros o Io. apply B. eapply SrvC10.in_del_op; eauto.
Qed.

Lemma raw_no_cb s l s' os : no_cb s -> step_raw s l = Some (s', os) -> no_cb s'.
Proof.
  intros N H. pose proof N as (A & B & C & D & E).
  destruct (neutral l) eqn:Neu.
  { apply step_raw_neutral in H as [P _]; auto. eapply no_cb_pv; eauto. }
  destruct l; try discriminate Neu; cbn [step_raw] in H.
  - destruct (negb (running s) && (wg s =? 0)); [|discriminate]. injection H as <- _. exact N.
  - injection H as <- _. exact N.
  - injection H as <- _. repeat split; auto. cbn. intros o Io. apply in_app_or in Io as [Io|[<-|[]]]; auto.
  - injection H as <- _. repeat split; auto. cbn. intros o Io. apply in_app_or in Io as [Io|[<-|[]]]; auto.
  - rewrite A in H. injection H as <- _. exact N.
  - rewrite C in H. cbn in H. injection H as <- _. exact N.
  - destruct (rd s) as [| |f|]; try discriminate. injection H as H.
    assert (X : no_cb (fst (read_cs f s))); [|rewrite H in X; exact X].
    destruct f as [i|i|sc]; unfold read_cs.
    1,2: destruct (negb (running s)); [exact N|]; destruct i as [|b ms]; [exact N|]; destruct ms as [|m ms]; [exact N|];
         pose proof (filter_batch_no_calls (m :: ms) s [] [] D) as Fb;
         destruct (filter_batch (m :: ms) s [] []) as [[s1 keep] os1]; cbn [fst] in Fb; subst s1;
         destruct keep as [|k0 kr]; [exact N|]; cbv zeta;
         match goal with |- context [if ?b then _ else _] => destruct b end; exact N.
    pose proof (no_cb_stop_locked sc s N) as X. destruct (stop_locked sc s) as [s2 os2]. exact X.
  - destruct (find_op n (ops s)) as [[| |]|]; try discriminate.
    pose proof (no_cb_stop_locked SCStop _ (no_cb_del_op s n N)) as X.
    destruct (stop_locked SCStop (s <| ops ::= del_op n |>)) as [s2 os2]. injection H as <- _. exact X.
  - destruct (find_op n (ops s)) as [[| |]|]; try discriminate. cbn in H.
    destruct (assoc id (used s)) as [owner|]; injection H as <- _; [|apply no_cb_del_op; auto].
    eapply no_cb_pv; [apply cancel_task_pv|]. apply no_cb_del_op; auto.
  - destruct (find_op n (ops s)) as [[| |n' w m p]|] eqn:F; try discriminate.
    apply find_op_some in F as [I _]. specialize (B _ I). discriminate B.
  - rewrite C in H. destruct c; discriminate.
Qed.

Lemma reachf_no_cb c s : cf_push c = false -> reachf c s -> no_cb s.
Proof.
  intros P. induction 1 as [|s l s' os R IH Cr H|s s' os R IH H].
  - repeat split; auto. intros o [].
  - eapply raw_no_cb; eauto.
  - eapply no_cb_pv; [eapply settle1_pv; eauto|exact IH].
Qed.

(** ** C08.8 restart: the restarted server behaves as a freshly started one *)
(* [rs_label c s l]: the label l of the fresh server, as the restarted server sees it (task and unit indices shifted by
   the number of tasks and units of the earlier incarnations) *)
Definition rs_label (s : state) (l : label) : label := sh_label (tasks s) (units s) l.
Definition rs_emb (s : state) (x : state) : state := emb (tasks s) (units s) (starts s) (closes s) x.

Theorem restart_simulation c s : reach c s -> wg s = 0 -> running s = false -> cbs s = [] -> call_id s = 1 ->
  step s LStart = Some (started s, []) /\ reach c (fresh_of c s) /\ started s = rs_emb s (fresh_of c s) /\
  (* one window, both directions, every label *)
  (forall x l, step (rs_emb s x) (rs_label s l) =
               match step x l with Some (x', os) => Some (rs_emb s x', os) | None => None end) /\
  (forall x l', old_label (tasks s) (units s) l' = true -> step (rs_emb s x) l' = None) /\
  (forall l', old_label (tasks s) (units s) l' = false -> exists l, l' = rs_label s l) /\
  (* whole runs, both directions, identical observations *)
  (forall tr x oss, run (fresh_of c s) tr = Some (x, oss) ->
     run (started s) (map (rs_label s) tr) = Some (rs_emb s x, oss)) /\
  (forall tr' sr oss, run (started s) tr' = Some (sr, oss) ->
     exists tr x, tr' = map (rs_label s) tr /\ run (fresh_of c s) tr = Some (x, oss) /\ sr = rs_emb s x).
Proof.
  intros R Z Rn Cb Ci. destruct (restart_old_finished c s R Z) as [Hot Hou].
  pose proof (restart_is_emb c s R Z Rn Cb Ci) as E.
  split; [apply (restart_fresh c s R Z Rn)|]. split; [apply fresh_of_reachable; auto|]. split; [exact E|].
  split; [|split; [|split; [|split]]].
  - intros x l. unfold rs_emb, rs_label. rewrite (emb_step _ _ _ _ Hot Hou). destruct (step x l) as [[x' os]|]; reflexivity.
  - intros x l' O. apply (emb_old_label_disabled _ _ _ _ Hot Hou); auto.
  - intros l' O. exists (unsh_label (tasks s) (units s) l'). unfold rs_label. rewrite sh_unsh_label; auto.
  - intros tr x oss H. rewrite E. apply (emb_run_fwd _ _ _ _ Hot Hou); auto.
  - intros tr' sr oss H. rewrite E in H. apply (emb_run_bwd _ _ _ _ Hot Hou) in H. exact H.
Qed.

(* hence every property of the observations of a freshly started server (with the same pending environment calls;
   that state is reachable, so every theorem of the property files applies to it) holds of the restarted one *)
Corollary restart_trace_properties c s (P : list (list obs) -> Prop) : reach c s -> wg s = 0 -> running s = false ->
  cbs s = [] -> call_id s = 1 ->
  ((forall tr x oss, run (fresh_of c s) tr = Some (x, oss) -> P oss) <->
   (forall tr' sr oss, run (started s) tr' = Some (sr, oss) -> P oss)).
Proof.
  intros R Z Rn Cb Ci. destruct (restart_simulation c s R Z Rn Cb Ci) as (_ & _ & _ & _ & _ & _ & Fw & Bw). split.
  - intros H tr' sr oss Hr. destruct (Bw _ _ _ Hr) as (tr & x & _ & Hx & _). eapply H; eauto.
  - intros H tr x oss Hr. eapply H. apply (Fw _ _ _ Hr).
Qed.

(* without AllowPush the hypotheses on the callbacks hold in every reachable state *)
Corollary restart_simulation_nopush c s : cf_push c = false -> reach c s -> wg s = 0 -> running s = false ->
  cbs s = [] /\ call_id s = 1 /\ started s = rs_emb s (fresh_of c s) /\ reach c (fresh_of c s).
Proof.
  intros P R Z Rn. destruct (reachf_no_cb c s P (reach_reachf _ _ R)) as (_ & _ & Cb & _ & Ci).
  split; [exact Cb|]. split; [exact Ci|]. split; [apply restart_is_emb; auto|apply fresh_of_reachable; auto].
Qed.

Corollary restart_simulation_nopush_full c s : cf_push c = false -> reach c s -> wg s = 0 -> running s = false ->
  step s LStart = Some (started s, []) /\ reach c (fresh_of c s) /\ started s = rs_emb s (fresh_of c s) /\
  (forall x l, step (rs_emb s x) (rs_label s l) =
               match step x l with Some (x', os) => Some (rs_emb s x', os) | None => None end) /\
  (forall x l', old_label (tasks s) (units s) l' = true -> step (rs_emb s x) l' = None) /\
  (forall l', old_label (tasks s) (units s) l' = false -> exists l, l' = rs_label s l) /\
  (forall tr x oss, run (fresh_of c s) tr = Some (x, oss) ->
     run (started s) (map (rs_label s) tr) = Some (rs_emb s x, oss)) /\
  (forall tr' sr oss, run (started s) tr' = Some (sr, oss) ->
     exists tr x, tr' = map (rs_label s) tr /\ run (fresh_of c s) tr = Some (x, oss) /\ sr = rs_emb s x).
Proof.
  intros P R Z Rn. destruct (restart_simulation_nopush c s P R Z Rn) as (Cb & Ci & _). apply restart_simulation; auto.
Qed.

Corollary restart_trace_properties_nopush c s (P : list (list obs) -> Prop) : cf_push c = false -> reach c s ->
  wg s = 0 -> running s = false ->
  ((forall tr x oss, run (fresh_of c s) tr = Some (x, oss) -> P oss) <->
   (forall tr' sr oss, run (started s) tr' = Some (sr, oss) -> P oss)).
Proof.
  intros Pf R Z Rn. destruct (restart_simulation_nopush c s Pf R Z Rn) as (Cb & Ci & _).
  apply restart_trace_properties; auto.
Qed.

(** ** the definitions, spelled out *)
Lemma rs_emb_spec s x :
  tasks (rs_emb s x) = tasks s ++ map (fun t => mkTask (length (units s) + t_unit t) (t_id t) (t_method t) (t_params t)
                                               (t_pre t) (t_hasctx t) (t_builtin t) (t_cancelled t) (t_st t)) (tasks x) /\
  units (rs_emb s x) = units s ++ units x /\
  sem_wait (rs_emb s x) = map (Nat.add (length (tasks s))) (sem_wait x) /\
  used (rs_emb s x) = map (fun p => (fst p, length (tasks s) + snd p)) (used x) /\
  dp (rs_emb s x) = match dp x with
                    | DAtBarrier u => DAtBarrier (length (units s) + u)
                    | DBarrierWait u => DBarrierWait (length (units s) + u)
                    | d => d
                    end /\
  starts (rs_emb s x) = starts s + starts x /\ closes (rs_emb s x) = closes s + closes x /\
  (c_K (rs_emb s x), c_push (rs_emb s x), c_builtin (rs_emb s x), c_methods (rs_emb s x), c_unblock (rs_emb s x)) =
    (c_K x, c_push x, c_builtin x, c_methods x, c_unblock x) /\
  (ch_in (rs_emb s x), send_fail (rs_emb s x), running (rs_emb s x), stop_err (rs_emb s x), work_closed (rs_emb s x)) =
    (ch_in x, send_fail x, running x, stop_err x, work_closed x) /\
  (rd (rs_emb s x), inq (rs_emb s x), nbar (rs_emb s x), sem_free (rs_emb s x), wg (rs_emb s x)) =
    (rd x, inq x, nbar x, sem_free x, wg x) /\
  (calls (rs_emb s x), call_id (rs_emb s x), cbs (rs_emb s x)) = (calls x, call_id x, cbs x) /\
  (ops (rs_emb s x), waits (rs_emb s x), ended (rs_emb s x), crash (rs_emb s x)) = (ops x, waits x, ended x, crash x).
Proof. repeat split. cbn. unfold sh_dp. destruct (dp x); reflexivity. Qed.

Lemma rs_label_spec s l : rs_label s l =
  match l with
  | LRelAcquire k => LRelAcquire (length (tasks s) + k)
  | LRelHandled k => LRelHandled (length (tasks s) + k)
  | LRelDeliver u => LRelDeliver (length (units s) + u)
  | x => x
  end.
Proof. reflexivity. Qed.

Lemma old_label_spec ot ou l : old_label ot ou l = true <->
  (exists k, (l = LRelAcquire k \/ l = LRelHandled k) /\ k < length ot) \/ (exists u, l = LRelDeliver u /\ u < length ou).
Proof.
  split.
  - destruct l; cbn; try discriminate; intros H; apply Nat.ltb_lt in H; [left|left|right]; eauto.
  - intros [(k & [-> | ->] & L)|(u & -> & L)]; cbn; apply Nat.ltb_lt; exact L.
Qed.

Lemma fresh_of_spec c s :
  fresh_of c s = started (init_of c) <| ops := ops s |> <| ended := ended s |> <| send_fail := send_fail s |>.
Proof. unfold fresh_of, pre_fresh, started. st_ext. Qed.

(** ** non-vacuity *)
(* the server of SrvC08q.ex_tr_term (a call answered around a Stop, reader and dispatcher gone, WaitStatus returned) is
   restarted and serves a new call: the same windows as the fresh server, task and unit indices shifted by one, the
   same observations *)
Definition tr_fresh_serve : list label :=
  [LFeed (FMsg (InMsgs false [ex_call [50%N] [7%N]])); LRelRead; LRelNext; LRelBarrier; LRelAcquire 0;
   LGate [7%N] (ORes [51%N]); LRelHandled 0; LRelDeliver 0].

Example restart_simulation_nonvacuous :
  let s := st_of ex_cfg ex_tr_term in
  reach ex_cfg s /\ wg s = 0 /\ running s = false /\ cbs s = [] /\ call_id s = 1 /\ cf_push ex_cfg = false /\
  length (tasks s) = 1 /\ length (units s) = 1 /\
  map (rs_label s) tr_fresh_serve =
    [LFeed (FMsg (InMsgs false [ex_call [50%N] [7%N]])); LRelRead; LRelNext; LRelBarrier; LRelAcquire 1;
     LGate [7%N] (ORes [51%N]); LRelHandled 1; LRelDeliver 1] /\
  exists x oss, run (fresh_of ex_cfg s) tr_fresh_serve = Some (x, oss) /\
    run (started s) (map (rs_label s) tr_fresh_serve) = Some (rs_emb s x, oss) /\
    concat oss = [OStart [7%N] false; OGate [7%N] false; OSend true false [{| r_id := [50%N]; r_body := BRes [51%N] |}]] /\
    step (started s) (LRelDeliver 0) = None /\ map u_st (units (rs_emb s x)) = [UFinished; UFinished].
Proof.
  cbv zeta. split; [apply reach_st_of; vm_compute; discriminate|].
  split; [vm_compute; reflexivity|]. split; [vm_compute; reflexivity|]. split; [vm_compute; reflexivity|].
  split; [vm_compute; reflexivity|]. split; [reflexivity|]. split; [vm_compute; reflexivity|].
  split; [vm_compute; reflexivity|]. split; [vm_compute; reflexivity|].
  eexists _, _. split; [vm_compute; reflexivity|]. split; [vm_compute; reflexivity|].
  split; [vm_compute; reflexivity|]. split; vm_compute; reflexivity.
Qed.
