(* SrvMonFrame: where the pending API operations [ops] and the records on the inbound path [ch_in], [rd] of a state
   come from - the facts about one critical section / one wake-up shared by the soundness proofs of the monitors of
   srv/SrvMonitors3.v (srv/SrvMonCancel.v, srv/SrvMonWait.v). *)
From Coq Require Import List NArith ZArith Bool Arith Lia.
From RecordUpdate Require Import RecordUpdate.
From JV Require Import Bytes Msg SrvModel SrvLemmas SrvBasics SrvC01 SrvHist SrvMonitors.
From JV Require SrvC07 SrvC08 SrvC10.
Import ListNotations.

(* the operation a label of the environment queues *)
Definition label_op (l : label) : option op :=
  match l with
  | LCallStop n => Some (OpStop n)
  | LCallCancel n id => Some (OpCancel n id)
  | LCallPush n w m p => Some (OpPush n w m p)
  | _ => None
  end.

Definition ops_from (s : state) (l : label) (s' : state) : Prop :=
  forall o, In o (ops s') -> In o (ops s) \/ label_op l = Some o.
(* a record on the channel was there before, or is the one fed, or is the closing error the model appends when the
   server stops *)
Definition chin_from (s : state) (l : label) (s' : state) : Prop :=
  forall f, In f (ch_in s') -> In f (ch_in s) \/ l = LFeed f \/ (f = FErr SCClosing /\ running s = true /\ running s' = false).

Lemma from_same s l s' : (forall o, In o (ops s') -> In o (ops s)) -> ch_in s' = ch_in s -> ops_from s l s' /\ chin_from s l s'.
Proof. intros O C. split; [intros o Ho; left; auto|intros f Hf; left; rewrite <- C; exact Hf]. Qed.

Lemma from_eq s l s' : ops s' = ops s -> ch_in s' = ch_in s -> ops_from s l s' /\ chin_from s l s'.
Proof. intros O C. apply from_same; auto. rewrite O. auto. Qed.

Lemma dequeue_ops s : ops (dequeue s) = ops s.
Proof. unfold dequeue. destruct (inq s) as [|[b ms] q]; [destruct (running s)|]; reflexivity. Qed.
Lemma dequeue_chin s : ch_in (dequeue s) = ch_in s.
Proof. unfold dequeue. destruct (inq s) as [|[b ms] q]; [destruct (running s)|]; reflexivity. Qed.
Lemma dequeue_rd s : rd (dequeue s) = rd s.
Proof. unfold dequeue. destruct (inq s) as [|[b ms] q]; [destruct (running s)|]; reflexivity. Qed.

Lemma stop_from c s0 s1 os : stop_locked c s0 = (s1, os) ->
  ops s1 = ops s0 /\ rd s1 = rd s0 /\
  forall f, In f (ch_in s1) -> In f (ch_in s0) \/ (f = FErr SCClosing /\ running s0 = true /\ running s1 = false).
Proof.
  intros St. destruct (running s0) eqn:Rn.
  - apply SrvC08.stop_locked_run in St as [_ P]; auto. destruct P.
    split; [auto|]. split; [auto|]. intros f Hf. rewrite sr_chin in Hf.
    destruct (c_unblock s0); [|left; exact Hf]. apply in_app_iff in Hf as [Hf|[<-|[]]]; [left; exact Hf|right; auto].
  - apply stop_locked_spec in St as [(_ & -> & _)|(Rn' & _)]; [|congruence]. split; auto.
Qed.

Lemma raw_from s l s' os : inv s -> step_raw s l = Some (s', os) -> ops_from s l s' /\ chin_from s l s'.
Proof.
  intros I H. destruct l; unfold step_raw in H.
  - (* LStart *)
    destruct (negb (running s) && (wg s =? 0)); [|discriminate]. injection H as <- <-.
    split; [intros o Ho; left; exact Ho|intros f []].
  - (* LFeed *)
    injection H as <- <-. split; [intros o Ho; left; exact Ho|].
    intros f0 Hf. cbn in Hf. apply in_app_iff in Hf as [Hf|[<-|[]]]; auto.
  - injection H as <- <-. apply from_eq; reflexivity.
  - (* LGate *)
    destruct (find_idx _ 0 (tasks s)) as [k|]; [|discriminate].
    destruct (nth_error (tasks s) k) as [t|]; [|discriminate]. injection H as <- <-. apply from_eq; reflexivity.
  - (* LCallStop *)
    injection H as <- <-. split; [|intros f Hf; left; exact Hf].
    intros o Ho. cbn in Ho. apply in_app_iff in Ho as [Ho|[<-|[]]]; auto.
  - injection H as <- <-. split; [|intros f Hf; left; exact Hf].
    intros o Ho. cbn in Ho. apply in_app_iff in Ho as [Ho|[<-|[]]]; auto.
  - destruct (c_push s); injection H as <- <-; [|apply from_eq; reflexivity].
    split; [|intros f Hf; left; exact Hf].
    intros o Ho. cbn in Ho. apply in_app_iff in Ho as [Ho|[<-|[]]]; auto.
  - injection H as <- <-. apply from_eq; reflexivity.
  - destruct (find_idx _ 0 (cbs s)); injection H as <- <-; apply from_eq; reflexivity.
  - (* LRelRead *)
    destruct (rd s) as [| |f|] eqn:Rd; try discriminate. injection H as H.
    destruct (SrvC10.read_cs_ops f s) as [Eo _]. rewrite H in Eo. cbn [fst] in Eo.
    split; [intros o Ho; left; rewrite <- Eo; exact Ho|].
    destruct f as [i|i|c].
    3:{ cbn in H. destruct (stop_locked c s) as [s0 os0] eqn:St. injection H as <- <-.
        destruct (stop_from _ _ _ _ St) as (_ & _ & Ch). intros f Hf. cbn in Hf.
        destruct (Ch _ Hf) as [X|X]; [left; exact X|right; right; exact X]. }
    all: destruct (running s) eqn:Rn;
      [ match type of H with read_cs ?f _ = _ =>
          assert (Hf : f = FMsg i \/ f = FMsgEOF i) by auto;
          destruct (read_cs_view _ _ _ _ _ Hf Rn H) as (Ci & _) end;
        intros f0 Hf0; left; rewrite <- Ci; exact Hf0
      | cbn in H; rewrite Rn in H; cbn in H; injection H as <- <-; intros f0 Hf0; left; exact Hf0 ].
  - (* LRelNext *)
    destruct (dp s); try discriminate. injection H as <- <-. apply from_eq; [apply dequeue_ops|apply dequeue_chin].
  - destruct (dp s); try discriminate. injection H as <- <-. apply from_eq; reflexivity.
  - (* LRelAcquire *)
    destruct (nth_error (tasks s) k) as [t|]; [|discriminate].
    destruct (t_st t); try discriminate.
    destruct (negb (unit_running s t)); [discriminate|].
    destruct (t_cancelled t); [injection H as <- <-; apply from_eq; reflexivity|].
    destruct (sem_free s); [injection H as <- <-; apply from_eq; reflexivity|].
    destruct (sem_wait s); [|injection H as <- <-; apply from_eq; reflexivity].
    destruct (t_builtin t); injection H as <- <-; apply from_eq; reflexivity.
  - (* LRelHandled *)
    destruct (nth_error (tasks s) k) as [t|] eqn:E; [|discriminate].
    destruct (t_st t) eqn:St; try discriminate.
    set (s0 := set_task k (fun t => t <| t_st := TDone (body_of_outcome t o) |>) s <| sem_free ::= S |>) in *.
    pose proof (SrvC08.nontask_grant (S (length (sem_wait s0))) s0 []) as G.
    destruct (grant (S (length (sem_wait s0))) s0 []) as [s2 os2] eqn:Eg. cbn [fst] in G.
    assert (G0 : SrvC08.nontask s2 = SrvC08.nontask s) by (rewrite G; reflexivity).
    apply SrvC08.nontask_fields in G0.
    destruct G0 as (N1 & N2 & N3 & N4 & N5 & N6 & N7 & N8 & N9 & N10 & N11 & N12 & N13 & N14 & N15 & N16 & N17 &
                  N18 & N19 & N20 & N21 & N22 & N23 & N24 & N25).
    destruct (is_note t); [destruct (nbar s2)|]; injection H as <- <-; apply from_eq; cbn; assumption.
  - (* LRelDeliver *)
    destruct (nth_error (units s) u) as [un|] eqn:E; [|discriminate].
    destruct (u_st un) eqn:Su; try discriminate.
    pose proof (SrvC08.nontask_release (unit_tasks s u) s) as G0. apply SrvC08.nontask_fields in G0.
    destruct G0 as (N1 & N2 & N3 & N4 & N5 & N6 & N7 & N8 & N9 & N10 & N11 & N12 & N13 & N14 & N15 & N16 & N17 &
                  N18 & N19 & N20 & N21 & N22 & N23 & N24 & N25).
    destruct (u_chok un); cbn in H; injection H as <- <-; apply from_eq; cbn; assumption.
  - (* LRelStop *)
    destruct (find_op n (ops s)) as [[n0|n0 id|n0 w m p]|]; try discriminate.
    destruct (stop_locked SCStop (s <| ops ::= del_op n |>)) as [s0 os0] eqn:St. injection H as <- <-.
    destruct (stop_from _ _ _ _ St) as (Eo & _ & Ch). split.
    + intros o Ho. left. rewrite Eo in Ho. cbn in Ho. eapply SrvC10.in_del_op; eauto.
    + intros f Hf. destruct (Ch _ Hf) as [X|X]; [left; exact X|right; right; exact X].
  - (* LRelCancel *)
    destruct (find_op n (ops s)) as [[n0|n0 id|n0 w m p]|]; try discriminate.
    injection H as <- <-. set (s1 := s <| ops ::= del_op n |>). change (used s1) with (used s).
    assert (K : ops s1 = del_op n (ops s) /\ ch_in s1 = ch_in s) by (split; reflexivity).
    destruct (assoc id (used s)) as [owner|].
    + pose proof (SrvC08.nontask_cancel owner s1) as G0. apply SrvC08.nontask_fields in G0.
      destruct G0 as (N1 & N2 & N3 & N4 & N5 & N6 & N7 & N8 & N9 & N10 & N11 & N12 & N13 & N14 & N15 & N16 & N17 &
                    N18 & N19 & N20 & N21 & N22 & N23 & N24 & N25).
      destruct K as [K1 K2]. apply from_same; [|rewrite N6; exact K2].
      intros o Ho. rewrite N22, K1 in Ho. apply SrvC10.in_del_op in Ho. exact Ho.
    + destruct K as [K1 K2]. apply from_same; [|exact K2].
      intros o Ho. rewrite K1 in Ho. apply SrvC10.in_del_op in Ho. exact Ho.
  - (* LRelPush *)
    assert (D : forall s1 : state, ops s1 = del_op n (ops s) -> ch_in s1 = ch_in s -> ops_from s (LRelPush n) s1 /\ chin_from s (LRelPush n) s1).
    { intros s1 O C. apply from_same; auto. intros o Ho. rewrite O in Ho. eapply SrvC10.in_del_op; eauto. }
    destruct (find_op n (ops s)) as [[| |n0 wantid m p]|]; try discriminate.
    cbn in H. destruct (running s); cbn in H; [|injection H as <- <-; apply D; reflexivity].
    destruct wantid; [|injection H as <- <-; apply D; reflexivity].
    destruct (send_fail s); [injection H as <- <-; apply D; reflexivity|].
    destruct (find _ (ended s)) as [[? ?]|]; injection H as <- <-; apply D; reflexivity.
  - (* LRelCbWatch *)
    destruct (nth_error (cbs s) c) as [cb0|]; [|discriminate].
    destruct (cb_watch cb0); try discriminate.
    cbn in H.
    destruct (assoc (cb_id cb0) (calls s)) as [j|]; [|injection H as <- <-; apply from_eq; reflexivity].
    destruct (cb_slot cb0); [injection H as <- <-; apply from_eq; reflexivity|].
    destruct (j =? c); [|injection H as <- <-; apply from_eq; reflexivity].
    destruct (match cb_ctx cb0 with Some WDeadline => _ | _ => _ end) as [code msg].
    injection H as H. unfold complete_cb in H. cbn in H.
    destruct (nth_error (upd_nth c _ (cbs s)) c); injection H as <- <-; apply from_eq; reflexivity.
Qed.

(* a critical section never puts a record into the reader's hands: only the wake-up of the blocked Recv does *)
Lemma raw_rd_hold s l s' os f : inv s -> step_raw s l = Some (s', os) -> rd s' = RHold f -> rd s = RHold f.
Proof.
  intros I H Hr. pose proof (SrvC08.raw_ctl _ _ _ _ I H) as C.
  destruct C as [-> Rn W ->| c s0 s1 Sc Rn S0 P S1|f0 -> Rd Rn ->|f0 i -> Rd Fi Rn S5 C0 Ri Wa Q| -> D ->|u -> D ->
                |u un s1 -> Eu Su -> S1|S5 Cp Wa Q L].
  - cbn in Hr. discriminate.
  - destruct P. destruct S1 as [->|(_ & ->)]; [|cbn in Hr; discriminate].
    rewrite sr_rd in Hr. destruct S0 as [->|(n & ->)]; exact Hr.
  - cbn in Hr. discriminate.
  - congruence.
  - rewrite dequeue_rd in Hr. exact Hr.
  - exact Hr.
  - pose proof (SrvC08.nontask_release (unit_tasks s u) s) as G0. apply SrvC08.nontask_fields in G0.
    destruct G0 as (N1 & N2 & N3 & N4 & N5 & N6 & N7 & N8 & N9 & N10 & N11 & N12 & N13 & N14 & N15 & N16 & N17 &
                  N18 & N19 & N20 & N21 & N22 & N23 & N24 & N25).
    destruct S1 as [(_ & ->)|(_ & ->)]; cbn in Hr; congruence.
  - unfold SrvC08.ctlp in Cp. injection Cp as _ _ R _ _. congruence.
Qed.

(** * one wake-up *)
Lemma settle1_from s s' os : settle1 s = Some (s', os) ->
  ops s' = ops s /\ running s' = running s /\ stop_err s' = stop_err s /\
  (forall f, In f (ch_in s') -> In f (ch_in s)) /\
  (forall f, rd s' = RHold f -> rd s = RHold f \/ In f (ch_in s)).
Proof.
  intros H. apply settle1_inv in H.
  destruct H as [f q Hrd Hch|Hdp Hc|u un H1 H2 H3|i un H1 H2 H3|i un H1 H2 H3|H1 H2 H3|H1 H2 H3];
    try (cbn; repeat split; auto; fail).
  - cbn. repeat split; auto.
    + intros f0 Hf. rewrite Hch. right. exact Hf.
    + intros f0 [= <-]. right. rewrite Hch. left. reflexivity.
  - destruct (SrvC08.dequeue_nontask_like s) as ((R & E & _) & _).
    rewrite dequeue_ops, dequeue_chin, dequeue_rd. repeat split; auto.
Qed.

(** * the environment labels taken by a run are covered by its environment sequence *)
Definition covers (E : list label) (l : label) : Prop := is_env l = true -> In l E.

Lemma covers_env_of tr l : In l tr -> covers (env_of tr) l.
Proof. intros H He. unfold env_of. apply filter_In. auto. Qed.

(* what one critical section does to the recorded cause *)
Lemma raw_stop_view s l s' os : inv s -> step_raw s l = Some (s', os) ->
  (stop_err s' = None /\ running s' = true /\ ch_in s' = [] /\ rd s' = RIdle) \/
  (exists c, SrvC08.stop_cause s l c /\ running s = true /\ running s' = false /\ stop_err s' = Some c) \/
  (running s' = running s /\ stop_err s' = stop_err s).
Proof.
  intros I H. pose proof (SrvC08.raw_ctl _ _ _ _ I H) as C.
  destruct C as [-> Rn W ->| c s0 s1 Sc Rn S0 P S1|f0 -> Rd Rn ->|f0 i -> Rd Fi Rn S5 C0 Ri Wa Q| -> D ->|u -> D ->
                |u un s1 -> Eu Su -> S1|S5 Cp Wa Q L].
  - left. cbn. auto.
  - right. left. exists c. destruct P. destruct S1 as [->|(_ & ->)]; cbn; auto.
  - right. right. cbn. auto.
  - right. right. destruct S5 as (A & B & _). auto.
  - right. right. destruct (SrvC08.dequeue_nontask_like s) as ((A & B & _) & _). auto.
  - right. right. cbn. auto.
  - right. right.
    pose proof (SrvC08.nontask_release (unit_tasks s u) s) as G0. apply SrvC08.nontask_fields in G0.
    destruct G0 as (N1 & N2 & N3 & N4 & N5 & N6 & N7 & N8 & N9 & N10 & N11 & N12 & N13 & N14 & N15 & N16 & N17 &
                  N18 & N19 & N20 & N21 & N22 & N23 & N24 & N25).
    destruct S1 as [(_ & ->)|(_ & ->)]; cbn; auto.
  - right. right. destruct S5 as (A & B & _). auto.
Qed.

(* Stop runs only for a pending Stop call *)
Lemma relstop_op s n s' os : step_raw s (LRelStop n) = Some (s', os) -> exists n0, In (OpStop n0) (ops s).
Proof.
  unfold step_raw. destruct (find_op n (ops s)) as [[n0|n0 id|n0 w m p]|] eqn:F; try discriminate.
  intros _. exists n0. apply SrvC07.find_op_some in F. tauto.
Qed.

(** * the critical sections that may run stopLocked *)
Definition stops (s s' : state) : Prop := running s = true /\ running s' = false.

Lemma stops_dec s s' : stops s s' \/ ~ stops s s'.
Proof.
  unfold stops. destruct (running s), (running s'); auto; right; intros [A B]; discriminate.
Qed.

(* Stop on a stopped server only consumes the pending operation *)
Lemma relstop_view s n s' os : step_raw s (LRelStop n) = Some (s', os) ->
  (stops s s' /\ exists r, os = OClose :: r) \/ tasks s' = tasks s.
Proof.
  unfold step_raw. destruct (find_op n (ops s)) as [[n0|n0 id|n0 w m p]|]; try discriminate.
  destruct (stop_locked SCStop (s <| ops ::= del_op n |>)) as [s0 os0] eqn:St. intros H. injection H as <- <-.
  destruct (running s) eqn:Rn.
  - left. apply SrvC08.stop_locked_run in St as [-> P]; [|exact Rn]. destruct P.
    split; [split; auto|]. eexists. reflexivity.
  - right. apply stop_locked_spec in St as [(_ & -> & _)|(Rn' & _)]; [reflexivity|cbn in Rn'; congruence].
Qed.

Lemma relread_err_view s c s' os : rd s = RHold (FErr c) -> step_raw s LRelRead = Some (s', os) ->
  (stops s s' /\ exists r, os = OClose :: r) \/ tasks s' = tasks s.
Proof.
  intros Rd. unfold step_raw. rewrite Rd. intros H. injection H as H. cbn in H.
  destruct (stop_locked c s) as [s0 os0] eqn:St. injection H as <- <-.
  destruct (running s) eqn:Rn.
  - left. apply SrvC08.stop_locked_run in St as [-> P]; [|exact Rn]. destruct P.
    split; [split; auto|]. eexists. reflexivity.
  - right. apply stop_locked_spec in St as [(_ & -> & _)|(Rn' & _)]; [reflexivity|congruence].
Qed.

(* the critical section that stops the server reports the close of the channel first *)
Lemma raw_stop_obs s l s' os : inv s -> step_raw s l = Some (s', os) -> stops s s' -> exists r, os = OClose :: r.
Proof.
  intros I H [R1 R2]. destruct (raw_stop_view _ _ _ _ I H) as [(_ & X & _)|[(c & Sc & _)|(X & _)]]; try congruence.
  destruct Sc as [n|c Rd].
  - clear - H R1. unfold step_raw in H.
    destruct (find_op n (ops s)) as [[n0|n0 id|n0 w m p]|]; try discriminate.
    destruct (stop_locked SCStop (s <| ops ::= del_op n |>)) as [s0 os0] eqn:St. injection H as <- <-.
    apply SrvC08.stop_locked_run in St as [-> _]; [|exact R1]. eexists. reflexivity.
  - clear - H R1 Rd. unfold step_raw in H. rewrite Rd in H. injection H as H. cbn in H.
    destruct (stop_locked c s) as [s0 os0] eqn:St. injection H as <- <-.
    apply SrvC08.stop_locked_run in St as [-> _]; [|exact R1]. eexists. reflexivity.
Qed.
