(* Basic facts about the list helpers of SrvModel, shared by the property proofs. *)
From Coq Require Import List NArith ZArith Bool Arith Lia.
From JV Require Import Bytes Msg SrvModel.
Import ListNotations.

Lemma upd_nth_length {A} n (f : A -> A) l : length (upd_nth n f l) = length l.
Proof. revert n; induction l as [|x r IH]; intros [|n]; cbn; auto. Qed.

Lemma nth_error_upd_nth_eq {A} n (f : A -> A) l x :
  nth_error l n = Some x -> nth_error (upd_nth n f l) n = Some (f x).
Proof. revert n; induction l as [|y r IH]; intros [|n]; cbn; try discriminate; auto. intros [= ->]; auto. Qed.

Lemma nth_error_upd_nth_neq {A} n m (f : A -> A) l :
  n <> m -> nth_error (upd_nth n f l) m = nth_error l m.
Proof. revert n m; induction l as [|y r IH]; intros [|n] [|m] H; cbn; auto; try congruence. Qed.

Lemma nth_error_upd_nth {A} n m (f : A -> A) l :
  nth_error (upd_nth n f l) m =
  if n =? m then option_map f (nth_error l m) else nth_error l m.
Proof.
  destruct (Nat.eqb_spec n m) as [->|N].
  - destruct (nth_error l m) eqn:E; cbn.
    + apply nth_error_upd_nth_eq; auto.
    + apply nth_error_None. rewrite upd_nth_length. apply nth_error_None; auto.
  - apply nth_error_upd_nth_neq; auto.
Qed.

Lemma upd_nth_none {A} n (f : A -> A) l : nth_error l n = None -> upd_nth n f l = l.
Proof. revert n; induction l as [|y r IH]; intros [|n]; cbn; auto; try discriminate. intros H; f_equal; auto. Qed.

Lemma in_upd_nth {A} n (f : A -> A) l y :
  In y (upd_nth n f l) -> In y l \/ exists x, nth_error l n = Some x /\ y = f x.
Proof.
  revert n; induction l as [|x r IH]; intros [|n]; cbn; auto.
  - intros [<-|H]; eauto.
  - intros [<-|H]; auto. destruct (IH _ H) as [?|?]; auto.
Qed.

Lemma nth_error_app_new {A} (l : list A) x : nth_error (l ++ [x]) (length l) = Some x.
Proof. rewrite nth_error_app2, Nat.sub_diag; auto. Qed.

Lemma nth_error_app_old {A} (l r : list A) n x : nth_error l n = Some x -> nth_error (l ++ r) n = Some x.
Proof. intros H. rewrite nth_error_app1; auto. apply nth_error_Some; congruence. Qed.

(* association lists keyed by byte strings *)
Lemma assoc_in {A} k (m : list (bytes * A)) v : assoc k m = Some v -> In (k, v) m.
Proof.
  induction m as [|[k' v'] m IH]; cbn; [discriminate|].
  destruct (beq_spec k k') as [->|N]; [intros [= ->]; auto|auto].
Qed.

Lemma assoc_none {A} k (m : list (bytes * A)) : assoc k m = None <-> ~ In k (map fst m).
Proof.
  induction m as [|[k' v'] m IH]; cbn; [tauto|].
  destruct (beq_spec k k') as [->|N]; [split; [discriminate|intros H; exfalso; auto]|].
  rewrite IH. split; intros H; [intros [E|E]; [congruence|auto]|auto].
Qed.

Lemma assoc_del_same {A} k (m : list (bytes * A)) : assoc k (assoc_del k m) = None.
Proof.
  induction m as [|[k' v'] m IH]; cbn; auto.
  destruct (beq_spec k k') as [->|N]; auto. cbn. destruct (beq_spec k k'); [congruence|auto].
Qed.

Lemma assoc_del_other {A} k k' (m : list (bytes * A)) : k <> k' -> assoc k' (assoc_del k m) = assoc k' m.
Proof.
  intros N. induction m as [|[k2 v2] m IH]; cbn; auto.
  destruct (beq_spec k k2) as [->|N2].
  - destruct (beq_spec k' k2); [congruence|auto].
  - cbn. destruct (beq_spec k' k2); auto.
Qed.

Lemma in_assoc_del {A} k (m : list (bytes * A)) p : In p (assoc_del k m) -> In p m /\ fst p <> k.
Proof.
  induction m as [|[k2 v2] m IH]; cbn; [tauto|].
  destruct (beq_spec k k2) as [->|N].
  - intros H. destruct (IH H); auto.
  - intros [<-|H]; [cbn; split; auto|]. destruct (IH H); auto.
Qed.

Lemma mem_bytes_in k l : mem_bytes k l = true <-> In k l.
Proof.
  induction l as [|x r IH]; cbn; [split; [discriminate|tauto]|].
  rewrite orb_true_iff, IH, beq_eq. split; intros [H|H]; auto.
Qed.

Lemma is_nil_true (b : bytes) : is_nil b = true <-> b = [].
Proof. destruct b; cbn; split; congruence. Qed.

Lemma find_idx_some {A} (p : A -> bool) i l k :
  find_idx p i l = Some k -> exists x, nth_error l (k - i) = Some x /\ p x = true /\ i <= k.
Proof.
  revert i; induction l as [|x r IH]; cbn; intros i; [discriminate|].
  destruct (p x) eqn:P.
  - intros [= <-]. rewrite Nat.sub_diag. exists x; cbn; auto.
  - intros H. destruct (IH _ H) as (y & Hn & Hp & Hle).
    exists y. replace (k - i) with (S (k - S i)) by lia. cbn. repeat split; auto. lia.
Qed.

(* reachability: every state of every schedule of every history *)
Record config := { cf_K : nat; cf_push : bool; cf_builtin : bool; cf_methods : list bytes; cf_unblock : bool }.
Definition init_of (c : config) : state := init (cf_K c) (cf_push c) (cf_builtin c) (cf_methods c) (cf_unblock c).

Inductive reach (c : config) : state -> Prop :=
| reach_init : reach c (init_of c)
| reach_step s l s' os : reach c s -> step s l = Some (s', os) -> reach c s'.

Lemma run_reach c tr : forall s s' oss, reach c s -> run s tr = Some (s', oss) -> reach c s'.
Proof.
  induction tr as [|l r IH]; cbn; intros s s' oss R H.
  - injection H as <- <-; auto.
  - destruct (step s l) as [[s1 os]|] eqn:E; [|discriminate].
    destruct (run s1 r) as [[s2 oss2]|] eqn:E2; [|discriminate].
    injection H as <- <-. eapply IH; [|exact E2]. eapply reach_step; eauto.
Qed.
