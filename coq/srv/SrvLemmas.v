(* Basic facts about the list helpers of SrvModel, shared by the property proofs. *)
From Coq Require Import List NArith ZArith Bool Arith Lia.
From RecordUpdate Require Import RecordUpdate.
From JV Require Import Bytes Msg SrvModel.
Import ListNotations.

Lemma upd_nth_length {A} n (f : A -> A) l : length (upd_nth n f l) = length l.
Proof. revert n; induction l as [|x r IH]; intros [|n]; cbn; auto. Qed.

Lemma nth_error_upd_nth_eq {A} n (f : A -> A) l x :
  nth_error l n = Some x -> nth_error (upd_nth n f l) n = Some (f x).
Proof. revert n; induction l as [|y r IH]; intros [|n]; cbn; try discriminate; auto. intros [= ->]; auto. Qed.

Lemma nth_error_upd_nth_neq {A} n m (f : A -> A) l :
  n <> m -> nth_error (upd_nth n f l) m = nth_error l m.
Proof. revert n m; induction l as [|y r IH]; intros [|n] [|m] H; cbn; auto; try congruence. Qed.

Lemma nth_error_upd_nth {A} n m (f : A -> A) l :
  nth_error (upd_nth n f l) m =
  if n =? m then option_map f (nth_error l m) else nth_error l m.
Proof.
  destruct (Nat.eqb_spec n m) as [->|N].
  - destruct (nth_error l m) eqn:E; cbn.
    + apply nth_error_upd_nth_eq; auto.
    + apply nth_error_None. rewrite upd_nth_length. apply nth_error_None; auto.
  - apply nth_error_upd_nth_neq; auto.
Qed.

Lemma upd_nth_none {A} n (f : A -> A) l : nth_error l n = None -> upd_nth n f l = l.
Proof. revert n; induction l as [|y r IH]; intros [|n]; cbn; auto; try discriminate. intros H; f_equal; auto. Qed.

Lemma in_upd_nth {A} n (f : A -> A) l y :
  In y (upd_nth n f l) -> In y l \/ exists x, nth_error l n = Some x /\ y = f x.
Proof.
  revert n; induction l as [|x r IH]; intros [|n]; cbn; auto.
  - intros [<-|H]; eauto.
  - intros [<-|H]; auto. destruct (IH _ H) as [?|?]; auto.
Qed.

Lemma nth_error_app_new {A} (l : list A) x : nth_error (l ++ [x]) (length l) = Some x.
Proof. rewrite nth_error_app2, Nat.sub_diag; auto. Qed.

Lemma nth_error_app_old {A} (l r : list A) n x : nth_error l n = Some x -> nth_error (l ++ r) n = Some x.
Proof. intros H. rewrite nth_error_app1; auto. apply nth_error_Some; congruence. Qed.

(* association lists keyed by byte strings *)
Lemma assoc_in {A} k (m : list (bytes * A)) v : assoc k m = Some v -> In (k, v) m.
Proof.
  induction m as [|[k' v'] m IH]; cbn; [discriminate|].
  destruct (beq_spec k k') as [->|N]; [intros [= ->]; auto|auto].
Qed.

Lemma assoc_none {A} k (m : list (bytes * A)) : assoc k m = None <-> ~ In k (map fst m).
Proof.
  induction m as [|[k' v'] m IH]; cbn; [tauto|].
  destruct (beq_spec k k') as [->|N]; [split; [discriminate|intros H; exfalso; auto]|].
  rewrite IH. split; intros H; [intros [E|E]; [congruence|auto]|auto].
Qed.

Lemma assoc_del_same {A} k (m : list (bytes * A)) : assoc k (assoc_del k m) = None.
Proof.
  induction m as [|[k' v'] m IH]; cbn; auto.
  destruct (beq_spec k k') as [->|N]; auto. cbn. destruct (beq_spec k k'); [congruence|auto].
Qed.

Lemma assoc_del_other {A} k k' (m : list (bytes * A)) : k <> k' -> assoc k' (assoc_del k m) = assoc k' m.
Proof.
  intros N. induction m as [|[k2 v2] m IH]; cbn; auto.
  destruct (beq_spec k k2) as [->|N2].
  - destruct (beq_spec k' k2); [congruence|auto].
  - cbn. destruct (beq_spec k' k2); auto.
Qed.

Lemma in_assoc_del {A} k (m : list (bytes * A)) p : In p (assoc_del k m) -> In p m /\ fst p <> k.
Proof.
  induction m as [|[k2 v2] m IH]; cbn; [tauto|].
  destruct (beq_spec k k2) as [->|N].
  - intros H. destruct (IH H); auto.
  - intros [<-|H]; [cbn; split; auto|]. destruct (IH H); auto.
Qed.

Lemma mem_bytes_in k l : mem_bytes k l = true <-> In k l.
Proof.
  induction l as [|x r IH]; cbn; [split; [discriminate|tauto]|].
  rewrite orb_true_iff, IH, beq_eq. split; intros [H|H]; auto.
Qed.

Lemma is_nil_true (b : bytes) : is_nil b = true <-> b = [].
Proof. destruct b; cbn; split; congruence. Qed.

Lemma find_idx_some {A} (p : A -> bool) i l k :
  find_idx p i l = Some k -> exists x, nth_error l (k - i) = Some x /\ p x = true /\ i <= k.
Proof.
  revert i; induction l as [|x r IH]; cbn; intros i; [discriminate|].
  destruct (p x) eqn:P.
  - intros [= <-]. rewrite Nat.sub_diag. exists x; cbn; auto.
  - intros H. destruct (IH _ H) as (y & Hn & Hp & Hle).
    exists y. replace (k - i) with (S (k - S i)) by lia. cbn. repeat split; auto. lia.
Qed.

(* reachability: every state of every schedule of every history *)
Record config := { cf_K : nat; cf_push : bool; cf_builtin : bool; cf_methods : list bytes; cf_unblock : bool }.
Definition init_of (c : config) : state := init (cf_K c) (cf_push c) (cf_builtin c) (cf_methods c) (cf_unblock c).

Inductive reach (c : config) : state -> Prop :=
| reach_init : reach c (init_of c)
| reach_step s l s' os : reach c s -> step s l = Some (s', os) -> reach c s'.

Lemma run_reach c tr : forall s s' oss, reach c s -> run s tr = Some (s', oss) -> reach c s'.
Proof.
  induction tr as [|l r IH]; cbn; intros s s' oss R H.
  - injection H as <- <-; auto.
  - destruct (step s l) as [[s1 os]|] eqn:E; [|discriminate].
    destruct (run s1 r) as [[s2 oss2]|] eqn:E2; [|discriminate].
    injection H as <- <-. eapply IH; [|exact E2]. eapply reach_step; eauto.
Qed.

(** * Fine-grained reachability: every intermediate state of every window.
    [step] = one [step_raw] (a critical section / environment action) followed by a
    run of [settle1] steps (wake-ups).  [reachf] contains every state [reach] does
    and the intermediate ones, so an invariant proved by induction on [reachf]
    holds in every reachable state, and may be used at the intermediate states in
    the proof of another invariant. *)
Inductive reachf (c : config) : state -> Prop :=
| rf_init : reachf c (init_of c)
| rf_raw s l s' os : reachf c s -> crash s = None -> step_raw s l = Some (s', os) -> reachf c s'
| rf_settle s s' os : reachf c s -> settle1 s = Some (s', os) -> reachf c s'.

Lemma settle_reachf c : forall fuel s acc s' os, reachf c s -> settle fuel s acc = (s', os) -> reachf c s'.
Proof.
  induction fuel as [|f IH]; cbn; intros s acc s' os R H.
  - injection H as <- <-; auto.
  - destruct (settle1 s) as [[s1 os1]|] eqn:E.
    + eapply IH; [|exact H]. eapply rf_settle; eauto.
    + injection H as <- <-; auto.
Qed.

Lemma step_reachf c s l s' os : reachf c s -> step s l = Some (s', os) -> reachf c s'.
Proof.
  unfold step. intros R H.
  destruct (crash s) eqn:C; [discriminate|].
  destruct (step_raw s l) as [[s1 os1]|] eqn:E; [|discriminate].
  assert (R1 : reachf c s1) by (eapply rf_raw; eauto).
  destruct (crash s1) eqn:C1.
  - injection H as <- <-; auto.
  - destruct (settle (settle_fuel s1) s1 os1) as [s2 os2] eqn:S.
    injection H as <- <-. eapply settle_reachf; [exact R1|exact S].
Qed.

Lemma reach_reachf c s : reach c s -> reachf c s.
Proof. induction 1; [constructor|eapply step_reachf; eauto]. Qed.

(* shape of a window: the raw step, then settling *)
Lemma step_decompose s l s' os :
  step s l = Some (s', os) ->
  crash s = None /\
  exists s1 os1, step_raw s l = Some (s1, os1) /\
    ((crash s1 <> None /\ s' = s1 /\ os = os1) \/
     (crash s1 = None /\ settle (settle_fuel s1) s1 os1 = (s', os))).
Proof.
  unfold step. intros H.
  destruct (crash s) eqn:C; [discriminate|]. split; auto.
  destruct (step_raw s l) as [[s1 os1]|] eqn:E; [|discriminate].
  exists s1, os1. split; auto.
  destruct (crash s1) eqn:C1.
  - injection H as <- <-. left. repeat split; congruence.
  - right. destruct (settle (settle_fuel s1) s1 os1) as [s2 os2] eqn:S.
    injection H as <- <-. auto.
Qed.




(* counting with a boolean predicate, and how a point update changes the count *)
Fixpoint countb {A} (p : A -> bool) (l : list A) : nat :=
  match l with [] => 0 | x :: r => (if p x then 1 else 0) + countb p r end.

Lemma countb_app {A} (p : A -> bool) l r : countb p (l ++ r) = countb p l + countb p r.
Proof. induction l as [|x l IH]; cbn; auto. rewrite IH; lia. Qed.

Lemma countb_upd_nth {A} (p : A -> bool) n f l x :
  nth_error l n = Some x ->
  countb p (upd_nth n f l) + (if p x then 1 else 0) = countb p l + (if p (f x) then 1 else 0).
Proof.
  revert n; induction l as [|y r IH]; intros [|n]; cbn; try discriminate.
  - intros [= ->]. destruct (p x), (p (f x)); lia.
  - intros H. specialize (IH _ H). destruct (p y); lia.
Qed.

Lemma countb_upd_nth_same {A} (p : A -> bool) n f l :
  (forall x, nth_error l n = Some x -> p (f x) = p x) -> countb p (upd_nth n f l) = countb p l.
Proof.
  intros H. destruct (nth_error l n) as [x|] eqn:E.
  - pose proof (@countb_upd_nth A p n f l x E) as C. rewrite (H _ eq_refl) in C. lia.
  - rewrite upd_nth_none; auto.
Qed.

Lemma countb_zero_forall {A} (p : A -> bool) l : countb p l = 0 <-> forall x, In x l -> p x = false.
Proof.
  induction l as [|y r IH]; cbn; [tauto|].
  destruct (p y) eqn:P.
  - split; [lia|]. intros H. specialize (H y (or_introl eq_refl)). congruence.
  - rewrite IH. split; intros H; [intros x [<-|I]; auto|intros x I; auto].
Qed.

(** * Inversion of [settle1]: the six kinds of unhooked consequence *)
Inductive settle1_spec (s : state) : state -> list obs -> Prop :=
| S1Recv f q : rd s = RIdle -> ch_in s = f :: q ->
    settle1_spec s (s <| rd := RHold f |> <| ch_in := q |>) []
| S1Dequeue : dp s = DWaitWork -> negb (running s) || negb (is_nil_list (inq s)) = true ->
    settle1_spec s (dequeue s) []
| S1Barrier u un : dp s = DBarrierWait u -> nbar s = 0 -> nth_error (units s) u = Some un ->
    settle1_spec s (set_unit u (fun x => x <| u_st := URunning |>) s
                      <| nbar := u_notes un |> <| wg ::= S |> <| dp := DAtNext |>) []
| S1UnitSilent i un : find_unit (unit_complete s) 0 (units s) = Some i -> nth_error (units s) i = Some un ->
    responses (unit_tasks s i) = [] ->
    settle1_spec s (set_unit i (fun x => x <| u_st := UFinished |>) s <| wg ::= pred |>) []
| S1UnitDeliver i un : find_unit (unit_complete s) 0 (units s) = Some i -> nth_error (units s) i = Some un ->
    responses (unit_tasks s i) <> [] ->
    settle1_spec s (set_unit i (fun x => x <| u_st := UAtDeliver |>) s) []
| S1WaitRet : 0 < waits s -> wg s = 0 -> inq s = [] ->
    settle1_spec s (s <| waits ::= pred |>) [OWaitRet (stop_err s)]
| S1WaitCrash : 0 < waits s -> wg s = 0 -> inq s <> [] ->
    settle1_spec s (s <| waits ::= pred |> <| crash := Some CrQueueNotEmpty |>) [OCrash CrQueueNotEmpty].

Lemma is_nil_list_true {A} (l : list A) : is_nil_list l = true <-> l = [].
Proof. destruct l; cbn; split; congruence. Qed.

Lemma settle1_inv s s' os : settle1 s = Some (s', os) -> settle1_spec s s' os.
Proof.
  unfold settle1. intros H.
  assert (T : match find_unit (unit_complete s) 0 (units s) with
     | Some i =>
         match nth_error (units s) i with
         | Some un =>
             if is_nil_list (responses (unit_tasks s i))
             then Some (set_unit i (fun x => x <| u_st := UFinished |>) s <| wg ::= pred |>, @nil obs)
             else Some (set_unit i (fun x => x <| u_st := UAtDeliver |>) s, [])
         | None => None
         end
     | None =>
         if (0 <? waits s) && (wg s =? 0) then
           if is_nil_list (inq s)
           then Some (s <| waits ::= pred |>, [OWaitRet (stop_err s)])
           else Some (s <| waits ::= pred |> <| crash := Some CrQueueNotEmpty |>, [OCrash CrQueueNotEmpty])
         else None
     end = Some (s', os) -> settle1_spec s s' os).
  { intros Hr.
    destruct (find_unit (unit_complete s) 0 (units s)) as [i|] eqn:F.
    - destruct (nth_error (units s) i) as [un|] eqn:U; [|discriminate].
      destruct (is_nil_list (responses (unit_tasks s i))) eqn:N; injection Hr as <- <-.
      + eapply S1UnitSilent; eauto. apply is_nil_list_true; auto.
      + eapply S1UnitDeliver; eauto. intros Z. apply is_nil_list_true in Z. congruence.
    - destruct ((0 <? waits s) && (wg s =? 0)) eqn:W; [|discriminate].
      apply andb_true_iff in W as [W1 W2]. apply Nat.ltb_lt in W1. apply Nat.eqb_eq in W2.
      destruct (is_nil_list (inq s)) eqn:N; injection Hr as <- <-.
      + apply S1WaitRet; auto. apply is_nil_list_true; auto.
      + apply S1WaitCrash; auto. intros Z. apply is_nil_list_true in Z. congruence. }
  assert (K : match dp s with
     | DWaitWork => if negb (running s) || negb (is_nil_list (inq s)) then Some (dequeue s, @nil obs) else None
     | DBarrierWait u =>
         if nbar s =? 0 then
           match nth_error (units s) u with
           | Some un => Some (set_unit u (fun x => x <| u_st := URunning |>) s
                                <| nbar := u_notes un |> <| wg ::= S |> <| dp := DAtNext |>, [])
           | None => None
           end
         else None
     | _ => None
     end = Some (s', os) -> settle1_spec s s' os).
  { intros Hr. destruct (dp s) eqn:D; try discriminate.
    - destruct (negb (running s) || negb (is_nil_list (inq s))) eqn:B; [|discriminate].
      injection Hr as <- <-. apply S1Dequeue; auto.
    - destruct (Nat.eqb_spec (nbar s) 0) as [Z|Z]; [|discriminate].
      destruct (nth_error (units s) u) as [un|] eqn:U; [|discriminate].
      injection Hr as <- <-. eapply S1Barrier; eauto. }
  destruct (rd s) eqn:R.
  1,3,4: match type of H with
         | match ?d with Some r => _ | None => _ end = _ =>
             destruct d as [[a b]|] eqn:D; [injection H as <- <-; apply K; reflexivity | apply T; exact H]
         end.
  destruct (ch_in s) as [|f q] eqn:Q.
  - match type of H with
    | match ?d with Some r => _ | None => _ end = _ =>
        destruct d as [[a b]|] eqn:D; [injection H as <- <-; apply K; reflexivity | apply T; exact H]
    end.
  - injection H as <- <-. apply S1Recv; auto.
Qed.

(* the observations a settling run adds are WaitStatus returns and crash reports only *)
Definition settle_obs (o : obs) : Prop := match o with OWaitRet _ | OCrash _ => True | _ => False end.

Lemma settle1_obs s s' os : settle1 s = Some (s', os) -> Forall settle_obs os.
Proof. intros H. apply settle1_inv in H. destruct H; repeat constructor. Qed.

Lemma settle_obs_app : forall fuel s acc s' os,
  settle fuel s acc = (s', os) -> exists extra, os = acc ++ extra /\ Forall settle_obs extra.
Proof.
  induction fuel as [|f IH]; cbn; intros s acc s' os H.
  - injection H as <- <-. exists []. rewrite app_nil_r; auto.
  - destruct (settle1 s) as [[s1 os1]|] eqn:E.
    + destruct (IH _ _ _ _ H) as (ex & -> & F).
      exists (os1 ++ ex). rewrite app_assoc. split; auto.
      apply Forall_app; split; auto. eapply settle1_obs; eauto.
    + injection H as <- <-. exists []. rewrite app_nil_r; auto.
Qed.
