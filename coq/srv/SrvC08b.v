(* SrvC08b: C08.2 stop exactly once / first cause wins, C08.3 what WaitStatus reports,
   C08.4 WaitStatus returns only after every goroutine and handler has finished. *)
From Coq Require Import List NArith ZArith Bool Arith Lia.
From RecordUpdate Require Import RecordUpdate.
From JV Require Import Bytes Msg SrvModel SrvLemmas SrvBasics SrvC01 SrvC07 SrvC09 SrvC10 SrvC08.
Import ListNotations.

(** * WaitStatus returns are produced by settling only *)
Definition nowait (o : obs) : Prop := match o with OWaitRet _ => False | _ => True end.

Lemma is_ret_nowait os : Forall SrvC01.is_ret os -> Forall nowait os.
Proof. apply Forall_impl. intros [] H; cbn in *; auto. Qed.

Lemma is_start_nowait os : Forall is_start_obs os -> Forall nowait os.
Proof. apply Forall_impl. intros [] H; cbn in *; auto. Qed.

Lemma stop_locked_nowait c s s' os : stop_locked c s = (s', os) -> Forall nowait os.
Proof.
  intros H. apply stop_locked_spec in H as [(_ & _ & ->)|(_ & -> & _)]; repeat constructor.
Qed.

Lemma raw_nowait s l s' os : inv s -> step_raw s l = Some (s', os) -> Forall nowait os.
Proof.
  intros I H. destruct l; unfold step_raw in H.
  - destruct (negb (running s) && (wg s =? 0)); [|discriminate]. injection H as <- <-. constructor.
  - injection H as <- <-. constructor.
  - injection H as <- <-. constructor.
  - destruct (find_idx _ 0 (tasks s)) as [k|]; [|discriminate].
    destruct (nth_error (tasks s) k) as [t|]; [|discriminate]. injection H as <- <-. repeat constructor.
  - injection H as <- <-. constructor.
  - injection H as <- <-. constructor.
  - destruct (c_push s); injection H as <- <-; repeat constructor.
  - injection H as <- <-. constructor.
  - destruct (find_idx _ 0 (cbs s)); injection H as <- <-; constructor.
  - (* LRelRead *)
    destruct (rd s) as [| |f|] eqn:Rd; try discriminate. injection H as H.
    assert (Msg : forall i, (if negb (running s) then (s <| rd := RExited |> <| wg ::= pred |>, [])
           else match i with
           | InBad => let '(s', os) := push_error s ParseError s_invalid_value in (s' <| rd := RIdle |>, os)
           | InMsgs _ [] => let '(s', os) := push_error s InvalidRequest s_empty_batch in (s' <| rd := RIdle |>, os)
           | InMsgs b ms =>
               let '(s1, keep, os) := filter_batch ms s [] [] in
               match keep with
               | [] => (s1 <| rd := RIdle |>, os)
               | _ => let s2 := s1 <| inq ::= fun q => q ++ [(b, keep)] |> <| rd := RIdle |> in
                      if work_closed s2 && (length (inq s2) =? 1)
                      then (s2 <| crash := Some CrSendOnClosedWork |>, os ++ [OCrash CrSendOnClosedWork])
                      else (s2, os)
               end
           end) = (s', os) -> Forall nowait os).
    { intros i H'. destruct (negb (running s)); [injection H' as <- <-; constructor|].
      destruct i as [|b ms]; [cbn in H'; injection H' as <- <-; repeat constructor|].
      destruct ms as [|m ms]; [cbn in H'; injection H' as <- <-; repeat constructor|].
      destruct (filter_batch (m :: ms) s [] []) as [[s1 keep] os1] eqn:F.
      apply SrvC01.filter_batch_obs in F; [|constructor]. apply is_ret_nowait in F.
      destruct keep as [|k0 kr]; [injection H' as <- <-; auto|]. cbv zeta in H'.
      match type of H' with (if ?c then _ else _) = _ => destruct c end; injection H' as <- <-; auto.
      apply Forall_app. split; auto. repeat constructor. }
    destruct f as [i|i|c]; [apply (Msg i); exact H|apply (Msg i); exact H|].
    cbn in H. destruct (stop_locked c s) as [s0 os0] eqn:St. injection H as <- <-.
    eapply stop_locked_nowait; eauto.
  - destruct (dp s); try discriminate. injection H as <- <-. constructor.
  - destruct (dp s); try discriminate. injection H as <- <-. constructor.
  - destruct (nth_error (tasks s) k) as [t|]; [|discriminate].
    destruct (t_st t); try discriminate.
    destruct (negb (unit_running s t)); [discriminate|].
    destruct (t_cancelled t); [injection H as <- <-; constructor|].
    destruct (sem_free s); [injection H as <- <-; constructor|].
    destruct (sem_wait s); [|injection H as <- <-; constructor].
    destruct (t_builtin t); injection H as <- <-; repeat constructor.
  - destruct (nth_error (tasks s) k) as [t|] eqn:E; [|discriminate].
    destruct (t_st t) eqn:St; try discriminate.
    set (s0 := set_task k (fun t => t <| t_st := TDone (body_of_outcome t o) |>) s <| sem_free ::= S |>) in *.
    destruct (grant (S (length (sem_wait s0))) s0 []) as [s2 os2] eqn:G.
    apply grant_obs in G as (ex & -> & F). cbn. apply is_start_nowait in F.
    destruct (is_note t); [destruct (nbar s2)|]; injection H as <- <-; auto.
    apply Forall_app. split; auto. repeat constructor.
  - destruct (nth_error (units s) u) as [un|]; [|discriminate].
    destruct (u_st un); try discriminate.
    destruct (u_chok un); cbn in H; injection H as <- <-; repeat constructor.
  - destruct (find_op n (ops s)) as [[n0|n0 id|n0 w m p]|]; try discriminate.
    destruct (stop_locked SCStop (s <| ops ::= del_op n |>)) as [s0 os0] eqn:St. injection H as <- <-.
    apply Forall_app. split; [eapply stop_locked_nowait; eauto|repeat constructor].
  - destruct (find_op n (ops s)) as [[n0|n0 id|n0 w m p]|]; try discriminate.
    injection H as <- <-. repeat constructor.
  - destruct (find_op n (ops s)) as [[| |n0 wantid m p]|]; try discriminate.
    cbn in H. destruct (running s); cbn in H; [|injection H as <- <-; repeat constructor].
    destruct wantid; [|injection H as <- <-; repeat constructor].
    destruct (send_fail s); [injection H as <- <-; repeat constructor|].
    destruct (find _ (ended s)) as [[? ?]|]; injection H as <- <-; repeat constructor.
  - destruct (nth_error (cbs s) c) as [cb0|]; [|discriminate].
    destruct (cb_watch cb0); try discriminate.
    cbn in H.
    destruct (assoc (cb_id cb0) (calls s)) as [j|]; [|injection H as <- <-; constructor].
    destruct (cb_slot cb0); [injection H as <- <-; constructor|].
    destruct (j =? c); [|injection H as <- <-; constructor].
    destruct (match cb_ctx cb0 with Some WDeadline => _ | _ => _ end) as [code msg].
    injection H as H.
    match type of H with complete_cb ?i ?r ?x = _ => pose proof (SrvC01.complete_cb_obs i r x) as K end.
    rewrite H in K. cbn in K. apply is_ret_nowait; auto.
Qed.

(** * Settling never touches the control fields *)
Lemma settle1_same5 s s' os : settle1 s = Some (s', os) -> same5 s s'.
Proof.
  intros H. apply settle1_inv in H. destruct H; try (repeat split; fail). apply dequeue_nontask_like.
Qed.

Lemma same5_trans a b c : same5 a b -> same5 b c -> same5 a c.
Proof. unfold same5. intuition congruence. Qed.

Lemma settle_same5 : forall fuel s acc s' os, settle fuel s acc = (s', os) -> same5 s s'.
Proof.
  induction fuel as [|f IH]; cbn; intros s acc s' os H.
  - injection H as <- _. apply same5_refl.
  - destruct (settle1 s) as [[s1 os1]|] eqn:E; [|injection H as <- _; apply same5_refl].
    eapply same5_trans; [eapply settle1_same5; eauto|eapply IH; eauto].
Qed.

(* an idle wait group: the only thing left to happen without a label is a WaitStatus return *)
Lemma settle1_idle c s s' os : reachf c s -> wg s = 0 -> settle1 s = Some (s', os) ->
  s' = s <| waits ::= pred |> /\ os = [OWaitRet (stop_err s)] /\ inq s = [] /\ 0 < waits s.
Proof.
  intros R Z H. pose proof (reachf_inv2 _ _ R) as [B G]. rewrite Z in G.
  pose proof (reachf_inv8 _ _ R) as [Ic _ _].
  apply settle1_inv in H. destruct H as [f q Rd _ | D _ | u un D _ _ | i un F E _ | i un F E _ | W _ Q | W _ Q].
  - rewrite Rd in G. cbn in G. lia.
  - rewrite D in G. cbn in G. lia.
  - rewrite D in G. cbn in G. lia.
  - apply find_unit_some in F as (un' & E' & C & _). rewrite Nat.sub_0_r, E in E'. injection E' as <-.
    apply unit_complete_inv in C as [Su _].
    assert (C0 : countb unit_live (units s) = 0) by lia. rewrite countb_zero_forall in C0.
    specialize (C0 _ (nth_error_In _ _ E)). unfold unit_live in C0. rewrite Su in C0. discriminate.
  - apply find_unit_some in F as (un' & E' & C & _). rewrite Nat.sub_0_r, E in E'. injection E' as <-.
    apply unit_complete_inv in C as [Su _].
    assert (C0 : countb unit_live (units s) = 0) by lia. rewrite countb_zero_forall in C0.
    specialize (C0 _ (nth_error_In _ _ E)). unfold unit_live in C0. rewrite Su in C0. discriminate.
  - auto.
  - exfalso. destruct (wg0_dp_rd s (reachf_inv2 _ _ R) Z) as [Hd _]. destruct (ic_dpx _ Ic Hd). auto.
Qed.

Lemma settle_idle c : forall fuel s acc s' os, reachf c s -> wg s = 0 -> settle fuel s acc = (s', os) ->
  exists n, s' = s <| waits := waits s - n |> /\ os = acc ++ repeat (OWaitRet (stop_err s)) n /\ n <= waits s /\
            (0 < n -> inq s = []).
Proof.
  induction fuel as [|f IH]; cbn; intros s acc s' os R Z H.
  - injection H as <- <-. exists 0. rewrite Nat.sub_0_r, app_nil_r. repeat split; try lia. destruct s; reflexivity.
  - destruct (settle1 s) as [[s1 os1]|] eqn:E.
    + destruct (settle1_idle _ _ _ _ R Z E) as (-> & -> & Q & W).
      destruct (IH _ _ _ _ (rf_settle _ _ _ _ R E) Z H) as (n & -> & -> & Ln & _). cbn in *.
      exists (S n). cbn. rewrite <- app_assoc. cbn. repeat split; auto; try lia.
      replace (waits s - S n) with (pred (waits s) - n) by lia. reflexivity.
    + injection H as <- <-. exists 0. rewrite Nat.sub_0_r, app_nil_r. repeat split; try lia. destruct s; reflexivity.
Qed.

(* where a WaitStatus return of a settling run comes from *)
Lemma settle_waitret c r : forall fuel s acc s' os, reachf c s -> settle fuel s acc = (s', os) ->
  In (OWaitRet r) os -> In (OWaitRet r) acc \/ (r = stop_err s' /\ wg s' = 0 /\ inq s' = []).
Proof.
  induction fuel as [|f IH]; cbn; intros s acc s' os R H Hin.
  - injection H as <- <-. auto.
  - destruct (settle1 s) as [[s1 os1]|] eqn:E; [|injection H as <- <-; auto].
    destruct (IH _ _ _ _ (rf_settle _ _ _ _ R E) H Hin) as [Ha|Hb]; auto.
    apply in_app_or in Ha as [Ha|Ha]; auto. right.
    pose proof E as E0. apply settle1_inv in E0.
    destruct E0 as [f0 q Rd _ | D _ | u un D _ _ | i un F Eu _ | i un F Eu _ | W Z Q | W Z Q];
      cbn in Ha; try tauto; destruct Ha as [Ha|[]]; try discriminate.
    injection Ha as <-.
    destruct (settle_idle c _ _ _ _ _ (rf_settle _ _ _ _ R E) Z H) as (n & -> & _). cbn. auto.
Qed.

Lemma step_waitret c s l s' os r : reachf c s -> step s l = Some (s', os) -> In (OWaitRet r) os ->
  r = stop_err s' /\ wg s' = 0 /\ inq s' = [].
Proof.
  intros R H Hin. apply step_decompose in H as (C & s1 & os1 & Hr & Hs).
  pose proof (raw_nowait _ _ _ _ (reachf_inv _ _ R) Hr) as Nw.
  assert (N1 : ~ In (OWaitRet r) os1).
  { intros Hi. rewrite Forall_forall in Nw. apply (Nw _ Hi). }
  destruct Hs as [(_ & -> & ->)|(C1 & Hs)]; [tauto|].
  destruct (settle_waitret c r _ _ _ _ _ (rf_raw _ _ _ _ _ R C Hr) Hs Hin); tauto.
Qed.

(** * C08.2 every Start is closed exactly once; the first cause wins *)
Theorem stop_once c s : reach c s ->
  closes s <= starts s /\ (closes s = starts s <-> running s = false).
Proof.
  intros R. pose proof (ic_bal _ (i8_c _ (reachf_inv8 _ _ (reach_reachf _ _ R)))) as B.
  destruct (running s); split; try lia; split; intros; try lia; discriminate.
Qed.

Theorem stop_err_set c s : reach c s ->
  (stop_err s = None <-> running s = true \/ starts s = 0) /\
  (forall e, stop_err s = Some e -> running s = false /\ work_closed s = true /\ 0 < starts s).
Proof.
  intros R. pose proof (i8_c _ (reachf_inv8 _ _ (reach_reachf _ _ R))) as Ic.
  split; [apply Ic|]. intros e E.
  assert (Rn : running s = false).
  { destruct (running s) eqn:Rn; auto. destruct (ic_err _ Ic) as [_ H]. rewrite H in E; auto. discriminate. }
  assert (S0 : 0 < starts s).
  { destruct (starts s) eqn:Z; [|lia]. destruct (ic_err _ Ic) as [_ H]. rewrite H in E; auto. discriminate. }
  repeat split; auto. apply (ic_wc2 _ Ic); auto.
Qed.

(* a later stop cause is the identity *)
Theorem stop_idempotent k s : running s = false -> stop_locked k s = (s, []).
Proof. intros R. unfold stop_locked. rewrite R. reflexivity. Qed.

(* every critical section either starts the server, stops it (naming the cause), or leaves the control fields alone *)
Lemma raw_three s l s' os : inv s -> step_raw s l = Some (s', os) ->
  (l = LStart /\ running s = false /\ wg s = 0 /\ running s' = true /\ stop_err s' = None /\
   starts s' = S (starts s) /\ closes s' = closes s) \/
  (exists k, stop_cause s l k /\ running s = true /\ running s' = false /\ stop_err s' = Some k /\
             closes s' = S (closes s) /\ starts s' = starts s /\ work_closed s' = true) \/
  same5 s s'.
Proof.
  intros I H. apply raw_ctl in H; auto.
  destruct H as [L Rn Wg -> | k s0 s1 Sc Rn H0 P H1 | f L Rd Rn -> | f i L Rd Hf Rn S5 C0 Ri Wa Hq
                | L D -> | u L D -> | u un s1 L E Su -> Hs | S5 Cp Wa Cr Ln].
  - left. cbn. repeat split; auto.
  - right. left. exists k. destruct P.
    assert (F0 : closes s0 = closes s /\ starts s0 = starts s) by (destruct H0 as [->|(n & ->)]; cbn; auto).
    destruct F0 as (F1 & F2).
    destruct H1 as [->|(_ & ->)]; cbn; repeat split; auto; congruence.
  - right. right. repeat split.
  - right. right. auto.
  - right. right. apply dequeue_nontask_like.
  - right. right. repeat split.
  - right. right. pose proof (nontask_same5 _ _ (nontask_release (unit_tasks s u) s)) as S5.
    destruct Hs as [(_ & ->)|(_ & ->)]; exact S5.
  - right. right. auto.
Qed.

Lemma step_three c s l s' os : reachf c s -> step s l = Some (s', os) ->
  (l = LStart /\ running s = false /\ wg s = 0 /\ running s' = true /\ stop_err s' = None /\
   starts s' = S (starts s) /\ closes s' = closes s) \/
  (exists k, stop_cause s l k /\ running s = true /\ running s' = false /\ stop_err s' = Some k /\
             closes s' = S (closes s) /\ starts s' = starts s /\ work_closed s' = true) \/
  same5 s s'.
Proof.
  intros R H. apply step_decompose in H as (C & s1 & os1 & Hr & Hs).
  assert (S5 : same5 s1 s').
  { destruct Hs as [(_ & -> & _)|(_ & Hs)]; [apply same5_refl|eapply settle_same5; eauto]. }
  destruct S5 as (A1 & A2 & A3 & A4 & A5).
  destruct (raw_three _ _ _ _ (reachf_inv _ _ R) Hr) as [H|[(k & H)|H]].
  - left. rewrite A1, A2, A4, A5. exact H.
  - right. left. exists k. rewrite A1, A2, A3, A4, A5. exact H.
  - right. right. eapply same5_trans; eauto. repeat split; auto.
Qed.

(* the window in which the server stops: the label names the cause, the channel is closed once *)
Theorem stop_window c s l s' os : reach c s -> step s l = Some (s', os) -> running s = true -> running s' = false ->
  exists k, stop_cause s l k /\ stop_err s' = Some k /\ closes s' = S (closes s) /\ work_closed s' = true /\
            used s' = [] /\ countb is_close os = 1.
Proof.
  intros R H Rn Rn'. pose proof (reach_reachf _ _ R) as Rf.
  destruct (step_three _ _ _ _ _ Rf H) as [(_ & Z & _)|[(k & Sc & _ & _ & E & Cl & _ & Wc)|(Z & _)]]; try congruence.
  exists k. repeat split; auto.
  - apply (reachf_inv_idle c s'); auto. eapply step_reachf; eauto.
  - destruct (close_only_when_stopping _ _ _ _ H) as [(Z & _)|(_ & _ & Z)]; auto. rewrite Z in Rn'; auto. discriminate.
Qed.

(* nothing but Start changes the recorded cause of a stopped server: the first cause wins *)
Theorem first_cause_wins c s l s' os e : reach c s -> step s l = Some (s', os) -> stop_err s = Some e ->
  l <> LStart -> stop_err s' = Some e /\ running s' = false.
Proof.
  intros R H E Nl. pose proof (reach_reachf _ _ R) as Rf.
  destruct (stop_err_set _ _ R) as [_ Se]. destruct (Se _ E) as (Rn & _).
  destruct (step_three _ _ _ _ _ Rf H) as [(Z & _)|[(k & _ & Z & _)|(A1 & A2 & _)]]; try congruence.
  split; congruence.
Qed.

Theorem first_cause_wins_trace c : forall tr s s' oss e, reach c s -> run s tr = Some (s', oss) ->
  stop_err s = Some e -> ~ In LStart tr -> stop_err s' = Some e /\ running s' = false.
Proof.
  induction tr as [|l r IH]; cbn; intros s s' oss e R H E Ns.
  - injection H as <- _. split; auto. destruct (stop_err_set _ _ R) as [_ Se]. apply (Se _ E).
  - destruct (step s l) as [[s1 os]|] eqn:E1; [|discriminate].
    destruct (run s1 r) as [[s2 oss2]|] eqn:E2; [|discriminate]. injection H as <- _.
    destruct (first_cause_wins _ _ _ _ _ _ R E1 E) as [E' _]; [intros ->; apply Ns; auto|].
    apply (IH s1 s2 oss2 e); auto; try (eapply reach_step; eauto; fail).
Qed.

(* Start and stop windows are the only ones that change the counters *)
Theorem close_per_stop c s l s' os : reach c s -> step s l = Some (s', os) ->
  closes s' = closes s + (if running s && negb (running s') then 1 else 0) /\
  starts s' = starts s + (if negb (running s) && running s' then 1 else 0).
Proof.
  intros R H. pose proof (reach_reachf _ _ R) as Rf.
  destruct (step_three _ _ _ _ _ Rf H) as [(_ & A & _ & B & _ & S1 & C1)|[(k & _ & A & B & _ & C1 & S1 & _)|(A & _ & _ & C1 & S1)]].
  - rewrite A, B, S1, C1. cbn. lia.
  - rewrite A, B, S1, C1. cbn. lia.
  - rewrite A, C1, S1. destruct (running s); cbn; lia.
Qed.

(** * C08.3 what WaitStatus reports *)
Theorem status c s l s' os r : reach c s -> step s l = Some (s', os) -> In (OWaitRet r) os ->
  r = stop_err s' /\ wg s' = 0 /\ running s' = false /\ (0 < starts s' -> r <> None).
Proof.
  intros R H Hin. pose proof (reach_reachf _ _ R) as Rf.
  destruct (step_waitret _ _ _ _ _ _ Rf H Hin) as (-> & Z & Q).
  pose proof (step_reachf _ _ _ _ _ Rf H) as Rf'.
  destruct (wg0_dp_rd _ (reachf_inv2 _ _ Rf') Z) as [Hd _].
  pose proof (i8_c _ (reachf_inv8 _ _ Rf')) as Ic.
  destruct (ic_dpx _ Ic Hd) as [_ Rn]. repeat split; auto.
  intros S0 E. apply (ic_err _ Ic) in E as [E|E]; [congruence|lia].
Qed.

(* the value is the cause of the window that stopped the current run: Stop -> SCStop, a Recv error -> that error *)
Theorem status_cause c s l s1 os tr s2 oss : reach c s -> step s l = Some (s1, os) ->
  running s = true -> running s1 = false -> run s1 tr = Some (s2, oss) -> ~ In LStart tr ->
  exists k, stop_cause s l k /\ stop_err s2 = Some k /\
    (forall r, In (OWaitRet r) os -> r = Some k) /\
    (forall os' r, In os' oss -> In (OWaitRet r) os' -> r = Some k).
Proof.
  intros R H Rn Rn1 Hr Ns.
  destruct (stop_window _ _ _ _ _ R H Rn Rn1) as (k & Sc & E1 & _).
  assert (R1 : reach c s1) by (eapply reach_step; eauto).
  exists k. split; auto. split; [eapply first_cause_wins_trace; eauto|]. split.
  - intros r Hin. destruct (status _ _ _ _ _ _ R H Hin) as (-> & _). auto.
  - clear H Sc. revert s1 s2 oss R1 E1 Hr Ns Rn1. clear.
    induction tr as [|l0 r0 IH]; cbn; intros s1 s2 oss R1 E1 Hr Ns Rn1 os' r Hin Hw.
    + injection Hr as <- <-. destruct Hin.
    + destruct (step s1 l0) as [[sa osa]|] eqn:Ea; [|discriminate].
      destruct (run sa r0) as [[sb ossb]|] eqn:Eb; [|discriminate]. injection Hr as <- <-.
      destruct (first_cause_wins _ _ _ _ _ _ R1 Ea E1) as [Ea' Rna]; [intros ->; apply Ns; auto|].
      destruct Hin as [<-|Hin].
      * destruct (status _ _ _ _ _ _ R1 Ea Hw) as (-> & _). auto.
      * apply (IH sa sb ossb) with (os' := os') (r := r); auto; try (eapply reach_step; eauto; fail).
Qed.

(** * C08.4 WaitStatus returns only after everything has finished *)
Lemma list_eq_nth {A} : forall (l l' : list A), length l' = length l ->
  (forall j x, nth_error l j = Some x -> nth_error l' j = Some x) -> l' = l.
Proof.
  induction l as [|x r IH]; intros [|x' r'] L H; cbn in *; try discriminate; auto.
  pose proof (H 0 x eq_refl) as H0. cbn in H0. injection H0 as ->. f_equal.
  apply IH; [lia|]. intros j y E. apply (H (S j)); auto.
Qed.

Record all_done (s : state) : Prop := {
  ad_wg : wg s = 0;
  ad_rd : rd s = RExited \/ rd s = RNone;
  ad_dp : dp s = DExited \/ dp s = DNone;
  ad_units : forall u un, nth_error (units s) u = Some un -> u_st un = UFinished;
  ad_tasks : forall k t, nth_error (tasks s) k = Some t -> finished t = true;
  ad_inq : inq s = [];
  ad_running : running s = false;
  ad_used : used s = [];
  ad_sem : sem_wait s = [];
  ad_nbar : nbar s = 0
}.

Lemma idle_all_done c s : reachf c s -> wg s = 0 -> all_done s.
Proof.
  intros R Z. pose proof (reachf_inv _ _ R) as I. pose proof (reachf_inv2 _ _ R) as I2.
  destruct (reachf_inv8 _ _ R) as [Ic It N].
  destruct (wg0_dp_rd _ I2 Z) as [Hd Hr]. destruct (ic_dpx _ Ic Hd) as [Q Rn].
  assert (U : forall u un, nth_error (units s) u = Some un -> u_st un = UFinished) by (apply wg0_all_finished; auto).
  assert (T : forall k t, nth_error (tasks s) k = Some t -> finished t = true).
  { intros k t E. pose proof (i_unit _ I _ _ E) as Lt.
    destruct (nth_error (units s) (t_unit t)) as [un|] eqn:Eu; [|apply nth_error_None in Eu; lia].
    eapply all_finished_in; [apply (i_fin _ I _ _ Eu); right; eauto|eapply nth_error_In; eauto|reflexivity]. }
  constructor; auto.
  - apply (reachf_inv_idle c s); auto.
  - destruct (sem_wait s) as [|k r] eqn:W; auto. exfalso.
    destruct (i_wait _ I) as [_ Wt]. destruct (Wt k) as (t & E & St); [rewrite W; left; auto|].
    specialize (T _ _ E). unfold finished in T. rewrite St in T. discriminate.
  - unfold invn in N. rewrite N. apply countb_false. intros t Ht. apply In_nth_error in Ht as (k & E).
    unfold pend. rewrite (T _ _ E). cbn. rewrite andb_false_r. reflexivity.
Qed.

Theorem wait_after_handlers c s l s' os r : reach c s -> step s l = Some (s', os) -> In (OWaitRet r) os ->
  all_done s' /\
  (forall k t, nth_error (tasks s') k = Some t ->
     t_st t <> TRunning /\ t_st t <> TWaiting /\ t_st t <> TAtAcquire /\ forall o, t_st t <> TAtHandled o).
Proof.
  intros R H Hin. pose proof (reach_reachf _ _ R) as Rf.
  destruct (step_waitret _ _ _ _ _ _ Rf H Hin) as (_ & Z & _).
  pose proof (idle_all_done _ _ (step_reachf _ _ _ _ _ Rf H) Z) as A. split; auto.
  intros k t E. pose proof (ad_tasks _ A _ _ E) as F. unfold finished in F.
  destruct (t_st t); try discriminate; repeat split; try discriminate; intros; discriminate.
Qed.

(* the wait group stays empty until the next Start: nothing is running, nothing can start *)
Theorem idle_until_start c s l s' os : reach c s -> wg s = 0 -> step s l = Some (s', os) -> l <> LStart ->
  wg s' = 0 /\ tasks s' = tasks s /\ units s' = units s /\ same5 s s'.
Proof.
  intros R Z H Nl. pose proof (reach_reachf _ _ R) as Rf. pose proof (reachf_inv _ _ Rf) as I.
  pose proof (reachf_inv2 _ _ Rf) as [B G]. rewrite Z in G.
  destruct (wg0_dp_rd _ (reachf_inv2 _ _ Rf) Z) as [Hd Hr].
  pose proof (idle_all_done _ _ Rf Z) as A.
  apply step_decompose in H as (C & s1 & os1 & Hraw & Hs).
  assert (R1 : reachf c s1) by (eapply rf_raw; eauto).
  assert (K : wg s1 = 0 /\ tasks s1 = tasks s /\ units s1 = units s /\ same5 s s1).
  { pose proof (raw_tchg _ _ _ _ I Hraw) as X.
    pose proof (raw_ctl _ _ _ _ I Hraw) as CE.
    destruct CE as [L Rn Wg E' | k s0 s2 Sc Rn H0 P H1 | f L Rd Rn E' | f i L Rd Hf Rn S5 C0 Ri Wa Hq
                  | L D E' | u L D E' | u un s2 L E Su E1 Hs' | S5 Cp Wa Hc Ln].
    - congruence.
    - rewrite (ad_running _ A) in Rn. discriminate.
    - rewrite Rd in Hr. destruct Hr; discriminate.
    - rewrite Rd in Hr. destruct Hr; discriminate.
    - rewrite D in Hd. destruct Hd; discriminate.
    - rewrite D in Hd. destruct Hd; discriminate.
    - rewrite (ad_units _ A _ _ E) in Su. discriminate.
    - unfold ctlp in Cp. injection Cp as _ _ _ W U. repeat split; try congruence; try apply S5.
      (* no task can change: every one is finished *)
      apply list_eq_nth; auto. intros j t Ej. destruct (X _ _ Ej) as (t' & Ej' & Ch).
      rewrite Ej'. f_equal. symmetry. pose proof (ad_tasks _ A _ _ Ej) as F.
      assert (Ow : owner_in (used s) j = false) by (rewrite (ad_used _ A); reflexivity).
      destruct Ch as [| O _ _ _ | p o _ St | _ St _ _ | x _ St _ _ _ | o _ St | j0 _ _ St]; auto;
        try congruence; unfold finished in F; rewrite St in F; discriminate. }
  destruct K as (Z1 & T1 & U1 & S1).
  destruct Hs as [(_ & -> & _)|(_ & Hs)]; auto.
  destruct (settle_idle c _ _ _ _ _ R1 Z1 Hs) as (n & -> & _). cbn. auto.
Qed.
