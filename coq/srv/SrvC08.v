(* SrvC08: foundations for property C08 (clean, crash-free, restartable shutdown).
   - what one critical section does to every single task ([tchg], [raw_tchg])
   - what it does to the control fields ([ctl_eff], [raw_ctl])
   - the invariant bundle [inv8] behind crash freedom
   - [no_crash]: no reachable state carries a crash (= a Go panic of server.go). *)
From Coq Require Import List NArith ZArith Bool Arith Lia.
From RecordUpdate Require Import RecordUpdate.
From JV Require Import Bytes Msg SrvModel SrvLemmas SrvBasics SrvC01 SrvC07.
Import ListNotations.

(** * counting *)
Lemma countb_ext_in {A} (p q : A -> bool) l : (forall x, In x l -> p x = q x) -> countb p l = countb q l.
Proof.
  induction l as [|x r IH]; cbn; auto. intros H. rewrite (H x (or_introl eq_refl)), IH; auto.
Qed.

Lemma countb_nth_eq {A} (p q : A -> bool) : forall l l', length l' = length l ->
  (forall k x x', nth_error l k = Some x -> nth_error l' k = Some x' -> q x' = p x) -> countb q l' = countb p l.
Proof.
  induction l as [|x r IH]; intros [|x' r'] L H; cbn in *; try discriminate; auto.
  rewrite (H 0 x x' eq_refl eq_refl). f_equal. apply IH; [lia|]. intros k y y' E E'. apply (H (S k)); auto.
Qed.

Lemma countb_nth_dec {A} (p q : A -> bool) : forall l l' k0 x0 x0', length l' = length l ->
  nth_error l k0 = Some x0 -> nth_error l' k0 = Some x0' -> p x0 = true -> q x0' = false ->
  (forall k x x', k <> k0 -> nth_error l k = Some x -> nth_error l' k = Some x' -> q x' = p x) ->
  countb p l = S (countb q l').
Proof.
  induction l as [|x r IH]; intros [|x' r'] [|k0] x0 x0' L E E' P Q H; cbn in *; try discriminate.
  - injection E as ->. injection E' as ->. rewrite P, Q. cbn. f_equal. symmetry.
    apply countb_nth_eq; [lia|]. intros k y y' Ey Ey'. apply (H (S k)); auto.
  - rewrite (H 0 x x') by auto.
    assert (C : countb p r = S (countb q r')).
    { apply (IH r' k0 x0 x0'); auto. intros k y y' N Ey Ey'. apply (H (S k)); auto. }
    lia.
Qed.

Lemma countb_filter_length {A} (p : A -> bool) l : countb p l = length (filter p l).
Proof. induction l as [|x r IH]; cbn; auto. destruct (p x); cbn; lia. Qed.

Lemma countb_false {A} (p : A -> bool) l : (forall x, In x l -> p x = false) -> countb p l = 0.
Proof. intros H. apply countb_zero_forall. auto. Qed.

(** * the fields no task-level helper touches *)
Definition nontask (s : state) : state := s <| tasks := [] |> <| sem_wait := [] |> <| sem_free := 0 |> <| used := [] |>.

Lemma nontask_fields s s' : nontask s' = nontask s ->
  c_K s' = c_K s /\ c_push s' = c_push s /\ c_builtin s' = c_builtin s /\ c_methods s' = c_methods s /\
  c_unblock s' = c_unblock s /\ ch_in s' = ch_in s /\ send_fail s' = send_fail s /\ running s' = running s /\
  stop_err s' = stop_err s /\ work_closed s' = work_closed s /\ closes s' = closes s /\ starts s' = starts s /\
  rd s' = rd s /\ dp s' = dp s /\ inq s' = inq s /\ units s' = units s /\ nbar s' = nbar s /\
  calls s' = calls s /\ call_id s' = call_id s /\ cbs s' = cbs s /\ wg s' = wg s /\ ops s' = ops s /\
  waits s' = waits s /\ ended s' = ended s /\ crash s' = crash s.
Proof.
  intros H.
  repeat split;
    match goal with |- ?f s' = ?f s => change (f (nontask s') = f (nontask s)); rewrite H; reflexivity end.
Qed.

Lemma nontask_cancel k s : nontask (cancel_task k s) = nontask s.
Proof.
  unfold cancel_task. destruct (nth_error (tasks s) k) as [t|]; auto. destruct (t_st t); reflexivity.
Qed.

Lemma nontask_fold (l : list (bytes * nat)) : forall s,
  nontask (fold_left (fun st p => cancel_task (snd p) st) l s) = nontask s.
Proof. induction l as [|p l IH]; intros s; cbn; auto. rewrite IH. apply nontask_cancel. Qed.

Lemma nontask_release ts : forall s, nontask (release_ids ts s) = nontask s.
Proof.
  induction ts as [|a r IH]; intros s; cbn [release_ids]; auto.
  destruct (t_hasctx a && negb (is_note a)); [|apply IH].
  destruct (assoc (t_id a) (used s)) as [owner|]; [|apply IH].
  rewrite IH. change (nontask (cancel_task owner s <| used ::= assoc_del (t_id a) |>)) with (nontask (cancel_task owner s)).
  apply nontask_cancel.
Qed.

Lemma nontask_grant : forall fuel s acc, nontask (fst (grant fuel s acc)) = nontask s.
Proof.
  induction fuel as [|f IH]; intros s acc; cbn; auto.
  destruct (sem_wait s) as [|k r]; auto. destruct (sem_free s) as [|fr]; auto.
  destruct (nth_error (tasks s) k) as [t|]; auto.
  destruct (t_builtin t); rewrite IH; reflexivity.
Qed.

(** * what the helpers do to one task *)
Lemma cancel_fn_idem t : cancel_fn (cancel_fn t) = cancel_fn t.
Proof. destruct t as [u i m p pr h b c st]. unfold cancel_fn; cbn. destruct st; reflexivity. Qed.

Lemma cancel_task_nth k s j t : nth_error (tasks s) j = Some t ->
  nth_error (tasks (cancel_task k s)) j = Some (if k =? j then cancel_fn t else t).
Proof.
  intros E. rewrite cancel_task_tasks, nth_error_upd_nth, E. destruct (k =? j); reflexivity.
Qed.

(* a fold of cancellations (stopLocked): exactly the listed owners are cancelled *)
Lemma fold_cancel_nth (l : list (bytes * nat)) : forall s j t, nth_error (tasks s) j = Some t ->
  nth_error (tasks (fold_left (fun st p => cancel_task (snd p) st) l s)) j =
    Some (if existsb (fun p => snd p =? j) l then cancel_fn t else t).
Proof.
  induction l as [|p l IH]; intros s j t E; cbn; auto.
  rewrite (IH _ _ _ (cancel_task_nth (snd p) s j t E)).
  destruct (snd p =? j); cbn; [|reflexivity].
  rewrite cancel_fn_idem. destruct (existsb _ l); reflexivity.
Qed.

(* release_ids (deliver): only registered owners are cancelled *)
Lemma release_ids_nth ts : forall s j t, nth_error (tasks s) j = Some t ->
  nth_error (tasks (release_ids ts s)) j = Some t \/
  ((exists id, In (id, j) (used s)) /\ nth_error (tasks (release_ids ts s)) j = Some (cancel_fn t)).
Proof.
  induction ts as [|a r IH]; intros s j t E; cbn [release_ids]; auto.
  destruct (t_hasctx a && negb (is_note a)); [|apply IH; auto].
  destruct (assoc (t_id a) (used s)) as [owner|] eqn:A; [|apply IH; auto].
  set (s1 := cancel_task owner s <| used ::= assoc_del (t_id a) |>).
  assert (U1 : forall id, In (id, j) (used s1) -> In (id, j) (used s)).
  { intros id Hi. unfold s1 in Hi. cbn in Hi. rewrite cancel_task_used in Hi. apply in_assoc_del in Hi. tauto. }
  assert (E1 : nth_error (tasks s1) j = Some (if owner =? j then cancel_fn t else t)).
  { apply (cancel_task_nth owner s j t E). }
  destruct (IH s1 _ _ E1) as [H|[(id & Hi) H]].
  - destruct (Nat.eqb_spec owner j) as [->|N]; auto.
    right. split; auto. exists (t_id a). apply assoc_in; auto.
  - destruct (Nat.eqb_spec owner j) as [->|N].
    + rewrite cancel_fn_idem in H. right. split; auto. exists (t_id a). apply assoc_in; auto.
    + right. split; eauto.
Qed.

(* grant: only queued waiters move, into their handler *)
Definition granted (t : task) : task := t <| t_st := if t_builtin t then TAtHandled (ORes []) else TRunning |>.

Lemma grant_nth fuel s acc : wait_ok s -> forall j t, nth_error (tasks s) j = Some t ->
  nth_error (tasks (fst (grant fuel s acc))) j = Some t \/
  (t_st t = TWaiting /\ nth_error (tasks (fst (grant fuel s acc))) j = Some (granted t)).
Proof.
  intros W0.
  apply (grant_ind (fun s1 _ => wait_ok s1 /\ forall j t, nth_error (tasks s) j = Some t ->
           nth_error (tasks s1) j = Some t \/ (t_st t = TWaiting /\ nth_error (tasks s1) j = Some (granted t)))).
  2: split; auto.
  intros s1 acc1 k r fr t [[ND Wt] X1] Hw Hf Ht. rewrite Hw in ND, Wt.
  destruct (Wt k (or_introl eq_refl)) as (t0 & Et0 & St0). rewrite Ht in Et0. injection Et0 as <-.
  split.
  - split; rewrite grant1_wait; [inversion ND; auto|].
    intros j Hj. rewrite (grant1_tasks _ _ _ _ _ Ht). rewrite nth_error_upd_nth_neq.
    + apply Wt. right; auto.
    + intros <-. inversion ND; auto.
  - intros j tj Ej. rewrite (grant1_tasks _ _ _ _ _ Ht), nth_error_upd_nth.
    destruct (Nat.eqb_spec k j) as [<-|N]; [|auto].
    destruct (X1 _ _ Ej) as [H|[Sw H]]; rewrite Ht in H; injection H as ->.
    + right. split; auto. rewrite Ht. reflexivity.
    + exfalso. unfold granted in St0. cbn in St0. destruct (t_builtin tj); discriminate.
Qed.

(** * stopLocked while running, field by field *)
Definition owner_in (us : list (bytes * nat)) (j : nat) : bool := existsb (fun p => snd p =? j) us.

Lemma owner_in_spec us j : owner_in us j = true <-> exists id, In (id, j) us.
Proof.
  unfold owner_in. rewrite existsb_exists. split.
  - intros ([id k] & I & E). cbn in E. apply Nat.eqb_eq in E. subst. eauto.
  - intros (id & I). exists (id, j). split; auto. cbn. apply Nat.eqb_refl.
Qed.

Record stop_run (c : stopcause) (s s' : state) : Prop := {
  sr_err : stop_err s' = Some c;
  sr_running : running s' = false;
  sr_wc : work_closed s' = true;
  sr_closes : closes s' = S (closes s);
  sr_starts : starts s' = starts s;
  sr_crash : crash s' = if work_closed s then Some CrCloseOfClosedWork else crash s;
  sr_inq : inq s' = stop_queue (inq s);
  sr_used : used s' = [];
  sr_waits : waits s' = waits s;
  sr_wg : wg s' = wg s;
  sr_rd : rd s' = rd s;
  sr_dp : dp s' = dp s;
  sr_units : units s' = units s;
  sr_nbar : nbar s' = nbar s;
  sr_free : sem_free s' = sem_free s;
  sr_ops : ops s' = ops s;
  sr_chin : ch_in s' = if c_unblock s then ch_in s ++ [FErr SCClosing] else ch_in s;
  sr_cfg : c_K s' = c_K s /\ c_push s' = c_push s /\ c_builtin s' = c_builtin s /\ c_methods s' = c_methods s /\
           c_unblock s' = c_unblock s;
  sr_callid : call_id s' = call_id s /\ calls s' = calls s /\ send_fail s' = send_fail s /\ ended s' = ended s;
  sr_len : length (tasks s') = length (tasks s);
  sr_tasks : forall j t, nth_error (tasks s) j = Some t ->
               nth_error (tasks s') j = Some (if owner_in (used s) j then cancel_fn t else t)
}.

Lemma stop_locked_run c s s' os : running s = true -> stop_locked c s = (s', os) -> os = [OClose] /\ stop_run c s s'.
Proof.
  unfold stop_locked. intros R. rewrite R. cbn [negb]. intros H.
  match type of H with (?x, _) = _ => assert (Hs : s' = x) by congruence end.
  split; [congruence|]. clear H.
  match type of Hs with context [fold_left ?f ?l ?s0] =>
    pose proof (nontask_fold l s0) as Nt; pose proof (fold_cancel_nth l s0) as Tn;
    pose proof (fold_cancel_spec l s0) as Fc; cbv zeta in Fc;
    set (s4 := fold_left f l s0) in *; set (s3 := s0) in * end.
  destruct Fc as (_ & _ & L & _ & F & U).
  apply nontask_fields in Nt.
  assert (T3 : tasks s3 = tasks s /\ used s3 = used s /\ sem_free s3 = sem_free s /\ closes s3 = S (closes s) /\
               starts s3 = starts s /\ work_closed s3 = true /\ inq s3 = stop_queue (inq s) /\
               crash s3 = (if work_closed s then Some CrCloseOfClosedWork else crash s) /\
               waits s3 = waits s /\ wg s3 = wg s /\ rd s3 = rd s /\ dp s3 = dp s /\ units s3 = units s /\
               nbar s3 = nbar s /\ ops s3 = ops s /\ ch_in s3 = ch_in s /\ c_unblock s3 = c_unblock s /\
               (c_K s3 = c_K s /\ c_push s3 = c_push s /\ c_builtin s3 = c_builtin s /\ c_methods s3 = c_methods s) /\
               (call_id s3 = call_id s /\ calls s3 = calls s /\ send_fail s3 = send_fail s /\ ended s3 = ended s)).
  { unfold s3. cbn. destruct (work_closed s) eqn:Wc; cbn; repeat split; auto. }
  destruct T3 as (T3 & U3 & F3 & C3 & S3 & W3 & I3 & Cr3 & Wa3 & G3 & R3 & D3 & Un3 & B3 & O3 & Ch3 & Ub3 & Cf3 & Ci3).
  change (used s3) with (used s3) in Tn.
  assert (Tn' : forall j t, nth_error (tasks s) j = Some t ->
            nth_error (tasks s4) j = Some (if owner_in (used s) j then cancel_fn t else t)).
  { intros j t E. rewrite <- T3 in E. rewrite (Tn _ _ E). unfold owner_in.
    replace (used s) with (used s3) by exact U3. reflexivity. }
  destruct Nt as (N1 & N2 & N3 & N4 & N5 & N6 & N7 & N8 & N9 & N10 & N11 & N12 & N13 & N14 & N15 & N16 & N17 &
                  N18 & N19 & N20 & N21 & N22 & N23 & N24 & N25).
  clearbody s4. clearbody s3. subst s'.
  destruct Cf3 as (K1 & K2 & K3 & K4). destruct Ci3 as (J1 & J2 & J3 & J4).
  assert (Ub : c_unblock s4 = c_unblock s) by congruence.
  cbn. rewrite Ub.
  destruct (c_unblock s) eqn:Ubs; constructor; cbn; rewrite ?Ubs; auto; try congruence.
  all: try (repeat split; congruence).
Qed.

(** * What one critical section does to one task *)
Inductive tchg (s : state) (l : label) (k : nat) (t : task) : task -> Prop :=
| tc_same : l <> LRelHandled k -> tchg s l k t t
| tc_cancel : owner_in (used s) k = true ->
    (forall n, l <> LRelAcquire n) -> (forall n, l <> LRelHandled n) -> (forall p o, l <> LGate p o) ->
    tchg s l k t (cancel_fn t)
| tc_gate p o : l = LGate p o -> t_st t = TRunning -> tchg s l k t (t <| t_st := TAtHandled o |>)
| tc_acq_cancelled : l = LRelAcquire k -> t_st t = TAtAcquire -> unit_running s t = true -> t_cancelled t = true ->
    tchg s l k t (t <| t_st := TDone (Some cancel_err) |>)
| tc_acq x : l = LRelAcquire k -> t_st t = TAtAcquire -> unit_running s t = true -> t_cancelled t = false ->
    x = TWaiting \/ x = TRunning \/ x = TAtHandled (ORes []) -> tchg s l k t (t <| t_st := x |>)
| tc_handled o : l = LRelHandled k -> t_st t = TAtHandled o ->
    tchg s l k t (t <| t_st := TDone (body_of_outcome t o) |>)
| tc_grant j : l = LRelHandled j -> j <> k -> t_st t = TWaiting -> tchg s l k t (granted t).

Definition tchg_all (s : state) (l : label) (s' : state) : Prop :=
  forall k t, nth_error (tasks s) k = Some t -> exists t', nth_error (tasks s') k = Some t' /\ tchg s l k t t'.

Lemma tchg_same_tasks s l s' : (forall n, l <> LRelHandled n) -> tasks s' = tasks s -> tchg_all s l s'.
Proof. intros N T k t E. rewrite T. exists t. split; auto. constructor. auto. Qed.

Lemma tchg_stop s s0 l c s' : tasks s0 = tasks s -> used s0 = used s -> stop_run c s0 s' ->
  (forall n, l <> LRelAcquire n) -> (forall n, l <> LRelHandled n) -> (forall p o, l <> LGate p o) -> tchg_all s l s'.
Proof.
  intros T U P N1 N2 N3 k t E. rewrite <- T in E. rewrite (sr_tasks _ _ _ P _ _ E). rewrite U.
  destruct (owner_in (used s) k) eqn:O; eexists; split; eauto; [apply tc_cancel; auto|constructor; auto].
Qed.

Lemma raw_tchg s l s' os : inv s -> step_raw s l = Some (s', os) -> tchg_all s l s'.
Proof.
  intros I H. destruct (frame_label l) eqn:Fl.
  { apply step_raw_frame in H as (C & _); auto. unfold core in C. injection C as T _. apply tchg_same_tasks; auto. intros n ->. discriminate Fl. }
  destruct l; try discriminate Fl; unfold step_raw in H.
  - (* LStart *)
    destruct (negb (running s) && (wg s =? 0)); [|discriminate]. injection H as <- <-. apply tchg_same_tasks; auto; try discriminate.
  - (* LGate *)
    destruct (find_idx _ 0 (tasks s)) as [k|] eqn:F; [|discriminate].
    destruct (nth_error (tasks s) k) as [t|] eqn:E; [|discriminate]. injection H as <- <-.
    apply find_idx_some in F as (x & Ex & Px & _). rewrite Nat.sub_0_r, E in Ex. injection Ex as <-.
    apply andb_true_iff in Px as [_ Px]. destruct (t_st t) eqn:St; try discriminate.
    intros j tj Ej. cbn. rewrite nth_error_upd_nth, Ej. destruct (Nat.eqb_spec k j) as [<-|N]; cbn.
    + rewrite E in Ej. injection Ej as <-. eexists; split; eauto. eapply tc_gate; eauto.
    + eexists; split; eauto. constructor. discriminate.
  - (* LRelRead *)
    destruct (rd s) as [| |f|] eqn:Rd; try discriminate. injection H as H.
    destruct f as [i|i|c].
    3:{ cbn in H. destruct (stop_locked c s) as [s0 os0] eqn:St. injection H as <- <-.
        destruct (running s) eqn:Rn.
        - apply stop_locked_run in St as [_ P]; auto.
          intros k t E. destruct (tchg_stop s s LRelRead c s0 eq_refl eq_refl P) with (k := k) (t := t) as (t' & E' & X);
            auto; try discriminate. exists t'. split; auto.
        - apply stop_locked_spec in St as [(_ & -> & _)|(Rn' & _)]; [|congruence]. apply tchg_same_tasks; auto; try discriminate. }
    all: destruct (running s) eqn:Rn;
      [ eapply read_cs_msg in H as (C & _); eauto; unfold core0 in C; injection C as T _; apply tchg_same_tasks; auto; try discriminate
      | cbn in H; rewrite Rn in H; cbn in H; injection H as <- <-; apply tchg_same_tasks; auto; try discriminate ].
  - (* LRelNext *)
    destruct (dp s); try discriminate. injection H as <- <-.
    intros k t E. exists t. split; [|constructor; discriminate].
    unfold dequeue. destruct (inq s) as [|[b ms] q]; [destruct (running s); auto|].
    cbn. apply nth_error_app_old; auto.
  - (* LRelBarrier *)
    destruct (dp s); try discriminate. injection H as <- <-. apply tchg_same_tasks; auto; try discriminate.
  - (* LRelAcquire *)
    destruct (nth_error (tasks s) k) as [t|] eqn:E; [|discriminate].
    destruct (t_st t) eqn:St; try discriminate.
    destruct (unit_running s t) eqn:Ur; cbn [negb] in H; [|discriminate].
    assert (X : forall x s1, tasks s1 = upd_nth k (fun t => t <| t_st := x |>) (tasks s) ->
              tchg s (LRelAcquire k) k t (t <| t_st := x |>) -> tchg_all s (LRelAcquire k) s1).
    { intros x s1 T Hx j tj Ej. rewrite T, nth_error_upd_nth, Ej. destruct (Nat.eqb_spec k j) as [<-|N]; cbn.
      - rewrite E in Ej. injection Ej as <-. eexists; split; eauto.
      - eexists; split; eauto. constructor. discriminate. }
    destruct (t_cancelled t) eqn:Cn; [injection H as <- <-; eapply X; [reflexivity|apply tc_acq_cancelled; auto]|].
    destruct (sem_free s); [injection H as <- <-; eapply X; [reflexivity|apply tc_acq; auto]|].
    destruct (sem_wait s); [|injection H as <- <-; eapply X; [reflexivity|apply tc_acq; auto]].
    destruct (t_builtin t) eqn:B; injection H as <- <-; (eapply X; [reflexivity|apply tc_acq; auto]).
  - (* LRelHandled *)
    destruct (nth_error (tasks s) k) as [t|] eqn:E; [|discriminate].
    destruct (t_st t) eqn:St; try discriminate.
    set (s0 := set_task k (fun t => t <| t_st := TDone (body_of_outcome t o) |>) s <| sem_free ::= S |>) in *.
    assert (W0 : wait_ok s0).
    { unfold wait_ok, s0; cbn. apply wait_ok_upd; [apply I|]. eapply wait_not_in; eauto; [apply I|congruence]. }
    pose proof (grant_nth (S (length (sem_wait s0))) s0 [] W0) as G.
    destruct (grant (S (length (sem_wait s0))) s0 []) as [s2 os2]. cbn [fst] in G.
    assert (X2 : tchg_all s (LRelHandled k) s2).
    { intros j tj Ej.
      assert (E0 : nth_error (tasks s0) j = Some (if k =? j then tj <| t_st := TDone (body_of_outcome tj o) |> else tj)).
      { unfold s0. cbn. rewrite nth_error_upd_nth, Ej. destruct (k =? j); reflexivity. }
      destruct (Nat.eqb_spec k j) as [<-|N].
      - rewrite E in Ej. injection Ej as <-.
        destruct (G _ _ E0) as [H2|[Sw _]]; [|discriminate Sw].
        eexists; split; eauto. eapply tc_handled; eauto.
      - destruct (G _ _ E0) as [H2|[Sw H2]]; eexists; split; eauto; [constructor; congruence|eapply tc_grant; eauto]. }
    destruct (is_note t); [destruct (nbar s2)|]; injection H as <- <-; exact X2.
  - (* LRelDeliver *)
    destruct (nth_error (units s) u) as [un|] eqn:E; [|discriminate].
    destruct (u_st un) eqn:Su; try discriminate.
    assert (X : tchg_all s (LRelDeliver u) (release_ids (unit_tasks s u) s)).
    { intros j tj Ej. destruct (release_ids_nth (unit_tasks s u) s j tj Ej) as [H2|[Ow H2]]; eexists; split; eauto.
      - constructor. discriminate.
      - apply tc_cancel; try discriminate. apply owner_in_spec; auto. }
    destruct (u_chok un); cbn in H; injection H as <- <-; exact X.
  - (* LRelStop *)
    destruct (find_op n (ops s)) as [[n0|n0 id|n0 w m p]|]; try discriminate.
    destruct (stop_locked SCStop (s <| ops ::= del_op n |>)) as [s0 os0] eqn:St. injection H as <- <-.
    destruct (running s) eqn:Rn.
    + apply stop_locked_run in St as [_ P]; auto. apply (tchg_stop s (s <| ops ::= del_op n |>) (LRelStop n) SCStop s0); auto; discriminate.
    + apply stop_locked_spec in St as [(_ & -> & _)|(Rn' & _)]; [|cbn in Rn'; congruence]. apply tchg_same_tasks; auto; try discriminate.
  - (* LRelCancel *)
    destruct (find_op n (ops s)) as [[n0|n0 id|n0 w m p]|]; try discriminate.
    injection H as <- <-. set (s1 := s <| ops ::= del_op n |>). change (used s1) with (used s).
    destruct (assoc id (used s)) as [owner|] eqn:A; [|apply tchg_same_tasks; auto; try discriminate].
    intros j tj Ej.
    rewrite (cancel_task_nth owner s1 j tj Ej).
    destruct (Nat.eqb_spec owner j) as [->|N]; eexists; split; eauto; [|constructor; discriminate].
    apply tc_cancel; try discriminate. apply owner_in_spec. exists id. apply assoc_in; auto.
Qed.

(* every case moves the task forward *)
Lemma tchg_le s l k t t' : tchg s l k t t' -> task_le t t'.
Proof.
  destruct 1 as [_ | | p o _ St | _ St _ _ | x _ St _ _ Hx | o _ St | j _ _ St].
  - apply task_le_refl.
  - apply cancel_fn_le.
  - apply task_le_st. rewrite St. apply st_le_rank; cbn; try congruence; lia.
  - apply task_le_st. rewrite St. apply st_le_rank; cbn; try congruence; lia.
  - apply task_le_st. rewrite St. destruct Hx as [->|[->| ->]]; apply st_le_rank; cbn; try congruence; lia.
  - apply task_le_st. rewrite St. repeat split; cbn; try lia; try congruence.
  - unfold granted. apply task_le_st. rewrite St. destruct (t_builtin t); apply st_le_rank; cbn; try congruence; lia.
Qed.

(** * What one critical section does to the control fields *)
Definition same5 (s s' : state) : Prop :=
  running s' = running s /\ stop_err s' = stop_err s /\ work_closed s' = work_closed s /\
  closes s' = closes s /\ starts s' = starts s.
Definition ctlp (s : state) := (dp s, inq s, rd s, wg s, units s).

Lemma same5_refl s : same5 s s.
Proof. repeat split. Qed.

Inductive stop_cause (s : state) : label -> stopcause -> Prop :=
| sc_stop n : stop_cause s (LRelStop n) SCStop
| sc_read c : rd s = RHold (FErr c) -> stop_cause s LRelRead c.

Inductive ctl_eff (s : state) (l : label) (s' : state) : Prop :=
| CE_start : l = LStart -> running s = false -> wg s = 0 ->
    s' = (s <| running := true |> <| starts ::= S |> <| stop_err := None |> <| work_closed := false |>
            <| wg := 2 |> <| rd := RIdle |> <| dp := DAtNext |> <| ch_in := [] |>) -> ctl_eff s l s'
| CE_stop c s0 s1 : stop_cause s l c -> running s = true ->
    s0 = s \/ (exists n, s0 = s <| ops ::= del_op n |>) -> stop_run c s0 s1 ->
    s' = s1 \/ (l = LRelRead /\ s' = s1 <| rd := RExited |> <| wg ::= pred |>) -> ctl_eff s l s'
| CE_read_stopped f : l = LRelRead -> rd s = RHold f -> running s = false ->
    s' = s <| rd := RExited |> <| wg ::= pred |> -> ctl_eff s l s'
| CE_read_msg f i : l = LRelRead -> rd s = RHold f -> f = FMsg i \/ f = FMsgEOF i -> running s = true ->
    same5 s s' -> core0 s' = core0 s -> rd s' = RIdle -> waits s' = waits s ->
    (inq s' = inq s /\ crash s' = crash s) \/
    (exists b keep, keep <> [] /\ inq s' = inq s ++ [(b, keep)] /\
        crash s' = (if work_closed s && (length (inq s') =? 1) then Some CrSendOnClosedWork else crash s)) ->
    ctl_eff s l s'
| CE_next : l = LRelNext -> dp s = DAtNext -> s' = dequeue s -> ctl_eff s l s'
| CE_barrier u : l = LRelBarrier -> dp s = DAtBarrier u -> s' = s <| dp := DBarrierWait u |> -> ctl_eff s l s'
| CE_deliver u un s1 : l = LRelDeliver u -> nth_error (units s) u = Some un -> u_st un = UAtDeliver ->
    s1 = release_ids (unit_tasks s u) s ->
    (u_chok un = false /\ s' = s1 <| crash := Some CrNilChannel |>) \/
    (u_chok un = true /\ s' = set_unit u (fun x => x <| u_st := UFinished |>) s1 <| wg ::= pred |>) ->
    ctl_eff s l s'
| CE_other : same5 s s' -> ctlp s' = ctlp s ->
    (waits s' = waits s \/ l = LCallWait /\ waits s' = S (waits s)) ->
    (crash s' = crash s /\ nbar s' = nbar s /\
     forall k t, l = LRelHandled k -> nth_error (tasks s) k = Some t -> is_note t = false) \/
    (exists k t o, l = LRelHandled k /\ nth_error (tasks s) k = Some t /\ t_st t = TAtHandled o /\ is_note t = true /\
       ((nbar s = S (nbar s') /\ crash s' = crash s) \/
        (nbar s = 0 /\ nbar s' = 0 /\ crash s' = Some CrNegativeBarrier))) ->
    length (tasks s') = length (tasks s) ->
    ctl_eff s l s'.

Lemma nontask_same5 s s' : nontask s' = nontask s -> same5 s s'.
Proof. intros H. apply nontask_fields in H. unfold same5. tauto. Qed.

Lemma filter_batch_ctl ms : forall s keep acc s' keep' os,
  filter_batch ms s keep acc = (s', keep', os) ->
  same5 s s' /\ waits s' = waits s /\ crash s' = crash s /\ inq s' = inq s /\ (keep <> [] -> keep' <> []).
Proof.
  induction ms as [|m r IH]; cbn; intros s keep acc s' keep' os H.
  - injection H as <- <- _. split; [apply same5_refl|]. split; auto. split; auto. split; auto.
    intros N Z. apply (f_equal (@rev _)) in Z. rewrite rev_involutive in Z. auto.
  - destruct (is_req_or_notif m).
    { destruct (IH _ _ _ _ _ _ H) as (A & B & C & D & E). split; [exact A|]. split; [exact B|]. split; [exact C|]. split; [exact D|]. intros _. apply E. discriminate. }
    destruct (assoc (fix_id (j_id m)) (calls s)) as [i|].
    + destruct (complete_cb i _ s) as [s1 os1] eqn:C.
      apply IH in H. destruct H as ((A1 & A2 & A3 & A4 & A5) & B & Cc & D & E).
      unfold complete_cb in C. unfold same5.
      destruct (nth_error (cbs s) i); injection C as <- _; cbn in *; tauto.
    + destruct (c_push s && is_nil (j_method m) && has_reply_fields m).
      * eapply IH; eauto.
      * destruct (IH _ _ _ _ _ _ H) as (A & B & C & D & E). split; [exact A|]. split; [exact B|]. split; [exact C|]. split; [exact D|]. intros _. apply E. discriminate.
Qed.

Ltac oth := apply CE_other; auto; repeat split; try (left; repeat split; auto; intros ? ? ?; discriminate).

Lemma raw_ctl s l s' os : inv s -> step_raw s l = Some (s', os) -> ctl_eff s l s'.
Proof.
  intros I H. destruct l; unfold step_raw in H.
  - (* LStart *)
    destruct (negb (running s) && (wg s =? 0)) eqn:C; [|discriminate]. injection H as <- <-.
    apply andb_true_iff in C as [C1 C2]. apply negb_true_iff in C1. apply Nat.eqb_eq in C2.
    apply CE_start; auto.
  - injection H as <- <-. oth.
  - injection H as <- <-. oth.
  - destruct (find_idx _ 0 (tasks s)) as [k|]; [|discriminate].
    destruct (nth_error (tasks s) k) as [t|]; [|discriminate]. injection H as <- <-.
    oth. cbn. apply upd_nth_length.
  - injection H as <- <-. oth.
  - injection H as <- <-. oth.
  - destruct (c_push s); injection H as <- <-; oth.
  - injection H as <- <-. oth.
  - destruct (find_idx _ 0 (cbs s)); injection H as <- <-; oth.
  - (* LRelRead *)
    destruct (rd s) as [| |f|] eqn:Rd; try discriminate. injection H as H.
    destruct (running s) eqn:Rn.
    2:{ eapply CE_read_stopped; eauto.
        destruct f as [i|i|c]; cbn in H; rewrite ?Rn in H; cbn in H; try (injection H as <- <-; reflexivity).
        unfold stop_locked in H. rewrite Rn in H. cbn in H. injection H as <- <-. reflexivity. }
    destruct f as [i|i|c].
    3:{ cbn in H. destruct (stop_locked c s) as [s0 os0] eqn:St. injection H as <- <-.
        apply stop_locked_run in St as [_ P]; auto.
        eapply (CE_stop s LRelRead _ c s s0); eauto. constructor; auto. }
    all: assert (H' : read_cs (FMsg i) s = (s', os)) by (cbn in *; exact H).
    all: pose proof (read_cs_msg (FMsg i) i s s' os (or_introl eq_refl) Rn H') as (C0 & Ri & Wc & Op).
    all: eapply (CE_read_msg s LRelRead s' _ i); eauto.
    all: clear H; cbn in H'; rewrite Rn in H'; cbn in H'.
    all: destruct i as [|b ms]; [cbn in H'; injection H' as <- <-; repeat split; auto|].
    all: destruct ms as [|m ms]; [cbn in H'; injection H' as <- <-; repeat split; auto|].
    all: destruct (filter_batch (m :: ms) s [] []) as [[s1 keep] os1] eqn:F.
    all: apply filter_batch_ctl in F as ((A1 & A2 & A3 & A4 & A5) & B & Cc & D & _).
    all: destruct keep as [|k0 kr]; [injection H' as <- <-; cbn; repeat split; auto|].
    all: cbv zeta in H'.
    all: match type of H' with (if ?c then _ else _) = _ => destruct c eqn:Cnd end; injection H' as <- <-; cbn in *.
    all: repeat split; auto.
    all: right; exists b, (k0 :: kr); rewrite D, A3 in *; rewrite Cnd; repeat split; auto; discriminate.
  - (* LRelNext *)
    destruct (dp s) eqn:D; try discriminate. injection H as <- <-. apply CE_next; auto.
  - destruct (dp s) eqn:D; try discriminate. injection H as <- <-. eapply CE_barrier; eauto.
  - (* LRelAcquire *)
    destruct (nth_error (tasks s) k) as [t|]; [|discriminate].
    destruct (t_st t); try discriminate.
    destruct (negb (unit_running s t)); [discriminate|].
    destruct (t_cancelled t); [injection H as <- <-; oth; cbn; apply upd_nth_length|].
    destruct (sem_free s); [injection H as <- <-; oth; cbn; apply upd_nth_length|].
    destruct (sem_wait s); [|injection H as <- <-; oth; cbn; apply upd_nth_length].
    destruct (t_builtin t); injection H as <- <-; oth; cbn; apply upd_nth_length.
  - (* LRelHandled *)
    destruct (nth_error (tasks s) k) as [t|] eqn:E; [|discriminate].
    destruct (t_st t) eqn:St; try discriminate.
    set (s0 := set_task k (fun t => t <| t_st := TDone (body_of_outcome t o) |>) s <| sem_free ::= S |>) in *.
    pose proof (nontask_grant (S (length (sem_wait s0))) s0 []) as G.
    destruct (grant (S (length (sem_wait s0))) s0 []) as [s2 os2] eqn:Eg. cbn [fst] in G.
    assert (G0 : nontask s2 = nontask s) by (rewrite G; reflexivity).
    pose proof (nontask_same5 _ _ G0) as S5. apply nontask_fields in G0.
    destruct G0 as (N1 & N2 & N3 & N4 & N5 & N6 & N7 & N8 & N9 & N10 & N11 & N12 & N13 & N14 & N15 & N16 & N17 &
                  N18 & N19 & N20 & N21 & N22 & N23 & N24 & N25).
    assert (Cp : ctlp s2 = ctlp s) by (unfold ctlp; congruence).
    assert (W0 : wait_ok s0).
    { unfold wait_ok, s0; cbn. apply wait_ok_upd; [apply I|]. eapply wait_not_in; eauto; [apply I|congruence]. }
    pose proof (gp_len _ _ _ _ (grant_spec (S (length (sem_wait s0))) s0 [] W0)) as Ln. rewrite Eg in Ln. cbn [fst] in Ln.
    assert (Ln2 : length (tasks s2) = length (tasks s)) by (rewrite Ln; unfold s0; cbn; apply upd_nth_length).
    destruct (is_note t) eqn:Nt; [destruct (nbar s2) eqn:Nb|]; injection H as <- <-.
    + apply CE_other; auto. right. exists k, t, o. do 4 (split; auto); right; cbn; repeat split; congruence.
    + apply CE_other; auto. right. exists k, t, o. do 4 (split; auto); left; cbn; split; congruence.
    + apply CE_other; auto. left. repeat split; auto. intros k' t' [= <-] E'. congruence.
  - (* LRelDeliver *)
    destruct (nth_error (units s) u) as [un|] eqn:E; [|discriminate].
    destruct (u_st un) eqn:Su; try discriminate.
    eapply (CE_deliver s _ s' u un); eauto.
    destruct (u_chok un); cbn in H; injection H as <- <-; auto.
  - (* LRelStop *)
    destruct (find_op n (ops s)) as [[n0|n0 id|n0 w m p]|]; try discriminate.
    destruct (stop_locked SCStop (s <| ops ::= del_op n |>)) as [s0 os0] eqn:St. injection H as <- <-.
    destruct (running s) eqn:Rn.
    + apply stop_locked_run in St as [_ P]; auto.
      eapply (CE_stop s _ s0 SCStop (s <| ops ::= del_op n |>) s0); eauto. constructor.
    + apply stop_locked_spec in St as [(_ & -> & _)|(Rn' & _)]; [|cbn in Rn'; congruence].
      oth.
  - (* LRelCancel *)
    destruct (find_op n (ops s)) as [[n0|n0 id|n0 w m p]|]; try discriminate.
    injection H as <- <-. set (s1 := s <| ops ::= del_op n |>). change (used s1) with (used s).
    destruct (assoc id (used s)) as [owner|]; [|oth].
    pose proof (nontask_cancel owner s1) as G.
    pose proof (nontask_same5 _ _ G) as S5. apply nontask_fields in G.
    destruct G as (N1 & N2 & N3 & N4 & N5 & N6 & N7 & N8 & N9 & N10 & N11 & N12 & N13 & N14 & N15 & N16 & N17 &
                  N18 & N19 & N20 & N21 & N22 & N23 & N24 & N25).
    apply CE_other; auto; [unfold ctlp; rewrite N14, N15, N13, N21, N16; reflexivity| |apply (cancel_task_len owner s1)].
    left. repeat split; auto. intros ? ? ?; discriminate.
  - (* LRelPush *)
    destruct (find_op n (ops s)) as [[| |n0 wantid m p]|]; try discriminate.
    cbn in H. destruct (running s); cbn in H; [|injection H as <- <-; oth].
    destruct wantid; [|injection H as <- <-; oth].
    destruct (send_fail s); [injection H as <- <-; oth|].
    destruct (find _ (ended s)) as [[? ?]|]; injection H as <- <-; oth.
  - (* LRelCbWatch *)
    destruct (nth_error (cbs s) c) as [cb0|]; [|discriminate].
    destruct (cb_watch cb0); try discriminate.
    cbn in H.
    destruct (assoc (cb_id cb0) (calls s)) as [j|]; [|injection H as <- <-; oth].
    destruct (cb_slot cb0); [injection H as <- <-; oth|].
    destruct (j =? c); [|injection H as <- <-; oth].
    destruct (match cb_ctx cb0 with Some WDeadline => _ | _ => _ end) as [code msg].
    injection H as H. unfold complete_cb in H. cbn in H.
    destruct (nth_error (upd_nth c _ (cbs s)) c); injection H as <- <-; oth.
Qed.

(** * The control invariant *)
Definition kept_only (q : list (bool * list jmsg)) : Prop :=
  Forall (fun bm => exists m, snd bm = [m] /\ keep_note m = true) q.

Lemma stop_queue_kept q : kept_only (stop_queue q).
Proof.
  unfold kept_only, stop_queue. apply Forall_forall. intros bm Hin.
  apply in_concat in Hin as (l & Hl & Hin). apply in_map_iff in Hl as (bm0 & <- & _).
  apply in_map_iff in Hin as (m & <- & Hm). apply filter_In in Hm as [_ Hk]. cbn. eauto.
Qed.

Record invc (s : state) : Prop := {
  ic_wc : running s = true -> work_closed s = false;
  ic_wc2 : running s = false -> 0 < starts s -> work_closed s = true;
  ic_err : stop_err s = None <-> (running s = true \/ starts s = 0);
  ic_bal : closes s + (if running s then 1 else 0) = starts s;
  ic_dpx : dp s = DExited \/ dp s = DNone -> inq s = [] /\ running s = false;
  ic_q : running s = false -> kept_only (inq s);
  ic_none : starts s = 0 -> dp s = DNone /\ rd s = RNone /\ running s = false;
  ic_some : 0 < starts s -> dp s <> DNone /\ rd s <> RNone
}.

Lemma invc_same s s' : invc s -> same5 s s' -> inq s' = inq s ->
  dp s' = dp s \/ (dp s <> DNone /\ dp s' <> DNone /\ dp s' <> DExited) ->
  rd s' = rd s \/ (rd s <> RNone /\ rd s' <> RNone) -> invc s'.
Proof.
  intros [A1 A2 A3 A4 A5 A6 A7 A8] (R & E & W & C & S) Q D Rd.
  constructor; rewrite ?R, ?E, ?W, ?C, ?S, ?Q; auto.
  - intros H. apply A5. destruct D as [<-|(D1 & D2 & D3)]; auto. destruct H; congruence.
  - intros Z. destruct (A7 Z) as (B1 & B2 & B3).
    destruct D as [->|(D1 & _)]; [|congruence]. destruct Rd as [->|(R1 & _)]; [|congruence]. auto.
  - intros Z. destruct (A8 Z) as (B1 & B2). split.
    + destruct D as [->|(_ & D2 & _)]; auto.
    + destruct Rd as [->|(_ & R2)]; auto.
Qed.

Lemma dequeue_nontask_like s : same5 s (dequeue s) /\ rd (dequeue s) = rd s /\ waits (dequeue s) = waits s /\
  crash (dequeue s) = crash s /\ nbar (dequeue s) = nbar s /\ ch_in (dequeue s) = ch_in s /\
  sem_free (dequeue s) = sem_free s /\ sem_wait (dequeue s) = sem_wait s.
Proof.
  unfold dequeue, same5. destruct (inq s) as [|[b ms] q]; [destruct (running s) eqn:Rn|]; cbn; repeat split; auto.
Qed.

Lemma invc_dequeue s : invc s -> dp s = DAtNext \/ dp s = DWaitWork -> invc (dequeue s).
Proof.
  intros Ic D. pose proof Ic as [A1 A2 A3 A4 A5 A6 A7 A8].
  destruct (dequeue_nontask_like s) as ((R & E & W & C & S) & Rd & _).
  assert (D0 : dp s <> DNone) by (destruct D; congruence).
  assert (S0 : 0 < starts s).
  { destruct (starts s) eqn:Z; [|lia]. destruct (A7 eq_refl) as (B & _). congruence. }
  constructor; rewrite ?R, ?E, ?W, ?C, ?S, ?Rd; auto.
  - unfold dequeue. destruct (inq s) as [|[b ms] q] eqn:Q; [destruct (running s) eqn:Rn|]; cbn.
    + intros [H|H]; discriminate.
    + rewrite Q. auto.
    + intros [H|H]; discriminate.
  - intros Rn. specialize (A6 Rn). unfold dequeue. destruct (inq s) as [|[b ms] q] eqn:Q; [rewrite Rn; cbn; rewrite Q; auto|].
    cbn. inversion A6; auto.
  - intros Z. lia.
  - intros _. split; [|apply A8; auto].
    unfold dequeue. destruct (inq s) as [|[b ms] q]; [destruct (running s)|]; cbn; discriminate.
Qed.

Lemma invc_raw s l s' os : inv s -> invc s -> step_raw s l = Some (s', os) -> invc s'.
Proof.
  intros I Ic H. pose proof Ic as [A1 A2 A3 A4 A5 A6 A7 A8]. apply raw_ctl in H; auto.
  destruct H as [L Rn Wg -> | c s0 s1 Sc Rn H0 P H1 | f L Rd Rn -> | f i L Rd Hf Rn S5 C0 Ri Wa Hq
                | L D -> | u L D -> | u un s1 L E Su -> Hs | S5 Cp Wa Cr].
  - (* start *)
    constructor; cbn; auto; try discriminate; try lia.
    + split; auto.
    + rewrite Rn in A4. lia.
    + intros [D|D]; discriminate.
    + intros _. split; discriminate.
  - (* stop *)
    assert (F0 : running s0 = running s /\ work_closed s0 = work_closed s /\ closes s0 = closes s /\
                 starts s0 = starts s /\ inq s0 = inq s /\ dp s0 = dp s /\ rd s0 = rd s).
    { destruct H0 as [->|(n & ->)]; cbn; repeat split. }
    destruct F0 as (F1 & F2 & F3 & F4 & F5 & F6 & F7). destruct P.
    assert (S0 : 0 < starts s).
    { destruct (starts s) eqn:Z; [|lia]. destruct (A7 eq_refl) as (_ & _ & B). congruence. }
    assert (F : running s' = false /\ stop_err s' = Some c /\ work_closed s' = true /\ closes s' = S (closes s) /\
                starts s' = starts s /\ inq s' = stop_queue (inq s) /\ dp s' = dp s /\ (rd s' = rd s \/ rd s' = RExited)).
    { destruct H1 as [->|(_ & ->)]; cbn; repeat split; try congruence; auto. left; congruence. }
    destruct F as (G1 & G2 & G3 & G4 & G5 & G6 & G7 & G8).
    constructor; rewrite ?G1, ?G2, ?G3, ?G4, ?G5, ?G6, ?G7; auto; try discriminate.
    + split; [discriminate|]. intros [Z|Z]; [discriminate|lia].
    + rewrite Rn in A4. lia.
    + intros Hd. destruct (A5 Hd) as [B _]. rewrite B. auto.
    + intros _. apply stop_queue_kept.
    + intros Z. lia.
    + intros _. destruct (A8 S0) as (B1 & B2). split; auto. destruct G8 as [-> | ->]; auto. discriminate.
  - (* the reader finds the server stopped *)
    apply (invc_same s); auto; [repeat split|right; cbn; split; congruence].
  - (* the reader queues a message *)
    destruct S5 as (R & E & W & C & S). unfold core0 in C0. injection C0 as _ _ _ _ _ D _ _ _.
    constructor; rewrite ?R, ?E, ?W, ?C, ?S, ?D, ?Ri; auto; try congruence.
    + intros Hd. destruct (A5 Hd). congruence.
    + intros Z. destruct (A7 Z) as (_ & _ & B). congruence.
    + intros Z. split; [apply A8; auto|discriminate].
  - apply invc_dequeue; auto.
  - apply (invc_same s); auto; [repeat split|right; cbn; rewrite D; repeat split; discriminate].
  - (* deliver *)
    pose proof (nontask_release (unit_tasks s u) s) as G. pose proof (nontask_same5 _ _ G) as S5.
    apply nontask_fields in G.
    destruct G as (N1 & N2 & N3 & N4 & N5 & N6 & N7 & N8 & N9 & N10 & N11 & N12 & N13 & N14 & N15 & N16 & N17 &
                  N18 & N19 & N20 & N21 & N22 & N23 & N24 & N25).
    destruct Hs as [(_ & ->)|(_ & ->)]; apply (invc_same s); auto.
  - unfold ctlp in Cp. injection Cp as D Q R _ _. apply (invc_same s); auto.
Qed.

Lemma invc_settle s s' os : invc s -> settle1 s = Some (s', os) -> invc s'.
Proof.
  intros Ic H. apply settle1_inv in H. destruct H.
  - apply (invc_same s); auto; [repeat split|right; cbn; split; congruence].
  - apply invc_dequeue; auto.
  - apply (invc_same s); auto; [repeat split|right; cbn; rewrite H; repeat split; discriminate].
  - apply (invc_same s); auto; repeat split.
  - apply (invc_same s); auto; repeat split.
  - apply (invc_same s); auto; repeat split.
  - apply (invc_same s); auto; repeat split.
Qed.

Theorem reachf_invc c s : reachf c s -> invc s.
Proof.
  induction 1.
  - constructor; cbn; auto; try discriminate; try lia; [split; auto|intros _; constructor].
  - eapply invc_raw; eauto. eapply reachf_inv; eauto.
  - eapply invc_settle; eauto.
Qed.

(** * Task and unit invariants *)
Definition in_unit_note (u : nat) (t : task) : bool := (t_unit t =? u) && runnable t && is_note t.
Definition urun (us : list unit_) (u : nat) : bool :=
  match nth_error us u with Some un => match u_st un with URunning => true | _ => false end | None => false end.
(* a runnable notification of a released unit whose handler has not returned: what [nbar] counts *)
Definition pend (us : list unit_) (t : task) : bool :=
  is_note t && runnable t && negb (finished t) && urun us (t_unit t).

Lemma unit_running_urun s t : unit_running s t = urun (units s) (t_unit t).
Proof. reflexivity. Qed.

Record invt (s : state) : Prop := {
  it_nil : forall k t un, nth_error (tasks s) k = Some t -> nth_error (units s) (t_unit t) = Some un ->
             u_chok un = false -> response_of t = None;
  it_notes : forall u un, nth_error (units s) u = Some un -> countb (in_unit_note u) (tasks s) = u_notes un;
  it_bar : forall k t un, nth_error (tasks s) k = Some t -> nth_error (units s) (t_unit t) = Some un ->
             urank (u_st un) < 2 -> t_st t = TSkip \/ t_st t = TAtAcquire;
  it_canc : forall k t, nth_error (tasks s) k = Some t -> is_note t = true -> t_cancelled t = false
}.
Definition invn (s : state) : Prop := nbar s = countb (pend (units s)) (tasks s).

Lemma back_tchg s l s' k t' : tchg_all s l s' -> length (tasks s') = length (tasks s) ->
  nth_error (tasks s') k = Some t' -> exists t, nth_error (tasks s) k = Some t /\ tchg s l k t t'.
Proof.
  intros X L E. destruct (nth_error (tasks s) k) as [t|] eqn:Et.
  - destruct (X _ _ Et) as (t2 & E2 & Le). rewrite E in E2. injection E2 as <-. eauto.
  - apply nth_error_None in Et. apply nth_error_some_lt in E. lia.
Qed.

Lemma back_unit (us us' : list unit_) u un' : units_ext us us' -> length us' = length us ->
  nth_error us' u = Some un' -> exists un, nth_error us u = Some un /\ unit_le un un'.
Proof.
  intros X L E. destruct (nth_error us u) as [un|] eqn:Eu.
  - destruct (X _ _ Eu) as (u2 & E2 & Le). rewrite E in E2. injection E2 as <-. eauto.
  - apply nth_error_None in Eu. apply nth_error_some_lt in E. lia.
Qed.

Lemma in_unit_note_le u t t' : task_le t t' -> in_unit_note u t' = in_unit_note u t.
Proof. intros [U Id _ _ P _ _ _ _]. unfold in_unit_note, runnable, is_note. rewrite U, Id, P. reflexivity. Qed.

Lemma owner_not_note s k t : inv_used s -> owner_in (used s) k = true -> nth_error (tasks s) k = Some t -> is_note t = false.
Proof.
  intros Iu O E. apply owner_in_spec in O as (id & Hi).
  destruct (iu_in _ Iu _ _ Hi) as (t0 & E0 & Ei & Nn & _). rewrite E in E0. injection E0 as <-.
  unfold is_note. rewrite Ei. destruct id; [congruence|reflexivity].
Qed.

(* a step that keeps the numbers of tasks and units *)
Lemma invt_step s l s' : inv s -> inv_used s -> invt s -> tchg_all s l s' ->
  length (tasks s') = length (tasks s) -> units_ext (units s) (units s') -> length (units s') = length (units s) ->
  invt s'.
Proof.
  intros I Iu [T1 T2 T3 T4] X L Xu Lu.
  assert (Bk : forall k t', nth_error (tasks s') k = Some t' ->
            exists t, nth_error (tasks s) k = Some t /\ tchg s l k t t' /\ task_le t t').
  { intros k t' E. destruct (back_tchg _ _ _ _ _ X L E) as (t & Et & C). exists t. split; auto. split; auto.
    eapply tchg_le; eauto. }
  constructor.
  - intros k t' un' E Eu Ck. destruct (Bk _ _ E) as (t & Et & C & Le).
    rewrite (tl_unit _ _ Le) in Eu. destruct (back_unit _ _ _ _ Xu Lu Eu) as (un & Eun & Lun).
    rewrite (ul_chok _ _ Lun) in Ck. apply (response_none_le _ _ Le). eauto.
  - intros u un' Eu. destruct (back_unit _ _ _ _ Xu Lu Eu) as (un & Eun & Lun).
    rewrite (ul_notes _ _ Lun), <- (T2 _ _ Eun). apply countb_nth_eq; auto.
    intros k t t' E E'. destruct (X _ _ E) as (t2 & E2 & C). rewrite E' in E2. injection E2 as <-.
    apply in_unit_note_le. eapply tchg_le; eauto.
  - intros k t' un' E Eu Rk. destruct (Bk _ _ E) as (t & Et & C & Le).
    rewrite (tl_unit _ _ Le) in Eu. destruct (back_unit _ _ _ _ Xu Lu Eu) as (un & Eun & Lun).
    pose proof (ul_st _ _ Lun) as Rl.
    assert (Old : t_st t = TSkip \/ t_st t = TAtAcquire) by (eapply T3; eauto; lia).
    assert (NotRun : unit_running s t = true -> False).
    { unfold unit_running. rewrite Eun. destruct (u_st un); try discriminate. cbn in Rl. lia. }
    destruct C as [| | p o _ St | _ St Ur _ | x _ St Ur _ Hx | o _ St | j _ _ St]; auto.
    + unfold cancel_fn. destruct Old as [O|O]; rewrite O; cbn; auto.
    + destruct Old; congruence.
    + destruct (NotRun Ur).
    + destruct (NotRun Ur).
    + destruct Old; congruence.
    + destruct Old; congruence.
  - intros k t' E Nt. destruct (Bk _ _ E) as (t & Et & C & Le).
    assert (Nt0 : is_note t = true) by (unfold is_note in *; rewrite <- (tl_id _ _ Le); auto).
    specialize (T4 _ _ Et Nt0).
    destruct C as [| O _ _ _ | p o _ St | _ St Ur Cn | x _ St Ur _ Hx | o _ St | j _ _ St]; cbn; auto.
    rewrite (owner_not_note _ _ _ Iu O Et) in Nt0. discriminate.
Qed.

(* dequeue: one fresh unit at the barrier with fresh tasks *)
Lemma mk_task_keep_silent s u ids m : keep_note m = true -> response_of (mk_task s u ids m) = None.
Proof.
  unfold keep_note, is_notification, is_req_or_notif. intros H.
  apply andb_true_iff in H as [H1 H2]. apply andb_true_iff in H1 as [H1 H3].
  apply andb_true_iff in H1 as [H1 _]. apply andb_true_iff in H1 as [H1 _].
  apply beq_eq in H3. destruct (j_err m) eqn:Je; [discriminate|].
  unfold mk_task, pre_err. rewrite H3, Je. cbn.
  destruct (j_method m) as [|x0 xs] eqn:Jm; [cbn in H1; discriminate|]. cbn.
  destruct (assign_method s (x0 :: xs)); reflexivity.
Qed.

Lemma invt_dequeue s : inv s -> invc s -> invt s -> invt (dequeue s).
Proof.
  intros I Ic [T1 T2 T3 T4]. unfold dequeue.
  destruct (inq s) as [|[b ms] q] eqn:Q; [destruct (running s); constructor; cbn; auto|].
  set (u := length (units s)). set (ids := map (fun m => fix_id (j_id m)) ms).
  assert (Old : forall k t, nth_error (tasks s ++ map (mk_task s u ids) ms) k = Some t ->
            (nth_error (tasks s) k = Some t /\ t_unit t < u) \/ (exists m, In m ms /\ t = mk_task s u ids m)).
  { intros k t E. destruct (Nat.lt_ge_cases k (length (tasks s))) as [Lt|Ge].
    - rewrite nth_error_app1 in E by auto. left. split; auto. eapply (i_unit _ I); eauto.
    - rewrite nth_error_app2 in E by auto. apply nth_error_In, in_map_iff in E as (m & <- & Hm). eauto. }
  constructor; cbn.
  - intros k t un E Eu Ck. destruct (Old _ _ E) as [(Et & Lt)|(m & Hm & ->)].
    + rewrite nth_error_app1 in Eu by auto. eauto.
    + rewrite mk_task_unit in Eu. unfold u in Eu. rewrite nth_error_app_new in Eu. injection Eu as <-. cbn in Ck.
      specialize (ic_q _ Ic Ck). rewrite Q. intros K. inversion K as [|x y (m0 & Em & Km) _]. subst. cbn in Em.
      subst ms. destruct Hm as [<-|[]]. apply mk_task_keep_silent; auto.
  - intros v un Ev. rewrite countb_app.
    destruct (Nat.lt_ge_cases v u) as [Lt|Ge].
    + rewrite nth_error_app1 in Ev by auto. rewrite (T2 _ _ Ev).
      rewrite (countb_false (in_unit_note v) (map _ ms)); [lia|].
      intros t Ht. apply in_map_iff in Ht as (m & <- & _). unfold in_unit_note. rewrite mk_task_unit.
      destruct (Nat.eqb_spec u v); [lia|reflexivity].
    + assert (v = u).
      { pose proof (nth_error_some_lt _ _ _ Ev) as Lv. rewrite app_length in Lv. cbn in Lv. unfold u in *. lia. }
      subst v. unfold u in Ev. rewrite nth_error_app_new in Ev. injection Ev as <-. cbn. fold u.
      rewrite (countb_false (in_unit_note u) (tasks s)).
      * rewrite countb_filter_length. cbn. f_equal. apply filter_ext_in.
        intros t Ht. apply in_map_iff in Ht as (m & <- & _). unfold in_unit_note. rewrite mk_task_unit, Nat.eqb_refl. reflexivity.
      * intros t Ht. apply In_nth_error in Ht as (k & Ek). unfold in_unit_note.
        pose proof (i_unit _ I _ _ Ek). destruct (Nat.eqb_spec (t_unit t) u); [lia|reflexivity].
  - intros k t un E Eu Rk. destruct (Old _ _ E) as [(Et & Lt)|(m & Hm & ->)].
    + rewrite nth_error_app1 in Eu by auto. eauto.
    + destruct (mk_task_st s u ids m) as [(S1 & _)|(S1 & _)]; auto.
  - intros k t E Nt. destruct (Old _ _ E) as [(Et & Lt)|(m & Hm & ->)]; eauto. apply mk_task_cancelled.
Qed.

(** * The barrier counter counts the pending notifications of released units *)
Lemma pend_units_eq us us' ts :
  (forall t, In t ts -> urun us' (t_unit t) = urun us (t_unit t) \/ finished t = true) ->
  countb (pend us') ts = countb (pend us) ts.
Proof.
  intros H. apply countb_ext_in. intros t Ht. unfold pend. destruct (H t Ht) as [-> | ->]; auto.
  cbn. rewrite !andb_false_r. reflexivity.
Qed.

Lemma urun_upd_other us i f u : u <> i -> urun (upd_nth i f us) u = urun us u.
Proof. intros N. unfold urun. rewrite nth_error_upd_nth_neq; auto. Qed.

Lemma urun_upd_same us i x un : nth_error us i = Some un ->
  urun (upd_nth i (fun y => y <| u_st := x |>) us) i = match x with URunning => true | _ => false end.
Proof. intros E. unfold urun. erewrite nth_error_upd_nth_eq; eauto. Qed.

Lemma all_finished_in s i t : all_finished s i = true -> In t (tasks s) -> t_unit t = i -> finished t = true.
Proof.
  unfold all_finished, unit_tasks. rewrite forallb_forall. intros H I E. apply H. apply filter_In. split; auto.
  apply Nat.eqb_eq; auto.
Qed.

(* a unit changes status, not from/to running or with all its tasks finished *)
Lemma invn_set_unit s s' i x un : invn s -> nth_error (units s) i = Some un ->
  tasks s' = tasks s -> nbar s' = nbar s -> units s' = upd_nth i (fun y => y <| u_st := x |>) (units s) ->
  all_finished s i = true \/ (u_st un <> URunning /\ x <> URunning) -> invn s'.
Proof.
  unfold invn. intros N E T B U H. rewrite T, B, U, N. symmetry. apply pend_units_eq.
  intros t Ht. destruct (Nat.eq_dec (t_unit t) i) as [Eq|Ne].
  - destruct H as [H|[H1 H2]].
    + right. eapply all_finished_in; eauto.
    + left. rewrite Eq, (urun_upd_same _ _ _ _ E). unfold urun. rewrite E.
      destruct x; try congruence; destruct (u_st un); congruence.
  - left. apply urun_upd_other; auto.
Qed.

Lemma finished_tchg s l k t t' : tchg s l k t t' -> finished t = true -> finished t' = true.
Proof. intros C. apply finished_le. eapply tchg_le; eauto. Qed.

Lemma pend_tchg s l k t t' us : inv_used s -> invt s -> nth_error (tasks s) k = Some t -> tchg s l k t t' ->
  (l = LRelHandled k -> is_note t = false) -> pend us t' = pend us t.
Proof.
  intros Iu It E C Nl. pose proof (tchg_le _ _ _ _ _ C) as Le.
  assert (St : is_note t' = is_note t /\ runnable t' = runnable t /\ t_unit t' = t_unit t).
  { destruct Le as [U Id _ _ P _ _ _ _]. unfold is_note, runnable. rewrite U, Id, P. auto. }
  destruct St as (S1 & S2 & S3). unfold pend. rewrite S1, S2, S3.
  destruct (is_note t) eqn:Nt; [|reflexivity].
  assert (F : finished t' = finished t); [|rewrite F; reflexivity].
  destruct C as [| O _ _ _ | p o _ St | _ St Ur Cn | x _ St Ur _ Hx | o L St | j _ _ St]; auto.
  - rewrite (owner_not_note _ _ _ Iu O E) in Nt. discriminate.
  - unfold finished. cbn. rewrite St. reflexivity.
  - rewrite (it_canc _ It _ _ E Nt) in Cn. discriminate.
  - unfold finished. cbn. rewrite St. destruct Hx as [->|[->| ->]]; reflexivity.
  - specialize (Nl L). congruence.
  - unfold finished, granted. cbn. rewrite St. destruct (t_builtin t); reflexivity.
Qed.

Lemma invn_tasks s l s' : inv_used s -> invt s -> invn s -> tchg_all s l s' ->
  (forall k t, l = LRelHandled k -> nth_error (tasks s) k = Some t -> is_note t = false) ->
  length (tasks s') = length (tasks s) -> units s' = units s -> nbar s' = nbar s -> invn s'.
Proof.
  unfold invn. intros Iu It N X Nl L U B. rewrite B, U, N. symmetry. apply countb_nth_eq; auto.
  intros k t t' E E'. destruct (X _ _ E) as (t2 & E2 & C). rewrite E' in E2. injection E2 as <-.
  eapply pend_tchg; eauto.
Qed.

(* a task in flight belongs to a released unit *)
Lemma inflight_running s k t : inv s -> invt s -> nth_error (tasks s) k = Some t -> finished t = false ->
  t_st t <> TAtAcquire -> unit_running s t = true.
Proof.
  intros I It E F Na. unfold unit_running.
  pose proof (i_unit _ I _ _ E) as Lt. destruct (nth_error (units s) (t_unit t)) as [un|] eqn:Eu.
  2:{ apply nth_error_None in Eu. lia. }
  destruct (u_st un) eqn:Su; auto.
  1,2: destruct (it_bar _ It _ _ _ E Eu) as [Z|Z]; [rewrite Su; cbn; lia| |]; unfold finished in F; try rewrite Z in F; congruence.
  all: assert (Fin : all_finished s (t_unit t) = true) by (apply (i_fin _ I _ _ Eu); auto).
  all: rewrite (all_finished_in _ _ _ Fin (nth_error_In _ _ E) eq_refl) in F; discriminate.
Qed.

(* the handler of a notification returns: the counter and the count both go down by one *)
Lemma invn_handled s k s' t o : inv s -> inv_used s -> invt s -> invn s -> tchg_all s (LRelHandled k) s' ->
  length (tasks s') = length (tasks s) -> units s' = units s ->
  nth_error (tasks s) k = Some t -> t_st t = TAtHandled o -> is_note t = true ->
  countb (pend (units s)) (tasks s) = S (countb (pend (units s')) (tasks s')).
Proof.
  intros I Iu It N X L U E St Nt. rewrite U.
  destruct (X _ _ E) as (t' & E' & C).
  apply (countb_nth_dec (pend (units s)) (pend (units s)) (tasks s) (tasks s') k t t'); auto.
  - unfold pend. rewrite Nt. cbn.
    assert (Rn : runnable t = true).
    { unfold runnable. destruct (t_pre t) eqn:P; auto. destruct (i_pre _ I _ _ E) as [P1 _]. rewrite (P1 _ P) in St. discriminate. }
    rewrite Rn. unfold finished. rewrite St. cbn. rewrite <- unit_running_urun.
    eapply inflight_running; eauto; [unfold finished; rewrite St; reflexivity|congruence].
  - assert (F : finished t' = true).
    { destruct C as [Ns | O _ N2 _ | p o0 Lb _ | Lb _ _ _ | x Lb _ _ _ _ | o0 Lb St0 | j Lb Nj _];
        try discriminate; try congruence.
      - exfalso. eapply N2; reflexivity.
      - reflexivity. }
    unfold pend. rewrite F. cbn. rewrite !andb_false_r. reflexivity.
  - intros j tj tj' Nj Ej Ej'. destruct (X _ _ Ej) as (t2 & E2 & C2). rewrite Ej' in E2. injection E2 as <-.
    eapply pend_tchg; eauto. intros [= ->]. congruence.
Qed.

Lemma invn_dequeue s : inv s -> invn s -> invn (dequeue s).
Proof.
  unfold invn. intros I N. unfold dequeue.
  destruct (inq s) as [|[b ms] q]; [destruct (running s); cbn; auto|]. cbn. rewrite N, countb_app.
  set (u := length (units s)).
  rewrite (countb_false _ (map _ ms)).
  - rewrite Nat.add_0_r. apply pend_units_eq. intros t Ht. left. apply In_nth_error in Ht as (k & Ek).
    pose proof (i_unit _ I _ _ Ek). unfold urun. rewrite nth_error_app1; auto.
  - intros t Ht. apply in_map_iff in Ht as (m & <- & _). unfold pend, urun. rewrite mk_task_unit.
    unfold u. rewrite nth_error_app_new. cbn. apply andb_false_r.
Qed.

(** * The whole bundle is preserved *)
Record inv8 (s : state) : Prop := { i8_c : invc s; i8_t : invt s; i8_n : invn s }.

Lemma tn_same_units s l s' : inv s -> inv_used s -> invt s -> invn s -> tchg_all s l s' ->
  (forall k t, l = LRelHandled k -> nth_error (tasks s) k = Some t -> is_note t = false) ->
  length (tasks s') = length (tasks s) -> units s' = units s -> nbar s' = nbar s -> invt s' /\ invn s'.
Proof.
  intros I Iu It N X Nl L U B. split.
  - eapply invt_step; eauto; rewrite U; auto. apply units_ext_refl.
  - eapply invn_tasks; eauto.
Qed.

Lemma inv8_raw s l s' os : inv s -> inv_used s -> inv8 s -> step_raw s l = Some (s', os) -> inv8 s'.
Proof.
  intros I Iu [Ic It N] H.
  pose proof (invc_raw _ _ _ _ I Ic H) as Ic'.
  pose proof (raw_tchg _ _ _ _ I H) as X.
  destruct (raw_step_ok _ _ _ _ I H) as [I' [Xt Xu]].
  assert (G : invt s' /\ invn s'); [|destruct G; constructor; auto].
  pose proof (raw_ctl _ _ _ _ I H) as CE.
  destruct CE as [L Rn Wg E' | c s0 s1 Sc Rn H0 P H1 | f L Rd Rn E' | f i L Rd Hf Rn S5 C0 Ri Wa Hq
                | L D E' | u L D E' | u un s1 L E Su E1 Hs | S5 Cp Wa Cr Ln].
  - subst s'. apply (tn_same_units s l); auto; try congruence.
  - destruct P.
    assert (F0 : length (tasks s0) = length (tasks s) /\ units s0 = units s /\ nbar s0 = nbar s).
    { destruct H0 as [->|(n & ->)]; cbn; repeat split. }
    assert (F1 : length (tasks s') = length (tasks s1) /\ units s' = units s1 /\ nbar s' = nbar s1).
    { destruct H1 as [->|(_ & ->)]; cbn; repeat split. }
    destruct F0 as (A1 & A2 & A3). destruct F1 as (B1 & B2 & B3).
    apply (tn_same_units s l); auto; try congruence. destruct Sc; congruence.
  - subst s'. apply (tn_same_units s l); auto; try congruence.
  - unfold core0 in C0. injection C0 as T U _ _ _ _ _ _ B.
    apply (tn_same_units s l); auto; try congruence.
  - subst s'. split; [apply invt_dequeue; auto|apply invn_dequeue; auto].
  - subst s'. apply (tn_same_units s l); auto; try congruence.
  - (* deliver *)
    destruct (release_ids_spec (unit_tasks s u) s) as [_ _ L1 (Eu & _ & _ & _ & _ & Eb & _) _ _ _].
    rewrite <- E1 in *.
    assert (T' : tasks s' = tasks s1 /\ nbar s' = nbar s1).
    { destruct Hs as [(_ & ->)|(_ & ->)]; cbn; auto. }
    destruct T' as (T' & B').
    assert (X1 : tchg_all s l s1).
    { intros k t Ek. destruct (X _ _ Ek) as (t' & Ek' & C). rewrite T' in Ek'. eauto. }
    assert (N1 : invn s1) by (eapply invn_tasks; eauto; subst l; intros ? ? ?; discriminate).
    split.
    + apply (invt_step s l s'); auto; [congruence|].
      destruct Hs as [(_ & ->)|(_ & ->)]; cbn; rewrite ?upd_nth_length; congruence.
    + destruct Hs as [(_ & ->)|(_ & ->)].
      * unfold invn in *. cbn. exact N1.
      * eapply (invn_set_unit s1 _ u UFinished un); eauto; try reflexivity; [congruence|].
        right. split; [congruence|discriminate].
  - unfold ctlp in Cp. injection Cp as _ _ _ _ U.
    destruct Cr as [(Cr & B & Nl)|(k & t & o & L & E & St & Nt & Hn)].
    + apply (tn_same_units s l); auto.
    + split; [apply (invt_step s l s'); auto; rewrite U; auto; apply units_ext_refl|].
      subst l. pose proof (invn_handled _ _ _ _ _ I Iu It N X Ln U E St Nt) as Cn.
      unfold invn in *. destruct Hn as [(B & _)|(B & _)]; lia.
Qed.

Lemma inv8_settle s s' os : inv s -> inv_used s -> inv8 s -> settle1 s = Some (s', os) -> inv8 s'.
Proof.
  intros I Iu [Ic It N] H.
  pose proof (invc_settle _ _ _ Ic H) as Ic'.
  destruct (settle1_ok _ _ _ I H) as [I' [Xt Xu]].
  assert (G : invt s' /\ invn s'); [|destruct G; constructor; auto].
  assert (Same : forall s2, tasks s2 = tasks s -> tchg_all s LStart s2).
  { intros s2 T. apply tchg_same_tasks; auto. discriminate. }
  apply settle1_inv in H. destruct H.
  - apply (tn_same_units s LStart); auto; intros ? ? ?; discriminate.
  - split; [apply invt_dequeue; auto|apply invn_dequeue; auto].
  - (* the barrier opens *)
    split.
    + apply (invt_step s LStart); auto. cbn. apply upd_nth_length.
    + destruct (i_dp _ I u (or_intror H)) as (un' & E' & S'). rewrite H1 in E'. injection E' as <-.
      unfold invn in *. cbn.
      assert (Z : forall t, In t (tasks s) -> pend (units s) t = false).
      { apply countb_zero_forall. congruence. }
      rewrite <- (it_notes _ It _ _ H1). apply countb_ext_in. intros t Ht.
      apply In_nth_error in Ht as (k & Ek). unfold in_unit_note.
      destruct (Nat.eqb_spec (t_unit t) u) as [Eq|Ne]; cbn.
      * unfold pend. rewrite Eq, (urun_upd_same _ _ _ _ H1). rewrite andb_true_r.
        destruct (is_note t); [|rewrite andb_false_r; reflexivity]. cbn. rewrite andb_true_r.
        unfold runnable. destruct (t_pre t) eqn:P; [reflexivity|]. cbn.
        destruct (it_bar _ It _ _ un Ek) as [Z1|Z1]; [congruence|rewrite S'; cbn; lia| |].
        -- destruct (i_pre _ I _ _ Ek) as [_ P2]. destruct (P2 P Z1).
        -- unfold finished. rewrite Z1. reflexivity.
      * specialize (Z t (nth_error_In _ _ Ek)). unfold pend in *. rewrite urun_upd_other; auto.
  - (* a unit without responses finishes *)
    apply find_unit_some in H as (un' & E' & C & _). rewrite Nat.sub_0_r, H0 in E'. injection E' as <-.
    apply unit_complete_inv in C as [Su Fin]. split.
    + apply (invt_step s LStart); auto. cbn. apply upd_nth_length.
    + eapply (invn_set_unit s _ i UFinished un); eauto; reflexivity.
  - apply find_unit_some in H as (un' & E' & C & _). rewrite Nat.sub_0_r, H0 in E'. injection E' as <-.
    apply unit_complete_inv in C as [Su Fin]. split.
    + apply (invt_step s LStart); auto. cbn. apply upd_nth_length.
    + eapply (invn_set_unit s _ i UAtDeliver un); eauto; reflexivity.
  - apply (tn_same_units s LStart); auto; intros ? ? ?; discriminate.
  - apply (tn_same_units s LStart); auto; intros ? ? ?; discriminate.
Qed.

Theorem reachf_inv8 c s : reachf c s -> inv8 s.
Proof.
  induction 1.
  - constructor; [apply (reachf_invc c); constructor| |reflexivity].
    constructor; cbn; try (intros [|k] t; discriminate).
  - eapply inv8_raw; eauto; [eapply reachf_inv|eapply reachf_inv_used]; eauto.
  - eapply inv8_settle; eauto; [eapply reachf_inv|eapply reachf_inv_used]; eauto.
Qed.

(** * C08.1 no crash *)
Lemma wg0_dp_rd s : inv2 s -> wg s = 0 ->
  (dp s = DExited \/ dp s = DNone) /\ (rd s = RExited \/ rd s = RNone).
Proof.
  intros [_ G] Z. rewrite Z in G. split.
  - destruct (dp s); cbn in G; auto; lia.
  - destruct (rd s); cbn in G; auto; lia.
Qed.

Lemma nil_unit_silent s u un : inv s -> invt s -> nth_error (units s) u = Some un -> u_chok un = false ->
  responses (unit_tasks s u) = [].
Proof.
  intros I It E Ck. apply responses_nil_iff. intros t Ht. unfold unit_tasks in Ht.
  apply filter_In in Ht as [Hi Hu]. apply Nat.eqb_eq in Hu. apply In_nth_error in Hi as (k & Ek).
  eapply (it_nil _ It); eauto. rewrite Hu. exact E.
Qed.

Inductive crash_site : crashkind -> Prop :=
| cs_nil : crash_site CrNilChannel | cs_send : crash_site CrSendOnClosedWork
| cs_close : crash_site CrCloseOfClosedWork | cs_queue : crash_site CrQueueNotEmpty
| cs_bar : crash_site CrNegativeBarrier.

Lemma raw_no_crash c s l s' os : reachf c s -> crash s = None -> step_raw s l = Some (s', os) -> crash s' = None.
Proof.
  intros R Cr H.
  pose proof (reachf_inv _ _ R) as I. pose proof (reachf_inv_used _ _ R) as Iu.
  destruct (reachf_inv8 _ _ R) as [Ic It N].
  pose proof (raw_tchg _ _ _ _ I H) as X.
  pose proof (raw_ctl _ _ _ _ I H) as CE.
  destruct CE as [L Rn Wg E' | k s0 s1 Sc Rn H0 P H1 | f L Rd Rn E' | f i L Rd Hf Rn S5 C0 Ri Wa Hq
                | L D E' | u L D E' | u un s1 L E Su E1 Hs | S5 Cp Wa Hc Ln].
  - subst s'. exact Cr.
  - assert (F0 : work_closed s0 = work_closed s /\ crash s0 = crash s).
    { destruct H0 as [->|(n & ->)]; cbn; auto. }
    destruct F0 as (F1 & F2).
    assert (C1 : crash s1 = None). { rewrite (sr_crash _ _ _ P), F1, (ic_wc _ Ic Rn), F2. exact Cr. }
    destruct H1 as [->|(_ & ->)]; exact C1.
  - subst s'. exact Cr.
  - destruct Hq as [(_ & ->)|(b & keep & _ & _ & ->)]; auto. rewrite (ic_wc _ Ic Rn). exact Cr.
  - subst s'. rewrite <- Cr. apply dequeue_nontask_like.
  - subst s'. exact Cr.
  - destruct Hs as [(Ck & _)|(_ & ->)].
    + exfalso. apply (reachf_inv_deliv _ _ R _ _ E Su). eapply nil_unit_silent; eauto.
    + cbn. rewrite E1. pose proof (nontask_release (unit_tasks s u) s) as G. apply nontask_fields in G.
      destruct G as (N1 & N2 & N3 & N4 & N5 & N6 & N7 & N8 & N9 & N10 & N11 & N12 & N13 & N14 & N15 & N16 & N17 &
                  N18 & N19 & N20 & N21 & N22 & N23 & N24 & N25). congruence.
  - destruct Hc as [(-> & _)|(k & t & o & L & E & St & Nt & [(_ & ->)|(B & _)])]; auto.
    exfalso. unfold ctlp in Cp. injection Cp as _ _ _ _ U. subst l.
    pose proof (invn_handled _ _ _ _ _ I Iu It N X Ln U E St Nt) as Cn. unfold invn in N. lia.
Qed.

Theorem no_crash_f c s : reachf c s -> crash s = None.
Proof.
  induction 1 as [|s l s' os R IH Cr H|s s' os R IH H].
  - reflexivity.
  - eapply raw_no_crash; eauto.
  - pose proof H as H0. apply settle1_inv in H. destruct H; cbn; auto.
    + rewrite <- IH. apply dequeue_nontask_like.
    + exfalso. destruct (wg0_dp_rd _ (reachf_inv2 _ _ R) H1) as [Hd _].
      destruct (ic_dpx _ (i8_c _ (reachf_inv8 _ _ R)) Hd). auto.
Qed.

Theorem no_crash c s : reach c s -> crash s = None.
Proof. intros R. apply (no_crash_f c). apply reach_reachf; auto. Qed.

Theorem no_crash_trace c tr s oss : run (init_of c) tr = Some (s, oss) -> crash s = None.
Proof. intros H. eapply no_crash, run_reach; eauto. constructor. Qed.

(* per crash kind, at the critical section that would raise it *)
Theorem no_crash_step c s l s' os : reach c s -> step s l = Some (s', os) -> crash s' = None.
Proof. intros R H. eapply no_crash. eapply reach_step; eauto. Qed.
