(* SrvC08: foundations for property C08 (clean, crash-free, restartable shutdown).
   - what one critical section does to every single task ([tchg], [raw_tchg])
   - what it does to the control fields ([ctl_eff], [raw_ctl])
   - the invariant bundle [inv8] behind crash freedom
   - [no_crash]: no reachable state carries a crash (= a Go panic of server.go). *)
From Coq Require Import List NArith ZArith Bool Arith Lia.
From RecordUpdate Require Import RecordUpdate.
From JV Require Import Bytes Msg SrvModel SrvLemmas SrvBasics SrvC01 SrvC07.
Import ListNotations.

(** * counting *)
Lemma countb_ext_in {A} (p q : A -> bool) l : (forall x, In x l -> p x = q x) -> countb p l = countb q l.
Proof.
  induction l as [|x r IH]; cbn; auto. intros H. rewrite (H x (or_introl eq_refl)), IH; auto.
Qed.

Lemma countb_nth_eq {A} (p q : A -> bool) : forall l l', length l' = length l ->
  (forall k x x', nth_error l k = Some x -> nth_error l' k = Some x' -> q x' = p x) -> countb q l' = countb p l.
Proof.
  induction l as [|x r IH]; intros [|x' r'] L H; cbn in *; try discriminate; auto.
  rewrite (H 0 x x' eq_refl eq_refl). f_equal. apply IH; [lia|]. intros k y y' E E'. apply (H (S k)); auto.
Qed.

Lemma countb_nth_dec {A} (p q : A -> bool) : forall l l' k0 x0 x0', length l' = length l ->
  nth_error l k0 = Some x0 -> nth_error l' k0 = Some x0' -> p x0 = true -> q x0' = false ->
  (forall k x x', k <> k0 -> nth_error l k = Some x -> nth_error l' k = Some x' -> q x' = p x) ->
  countb p l = S (countb q l').
Proof.
  induction l as [|x r IH]; intros [|x' r'] [|k0] x0 x0' L E E' P Q H; cbn in *; try discriminate.
  - injection E as ->. injection E' as ->. rewrite P, Q. cbn. f_equal. symmetry.
    apply countb_nth_eq; [lia|]. intros k y y' Ey Ey'. apply (H (S k)); auto.
  - rewrite (H 0 x x') by auto.
    assert (C : countb p r = S (countb q r')).
    { apply (IH r' k0 x0 x0'); auto. intros k y y' N Ey Ey'. apply (H (S k)); auto. }
    lia.
Qed.

Lemma countb_filter_length {A} (p : A -> bool) l : countb p l = length (filter p l).
Proof. induction l as [|x r IH]; cbn; auto. destruct (p x); cbn; lia. Qed.

Lemma countb_false {A} (p : A -> bool) l : (forall x, In x l -> p x = false) -> countb p l = 0.
Proof. intros H. apply countb_zero_forall. auto. Qed.

(** * the fields no task-level helper touches *)
Definition nontask (s : state) : state := s <| tasks := [] |> <| sem_wait := [] |> <| sem_free := 0 |> <| used := [] |>.

Lemma nontask_fields s s' : nontask s' = nontask s ->
  c_K s' = c_K s /\ c_push s' = c_push s /\ c_builtin s' = c_builtin s /\ c_methods s' = c_methods s /\
  c_unblock s' = c_unblock s /\ ch_in s' = ch_in s /\ send_fail s' = send_fail s /\ running s' = running s /\
  stop_err s' = stop_err s /\ work_closed s' = work_closed s /\ closes s' = closes s /\ starts s' = starts s /\
  rd s' = rd s /\ dp s' = dp s /\ inq s' = inq s /\ units s' = units s /\ nbar s' = nbar s /\
  calls s' = calls s /\ call_id s' = call_id s /\ cbs s' = cbs s /\ wg s' = wg s /\ ops s' = ops s /\
  waits s' = waits s /\ ended s' = ended s /\ crash s' = crash s.
Proof.
  intros H.
  repeat split;
    match goal with |- ?f s' = ?f s => change (f (nontask s') = f (nontask s)); rewrite H; reflexivity end.
Qed.

Lemma nontask_cancel k s : nontask (cancel_task k s) = nontask s.
Proof.
  unfold cancel_task. destruct (nth_error (tasks s) k) as [t|]; auto. destruct (t_st t); reflexivity.
Qed.

Lemma nontask_fold (l : list (bytes * nat)) : forall s,
  nontask (fold_left (fun st p => cancel_task (snd p) st) l s) = nontask s.
Proof. induction l as [|p l IH]; intros s; cbn; auto. rewrite IH. apply nontask_cancel. Qed.

Lemma nontask_release ts : forall s, nontask (release_ids ts s) = nontask s.
Proof.
  induction ts as [|a r IH]; intros s; cbn [release_ids]; auto.
  destruct (t_hasctx a && negb (is_note a)); [|apply IH].
  destruct (assoc (t_id a) (used s)) as [owner|]; [|apply IH].
  rewrite IH. change (nontask (cancel_task owner s <| used ::= assoc_del (t_id a) |>)) with (nontask (cancel_task owner s)).
  apply nontask_cancel.
Qed.

Lemma nontask_grant : forall fuel s acc, nontask (fst (grant fuel s acc)) = nontask s.
Proof.
  induction fuel as [|f IH]; intros s acc; cbn; auto.
  destruct (sem_wait s) as [|k r]; auto. destruct (sem_free s) as [|fr]; auto.
  destruct (nth_error (tasks s) k) as [t|]; auto.
  destruct (t_builtin t); rewrite IH; reflexivity.
Qed.

(** * what the helpers do to one task *)
Lemma cancel_fn_idem t : cancel_fn (cancel_fn t) = cancel_fn t.
Proof. destruct t as [u i m p pr h b c st]. unfold cancel_fn; cbn. destruct st; reflexivity. Qed.

Lemma cancel_task_nth k s j t : nth_error (tasks s) j = Some t ->
  nth_error (tasks (cancel_task k s)) j = Some (if k =? j then cancel_fn t else t).
Proof.
  intros E. rewrite cancel_task_tasks, nth_error_upd_nth, E. destruct (k =? j); reflexivity.
Qed.

(* a fold of cancellations (stopLocked): exactly the listed owners are cancelled *)
Lemma fold_cancel_nth (l : list (bytes * nat)) : forall s j t, nth_error (tasks s) j = Some t ->
  nth_error (tasks (fold_left (fun st p => cancel_task (snd p) st) l s)) j =
    Some (if existsb (fun p => snd p =? j) l then cancel_fn t else t).
Proof.
  induction l as [|p l IH]; intros s j t E; cbn; auto.
  rewrite (IH _ _ _ (cancel_task_nth (snd p) s j t E)).
  destruct (snd p =? j); cbn; [|reflexivity].
  rewrite cancel_fn_idem. destruct (existsb _ l); reflexivity.
Qed.

(* release_ids (deliver): only registered owners are cancelled *)
Lemma release_ids_nth ts : forall s j t, nth_error (tasks s) j = Some t ->
  nth_error (tasks (release_ids ts s)) j = Some t \/
  ((exists id, In (id, j) (used s)) /\ nth_error (tasks (release_ids ts s)) j = Some (cancel_fn t)).
Proof.
  induction ts as [|a r IH]; intros s j t E; cbn [release_ids]; auto.
  destruct (t_hasctx a && negb (is_note a)); [|apply IH; auto].
  destruct (assoc (t_id a) (used s)) as [owner|] eqn:A; [|apply IH; auto].
  set (s1 := cancel_task owner s <| used ::= assoc_del (t_id a) |>).
  assert (U1 : forall id, In (id, j) (used s1) -> In (id, j) (used s)).
  { intros id Hi. unfold s1 in Hi. cbn in Hi. rewrite cancel_task_used in Hi. apply in_assoc_del in Hi. tauto. }
  assert (E1 : nth_error (tasks s1) j = Some (if owner =? j then cancel_fn t else t)).
  { apply (cancel_task_nth owner s j t E). }
  destruct (IH s1 _ _ E1) as [H|[(id & Hi) H]].
  - destruct (Nat.eqb_spec owner j) as [->|N]; auto.
    right. split; auto. exists (t_id a). apply assoc_in; auto.
  - destruct (Nat.eqb_spec owner j) as [->|N].
    + rewrite cancel_fn_idem in H. right. split; auto. exists (t_id a). apply assoc_in; auto.
    + right. split; eauto.
Qed.

(* grant: only queued waiters move, into their handler *)
Definition granted (t : task) : task := t <| t_st := if t_builtin t then TAtHandled (ORes []) else TRunning |>.

Lemma grant_nth fuel s acc : wait_ok s -> forall j t, nth_error (tasks s) j = Some t ->
  nth_error (tasks (fst (grant fuel s acc))) j = Some t \/
  (t_st t = TWaiting /\ nth_error (tasks (fst (grant fuel s acc))) j = Some (granted t)).
Proof.
  intros W0.
  apply (grant_ind (fun s1 _ => wait_ok s1 /\ forall j t, nth_error (tasks s) j = Some t ->
           nth_error (tasks s1) j = Some t \/ (t_st t = TWaiting /\ nth_error (tasks s1) j = Some (granted t)))).
  2: split; auto.
  intros s1 acc1 k r fr t [[ND Wt] X1] Hw Hf Ht. rewrite Hw in ND, Wt.
  destruct (Wt k (or_introl eq_refl)) as (t0 & Et0 & St0). rewrite Ht in Et0. injection Et0 as <-.
  split.
  - split; rewrite grant1_wait; [inversion ND; auto|].
    intros j Hj. rewrite (grant1_tasks _ _ _ _ _ Ht). rewrite nth_error_upd_nth_neq.
    + apply Wt. right; auto.
    + intros <-. inversion ND; auto.
  - intros j tj Ej. rewrite (grant1_tasks _ _ _ _ _ Ht), nth_error_upd_nth.
    destruct (Nat.eqb_spec k j) as [<-|N]; [|auto].
    destruct (X1 _ _ Ej) as [H|[Sw H]]; rewrite Ht in H; injection H as ->.
    + right. split; auto. rewrite Ht. reflexivity.
    + exfalso. unfold granted in St0. cbn in St0. destruct (t_builtin tj); discriminate.
Qed.

(** * stopLocked while running, field by field *)
Definition owner_in (us : list (bytes * nat)) (j : nat) : bool := existsb (fun p => snd p =? j) us.

Lemma owner_in_spec us j : owner_in us j = true <-> exists id, In (id, j) us.
Proof.
  unfold owner_in. rewrite existsb_exists. split.
  - intros ([id k] & I & E). cbn in E. apply Nat.eqb_eq in E. subst. eauto.
  - intros (id & I). exists (id, j). split; auto. cbn. apply Nat.eqb_refl.
Qed.

Record stop_run (c : stopcause) (s s' : state) : Prop := {
  sr_err : stop_err s' = Some c;
  sr_running : running s' = false;
  sr_wc : work_closed s' = true;
  sr_closes : closes s' = S (closes s);
  sr_starts : starts s' = starts s;
  sr_crash : crash s' = if work_closed s then Some CrCloseOfClosedWork else crash s;
  sr_inq : inq s' = stop_queue (inq s);
  sr_used : used s' = [];
  sr_waits : waits s' = waits s;
  sr_wg : wg s' = wg s;
  sr_rd : rd s' = rd s;
  sr_dp : dp s' = dp s;
  sr_units : units s' = units s;
  sr_nbar : nbar s' = nbar s;
  sr_free : sem_free s' = sem_free s;
  sr_ops : ops s' = ops s;
  sr_chin : ch_in s' = if c_unblock s then ch_in s ++ [FErr SCClosing] else ch_in s;
  sr_cfg : c_K s' = c_K s /\ c_push s' = c_push s /\ c_builtin s' = c_builtin s /\ c_methods s' = c_methods s /\
           c_unblock s' = c_unblock s;
  sr_callid : call_id s' = call_id s /\ calls s' = calls s /\ send_fail s' = send_fail s /\ ended s' = ended s;
  sr_len : length (tasks s') = length (tasks s);
  sr_tasks : forall j t, nth_error (tasks s) j = Some t ->
               nth_error (tasks s') j = Some (if owner_in (used s) j then cancel_fn t else t)
}.

Lemma stop_locked_run c s s' os : running s = true -> stop_locked c s = (s', os) -> os = [OClose] /\ stop_run c s s'.
Proof.
  unfold stop_locked. intros R. rewrite R. cbn [negb]. intros H.
  match type of H with (?x, _) = _ => assert (Hs : s' = x) by congruence end.
  split; [congruence|]. clear H.
  match type of Hs with context [fold_left ?f ?l ?s0] =>
    pose proof (nontask_fold l s0) as Nt; pose proof (fold_cancel_nth l s0) as Tn;
    pose proof (fold_cancel_spec l s0) as Fc; cbv zeta in Fc;
    set (s4 := fold_left f l s0) in *; set (s3 := s0) in * end.
  destruct Fc as (_ & _ & L & _ & F & U).
  apply nontask_fields in Nt.
  assert (T3 : tasks s3 = tasks s /\ used s3 = used s /\ sem_free s3 = sem_free s /\ closes s3 = S (closes s) /\
               starts s3 = starts s /\ work_closed s3 = true /\ inq s3 = stop_queue (inq s) /\
               crash s3 = (if work_closed s then Some CrCloseOfClosedWork else crash s) /\
               waits s3 = waits s /\ wg s3 = wg s /\ rd s3 = rd s /\ dp s3 = dp s /\ units s3 = units s /\
               nbar s3 = nbar s /\ ops s3 = ops s /\ ch_in s3 = ch_in s /\ c_unblock s3 = c_unblock s /\
               (c_K s3 = c_K s /\ c_push s3 = c_push s /\ c_builtin s3 = c_builtin s /\ c_methods s3 = c_methods s) /\
               (call_id s3 = call_id s /\ calls s3 = calls s /\ send_fail s3 = send_fail s /\ ended s3 = ended s)).
  { unfold s3. cbn. destruct (work_closed s) eqn:Wc; cbn; repeat split; auto. }
  destruct T3 as (T3 & U3 & F3 & C3 & S3 & W3 & I3 & Cr3 & Wa3 & G3 & R3 & D3 & Un3 & B3 & O3 & Ch3 & Ub3 & Cf3 & Ci3).
  change (used s3) with (used s3) in Tn.
  assert (Tn' : forall j t, nth_error (tasks s) j = Some t ->
            nth_error (tasks s4) j = Some (if owner_in (used s) j then cancel_fn t else t)).
  { intros j t E. rewrite <- T3 in E. rewrite (Tn _ _ E). unfold owner_in.
    replace (used s) with (used s3) by exact U3. reflexivity. }
  destruct Nt as (N1 & N2 & N3 & N4 & N5 & N6 & N7 & N8 & N9 & N10 & N11 & N12 & N13 & N14 & N15 & N16 & N17 &
                  N18 & N19 & N20 & N21 & N22 & N23 & N24 & N25).
  clearbody s4. clearbody s3. subst s'.
  destruct Cf3 as (K1 & K2 & K3 & K4). destruct Ci3 as (J1 & J2 & J3 & J4).
  assert (Ub : c_unblock s4 = c_unblock s) by congruence.
  cbn. rewrite Ub.
  destruct (c_unblock s) eqn:Ubs; constructor; cbn; rewrite ?Ubs; auto; try congruence.
  all: try (repeat split; congruence).
Qed.

(** * What one critical section does to one task *)
Inductive tchg (s : state) (l : label) (k : nat) (t : task) : task -> Prop :=
| tc_same : tchg s l k t t
| tc_cancel : owner_in (used s) k = true ->
    (forall n, l <> LRelAcquire n) -> (forall n, l <> LRelHandled n) -> (forall p o, l <> LGate p o) ->
    tchg s l k t (cancel_fn t)
| tc_gate p o : l = LGate p o -> t_st t = TRunning -> tchg s l k t (t <| t_st := TAtHandled o |>)
| tc_acq_cancelled : l = LRelAcquire k -> t_st t = TAtAcquire -> unit_running s t = true -> t_cancelled t = true ->
    tchg s l k t (t <| t_st := TDone (Some cancel_err) |>)
| tc_acq x : l = LRelAcquire k -> t_st t = TAtAcquire -> unit_running s t = true -> t_cancelled t = false ->
    x = TWaiting \/ x = TRunning \/ x = TAtHandled (ORes []) -> tchg s l k t (t <| t_st := x |>)
| tc_handled o : l = LRelHandled k -> t_st t = TAtHandled o ->
    tchg s l k t (t <| t_st := TDone (body_of_outcome t o) |>)
| tc_grant j : l = LRelHandled j -> j <> k -> t_st t = TWaiting -> tchg s l k t (granted t).

Definition tchg_all (s : state) (l : label) (s' : state) : Prop :=
  forall k t, nth_error (tasks s) k = Some t -> exists t', nth_error (tasks s') k = Some t' /\ tchg s l k t t'.

Lemma tchg_same_tasks s l s' : tasks s' = tasks s -> tchg_all s l s'.
Proof. intros T k t E. rewrite T. exists t. split; auto. constructor. Qed.

Lemma tchg_stop s s0 l c s' : tasks s0 = tasks s -> used s0 = used s -> stop_run c s0 s' ->
  (forall n, l <> LRelAcquire n) -> (forall n, l <> LRelHandled n) -> (forall p o, l <> LGate p o) -> tchg_all s l s'.
Proof.
  intros T U P N1 N2 N3 k t E. rewrite <- T in E. rewrite (sr_tasks _ _ _ P _ _ E). rewrite U.
  destruct (owner_in (used s) k) eqn:O; eexists; split; eauto; [apply tc_cancel; auto|constructor].
Qed.

Lemma raw_tchg s l s' os : inv s -> step_raw s l = Some (s', os) -> tchg_all s l s'.
Proof.
  intros I H. destruct (frame_label l) eqn:Fl.
  { apply step_raw_frame in H as (C & _); auto. unfold core in C. injection C as T _. apply tchg_same_tasks; auto. }
  destruct l; try discriminate Fl; unfold step_raw in H.
  - (* LStart *)
    destruct (negb (running s) && (wg s =? 0)); [|discriminate]. injection H as <- <-. apply tchg_same_tasks; auto.
  - (* LGate *)
    destruct (find_idx _ 0 (tasks s)) as [k|] eqn:F; [|discriminate].
    destruct (nth_error (tasks s) k) as [t|] eqn:E; [|discriminate]. injection H as <- <-.
    apply find_idx_some in F as (x & Ex & Px & _). rewrite Nat.sub_0_r, E in Ex. injection Ex as <-.
    apply andb_true_iff in Px as [_ Px]. destruct (t_st t) eqn:St; try discriminate.
    intros j tj Ej. cbn. rewrite nth_error_upd_nth, Ej. destruct (Nat.eqb_spec k j) as [<-|N]; cbn.
    + rewrite E in Ej. injection Ej as <-. eexists; split; eauto. eapply tc_gate; eauto.
    + eexists; split; eauto. constructor.
  - (* LRelRead *)
    destruct (rd s) as [| |f|] eqn:Rd; try discriminate. injection H as H.
    destruct f as [i|i|c].
    3:{ cbn in H. destruct (stop_locked c s) as [s0 os0] eqn:St. injection H as <- <-.
        destruct (running s) eqn:Rn.
        - apply stop_locked_run in St as [_ P]; auto.
          intros k t E. destruct (tchg_stop s s LRelRead c s0 eq_refl eq_refl P) with (k := k) (t := t) as (t' & E' & X);
            auto; try discriminate. exists t'. split; auto.
        - apply stop_locked_spec in St as [(_ & -> & _)|(Rn' & _)]; [|congruence]. apply tchg_same_tasks; auto. }
    all: destruct (running s) eqn:Rn;
      [ eapply read_cs_msg in H as (C & _); eauto; unfold core0 in C; injection C as T _; apply tchg_same_tasks; auto
      | cbn in H; rewrite Rn in H; cbn in H; injection H as <- <-; apply tchg_same_tasks; auto ].
  - (* LRelNext *)
    destruct (dp s); try discriminate. injection H as <- <-.
    intros k t E. exists t. split; [|constructor].
    unfold dequeue. destruct (inq s) as [|[b ms] q]; [destruct (running s); auto|].
    cbn. apply nth_error_app_old; auto.
  - (* LRelBarrier *)
    destruct (dp s); try discriminate. injection H as <- <-. apply tchg_same_tasks; auto.
  - (* LRelAcquire *)
    destruct (nth_error (tasks s) k) as [t|] eqn:E; [|discriminate].
    destruct (t_st t) eqn:St; try discriminate.
    destruct (unit_running s t) eqn:Ur; cbn [negb] in H; [|discriminate].
    assert (X : forall x s1, tasks s1 = upd_nth k (fun t => t <| t_st := x |>) (tasks s) ->
              tchg s (LRelAcquire k) k t (t <| t_st := x |>) -> tchg_all s (LRelAcquire k) s1).
    { intros x s1 T Hx j tj Ej. rewrite T, nth_error_upd_nth, Ej. destruct (Nat.eqb_spec k j) as [<-|N]; cbn.
      - rewrite E in Ej. injection Ej as <-. eexists; split; eauto.
      - eexists; split; eauto. constructor. }
    destruct (t_cancelled t) eqn:Cn; [injection H as <- <-; eapply X; [reflexivity|apply tc_acq_cancelled; auto]|].
    destruct (sem_free s); [injection H as <- <-; eapply X; [reflexivity|apply tc_acq; auto]|].
    destruct (sem_wait s); [|injection H as <- <-; eapply X; [reflexivity|apply tc_acq; auto]].
    destruct (t_builtin t) eqn:B; injection H as <- <-; (eapply X; [reflexivity|apply tc_acq; auto]).
  - (* LRelHandled *)
    destruct (nth_error (tasks s) k) as [t|] eqn:E; [|discriminate].
    destruct (t_st t) eqn:St; try discriminate.
    set (s0 := set_task k (fun t => t <| t_st := TDone (body_of_outcome t o) |>) s <| sem_free ::= S |>) in *.
    assert (W0 : wait_ok s0).
    { unfold wait_ok, s0; cbn. apply wait_ok_upd; [apply I|]. eapply wait_not_in; eauto; [apply I|congruence]. }
    pose proof (grant_nth (S (length (sem_wait s0))) s0 [] W0) as G.
    destruct (grant (S (length (sem_wait s0))) s0 []) as [s2 os2]. cbn [fst] in G.
    assert (X2 : tchg_all s (LRelHandled k) s2).
    { intros j tj Ej.
      assert (E0 : nth_error (tasks s0) j = Some (if k =? j then tj <| t_st := TDone (body_of_outcome tj o) |> else tj)).
      { unfold s0. cbn. rewrite nth_error_upd_nth, Ej. destruct (k =? j); reflexivity. }
      destruct (Nat.eqb_spec k j) as [<-|N].
      - rewrite E in Ej. injection Ej as <-.
        destruct (G _ _ E0) as [H2|[Sw _]]; [|discriminate Sw].
        eexists; split; eauto. eapply tc_handled; eauto.
      - destruct (G _ _ E0) as [H2|[Sw H2]]; eexists; split; eauto; [constructor|eapply tc_grant; eauto]. }
    destruct (is_note t); [destruct (nbar s2)|]; injection H as <- <-; exact X2.
  - (* LRelDeliver *)
    destruct (nth_error (units s) u) as [un|] eqn:E; [|discriminate].
    destruct (u_st un) eqn:Su; try discriminate.
    assert (X : tchg_all s (LRelDeliver u) (release_ids (unit_tasks s u) s)).
    { intros j tj Ej. destruct (release_ids_nth (unit_tasks s u) s j tj Ej) as [H2|[Ow H2]]; eexists; split; eauto.
      - constructor.
      - apply tc_cancel; try discriminate. apply owner_in_spec; auto. }
    destruct (u_chok un); cbn in H; injection H as <- <-; exact X.
  - (* LRelStop *)
    destruct (find_op n (ops s)) as [[n0|n0 id|n0 w m p]|]; try discriminate.
    destruct (stop_locked SCStop (s <| ops ::= del_op n |>)) as [s0 os0] eqn:St. injection H as <- <-.
    destruct (running s) eqn:Rn.
    + apply stop_locked_run in St as [_ P]; auto. apply (tchg_stop s (s <| ops ::= del_op n |>) (LRelStop n) SCStop s0); auto; discriminate.
    + apply stop_locked_spec in St as [(_ & -> & _)|(Rn' & _)]; [|cbn in Rn'; congruence]. apply tchg_same_tasks; auto.
  - (* LRelCancel *)
    destruct (find_op n (ops s)) as [[n0|n0 id|n0 w m p]|]; try discriminate.
    injection H as <- <-. set (s1 := s <| ops ::= del_op n |>). change (used s1) with (used s).
    destruct (assoc id (used s)) as [owner|] eqn:A; [|apply tchg_same_tasks; auto].
    intros j tj Ej.
    rewrite (cancel_task_nth owner s1 j tj Ej).
    destruct (Nat.eqb_spec owner j) as [->|N]; eexists; split; eauto; [|constructor].
    apply tc_cancel; try discriminate. apply owner_in_spec. exists id. apply assoc_in; auto.
Qed.

(* every case moves the task forward *)
Lemma tchg_le s l k t t' : tchg s l k t t' -> task_le t t'.
Proof.
  destruct 1 as [| | p o _ St | _ St _ _ | x _ St _ _ Hx | o _ St | j _ _ St].
  - apply task_le_refl.
  - apply cancel_fn_le.
  - apply task_le_st. rewrite St. apply st_le_rank; cbn; try congruence; lia.
  - apply task_le_st. rewrite St. apply st_le_rank; cbn; try congruence; lia.
  - apply task_le_st. rewrite St. destruct Hx as [->|[->| ->]]; apply st_le_rank; cbn; try congruence; lia.
  - apply task_le_st. rewrite St. repeat split; cbn; try lia; try congruence.
  - unfold granted. apply task_le_st. rewrite St. destruct (t_builtin t); apply st_le_rank; cbn; try congruence; lia.
Qed.

(** * What one critical section does to the control fields *)
Definition same5 (s s' : state) : Prop :=
  running s' = running s /\ stop_err s' = stop_err s /\ work_closed s' = work_closed s /\
  closes s' = closes s /\ starts s' = starts s.
Definition ctlp (s : state) := (dp s, inq s, rd s, wg s, units s).

Lemma same5_refl s : same5 s s.
Proof. repeat split. Qed.

Inductive stop_cause (s : state) : label -> stopcause -> Prop :=
| sc_stop n : stop_cause s (LRelStop n) SCStop
| sc_read c : rd s = RHold (FErr c) -> stop_cause s LRelRead c.

Inductive ctl_eff (s : state) (l : label) (s' : state) : Prop :=
| CE_start : l = LStart -> running s = false -> wg s = 0 ->
    s' = (s <| running := true |> <| starts ::= S |> <| stop_err := None |> <| work_closed := false |>
            <| wg := 2 |> <| rd := RIdle |> <| dp := DAtNext |> <| ch_in := [] |>) -> ctl_eff s l s'
| CE_stop c s0 s1 : stop_cause s l c -> running s = true ->
    s0 = s \/ (exists n, s0 = s <| ops ::= del_op n |>) -> stop_run c s0 s1 ->
    s' = s1 \/ (l = LRelRead /\ s' = s1 <| rd := RExited |> <| wg ::= pred |>) -> ctl_eff s l s'
| CE_read_stopped f : l = LRelRead -> rd s = RHold f -> running s = false ->
    s' = s <| rd := RExited |> <| wg ::= pred |> -> ctl_eff s l s'
| CE_read_msg f i : l = LRelRead -> rd s = RHold f -> f = FMsg i \/ f = FMsgEOF i -> running s = true ->
    same5 s s' -> core0 s' = core0 s -> rd s' = RIdle -> waits s' = waits s ->
    (inq s' = inq s /\ crash s' = crash s) \/
    (exists b keep, keep <> [] /\ inq s' = inq s ++ [(b, keep)] /\
        crash s' = (if work_closed s && (length (inq s') =? 1) then Some CrSendOnClosedWork else crash s)) ->
    ctl_eff s l s'
| CE_next : l = LRelNext -> dp s = DAtNext -> s' = dequeue s -> ctl_eff s l s'
| CE_barrier u : l = LRelBarrier -> dp s = DAtBarrier u -> s' = s <| dp := DBarrierWait u |> -> ctl_eff s l s'
| CE_deliver u un s1 : l = LRelDeliver u -> nth_error (units s) u = Some un -> u_st un = UAtDeliver ->
    s1 = release_ids (unit_tasks s u) s ->
    (u_chok un = false /\ s' = s1 <| crash := Some CrNilChannel |>) \/
    (u_chok un = true /\ s' = set_unit u (fun x => x <| u_st := UFinished |>) s1 <| wg ::= pred |>) ->
    ctl_eff s l s'
| CE_other : same5 s s' -> ctlp s' = ctlp s ->
    (waits s' = waits s \/ l = LCallWait /\ waits s' = S (waits s)) ->
    (crash s' = crash s \/ (exists k, l = LRelHandled k) /\ crash s' = Some CrNegativeBarrier) ->
    ctl_eff s l s'.

Lemma nontask_same5 s s' : nontask s' = nontask s -> same5 s s'.
Proof. intros H. apply nontask_fields in H. unfold same5. tauto. Qed.

Lemma filter_batch_ctl ms : forall s keep acc s' keep' os,
  filter_batch ms s keep acc = (s', keep', os) ->
  same5 s s' /\ waits s' = waits s /\ crash s' = crash s /\ inq s' = inq s /\ (keep <> [] -> keep' <> []).
Proof.
  induction ms as [|m r IH]; cbn; intros s keep acc s' keep' os H.
  - injection H as <- <- _. split; [apply same5_refl|]. split; auto. split; auto. split; auto.
    intros N Z. apply (f_equal (@rev _)) in Z. rewrite rev_involutive in Z. auto.
  - destruct (is_req_or_notif m).
    { destruct (IH _ _ _ _ _ _ H) as (A & B & C & D & E). split; [exact A|]. split; [exact B|]. split; [exact C|]. split; [exact D|]. intros _. apply E. discriminate. }
    destruct (assoc (fix_id (j_id m)) (calls s)) as [i|].
    + destruct (complete_cb i _ s) as [s1 os1] eqn:C.
      apply IH in H. destruct H as ((A1 & A2 & A3 & A4 & A5) & B & Cc & D & E).
      unfold complete_cb in C. unfold same5.
      destruct (nth_error (cbs s) i); injection C as <- _; cbn in *; tauto.
    + destruct (c_push s && is_nil (j_method m) && has_reply_fields m).
      * eapply IH; eauto.
      * destruct (IH _ _ _ _ _ _ H) as (A & B & C & D & E). split; [exact A|]. split; [exact B|]. split; [exact C|]. split; [exact D|]. intros _. apply E. discriminate.
Qed.

Lemma raw_ctl s l s' os : inv s -> step_raw s l = Some (s', os) -> ctl_eff s l s'.
Proof.
  intros I H. destruct l; unfold step_raw in H.
  - (* LStart *)
    destruct (negb (running s) && (wg s =? 0)) eqn:C; [|discriminate]. injection H as <- <-.
    apply andb_true_iff in C as [C1 C2]. apply negb_true_iff in C1. apply Nat.eqb_eq in C2.
    apply CE_start; auto.
  - injection H as <- <-. apply CE_other; auto; repeat split.
  - injection H as <- <-. apply CE_other; auto; repeat split.
  - destruct (find_idx _ 0 (tasks s)) as [k|]; [|discriminate].
    destruct (nth_error (tasks s) k) as [t|]; [|discriminate]. injection H as <- <-.
    apply CE_other; auto; repeat split.
  - injection H as <- <-. apply CE_other; auto; repeat split.
  - injection H as <- <-. apply CE_other; auto; repeat split.
  - destruct (c_push s); injection H as <- <-; apply CE_other; auto; repeat split.
  - injection H as <- <-. apply CE_other; auto; repeat split.
  - destruct (find_idx _ 0 (cbs s)); injection H as <- <-; apply CE_other; auto; repeat split.
  - (* LRelRead *)
    destruct (rd s) as [| |f|] eqn:Rd; try discriminate. injection H as H.
    destruct (running s) eqn:Rn.
    2:{ eapply CE_read_stopped; eauto.
        destruct f as [i|i|c]; cbn in H; rewrite ?Rn in H; cbn in H; try (injection H as <- <-; reflexivity).
        unfold stop_locked in H. rewrite Rn in H. cbn in H. injection H as <- <-. reflexivity. }
    destruct f as [i|i|c].
    3:{ cbn in H. destruct (stop_locked c s) as [s0 os0] eqn:St. injection H as <- <-.
        apply stop_locked_run in St as [_ P]; auto.
        eapply (CE_stop s LRelRead _ c s s0); eauto. constructor; auto. }
    all: assert (H' : read_cs (FMsg i) s = (s', os)) by (cbn in *; exact H).
    all: pose proof (read_cs_msg (FMsg i) i s s' os (or_introl eq_refl) Rn H') as (C0 & Ri & Wc & Op).
    all: eapply (CE_read_msg s LRelRead s' _ i); eauto.
    all: clear H; cbn in H'; rewrite Rn in H'; cbn in H'.
    all: destruct i as [|b ms]; [cbn in H'; injection H' as <- <-; repeat split; auto|].
    all: destruct ms as [|m ms]; [cbn in H'; injection H' as <- <-; repeat split; auto|].
    all: destruct (filter_batch (m :: ms) s [] []) as [[s1 keep] os1] eqn:F.
    all: apply filter_batch_ctl in F as ((A1 & A2 & A3 & A4 & A5) & B & Cc & D & _).
    all: destruct keep as [|k0 kr]; [injection H' as <- <-; cbn; repeat split; auto|].
    all: cbv zeta in H'.
    all: match type of H' with (if ?c then _ else _) = _ => destruct c eqn:Cnd end; injection H' as <- <-; cbn in *.
    all: repeat split; auto.
    all: right; exists b, (k0 :: kr); rewrite D, A3 in *; rewrite Cnd; repeat split; auto; discriminate.
  - (* LRelNext *)
    destruct (dp s) eqn:D; try discriminate. injection H as <- <-. apply CE_next; auto.
  - destruct (dp s) eqn:D; try discriminate. injection H as <- <-. eapply CE_barrier; eauto.
  - (* LRelAcquire *)
    destruct (nth_error (tasks s) k) as [t|]; [|discriminate].
    destruct (t_st t); try discriminate.
    destruct (negb (unit_running s t)); [discriminate|].
    destruct (t_cancelled t); [injection H as <- <-; apply CE_other; auto; repeat split|].
    destruct (sem_free s); [injection H as <- <-; apply CE_other; auto; repeat split|].
    destruct (sem_wait s); [|injection H as <- <-; apply CE_other; auto; repeat split].
    destruct (t_builtin t); injection H as <- <-; apply CE_other; auto; repeat split.
  - (* LRelHandled *)
    destruct (nth_error (tasks s) k) as [t|] eqn:E; [|discriminate].
    destruct (t_st t) eqn:St; try discriminate.
    set (s0 := set_task k (fun t => t <| t_st := TDone (body_of_outcome t o) |>) s <| sem_free ::= S |>) in *.
    pose proof (nontask_grant (S (length (sem_wait s0))) s0 []) as G.
    destruct (grant (S (length (sem_wait s0))) s0 []) as [s2 os2]. cbn [fst] in G.
    assert (G0 : nontask s2 = nontask s) by (rewrite G; reflexivity).
    pose proof (nontask_same5 _ _ G0) as S5. apply nontask_fields in G0.
    destruct G0 as (N1 & N2 & N3 & N4 & N5 & N6 & N7 & N8 & N9 & N10 & N11 & N12 & N13 & N14 & N15 & N16 & N17 &
                  N18 & N19 & N20 & N21 & N22 & N23 & N24 & N25).
    assert (Cp : ctlp s2 = ctlp s) by (unfold ctlp; congruence).
    destruct (is_note t); [destruct (nbar s2) eqn:Nb|]; injection H as <- <-.
    + apply CE_other; auto. right. split; eauto.
    + apply CE_other; auto.
    + apply CE_other; auto.
  - (* LRelDeliver *)
    destruct (nth_error (units s) u) as [un|] eqn:E; [|discriminate].
    destruct (u_st un) eqn:Su; try discriminate.
    eapply (CE_deliver s _ s' u un); eauto.
    destruct (u_chok un); cbn in H; injection H as <- <-; auto.
  - (* LRelStop *)
    destruct (find_op n (ops s)) as [[n0|n0 id|n0 w m p]|]; try discriminate.
    destruct (stop_locked SCStop (s <| ops ::= del_op n |>)) as [s0 os0] eqn:St. injection H as <- <-.
    destruct (running s) eqn:Rn.
    + apply stop_locked_run in St as [_ P]; auto.
      eapply (CE_stop s _ s0 SCStop (s <| ops ::= del_op n |>) s0); eauto. constructor.
    + apply stop_locked_spec in St as [(_ & -> & _)|(Rn' & _)]; [|cbn in Rn'; congruence].
      apply CE_other; auto; repeat split.
  - (* LRelCancel *)
    destruct (find_op n (ops s)) as [[n0|n0 id|n0 w m p]|]; try discriminate.
    injection H as <- <-. set (s1 := s <| ops ::= del_op n |>). change (used s1) with (used s).
    destruct (assoc id (used s)) as [owner|]; [|apply CE_other; auto; repeat split].
    pose proof (nontask_cancel owner s1) as G.
    pose proof (nontask_same5 _ _ G) as S5. apply nontask_fields in G.
    destruct G as (N1 & N2 & N3 & N4 & N5 & N6 & N7 & N8 & N9 & N10 & N11 & N12 & N13 & N14 & N15 & N16 & N17 &
                  N18 & N19 & N20 & N21 & N22 & N23 & N24 & N25).
    apply CE_other; auto. unfold ctlp. rewrite N14, N15, N13, N21, N16. reflexivity.
  - (* LRelPush *)
    destruct (find_op n (ops s)) as [[| |n0 wantid m p]|]; try discriminate.
    cbn in H. destruct (running s); cbn in H; [|injection H as <- <-; apply CE_other; auto; repeat split].
    destruct wantid; [|injection H as <- <-; apply CE_other; auto; repeat split].
    destruct (send_fail s); [injection H as <- <-; apply CE_other; auto; repeat split|].
    destruct (find _ (ended s)) as [[? ?]|]; injection H as <- <-; apply CE_other; auto; repeat split.
  - (* LRelCbWatch *)
    destruct (nth_error (cbs s) c) as [cb0|]; [|discriminate].
    destruct (cb_watch cb0); try discriminate.
    cbn in H.
    destruct (assoc (cb_id cb0) (calls s)) as [j|]; [|injection H as <- <-; apply CE_other; auto; repeat split].
    destruct (cb_slot cb0); [injection H as <- <-; apply CE_other; auto; repeat split|].
    destruct (j =? c); [|injection H as <- <-; apply CE_other; auto; repeat split].
    destruct (match cb_ctx cb0 with Some WDeadline => _ | _ => _ end) as [code msg].
    injection H as H. unfold complete_cb in H. cbn in H.
    destruct (nth_error (upd_nth c _ (cbs s)) c); injection H as <- <-; apply CE_other; auto; repeat split.
Qed.
