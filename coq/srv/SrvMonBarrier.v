(* SrvMonBarrier: soundness of [mon_barrier] (srv/SrvMonitors.v) for every run of the server model.

   Ghost structure.  [groups s] lists, in arrival order, the members (id, method, params) of: the dispatch units
   (one group per unit), the queued messages, the record the reader holds, the records still in the channel.
   Invariant: [emb (groups s) F] for F = the fed messages so far - a monotone map from the groups of the state
   to the fed messages, every group included in its image (a stop splits a queued batch into one message per
   retained notification: several groups may map to the same fed message; records are dropped at a restart, members
   by the reader's filter).  With unique tokens this gives: token q fed in an earlier message than token r
   => unit of q's task < unit of r's task; C03 ([notification_before_later], srv/SrvC03.v) does the rest. *)
From Coq Require Import List NArith ZArith Bool Arith Lia.
From RecordUpdate Require Import RecordUpdate.
From JV Require Import Bytes Msg SrvModel SrvLemmas SrvBasics SrvC01 SrvHist SrvC03 SrvMonitors.
Import ListNotations.

(** * monotone embeddings of lists of groups *)
Section Emb.
Context {A : Type}.
Inductive emb : list (list A) -> list (list A) -> Prop :=
| emb_nil F : emb [] F
| emb_skip G f F : emb G F -> emb G (f :: F)
| emb_take g G f F : incl g f -> emb G (f :: F) -> emb (g :: G) (f :: F).

Lemma emb_refl G : emb G G.
Proof. induction G as [|g G IH]; [constructor|]. apply emb_take; [apply incl_refl|apply emb_skip; auto]. Qed.

Lemma emb_front F0 : forall G F, emb G F -> emb G (F0 ++ F).
Proof. induction F0 as [|f F0 IH]; intros G F H; cbn; auto. apply emb_skip; auto. Qed.

Lemma emb_app G G' F F' : emb G F -> emb G' F' -> emb (G ++ G') (F ++ F').
Proof.
  intros H H'. induction H as [F|G f F H IH|g G f F Hi H IH]; cbn.
  - apply emb_front; auto.
  - apply emb_skip; auto.
  - apply emb_take; auto.
Qed.

Lemma emb_nil_r G : emb G [] -> G = [].
Proof. inversion 1; auto. Qed.

Lemma emb_trans : forall G F, emb G F -> forall G', emb G' G -> emb G' F.
Proof.
  induction 1 as [F|G f F H IH|g G f F Hi H IH]; intros G' H'.
  - apply emb_nil_r in H'. subst. constructor.
  - apply emb_skip; auto.
  - remember (g :: G) as GG eqn:E. induction H' as [F'|G' f' F' H' IH'|g' G' f' F' Hi' H' IH']; subst.
    + constructor.
    + injection E as -> ->. apply IH; auto.
    + injection E as -> ->. apply emb_take; [eapply incl_tran; eauto|]. apply IH'; auto.
Qed.

(* several sub-groups of one group *)
Lemma emb_split gs g : (forall x, In x gs -> incl x g) -> emb gs [g].
Proof.
  induction gs as [|x gs IH]; intros H; [constructor|].
  apply emb_take; [apply H; left; auto|]. apply IH. intros y Hy. apply H. right; auto.
Qed.

Lemma emb_member G F : emb G F -> forall j gj y, nth_error G j = Some gj -> In y gj ->
  exists b fb, nth_error F b = Some fb /\ In y fb.
Proof.
  induction 1 as [F|G f F H IH|g G f F Hi H IH]; intros j gj y Ej Hy.
  - destruct j; discriminate.
  - destruct (IH _ _ _ Ej Hy) as (b & fb & Eb & Hb). exists (S b), fb. auto.
  - destruct j as [|j]; cbn in Ej.
    + injection Ej as <-. exists 0, f. split; auto.
    + eapply IH; eauto.
Qed.

Lemma emb_order G F : emb G F -> forall i j gi gj x y, nth_error G i = Some gi -> nth_error G j = Some gj ->
  i <= j -> In x gi -> In y gj ->
  exists a b fa fb, a <= b /\ nth_error F a = Some fa /\ nth_error F b = Some fb /\ In x fa /\ In y fb.
Proof.
  induction 1 as [F|G f F H IH|g G f F Hi H IH]; intros i j gi gj x y Ei Ej Le Hx Hy.
  - destruct i; discriminate.
  - destruct (IH _ _ _ _ _ _ Ei Ej Le Hx Hy) as (a & b & fa & fb & L & Ea & Eb & Ha & Hb).
    exists (S a), (S b), fa, fb. repeat split; auto. lia.
  - destruct i as [|i]; cbn in Ei.
    + injection Ei as <-. destruct j as [|j]; cbn in Ej.
      * injection Ej as <-. exists 0, 0, f, f. repeat split; auto.
      * destruct (emb_member _ _ H _ _ _ Ej Hy) as (b & fb & Eb & Hb).
        exists 0, b, f, fb. split; [lia|]. repeat split; auto.
    + destruct j as [|j]; [lia|]. cbn in Ej. apply (IH i j gi gj x y Ei Ej); auto. lia.
Qed.
End Emb.

(** * the groups of a state *)
Definition ugroups (s : state) : list (list member) := map snd (unit_hist s).
Definition qgroups (q : list (bool * list jmsg)) : list (list member) := map (fun bm => map jmem (snd bm)) q.
Definition feed_groups (f : feed) : list (list member) := label_groups (LFeed f).
Definition hgroups (r : rdpc) : list (list member) := match r with RHold f => feed_groups f | _ => [] end.
Definition cgroups (q : list feed) : list (list member) := flat_map feed_groups q.
Definition groups (s : state) : list (list member) :=
  ugroups s ++ qgroups (inq s) ++ hgroups (rd s) ++ cgroups (ch_in s).

Lemma groups_same s s' : unit_hist s' = unit_hist s -> inq s' = inq s -> rd s' = rd s -> ch_in s' = ch_in s ->
  groups s' = groups s.
Proof. unfold groups, ugroups. intros -> -> -> ->. reflexivity. Qed.

Lemma qgroups_app a b : qgroups (a ++ b) = qgroups a ++ qgroups b.
Proof. apply map_app. Qed.
Lemma cgroups_app a b : cgroups (a ++ b) = cgroups a ++ cgroups b.
Proof. apply flat_map_app. Qed.

(* the reader's filter keeps a sublist of the members *)
Lemma acc_msg_groups s i : emb (qgroups (acc_msg s i)) (feed_groups (FMsg i)).
Proof.
  unfold acc_msg. destruct i as [|b [|m ms]]; [constructor|constructor|].
  destruct (filter_batch (m :: ms) s [] []) as [[s1 keep] os1] eqn:F.
  apply filter_batch_view in F as (_ & k2 & -> & Sb). cbn [rev app] in *.
  destruct k2 as [|k0 kr]; [constructor|]. cbn.
  apply emb_take; [|constructor]. intros x Hx.
  apply (subl_in _ _ _ (subl_map jmem _ _ Sb)). exact Hx.
Qed.

(* stopLocked keeps the notifications of the queued messages, one message each *)
Lemma stop_queue_groups q : emb (qgroups (stop_queue q)) (qgroups q).
Proof.
  induction q as [|bm q IH]; [constructor|]. rewrite stop_queue_cons, qgroups_app.
  change (qgroups (bm :: q)) with ([map jmem (snd bm)] ++ qgroups q). apply emb_app; auto.
  apply emb_split. intros x Hx. unfold qgroups in Hx. rewrite map_map in Hx. cbn in Hx.
  apply in_map_iff in Hx as (m & <- & Hm). apply filter_In in Hm as [Hm _].
  intros y [<-|[]]. apply in_map. auto.
Qed.

(** * how the groups of the state change *)
Lemma stop_locked_chin c s s' os : stop_locked c s = (s', os) ->
  ch_in s' = ch_in s \/ ch_in s' = ch_in s ++ [FErr SCClosing].
Proof.
  unfold stop_locked. destruct (running s); cbn [negb]; [|intros [= <- <-]; auto].
  intros H.
  match type of H with (?x, _) = _ => assert (Hs : s' = x) by congruence end. clear H.
  match type of Hs with context [fold_left ?f ?l ?s0] =>
    pose proof (fold_cancel_squiet [] l s0) as Fc; set (s4 := fold_left f l s0) in *; set (s3 := s0) in * end.
  assert (C3 : ch_in s3 = ch_in s).
  { unfold s3. destruct (work_closed (s <| closes ::= S |> <| inq ::= stop_queue |>)); reflexivity. }
  destruct Fc as [_ (_ & _ & C4)]. clearbody s4. clearbody s3. subst s'.
  destruct (c_unblock _); cbn; [right|left]; congruence.
Qed.

Lemma stop_locked_hist c s s' os : inv s -> stop_locked c s = (s', os) -> unit_hist s' = unit_hist s.
Proof.
  intros I H. apply stop_locked_spec in H as [(_ & -> & _)|(_ & _ & P)]; auto. destruct P.
  apply unit_hist_stable; [split; [auto|rewrite sp_units; apply units_ext_refl]|auto|congruence].
Qed.

Lemma cgroups_err q : cgroups (q ++ [FErr SCClosing]) = cgroups q.
Proof. rewrite cgroups_app. cbn. apply app_nil_r. Qed.

Lemma feed_groups_eof i : feed_groups (FMsgEOF i) = feed_groups (FMsg i).
Proof. destruct i; reflexivity. Qed.

Lemma dequeue_groups s : inv s -> groups (dequeue s) = groups s.
Proof.
  intros I. destruct (dequeue_counts [] s) as (_ & _ & R & C). unfold groups. rewrite R, C.
  destruct (inq s) as [|[b ms] q] eqn:Q.
  - destruct (dequeue_empty s Q) as [U Iq]. unfold ugroups. rewrite U, Iq. reflexivity.
  - destruct (dequeue_hist s b ms q I Q) as [U Iq]. unfold ugroups. rewrite U, Iq, map_app. cbn.
    rewrite <- app_assoc. reflexivity.
Qed.

Lemma shape_groups s l s1 os : inv s -> step_raw s l = Some (s1, os) -> pend_same s s1 -> groups s1 = groups s.
Proof.
  intros I H (Iq & R & C). destruct (raw_step_ok _ _ _ _ I H) as [_ X].
  destruct (raw_shape_ok _ _ _ _ I H) as [U L| ->|u un _ _ _ U L].
  - apply groups_same; auto. apply unit_hist_stable; auto. congruence.
  - apply dequeue_groups; auto.
  - apply groups_same; auto. apply unit_hist_stable; auto. rewrite U. apply upd_nth_length.
Qed.

(* the critical sections that leave the inbound path alone *)
Definition path_label (l : label) : bool :=
  match l with LStart | LFeed _ | LRelRead | LRelNext | LRelStop _ => true | _ => false end.

Lemma raw_pend s l s1 os : inv s -> step_raw s l = Some (s1, os) -> path_label l = false -> pend_same s s1.
Proof.
  intros I H Pl. destruct (frame_label l) eqn:Fl.
  { destruct (frame_view _ _ _ _ Fl H) as (_ & Iq & R & C & _). repeat split; auto.
    rewrite C. destruct l; cbn in Pl, Fl; try discriminate; apply app_nil_r. }
  destruct l; try discriminate Fl; try discriminate Pl; unfold step_raw in H.
  - destruct (find_idx _ 0 (tasks s)) as [k|]; [|discriminate].
    destruct (nth_error (tasks s) k) as [t|]; [|discriminate]. injection H as <- <-. repeat split.
  - destruct (dp s); try discriminate. injection H as <- <-. repeat split.
  - destruct (nth_error (tasks s) k) as [t|]; [|discriminate].
    destruct (t_st t); try discriminate.
    destruct (negb (unit_running s t)); [discriminate|].
    destruct (t_cancelled t); [injection H as <- <-; repeat split|].
    destruct (sem_free s); [injection H as <- <-; repeat split|].
    destruct (sem_wait s); [|injection H as <- <-; repeat split].
    destruct (t_builtin t); injection H as <- <-; repeat split.
  - destruct (nth_error (tasks s) k) as [t|] eqn:E; [|discriminate].
    destruct (t_st t) eqn:St; try discriminate.
    set (s0 := set_task k (fun t => t <| t_st := TDone (body_of_outcome t o) |>) s <| sem_free ::= S |>) in *.
    assert (W0 : wait_ok s0).
    { unfold wait_ok, s0; cbn. apply wait_ok_upd; [apply I|]. eapply wait_not_in; eauto; [apply I|congruence]. }
    pose proof (grant_counts (S (length (sem_wait s0))) s0 W0) as G.
    destruct (grant (S (length (sem_wait s0))) s0 []) as [s2 os2]. cbn [fst snd] in G.
    destruct G as (_ & (I2 & R2 & C2) & _).
    destruct (is_note t); [destruct (nbar s2)|]; injection H as <- <-; repeat split; cbn; auto.
  - destruct (nth_error (units s) u) as [un|]; [|discriminate].
    destruct (u_st un); try discriminate.
    destruct (release_ids_squiet [] (unit_tasks s u) s) as [_ (I2 & R2 & C2)].
    destruct (u_chok un); cbn in H; injection H as <- <-; repeat split; cbn; auto.
  - destruct (find_op n (ops s)) as [[n0|n0 id|n0 w m p]|]; try discriminate.
    injection H as <- <-. destruct (assoc id _) as [owner|]; [|repeat split].
    destruct (cancel_task_squiet [] owner (s <| ops ::= del_op n |>)) as [_ (I2 & R2 & C2)]. repeat split; auto.
Qed.

Lemma raw_groups s l s1 os : inv s -> step_raw s l = Some (s1, os) -> emb (groups s1) (groups s ++ label_groups l).
Proof.
  intros I H. destruct (path_label l) eqn:Pl.
  2:{ rewrite (shape_groups _ _ _ _ I H (raw_pend _ _ _ _ I H Pl)).
      destruct l; try discriminate Pl; cbn [label_groups]; rewrite app_nil_r; apply emb_refl. }
  destruct l; try discriminate Pl.
  - (* LStart *)
    unfold step_raw in H. destruct (negb (running s) && (wg s =? 0)); [|discriminate]. injection H as <- <-.
    cbn [label_groups]. rewrite app_nil_r. unfold groups, ugroups, unit_hist. cbn [tasks units inq rd ch_in set].
    apply emb_app; [apply emb_refl|]. apply emb_app; [apply emb_refl|]. cbn. constructor.
  - (* LFeed *)
    destruct (frame_view s (LFeed f) s1 os eq_refl H) as (T & Iq & R & C & _).
    destruct (step_raw_frame s (LFeed f) s1 os eq_refl H) as (Co & _). unfold core in Co. injection Co as _ U _ _ _ _ _ _ _ _.
    unfold groups, ugroups, unit_hist. rewrite T, U, Iq, R, C, cgroups_app. cbn [cgroups flat_map].
    rewrite app_nil_r, <- !app_assoc. apply emb_refl.
  - (* LRelRead *)
    unfold step_raw in H. destruct (rd s) as [| |f|] eqn:Rd; try discriminate. injection H as H.
    cbn [label_groups]. rewrite app_nil_r. unfold groups. rewrite Rd.
    destruct f as [i|i|c].
    3:{ cbn in H. destruct (stop_locked c s) as [s0 os0] eqn:St. injection H as <- <-.
        cbn [tasks units inq rd ch_in set hgroups]. unfold ugroups, unit_hist. cbn [tasks units set].
        fold (unit_hist s0). rewrite (stop_locked_hist _ _ _ _ I St).
        apply emb_app; [apply emb_refl|].
        assert (Q : emb (qgroups (inq s0)) (qgroups (inq s))).
        { apply stop_locked_spec in St as [(_ & -> & _)|(_ & _ & P)]; [apply emb_refl|].
          destruct P. rewrite sp_inq. apply stop_queue_groups. }
        apply emb_app; auto. cbn.
        destruct (stop_locked_chin _ _ _ _ St) as [-> | ->]; rewrite ?cgroups_err; apply emb_refl. }
    all: destruct (running s) eqn:Rn;
      [ | cbn in H; rewrite Rn in H; cbn in H; injection H as <- <-;
          unfold ugroups, unit_hist; cbn [tasks units inq rd ch_in set hgroups];
          apply emb_app; [apply emb_refl|]; apply emb_app; [apply emb_refl|]; apply emb_app; [constructor|apply emb_refl] ].
    all: match type of H with read_cs ?f _ = _ =>
           assert (Hf : f = FMsg i \/ f = FMsgEOF i) by auto;
           destruct (read_cs_msg _ _ _ _ _ Hf Rn H) as (C0 & R1 & _);
           pose proof (read_cs_inq _ _ _ _ _ Hf Rn H) as Iq;
           destruct (read_cs_view _ _ _ _ _ Hf Rn H) as (Ci & _) end.
    all: unfold core0 in C0; injection C0 as T U _ _ _ _ _ _ _.
    all: unfold ugroups, unit_hist; rewrite T, U, Iq, R1, Ci, qgroups_app; cbn [hgroups]; rewrite ?feed_groups_eof.
    all: apply emb_app; [apply emb_refl|]; rewrite <- app_assoc; apply emb_app; [apply emb_refl|].
    all: cbn [app]; apply emb_app; [apply acc_msg_groups|apply emb_refl].
  - (* LRelNext *)
    unfold step_raw in H. destruct (dp s); try discriminate. injection H as <- <-.
    cbn [label_groups]. rewrite app_nil_r, dequeue_groups by auto. apply emb_refl.
  - (* LRelStop *)
    unfold step_raw in H.
    destruct (find_op n (ops s)) as [[n0|n0 id|n0 w m p]|]; try discriminate.
    destruct (stop_locked SCStop (s <| ops ::= del_op n |>)) as [s0 os0] eqn:St. injection H as <- <-.
    cbn [label_groups]. rewrite app_nil_r.
    assert (I' : inv (s <| ops ::= del_op n |>)).
    { apply (inv_core0 s); auto. }
    pose proof (stop_locked_hist _ _ _ _ I' St) as Uh.
    destruct (stop_locked_view [] _ _ _ _ St) as (_ & Rs & _ & _).
    unfold groups, ugroups. rewrite Uh, Rs. cbn [rd inq ch_in set].
    change (unit_hist (s <| ops ::= del_op n |>)) with (unit_hist s).
    apply emb_app; [apply emb_refl|].
    assert (Q : emb (qgroups (inq s0)) (qgroups (inq s))).
    { apply stop_locked_spec in St as [(_ & -> & _)|(_ & _ & P)]; [apply emb_refl|].
      destruct P. rewrite sp_inq. apply stop_queue_groups. }
    apply emb_app; auto. apply emb_app; [apply emb_refl|].
    destruct (stop_locked_chin _ _ _ _ St) as [-> | ->]; cbn [ch_in set]; rewrite ?cgroups_err; apply emb_refl.
Qed.

Lemma settle1_groups s s' os : inv s -> settle1 s = Some (s', os) -> groups s' = groups s.
Proof.
  intros I H. destruct (settle1_ok _ _ _ I H) as [_ X]. apply settle1_inv in H.
  destruct H.
  - unfold groups, ugroups, unit_hist. cbn [tasks units inq rd ch_in set hgroups]. rewrite H, H0.
    cbn [hgroups cgroups flat_map app]. reflexivity.
  - apply dequeue_groups; auto.
  - apply groups_same; auto. apply unit_hist_stable; auto. cbn. unfold set_unit. cbn. apply upd_nth_length.
  - apply groups_same; auto. apply unit_hist_stable; auto. cbn. unfold set_unit. cbn. apply upd_nth_length.
  - apply groups_same; auto. apply unit_hist_stable; auto. unfold set_unit. cbn. apply upd_nth_length.
  - apply groups_same; auto.
  - apply groups_same; auto.
Qed.


(** * the invariant along a run *)
Lemma settle_groups c : forall fuel s acc s' os, reachf c s -> settle fuel s acc = (s', os) -> groups s' = groups s.
Proof.
  induction fuel as [|f IH]; cbn; intros s acc s' os R H.
  - injection H as <- _. reflexivity.
  - destruct (settle1 s) as [[s1 os1]|] eqn:E.
    + rewrite (IH _ _ _ _ (rf_settle _ _ _ _ R E) H). apply (settle1_groups _ _ _ (reachf_inv _ _ R) E).
    + injection H as <- _. reflexivity.
Qed.

Lemma step_groups c s l s' os : reachf c s -> step s l = Some (s', os) ->
  emb (groups s') (groups s ++ label_groups l).
Proof.
  intros R H. pose proof (reachf_inv _ _ R) as I.
  apply step_decompose in H as (Cr & s1 & os1 & Hr & Hs).
  pose proof (raw_groups _ _ _ _ I Hr) as G.
  destruct Hs as [(_ & -> & _)|(_ & Hs)]; auto.
  rewrite (settle_groups c _ _ _ _ _ (rf_raw _ _ _ _ _ R Cr Hr) Hs). exact G.
Qed.

Lemma emb_tail {A} (G F X : list (list A)) : emb G F -> emb (G ++ X) (F ++ X).
Proof. intros H. apply emb_app; auto. apply emb_refl. Qed.

Lemma emb_weaken {A} (G F X : list (list A)) : emb G F -> emb G (F ++ X).
Proof. intros H. rewrite <- (app_nil_r G). apply emb_app; auto. constructor. Qed.

Lemma step_emb c s l s' os F : reachf c s -> step s l = Some (s', os) -> emb (groups s) F ->
  emb (groups s') (F ++ label_groups l).
Proof. intros R H E. eapply emb_trans; [apply emb_tail; exact E|eapply step_groups; eauto]. Qed.

Lemma fed_groups_env tr : fed_groups (env_of tr) = flat_map label_groups tr.
Proof.
  induction tr as [|l tr IH]; auto. unfold env_of, fed_groups in *. cbn [filter flat_map].
  destruct l; cbn [is_env flat_map label_groups app]; rewrite IH; reflexivity.
Qed.

(** * tokens *)
Definition gparams (F : list (list member)) : list bytes := map mem_params (concat F).

Lemma fed_params_groups env : fed_params env = gparams (fed_groups env).
Proof.
  unfold fed_params, fed_groups, gparams. induction env as [|l env IH]; auto. cbn [flat_map].
  rewrite concat_app, map_app, <- IH. f_equal.
  destruct l; auto. destruct f as [[|b ms]|[|b ms]|c]; cbn; rewrite ?app_nil_r, ?map_map; auto.
Qed.

Lemma nodupb_NoDup l : nodupb l = true -> NoDup l.
Proof.
  induction l as [|x l IH]; cbn; [constructor|]. intros H. apply andb_true_iff in H as [H1 H2].
  constructor; auto. intros Hi. apply mem_bytes_in in Hi. rewrite Hi in H1. discriminate.
Qed.

Lemma nodup_map_inj {A B} (f : A -> B) l x y : NoDup (map f l) -> In x l -> In y l -> f x = f y -> x = y.
Proof.
  induction l as [|z l IH]; cbn; [tauto|]. intros N Hx Hy E. inversion N as [|? ? Nz Nl]; subst.
  destruct Hx as [<-|Hx], Hy as [<-|Hy]; auto.
  - exfalso. apply Nz. rewrite E. apply in_map; auto.
  - exfalso. apply Nz. rewrite <- E. apply in_map; auto.
Qed.

Lemma has_tok_true p g : has_tok p g = true <-> exists x, In x g /\ mem_params x = p.
Proof.
  unfold has_tok. rewrite existsb_exists. split; intros (x & Hx & E); exists x; split; auto.
  - apply beq_eq in E. auto.
  - apply beq_eq. auto.
Qed.

Lemma tok_idx_spec F : NoDup (gparams F) -> forall a fa x, nth_error F a = Some fa -> In x fa ->
  tok_idx (mem_params x) F = a.
Proof.
  unfold gparams. induction F as [|f F IH]; intros N a fa x Ea Hx; [destruct a; discriminate|].
  cbn [concat] in N. rewrite map_app in N. cbn [tok_idx].
  destruct a as [|a]; cbn in Ea.
  - injection Ea as <-. replace (has_tok (mem_params x) f) with true; auto.
    symmetry. apply has_tok_true. eauto.
  - destruct (has_tok (mem_params x) f) eqn:Ht.
    + exfalso. apply has_tok_true in Ht as (y & Hy & E).
      assert (Hc : In x (concat F)) by (apply in_concat; exists fa; split; [eapply nth_error_In; eauto|auto]).
      clear - N Hy E Hc. induction f as [|z f IHf]; [destruct Hy|]. cbn in N. inversion N as [|? ? Nz Nl]; subst.
      destruct Hy as [->|Hy]; [|auto]. apply Nz. apply in_or_app. right. rewrite E. apply in_map; auto.
    + f_equal. eapply IH; eauto. clear - N. induction f as [|z f IHf]; auto. cbn in N. inversion N; auto.
Qed.

Lemma tok_is_note_spec F q : tok_is_note q F = true ->
  exists m, In m (concat F) /\ mem_params m = q /\ mem_id m = [].
Proof.
  unfold tok_is_note. rewrite existsb_exists. intros (m & Hm & E). apply andb_true_iff in E as [E1 E2].
  apply beq_eq in E1. apply is_nil_true in E2. eauto.
Qed.

(** * from the order of the fed messages to the order of the dispatch units *)
Lemma groups_unit s k t : inv s -> nth_error (tasks s) k = Some t ->
  exists g, nth_error (groups s) (t_unit t) = Some g /\ In (tmem t) g.
Proof.
  intros I E. pose proof (i_unit _ I _ _ E) as Lu.
  destruct (nth_error (units s) (t_unit t)) as [un|] eqn:Eu; [|apply nth_error_None in Eu; lia].
  exists (map tmem (unit_tasks s (t_unit t))). split.
  - unfold groups, ugroups. rewrite nth_error_app1 by (rewrite map_length, unit_hist_length; lia).
    rewrite nth_error_map, (unit_hist_nth _ _ _ Eu). reflexivity.
  - apply in_map. unfold unit_tasks. apply filter_In. split; [eapply nth_error_In; eauto|apply Nat.eqb_refl].
Qed.

Lemma unit_order s F kq tq kr tr : inv s -> emb (groups s) F -> NoDup (gparams F) ->
  nth_error (tasks s) kq = Some tq -> nth_error (tasks s) kr = Some tr ->
  tok_idx (t_params tq) F < tok_idx (t_params tr) F -> t_unit tq < t_unit tr.
Proof.
  intros I E N Eq Er Lt. destruct (Nat.lt_ge_cases (t_unit tq) (t_unit tr)) as [|Ge]; auto. exfalso.
  destruct (groups_unit _ _ _ I Eq) as (gq & Gq & Hq). destruct (groups_unit _ _ _ I Er) as (gr & Gr & Hr).
  destruct (emb_order _ _ E _ _ _ _ _ _ Gr Gq Ge Hr Hq) as (a & b & fa & fb & Le & Ea & Eb & Ha & Hb).
  pose proof (tok_idx_spec F N _ _ _ Ea Ha) as Ia. pose proof (tok_idx_spec F N _ _ _ Eb Hb) as Ib.
  change (mem_params (tmem tr)) with (t_params tr) in Ia. change (mem_params (tmem tq)) with (t_params tq) in Ib. lia.
Qed.

Lemma note_task s F k t : inv s -> emb (groups s) F -> NoDup (gparams F) -> nth_error (tasks s) k = Some t ->
  tok_is_note (t_params t) F = true -> is_note t = true.
Proof.
  intros I E N Et Hn. destruct (groups_unit _ _ _ I Et) as (g & Eg & Hg).
  destruct (emb_member _ _ E _ _ _ Eg Hg) as (b & fb & Eb & Hb).
  assert (Hc : In (tmem t) (concat F)) by (apply in_concat; exists fb; split; [eapply nth_error_In; eauto|auto]).
  apply tok_is_note_spec in Hn as (m & Hm & Ep & Ei).
  assert (m = tmem t) by (eapply (nodup_map_inj mem_params); eauto). subst m.
  unfold is_note. apply is_nil_true. exact Ei.
Qed.

(* the contradiction: a task past the semaphore while a notification of an earlier fed message is not done *)
Lemma barrier_core c s F kq tq kr tr : reach c s -> emb (groups s) F -> NoDup (gparams F) ->
  nth_error (tasks s) kq = Some tq -> nth_error (tasks s) kr = Some tr ->
  tok_is_note (t_params tq) F = true -> tok_idx (t_params tq) F < tok_idx (t_params tr) F ->
  t_pre tq = None -> t_st tr <> TSkip -> t_st tr <> TAtAcquire -> (forall b, t_st tq <> TDone b) -> False.
Proof.
  intros R E N Eq Er Hn Lt Pq S1 S2 Nd.
  pose proof (reachf_inv _ _ (reach_reachf _ _ R)) as I.
  pose proof (unit_order _ _ _ _ _ _ I E N Eq Er Lt) as Lu.
  pose proof (note_task _ _ _ _ I E N Eq Hn) as Nq.
  destruct (notification_before_later c s R kr tr kq tq Er Eq Lu) as (b & Hb); auto.
  - unfold runnable. rewrite Pq. reflexivity.
  - exact (Nd _ Hb).
Qed.


(** * the scan *)
Lemma barrier_scan_app F : forall a seen b,
  barrier_scan F seen (a ++ b) = barrier_scan F seen a && barrier_scan F (rev a ++ seen) b.
Proof.
  induction a as [|o a IH]; intros seen b; cbn [app barrier_scan rev]; auto.
  rewrite IH, <- app_assoc. cbn [app]. rewrite andb_assoc. reflexivity.
Qed.

Lemma barrier_scan_all F : forall os seen,
  (forall a o b, os = a ++ o :: b -> barrier_check F (rev a ++ seen) o = true) -> barrier_scan F seen os = true.
Proof.
  induction os as [|o os IH]; intros seen H; cbn [barrier_scan]; auto.
  apply andb_true_iff. split; [apply (H [] o os eq_refl)|].
  apply IH. intros a o' b E. specialize (H (o :: a) o' b). cbn [rev app] in H. rewrite <- app_assoc in H.
  apply H. rewrite E. reflexivity.
Qed.

Lemma starts_in r os : In r (starts os) <-> exists cn, In (OStart r cn) os.
Proof.
  unfold starts. rewrite in_flat_map. split.
  - intros (o & Ho & Hr). destruct o; cbn in Hr; try tauto. destruct Hr as [<-|[]]. eauto.
  - intros (cn & H). exists (OStart r cn). split; auto. left; auto.
Qed.

Lemma starts_rev r os : In r (starts (rev os)) <-> In r (starts os).
Proof. rewrite !starts_in. split; intros (cn & H); exists cn; [apply in_rev; auto|apply in_rev in H; auto]. Qed.

(* the tokens already started have a task that is past the semaphore *)
Definition started_ok (s : state) (seen : list obs) : Prop :=
  forall r, In r (starts seen) ->
    exists k t, nth_error (tasks s) k = Some t /\ t_params t = r /\ t_st t <> TSkip /\ t_st t <> TAtAcquire /\
                t_st t <> TWaiting.

Lemma past_le t t' : task_le t t' -> t_st t <> TSkip -> t_st t <> TAtAcquire -> t_st t <> TWaiting ->
  t_st t' <> TSkip /\ t_st t' <> TAtAcquire /\ t_st t' <> TWaiting.
Proof.
  intros [_ _ _ _ _ _ _ _ (Rk & Sk & _)] N1 N2 N3.
  repeat split; intros E; rewrite E in *; cbn in *.
  - apply N1, Sk; auto.
  - destruct (t_st t); cbn in Rk; try lia; congruence.
  - destruct (t_st t); cbn in Rk; try lia; congruence.
Qed.

Lemma started_step c s l s1 os seen : reach c s -> step s l = Some (s1, os) -> started_ok s seen ->
  started_ok s1 (rev os ++ seen).
Proof.
  intros R H Inv r Hr. pose proof (reach_reachf _ _ R) as Rf.
  unfold starts in Hr. rewrite flat_map_app in Hr. apply in_app_or in Hr as [Hr|Hr].
  - apply (proj1 (starts_rev _ _)) in Hr. apply (proj1 (starts_in _ _)) in Hr as (cn & Ho).
    destruct (c01_start_origin _ _ _ _ _ _ _ R H Ho) as (k & t & t' & E & E' & Ep & _ & _ & St' & _).
    destruct (step_task_le _ _ _ _ _ _ _ Rf H E) as (t2 & E2 & Le). rewrite E' in E2. injection E2 as <-.
    exists k, t'. destruct Le. rewrite St'. repeat split; try congruence.
  - destruct (Inv _ Hr) as (k & t & E & Ep & N1 & N2 & N3).
    destruct (step_task_le _ _ _ _ _ _ _ Rf H E) as (t' & E' & Le).
    exists k, t'. destruct (past_le _ _ Le N1 N2 N3) as (M1 & M2 & M3). destruct Le. repeat split; auto; congruence.
Qed.

(** * one window *)
Lemma window_barrier c s l s1 os seen F0 rest :
  reach c s -> step s l = Some (s1, os) -> emb (groups s) F0 -> started_ok s seen ->
  NoDup (gparams ((F0 ++ label_groups l) ++ rest)) ->
  barrier_scan ((F0 ++ label_groups l) ++ rest) seen os = true.
Proof.
  intros R H E Inv N. set (F := (F0 ++ label_groups l) ++ rest) in *.
  pose proof (reach_reachf _ _ R) as Rf.
  assert (R1 : reach c s1) by (eapply reach_step; eauto).
  assert (E0 : emb (groups s) F) by (unfold F; rewrite <- app_assoc; apply emb_weaken; auto).
  assert (E1 : emb (groups s1) F) by (unfold F; apply emb_weaken; eapply step_emb; eauto).
  destruct (step_acct _ _ _ _ _ Rf H) as [Sh _].
  apply barrier_scan_all. intros a o b Eo.
  assert (Ho : In o os) by (rewrite Eo; apply in_or_app; right; left; auto).
  (* the task the observation is about: in the state before the window it is not done, and if the observation
     is a handler entry it is in its handler after the window *)
  assert (Core : forall q, (exists cn, o = OStart q cn) \/ (exists cn, o = OGate q cn) ->
            tok_is_note q F = true -> forall r, In r (starts (rev a ++ seen)) -> ~ tok_idx q F < tok_idx r F).
  { intros q Hq Hn r Hr Lt.
    assert (Tq : exists kq tq, nth_error (tasks s) kq = Some tq /\ t_params tq = q /\ t_pre tq = None /\
                   (forall bo, t_st tq <> TDone bo) /\
                   ((exists cn, o = OGate q cn) \/
                    exists tq', nth_error (tasks s1) kq = Some tq' /\ t_params tq' = q /\ t_pre tq' = None /\
                                t_st tq' = TRunning)).
    { destruct Hq as [(cn & ->)|(cn & ->)].
      - destruct (c01_start_origin _ _ _ _ _ _ _ R H Ho) as (k & t & t' & Et & Et' & Ep & _ & Rk & St' & Pr & _).
        exists k, t. repeat split; auto.
        + intros bo Eb. rewrite Eb in Rk. cbn in Rk. lia.
        + right. exists t'. destruct (step_task_le _ _ _ _ _ _ _ Rf H Et) as (t2 & E2 & Le).
          rewrite Et' in E2. injection E2 as <-. destruct Le. repeat split; auto; congruence.
      - destruct l; cbn in Sh; try (exfalso; rewrite Eo, gates_app in Sh; cbn in Sh;
                                    apply app_eq_nil in Sh as [_ Sh]; discriminate).
        destruct Sh as (c0 & extra & Eos & Qe).
        assert (Eq : q = params).
        { rewrite Eos in Ho. destruct Ho as [Ho|Ho]; [congruence|].
          rewrite Forall_forall in Qe. destruct (Qe _ Ho). }
        subst q. destruct (c01_gate_window _ _ _ _ _ H) as (k & t & Et & St & Ep & _).
        exists k, t. repeat split; auto.
        + pose proof (reachf_inv _ _ Rf) as I. destruct (i_pre _ I _ _ Et) as [P _].
          destruct (t_pre t) as [e|]; auto. rewrite (P _ eq_refl) in St. discriminate.
        + intros bo Eb. congruence.
        + left. eauto. }
    destruct Tq as (kq & tq & Etq & Epq & Prq & Ndq & After).
    unfold starts in Hr. rewrite flat_map_app in Hr. apply in_app_or in Hr as [Hr|Hr].
    - (* r started earlier in this window: both are in their handlers after it *)
      apply (proj1 (starts_rev _ _)) in Hr. apply (proj1 (starts_in _ _)) in Hr as (cr & Hr).
      assert (Hor : In (OStart r cr) os) by (rewrite Eo; apply in_or_app; left; auto).
      destruct After as [(cn & ->)|(tq' & Etq' & Epq' & Prq' & Stq')].
      + (* a handler return is the first observation of its window *)
        destruct l; cbn in Sh; try (rewrite Eo, gates_app in Sh; cbn in Sh;
                                    apply app_eq_nil in Sh as [_ Sh]; discriminate).
        destruct Sh as (c0 & extra & Eos & Qe). rewrite Eos in Hor. destruct Hor as [Hor|Hor]; [discriminate|].
        rewrite Forall_forall in Qe. destruct (Qe _ Hor).
      + destruct (c01_start_origin _ _ _ _ _ _ _ R H Hor) as (k & t & t' & Et & Et' & Ep & _ & _ & St' & _).
        destruct (step_task_le _ _ _ _ _ _ _ Rf H Et) as (t2 & E2 & Le). rewrite Et' in E2. injection E2 as <-.
        assert (Ep' : t_params t' = r) by (destruct Le; congruence).
        apply (barrier_core c s1 F kq tq' k t' R1 E1 N Etq' Et'); rewrite ?Epq', ?Ep'; auto; try congruence.
    - destruct (Inv _ Hr) as (k & t & Et & Ep & N1 & N2 & N3).
      apply (barrier_core c s F kq tq k t R E0 N Etq Et); rewrite ?Epq, ?Ep; auto. }
  destruct o; cbn [barrier_check]; auto.
  - destruct (tok_is_note params F) eqn:Hn; cbn [negb orb]; auto.
    apply forallb_forall. intros r Hr. apply negb_true_iff, Nat.ltb_ge.
    assert (~ tok_idx params F < tok_idx r F) by (eapply Core; eauto). lia.
  - destruct (tok_is_note params F) eqn:Hn; cbn [negb orb]; auto.
    apply forallb_forall. intros r Hr. apply negb_true_iff, Nat.ltb_ge.
    assert (~ tok_idx params F < tok_idx r F) by (eapply Core; eauto). lia.
Qed.

(** * whole runs *)
Lemma barrier_run c : forall tr s s' oss seen F0, reach c s -> emb (groups s) F0 -> started_ok s seen ->
  run s tr = Some (s', oss) -> NoDup (gparams (F0 ++ flat_map label_groups tr)) ->
  barrier_scan (F0 ++ flat_map label_groups tr) seen (concat oss) = true.
Proof.
  induction tr as [|l r IH]; cbn [run]; intros s s' oss seen F0 R E Inv H N.
  - injection H as <- <-. reflexivity.
  - destruct (step s l) as [[s1 os]|] eqn:Es; [|discriminate].
    destruct (run s1 r) as [[s2 oss2]|] eqn:E2; [|discriminate]. injection H as <- <-.
    cbn [concat flat_map] in *. rewrite app_assoc in *. rewrite barrier_scan_app. apply andb_true_iff. split.
    + eapply window_barrier; eauto.
    + apply (IH s1 s2 oss2 (rev os ++ seen) (F0 ++ label_groups l)); auto.
      * eapply reach_step; eauto.
      * apply (step_emb c s l s1 os F0 (reach_reachf _ _ R) Es E).
      * eapply started_step; eauto.
Qed.

Theorem mon_barrier_sound c tr s oss : run (init_of c) tr = Some (s, oss) ->
  unique_params (env_of tr) = true -> mon_barrier (env_of tr) (concat oss) = true.
Proof.
  intros H U. unfold mon_barrier. rewrite fed_groups_env.
  apply (barrier_run c tr (init_of c) s oss [] []); auto.
  - apply reach_init.
  - constructor.
  - intros r [].
  - cbn [app]. rewrite <- fed_groups_env, <- fed_params_groups. apply nodupb_NoDup. exact U.
Qed.

(** * Examples *)
(* the run of [ex_tr_mon] (a call, then in a later message a notification; both run and return): unique tokens, the
   monitor holds, and the notification is recognised as one *)
Example mon_barrier_nonvacuous :
  run (init_of ex_cfg) ex_tr_mon <> None /\
  unique_params (env_of ex_tr_mon) = true /\
  tok_is_note [91;49;93]%N (fed_groups (env_of ex_tr_mon)) = true /\
  tok_idx [91;49;93]%N (fed_groups (env_of ex_tr_mon)) = 1 /\
  mon_barrier (env_of ex_tr_mon) (concat (obs_of ex_cfg ex_tr_mon)) = true.
Proof. vm_compute. repeat split; auto. discriminate. Qed.

(* a notification, then in a later message a call; both are released one after the other *)
Definition ex_tr_barrier : list label :=
  [LStart; LRelNext; LFeed (FMsg (InMsgs false [ex_note [91;49;93]%N])); LRelRead; LRelBarrier; LRelAcquire 0;
   LGate [91;49;93]%N (ORes [50%N]); LRelHandled 0;
   LFeed (FMsg (InMsgs false [ex_call [49%N] [91;93]%N])); LRelRead; LRelNext; LRelBarrier; LRelAcquire 1].
Example mon_barrier_nonvacuous_order :
  run (init_of ex_cfg) ex_tr_barrier <> None /\
  unique_params (env_of ex_tr_barrier) = true /\
  concat (obs_of ex_cfg ex_tr_barrier) = [OStart [91;49;93]%N false; OGate [91;49;93]%N false; OStart [91;93]%N false] /\
  mon_barrier (env_of ex_tr_barrier) (concat (obs_of ex_cfg ex_tr_barrier)) = true.
Proof. vm_compute. repeat split; auto. discriminate. Qed.

(* sensitivity: the later call is entered between the entry and the return of the earlier notification; or before
   the notification is entered at all *)
Example mon_barrier_sensitive :
  mon_barrier (env_of ex_tr_barrier) [OStart [91;49;93]%N false; OStart [91;93]%N false; OGate [91;49;93]%N false] = false /\
  mon_barrier (env_of ex_tr_barrier) [OStart [91;93]%N false; OStart [91;49;93]%N false] = false.
Proof. vm_compute. split; reflexivity. Qed.
