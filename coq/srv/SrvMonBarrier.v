(* SrvMonBarrier: soundness of [mon_barrier] (srv/SrvMonitors.v) for every run of the server model.

   Ghost structure.  [groups s] lists, in arrival order, the members (id, method, params) of: the dispatch units
   (one group per unit), the queued messages, the record the reader holds, the records still in the channel.
   Invariant: [emb (groups s) F] for F = the fed messages so far - a monotone map from the groups of the state
   to the fed messages, every group included in its image (a stop splits a queued batch into one message per
   retained notification: several groups may map to the same fed message; records are dropped at a restart, members
   by the reader's filter).  With unique tokens this gives: token q fed in an earlier message than token r
   => unit of q's task < unit of r's task; C03 ([notification_before_later], srv/SrvC03.v) does the rest. *)
From Coq Require Import List NArith ZArith Bool Arith Lia.
From RecordUpdate Require Import RecordUpdate.
From JV Require Import Bytes Msg SrvModel SrvLemmas SrvBasics SrvC01 SrvHist SrvC03 SrvMonitors.
Import ListNotations.

(** * monotone embeddings of lists of groups *)
Section Emb.
Context {A : Type}.
Inductive emb : list (list A) -> list (list A) -> Prop :=
| emb_nil F : emb [] F
| emb_skip G f F : emb G F -> emb G (f :: F)
| emb_take g G f F : incl g f -> emb G (f :: F) -> emb (g :: G) (f :: F).

Lemma emb_refl G : emb G G.
Proof. induction G as [|g G IH]; [constructor|]. apply emb_take; [apply incl_refl|apply emb_skip; auto]. Qed.

Lemma emb_front F0 : forall G F, emb G F -> emb G (F0 ++ F).
Proof. induction F0 as [|f F0 IH]; intros G F H; cbn; auto. apply emb_skip; auto. Qed.

Lemma emb_app G G' F F' : emb G F -> emb G' F' -> emb (G ++ G') (F ++ F').
Proof.
  intros H H'. induction H as [F|G f F H IH|g G f F Hi H IH]; cbn.
  - apply emb_front; auto.
  - apply emb_skip; auto.
  - apply emb_take; auto.
Qed.

Lemma emb_nil_r G : emb G [] -> G = [].
Proof. inversion 1; auto. Qed.

Lemma emb_trans : forall G F, emb G F -> forall G', emb G' G -> emb G' F.
Proof.
  induction 1 as [F|G f F H IH|g G f F Hi H IH]; intros G' H'.
  - apply emb_nil_r in H'. subst. constructor.
  - apply emb_skip; auto.
  - remember (g :: G) as GG eqn:E. induction H' as [F'|G' f' F' H' IH'|g' G' f' F' Hi' H' IH']; subst.
    + constructor.
    + injection E as -> ->. apply IH; auto.
    + injection E as -> ->. apply emb_take; [eapply incl_tran; eauto|]. apply IH'; auto.
Qed.

(* several sub-groups of one group *)
Lemma emb_split gs g : (forall x, In x gs -> incl x g) -> emb gs [g].
Proof.
  induction gs as [|x gs IH]; intros H; [constructor|].
  apply emb_take; [apply H; left; auto|]. apply IH. intros y Hy. apply H. right; auto.
Qed.

Lemma emb_member G F : emb G F -> forall j gj y, nth_error G j = Some gj -> In y gj ->
  exists b fb, nth_error F b = Some fb /\ In y fb.
Proof.
  induction 1 as [F|G f F H IH|g G f F Hi H IH]; intros j gj y Ej Hy.
  - destruct j; discriminate.
  - destruct (IH _ _ _ Ej Hy) as (b & fb & Eb & Hb). exists (S b), fb. auto.
  - destruct j as [|j]; cbn in Ej.
    + injection Ej as <-. exists 0, f. split; auto.
    + eapply IH; eauto.
Qed.

Lemma emb_order G F : emb G F -> forall i j gi gj x y, nth_error G i = Some gi -> nth_error G j = Some gj ->
  i <= j -> In x gi -> In y gj ->
  exists a b fa fb, a <= b /\ nth_error F a = Some fa /\ nth_error F b = Some fb /\ In x fa /\ In y fb.
Proof.
  induction 1 as [F|G f F H IH|g G f F Hi H IH]; intros i j gi gj x y Ei Ej Le Hx Hy.
  - destruct i; discriminate.
  - destruct (IH _ _ _ _ _ _ Ei Ej Le Hx Hy) as (a & b & fa & fb & L & Ea & Eb & Ha & Hb).
    exists (S a), (S b), fa, fb. repeat split; auto. lia.
  - destruct i as [|i]; cbn in Ei.
    + injection Ei as <-. destruct j as [|j]; cbn in Ej.
      * injection Ej as <-. exists 0, 0, f, f. repeat split; auto.
      * destruct (emb_member _ _ H _ _ _ Ej Hy) as (b & fb & Eb & Hb).
        exists 0, b, f, fb. split; [lia|]. repeat split; auto.
    + destruct j as [|j]; [lia|]. cbn in Ej. apply (IH i j gi gj x y Ei Ej); auto. lia.
Qed.
End Emb.

(** * the groups of a state *)
Definition ugroups (s : state) : list (list member) := map snd (unit_hist s).
Definition qgroups (q : list (bool * list jmsg)) : list (list member) := map (fun bm => map jmem (snd bm)) q.
Definition feed_groups (f : feed) : list (list member) := label_groups (LFeed f).
Definition hgroups (r : rdpc) : list (list member) := match r with RHold f => feed_groups f | _ => [] end.
Definition cgroups (q : list feed) : list (list member) := flat_map feed_groups q.
Definition groups (s : state) : list (list member) :=
  ugroups s ++ qgroups (inq s) ++ hgroups (rd s) ++ cgroups (ch_in s).

Lemma groups_same s s' : unit_hist s' = unit_hist s -> inq s' = inq s -> rd s' = rd s -> ch_in s' = ch_in s ->
  groups s' = groups s.
Proof. unfold groups, ugroups. intros -> -> -> ->. reflexivity. Qed.

Lemma qgroups_app a b : qgroups (a ++ b) = qgroups a ++ qgroups b.
Proof. apply map_app. Qed.
Lemma cgroups_app a b : cgroups (a ++ b) = cgroups a ++ cgroups b.
Proof. apply flat_map_app. Qed.

(* the reader's filter keeps a sublist of the members *)
Lemma acc_msg_groups s i : emb (qgroups (acc_msg s i)) (feed_groups (FMsg i)).
Proof.
  unfold acc_msg. destruct i as [|b [|m ms]]; [constructor|constructor|].
  destruct (filter_batch (m :: ms) s [] []) as [[s1 keep] os1] eqn:F.
  apply filter_batch_view in F as (_ & k2 & -> & Sb). cbn [rev app] in *.
  destruct k2 as [|k0 kr]; [constructor|]. cbn.
  apply emb_take; [|constructor]. intros x Hx.
  apply (subl_in _ _ _ (subl_map jmem _ _ Sb)). exact Hx.
Qed.

(* stopLocked keeps the notifications of the queued messages, one message each *)
Lemma stop_queue_groups q : emb (qgroups (stop_queue q)) (qgroups q).
Proof.
  induction q as [|bm q IH]; [constructor|]. rewrite stop_queue_cons, qgroups_app.
  change (qgroups (bm :: q)) with ([map jmem (snd bm)] ++ qgroups q). apply emb_app; auto.
  apply emb_split. intros x Hx. unfold qgroups in Hx. rewrite map_map in Hx. cbn in Hx.
  apply in_map_iff in Hx as (m & <- & Hm). apply filter_In in Hm as [Hm _].
  intros y [<-|[]]. apply in_map. auto.
Qed.

(** * how the groups of the state change *)
Lemma stop_locked_chin c s s' os : stop_locked c s = (s', os) ->
  ch_in s' = ch_in s \/ ch_in s' = ch_in s ++ [FErr SCClosing].
Proof.
  unfold stop_locked. destruct (running s); cbn [negb]; [|intros [= <- <-]; auto].
  intros H.
  match type of H with (?x, _) = _ => assert (Hs : s' = x) by congruence end. clear H.
  match type of Hs with context [fold_left ?f ?l ?s0] =>
    pose proof (fold_cancel_squiet [] l s0) as Fc; set (s4 := fold_left f l s0) in *; set (s3 := s0) in * end.
  assert (C3 : ch_in s3 = ch_in s).
  { unfold s3. destruct (work_closed (s <| closes ::= S |> <| inq ::= stop_queue |>)); reflexivity. }
  destruct Fc as [_ (_ & _ & C4)]. clearbody s4. clearbody s3. subst s'.
  destruct (c_unblock _); cbn; [right|left]; congruence.
Qed.

Lemma stop_locked_hist c s s' os : inv s -> stop_locked c s = (s', os) -> unit_hist s' = unit_hist s.
Proof.
  intros I H. apply stop_locked_spec in H as [(_ & -> & _)|(_ & _ & P)]; auto. destruct P.
  apply unit_hist_stable; [split; [auto|rewrite sp_units; apply units_ext_refl]|auto|congruence].
Qed.

Lemma cgroups_err q : cgroups (q ++ [FErr SCClosing]) = cgroups q.
Proof. rewrite cgroups_app. cbn. apply app_nil_r. Qed.

Lemma feed_groups_eof i : feed_groups (FMsgEOF i) = feed_groups (FMsg i).
Proof. destruct i; reflexivity. Qed.

Lemma dequeue_groups s : inv s -> groups (dequeue s) = groups s.
Proof.
  intros I. destruct (dequeue_counts [] s) as (_ & _ & R & C). unfold groups. rewrite R, C.
  destruct (inq s) as [|[b ms] q] eqn:Q.
  - destruct (dequeue_empty s Q) as [U Iq]. unfold ugroups. rewrite U, Iq. reflexivity.
  - destruct (dequeue_hist s b ms q I Q) as [U Iq]. unfold ugroups. rewrite U, Iq, map_app. cbn.
    rewrite <- app_assoc. reflexivity.
Qed.

Lemma shape_groups s l s1 os : inv s -> step_raw s l = Some (s1, os) -> pend_same s s1 -> groups s1 = groups s.
Proof.
  intros I H (Iq & R & C). destruct (raw_step_ok _ _ _ _ I H) as [_ X].
  destruct (raw_shape_ok _ _ _ _ I H) as [U L| ->|u un _ _ _ U L].
  - apply groups_same; auto. apply unit_hist_stable; auto. congruence.
  - apply dequeue_groups; auto.
  - apply groups_same; auto. apply unit_hist_stable; auto. rewrite U. apply upd_nth_length.
Qed.

(* the critical sections that leave the inbound path alone *)
Definition path_label (l : label) : bool :=
  match l with LStart | LFeed _ | LRelRead | LRelNext | LRelStop _ => true | _ => false end.

Lemma raw_pend s l s1 os : inv s -> step_raw s l = Some (s1, os) -> path_label l = false -> pend_same s s1.
Proof.
  intros I H Pl. destruct (frame_label l) eqn:Fl.
  { destruct (frame_view _ _ _ _ Fl H) as (_ & Iq & R & C & _). repeat split; auto.
    rewrite C. destruct l; cbn in Pl, Fl; try discriminate; apply app_nil_r. }
  destruct l; try discriminate Fl; try discriminate Pl; unfold step_raw in H.
  - destruct (find_idx _ 0 (tasks s)) as [k|]; [|discriminate].
    destruct (nth_error (tasks s) k) as [t|]; [|discriminate]. injection H as <- <-. repeat split.
  - destruct (dp s); try discriminate. injection H as <- <-. repeat split.
  - destruct (nth_error (tasks s) k) as [t|]; [|discriminate].
    destruct (t_st t); try discriminate.
    destruct (negb (unit_running s t)); [discriminate|].
    destruct (t_cancelled t); [injection H as <- <-; repeat split|].
    destruct (sem_free s); [injection H as <- <-; repeat split|].
    destruct (sem_wait s); [|injection H as <- <-; repeat split].
    destruct (t_builtin t); injection H as <- <-; repeat split.
  - destruct (nth_error (tasks s) k) as [t|] eqn:E; [|discriminate].
    destruct (t_st t) eqn:St; try discriminate.
    set (s0 := set_task k (fun t => t <| t_st := TDone (body_of_outcome t o) |>) s <| sem_free ::= S |>) in *.
    assert (W0 : wait_ok s0).
    { unfold wait_ok, s0; cbn. apply wait_ok_upd; [apply I|]. eapply wait_not_in; eauto; [apply I|congruence]. }
    pose proof (grant_counts (S (length (sem_wait s0))) s0 W0) as G.
    destruct (grant (S (length (sem_wait s0))) s0 []) as [s2 os2]. cbn [fst snd] in G.
    destruct G as (_ & (I2 & R2 & C2) & _).
    destruct (is_note t); [destruct (nbar s2)|]; injection H as <- <-; repeat split; cbn; auto.
  - destruct (nth_error (units s) u) as [un|]; [|discriminate].
    destruct (u_st un); try discriminate.
    destruct (release_ids_squiet [] (unit_tasks s u) s) as [_ (I2 & R2 & C2)].
    destruct (u_chok un); cbn in H; injection H as <- <-; repeat split; cbn; auto.
  - destruct (find_op n (ops s)) as [[n0|n0 id|n0 w m p]|]; try discriminate.
    injection H as <- <-. destruct (assoc id _) as [owner|]; [|repeat split].
    destruct (cancel_task_squiet [] owner (s <| ops ::= del_op n |>)) as [_ (I2 & R2 & C2)]. repeat split; auto.
Qed.

Lemma raw_groups s l s1 os : inv s -> step_raw s l = Some (s1, os) -> emb (groups s1) (groups s ++ label_groups l).
Proof.
  intros I H. destruct (path_label l) eqn:Pl.
  2:{ rewrite (shape_groups _ _ _ _ I H (raw_pend _ _ _ _ I H Pl)).
      destruct l; try discriminate Pl; cbn [label_groups]; rewrite app_nil_r; apply emb_refl. }
  destruct l; try discriminate Pl.
  - (* LStart *)
    unfold step_raw in H. destruct (negb (running s) && (wg s =? 0)); [|discriminate]. injection H as <- <-.
    cbn [label_groups]. rewrite app_nil_r. unfold groups, ugroups, unit_hist. cbn [tasks units inq rd ch_in set].
    apply emb_app; [apply emb_refl|]. apply emb_app; [apply emb_refl|]. cbn. constructor.
  - (* LFeed *)
    destruct (frame_view s (LFeed f) s1 os eq_refl H) as (T & Iq & R & C & _).
    destruct (step_raw_frame s (LFeed f) s1 os eq_refl H) as (Co & _). unfold core in Co. injection Co as _ U _ _ _ _ _ _ _ _.
    unfold groups, ugroups, unit_hist. rewrite T, U, Iq, R, C, cgroups_app. cbn [cgroups flat_map].
    rewrite app_nil_r, <- !app_assoc. apply emb_refl.
  - (* LRelRead *)
    unfold step_raw in H. destruct (rd s) as [| |f|] eqn:Rd; try discriminate. injection H as H.
    cbn [label_groups]. rewrite app_nil_r. unfold groups. rewrite Rd.
    destruct f as [i|i|c].
    3:{ cbn in H. destruct (stop_locked c s) as [s0 os0] eqn:St. injection H as <- <-.
        cbn [tasks units inq rd ch_in set hgroups]. unfold ugroups, unit_hist. cbn [tasks units set].
        fold (unit_hist s0). rewrite (stop_locked_hist _ _ _ _ I St).
        apply emb_app; [apply emb_refl|].
        assert (Q : emb (qgroups (inq s0)) (qgroups (inq s))).
        { apply stop_locked_spec in St as [(_ & -> & _)|(_ & _ & P)]; [apply emb_refl|].
          destruct P. rewrite sp_inq. apply stop_queue_groups. }
        apply emb_app; auto. cbn.
        destruct (stop_locked_chin _ _ _ _ St) as [-> | ->]; rewrite ?cgroups_err; apply emb_refl. }
    all: destruct (running s) eqn:Rn;
      [ | cbn in H; rewrite Rn in H; cbn in H; injection H as <- <-;
          unfold ugroups, unit_hist; cbn [tasks units inq rd ch_in set hgroups];
          apply emb_app; [apply emb_refl|]; apply emb_app; [apply emb_refl|]; apply emb_app; [constructor|apply emb_refl] ].
    all: match type of H with read_cs ?f _ = _ =>
           assert (Hf : f = FMsg i \/ f = FMsgEOF i) by auto;
           destruct (read_cs_msg _ _ _ _ _ Hf Rn H) as (C0 & R1 & _);
           pose proof (read_cs_inq _ _ _ _ _ Hf Rn H) as Iq;
           destruct (read_cs_view _ _ _ _ _ Hf Rn H) as (Ci & _) end.
    all: unfold core0 in C0; injection C0 as T U _ _ _ _ _ _ _.
    all: unfold ugroups, unit_hist; rewrite T, U, Iq, R1, Ci, qgroups_app; cbn [hgroups]; rewrite ?feed_groups_eof.
    all: apply emb_app; [apply emb_refl|]; rewrite <- app_assoc; apply emb_app; [apply emb_refl|].
    all: cbn [app]; apply emb_app; [apply acc_msg_groups|apply emb_refl].
  - (* LRelNext *)
    unfold step_raw in H. destruct (dp s); try discriminate. injection H as <- <-.
    cbn [label_groups]. rewrite app_nil_r, dequeue_groups by auto. apply emb_refl.
  - (* LRelStop *)
    unfold step_raw in H.
    destruct (find_op n (ops s)) as [[n0|n0 id|n0 w m p]|]; try discriminate.
    destruct (stop_locked SCStop (s <| ops ::= del_op n |>)) as [s0 os0] eqn:St. injection H as <- <-.
    cbn [label_groups]. rewrite app_nil_r.
    assert (I' : inv (s <| ops ::= del_op n |>)).
    { apply (inv_core0 s); auto. }
    pose proof (stop_locked_hist _ _ _ _ I' St) as Uh.
    destruct (stop_locked_view [] _ _ _ _ St) as (_ & Rs & _ & _).
    unfold groups, ugroups. rewrite Uh, Rs. cbn [rd inq ch_in set].
    change (unit_hist (s <| ops ::= del_op n |>)) with (unit_hist s).
    apply emb_app; [apply emb_refl|].
    assert (Q : emb (qgroups (inq s0)) (qgroups (inq s))).
    { apply stop_locked_spec in St as [(_ & -> & _)|(_ & _ & P)]; [apply emb_refl|].
      destruct P. rewrite sp_inq. apply stop_queue_groups. }
    apply emb_app; auto. apply emb_app; [apply emb_refl|].
    destruct (stop_locked_chin _ _ _ _ St) as [-> | ->]; cbn [ch_in set]; rewrite ?cgroups_err; apply emb_refl.
Qed.

Lemma settle1_groups s s' os : inv s -> settle1 s = Some (s', os) -> groups s' = groups s.
Proof.
  intros I H. destruct (settle1_ok _ _ _ I H) as [_ X]. apply settle1_inv in H.
  destruct H.
  - unfold groups, ugroups, unit_hist. cbn [tasks units inq rd ch_in set hgroups]. rewrite H, H0.
    cbn [hgroups cgroups flat_map app]. reflexivity.
  - apply dequeue_groups; auto.
  - apply groups_same; auto. apply unit_hist_stable; auto. cbn. unfold set_unit. cbn. apply upd_nth_length.
  - apply groups_same; auto. apply unit_hist_stable; auto. cbn. unfold set_unit. cbn. apply upd_nth_length.
  - apply groups_same; auto. apply unit_hist_stable; auto. unfold set_unit. cbn. apply upd_nth_length.
  - apply groups_same; auto.
  - apply groups_same; auto.
Qed.


(** * the invariant along a run *)
Lemma settle_groups c : forall fuel s acc s' os, reachf c s -> settle fuel s acc = (s', os) -> groups s' = groups s.
Proof.
  induction fuel as [|f IH]; cbn; intros s acc s' os R H.
  - injection H as <- _. reflexivity.
  - destruct (settle1 s) as [[s1 os1]|] eqn:E.
    + rewrite (IH _ _ _ _ (rf_settle _ _ _ _ R E) H). apply (settle1_groups _ _ _ (reachf_inv _ _ R) E).
    + injection H as <- _. reflexivity.
Qed.

Lemma step_groups c s l s' os : reachf c s -> step s l = Some (s', os) ->
  emb (groups s') (groups s ++ label_groups l).
Proof.
  intros R H. pose proof (reachf_inv _ _ R) as I.
  apply step_decompose in H as (Cr & s1 & os1 & Hr & Hs).
  pose proof (raw_groups _ _ _ _ I Hr) as G.
  destruct Hs as [(_ & -> & _)|(_ & Hs)]; auto.
  rewrite (settle_groups c _ _ _ _ _ (rf_raw _ _ _ _ _ R Cr Hr) Hs). exact G.
Qed.

Lemma emb_tail {A} (G F X : list (list A)) : emb G F -> emb (G ++ X) (F ++ X).
Proof. intros H. apply emb_app; auto. apply emb_refl. Qed.

Lemma emb_weaken {A} (G F X : list (list A)) : emb G F -> emb G (F ++ X).
Proof. intros H. rewrite <- (app_nil_r G). apply emb_app; auto. constructor. Qed.

Lemma step_emb c s l s' os F : reachf c s -> step s l = Some (s', os) -> emb (groups s) F ->
  emb (groups s') (F ++ label_groups l).
Proof. intros R H E. eapply emb_trans; [apply emb_tail; exact E|eapply step_groups; eauto]. Qed.

Lemma fed_groups_env tr : fed_groups (env_of tr) = flat_map label_groups tr.
Proof.
  induction tr as [|l tr IH]; auto. unfold env_of, fed_groups in *. cbn [filter flat_map].
  destruct l; cbn [is_env flat_map label_groups app]; rewrite IH; reflexivity.
Qed.

(** * tokens *)
Definition gparams (F : list (list member)) : list bytes := map mem_params (concat F).

Lemma fed_params_groups env : fed_params env = gparams (fed_groups env).
Proof.
  unfold fed_params, fed_groups, gparams. induction env as [|l env IH]; auto. cbn [flat_map].
  rewrite concat_app, map_app, <- IH. f_equal.
  destruct l; auto. destruct f as [[|b ms]|[|b ms]|c]; cbn; rewrite ?app_nil_r, ?map_map; auto.
Qed.

Lemma nodupb_NoDup l : nodupb l = true -> NoDup l.
Proof.
  induction l as [|x l IH]; cbn; [constructor|]. intros H. apply andb_true_iff in H as [H1 H2].
  constructor; auto. intros Hi. apply mem_bytes_in in Hi. rewrite Hi in H1. discriminate.
Qed.

Lemma nodup_map_inj {A B} (f : A -> B) l x y : NoDup (map f l) -> In x l -> In y l -> f x = f y -> x = y.
Proof.
  induction l as [|z l IH]; cbn; [tauto|]. intros N Hx Hy E. inversion N as [|? ? Nz Nl]; subst.
  destruct Hx as [<-|Hx], Hy as [<-|Hy]; auto.
  - exfalso. apply Nz. rewrite E. apply in_map; auto.
  - exfalso. apply Nz. rewrite <- E. apply in_map; auto.
Qed.

Lemma has_tok_true p g : has_tok p g = true <-> exists x, In x g /\ mem_params x = p.
Proof.
  unfold has_tok. rewrite existsb_exists. split; intros (x & Hx & E); exists x; split; auto.
  - apply beq_eq in E. auto.
  - apply beq_eq. auto.
Qed.

Lemma tok_idx_spec F : NoDup (gparams F) -> forall a fa x, nth_error F a = Some fa -> In x fa ->
  tok_idx (mem_params x) F = a.
Proof.
  unfold gparams. induction F as [|f F IH]; intros N a fa x Ea Hx; [destruct a; discriminate|].
  cbn [concat] in N. rewrite map_app in N. cbn [tok_idx].
  destruct a as [|a]; cbn in Ea.
  - injection Ea as <-. replace (has_tok (mem_params x) f) with true; auto.
    symmetry. apply has_tok_true. eauto.
  - destruct (has_tok (mem_params x) f) eqn:Ht.
    + exfalso. apply has_tok_true in Ht as (y & Hy & E).
      assert (Hc : In x (concat F)) by (apply in_concat; exists fa; split; [eapply nth_error_In; eauto|auto]).
      clear - N Hy E Hc. induction f as [|z f IHf]; [destruct Hy|]. cbn in N. inversion N as [|? ? Nz Nl]; subst.
      destruct Hy as [->|Hy]; [|auto]. apply Nz. apply in_or_app. right. rewrite E. apply in_map; auto.
    + f_equal. eapply IH; eauto. clear - N. induction f as [|z f IHf]; auto. cbn in N. inversion N; auto.
Qed.

Lemma tok_is_note_spec F q : tok_is_note q F = true ->
  exists m, In m (concat F) /\ mem_params m = q /\ mem_id m = [].
Proof.
  unfold tok_is_note. rewrite existsb_exists. intros (m & Hm & E). apply andb_true_iff in E as [E1 E2].
  apply beq_eq in E1. apply is_nil_true in E2. eauto.
Qed.

(** * from the order of the fed messages to the order of the dispatch units *)
Lemma groups_unit s k t : inv s -> nth_error (tasks s) k = Some t ->
  exists g, nth_error (groups s) (t_unit t) = Some g /\ In (tmem t) g.
Proof.
  intros I E. pose proof (i_unit _ I _ _ E) as Lu.
  destruct (nth_error (units s) (t_unit t)) as [un|] eqn:Eu; [|apply nth_error_None in Eu; lia].
  exists (map tmem (unit_tasks s (t_unit t))). split.
  - unfold groups, ugroups. rewrite nth_error_app1 by (rewrite map_length, unit_hist_length; lia).
    rewrite nth_error_map, (unit_hist_nth _ _ _ Eu). reflexivity.
  - apply in_map. unfold unit_tasks. apply filter_In. split; [eapply nth_error_In; eauto|apply Nat.eqb_refl].
Qed.

Lemma unit_order s F kq tq kr tr : inv s -> emb (groups s) F -> NoDup (gparams F) ->
  nth_error (tasks s) kq = Some tq -> nth_error (tasks s) kr = Some tr ->
  tok_idx (t_params tq) F < tok_idx (t_params tr) F -> t_unit tq < t_unit tr.
Proof.
  intros I E N Eq Er Lt. destruct (Nat.lt_ge_cases (t_unit tq) (t_unit tr)) as [|Ge]; auto. exfalso.
  destruct (groups_unit _ _ _ I Eq) as (gq & Gq & Hq). destruct (groups_unit _ _ _ I Er) as (gr & Gr & Hr).
  destruct (emb_order _ _ E _ _ _ _ _ _ Gr Gq Ge Hr Hq) as (a & b & fa & fb & Le & Ea & Eb & Ha & Hb).
  pose proof (tok_idx_spec F N _ _ _ Ea Ha) as Ia. pose proof (tok_idx_spec F N _ _ _ Eb Hb) as Ib.
  change (mem_params (tmem tr)) with (t_params tr) in Ia. change (mem_params (tmem tq)) with (t_params tq) in Ib. lia.
Qed.

Lemma note_task s F k t : inv s -> emb (groups s) F -> NoDup (gparams F) -> nth_error (tasks s) k = Some t ->
  tok_is_note (t_params t) F = true -> is_note t = true.
Proof.
  intros I E N Et Hn. destruct (groups_unit _ _ _ I Et) as (g & Eg & Hg).
  destruct (emb_member _ _ E _ _ _ Eg Hg) as (b & fb & Eb & Hb).
  assert (Hc : In (tmem t) (concat F)) by (apply in_concat; exists fb; split; [eapply nth_error_In; eauto|auto]).
  apply tok_is_note_spec in Hn as (m & Hm & Ep & Ei).
  assert (m = tmem t) by (eapply (nodup_map_inj mem_params); eauto). subst m.
  unfold is_note. apply is_nil_true. exact Ei.
Qed.

(* the contradiction: a task past the semaphore while a notification of an earlier fed message is not done *)
Lemma barrier_core c s F kq tq kr tr : reach c s -> emb (groups s) F -> NoDup (gparams F) ->
  nth_error (tasks s) kq = Some tq -> nth_error (tasks s) kr = Some tr ->
  tok_is_note (t_params tq) F = true -> tok_idx (t_params tq) F < tok_idx (t_params tr) F ->
  t_pre tq = None -> t_st tr <> TSkip -> t_st tr <> TAtAcquire -> (forall b, t_st tq <> TDone b) -> False.
Proof.
  intros R E N Eq Er Hn Lt Pq S1 S2 Nd.
  pose proof (reachf_inv _ _ (reach_reachf _ _ R)) as I.
  pose proof (unit_order _ _ _ _ _ _ I E N Eq Er Lt) as Lu.
  pose proof (note_task _ _ _ _ I E N Eq Hn) as Nq.
  destruct (notification_before_later c s R kr tr kq tq Er Eq Lu) as (b & Hb); auto.
  - unfold runnable. rewrite Pq. reflexivity.
  - exact (Nd _ Hb).
Qed.
