(* SrvC08q: C08 at quiescent points.  What a reachable state in which no parked goroutine can
   move looks like (tasks, dispatcher, units), and the two liveness-flavoured consequences:
   - [c08_terminates_q]: a stopped server whose reader has exited and whose handlers have all
     returned has an empty wait group once it is quiescent (needs a positive concurrency limit;
     [c08_terminates_K0_refuted] shows why);
   - [c08_notifications_quiescent]: the notifications retained by Stop are dequeued, except
     behind a barrier held by a notification handler that has not returned
     ([c08_notifications_drain_refuted] shows that the naive form is false). *)
From Coq Require Import List NArith ZArith Bool Arith Lia.
From RecordUpdate Require Import RecordUpdate.
From JV Require Import Bytes Msg SrvModel SrvLemmas SrvBasics SrvC01 SrvC07 SrvC08 SrvC08b.
From JV Require SrvC06.
Import ListNotations.

(** * 0. helpers *)
Lemma quiescent_blocks s l : quiescent s = true -> In l (flat_map (candidates s) all_sites) -> step s l = None.
Proof.
  intros Q Hin. unfold quiescent, enabled_rel in Q. apply is_nil_list_true in Q.
  destruct (step s l) as [r|] eqn:E; auto. exfalso.
  assert (Hf : In l (filter (fun l => match step s l with Some _ => true | None => false end)
                        (flat_map (candidates s) all_sites))).
  { apply filter_In. split; auto. rewrite E. reflexivity. }
  rewrite Q in Hf. destruct Hf.
Qed.

Lemma step_raw_some_step s l x : crash s = None -> step_raw s l = Some x -> step s l <> None.
Proof.
  intros Cr H. unfold step. rewrite Cr, H. destruct x as [s1 os].
  destruct (crash s1); discriminate.
Qed.

Lemma countb_pos_exists {A} (p : A -> bool) l : 0 < countb p l -> exists x, In x l /\ p x = true.
Proof.
  induction l as [|y r IH]; cbn; [lia|].
  destruct (p y) eqn:P.
  - intros _. exists y. auto.
  - intros H. destruct IH as (x & I & Px); [lia|]. exists x. auto.
Qed.

(* a release label that is a candidate and whose critical section is defined contradicts quiescence *)
Lemma quiescent_contra s l x : quiescent s = true -> crash s = None ->
  In l (flat_map (candidates s) all_sites) -> step_raw s l = Some x -> False.
Proof.
  intros Q Cr Hin H. apply (step_raw_some_step _ _ _ Cr H). apply quiescent_blocks; auto.
Qed.

Lemma in_cand s x l : In x all_sites -> In l (candidates s x) -> In l (flat_map (candidates s) all_sites).
Proof. intros Hx Hl. apply in_flat_map. exists x. auto. Qed.

(** * 1. tasks of a quiescent state *)
Theorem quiescent_tasks c s k t : reach c s -> quiescent s = true -> nth_error (tasks s) k = Some t ->
  t_st t = TSkip \/ (exists b, t_st t = TDone b) \/ t_st t = TRunning \/
  (t_st t = TWaiting /\ sem_free s = 0) \/ (t_st t = TAtAcquire /\ unit_running s t = false).
Proof.
  intros R Q E. pose proof (no_crash _ _ R) as Cr.
  destruct (t_st t) eqn:St; eauto.
  - (* TAtAcquire *)
    destruct (unit_running s t) eqn:Ur; [|auto 6]. exfalso.
    assert (Hin : In (LRelAcquire k) (flat_map (candidates s) all_sites)).
    { apply (in_cand s SAcquire); [cbn; tauto|]. cbn. apply in_map.
      apply (in_idxs_where (at_acquire s) (tasks s) 0 k t E). unfold at_acquire. rewrite St. exact Ur. }
    assert (Hs : exists x, step_raw s (LRelAcquire k) = Some x).
    { cbn. rewrite E, St, Ur. cbn. destruct (t_cancelled t); [eauto|].
      destruct (sem_free s); [eauto|]. destruct (sem_wait s); [|eauto]. destruct (t_builtin t); eauto. }
    destruct Hs as (x & Hs). eapply quiescent_contra; eauto.
  - (* TWaiting *)
    right. right. right. left. split; auto.
    destruct (SrvC06.inv_reachf _ _ (reach_reachf _ _ R)) as [[W0 Wq] _].
    destruct (sem_free s) as [|fr] eqn:F; auto. exfalso.
    assert (Hk : In k (sem_wait s)) by (apply (SrvC06.wf_wait _ _ _ _ W0); eauto).
    rewrite Wq in Hk by lia. destruct Hk.
  - (* TAtHandled *)
    exfalso.
    assert (Hin : In (LRelHandled k) (flat_map (candidates s) all_sites)).
    { apply (in_cand s SHandled); [cbn; tauto|]. cbn. apply in_map.
      apply (in_idxs_where at_handled (tasks s) 0 k t E). unfold at_handled. rewrite St. reflexivity. }
    assert (Hs : exists x, step_raw s (LRelHandled k) = Some x).
    { unfold step_raw. rewrite E, St.
      match goal with |- context [grant ?f ?a ?b] => destruct (grant f a b) as [s2 os2] end.
      destruct (is_note t); [destruct (nbar s2)|]; eauto. }
    destruct Hs as (x & Hs). eapply quiescent_contra; eauto.
Qed.

(** * 2. the dispatcher of a quiescent state *)
Theorem quiescent_dp c s : reach c s -> quiescent s = true ->
  dp s = DNone \/ dp s = DExited \/ (dp s = DWaitWork /\ running s = true /\ inq s = []) \/
  (exists u, dp s = DBarrierWait u /\ 0 < nbar s).
Proof.
  intros R Q. pose proof (no_crash _ _ R) as Cr. pose proof (reach_settled _ _ R Cr) as St.
  pose proof (reachf_inv _ _ (reach_reachf _ _ R)) as I.
  destruct (dp s) as [| | |u|u|] eqn:D; auto.
  - (* DAtNext *)
    exfalso. eapply (quiescent_contra s LRelNext); eauto.
    + apply (in_cand s SNext); [cbn; tauto|]. cbn. rewrite D. left; reflexivity.
    + cbn. rewrite D. reflexivity.
  - (* DWaitWork *)
    right. right. left. split; auto.
    unfold settle1 in St. rewrite D in St.
    destruct (negb (running s) || negb (is_nil_list (inq s))) eqn:B.
    + exfalso. destruct (rd s); [|destruct (ch_in s)| |]; discriminate.
    + apply orb_false_iff in B as [B1 B2]. apply negb_false_iff in B1, B2.
      split; auto. apply is_nil_list_true; auto.
  - (* DAtBarrier *)
    exfalso. eapply (quiescent_contra s LRelBarrier); eauto.
    + apply (in_cand s SBarrier); [cbn; tauto|]. cbn. rewrite D. left; reflexivity.
    + cbn. rewrite D. reflexivity.
  - (* DBarrierWait *)
    right. right. right. exists u. split; auto.
    destruct (nbar s) as [|n] eqn:B; [|lia]. exfalso.
    destruct (i_dp _ I u (or_intror D)) as (un & Eu & _).
    unfold settle1 in St. rewrite D, B, Eu in St. cbn in St.
    destruct (rd s); [|destruct (ch_in s)| |]; discriminate.
Qed.

(** * 3. the units of a quiescent state *)
Lemma forallb_false_exists {A} (p : A -> bool) l : forallb p l = false -> exists x, In x l /\ p x = false.
Proof.
  induction l as [|y r IH]; cbn; [discriminate|].
  destruct (p y) eqn:P; cbn.
  - intros H. destruct (IH H) as (x & I & Px). exists x. auto.
  - intros _. exists y. auto.
Qed.

Theorem quiescent_units c s u un : reach c s -> quiescent s = true -> nth_error (units s) u = Some un ->
  u_st un <> UAtDeliver /\
  (u_st un = URunning -> exists k t, nth_error (tasks s) k = Some t /\ t_unit t = u /\ finished t = false).
Proof.
  intros R Q E. pose proof (no_crash _ _ R) as Cr.
  destruct (c01_quiescent_complete _ _ R Cr Q) as [H1 H2]. split; [eapply H2; eauto|].
  intros Su. specialize (H1 _ _ E Su). unfold all_finished, unit_tasks in H1.
  apply forallb_false_exists in H1 as (t & Hin & F). apply filter_In in Hin as [Hin Hu].
  apply Nat.eqb_eq in Hu. apply In_nth_error in Hin as (k & Ek). eauto.
Qed.

(** * 4. termination: a stopped, quiescent server whose reader has exited and whose handlers have
      all returned has an empty wait group, and no WaitStatus call is still blocked *)
Theorem c08_terminates_q c s : reach c s -> quiescent s = true -> running s = false ->
  (rd s = RExited \/ rd s = RNone) ->
  (forall k t, nth_error (tasks s) k = Some t -> t_st t <> TRunning) -> 0 < cf_K c ->
  wg s = 0 /\ waits s = 0 /\ all_done s.
Proof.
  intros R Q Rn Hrd Hnr HK.
  pose proof (reach_reachf _ _ R) as Rf. pose proof (no_crash _ _ R) as Cr.
  pose proof (reach_settled _ _ R Cr) as St.
  pose proof (reachf_inv _ _ Rf) as I. pose proof (reachf_inv2 _ _ Rf) as I2.
  destruct (reachf_inv8 _ _ Rf) as [Ic It N].
  destruct (SrvC06.inv_reachf _ _ Rf) as [[W0 Wq] KK].
  (* no task is queued in the semaphore *)
  assert (NoW : forall k t, nth_error (tasks s) k = Some t -> t_st t <> TWaiting).
  { intros k t E Sw.
    destruct (quiescent_tasks _ _ _ _ R Q E) as [Z|[(b & Z)|[Z|[(_ & F)|(Z & _)]]]]; try congruence.
    pose proof (SrvC06.wf_sem _ _ _ _ W0) as Sem. rewrite F, KK in Sem.
    destruct (countb_pos_exists SrvC06.holds (tasks s)) as (x & Hx & Px); [lia|].
    apply In_nth_error in Hx as (j & Ej). unfold SrvC06.holds in Px.
    destruct (quiescent_tasks _ _ _ _ R Q Ej) as [Z|[(b & Z)|[Z|[(Z & _)|(Z & _)]]]];
      try (rewrite Z in Px; discriminate).
    apply (Hnr _ _ Ej Z). }
  (* every task is finished, or parked before the semaphore in a unit that is not released *)
  assert (T : forall k t, nth_error (tasks s) k = Some t ->
            finished t = true \/ (t_st t = TAtAcquire /\ unit_running s t = false)).
  { intros k t E. unfold finished.
    destruct (quiescent_tasks _ _ _ _ R Q E) as [Z|[(b & Z)|[Z|[(Z & _)|Z]]]]; auto.
    - rewrite Z. auto.
    - rewrite Z. auto.
    - destruct (Hnr _ _ E Z).
    - destruct (NoW _ _ E Z). }
  (* no unit is live *)
  assert (U : countb unit_live (units s) = 0).
  { apply countb_false. intros un Hun. apply In_nth_error in Hun as (u & Eu).
    destruct (quiescent_units _ _ _ _ R Q Eu) as [Nd Hr]. unfold unit_live.
    destruct (u_st un) eqn:Su; auto; [|congruence]. exfalso.
    destruct (Hr eq_refl) as (k & t & Ek & Hu & F).
    destruct (T _ _ Ek) as [Z|(_ & Z)]; [congruence|].
    unfold unit_running in Z. rewrite Hu, Eu, Su in Z. discriminate. }
  (* the dispatcher has exited *)
  assert (D : dp s = DNone \/ dp s = DExited).
  { destruct (quiescent_dp _ _ R Q) as [Z|[Z|[(_ & Z & _)|(u & Du & B)]]]; auto; [congruence|]. exfalso.
    unfold invn in N. rewrite N in B.
    destruct (countb_pos_exists _ _ B) as (t & Ht & P). apply In_nth_error in Ht as (k & Ek).
    unfold pend in P. apply andb_true_iff in P as [P Ur]. apply andb_true_iff in P as [_ F].
    apply negb_true_iff in F.
    destruct (T _ _ Ek) as [Z|(_ & Z)]; [congruence|].
    rewrite unit_running_urun in Z. congruence. }
  assert (Z : wg s = 0).
  { rewrite (i_wg _ I2), U. destruct Hrd as [-> | ->]; destruct D as [-> | ->]; reflexivity. }
  split; auto. split; [|eapply idle_all_done; eauto].
  destruct (waits s) as [|n] eqn:W; auto. exfalso.
  pose proof (settled_no_complete _ St) as F.
  unfold settle1 in St. rewrite F, W, Z in St. cbn in St.
  destruct Hrd as [Hr|Hr]; rewrite Hr in St; destruct D as [Hd|Hd]; rewrite Hd in St;
    destruct (is_nil_list (inq s)); discriminate.
Qed.

(* the hypothesis [0 < cf_K c] is needed: with a concurrency limit of 0 the handler of a
   notification queues in the semaphore for ever (Stop cancels calls, not notifications), its unit
   never completes, and the wait group never empties *)
Definition ex_cfgK0 : config :=
  {| cf_K := 0; cf_push := false; cf_builtin := false; cf_methods := [ex_m]; cf_unblock := false |}.
Definition ex_tr_K0 : list label :=
  [LStart; LRelNext; LFeed (FMsg (InMsgs false [ex_note [49%N]])); LRelRead; LRelBarrier; LRelAcquire 0;
   LFeed (FErr SCEOF); LRelRead; LRelNext].

Theorem c08_terminates_K0_refuted :
  exists s, cf_K ex_cfgK0 = 0 /\ reach ex_cfgK0 s /\ quiescent s = true /\ running s = false /\ rd s = RExited /\
    crash s = None /\ (forall k t, nth_error (tasks s) k = Some t -> t_st t <> TRunning) /\
    wg s = 1 /\ dp s = DExited /\ map t_st (tasks s) = [TWaiting] /\ map u_st (units s) = [URunning] /\
    sem_free s = 0 /\ sem_wait s = [0].
Proof.
  exists (st_of ex_cfgK0 ex_tr_K0). split; [reflexivity|].
  split; [apply reach_st_of; vm_compute; discriminate|].
  assert (F : forallb (fun t => match t_st t with TRunning => false | _ => true end)
                (tasks (st_of ex_cfgK0 ex_tr_K0)) = true) by (vm_compute; reflexivity).
  rewrite forallb_forall in F.
  repeat split; try (vm_compute; reflexivity).
  intros k t E Z. specialize (F t (nth_error_In _ _ E)). rewrite Z in F. discriminate F.
Qed.

(** * 5. the notifications retained by Stop at a quiescent point *)
Theorem c08_notifications_quiescent c s : reach c s -> quiescent s = true -> running s = false ->
  inq s = [] \/
  exists u k t, dp s = DBarrierWait u /\ 0 < nbar s /\ nth_error (tasks s) k = Some t /\ is_note t = true /\
    unit_running s t = true /\ (t_st t = TRunning \/ (t_st t = TWaiting /\ sem_free s = 0)).
Proof.
  intros R Q Rn. pose proof (reach_reachf _ _ R) as Rf.
  destruct (reachf_inv8 _ _ Rf) as [Ic It N].
  destruct (inq s) as [|bm q] eqn:Iq; [left; reflexivity|right].
  destruct (quiescent_dp _ _ R Q) as [Z|[Z|[(_ & Z & _)|(u & Du & B)]]].
  - destruct (ic_dpx _ Ic (or_intror Z)) as [Z' _]. congruence.
  - destruct (ic_dpx _ Ic (or_introl Z)) as [Z' _]. congruence.
  - congruence.
  - pose proof B as B0. unfold invn in N. rewrite N in B0.
    destruct (countb_pos_exists _ _ B0) as (t & Ht & P). apply In_nth_error in Ht as (k & Ek).
    unfold pend in P. apply andb_true_iff in P as [P Ur]. apply andb_true_iff in P as [P F].
    apply andb_true_iff in P as [Nt _]. apply negb_true_iff in F.
    rewrite <- unit_running_urun in Ur.
    exists u, k, t. repeat split; auto.
    unfold finished in F.
    destruct (quiescent_tasks _ _ _ _ R Q Ek) as [Z|[(b & Z)|[Z|[Z|(_ & Z)]]]]; auto;
      try (rewrite Z in F; discriminate). congruence.
Qed.

(* the naive form "once the stopped server is quiescent the retained notifications have all been
   dequeued" is false: three notifications arrive, Stop retains them (one queue entry each), the
   dispatcher releases the first, whose handler runs and does not return; the second is dequeued and
   waits at the barrier for the first (nbar = 1); the third is still in the queue *)
Definition ex_cfgX : config := ex_cfg.
Definition ex_tr_drain : list label :=
  [LStart; LFeed (FMsg (InMsgs true [ex_note [49%N]; ex_note [50%N]; ex_note [51%N]])); LRelRead;
   LCallStop 1; LRelStop 1; LFeed (FErr SCClosing); LRelRead;
   LRelNext; LRelBarrier; LRelAcquire 0; LRelNext; LRelBarrier].

Theorem c08_notifications_drain_refuted :
  exists s, reach ex_cfgX s /\ quiescent s = true /\ running s = false /\ crash s = None /\ inq s <> [] /\
    0 < cf_K ex_cfgX /\ rd s = RExited /\ inq s = [(true, [ex_note [51%N]])].
Proof.
  exists (st_of ex_cfgX ex_tr_drain). split; [apply reach_st_of; vm_compute; discriminate|].
  repeat split; try (vm_compute; reflexivity); try (vm_compute; lia). vm_compute. discriminate.
Qed.

(** * 6. non-vacuity *)
(* a call is in flight when Stop is called (a WaitStatus call is pending); its handler returns, the
   reply is delivered (the send fails: the channel is closed), the dispatcher and the reader exit *)
Definition ex_tr_term : list label :=
  [LStart; LCallWait; LRelNext; LFeed (FMsg (InMsgs false [ex_call [49%N] [91;93]%N])); LRelRead; LRelBarrier;
   LRelAcquire 0; LCallStop 1; LRelStop 1; LGate [91;93]%N (ORes [50%N]); LRelHandled 0; LRelDeliver 0; LRelNext;
   LFeed (FErr SCClosing); LRelRead].

Example c08_terminates_q_nonvacuous :
  exists s, reach ex_cfg s /\ quiescent s = true /\ running s = false /\ (rd s = RExited \/ rd s = RNone) /\
    (forall k t, nth_error (tasks s) k = Some t -> t_st t <> TRunning) /\ 0 < cf_K ex_cfg /\
    wg s = 0 /\ waits s = 0 /\ closes s = 1 /\ stop_err s = Some SCStop /\
    map t_st (tasks s) = [TDone (Some (BRes [50%N]))] /\ map u_st (units s) = [UFinished] /\
    last (obs_of ex_cfg ex_tr_term) [] = [OWaitRet (Some SCStop)].
Proof.
  exists (st_of ex_cfg ex_tr_term). split; [apply reach_st_of; vm_compute; discriminate|].
  assert (F : forallb (fun t => match t_st t with TRunning => false | _ => true end)
                (tasks (st_of ex_cfg ex_tr_term)) = true) by (vm_compute; reflexivity).
  rewrite forallb_forall in F.
  repeat split; try (vm_compute; reflexivity); try (vm_compute; lia).
  - left. vm_compute. reflexivity.
  - intros k t E Z. specialize (F t (nth_error_In _ _ E)). rewrite Z in F. discriminate F.
Qed.

(* the theorem applied to that state *)
Example c08_terminates_q_applied : all_done (st_of ex_cfg ex_tr_term).
Proof.
  assert (R : reach ex_cfg (st_of ex_cfg ex_tr_term)) by (apply reach_st_of; vm_compute; discriminate).
  assert (F : forallb (fun t => match t_st t with TRunning => false | _ => true end)
                (tasks (st_of ex_cfg ex_tr_term)) = true) by (vm_compute; reflexivity).
  rewrite forallb_forall in F.
  assert (Q : quiescent (st_of ex_cfg ex_tr_term) = true) by (vm_compute; reflexivity).
  assert (Rn : running (st_of ex_cfg ex_tr_term) = false) by (vm_compute; reflexivity).
  assert (Hr : rd (st_of ex_cfg ex_tr_term) = RExited \/ rd (st_of ex_cfg ex_tr_term) = RNone)
    by (left; vm_compute; reflexivity).
  assert (HK : 0 < cf_K ex_cfg) by (vm_compute; lia).
  refine (proj2 (proj2 (c08_terminates_q ex_cfg _ R Q Rn Hr _ HK))).
  intros k t E Z. specialize (F t (nth_error_In _ _ E)). rewrite Z in F. discriminate F.
Qed.

Example c08_notifications_quiescent_nonvacuous :
  exists s, reach ex_cfgX s /\ quiescent s = true /\ running s = false /\ inq s <> [] /\
    exists t, dp s = DBarrierWait 1 /\ 0 < nbar s /\ nth_error (tasks s) 0 = Some t /\ is_note t = true /\
      unit_running s t = true /\ t_st t = TRunning.
Proof.
  exists (st_of ex_cfgX ex_tr_drain). split; [apply reach_st_of; vm_compute; discriminate|].
  split; [vm_compute; reflexivity|]. split; [vm_compute; reflexivity|]. split; [vm_compute; discriminate|].
  eexists. split; [vm_compute; reflexivity|]. split; [vm_compute; lia|].
  split; [vm_compute; reflexivity|]. vm_compute. repeat split.
Qed.
