(* SrvC09b: C09.1 the push gate and C09.5 the inertness of late replies, stated on whole windows ([step])
   from reachable states (SrvC09 states them on the critical sections [step_raw] / [read_cs]). *)
From Coq Require Import List NArith ZArith Bool Arith Lia.
From RecordUpdate Require Import RecordUpdate.
From JV Require Import Bytes Msg SrvModel SrvLemmas SrvBasics SrvC01 SrvC07 SrvC09 SrvC10 SrvC08 SrvC08c.
Import ListNotations.

(** * what [settle1] looks at *)
Definition sfields (s : state) :=
  (dp s, running s, inq s, (nbar s, units s, tasks s, waits s, wg s)).

(* the reader's wake-up apart, settling depends on [sfields] only *)
Lemma settle1_none_ext a b : sfields b = sfields a -> settle1 a = None ->
  (rd b = RIdle -> ch_in b = []) -> settle1 b = None.
Proof.
  unfold sfields. intros E H Hb. injection E as E3 E4 E5 E6 E7 E8 E9 E10.
  assert (Hr : match rd b, ch_in b with RIdle, _ :: _ => False | _, _ => True end).
  { destruct (rd b); auto. rewrite Hb; auto. }
  unfold settle1 in *. unfold unit_complete, all_finished, unit_tasks in *.
  rewrite E3, E4, E5, E6, E7, E8, E9, E10.
  destruct (rd b); destruct (ch_in b); try (destruct Hr; fail); clear Hr Hb.
  all: destruct (rd a); destruct (ch_in a); try discriminate H.
  all: repeat match goal with |- context [match ?x with _ => _ end] =>
    lazymatch x with context [@Some (state * list obs)%type] => fail | _ => idtac end; destruct x eqn:?; try discriminate H end.
  all: try reflexivity.
Qed.

Lemma settle_none fuel s acc : settle1 s = None -> settle fuel s acc = (s, acc).
Proof. intros H. destruct fuel; cbn; [|rewrite H]; reflexivity. Qed.

(* a critical section that ends in a state in which nothing wakes up is the whole window *)
Lemma step_of_raw s l s1 os1 : crash s = None -> step_raw s l = Some (s1, os1) -> crash s1 = None ->
  settle1 s1 = None -> step s l = Some (s1, os1).
Proof. intros C H C1 S. unfold step. rewrite C, H, C1, settle_none; auto. Qed.

Lemma step_settles s l s1 os1 : crash s = None -> step_raw s l = Some (s1, os1) -> crash s1 = None ->
  step s l = Some (settle (settle_fuel s1) s1 os1).
Proof. intros C H C1. unfold step. rewrite C, H, C1. reflexivity. Qed.

(* a reader that is idle at a window boundary has nothing to receive *)
Lemma reach_idle_empty c s : reach c s -> rd s = RIdle -> ch_in s = [].
Proof.
  intros R Ri. pose proof (reach_settled _ _ R (no_crash _ _ R)) as St. unfold settle1 in St. rewrite Ri in St.
  destruct (ch_in s) eqn:Ch; [reflexivity|discriminate St].
Qed.

(** * C09.1 the gate, on windows *)
(* without AllowPush: Notify / Callback return ErrPushUnsupported in the window of the call itself; the window
   changes nothing at all and transmits nothing *)
Lemma gate_off_step c s n w m p : reach c s -> c_push s = false ->
  step s (LCallPush n w m p) = Some (s, [ORet n APushUnsupported]).
Proof.
  intros R P. pose proof (no_crash _ _ R) as Cr.
  apply step_of_raw; auto; [apply gate_push_off; auto|apply (reach_settled c); auto].
Qed.

Lemma gate_off_step_cfg c s n w m p : reach c s -> cf_push c = false ->
  step s (LCallPush n w m p) = Some (s, [ORet n APushUnsupported]).
Proof.
  intros R P. apply (gate_off_step c); auto.
  pose proof (cfg_const _ _ (reach_reachf _ _ R)) as Cf. unfold cfgp in Cf. injection Cf as _ Cp _ _ _. congruence.
Qed.

(* after the connection has ended: the push returns ErrConnClosed; its window removes the pending operation and
   changes nothing else, and transmits nothing *)
Lemma gate_closed_step c s n s' os : reach c s -> running s = false -> step s (LRelPush n) = Some (s', os) ->
  s' = s <| ops ::= del_op n |> /\ os = [ORet n AConnClosed].
Proof.
  intros R Rn H. pose proof (no_crash _ _ R) as Cr.
  apply step_decompose in H as (_ & s1 & os1 & Hr & Hs).
  destruct (gate_conn_closed _ _ _ _ Rn Hr) as [-> ->].
  destruct Hs as [(_ & -> & ->)|(_ & Hs)]; auto.
  rewrite settle_none in Hs; [injection Hs as <- <-; auto|].
  apply (settle1_none_ext s); [reflexivity|apply (reach_settled c); auto|].
  intros Ri. apply (reach_idle_empty c s R Ri).
Qed.

(* ... and it is enabled: a push that is pending on a stopped server does return *)
Lemma gate_closed_enabled c s n w m p : reach c s -> running s = false -> find_op n (ops s) = Some (OpPush n w m p) ->
  step s (LRelPush n) = Some (s <| ops ::= del_op n |>, [ORet n AConnClosed]).
Proof.
  intros R Rn F. pose proof (no_crash _ _ R) as Cr.
  assert (Hr : step_raw s (LRelPush n) = Some (s <| ops ::= del_op n |>, [ORet n AConnClosed])).
  { cbn [step_raw]. rewrite F. cbn. rewrite Rn. reflexivity. }
  apply step_of_raw; auto.
  apply (settle1_none_ext s); [reflexivity|apply (reach_settled c); auto|].
  intros Ri. apply (reach_idle_empty c s R Ri).
Qed.

(** * C09.5 a record of late / duplicate / unsolicited replies, on windows *)
Lemma late_replies_filter : forall ms s, (forall m, In m ms -> late_reply s m) -> filter_batch ms s [] [] = (s, [], []).
Proof.
  induction ms as [|m r IH]; intros s H; [reflexivity|].
  rewrite late_reply_skipped; [|apply H; left; auto]. apply IH. intros x Hx. apply H. right; auto.
Qed.

Lemma late_replies_read_cs s f ms : running s = true -> msgs_feed f ms -> ms <> [] ->
  (forall m, In m ms -> late_reply s m) -> read_cs f s = (s <| rd := RIdle |>, []).
Proof.
  intros Rn (b & Hf) Ne H. destruct ms as [|m0 r]; [congruence|].
  destruct Hf as [-> | ->]; unfold read_cs; rewrite Rn; cbn [negb]; rewrite late_replies_filter; auto.
Qed.

(* the reader's window on such a record: no observation at all (nothing is sent, nothing returns); the state
   changes only in the reader's own program counter and the transport buffer it receives from *)
Theorem late_reply_step c s f ms : reach c s -> running s = true -> rd s = RHold f -> msgs_feed f ms -> ms <> [] ->
  (forall m, In m ms -> late_reply s m) ->
  exists s', step s LRelRead = Some (s', []) /\ s' = s <| rd := rd s' |> <| ch_in := ch_in s' |> /\
    ((ch_in s = [] /\ rd s' = RIdle /\ ch_in s' = []) \/
     (exists f' q, ch_in s = f' :: q /\ rd s' = RHold f' /\ ch_in s' = q)).
Proof.
  intros R Rn Rd Mf Ne Hl. pose proof (no_crash _ _ R) as Cr. pose proof (reach_settled _ _ R Cr) as St.
  assert (Hr : step_raw s LRelRead = Some (s <| rd := RIdle |>, [])).
  { cbn [step_raw]. rewrite Rd. f_equal. eapply late_replies_read_cs; eauto. }
  destruct (ch_in s) as [|f' q] eqn:Ch.
  - exists (s <| rd := RIdle |>). split; [|split].
    + apply step_of_raw; auto. apply (settle1_none_ext s); [reflexivity|auto|]. intros _. exact Ch.
    + clear. destruct s; reflexivity.
    + left. cbn. auto.
  - exists (s <| rd := RHold f' |> <| ch_in := q |>). split; [|split].
    + rewrite (step_settles _ _ _ _ Cr Hr Cr).
      assert (S1 : settle1 (s <| rd := RIdle |>) = Some (s <| rd := RHold f' |> <| ch_in := q |>, [])).
      { unfold settle1. cbn. rewrite Ch. reflexivity. }
      unfold settle_fuel. rewrite Nat.add_comm. cbn [settle Nat.add]. 
      match goal with |- context [settle ?n _ _] => destruct n as [|k] eqn:En; [cbn in En; lia|] end.
      cbn [settle]. rewrite S1. cbn [app]. rewrite settle_none; [reflexivity|].
      apply (settle1_none_ext s); [reflexivity|auto|]. cbn. discriminate.
    + clear. destruct s; reflexivity.
    + right. exists f', q. cbn. auto.
Qed.

(* spelled out: neither tasks, queue, units, registrations, callbacks nor pending operations change *)
Corollary late_reply_step_fields c s f ms : reach c s -> running s = true -> rd s = RHold f -> msgs_feed f ms ->
  ms <> [] -> (forall m, In m ms -> late_reply s m) ->
  exists s', step s LRelRead = Some (s', []) /\ tasks s' = tasks s /\ inq s' = inq s /\ units s' = units s /\
    calls s' = calls s /\ cbs s' = cbs s /\ used s' = used s /\ ops s' = ops s /\ dp s' = dp s /\ wg s' = wg s /\
    running s' = true /\ (rd s' = RIdle \/ exists f', rd s' = RHold f').
Proof.
  intros R Rn Rd Mf Ne Hl. destruct (late_reply_step _ _ _ _ R Rn Rd Mf Ne Hl) as (s' & H & E & D).
  exists s'. split; auto. rewrite E. cbn. repeat split; auto.
  destruct D as [(_ & -> & _)|(f' & q & _ & -> & _)]; eauto.
Qed.

(** * non-vacuity *)
Example gate_off_step_nonvacuous :
  exists s, reach cfg_nopush s /\ c_push s = false /\ running s = true.
Proof. exists (st_of cfg_nopush [LStart]). split; [apply reach_st_of; vm_compute; discriminate|]. split; reflexivity. Qed.

Example gate_closed_step_nonvacuous :
  exists s s' os, reach cfg_push s /\ running s = false /\ step s (LRelPush 5) = Some (s', os) /\ 0 < starts s.
Proof.
  exists (st_of cfg_push [LStart; LCallPush 5 true [109]%N [49]%N; LFeed (FErr SCEOF); LRelRead]). eexists _, _.
  split; [apply reach_st_of; vm_compute; discriminate|]. split; [reflexivity|]. split; [vm_compute; reflexivity|]. vm_compute. lia.
Qed.

(* a callback is answered, then a batch of three stale members arrives (the same reply twice, and an unknown id),
   closed by EOF data *)
Definition tr_late3 : list label :=
  tr_callback ++ [LRelPush 5; LFeed (FMsg (InMsgs false [reply_msg [49]%N [50]%N])); LRelRead;
                  LFeed (FMsgEOF (InMsgs true [reply_msg [49]%N [51]%N; reply_msg [49]%N [52]%N; error_msg [55]%N 7 []]))].
Example late_reply_step_nonvacuous :
  exists s f ms, reach cfg_push s /\ running s = true /\ rd s = RHold f /\ msgs_feed f ms /\ length ms = 3 /\
    forallb (fun m => negb (is_req_or_notif m) && is_nil (j_method m) && has_reply_fields m &&
                      match assoc (fix_id (j_id m)) (calls s) with None => true | Some _ => false end) ms = true /\
    c_push s = true.
Proof.
  exists (st_of cfg_push tr_late3). eexists _, _. split; [apply reach_st_of; vm_compute; discriminate|].
  split; [reflexivity|]. split; [vm_compute; reflexivity|]. split; [exists true; right; reflexivity|].
  split; [reflexivity|]. split; vm_compute; reflexivity.
Qed.
