(* C01: exactly one correlated response per call, none per notification. *)
From Coq Require Import List NArith ZArith Bool Arith Lia.
From RecordUpdate Require Import RecordUpdate.
From JV Require Import Bytes Msg SrvModel SrvLemmas SrvBasics.
Import ListNotations.

(** * C01.1: the shape of [responses] (pure) *)
(* what one task contributes to the reply of its message *)
Inductive rsp_spec (t : task) : list rsp -> Prop :=
| RS_call : is_note t = false -> rsp_spec t [{| r_id := t_id t; r_body := task_body t |}]
| RS_invalid_note c m : is_note t = true -> t_pre t = Some (c, m) -> c = ParseError \/ c = InvalidRequest ->
    rsp_spec t [{| r_id := null_bytes; r_body := BErr c m |}]
| RS_valid_note : is_note t = true -> t_pre t = None -> rsp_spec t []
| RS_other_note c m : is_note t = true -> t_pre t = Some (c, m) -> c <> ParseError -> c <> InvalidRequest ->
    rsp_spec t [].

Definition rsp_list (t : task) : list rsp := match response_of t with Some r => [r] | None => [] end.

Lemma rsp_list_spec t : rsp_spec t (rsp_list t).
Proof.
  unfold rsp_list, response_of. destruct (is_note t) eqn:N; [|apply RS_call; auto].
  destruct (t_pre t) as [[c m]|] eqn:P; [|apply RS_valid_note; auto].
  destruct (Z.eqb_spec c ParseError) as [->|N1]; cbn; [eapply RS_invalid_note; eauto|].
  destruct (Z.eqb_spec c InvalidRequest) as [->|N2]; cbn; [eapply RS_invalid_note; eauto|].
  eapply RS_other_note; eauto.
Qed.

Lemma responses_flat ts : responses ts = flat_map rsp_list ts.
Proof.
  induction ts as [|t r IH]; cbn; auto. unfold rsp_list at 1. destruct (response_of t); cbn; congruence.
Qed.

Theorem c01_responses_shape ts :
  exists rss, Forall2 rsp_spec ts rss /\ responses ts = concat rss.
Proof.
  exists (map rsp_list ts). split.
  - induction ts; cbn; constructor; auto. apply rsp_list_spec.
  - rewrite responses_flat, flat_map_concat_map. auto.
Qed.

(* the responses that carry an id are exactly those of the calls, in request order *)
Theorem c01_responses_calls ts : (forall t, In t ts -> t_id t <> null_bytes) ->
  filter (fun r => negb (beq (r_id r) null_bytes)) (responses ts) =
  map (fun t => {| r_id := t_id t; r_body := task_body t |}) (filter (fun t => negb (is_note t)) ts).
Proof.
  intros H. induction ts as [|t r IH]; cbn; auto.
  assert (IH' := IH (fun x Hx => H x (or_intror Hx))). clear IH.
  unfold response_of. destruct (is_note t) eqn:N; cbn.
  - destruct (t_pre t) as [[c m]|]; auto.
    destruct ((c =? ParseError)%Z || (c =? InvalidRequest)%Z); auto.
  - assert (Nn : beq (t_id t) null_bytes = false) by (apply beq_neq, H; left; reflexivity). rewrite Nn. cbn. f_equal. auto.
Qed.

(* the ids seen by a task list always satisfy the side condition: they went through fixID *)
Lemma fix_id_not_null id : fix_id id <> null_bytes.
Proof. unfold fix_id, is_null. destruct (beq_spec id null_bytes); [discriminate|auto]. Qed.

(* valid notifications produce no response at all *)
Theorem c01_responses_notes_silent ts :
  (forall t, In t ts -> is_note t = true /\ runnable t = true) -> responses ts = [].
Proof.
  intros H. induction ts as [|t r IH]; cbn; auto.
  destruct (H t (or_introl eq_refl)) as [N P]. unfold response_of. rewrite N.
  unfold runnable in P. destruct (t_pre t); [discriminate|]. apply IH. intros; apply H; right; auto.
Qed.

Lemma responses_nil_iff ts : responses ts = [] <-> forall t, In t ts -> response_of t = None.
Proof.
  induction ts as [|t r IH]; cbn; [tauto|]. destruct (response_of t) eqn:E.
  - split; [discriminate|]. intros H. specialize (H t (or_introl eq_refl)). congruence.
  - rewrite IH. split; intros H; [intros x [<-|I]; auto|intros x I; auto].
Qed.

Example c01_responses_shape_nonvacuous :
  responses [mkTask 0 [49%N] ex_m [] None true false false (TDone (Some (BRes [50%N])));
             mkTask 0 [] ex_m [] None true false false (TDone None);
             mkTask 0 [] [] [] (Some (InvalidRequest, s_empty_method)) false false false TSkip;
             mkTask 0 [] ex_m [] (Some err_not_found) true false false TSkip;
             mkTask 0 [51%N] ex_m [] (Some err_not_found) true false false TSkip]
  = [{| r_id := [49%N]; r_body := BRes [50%N] |};
     {| r_id := null_bytes; r_body := BErr InvalidRequest s_empty_method |};
     {| r_id := [51%N]; r_body := BErr MethodNotFound s_not_found |}].
Proof. reflexivity. Qed.
