(* C01: exactly one correlated response per call, none per notification. *)
From Coq Require Import List NArith ZArith Bool Arith Lia.
From RecordUpdate Require Import RecordUpdate.
From JV Require Import Bytes Msg SrvModel SrvLemmas SrvBasics SrvC07.
Import ListNotations.

(** * C01.1: the shape of [responses] (pure) *)
(* what one task contributes to the reply of its message *)
Inductive rsp_spec (t : task) : list rsp -> Prop :=
| RS_call : is_note t = false -> rsp_spec t [{| r_id := t_id t; r_body := task_body t |}]
| RS_invalid_note c m : is_note t = true -> t_pre t = Some (c, m) -> c = ParseError \/ c = InvalidRequest ->
    rsp_spec t [{| r_id := null_bytes; r_body := BErr c m |}]
| RS_valid_note : is_note t = true -> t_pre t = None -> rsp_spec t []
| RS_other_note c m : is_note t = true -> t_pre t = Some (c, m) -> c <> ParseError -> c <> InvalidRequest ->
    rsp_spec t [].

Definition rsp_list (t : task) : list rsp := match response_of t with Some r => [r] | None => [] end.

Lemma rsp_list_spec t : rsp_spec t (rsp_list t).
Proof.
  unfold rsp_list, response_of. destruct (is_note t) eqn:N; [|apply RS_call; auto].
  destruct (t_pre t) as [[c m]|] eqn:P; [|apply RS_valid_note; auto].
  destruct (Z.eqb_spec c ParseError) as [->|N1]; cbn; [eapply RS_invalid_note; eauto|].
  destruct (Z.eqb_spec c InvalidRequest) as [->|N2]; cbn; [eapply RS_invalid_note; eauto|].
  eapply RS_other_note; eauto.
Qed.

Lemma responses_flat ts : responses ts = flat_map rsp_list ts.
Proof.
  induction ts as [|t r IH]; cbn; auto. unfold rsp_list at 1. destruct (response_of t); cbn; congruence.
Qed.

Theorem c01_responses_shape ts :
  exists rss, Forall2 rsp_spec ts rss /\ responses ts = concat rss.
Proof.
  exists (map rsp_list ts). split.
  - induction ts; cbn; constructor; auto. apply rsp_list_spec.
  - rewrite responses_flat, flat_map_concat_map. auto.
Qed.

(* the responses that carry an id are exactly those of the calls, in request order *)
Theorem c01_responses_calls ts : (forall t, In t ts -> t_id t <> null_bytes) ->
  filter (fun r => negb (beq (r_id r) null_bytes)) (responses ts) =
  map (fun t => {| r_id := t_id t; r_body := task_body t |}) (filter (fun t => negb (is_note t)) ts).
Proof.
  intros H. induction ts as [|t r IH]; cbn; auto.
  assert (IH' := IH (fun x Hx => H x (or_intror Hx))). clear IH.
  unfold response_of. destruct (is_note t) eqn:N; cbn.
  - destruct (t_pre t) as [[c m]|]; auto.
    destruct ((c =? ParseError)%Z || (c =? InvalidRequest)%Z); auto.
  - assert (Nn : beq (t_id t) null_bytes = false) by (apply beq_neq, H; left; reflexivity). rewrite Nn. cbn. f_equal. auto.
Qed.

(* the ids seen by a task list always satisfy the side condition: they went through fixID *)
Lemma fix_id_not_null id : fix_id id <> null_bytes.
Proof. unfold fix_id, is_null. destruct (beq_spec id null_bytes); [discriminate|auto]. Qed.

(* valid notifications produce no response at all *)
Theorem c01_responses_notes_silent ts :
  (forall t, In t ts -> is_note t = true /\ runnable t = true) -> responses ts = [].
Proof.
  intros H. induction ts as [|t r IH]; cbn; auto.
  destruct (H t (or_introl eq_refl)) as [N P]. unfold response_of. rewrite N.
  unfold runnable in P. destruct (t_pre t); [discriminate|]. apply IH. intros; apply H; right; auto.
Qed.

Lemma responses_nil_iff ts : responses ts = [] <-> forall t, In t ts -> response_of t = None.
Proof.
  induction ts as [|t r IH]; cbn; [tauto|]. destruct (response_of t) eqn:E.
  - split; [discriminate|]. intros H. specialize (H t (or_introl eq_refl)). congruence.
  - rewrite IH. split; intros H; [intros x [<-|I]; auto|intros x I; auto].
Qed.

Example c01_responses_shape_nonvacuous :
  responses [mkTask 0 [49%N] ex_m [] None true false false (TDone (Some (BRes [50%N])));
             mkTask 0 [] ex_m [] None true false false (TDone None);
             mkTask 0 [] [] [] (Some (InvalidRequest, s_empty_method)) false false false TSkip;
             mkTask 0 [] ex_m [] (Some err_not_found) true false false TSkip;
             mkTask 0 [51%N] ex_m [] (Some err_not_found) true false false TSkip]
  = [{| r_id := [49%N]; r_body := BRes [50%N] |};
     {| r_id := null_bytes; r_body := BErr InvalidRequest s_empty_method |};
     {| r_id := [51%N]; r_body := BErr MethodNotFound s_not_found |}].
Proof. reflexivity. Qed.

(** * Which windows emit handler entries and messages *)
Definition is_ret (o : obs) : Prop := match o with ORet _ _ => True | _ => False end.

Lemma complete_cb_obs i r s : Forall is_ret (snd (complete_cb i r s)).
Proof.
  unfold complete_cb. destruct (nth_error (cbs s) i); cbn; [|constructor].
  destruct (cb_ret c); repeat constructor.
Qed.

Lemma filter_batch_obs ms : forall s keep acc s' keep' os,
  filter_batch ms s keep acc = (s', keep', os) -> Forall is_ret acc -> Forall is_ret os.
Proof.
  induction ms as [|m r IH]; cbn; intros s keep acc s' keep' os H Fa.
  - injection H as _ _ <-. auto.
  - destruct (is_req_or_notif m); [eapply IH; eauto|].
    destruct (assoc (fix_id (j_id m)) (calls s)) as [i|].
    + pose proof (complete_cb_obs i (match j_error m with
         | Some e => CErr (we_code e) (we_msg e) | None => CRes (j_result m) end) s) as K.
      destruct (complete_cb i _ s) as [s1 os1]. cbn in K.
      eapply IH; eauto. apply Forall_app; auto.
    + destruct (c_push s && is_nil (j_method m) && has_reply_fields m); eapply IH; eauto.
Qed.

Definition null_err (c : Z) (m : bytes) : rsp := {| r_id := null_bytes; r_body := BErr c m |}.

Definition obs_origin (s : state) (l : label) (s1 : state) (o : obs) : Prop :=
  match o with
  | OStart p cn =>
      exists k t t', nth_error (tasks s) k = Some t /\ nth_error (tasks s1) k = Some t' /\
        t_params t = p /\ t_cancelled t = cn /\ rank (t_st t) < 2 /\ t_st t' = TRunning /\ t_builtin t = false /\
        (l = LRelAcquire k \/ exists k0, l = LRelHandled k0 /\ k0 <> k)
  | OSend ok b rs =>
      (exists u un, l = LRelDeliver u /\ nth_error (units s) u = Some un /\ u_st un = UAtDeliver /\
                    u_chok un = true /\ rs = responses (unit_tasks s u) /\ b = u_batch un) \/
      (l = LRelRead /\ running s = true /\ b = false /\
       exists i, (rd s = RHold (FMsg i) \/ rd s = RHold (FMsgEOF i)) /\
         ((i = InBad /\ rs = [null_err ParseError s_invalid_value]) \/
          (exists bb, i = InMsgs bb [] /\ rs = [null_err InvalidRequest s_empty_batch])))
  | _ => True
  end.

Lemma read_cs_obs f i s s' os o : f = FMsg i \/ f = FMsgEOF i -> running s = true -> rd s = RHold f ->
  read_cs f s = (s', os) -> In o os -> obs_origin s LRelRead s' o.
Proof.
  intros Hf R Rd H Ho.
  assert (H' : (match i with
           | InBad => let '(s', os) := push_error s ParseError s_invalid_value in (s' <| rd := RIdle |>, os)
           | InMsgs _ [] => let '(s', os) := push_error s InvalidRequest s_empty_batch in (s' <| rd := RIdle |>, os)
           | InMsgs b ms =>
               let '(s1, keep, os) := filter_batch ms s [] [] in
               match keep with
               | [] => (s1 <| rd := RIdle |>, os)
               | _ => let s2 := s1 <| inq ::= fun q => q ++ [(b, keep)] |> <| rd := RIdle |> in
                      if work_closed s2 && (length (inq s2) =? 1)
                      then (s2 <| crash := Some CrSendOnClosedWork |>, os ++ [OCrash CrSendOnClosedWork])
                      else (s2, os)
               end
           end) = (s', os)).
  { destruct Hf as [-> | ->]; unfold read_cs in H; rewrite R in H; exact H. }
  clear H.
  assert (Hrd : rd s = RHold (FMsg i) \/ rd s = RHold (FMsgEOF i)) by (destruct Hf as [-> | ->]; auto).
  destruct i as [|b ms].
  - cbn in H'. injection H' as <- <-. destruct Ho as [<-|[]]. cbn. right. repeat split; auto.
    exists InBad. split; auto.
  - destruct ms as [|m ms].
    + cbn in H'. injection H' as <- <-. destruct Ho as [<-|[]]. cbn. right. repeat split; auto.
      exists (InMsgs b []). split; auto. right. exists b. auto.
    + destruct (filter_batch (m :: ms) s [] []) as [[s1 keep] os1] eqn:F.
      apply filter_batch_obs in F; [|constructor].
      assert (Ir : forall o, In o os1 -> obs_origin s LRelRead s' o).
      { intros o' Ho'. rewrite Forall_forall in F. specialize (F _ Ho'). destruct o'; cbn in F; tauto. }
      destruct keep as [|k0 kr].
      * injection H' as <- <-. auto.
      * cbv zeta in H'.
        match type of H' with (if ?c then _ else _) = _ => destruct c end; injection H' as <- <-; auto.
        apply in_app_or in Ho as [Ho|[<-|[]]]; [|exact Logic.I].
        rewrite Forall_forall in F. specialize (F _ Ho). destruct o; cbn in F; tauto.
Qed.

Lemma raw_obs s l s1 os1 o : inv s -> step_raw s l = Some (s1, os1) -> In o os1 -> obs_origin s l s1 o.
Proof.
  intros I H Ho. destruct l; unfold step_raw in H.
  - destruct (negb (running s) && (wg s =? 0)); [|discriminate]. injection H as <- <-. destruct Ho.
  - injection H as <- <-. destruct Ho.
  - injection H as <- <-. destruct Ho.
  - destruct (find_idx _ 0 (tasks s)) as [k|]; [|discriminate].
    destruct (nth_error (tasks s) k) as [t|]; [|discriminate]. injection H as <- <-.
    destruct Ho as [<-|[]]. exact Logic.I.
  - injection H as <- <-. destruct Ho.
  - injection H as <- <-. destruct Ho.
  - destruct (c_push s); injection H as <- <-; [destruct Ho|]. destruct Ho as [<-|[]]. exact Logic.I.
  - injection H as <- <-. destruct Ho.
  - destruct (find_idx _ 0 (cbs s)); injection H as <- <-; destruct Ho.
  - (* LRelRead *)
    destruct (rd s) as [| |f|] eqn:Rd; try discriminate. injection H as H.
    destruct f as [i|i|c].
    3:{ cbn in H. destruct (stop_locked c s) as [s0 os0] eqn:St. injection H as <- <-.
        apply stop_locked_spec in St as [(_ & _ & ->)|(_ & -> & _)]; [destruct Ho|].
        destruct Ho as [<-|[]]. exact Logic.I. }
    all: destruct (running s) eqn:Rn;
      [ refine (read_cs_obs _ i _ _ _ _ _ Rn Rd H Ho); auto
      | cbn in H; rewrite Rn in H; cbn in H; injection H as <- <-; destruct Ho ].
  - destruct (dp s); try discriminate. injection H as <- <-. destruct Ho.
  - destruct (dp s); try discriminate. injection H as <- <-. destruct Ho.
  - (* LRelAcquire *)
    destruct (nth_error (tasks s) k) as [t|] eqn:E; [|discriminate].
    destruct (t_st t) eqn:St; try discriminate.
    destruct (negb (unit_running s t)); [discriminate|].
    destruct (t_cancelled t) eqn:Cn; [injection H as <- <-; destruct Ho|].
    destruct (sem_free s); [injection H as <- <-; destruct Ho|].
    destruct (sem_wait s); [|injection H as <- <-; destruct Ho].
    destruct (t_builtin t) eqn:B; injection H as <- <-; [destruct Ho|].
    destruct Ho as [<-|[]]. cbn. exists k, t, (t <| t_st := TRunning |>). rewrite St.
    repeat split; auto. erewrite nth_error_upd_nth_eq; eauto.
  - (* LRelHandled *)
    destruct (nth_error (tasks s) k) as [tk|] eqn:E; [|discriminate].
    destruct (t_st tk) eqn:St; try discriminate.
    set (s0 := set_task k (fun t => t <| t_st := TDone (body_of_outcome t o0) |>) s <| sem_free ::= S |>) in *.
    assert (W0 : wait_ok s0).
    { unfold wait_ok, s0; cbn. apply wait_ok_upd; [apply I|]. eapply wait_not_in; eauto; [apply I|congruence]. }
    pose proof (grant_spec (S (length (sem_wait s0))) s0 [] W0) as G.
    destruct (grant (S (length (sem_wait s0))) s0 []) as [s2 os2]. cbn [fst snd] in G.
    destruct (gp_obs _ _ _ _ G) as (extra & Eo & Ex). cbn in Eo. subst os2.
    assert (Hin : In o extra \/ exists ck, o = OCrash ck).
    { destruct (is_note tk); [destruct (nbar s2)|]; injection H as <- <-; auto.
      apply in_app_or in Ho as [Ho|[<-|[]]]; eauto. }
    destruct Hin as [Hin|(ck & ->)]; [|exact Logic.I].
    destruct (Ex _ Hin) as (j & t & t' & -> & Ej & Sj & Bj & Ej' & Sj').
    assert (Nj : k <> j).
    { intros <-. unfold s0 in Ej. cbn in Ej. erewrite nth_error_upd_nth_eq in Ej; eauto.
      injection Ej as <-. cbn in Sj. discriminate. }
    assert (Ej0 : nth_error (tasks s) j = Some t).
    { unfold s0 in Ej. cbn in Ej. rewrite nth_error_upd_nth_neq in Ej; auto. }
    assert (Ej1 : nth_error (tasks s1) j = Some t').
    { destruct (is_note tk); [destruct (nbar s2)|]; injection H as <- <-; exact Ej'. }
    cbn. exists j, t, t'. rewrite Sj. repeat split; auto. right. exists k. auto.
  - (* LRelDeliver *)
    destruct (nth_error (units s) u) as [un|] eqn:E; [|discriminate].
    destruct (u_st un) eqn:Su; try discriminate.
    destruct (u_chok un) eqn:Ck; cbn in H; injection H as <- <-; destruct Ho as [<-|[]]; [|exact Logic.I].
    cbn. left. exists u, un. repeat split; auto.
  - destruct (find_op n (ops s)) as [[n0|n0 id|n0 w m p]|]; try discriminate.
    destruct (stop_locked SCStop (s <| ops ::= del_op n |>)) as [s0 os0] eqn:St. injection H as <- <-.
    apply stop_locked_spec in St as [(_ & _ & ->)|(_ & -> & _)]; cbn in Ho.
    + destruct Ho as [<-|[]]. exact Logic.I.
    + destruct Ho as [<-|[<-|[]]]; exact Logic.I.
  - destruct (find_op n (ops s)) as [[n0|n0 id|n0 w m p]|]; try discriminate.
    injection H as <- <-. destruct Ho as [<-|[]]. exact Logic.I.
  - destruct (find_op n (ops s)) as [[n0|n0 id|n0 w m p]|]; try discriminate.
    cbn in H. destruct (running s); cbn in H; [|injection H as <- <-; destruct Ho as [<-|[]]; exact Logic.I].
    destruct w; [|injection H as <- <-; destruct Ho as [<-|[<-|[]]]; exact Logic.I].
    destruct (send_fail s); [injection H as <- <-; destruct Ho as [<-|[<-|[]]]; exact Logic.I|].
    destruct (find _ (ended s)) as [[? ?]|]; injection H as <- <-; destruct Ho as [<-|[]]; exact Logic.I.
  - destruct (nth_error (cbs s) c) as [cb0|]; [|discriminate].
    destruct (cb_watch cb0); try discriminate.
    assert (Q : forall (x : state * list obs), Forall is_ret (snd x) -> Some x = Some (s1, os1) -> obs_origin s (LRelCbWatch c) s1 o).
    { intros [x1 x2] Fx [= <- <-]. cbn in Fx. rewrite Forall_forall in Fx. specialize (Fx _ Ho).
      destruct o; cbn in Fx; tauto. }
    cbv zeta in H.
    destruct (assoc (cb_id cb0) _) as [j|]; [|eapply Q; [|exact H]; constructor].
    destruct (cb_slot cb0); [eapply Q; [|exact H]; constructor|].
    destruct (j =? c); [|eapply Q; [|exact H]; constructor].
    destruct (match cb_ctx cb0 with Some WDeadline => _ | _ => _ end) as [code msg].
    eapply Q; [|exact H]. apply complete_cb_obs.
Qed.


(* an observation of a window that is not a WaitStatus return or a crash report comes from its critical section *)
Lemma step_obs_raw s l s' os o : step s l = Some (s', os) -> In o os -> ~ settle_obs o ->
  crash s = None /\ exists s1 os1, step_raw s l = Some (s1, os1) /\ In o os1 /\ keeps_tasks s1 s'.
Proof.
  intros H Ho Ns. apply step_decompose in H as (Cr & s1 & os1 & Hr & [(_ & -> & ->)|(_ & Hs)]).
  - split; auto. exists s1, os1. repeat split; auto. intros k t E; auto.
  - split; auto. exists s1, os1. split; auto.
    pose proof (settle_keeps _ _ _ _ _ Hs) as K. apply settle_obs_app in Hs as (extra & -> & Fa).
    split; auto. apply in_app_or in Ho as [Ho|Ho]; auto.
    rewrite Forall_forall in Fa. destruct (Ns (Fa _ Ho)).
Qed.

(** * C01.3: a message is sent once, by deliver, when all its handlers have returned *)
Theorem c01_send_origin c s l s' os ok b rs : reach c s -> step s l = Some (s', os) -> In (OSend ok b rs) os ->
  (exists u un, l = LRelDeliver u /\ nth_error (units s) u = Some un /\ u_st un = UAtDeliver /\
                rs = responses (unit_tasks s u) /\ b = u_batch un /\ all_finished s u = true) \/
  (l = LRelRead /\ b = false /\
   (rs = [null_err ParseError s_invalid_value] \/ rs = [null_err InvalidRequest s_empty_batch])).
Proof.
  intros R H Ho. apply reach_reachf in R. pose proof (reachf_inv _ _ R) as I.
  destruct (step_obs_raw _ _ _ _ _ H Ho) as (Cr & s1 & os1 & Hr & Ho1 & _); [cbn; tauto|].
  pose proof (raw_obs _ _ _ _ _ I Hr Ho1) as O. cbn in O.
  destruct O as [(u & un & -> & E & Su & _ & -> & ->)|(-> & _ & -> & i & _ & [(_ & ->)|(bb & _ & ->)])].
  - left. exists u, un. repeat split; auto. apply (i_fin _ I _ _ E). auto.
  - right. auto.
  - right. auto.
Qed.

(* the deliver window sends exactly one message *)
Theorem c01_deliver_window c s u s' os : reach c s -> step s (LRelDeliver u) = Some (s', os) ->
  exists un, nth_error (units s) u = Some un /\ u_st un = UAtDeliver /\ all_finished s u = true /\
    ((u_chok un = true /\ exists ok extra,
        os = OSend ok (u_batch un) (responses (unit_tasks s u)) :: extra /\ Forall settle_obs extra) \/
     (u_chok un = false /\ os = [OCrash CrNilChannel])).
Proof.
  intros R H. apply reach_reachf in R. pose proof (reachf_inv _ _ R) as I.
  apply step_decompose in H as (Cr & s1 & os1 & Hr & Hs). unfold step_raw in Hr.
  destruct (nth_error (units s) u) as [un|] eqn:E; [|discriminate].
  destruct (u_st un) eqn:Su; try discriminate.
  exists un. repeat split; auto. { apply (i_fin _ I _ _ E). auto. }
  destruct (u_chok un); cbn in Hr; injection Hr as <- <-.
  - left. split; auto. destruct Hs as [(_ & _ & ->)|(_ & Hs)].
    + eexists _, []. split; [reflexivity|auto].
    + apply settle_obs_app in Hs as (extra & -> & Fa). eexists _, extra. split; [reflexivity|auto].
  - right. split; auto. destruct Hs as [(_ & _ & ->)|(Cr1 & _)]; auto. cbn in Cr1. discriminate.
Qed.

Definition is_deliver (u : nat) (l : label) : bool := match l with LRelDeliver v => v =? u | _ => false end.
Definition ufin (s : state) (u : nat) : bool :=
  match nth_error (units s) u with Some un => match u_st un with UFinished => true | _ => false end | None => false end.

Lemma ufin_mono s s' u : units_ext (units s) (units s') -> ufin s u = true -> ufin s' u = true.
Proof.
  unfold ufin. intros X H. destruct (nth_error (units s) u) as [un|] eqn:E; [|discriminate].
  destruct (X _ _ E) as (un' & E' & Le). rewrite E'. destruct Le as [_ _ _ Rk].
  destruct (u_st un); try discriminate. destruct (u_st un'); cbn in Rk; auto; lia.
Qed.

Lemma settle_ext c : forall fuel s acc s' os, reachf c s -> settle fuel s acc = (s', os) -> ext s s'.
Proof.
  apply (lift_settle c ext ext_refl ext_trans).
  intros a b os0 Ra H. eapply settle1_ok; eauto. eapply reachf_inv; eauto.
Qed.

Lemma deliver_finishes c s u s' os : reachf c s -> step s (LRelDeliver u) = Some (s', os) ->
  crash s' <> None \/ ufin s' u = true.
Proof.
  intros R H. apply step_decompose in H as (Cr & s1 & os1 & Hr & Hs).
  assert (R1 : reachf c s1) by (eapply rf_raw; eauto).
  unfold step_raw in Hr.
  destruct (nth_error (units s) u) as [un|] eqn:E; [|discriminate].
  destruct (u_st un) eqn:Su; try discriminate.
  destruct (release_ids_spec (unit_tasks s u) s) as [_ _ _ (Eu & _) _ _ _].
  destruct (u_chok un); cbn in Hr; injection Hr as <- <-.
  - assert (F1 : ufin (set_unit u (fun x => x <| u_st := UFinished |>) (release_ids (unit_tasks s u) s) <| wg ::= pred |>) u = true).
    { unfold ufin. cbn. rewrite Eu. erewrite nth_error_upd_nth_eq; eauto. }
    destruct Hs as [(_ & -> & _)|(_ & Hs)]; [right; exact F1|].
    right. eapply ufin_mono; [|exact F1]. apply (settle_ext c _ _ _ _ _ R1 Hs).
  - left. destruct Hs as [(_ & -> & _)|(Cr1 & _)]; [cbn; discriminate|cbn in Cr1; discriminate].
Qed.

Lemma run_crashed s tr s' oss : crash s <> None -> run s tr = Some (s', oss) -> tr = [].
Proof.
  destruct tr as [|l r]; auto. cbn. unfold step. destruct (crash s); [discriminate|congruence].
Qed.

Lemma deliver_once_from c u : forall tr s s' oss, reachf c s -> run s tr = Some (s', oss) ->
  countb (is_deliver u) tr <= (if ufin s u then 0 else 1).
Proof.
  induction tr as [|l r IH]; intros s s' oss R H; [cbn; destruct (ufin s u); lia|].
  cbn in H. destruct (step s l) as [[s1 os]|] eqn:St; [|discriminate].
  destruct (run s1 r) as [[s2 oss2]|] eqn:Rn; [|discriminate].
  assert (R1 : reachf c s1) by (eapply step_reachf; eauto).
  specialize (IH _ _ _ R1 Rn). cbn [countb].
  destruct (is_deliver u l) eqn:D.
  - destruct l; try discriminate D. cbn in D. apply Nat.eqb_eq in D. subst u0.
    assert (Nf : ufin s u = false).
    { unfold step in St. destruct (crash s); [discriminate|]. unfold step_raw in St. unfold ufin.
      destruct (nth_error (units s) u) as [un|]; auto. destruct (u_st un); auto; discriminate. }
    rewrite Nf. destruct (deliver_finishes _ _ _ _ _ R St) as [Cr|F].
    + apply (run_crashed _ _ _ _ Cr) in Rn. subst r. cbn. lia.
    + rewrite F in IH. lia.
  - destruct (ufin s u) eqn:F; [|destruct (ufin s1 u); lia].
    rewrite (ufin_mono s s1 u) in IH; auto. apply (step_ext _ _ _ _ _ R St).
Qed.

Theorem c01_deliver_once c tr s oss u : run (init_of c) tr = Some (s, oss) -> countb (is_deliver u) tr <= 1.
Proof.
  intros H. pose proof (deliver_once_from c u tr _ _ _ (rf_init c) H) as B.
  destruct (ufin (init_of c) u); lia.
Qed.

Example c01_deliver_once_nonvacuous :
  run (init_of ex_cfg) ex_tr_delivered <> None /\ countb (is_deliver 0) ex_tr_delivered = 1 /\
  obs_of ex_cfg ex_tr_delivered =
    [[]; []; []; []; []; [OStart [91%N; 93%N] false]; [OGate [91%N; 93%N] false]; [];
     [OSend true false [{| r_id := [49%N]; r_body := BRes [50%N] |}]]].
Proof. vm_compute. repeat split; auto. discriminate. Qed.

Example c01_send_origin_nonvacuous :
  exists s s' os ok b rs, reach ex_cfg s /\ step s (LRelDeliver 0) = Some (s', os) /\ In (OSend ok b rs) os.
Proof.
  exists (st_of ex_cfg ex_tr_atdeliver). eexists _, _, _, _, _.
  split; [apply reach_st_of; vm_compute; discriminate|]. compute. split; [reflexivity|]. left; reflexivity.
Qed.

(** * The shape of a raw step on tasks and units *)
Inductive raw_shape (s : state) (l : label) (s' : state) : Prop :=
| RS_same : units s' = units s -> length (tasks s') = length (tasks s) -> raw_shape s l s'
| RS_dequeue : s' = dequeue s -> raw_shape s l s'
| RS_deliver u un : l = LRelDeliver u -> nth_error (units s) u = Some un -> u_st un = UAtDeliver ->
    units s' = upd_nth u (fun x => x <| u_st := UFinished |>) (units s) ->
    length (tasks s') = length (tasks s) -> raw_shape s l s'.

Lemma raw_shape_ok s l s' os : inv s -> step_raw s l = Some (s', os) -> raw_shape s l s'.
Proof.
  intros I H. destruct (frame_label l) eqn:Fl.
  { apply step_raw_frame in H as (C & _); auto. unfold core in C. injection C as T U _. apply RS_same; congruence. }
  destruct (taskonly_label l) eqn:Tl.
  { destruct (raw_taskonly _ _ _ _ I Tl H) as (U & _). destruct (raw_taskonly_used _ _ _ _ I Tl H) as (L & _).
    apply RS_same; auto. }
  destruct l; try discriminate Fl; try discriminate Tl; unfold step_raw in H.
  - destruct (negb (running s) && (wg s =? 0)); [|discriminate]. injection H as <- <-. apply RS_same; auto.
  - destruct (rd s) as [| |f|] eqn:Rd; try discriminate. injection H as H.
    destruct f as [i|i|c].
    3:{ cbn in H. destruct (stop_locked c s) as [s0 os0] eqn:St. injection H as <- <-.
        apply stop_locked_spec in St as [(_ & -> & _)|(_ & _ & P)]; [apply RS_same; auto|].
        destruct P. apply RS_same; cbn; auto. }
    all: destruct (running s) eqn:Rn;
      [ eapply read_cs_msg in H as (C & _); eauto; unfold core0 in C; injection C as T U _; apply RS_same; congruence
      | cbn in H; rewrite Rn in H; cbn in H; injection H as <- <-; apply RS_same; auto ].
  - destruct (dp s); try discriminate. injection H as <- <-. apply RS_dequeue; auto.
  - destruct (dp s); try discriminate. injection H as <- <-. apply RS_same; auto.
  - destruct (nth_error (units s) u) as [un|] eqn:E; [|discriminate].
    destruct (u_st un) eqn:Su; try discriminate.
    destruct (release_ids_spec (unit_tasks s u) s) as [_ _ L (Eu & _) _ _ _].
    destruct (u_chok un); cbn in H; injection H as <- <-.
    + eapply RS_deliver; eauto. cbn. rewrite Eu. auto.
    + apply RS_same; auto.
Qed.

(* new tasks belong to new units *)
Definition fresh_units (s s' : state) : Prop :=
  forall k t, length (tasks s) <= k -> nth_error (tasks s') k = Some t -> length (units s) <= t_unit t.
Definition ext2 (s s' : state) : Prop := ext s s' /\ fresh_units s s'.

Lemma ext2_refl s : ext2 s s.
Proof. split; [apply ext_refl|]. intros k t L E. apply nth_error_some_lt in E. lia. Qed.

Lemma ext2_trans a b d : ext2 a b -> ext2 b d -> ext2 a d.
Proof.
  intros [[Ta Ua] Fa] [[Tb Ub] Fb]. split; [eapply ext_trans; split; eauto|].
  intros k t L E. destruct (Nat.lt_ge_cases k (length (tasks b))) as [Lt|Ge].
  - destruct (nth_error (tasks b) k) as [tb|] eqn:Eb; [|apply nth_error_None in Eb; lia].
    destruct (Tb _ _ Eb) as (t2 & E2 & Le). rewrite E in E2. injection E2 as <-.
    destruct Le as [Lu _ _ _ _ _ _ _ _]. rewrite Lu. eapply Fa; eauto.
  - pose proof (list_ext_len _ _ _ Ua). specialize (Fb _ _ Ge E). lia.
Qed.

Lemma dequeue_fresh s : fresh_units s (dequeue s).
Proof.
  intros k t L E. unfold dequeue in E. destruct (inq s) as [|[b ms] q].
  - destruct (running s); cbn in E; apply nth_error_some_lt in E; lia.
  - cbn in E. rewrite nth_error_app2 in E by auto. apply nth_error_In, in_map_iff in E as (m & <- & _).
    rewrite mk_task_unit. lia.
Qed.

Lemma raw_ext2 c s l s' os : reachf c s -> crash s = None -> step_raw s l = Some (s', os) -> ext2 s s'.
Proof.
  intros R _ H. pose proof (reachf_inv _ _ R) as I. split; [eapply raw_step_ok; eauto|].
  destruct (raw_shape_ok _ _ _ _ I H) as [U L| -> |u un _ _ _ U L].
  - intros k t Lk E. apply nth_error_some_lt in E. lia.
  - apply dequeue_fresh.
  - intros k t Lk E. apply nth_error_some_lt in E. lia.
Qed.

Lemma settle1_ext2 c s s' os : reachf c s -> settle1 s = Some (s', os) -> ext2 s s'.
Proof.
  intros R H. pose proof (reachf_inv _ _ R) as I. split; [eapply settle1_ok; eauto|].
  apply settle1_inv in H. destruct H; try (intros k t Lk E; cbn in E; apply nth_error_some_lt in E; lia).
  apply dequeue_fresh.
Qed.

Lemma step_ext2 c s l s' os : reachf c s -> step s l = Some (s', os) -> ext2 s s'.
Proof. apply (lift_step c ext2 ext2_refl ext2_trans (raw_ext2 c) (settle1_ext2 c)). Qed.
Lemma run_ext2 c tr s s' oss : reachf c s -> run s tr = Some (s', oss) -> ext2 s s'.
Proof. apply (lift_run c ext2 ext2_refl ext2_trans (raw_ext2 c) (settle1_ext2 c)). Qed.

(* whether a task contributes a response depends only on its id and its recorded error *)
Lemma response_none_le t t' : task_le t t' -> (response_of t = None <-> response_of t' = None).
Proof.
  intros [_ Li _ _ Lp _ _ _ _]. unfold response_of, is_note. rewrite Li, Lp.
  destruct (is_nil (t_id t)); [tauto|]. split; discriminate.
Qed.

Lemma silent_stable s s' u : ext2 s s' -> u < length (units s) ->
  (responses (unit_tasks s u) = [] <-> responses (unit_tasks s' u) = []).
Proof.
  intros [[X _] Fr] Lu. rewrite !responses_nil_iff. unfold unit_tasks. split; intros H t Ht.
  - apply filter_In in Ht as [It Ut]. apply Nat.eqb_eq in Ut. apply In_nth_error in It as [k Ek].
    destruct (nth_error (tasks s) k) as [t0|] eqn:E0.
    + destruct (X _ _ E0) as (t2 & E2 & Le). rewrite Ek in E2. injection E2 as <-.
      apply (response_none_le _ _ Le). apply H. apply filter_In. split; [eapply nth_error_In; eauto|].
      destruct Le as [Lun _ _ _ _ _ _ _ _]. apply Nat.eqb_eq. congruence.
    + apply nth_error_None in E0. specialize (Fr _ _ E0 Ek). lia.
  - apply filter_In in Ht as [It Ut]. apply Nat.eqb_eq in Ut. apply In_nth_error in It as [k Ek].
    destruct (X _ _ Ek) as (t2 & E2 & Le). apply (response_none_le _ _ Le). apply H.
    apply filter_In. split; [eapply nth_error_In; eauto|].
    destruct Le as [Lun _ _ _ _ _ _ _ _]. apply Nat.eqb_eq. congruence.
Qed.

(* a unit waits at deliver only if it has something to say *)
Definition inv_deliv (s : state) : Prop :=
  forall u un, nth_error (units s) u = Some un -> u_st un = UAtDeliver -> responses (unit_tasks s u) <> [].

Theorem reachf_inv_deliv c s : reachf c s -> inv_deliv s.
Proof.
  induction 1 as [|s l s' os R IH Cr H|s s' os R IH H].
  - intros [|u] un E; discriminate.
  - pose proof (reachf_inv _ _ R) as I. pose proof (raw_ext2 _ _ _ _ _ R Cr H) as X2.
    intros u un' E' Su'.
    assert (Old : exists un, nth_error (units s) u = Some un /\ u_st un = UAtDeliver).
    { destruct (raw_shape_ok _ _ _ _ I H) as [U L| -> |v un _ Ev Sv U L].
      - rewrite U in E'. eauto.
      - unfold dequeue in E'. destruct (inq s) as [|[b ms] q]; [destruct (running s); cbn in E'; eauto|].
        cbn in E'. destruct (Nat.lt_ge_cases u (length (units s))) as [Lt|Ge].
        + rewrite nth_error_app1 in E' by auto. eauto.
        + rewrite nth_error_app2 in E' by auto. destruct (u - length (units s)) as [|[|n]]; cbn in E'; try discriminate.
          injection E' as <-. discriminate.
      - rewrite U, nth_error_upd_nth in E'. destruct (Nat.eqb_spec v u) as [Evu|N]; eauto.
        subst v. rewrite Ev in E'. cbn in E'. injection E' as <-. discriminate. }
    destruct Old as (un & E & Su). intros Z. apply (IH _ _ E Su).
    apply (silent_stable s s' u X2); auto. apply nth_error_some_lt in E. auto.
  - pose proof (reachf_inv _ _ R) as I. pose proof (settle1_ext2 _ _ _ _ R H) as X2.
    intros u un' E' Su' Z.
    assert (Lu : u < length (units s)).
    { apply settle1_inv in H. destruct H; cbn in E'; try (apply nth_error_some_lt in E'; rewrite ?upd_nth_length in E'; auto; fail).
      unfold dequeue in E'. destruct (inq s) as [|[b ms] q]; [destruct (running s); cbn in E'; apply nth_error_some_lt in E'; auto|].
      cbn in E'. destruct (Nat.lt_ge_cases u (length (units s))) as [Lt|Ge]; auto.
      rewrite nth_error_app2 in E' by auto. destruct (u - length (units s)) as [|[|n]]; cbn in E'; try discriminate.
      injection E' as <-. discriminate. }
    apply (silent_stable s s' u X2) in Z; auto.
    apply settle1_inv in H. destruct H; cbn in E'; try (eapply IH; eauto; fail).
    + unfold dequeue in E'. destruct (inq s) as [|[b ms] q]; [destruct (running s); cbn in E'; eapply IH; eauto|].
      cbn in E'. rewrite nth_error_app1 in E' by auto. eapply IH; eauto.
    + rewrite nth_error_upd_nth in E'. destruct (Nat.eqb_spec u0 u) as [->|N]; [|eapply IH; eauto].
      rewrite H1 in E'. cbn in E'. injection E' as <-. discriminate.
    + rewrite nth_error_upd_nth in E'. destruct (Nat.eqb_spec i u) as [->|N]; [|eapply IH; eauto].
      rewrite H0 in E'. cbn in E'. injection E' as <-. discriminate.
    + rewrite nth_error_upd_nth in E'. destruct (Nat.eqb_spec i u) as [->|N]; [|eapply IH; eauto].
      congruence.
Qed.

(** * C01.5: a message with nothing to report produces no output at all *)
Theorem c01_silent_unit c s u un tr s' oss : reach c s -> nth_error (units s) u = Some un ->
  responses (unit_tasks s u) = [] -> run s tr = Some (s', oss) ->
  responses (unit_tasks s' u) = [] /\
  (forall un', nth_error (units s') u = Some un' -> u_st un' <> UAtDeliver) /\
  countb (is_deliver u) tr = 0.
Proof.
  intros R0 E Z H. pose proof (reach_reachf _ _ R0) as R.
  assert (R' : reachf c s') by (apply reach_reachf; eapply run_reach; eauto).
  assert (Lu : u < length (units s)) by (eapply nth_error_some_lt; eauto).
  assert (Z' : responses (unit_tasks s' u) = []).
  { apply (silent_stable s s' u); auto. eapply run_ext2; eauto. }
  split; auto. split.
  - intros un' E' Su'. exact (reachf_inv_deliv c s' R' u un' E' Su' Z').
  - clear Z' E R' R0. revert s s' oss R Z Lu H. induction tr as [|l r IH]; intros s s' oss R Z Lu H; auto.
    cbn in H. destruct (step s l) as [[s1 os]|] eqn:St; [|discriminate].
    destruct (run s1 r) as [[s2 oss2]|] eqn:Rn; [|discriminate].
    assert (R1 : reachf c s1) by (eapply step_reachf; eauto).
    pose proof (step_ext2 _ _ _ _ _ R St) as X2.
    assert (Z1 : responses (unit_tasks s1 u) = []) by (apply (silent_stable s s1 u); auto).
    assert (Lu1 : u < length (units s1)).
    { destruct X2 as [[_ Xu] _]. pose proof (list_ext_len _ _ _ Xu). lia. }
    cbn [countb]. rewrite (IH _ _ _ R1 Z1 Lu1 Rn).
    destruct (is_deliver u l) eqn:D; auto. exfalso.
    destruct l; try discriminate D. cbn in D. apply Nat.eqb_eq in D. subst u0.
    unfold step in St. destruct (crash s); [discriminate|]. unfold step_raw in St.
    destruct (nth_error (units s) u) as [un0|] eqn:E; [|discriminate].
    destruct (u_st un0) eqn:Su; try discriminate.
    apply (reachf_inv_deliv c s R u un0 E Su Z).
Qed.

(* such a unit leaves URunning only to UFinished *)
Theorem c01_silent_unit_step c s u un l s' os un' : reach c s -> nth_error (units s) u = Some un ->
  responses (unit_tasks s u) = [] -> u_st un = URunning -> step s l = Some (s', os) ->
  nth_error (units s') u = Some un' -> u_st un' = URunning \/ u_st un' = UFinished.
Proof.
  intros R E Z Su H E'.
  assert (Hr : run s [l] = Some (s', [os])) by (cbn; rewrite H; auto).
  destruct (c01_silent_unit _ _ _ _ _ _ _ R E Z Hr) as (_ & Nd & _). specialize (Nd _ E').
  apply reach_reachf in R. destruct (step_unit_le _ _ _ _ _ _ _ R H E) as (un2 & E2 & Le).
  rewrite E' in E2. injection E2 as <-. destruct Le as [_ _ _ Rk]. rewrite Su in Rk.
  destruct (u_st un'); cbn in Rk; auto; try lia. congruence.
Qed.

(* a message that consists of valid notifications only: its unit finishes without a deliver step *)
Definition ex_tr_note : list label :=
  [LStart; LRelNext; LFeed (FMsg (InMsgs true [ex_note [91;93]%N])); LRelRead; LRelBarrier; LRelAcquire 0;
   LGate [91;93]%N (ORes [50%N])].

Example c01_silent_unit_nonvacuous :
  exists s un s' oss, reach ex_cfg s /\ nth_error (units s) 0 = Some un /\ u_st un = URunning /\
    responses (unit_tasks s 0) = [] /\ run s [LRelHandled 0] = Some (s', oss) /\
    option_map u_st (nth_error (units s') 0) = Some UFinished /\ oss = [[]].
Proof.
  exists (st_of ex_cfg ex_tr_note). eexists _, _, _.
  split; [apply reach_st_of; vm_compute; discriminate|]. compute. repeat split; reflexivity.
Qed.

(** * C01.4: a handler is entered at most once per task, never for a rejected member *)
Theorem c01_start_origin c s l s' os p cn : reach c s -> step s l = Some (s', os) -> In (OStart p cn) os ->
  exists k t t', nth_error (tasks s) k = Some t /\ nth_error (tasks s') k = Some t' /\
    t_params t = p /\ t_cancelled t = cn /\ rank (t_st t) < 2 /\ t_st t' = TRunning /\ t_pre t = None /\
    (l = LRelAcquire k \/ exists k0, l = LRelHandled k0 /\ k0 <> k).
Proof.
  intros R H Ho. apply reach_reachf in R. pose proof (reachf_inv _ _ R) as I.
  destruct (step_obs_raw _ _ _ _ _ H Ho) as (Cr & s1 & os1 & Hr & Ho1 & K); [cbn; tauto|].
  pose proof (raw_obs _ _ _ _ _ I Hr Ho1) as O. cbn in O.
  destruct O as (k & t & t' & E & E' & Ep & Ec & Rk & St' & _ & Hl).
  exists k, t, t'. repeat split; auto.
  destruct (i_pre _ I _ _ E) as [P _]. destruct (t_pre t) as [e|] eqn:Pe; auto.
  rewrite (P _ eq_refl) in Rk. cbn in Rk. lia.
Qed.

(* the window in which task k moves into its handler *)
Definition before_start (s : state) (k : nat) : bool :=
  match nth_error (tasks s) k with Some t => rank (t_st t) <? 2 | None => true end.
Definition in_handler (s : state) (k : nat) : bool :=
  match nth_error (tasks s) k with Some t => match t_st t with TRunning => true | _ => false end | None => false end.
Definition enters (k : nat) (s s' : state) : bool := before_start s k && in_handler s' k.

Fixpoint enter_count (k : nat) (s : state) (tr : list label) : nat :=
  match tr with
  | [] => 0
  | l :: r => match step s l with
              | Some (s1, _) => (if enters k s s1 then 1 else 0) + enter_count k s1 r
              | None => 0
              end
  end.

Lemma before_start_mono s s' k : tasks_ext (tasks s) (tasks s') -> before_start s k = false -> before_start s' k = false.
Proof.
  unfold before_start. intros X H. destruct (nth_error (tasks s) k) as [t|] eqn:E; [|discriminate].
  destruct (X _ _ E) as (t' & E' & Le). rewrite E'. destruct Le as [_ _ _ _ _ _ _ _ (Rk & _)].
  apply Nat.ltb_ge in H. apply Nat.ltb_ge. lia.
Qed.

Lemma enter_count_bound c k : forall tr s, reachf c s ->
  enter_count k s tr <= (if before_start s k then 1 else 0).
Proof.
  induction tr as [|l r IH]; intros s R; cbn; [lia|].
  destruct (step s l) as [[s1 os]|] eqn:St; [|lia].
  assert (R1 : reachf c s1) by (eapply step_reachf; eauto).
  specialize (IH _ R1). destruct (step_ext _ _ _ _ _ R St) as [X _].
  unfold enters. destruct (before_start s k) eqn:B; cbn.
  - destruct (in_handler s1 k) eqn:Ih.
    + assert (B1 : before_start s1 k = false).
      { unfold in_handler in Ih. unfold before_start. destruct (nth_error (tasks s1) k) as [t|]; [|discriminate].
        destruct (t_st t); try discriminate. auto. }
      rewrite B1 in IH. lia.
    + destruct (before_start s1 k); lia.
  - rewrite (before_start_mono _ _ _ X B) in IH. lia.
Qed.

Theorem c01_handler_once c tr s oss k : run (init_of c) tr = Some (s, oss) -> enter_count k (init_of c) tr <= 1.
Proof.
  intros _. pose proof (enter_count_bound c k tr _ (rf_init c)). destruct (before_start (init_of c) k); lia.
Qed.

(* a member rejected by checkAndAssign never enters a handler, from any reachable state on *)
Theorem c01_skip_never_starts c s k t tr e : reach c s -> nth_error (tasks s) k = Some t -> t_pre t = Some e ->
  enter_count k s tr = 0.
Proof.
  intros R E P. apply reach_reachf in R. pose proof (enter_count_bound c k tr s R) as B.
  assert (Z : before_start s k = false).
  { unfold before_start. rewrite E. rewrite (task_pre_skip _ _ _ _ _ R E P). auto. }
  rewrite Z in B. lia.
Qed.

Example c01_handler_once_nonvacuous :
  run (init_of ex_cfg) ex_tr_delivered <> None /\ enter_count 0 (init_of ex_cfg) ex_tr_delivered = 1.
Proof. vm_compute. split; auto. discriminate. Qed.

Example c01_start_origin_nonvacuous :
  exists s s' os p cn, reach ex_cfg s /\ step s (LRelAcquire 0) = Some (s', os) /\ In (OStart p cn) os.
Proof.
  exists (st_of ex_cfg [LStart; LRelNext; LFeed (FMsg (InMsgs false [ex_call [49%N] [91;93]%N])); LRelRead; LRelBarrier]).
  eexists _, _, _, _. split; [apply reach_st_of; vm_compute; discriminate|]. compute. split; [reflexivity|]. left; reflexivity.
Qed.

(* an invalid member (unknown method) in a reachable state: it is TSkip and is never started *)
Example c01_skip_never_starts_nonvacuous :
  exists s t e, reach ex_cfg s /\ nth_error (tasks s) 0 = Some t /\ t_pre t = Some e.
Proof.
  exists (st_of ex_cfg [LStart; LRelNext; LFeed (FMsg (InMsgs false [ex_msg [49%N] [120%N] []])); LRelRead]).
  eexists _, _. split; [apply reach_st_of; vm_compute; discriminate|]. compute. split; reflexivity.
Qed.

(** * Window boundaries are settled: the fuel of [settle] always suffices *)
Definition urun (u : unit_) : bool := match u_st u with URunning => true | _ => false end.
Definition mu (s : state) : nat :=
  (match rd s with RIdle => length (ch_in s) | _ => 0 end) +
  (match dp s with DWaitWork => 1 | DBarrierWait _ => 2 | _ => 0 end) +
  countb urun (units s) + waits s.

Lemma countb_le_length {A} (p : A -> bool) l : countb p l <= length l.
Proof. induction l as [|x r IH]; cbn; auto. destruct (p x); lia. Qed.

Lemma mu_fuel s : mu s <= settle_fuel s.
Proof.
  unfold mu, settle_fuel. pose proof (countb_le_length urun (units s)).
  destruct (rd s), (dp s); lia.
Qed.

Lemma settle1_mu s s' os : settle1 s = Some (s', os) -> mu s' < mu s.
Proof.
  intros H. apply settle1_inv in H. destruct H; unfold mu; cbn.
  - rewrite H, H0. cbn. lia.
  - unfold dequeue. rewrite H. destruct (inq s) as [|[b ms] q] eqn:Q.
    + destruct (running s); cbn in H0; [discriminate|]. cbn. lia.
    + cbn. rewrite countb_app. cbn. lia.
  - rewrite H.
    pose proof (countb_upd_nth urun u (fun x => x <| u_st := URunning |>) (units s) un H1) as C.
    cbn in C. destruct (urun un); destruct (rd s); lia.
  - apply find_unit_some in H as (un' & E' & C & _). rewrite Nat.sub_0_r, H0 in E'. injection E' as <-.
    apply unit_complete_inv in C as [Su _].
    pose proof (countb_upd_nth urun i (fun x => x <| u_st := UFinished |>) (units s) un H0) as C.
    unfold urun in C at 2 4. rewrite Su in C. cbn in C. lia.
  - apply find_unit_some in H as (un' & E' & C & _). rewrite Nat.sub_0_r, H0 in E'. injection E' as <-.
    apply unit_complete_inv in C as [Su _].
    pose proof (countb_upd_nth urun i (fun x => x <| u_st := UAtDeliver |>) (units s) un H0) as C.
    unfold urun in C at 2 4. rewrite Su in C. cbn in C. lia.
  - lia.
  - lia.
Qed.

Lemma settle_settled : forall fuel s acc, mu s <= fuel -> settle1 (fst (settle fuel s acc)) = None.
Proof.
  induction fuel as [|f IH]; intros s acc M; cbn.
  - destruct (settle1 s) as [[s1 os1]|] eqn:E; auto. apply settle1_mu in E. lia.
  - destruct (settle1 s) as [[s1 os1]|] eqn:E; auto. apply IH. apply settle1_mu in E. lia.
Qed.

Theorem reach_settled c s : reach c s -> crash s = None -> settle1 s = None.
Proof.
  intros R Cr. destruct R as [|s0 l s' os R H].
  - reflexivity.
  - apply step_decompose in H as (_ & s1 & os1 & _ & [(C1 & -> & _)|(_ & Hs)]); [congruence|].
    pose proof (settle_settled (settle_fuel s1) s1 os1 (mu_fuel s1)) as S. rewrite Hs in S. exact S.
Qed.

(** * C01.6: at a quiescent point every message whose handlers have all returned has been answered *)
Lemma in_idxs_where {A} (p : A -> bool) : forall l i k x, nth_error l k = Some x -> p x = true ->
  In (i + k) (idxs_where p i l).
Proof.
  induction l as [|y r IH]; intros i [|k] x E P; cbn in *; try discriminate.
  - injection E as ->. rewrite P. left. lia.
  - apply in_or_app. right. replace (i + S k) with (S i + k) by lia. eapply IH; eauto.
Qed.

Lemma find_unit_none p : forall l i, find_unit p i l = None -> forall k x, nth_error l k = Some x -> p (i + k) x = false.
Proof.
  induction l as [|y r IH]; intros i H [|k] x E; cbn in *; try discriminate.
  - injection E as ->. rewrite Nat.add_0_r. destruct (p i x); [discriminate|auto].
  - destruct (p i y); [discriminate|]. replace (i + S k) with (S i + k) by lia. eapply IH; eauto.
Qed.

Lemma settled_no_complete s : settle1 s = None -> find_unit (unit_complete s) 0 (units s) = None.
Proof.
  intros H. destruct (find_unit (unit_complete s) 0 (units s)) as [i|] eqn:F; auto. exfalso.
  pose proof F as F'. apply find_unit_some in F' as (un & E & _). rewrite Nat.sub_0_r in E.
  unfold settle1 in H. rewrite F, E in H.
  destruct (rd s); [| destruct (ch_in s) | |].
  all: repeat match type of H with
       | match ?d with Some r => _ | None => _ end = None => destruct d; [discriminate|]
       end.
  all: try discriminate.
  all: destruct (is_nil_list (responses (unit_tasks s i))); discriminate.
Qed.

Theorem c01_quiescent_complete c s : reach c s -> crash s = None -> quiescent s = true ->
  (forall u un, nth_error (units s) u = Some un -> u_st un = URunning -> all_finished s u = false) /\
  (forall u un, nth_error (units s) u = Some un -> u_st un <> UAtDeliver).
Proof.
  intros R Cr Q. split.
  - intros u un E Su. pose proof (settled_no_complete s (reach_settled _ _ R Cr)) as F.
    pose proof (find_unit_none _ _ _ F _ _ E) as P. cbn in P. unfold unit_complete in P. rewrite Su in P. exact P.
  - intros u un E Su. unfold quiescent, enabled_rel in Q. apply is_nil_list_true in Q.
    assert (Hin : In (LRelDeliver u) (flat_map (candidates s) all_sites)).
    { apply in_flat_map. exists SDeliver. split; [cbn; tauto|]. cbn. apply in_map.
      apply (in_idxs_where at_deliver (units s) 0 u un E). unfold at_deliver. rewrite Su. auto. }
    assert (Hs : step s (LRelDeliver u) <> None).
    { unfold step. rewrite Cr. unfold step_raw. rewrite E, Su.
      destruct (u_chok un); cbn; try match goal with |- context [crash ?x] => destruct (crash x) end; discriminate. }
    assert (Hf : In (LRelDeliver u) (filter (fun l => match step s l with Some _ => true | None => false end)
                                       (flat_map (candidates s) all_sites))).
    { apply filter_In. split; auto. destruct (step s (LRelDeliver u)); congruence. }
    rewrite Q in Hf. destruct Hf.
Qed.

Example c01_quiescent_complete_nonvacuous :
  exists s, reach ex_cfg s /\ crash s = None /\ quiescent s = true /\
    option_map u_st (nth_error (units s) 0) = Some URunning /\ all_finished s 0 = false.
Proof.
  (* the handler of the only call is running, waiting for its gate *)
  exists (st_of ex_cfg (ex_tr_running ++ [LRelNext])). split; [apply reach_st_of; vm_compute; discriminate|].
  vm_compute. repeat split; reflexivity.
Qed.

Example c01_quiescent_answered_nonvacuous :
  exists s, reach ex_cfg s /\ crash s = None /\ quiescent s = true /\
    option_map u_st (nth_error (units s) 0) = Some UFinished /\ all_finished s 0 = true.
Proof.
  exists (st_of ex_cfg (ex_tr_delivered ++ [LRelNext])). split; [apply reach_st_of; vm_compute; discriminate|].
  vm_compute. repeat split; reflexivity.
Qed.

(** * C01.2: what a response carries *)
(* a rejected member is answered with the error recorded by checkAndAssign, and no handler ran for it *)
Theorem c01_pre_body c s k t code msg : reach c s -> nth_error (tasks s) k = Some t -> t_pre t = Some (code, msg) ->
  task_body t = BErr code msg /\ t_st t = TSkip /\ forall tr, enter_count k s tr = 0.
Proof.
  intros R E P. split; [unfold task_body; rewrite P; auto|]. split.
  - apply (task_pre_skip c s k t (code, msg)); auto. apply reach_reachf; auto.
  - intros tr. eapply c01_skip_never_starts; eauto.
Qed.

(* the gate: exactly one running task with these params takes the outcome *)
Theorem c01_gate_step s p o s1 os : step_raw s (LGate p o) = Some (s1, os) ->
  exists k t, nth_error (tasks s) k = Some t /\ t_st t = TRunning /\ t_params t = p /\
    tasks s1 = upd_nth k (fun t => t <| t_st := TAtHandled o |>) (tasks s) /\ os = [OGate p (t_cancelled t)].
Proof.
  intros H. unfold step_raw in H.
  destruct (find_idx _ 0 (tasks s)) as [k|] eqn:F; [|discriminate].
  destruct (nth_error (tasks s) k) as [t|] eqn:E; [|discriminate]. injection H as <- <-.
  apply find_idx_some in F as (x & Ex & Px & _). rewrite Nat.sub_0_r, E in Ex. injection Ex as <-.
  apply andb_true_iff in Px as [Pp Ps]. apply beq_eq in Pp.
  exists k, t. repeat split; auto. destruct (t_st t); try discriminate. auto.
Qed.

Theorem c01_gate_window s p o s' os : step s (LGate p o) = Some (s', os) ->
  exists k t, nth_error (tasks s) k = Some t /\ t_st t = TRunning /\ t_params t = p /\
    nth_error (tasks s') k = Some (t <| t_st := TAtHandled o |>) /\
    (forall j tj, j <> k -> nth_error (tasks s) j = Some tj -> nth_error (tasks s') j = Some tj).
Proof.
  intros H. apply step_decompose in H as (_ & s1 & os1 & Hr & Hs).
  destruct (c01_gate_step _ _ _ _ _ Hr) as (k & t & E & St & Ep & T1 & _).
  assert (K : keeps_tasks s1 s').
  { destruct Hs as [(_ & -> & _)|(_ & Hs)]; [intros j x Ex; auto|eapply settle_keeps; eauto]. }
  exists k, t. repeat split; auto.
  - apply K. rewrite T1. apply nth_error_upd_nth_eq; auto.
  - intros j tj N Ej. apply K. rewrite T1, nth_error_upd_nth_neq; auto.
Qed.

(* the return of invoke: the stored body is the one determined by the gate's outcome *)
Theorem c01_handled_window c s k s' os t o : reach c s -> step s (LRelHandled k) = Some (s', os) ->
  nth_error (tasks s) k = Some t -> t_st t = TAtHandled o ->
  nth_error (tasks s') k = Some (t <| t_st := TDone (body_of_outcome t o) |>).
Proof.
  intros R H E St. apply reach_reachf in R. pose proof (reachf_inv _ _ R) as I.
  apply step_decompose in H as (_ & s1 & os1 & Hr & Hs).
  assert (K : keeps_tasks s1 s').
  { destruct Hs as [(_ & -> & _)|(_ & Hs)]; [intros j x Ex; auto|eapply settle_keeps; eauto]. }
  apply K. unfold step_raw in Hr. rewrite E, St in Hr.
  set (s0 := set_task k (fun t => t <| t_st := TDone (body_of_outcome t o) |>) s <| sem_free ::= S |>) in *.
  assert (W0 : wait_ok s0).
  { unfold wait_ok, s0; cbn. apply wait_ok_upd; [apply I|]. eapply wait_not_in; eauto; [apply I|congruence]. }
  pose proof (grant_spec (S (length (sem_wait s0))) s0 [] W0) as G.
  destruct (grant (S (length (sem_wait s0))) s0 []) as [s2 os2]. cbn [fst snd] in G.
  assert (E2 : nth_error (tasks s2) k = Some (t <| t_st := TDone (body_of_outcome t o) |>)).
  { apply (gp_same _ _ _ _ G); [|cbn; discriminate]. unfold s0. cbn. rewrite (nth_error_upd_nth_eq _ _ _ _ E). reflexivity. }
  destruct (is_note t); [destruct (nbar s2)|]; injection Hr as <- <-; exact E2.
Qed.

Example c01_gate_window_nonvacuous :
  exists s s' os, reach ex_cfg s /\ step s (LGate [91;93]%N (ORes [50%N])) = Some (s', os).
Proof.
  exists (st_of ex_cfg ex_tr_running). eexists _, _. split; [apply reach_st_of; vm_compute; discriminate|].
  compute. reflexivity.
Qed.

Example c01_handled_window_nonvacuous :
  exists s s' os t o, reach ex_cfg s /\ step s (LRelHandled 0) = Some (s', os) /\
    nth_error (tasks s) 0 = Some t /\ t_st t = TAtHandled o.
Proof.
  exists (st_of ex_cfg (ex_tr_running ++ [LGate [91;93]%N (ORes [50%N])])). eexists _, _, _, _.
  split; [apply reach_st_of; vm_compute; discriminate|]. compute. repeat split; reflexivity.
Qed.

(** * The life of one task, transition by transition *)
Inductive tstep (t : task) : task -> Prop :=
| ts_cancel : tstep t (t <| t_cancelled := true |>)
| ts_cancel_wait : t_st t = TWaiting -> tstep t (t <| t_st := TDone (Some cancel_err) |>)
| ts_acq_cancelled : t_st t = TAtAcquire -> tstep t (t <| t_st := TDone (Some cancel_err) |>)
| ts_wait : t_st t = TAtAcquire -> tstep t (t <| t_st := TWaiting |>)
| ts_run : t_st t = TAtAcquire \/ t_st t = TWaiting -> t_builtin t = false -> tstep t (t <| t_st := TRunning |>)
| ts_builtin : t_st t = TAtAcquire \/ t_st t = TWaiting -> t_builtin t = true ->
    tstep t (t <| t_st := TAtHandled (ORes []) |>)
| ts_gate o : t_st t = TRunning -> tstep t (t <| t_st := TAtHandled o |>)
| ts_handled o : t_st t = TAtHandled o -> tstep t (t <| t_st := TDone (body_of_outcome t o) |>).

Inductive tsteps : task -> task -> Prop :=
| tss_refl t : tsteps t t
| tss_step t t' t'' : tstep t t' -> tsteps t' t'' -> tsteps t t''.

Lemma tsteps_trans a b d : tsteps a b -> tsteps b d -> tsteps a d.
Proof. induction 1; auto. intros. econstructor; eauto. Qed.
Lemma tsteps_one a b : tstep a b -> tsteps a b.
Proof. intros. econstructor; eauto. constructor. Qed.

Definition lext := list_ext tsteps.
Lemma lext_refl l : lext l l.
Proof. apply list_ext_refl. constructor. Qed.
Lemma lext_trans a b d : lext a b -> lext b d -> lext a d.
Proof. apply list_ext_trans. apply tsteps_trans. Qed.
Lemma lext_upd k f l : (forall x, nth_error l k = Some x -> tsteps x (f x)) -> lext l (upd_nth k f l).
Proof. apply list_ext_upd. constructor. Qed.

Lemma cancel_fn_tsteps t : tsteps t (cancel_fn t).
Proof.
  unfold cancel_fn. destruct (t_st t) eqn:St; try (apply tsteps_one; constructor).
  eapply tss_step; [apply ts_cancel|]. apply tsteps_one. apply ts_cancel_wait. auto.
Qed.

Lemma cancel_task_lext k s : lext (tasks s) (tasks (cancel_task k s)).
Proof. rewrite cancel_task_tasks. apply lext_upd. intros; apply cancel_fn_tsteps. Qed.

Lemma fold_cancel_lext (l : list (bytes * nat)) : forall s,
  lext (tasks s) (tasks (fold_left (fun st p => cancel_task (snd p) st) l s)).
Proof.
  induction l as [|p l IH]; intros s; cbn; [apply lext_refl|].
  eapply lext_trans; [apply cancel_task_lext|apply IH].
Qed.

Lemma release_ids_lext ts : forall s, lext (tasks s) (tasks (release_ids ts s)).
Proof.
  induction ts as [|a r IH]; intros s; cbn [release_ids]; [apply lext_refl|].
  destruct (t_hasctx a && negb (is_note a)); [|apply IH].
  destruct (assoc (t_id a) (used s)) as [owner|]; [|apply IH].
  pose proof (IH (cancel_task owner s <| used ::= assoc_del (t_id a) |>)) as X.
  change (tasks (cancel_task owner s <| used ::= assoc_del (t_id a) |>)) with (tasks (cancel_task owner s)) in X.
  eapply lext_trans; [apply (cancel_task_lext owner)|exact X].
Qed.

Lemma stop_locked_lext c s s' os : stop_locked c s = (s', os) -> lext (tasks s) (tasks s').
Proof.
  unfold stop_locked. destruct (running s); cbn [negb]; [|intros [= <- _]; apply lext_refl].
  intros H.
  match type of H with (?x, _) = _ => assert (Hs : s' = x) by congruence end. clear H.
  match type of Hs with context [fold_left ?f ?l ?s0] =>
    pose proof (fold_cancel_lext l s0) as Fc; set (s4 := fold_left f l s0) in *; set (s3 := s0) in * end.
  assert (T3 : tasks s3 = tasks s).
  { unfold s3. destruct (work_closed (s <| closes ::= S |> <| inq ::= stop_queue |>)); reflexivity. }
  rewrite T3 in Fc. clearbody s4. clearbody s3. subst s'. destruct (c_unblock _); exact Fc.
Qed.

Lemma grant_lext fuel s acc : wait_ok s -> lext (tasks s) (tasks (fst (grant fuel s acc))).
Proof.
  intros W0.
  apply (grant_ind (fun s1 _ => wait_ok s1 /\ lext (tasks s) (tasks s1))); [|split; [auto|apply lext_refl]].
  intros s1 acc1 k r fr t [[ND Wt] X1] Hw Hf Ht. rewrite Hw in ND, Wt.
  destruct (Wt k (or_introl eq_refl)) as (t0 & Et0 & St0). rewrite Ht in Et0. injection Et0 as <-.
  split.
  - split; rewrite grant1_wait; [inversion ND; auto|].
    intros j Hj. rewrite (grant1_tasks _ _ _ _ _ Ht). rewrite nth_error_upd_nth_neq.
    + apply Wt. right; auto.
    + intros <-. inversion ND; auto.
  - eapply lext_trans; [exact X1|]. rewrite (grant1_tasks _ _ _ _ _ Ht). apply lext_upd.
    intros x Ex. rewrite Ht in Ex. injection Ex as <-. apply tsteps_one.
    destruct (t_builtin t) eqn:B; [apply ts_builtin|apply ts_run]; auto.
Qed.

Lemma raw_lext s l s' os : inv s -> step_raw s l = Some (s', os) -> lext (tasks s) (tasks s').
Proof.
  intros I H. destruct (frame_label l) eqn:Fl.
  { apply step_raw_frame in H as (C & _); auto. unfold core in C. injection C as T _. rewrite T. apply lext_refl. }
  destruct l; try discriminate Fl; unfold step_raw in H.
  - destruct (negb (running s) && (wg s =? 0)); [|discriminate]. injection H as <- <-. apply lext_refl.
  - destruct (find_idx _ 0 (tasks s)) as [k|] eqn:F; [|discriminate].
    destruct (nth_error (tasks s) k) as [t|] eqn:E; [|discriminate]. injection H as <- <-.
    apply find_idx_some in F as (x & Ex & Px & _). rewrite Nat.sub_0_r, E in Ex. injection Ex as <-.
    apply andb_true_iff in Px as [_ Px]. destruct (t_st t) eqn:St; try discriminate.
    cbn. apply lext_upd. intros x Ex. rewrite E in Ex. injection Ex as <-. apply tsteps_one. apply ts_gate; auto.
  - destruct (rd s) as [| |f|] eqn:Rd; try discriminate. injection H as H.
    destruct f as [i|i|c].
    3:{ cbn in H. destruct (stop_locked c s) as [s0 os0] eqn:St. injection H as <- <-.
        apply stop_locked_lext in St. exact St. }
    all: destruct (running s) eqn:Rn;
      [ eapply read_cs_msg in H as (C & _); eauto; unfold core0 in C; injection C as T _; rewrite T; apply lext_refl
      | cbn in H; rewrite Rn in H; cbn in H; injection H as <- <-; apply lext_refl ].
  - destruct (dp s); try discriminate. injection H as <- <-.
    unfold dequeue. destruct (inq s) as [|[b ms] q]; [destruct (running s); apply lext_refl|].
    cbn. apply list_ext_app. constructor.
  - destruct (dp s); try discriminate. injection H as <- <-. apply lext_refl.
  - destruct (nth_error (tasks s) k) as [t|] eqn:E; [|discriminate].
    destruct (t_st t) eqn:St; try discriminate.
    destruct (negb (unit_running s t)); [discriminate|].
    assert (X : forall x, tstep t (t <| t_st := x |>) ->
              lext (tasks s) (upd_nth k (fun t => t <| t_st := x |>) (tasks s))).
    { intros x Hx. apply lext_upd. intros y Ey. rewrite E in Ey. injection Ey as <-. apply tsteps_one; auto. }
    destruct (t_cancelled t); [injection H as <- <-; apply X, ts_acq_cancelled; auto|].
    destruct (sem_free s); [injection H as <- <-; apply X, ts_wait; auto|].
    destruct (sem_wait s); [|injection H as <- <-; apply X, ts_wait; auto].
    destruct (t_builtin t) eqn:B; injection H as <- <-; cbn; apply X; [apply ts_builtin|apply ts_run]; auto.
  - destruct (nth_error (tasks s) k) as [t|] eqn:E; [|discriminate].
    destruct (t_st t) eqn:St; try discriminate.
    set (s0 := set_task k (fun t => t <| t_st := TDone (body_of_outcome t o) |>) s <| sem_free ::= S |>) in *.
    assert (W0 : wait_ok s0).
    { unfold wait_ok, s0; cbn. apply wait_ok_upd; [apply I|]. eapply wait_not_in; eauto; [apply I|congruence]. }
    pose proof (grant_lext (S (length (sem_wait s0))) s0 [] W0) as G.
    destruct (grant (S (length (sem_wait s0))) s0 []) as [s2 os2]. cbn [fst] in G.
    assert (X0 : lext (tasks s) (tasks s0)).
    { unfold s0. cbn. apply lext_upd. intros y Ey. rewrite E in Ey. injection Ey as <-.
      apply tsteps_one. apply ts_handled; auto. }
    assert (X2 : lext (tasks s) (tasks s2)) by (eapply lext_trans; eauto).
    destruct (is_note t); [destruct (nbar s2)|]; injection H as <- <-; exact X2.
  - destruct (nth_error (units s) u) as [un|] eqn:E; [|discriminate].
    destruct (u_st un) eqn:Su; try discriminate.
    pose proof (release_ids_lext (unit_tasks s u) s) as X.
    destruct (u_chok un); cbn in H; injection H as <- <-; exact X.
  - destruct (find_op n (ops s)) as [[n0|n0 id|n0 w m p]|]; try discriminate.
    destruct (stop_locked SCStop (s <| ops ::= del_op n |>)) as [s0 os0] eqn:St. injection H as <- <-.
    apply stop_locked_lext in St. exact St.
  - destruct (find_op n (ops s)) as [[n0|n0 id|n0 w m p]|]; try discriminate.
    injection H as <- <-. destruct (assoc id _) as [owner|]; [|apply lext_refl].
    pose proof (cancel_task_lext owner (s <| ops ::= del_op n |>)) as X. exact X.
Qed.

Lemma keeps_lext a b : keeps_tasks a b -> lext (tasks a) (tasks b).
Proof. intros K k t E. exists t. split; [apply K; auto|constructor]. Qed.

Definition slext (a b : state) : Prop := lext (tasks a) (tasks b).

Lemma step_lext c s l s' os : reachf c s -> step s l = Some (s', os) -> slext s s'.
Proof.
  apply (lift_step c slext (fun s => lext_refl (tasks s)) (fun a b d => lext_trans (tasks a) (tasks b) (tasks d))).
  - intros a l0 b os0 Ra _ H. eapply raw_lext; eauto. eapply reachf_inv; eauto.
  - intros a b os0 _ H. apply keeps_lext. eapply settle1_keeps; eauto.
Qed.

Lemma run_lext c tr s s' oss : reachf c s -> run s tr = Some (s', oss) -> slext s s'.
Proof.
  apply (lift_run c slext (fun s => lext_refl (tasks s)) (fun a b d => lext_trans (tasks a) (tasks b) (tasks d))).
  - intros a l0 b os0 Ra _ H. eapply raw_lext; eauto. eapply reachf_inv; eauto.
  - intros a b os0 _ H. apply keeps_lext. eapply settle1_keeps; eauto.
Qed.

(* what the transitions preserve *)
Lemma tstep_body t t' o : tstep t t' -> body_of_outcome t' o = body_of_outcome t o.
Proof. destruct 1; reflexivity. Qed.
Lemma tsteps_body t t' o : tsteps t t' -> body_of_outcome t' o = body_of_outcome t o.
Proof. induction 1; auto. rewrite IHtsteps. eapply tstep_body; eauto. Qed.

Lemma tstep_done t t' bo : tstep t t' -> t_st t = TDone bo -> t_st t' = TDone bo.
Proof. destruct 1; cbn; auto; intros E; try congruence; destruct H; congruence. Qed.
Lemma tsteps_done t t' bo : tsteps t t' -> t_st t = TDone bo -> t_st t' = TDone bo.
Proof. induction 1; auto. intros E. apply IHtsteps. eapply tstep_done; eauto. Qed.

Lemma tsteps_handled t t' o : tsteps t t' -> t_st t = TAtHandled o ->
  t_st t' = TAtHandled o \/ t_st t' = TDone (body_of_outcome t o).
Proof.
  induction 1 as [t|t t1 t2 H1 H2 IH]; auto. intros E.
  destruct H1; cbn in *; try congruence; try (destruct H; congruence).
  - apply IH in E. rewrite (tstep_body t _ o (ts_cancel t)) in E. auto.
  - right. assert (o0 = o) by congruence. subst o0. eapply tsteps_done; eauto.
Qed.

Lemma tsteps_running t t' : tsteps t t' -> t_st t = TRunning ->
  t_st t' = TRunning \/ exists o, t_st t' = TAtHandled o \/ t_st t' = TDone (body_of_outcome t o).
Proof.
  induction 1 as [t|t t1 t2 H1 H2 IH]; auto. intros E.
  destruct H1; cbn in *; try congruence; try (destruct H; congruence).
  - apply IH in E as [E|(o & E)]; auto. right. exists o. rewrite (tstep_body t _ o (ts_cancel t)) in E. auto.
  - right. exists o. pose proof (tsteps_handled _ _ o H2 eq_refl) as Q. cbn in Q. exact Q.
Qed.

Definition done_ok (t : task) : Prop :=
  forall bo, t_st t = TDone bo -> bo = Some cancel_err \/ exists o, bo = body_of_outcome t o.

Lemma tstep_done_ok t t' : tstep t t' -> done_ok t -> done_ok t'.
Proof.
  intros H D bo E. destruct H; cbn in E; try congruence; try (destruct H; congruence).
  - destruct (D _ E) as [->|(o & ->)]; [left; auto|right; exists o; reflexivity].
  - injection E as <-. auto.
  - injection E as <-. auto.
  - injection E as <-. right. exists o. reflexivity.
Qed.
Lemma tsteps_done_ok t t' : tsteps t t' -> done_ok t -> done_ok t'.
Proof. induction 1; auto. intros D. apply IHtsteps. eapply tstep_done_ok; eauto. Qed.

Lemma mk_task_done_ok s u ids m : done_ok (mk_task s u ids m).
Proof. intros bo E. destruct (mk_task_st s u ids m) as [[S _]|[S _]]; rewrite S in E; discriminate. Qed.

Lemma dequeue_done_ok s : (forall k t, nth_error (tasks s) k = Some t -> done_ok t) ->
  forall k t, nth_error (tasks (dequeue s)) k = Some t -> done_ok t.
Proof.
  intros H k t E. unfold dequeue in E. destruct (inq s) as [|[b ms] q]; [destruct (running s); cbn in E; eauto|].
  cbn in E. destruct (Nat.lt_ge_cases k (length (tasks s))) as [Lt|Ge].
  - rewrite nth_error_app1 in E by auto. eauto.
  - rewrite nth_error_app2 in E by auto. apply nth_error_In, in_map_iff in E as (m & <- & _). apply mk_task_done_ok.
Qed.

Theorem reachf_done_ok c s : reachf c s -> forall k t, nth_error (tasks s) k = Some t -> done_ok t.
Proof.
  induction 1 as [|s l s' os R IH Cr H|s s' os R IH H]; intros k t' E'.
  - destruct k; discriminate.
  - pose proof (reachf_inv _ _ R) as I.
    destruct (raw_shape_ok _ _ _ _ I H) as [_ L| -> |u un _ _ _ _ L]; [| eapply dequeue_done_ok; eauto |].
    all: destruct (nth_error (tasks s) k) as [t|] eqn:E;
      [ destruct (raw_lext _ _ _ _ I H _ _ E) as (t2 & E2 & X); rewrite E' in E2; injection E2 as <-;
        eapply tsteps_done_ok; eauto
      | apply nth_error_None in E; apply nth_error_some_lt in E'; lia ].
  - apply settle1_inv in H. destruct H; cbn in E'; eauto. eapply dequeue_done_ok; eauto.
Qed.

(** * C01.2: the body of a finished call *)
(* a stored body is the cancellation error or the body of some outcome, and only unrejected members have one *)
Theorem c01_done_body c s k t bo : reach c s -> nth_error (tasks s) k = Some t -> t_st t = TDone bo ->
  t_pre t = None /\ (bo = Some cancel_err \/ exists o, bo = body_of_outcome t o).
Proof.
  intros R E St. apply reach_reachf in R. split; [|eapply reachf_done_ok; eauto].
  destruct (t_pre t) as [e|] eqn:P; auto. rewrite (task_pre_skip _ _ _ _ _ R E P) in St. discriminate.
Qed.

(* once the gate has given outcome o to a task, the body it ends with is the body of o, on every trace *)
Theorem c01_correlated c s tr s' oss k t o : reach c s -> run s tr = Some (s', oss) ->
  nth_error (tasks s) k = Some t -> t_st t = TAtHandled o ->
  exists t', nth_error (tasks s') k = Some t' /\
    (t_st t' = TAtHandled o \/ t_st t' = TDone (body_of_outcome t o)) /\
    (forall b, t_st t' = TDone (Some b) -> task_body t' = b /\ Some b = body_of_outcome t o).
Proof.
  intros R H E St. apply reach_reachf in R.
  destruct (run_lext _ _ _ _ _ R H _ _ E) as (t' & E' & X). exists t'. split; auto.
  pose proof (tsteps_handled _ _ _ X St) as Q. split; auto.
  intros b Sb. split.
  - unfold task_body. rewrite Sb.
    destruct (run_task_le _ _ _ _ _ _ _ R H E) as (t2 & E2 & Le). rewrite E' in E2. injection E2 as <-.
    destruct Le as [_ _ _ _ Lp _ _ _ _]. rewrite Lp.
    destruct (t_pre t) as [e|] eqn:P; auto. rewrite (task_pre_skip _ _ _ _ _ R E P) in St. discriminate.
  - destruct Q as [Q|Q]; congruence.
Qed.

(* and a running task can only end with the body of the outcome of a gate *)
Theorem c01_correlated_running c s tr s' oss k t : reach c s -> run s tr = Some (s', oss) ->
  nth_error (tasks s) k = Some t -> t_st t = TRunning ->
  exists t', nth_error (tasks s') k = Some t' /\
    (t_st t' = TRunning \/ exists o, t_st t' = TAtHandled o \/ t_st t' = TDone (body_of_outcome t o)).
Proof.
  intros R H E St. apply reach_reachf in R.
  destruct (run_lext _ _ _ _ _ R H _ _ E) as (t' & E' & X). exists t'. split; auto.
  eapply tsteps_running; eauto.
Qed.

Example c01_correlated_nonvacuous :
  exists s tr s' oss t o, reach ex_cfg s /\ run s tr = Some (s', oss) /\ nth_error (tasks s) 0 = Some t /\
    t_st t = TAtHandled o /\ option_map t_st (nth_error (tasks s') 0) = Some (TDone (Some (BRes [50%N]))).
Proof.
  exists (st_of ex_cfg (ex_tr_running ++ [LGate [91;93]%N (ORes [50%N])])), [LRelHandled 0; LRelDeliver 0].
  eexists _, _, _, _. split; [apply reach_st_of; vm_compute; discriminate|]. compute. repeat split; reflexivity.
Qed.

Example c01_done_body_nonvacuous :
  exists s t bo, reach ex_cfg s /\ nth_error (tasks s) 0 = Some t /\ t_st t = TDone bo.
Proof.
  exists (st_of ex_cfg ex_tr_delivered). eexists _, _.
  split; [apply reach_st_of; vm_compute; discriminate|]. compute. split; reflexivity.
Qed.
