(* WireSpecs: the JSON-level round-trip specifications of WireProofs.v (spec_members, spec_obj_tight,
   spec_elements, spec_raw_value, spec_depth_mono, spec_string, spec_error_codec) PROVED for all
   inputs from the parse-of-print lemmas of json/JsonPrint.v, and the unconditional C13 parse-back
   theorems (single message and batch) derived from them.
   Part A: decimal integers (z_dec) are number literals that int32_of_literal reads back.
   Part B: hand-printed objects and arrays (obj_text, arr_text) are read back member by member.
   Part C: the specifications.
   Part D: the error codec (marshal_error / unmarshal_error).
   Part E: parse back, unconditionally; batches.
   Part F: what is false without the domain conditions (refutations, concrete witnesses). *)
From Coq Require Import List NArith ZArith Bool Arith Lia.
From JV Require Import Bytes Sort Json JsonProofs JsonPrint Msg Wire WireProofs.
Import ListNotations.
Local Open Scope N_scope.

(* ------------------------------------------------------------------------- *)
(* Part A: decimal integers *)

Lemma dec_value_app a b : forall acc, dec_value (a ++ b) acc = dec_value b (dec_value a acc).
Proof. induction a as [|x a IH]; intros acc; cbn [app dec_value]; [reflexivity | apply IH]. Qed.

Lemma dec_digits_S f n acc :
  dec_digits (S f) n acc = if n <? 10 then (48 + n) :: acc else dec_digits f (n / 10) ((48 + n mod 10) :: acc).
Proof. reflexivity. Qed.

Lemma dec_digits_spec f : forall n acc, n < 2 ^ N.of_nat f ->
  exists ds, dec_digits (S f) n acc = ds ++ acc /\ forallb is_digit ds = true /\
             (forall a, dec_value ds a = a * 10 ^ N.of_nat (length ds) + n) /\
             ((n = 0 /\ ds = [48]) \/ (1 <= n /\ exists x ds', ds = x :: ds' /\ 49 <= x <= 57)).
Proof.
  induction f as [|f IH]; intros n acc Hn.
  - assert (n = 0) by (cbn in Hn; lia). subst n. exists [48].
    split; [reflexivity|]. split; [reflexivity|]. split; [|left; split; reflexivity].
    intros a. cbn [dec_value length]. change (10 ^ N.of_nat 1) with 10. lia.
  - rewrite dec_digits_S. destruct (n <? 10) eqn:E.
    + apply N.ltb_lt in E. exists [48 + n]. split; [reflexivity|]. split.
      { cbn [forallb]. rewrite is_digit_intro by lia. reflexivity. }
      split.
      { intros a. cbn [dec_value length]. change (10 ^ N.of_nat 1) with 10. lia. }
      destruct (N.eq_dec n 0) as [->|Hz]; [left; split; reflexivity|].
      right. split; [lia|]. exists (48 + n), []. split; [reflexivity | lia].
    + apply N.ltb_ge in E.
      assert (Hp : 2 ^ N.of_nat (S f) = 2 * 2 ^ N.of_nat f) by (rewrite Nat2N.inj_succ, N.pow_succ_r'; reflexivity).
      pose proof (N.div_mod' n 10) as Hdm.
      assert (Hm : n mod 10 < 10) by (apply N.mod_lt; lia).
      remember (n / 10) as q eqn:Eq. remember (n mod 10) as m eqn:Em.
      assert (Hq : q < 2 ^ N.of_nat f) by lia.
      assert (Hq1 : 1 <= q) by lia.
      destruct (IH q ((48 + m) :: acc) Hq) as (ds & E1 & E2 & E3 & E4).
      exists (ds ++ [48 + m]). split; [rewrite E1, <- app_assoc; reflexivity|]. split.
      { rewrite forallb_app, E2. cbn [forallb]. rewrite is_digit_intro by lia. reflexivity. }
      split.
      { intros a. rewrite dec_value_app, E3. cbn [dec_value]. rewrite app_length. cbn [length].
        replace (N.of_nat (length ds + 1)) with (N.succ (N.of_nat (length ds))) by lia.
        rewrite N.pow_succ_r'. remember (10 ^ N.of_nat (length ds)) as p. nia. }
      right. split; [lia|]. destruct E4 as [[Hz _]|[_ (x & ds' & -> & Hx)]]; [lia|].
      exists x, (ds' ++ [48 + m]). split; [reflexivity | exact Hx].
Qed.

Lemma pos_size_gt p : N.pos p < 2 ^ N.of_nat (Pos.size_nat p).
Proof.
  induction p as [p IH|p IH|]; cbn [Pos.size_nat].
  - rewrite Nat2N.inj_succ, N.pow_succ_r'. lia.
  - rewrite Nat2N.inj_succ, N.pow_succ_r'. lia.
  - cbn. lia.
Qed.

Lemma n_dec_spec p :
  exists x ds, n_dec (N.pos p) = x :: ds /\ 49 <= x <= 57 /\ forallb is_digit (x :: ds) = true /\
               dec_value (x :: ds) 0 = N.pos p.
Proof.
  unfold n_dec. cbn [N.size_nat].
  destruct (dec_digits_spec (Pos.size_nat p) (N.pos p) [] (pos_size_gt p)) as (ds & E1 & E2 & E3 & E4).
  destruct E4 as [[Hz _]|[_ (x & ds' & -> & Hx)]]; [discriminate Hz|].
  exists x, ds'. rewrite E1, app_nil_r. repeat split; try assumption; try lia. rewrite E3. lia.
Qed.

Lemma digits_all ds : forallb is_digit ds = true -> digits ds = (ds, []).
Proof.
  induction ds as [|c ds IH]; [reflexivity|]. cbn [forallb digits]. intros H. apply andb_true_iff in H as [H1 H2].
  rewrite H1, (IH H2). reflexivity.
Qed.

Lemma pnum_digits x ds : 49 <= x <= 57 -> forallb is_digit ds = true -> pnum (x :: ds) = Some (x :: ds, []).
Proof.
  intros Hx Hd. unfold pnum. cbn [p_sign].
  replace (x =? 45) with false by (symmetry; apply N.eqb_neq; lia). unfold p_int.
  replace (x =? 48) with false by (symmetry; apply N.eqb_neq; lia). rewrite is_digit_intro by lia.
  rewrite (digits_all _ Hd). cbn [p_frac p_exp app]. rewrite app_nil_r. reflexivity.
Qed.

Lemma pnum_neg_digits x ds : 49 <= x <= 57 -> forallb is_digit ds = true -> pnum (45 :: x :: ds) = Some (45 :: x :: ds, []).
Proof.
  intros Hx Hd. unfold pnum. cbn [p_sign]. change (45 =? 45) with true. cbv iota. unfold p_int.
  replace (x =? 48) with false by (symmetry; apply N.eqb_neq; lia). rewrite is_digit_intro by lia.
  rewrite (digits_all _ Hd). cbn [p_frac p_exp app]. rewrite app_nil_r. reflexivity.
Qed.

Lemma z_dec_num_lit z : is_num_lit (z_dec z) = true.
Proof.
  unfold is_num_lit. destruct z as [|p|p]; cbn [z_dec]; [reflexivity| |];
    destruct (n_dec_spec p) as (x & ds & -> & Hx & Hd & _); cbn [forallb] in Hd; apply andb_true_iff in Hd as [_ Hd].
  - rewrite (pnum_digits _ _ Hx Hd). reflexivity.
  - rewrite (pnum_neg_digits _ _ Hx Hd). reflexivity.
Qed.

(* strconv.ParseInt reads the printed code back, inside int32 *)
Lemma int32_of_z_dec z : int32_ok z -> int32_of_literal (z_dec z) = Some z.
Proof.
  intros [Hlo Hhi]. unfold int32_of_literal. destruct z as [|p|p]; cbn [z_dec]; [reflexivity| |];
    destruct (n_dec_spec p) as (x & ds & -> & Hx & Hd & Hv).
  - replace (x =? 45) with false by (symmetry; apply N.eqb_neq; lia). rewrite Hd, Hv. cbn [beq negb andb].
    replace (N.pos p <=? 2147483647) with true by (symmetry; apply N.leb_le; lia). reflexivity.
  - change (45 =? 45) with true. cbv iota. rewrite Hd, Hv. cbn [beq negb andb].
    replace (N.pos p <=? 2147483648) with true by (symmetry; apply N.leb_le; lia). reflexivity.
Qed.

(* a number literal is the number tree of its own text, at every depth *)
Lemma num_lit_value d i : is_num_lit i = true -> value_at d i = Some (CNum i, []).
Proof.
  unfold is_num_lit. destruct (pnum i) as [[n [|? ?]]|] eqn:E; try discriminate. intros _.
  destruct i as [|x s]; [discriminate E|]. pose proof (pnum_head _ _ _ _ E) as Hx.
  pose proof (proj1 (pnum_props _ _ _ E)) as Hn. rewrite app_nil_r in Hn.
  unfold value_at. assert (Hf : exists f, fuel_of (x :: s) = S f) by (exists (2 * length (x :: s) + 1)%nat; unfold fuel_of; lia).
  destruct Hf as [f ->]. cbn [pval tk].
  assert (Ht : tok_of x = TOther).
  { unfold tok_of. repeat match goal with |- context [?a =? ?b] => replace (a =? b) with false by (symmetry; apply N.eqb_neq; lia) end. reflexivity. }
  rewrite Ht. cbv iota. unfold pscalar. cbn [strip_prefix lit_true lit_false lit_null].
  replace (116 =? x) with false by (symmetry; apply N.eqb_neq; lia).
  replace (102 =? x) with false by (symmetry; apply N.eqb_neq; lia).
  replace (110 =? x) with false by (symmetry; apply N.eqb_neq; lia).
  rewrite E, <- Hn. reflexivity.
Qed.

Lemma z_dec_PV z d : PV d (z_dec z) (CNum (z_dec z)) [].
Proof. apply (pval_PV (fuel_of (z_dec z))). exact (num_lit_value d _ (z_dec_num_lit z)). Qed.

(* ------------------------------------------------------------------------- *)
(* Part B: hand-printed objects and arrays are read back member by member *)

(* key, text of the value, tree of the value *)
Notation item := (bytes * bytes * cst)%type (only parsing).
Definition item_kv (i : item) : bytes * bytes := (fst (fst i), snd (fst i)).
Definition item_mem (i : item) : (bytes * bytes * bytes) * (bytes * cst * bytes) := (([], fst (fst i), []), ([], snd i, [])).
Definition item_ok (d : N) (i : item) : Prop := plain_key (fst (fst i)) = true /\ PV d (snd (fst i)) (snd i) [].

Lemma plain_char c : (97 <=? c) && (c <=? 122) = true -> sclass_of c = SPlain /\ (c =? 92) = false /\ (c <? 128) = true.
Proof.
  intros H. apply andb_true_iff in H as [A B]. apply N.leb_le in A, B. unfold sclass_of.
  replace (c =? 34) with false by (symmetry; apply N.eqb_neq; lia).
  replace (c =? 92) with false by (symmetry; apply N.eqb_neq; lia).
  replace (c <? 32) with false by (symmetry; apply N.ltb_ge; lia).
  replace (c <? 128) with true by (symmetry; apply N.ltb_lt; lia). repeat split.
Qed.

Lemma plain_key_pstr k r : plain_key k = true -> pstr (k ++ 34 :: r) = Some (k, r).
Proof.
  intros H. rewrite pstr_plain_app.
  - cbn [pstr]. change (sclass_of 34) with SQuote. cbv iota. rewrite app_nil_r. reflexivity.
  - intros x Hx. unfold plain_key in H. rewrite forallb_forall in H. exact (proj1 (plain_char _ (H x Hx))).
Qed.

Lemma plain_key_unquote k : plain_key k = true -> unquote k = k.
Proof.
  unfold unquote, plain_key. induction k as [|c k IH]; [reflexivity|]. cbn [forallb]. intros H.
  apply andb_true_iff in H as [Hc Hk]. destruct (plain_char _ Hc) as (_ & A & B).
  cbn [unq]. rewrite A, B, (IH Hk). reflexivity.
Qed.

Lemma join_cons_ne {sep} x (l : list bytes) : l <> [] -> join_with sep (x :: l) = x ++ sep ++ join_with sep l.
Proof. destruct l; [contradiction | reflexivity]. Qed.

Lemma fld_app k v X : fld (k, v) ++ X = 34 :: k ++ 34 :: 58 :: v ++ X.
Proof. unfold fld. cbn [fst snd app]. rewrite <- app_assoc. reflexivity. Qed.

Section Step.
  Variables (d : N) (rest : bytes).
  Hypothesis Hrest : match rest with [] => False | x :: _ => delim x end.

  Lemma rest_nice : nice rest.
  Proof. unfold nice. destruct rest; [exact I | exact Hrest]. Qed.

  Lemma rest_nows : split_ws rest = ([], rest).
  Proof. destruct rest as [|x r]; [contradiction|]. apply split_ws_nows. apply (delim_facts x Hrest). Qed.

  (* one member of an object followed by , or } *)
  Lemma pmems_step g w k v c :
    plain_key k = true -> PV d v c [] -> (2 * length (v ++ rest) <= g)%nat ->
    forall d', d' <= d ->
    pmems (S g) d' w (34 :: k ++ 34 :: 58 :: v ++ rest) =
    match tk rest with
    | (TComma, r7) =>
      let (wb, r8) := split_ws r7 in
      match pmems g d' wb r8 with
      | Some (ms, r9) => Some (((w, k, []), ([], c, [])) :: ms, r9)
      | None => None
      end
    | (TRBrace, r7) => Some ([((w, k, []), ([], c, []))], r7)
    | _ => None
    end.
  Proof.
    intros Hk Hv Hg d' Hd. cbn [pmems tk]. change (tok_of 34) with TQuote. cbv iota.
    rewrite (plain_key_pstr _ _ Hk). rewrite split_ws_nows by reflexivity.
    cbn [tk]. change (tok_of 58) with TColon. cbv iota.
    rewrite (PV_not_ws_app _ _ _ _ rest Hv).
    pose proof (PV_ext rest rest_nice _ _ _ _ Hv) as He. cbn [app] in He.
    rewrite (He g d' Hg Hd). rewrite rest_nows. reflexivity.
  Qed.

  (* one element of an array followed by , or ] *)
  Lemma pelems_step g w v c :
    PV d v c [] -> (2 * length (v ++ rest) <= g)%nat ->
    forall d', d' <= d ->
    pelems (S g) d' w (v ++ rest) =
    match tk rest with
    | (TComma, r3) =>
      let (wb, r4) := split_ws r3 in
      match pelems g d' wb r4 with
      | Some (es, r5) => Some ((w, c, []) :: es, r5)
      | None => None
      end
    | (TRBrack, r3) => Some ([(w, c, [])], r3)
    | _ => None
    end.
  Proof.
    intros Hv Hg d' Hd. cbn [pelems].
    pose proof (PV_ext rest rest_nice _ _ _ _ Hv) as He. cbn [app] in He.
    rewrite (He g d' Hg Hd). rewrite rest_nows. reflexivity.
  Qed.
End Step.

Definition obj_body (items : list item) : bytes := join_with [44] (map fld (map item_kv items)).

Lemma obj_body_head items Y : items <> [] -> exists t, obj_body items ++ Y = 34 :: t.
Proof.
  unfold obj_body. destruct items as [|[[k v] c] [|i2 items]]; [contradiction| |]; intros _; unfold item_kv; cbn [map join_with fst snd].
  - rewrite fld_app. eexists; reflexivity.
  - rewrite <- app_assoc, fld_app. eexists; reflexivity.
Qed.

Lemma pmems_items d : forall items, items <> [] -> Forall (item_ok d) items ->
  forall acc g d', (2 * length (obj_body items ++ (125 :: acc)%N) <= g)%nat -> d' <= d ->
  pmems g d' [] (obj_body items ++ 125 :: acc) = Some (map item_mem items, acc).
Proof.
  induction items as [|i items IH]; [contradiction|]. intros _ HF acc g d' Hg Hd.
  inversion HF as [|? ? [Hk Hv] HF']; subst. destruct i as [[k v] c]. cbn [fst snd] in Hk, Hv.
  destruct items as [|i2 items'].
  - unfold obj_body, item_kv in *. cbn [map join_with fst snd] in *. rewrite fld_app in *.
    destruct g as [|g]; [cbn [length] in Hg; lia|].
    rewrite (pmems_step d (125 :: acc) (or_intror (or_intror eq_refl)) g [] k v c Hk Hv); [reflexivity | | exact Hd].
    cbn [length] in Hg. rewrite app_length in Hg. cbn [length] in Hg. lia.
  - assert (Hne : i2 :: items' <> []) by discriminate.
    assert (Hb : obj_body ((k, v, c) :: i2 :: items') ++ 125 :: acc = 34 :: k ++ 34 :: 58 :: v ++ 44 :: (obj_body (i2 :: items') ++ 125 :: acc)).
    { unfold obj_body, item_kv. cbn [map fst snd]. rewrite join_cons_ne by discriminate.
      rewrite <- app_assoc, fld_app. cbn [app]. reflexivity. }
    rewrite Hb. rewrite Hb in Hg.
    destruct g as [|g]; [cbn [length] in Hg; lia|].
    assert (Hg' : (2 * length (v ++ (44 :: obj_body (i2 :: items') ++ 125 :: acc)%N) <= g)%nat).
    { cbn [length] in Hg. rewrite app_length in Hg. cbn [length] in Hg. lia. }
    rewrite (pmems_step d (44 :: obj_body (i2 :: items') ++ 125 :: acc) (or_introl eq_refl) g [] k v c Hk Hv Hg' d' Hd).
    cbn [tk]. change (tok_of 44) with TComma. cbv iota.
    destruct (obj_body_head (i2 :: items') (125 :: acc) Hne) as [t Ht]. rewrite Ht.
    rewrite split_ws_nows by reflexivity. rewrite <- Ht.
    rewrite (IH Hne HF' acc g d'); [reflexivity | | exact Hd].
    rewrite app_length in Hg'. cbn [length] in Hg'. lia.
Qed.

(* the object text printed by hand is one object value *)
Lemma obj_PV d items acc : items <> [] -> N.succ d <= max_depth -> Forall (item_ok (N.succ d)) items ->
  PV d (obj_text (map item_kv items) ++ acc) (CObj [] (map item_mem items)) acc.
Proof.
  intros Hne Hd HF g d' Hg Hd'.
  assert (Ht : obj_text (map item_kv items) ++ acc = 123 :: obj_body items ++ 125 :: acc).
  { unfold obj_text, obj_open, obj_body. cbn [app]. rewrite <- app_assoc. reflexivity. }
  rewrite Ht in *. destruct g as [|g]; [cbn [length] in Hg; lia|].
  cbn [pval tk]. change (tok_of 123) with TLBrace. cbv iota.
  replace (max_depth <=? d') with false by (symmetry; apply N.leb_gt; lia).
  destruct (obj_body_head items (125 :: acc) Hne) as [t Hh]. rewrite Hh.
  rewrite split_ws_nows by reflexivity. cbn [tk]. change (tok_of 34) with TQuote. cbv iota. rewrite <- Hh.
  rewrite (pmems_items (N.succ d) items Hne HF acc g (N.succ d')); [reflexivity | | lia].
  cbn [length] in Hg. lia.
Qed.

(* arrays *)
Definition velem (vc : bytes * cst) : bytes * cst * bytes := ([], snd vc, []).
Definition arr_body (vs : list (bytes * cst)) : bytes := join_with [44] (map fst vs).

Lemma arr_body_nows d vs Y : vs <> [] -> Forall (fun vc => PV d (fst vc) (snd vc) []) vs ->
  split_ws (arr_body vs ++ Y) = ([], arr_body vs ++ Y).
Proof.
  unfold arr_body. destruct vs as [|[v c] [|vc2 vs]]; [contradiction| |]; intros _ HF; inversion HF as [|? ? Hv _]; subst;
    cbn [map join_with fst snd] in *.
  - exact (PV_not_ws_app _ _ _ _ _ Hv).
  - rewrite <- app_assoc. exact (PV_not_ws_app _ _ _ _ _ Hv).
Qed.

Lemma arr_body_tk d vs Y : vs <> [] -> Forall (fun vc => PV d (fst vc) (snd vc) []) vs ->
  fst (tk (arr_body vs ++ Y)) <> TRBrack.
Proof.
  intros Hne HF. destruct vs as [|[v c] vs]; [contradiction|]. inversion HF as [|? ? Hv _]; subst. cbn [fst snd] in Hv.
  assert (Hs : exists X, arr_body ((v, c) :: vs) ++ Y = v ++ X).
  { unfold arr_body. destruct vs as [|vc2 vs]; cbn [map join_with fst snd]; [eexists; reflexivity|].
    rewrite <- app_assoc. eexists; reflexivity. }
  destruct Hs as [X ->]. pose proof (PV_value_at _ _ _ _ Hv) as Hva. unfold value_at in Hva.
  destruct v as [|x v']; [destruct (fuel_of []); discriminate Hva|]. cbn [app tk fst]. intros Ht.
  assert (x = 93).
  { unfold tok_of in Ht. destruct (x =? 34); [discriminate|]. destruct (x =? 91); [discriminate|].
    destruct (x =? 93) eqn:E; [apply N.eqb_eq in E; exact E|].
    destruct (x =? 123); [discriminate|]. destruct (x =? 125); [discriminate|]. destruct (x =? 44); [discriminate|].
    destruct (x =? 58); discriminate. }
  subst x. destruct (fuel_of (93 :: v')); discriminate Hva.
Qed.

Lemma pelems_items d : forall vs, vs <> [] -> Forall (fun vc => PV d (fst vc) (snd vc) []) vs ->
  forall acc g d', (2 * length (arr_body vs ++ (93 :: acc)%N) + 1 <= g)%nat -> d' <= d ->
  pelems g d' [] (arr_body vs ++ 93 :: acc) = Some (map velem vs, acc).
Proof.
  induction vs as [|vc vs IH]; [contradiction|]. intros _ HF acc g d' Hg Hd.
  inversion HF as [|? ? Hv HF']; subst. destruct vc as [v c]. cbn [fst snd] in Hv.
  destruct vs as [|vc2 vs'].
  - unfold arr_body in *. cbn [map join_with fst snd] in *.
    destruct g as [|g]; [rewrite app_length in Hg; cbn [length] in Hg; lia|].
    rewrite (pelems_step d (93 :: acc) (or_intror (or_introl eq_refl)) g [] v c Hv); [reflexivity | | exact Hd]. lia.
  - assert (Hne : vc2 :: vs' <> []) by discriminate.
    assert (Hb : arr_body ((v, c) :: vc2 :: vs') ++ 93 :: acc = v ++ 44 :: (arr_body (vc2 :: vs') ++ 93 :: acc)).
    { unfold arr_body. cbn [map fst snd]. rewrite join_cons_ne by discriminate. rewrite <- app_assoc. reflexivity. }
    rewrite Hb. rewrite Hb in Hg.
    destruct g as [|g]; [rewrite app_length in Hg; cbn [length] in Hg; lia|].
    assert (Hg' : (2 * length (v ++ (44 :: arr_body (vc2 :: vs') ++ 93 :: acc)%N) <= g)%nat) by lia.
    rewrite (pelems_step d (44 :: arr_body (vc2 :: vs') ++ 93 :: acc) (or_introl eq_refl) g [] v c Hv Hg' d' Hd).
    cbn [tk]. change (tok_of 44) with TComma. cbv iota.
    rewrite (arr_body_nows d (vc2 :: vs') (93 :: acc) Hne HF').
    rewrite (IH Hne HF' acc g d'); [reflexivity | | exact Hd].
    rewrite app_length in Hg'. cbn [length] in Hg'. lia.
Qed.

Lemma arr_PV d vs acc : N.succ d <= max_depth -> Forall (fun vc => PV (N.succ d) (fst vc) (snd vc) []) vs ->
  PV d (arr_text (map fst vs) ++ acc) (CArr [] (map velem vs)) acc.
Proof.
  intros Hd HF g d' Hg Hd'.
  assert (Ht : arr_text (map fst vs) ++ acc = 91 :: arr_body vs ++ 93 :: acc).
  { unfold arr_text, arr_body. cbn [app]. rewrite <- app_assoc. reflexivity. }
  rewrite Ht in *. destruct g as [|g]; [cbn [length] in Hg; lia|].
  cbn [pval tk]. change (tok_of 91) with TLBrack. cbv iota.
  replace (max_depth <=? d') with false by (symmetry; apply N.leb_gt; lia).
  destruct vs as [|vc vs'].
  - cbn [arr_body map join_with app split_ws]. change (is_ws 93) with false. cbv iota. cbn [tk].
    change (tok_of 93) with TRBrack. reflexivity.
  - assert (Hne : vc :: vs' <> []) by discriminate.
    rewrite (arr_body_nows _ _ (93 :: acc) Hne HF).
    pose proof (arr_body_tk _ _ (93 :: acc) Hne HF) as Htk.
    rewrite (pelems_items (N.succ d) _ Hne HF acc g (N.succ d')); [| cbn [length] in Hg; lia | lia].
    destruct (tk (arr_body (vc :: vs') ++ 93 :: acc)) as [t r2]. cbn [fst] in Htk.
    destruct t; try reflexivity. exfalso; apply Htk; reflexivity.
Qed.

(* ------------------------------------------------------------------------- *)
(* Part C: the JSON-level specifications of WireProofs.v *)

Lemma items_of_kvs d : forall kvs, (forall kv, In kv kvs -> plain_key (fst kv) = true /\ tight_at d (snd kv) = true) ->
  exists items, map item_kv items = kvs /\ Forall (item_ok d) items.
Proof.
  induction kvs as [|[k v] kvs IH]; intros H.
  - exists []. split; [reflexivity | constructor].
  - destruct (H (k, v) (or_introl eq_refl)) as [Hk Hv]. cbn [fst snd] in Hk, Hv. destruct (tight_PV _ _ Hv) as [c Hc].
    destruct IH as (items & E & F); [intros kv Hin; apply H; right; exact Hin|].
    exists ((k, v, c) :: items). split; [cbn [map]; rewrite E; reflexivity|].
    constructor; [split; assumption | exact F].
Qed.

Lemma members_of_items d items : Forall (item_ok d) items ->
  map (fun m => (unquote (snd (fst (fst m))), ctext (snd (fst (snd m))) [])) (map item_mem items) = map item_kv items.
Proof.
  induction 1 as [|[[k v] c] items [Hk Hv] _ IH]; [reflexivity|]. cbn [map]. rewrite IH.
  cbn [fst snd] in Hk, Hv. change (item_kv (k, v, c)) with (k, v). change (item_mem (k, v, c)) with (([] : bytes, k, [] : bytes), ([] : bytes, c, [] : bytes)).
  cbn [fst snd]. rewrite (plain_key_unquote _ Hk), <- (PV_text _ _ _ _ Hv). reflexivity.
Qed.

Lemma members_spec : spec_members.
Proof.
  intros kvs Hne H. destruct (items_of_kvs 1 kvs H) as (items & <- & HF).
  assert (Hne' : items <> []) by (intros ->; apply Hne; reflexivity).
  pose proof (obj_PV 0 items [] Hne' depth_le_1 HF) as Hpv. rewrite app_nil_r in Hpv.
  unfold raw_members. rewrite (parse_doc_PV _ _ Hpv). rewrite (members_of_items _ _ HF). reflexivity.
Qed.

Lemma obj_tight_spec : spec_obj_tight.
Proof.
  intros d kvs Hne Hd H. destruct (items_of_kvs (N.succ d) kvs H) as (items & <- & HF).
  assert (Hne' : items <> []) by (intros ->; apply Hne; reflexivity).
  pose proof (obj_PV d items [] Hne' Hd HF) as Hpv. rewrite app_nil_r in Hpv. exact (PV_tight _ _ _ Hpv).
Qed.

Lemma vcs_of_values d : forall vs, (forall v, In v vs -> tight_at d v = true) ->
  exists vcs, map fst vcs = vs /\ Forall (fun vc : bytes * cst => PV d (fst vc) (snd vc) []) vcs.
Proof.
  induction vs as [|v vs IH]; intros H.
  - exists []. split; [reflexivity | constructor].
  - destruct (tight_PV _ _ (H v (or_introl eq_refl))) as [c Hc].
    destruct IH as (vcs & E & F); [intros v' Hin; apply H; right; exact Hin|].
    exists ((v, c) :: vcs). split; [cbn [map fst]; rewrite E; reflexivity|]. constructor; [exact Hc | exact F].
Qed.

Lemma elems_of_vcs d vcs : Forall (fun vc : bytes * cst => PV d (fst vc) (snd vc) []) vcs ->
  map (fun e : bytes * cst * bytes => ctext (snd (fst e)) []) (map velem vcs) = map fst vcs.
Proof.
  induction 1 as [|[v c] vcs Hv _ IH]; [reflexivity|]. cbn [map]. rewrite IH. unfold velem at 1. cbn [fst snd] in *.
  rewrite <- (PV_text _ _ _ _ Hv). reflexivity.
Qed.

(* a general form: an array of values valid at depth d+1 is valid at depth d *)
Lemma arr_tight d vs : N.succ d <= max_depth -> (forall v, In v vs -> tight_at (N.succ d) v = true) -> tight_at d (arr_text vs) = true.
Proof.
  intros Hd H. destruct (vcs_of_values (N.succ d) vs H) as (vcs & <- & HF).
  pose proof (arr_PV d vcs [] Hd HF) as Hpv. rewrite app_nil_r in Hpv. exact (PV_tight _ _ _ Hpv).
Qed.

Lemma elements_spec : spec_elements.
Proof.
  intros vs H. destruct (vcs_of_values 1 vs H) as (vcs & <- & HF).
  pose proof (arr_PV 0 vcs [] depth_le_1 HF) as Hpv. rewrite app_nil_r in Hpv.
  unfold raw_elements. rewrite (parse_doc_PV _ _ Hpv). rewrite (elems_of_vcs _ _ HF). reflexivity.
Qed.

Lemma raw_value_spec : spec_raw_value.
Proof. exact raw_value_tight. Qed.

Lemma depth_mono_spec : spec_depth_mono.
Proof. intros d v H. apply (tight_depth_mono (N.succ d)); [exact H | lia]. Qed.

Lemma string_spec : spec_string.
Proof. exact string_round_trip. Qed.

(* ------------------------------------------------------------------------- *)
(* Part D: the error codec *)

Definition kc_code : bytes := [99; 111; 100; 101].
Definition kc_message : bytes := [109; 101; 115; 115; 97; 103; 101].
Definition kc_data : bytes := [100; 97; 116; 97].

(* the members marshal_error writes: q = compacted data, cq = its tree *)
Definition err_items (e : werr) (q : bytes) (cq : cst) : list item :=
  [(kc_code, z_dec (we_code e), CNum (z_dec (we_code e)))] ++
  (if beq (we_msg e) [] then [] else [(kc_message, escape_string (we_msg e), CStr (escape_body (we_msg e)))]) ++
  (if beq (we_data e) [] then [] else [(kc_data, q, cq)]).

Lemma marshal_error_text e b : marshal_error e = Some b ->
  exists q, (beq (we_data e) [] = false -> compact (we_data e) = Some q) /\
            forall cq, b = obj_text (map item_kv (err_items e q cq)).
Proof.
  unfold marshal_error, err_items. cbv zeta.
  set (zd := z_dec (we_code e)).
  set (A := [(kc_code, zd, CNum zd)]).
  set (B := if beq (we_msg e) [] then [] else [(kc_message, escape_string (we_msg e), CStr (escape_body (we_msg e)))]).
  assert (Hb : s_code ++ zd ++ (if beq (we_msg e) [] then [] else s_message ++ escape_string (we_msg e)) = obj_open (map item_kv (A ++ B))
               /\ map item_kv (A ++ B) <> []).
  { unfold A, B. destruct (beq (we_msg e) []).
    - split; [rewrite app_nil_r; reflexivity | discriminate].
    - split; [|discriminate].
      transitivity (obj_open ([(kc_code, zd)] ++ [(kc_message, escape_string (we_msg e))])); [|reflexivity].
      rewrite obj_snoc by discriminate. reflexivity. }
  destruct Hb as (Hb & Hne). rewrite Hb.
  destruct (beq (we_data e) []) eqn:Ed.
  - intros H; apply some_eq in H; subst b. exists []. split; [discriminate|]. intros cq.
    rewrite app_nil_r. reflexivity.
  - destruct (compact (we_data e)) as [q|] eqn:Ec; [|discriminate]. intros H; apply some_eq in H; subst b.
    exists q. split; [reflexivity|]. intros cq. rewrite (app_assoc A B), (map_app item_kv (A ++ B)). change (map item_kv [(kc_data, q, cq)]) with [(kc_data, q)]. unfold obj_text.
    rewrite obj_snoc by exact Hne. rewrite <- !app_assoc. reflexivity.
Qed.

Lemma err_member_code e0 ok lit :
  err_member (e0, ok) (item_mem (kc_code, lit, CNum lit)) =
  match int32_of_literal lit with
  | Some z => ({| we_code := z; we_msg := we_msg e0; we_data := we_data e0 |}, ok)
  | None => (e0, false)
  end.
Proof. reflexivity. Qed.

Lemma err_member_message e0 ok t b :
  err_member (e0, ok) (item_mem (kc_message, t, CStr b)) = ({| we_code := we_code e0; we_msg := unquote b; we_data := we_data e0 |}, ok).
Proof. reflexivity. Qed.

Lemma err_member_data e0 ok t c :
  err_member (e0, ok) (item_mem (kc_data, t, c)) = ({| we_code := we_code e0; we_msg := we_msg e0; we_data := ctext c [] |}, ok).
Proof. reflexivity. Qed.

Lemma error_codec_spec : spec_error_codec.
Proof.
  intros d e b Hd [Hc Hdat] Hm.
  destruct (marshal_error_text e b Hm) as (q & Hq & Hb).
  assert (Hcq : exists cq, beq (we_data e) [] = false -> PV (N.succ d) q cq []).
  { destruct (beq (we_data e) []) eqn:Ed; [exists CNull; discriminate|].
    destruct Hdat as [Hdat|(q' & Hq' & Ht)]; [rewrite Hdat in Ed; discriminate Ed|].
    rewrite (Hq eq_refl) in Hq'. injection Hq' as <-. destruct (tight_PV _ _ Ht) as [cq Hcq]. exists cq. intros _. exact Hcq. }
  destruct Hcq as [cq Hcq]. specialize (Hb cq).
  assert (HF : Forall (item_ok (N.succ d)) (err_items e q cq)).
  { unfold err_items. apply Forall_app. split; [|apply Forall_app; split].
    - constructor; [|constructor]. split; [reflexivity | apply z_dec_PV].
    - destruct (beq (we_msg e) []); constructor; [|constructor]. split; [reflexivity|].
      pose proof (escape_string_PV (we_msg e) (N.succ d) []) as H. rewrite app_nil_r in H. exact H.
    - destruct (beq (we_data e) []) eqn:Ed; constructor; [|constructor]. split; [reflexivity | exact (Hcq eq_refl)]. }
  assert (Hne : err_items e q cq <> []) by (unfold err_items; discriminate).
  pose proof (obj_PV d _ [] Hne Hd HF) as Hpv. rewrite app_nil_r, <- Hb in Hpv.
  split; [exact (PV_tight _ _ _ Hpv)|].
  unfold unmarshal_error. rewrite (parse_doc_PV _ _ (PV_depth _ 0 _ _ _ Hpv (N.le_0_l d))).
  unfold err_items. rewrite !map_app. cbn [map]. rewrite !fold_left_app. cbn [fold_left].
  rewrite err_member_code, (int32_of_z_dec _ Hc).
  destruct (beq (we_msg e) []) eqn:Em; destruct (beq (we_data e) []) eqn:Ed; cbn [map fold_left];
    rewrite ?err_member_message, ?err_member_data; cbn [we_code we_msg we_data err_zero]; f_equal; f_equal; f_equal.
  - apply beq_eq in Em. rewrite Em. reflexivity.
  - destruct (compact (we_data e)); reflexivity.
  - apply beq_eq in Em. rewrite Em. reflexivity.
  - rewrite (Hq eq_refl). exact (eq_sym (PV_text _ _ _ _ (Hcq eq_refl))).
  - destruct (valid_utf8 (we_msg e)) eqn:V; [apply unquote_escape_body; exact V|].
    rewrite (proj1 (unmarshal_string_escape (we_msg e))). reflexivity.
  - destruct (compact (we_data e)); reflexivity.
  - destruct (valid_utf8 (we_msg e)) eqn:V; [apply unquote_escape_body; exact V|].
    rewrite (proj1 (unmarshal_string_escape (we_msg e))). reflexivity.
  - rewrite (Hq eq_refl). exact (eq_sym (PV_text _ _ _ _ (Hcq eq_refl))).
Qed.

(* ------------------------------------------------------------------------- *)
(* Part E: parse back, unconditionally *)

(* every encoded message parses back, under the library's own parser, to the message it denotes *)
Theorem parse_back : forall m b, msg_rt m -> enc_msg m = Some b ->
  parse_member b = canon m /\ parse_msgs b = InMsgs false [canon m] /\
  parse_requests b = Parsed [to_parsed (canon m)].
Proof. exact (parse_back_partial members_spec string_spec error_codec_spec obj_tight_spec raw_value_spec). Qed.

(* the JSON layer alone sees exactly the intended key set, with "jsonrpc" bound to "2.0" *)
Theorem independent : forall m b, msg_rt m -> enc_msg m = Some b ->
  exists eb, raw_members b = Some (msg_fields m eb) /\ lookup k_jsonrpc (msg_fields m eb) = Some v20 /\
             unmarshal_string v20 = Some (Some version).
Proof. exact (independent_partial members_spec string_spec error_codec_spec). Qed.

Lemma err_rt_at_mono d d' e : d' <= d -> err_rt_at d e -> err_rt_at d' e.
Proof.
  intros Hd [Hc Hdat]. split; [exact Hc|]. destruct Hdat as [Hdat|(q & Hq & Ht)]; [left; exact Hdat|].
  right. exists q. split; [exact Hq|]. apply (tight_depth_mono (N.succ d)); [exact Ht | lia].
Qed.

(* a message that may sit deep may sit less deep *)
Lemma msg_rt_at_mono d d' m : d' <= d -> msg_rt_at d m -> msg_rt_at d' m.
Proof.
  intros Hd [Rm Ri Rp Rr Re]. constructor.
  - exact Rm.
  - exact Ri.
  - destruct Rp as [Rp|(A & B & C)]; [left; exact Rp|]. right. split; [|split; assumption].
    apply (tight_depth_mono (N.succ d)); [exact A | lia].
  - destruct Rr as [Rr|Rr]; [left; exact Rr|]. right. apply (tight_depth_mono (N.succ d)); [exact Rr | lia].
  - intros e He Hm Hr. apply (err_rt_at_mono (N.succ d)); [lia | exact (Re e He Hm Hr)].
Qed.

(* an encoded message is one JSON value at the depth of its domain *)
Lemma enc_tight d m b : N.succ (N.succ d) <= max_depth -> msg_rt_at d m -> enc_msg m = Some b -> tight_at d b = true.
Proof.
  intros Hd Hrt Henc. destruct (enc_msg_fields _ _ Henc) as (eb & -> & He0).
  pose proof (enc_fields_rt d m eb Hrt He0) as He. clear He0.
  apply obj_tight_spec; [apply msg_fields_ne | lia | exact (fields_ok string_spec error_codec_spec d m eb Hd Hrt He)].
Qed.

Lemma enc_all_spec : forall ms bl, enc_all ms = Some bl -> Forall2 (fun m b => enc_msg m = Some b) ms bl.
Proof.
  induction ms as [|m ms IH]; intros bl H.
  - injection H as <-. constructor.
  - rewrite enc_all_cons in H. destruct (enc_msg m) as [b|] eqn:Eb; [|discriminate]. destruct (enc_all ms) as [bl'|] eqn:E; [|discriminate].
    injection H as <-. constructor; [exact Eb | exact (IH _ eq_refl)].
Qed.

Lemma first_byte_arr vs : first_byte (arr_text vs) = 91.
Proof. unfold arr_text, first_byte. cbn [first_byte_k]. rewrite go_space_len_O; reflexivity. Qed.

(* batches: every member of an encoded batch parses back, in order *)
Theorem parse_back_batch : forall ms b, Forall (msg_rt_at 1) ms -> enc_msgs true ms = Some b ->
  parse_msgs b = InMsgs true (map canon ms) /\
  parse_requests b = Parsed (map (fun m => to_parsed (canon m)) ms).
Proof.
  intros ms b HF Henc.
  assert (Hshape : enc_msgs true ms = match enc_all ms with Some bl => Some (arr_text bl) | None => None end)
    by (destruct ms as [|m [|m2 ms2]]; reflexivity).
  rewrite Hshape in Henc. destruct (enc_all ms) as [bl|] eqn:E; [|discriminate]. apply some_eq in Henc. subst b.
  pose proof (enc_all_spec _ _ E) as H2. clear Hshape.
  assert (Ht : forall v, In v bl -> tight_at 1 v = true).
  { clear E. induction H2 as [|m b ms' bl' Hb _ IH]; intros v Hin; [contradiction|].
    inversion HF as [|? ? Hm HF']; subst. destruct Hin as [<-|Hin]; [|exact (IH HF' v Hin)].
    exact (enc_tight 1 m b depth_le_3 Hm Hb). }
  assert (Hmap : map parse_member bl = map canon ms).
  { clear E Ht. induction H2 as [|m b ms' bl' Hb _ IH]; [reflexivity|].
    inversion HF as [|? ? Hm HF']; subst. cbn [map]. rewrite (IH HF').
    assert (Hm0 : msg_rt m) by (apply (msg_rt_at_mono 1); [lia | exact Hm]).
    rewrite (proj1 (parse_back m b Hm0 Hb)). reflexivity. }
  assert (Hp : parse_msgs (arr_text bl) = InMsgs true (map canon ms)).
  { unfold parse_msgs, split_msgs. rewrite first_byte_arr. cbn [N.eqb Pos.eqb negb].
    rewrite (elements_spec bl Ht), Hmap. reflexivity. }
  split; [exact Hp|]. unfold parse_requests. rewrite Hp, map_map. reflexivity.
Qed.

(* ------------------------------------------------------------------------- *)
(* Part F: what is FALSE without the domain conditions (concrete witnesses, closed by vm_compute) *)

(* The error codec specification as it was first written (no condition on e): refuted twice.
   The _partial C13 theorems that assumed it were therefore vacuous. *)
Definition spec_error_codec_unrestricted : Prop := forall e b, marshal_error e = Some b ->
  (forall d, tight_at d b = true) /\
  unmarshal_error b = (Some {| we_code := we_code e;
                               we_msg := if valid_utf8 (we_msg e) then we_msg e else snd (true, match unmarshal_string (escape_string (we_msg e)) with Some (Some x) => x | _ => [] end);
                               we_data := match compact (we_data e) with Some q => if beq (we_data e) [] then [] else q | None => [] end |}, true).

(* a code outside int32 (the model's code is a Z, Go's is an int32) is written but not read back *)
Definition big_code_err : werr := {| we_code := 2147483648%Z; we_msg := []; we_data := [] |}.
Lemma spec_error_codec_unrestricted_refuted : ~ spec_error_codec_unrestricted.
Proof.
  intros H. destruct (H big_code_err _ eq_refl) as [_ Hu]. vm_compute in Hu. discriminate Hu.
Qed.

(* an object is not a value at depth 10000: "tight at every depth" is false for every error object *)
Lemma spec_error_codec_unrestricted_refuted_depth : ~ spec_error_codec_unrestricted.
Proof.
  intros H. destruct (H {| we_code := 1%Z; we_msg := []; we_data := [] |} _ eq_refl) as [Ht _].
  specialize (Ht 10000). vm_compute in Ht. discriminate Ht.
Qed.

(* the round-trip domain without its condition on the error (the first four fields of msg_rt_at 0) *)
Definition msg_rt_no_error (m : jmsg) : Prop :=
  valid_utf8 (j_method m) = true /\
  (j_id m = [] \/ is_str_lit (j_id m) || is_num_lit (j_id m) = true) /\
  (j_params m = [] \/ (tight_at 1 (j_params m) = true /\ params_ok (j_params m) = true /\ is_null (j_params m) = false)) /\
  (j_result m = [] \/ tight_at 1 (j_result m) = true).

Definition big_code_rsp : jmsg :=
  {| j_id := [49]; j_method := []; j_params := []; j_error := Some big_code_err; j_result := []; j_err := None |}.

Lemma parse_back_refuted_without_rt_error :
  exists m b, msg_rt_no_error m /\ enc_msg m = Some b /\ parse_member b <> canon m.
Proof.
  exists big_code_rsp. eexists. split; [|split; [vm_compute; reflexivity|]].
  - split; [reflexivity|]. split; [right; reflexivity|]. split; left; reflexivity.
  - vm_compute. discriminate.
Qed.

(* encoding/json's nesting limit (10000) counts the envelope.  [deep n] = n nested arrays. *)
Definition deep (n : N) : bytes := repeat 91 (N.to_nat n) ++ repeat 93 (N.to_nat n).

(* error data nested 9999 deep is valid JSON on its own and is marshalled, but the response that
   carries it (two containers further down) is rejected as not JSON by the library's own parser;
   9998 levels are fine *)
Definition deep_err (n : N) : werr := {| we_code := 1%Z; we_msg := []; we_data := deep n |}.
Definition deep_rsp (n : N) : jmsg :=
  {| j_id := [49]; j_method := []; j_params := []; j_error := Some (deep_err n); j_result := []; j_err := None |}.

Lemma deep_rsp_rt d n : tight_at (N.succ (N.succ d)) (deep n) = true -> compact (deep n) = Some (deep n) -> msg_rt_at d (deep_rsp n).
Proof.
  intros H1 H2. constructor.
  - reflexivity.
  - right; reflexivity.
  - left; reflexivity.
  - left; reflexivity.
  - intros e He _ _. change (j_error (deep_rsp n)) with (Some (deep_err n)) in He. injection He as <-.
    split; [unfold int32_ok; change (we_code (deep_err n)) with 1%Z; split; discriminate|].
    right. exists (deep n). change (we_data (deep_err n)) with (deep n). split; assumption.
Qed.

Lemma parse_back_refuted_deep_error_data :
  msg_rt_no_error (deep_rsp 9999) /\ int32_ok (we_code (deep_err 9999)) /\
  compact (deep 9999) = Some (deep 9999) /\
  (exists b, enc_msg (deep_rsp 9999) = Some b /\ parse_msgs b = InBad /\ j_err (parse_member b) <> j_err (canon (deep_rsp 9999))) /\
  msg_rt (deep_rsp 9998).
Proof.
  split; [|split; [|split; [|split]]].
  - split; [reflexivity|]. split; [right; reflexivity|]. split; left; reflexivity.
  - unfold int32_ok. change (we_code (deep_err 9999)) with 1%Z. split; discriminate.
  - vm_compute. reflexivity.
  - eexists. split; [vm_compute; reflexivity|]. split; [vm_compute; reflexivity|]. vm_compute. discriminate.
  - apply deep_rsp_rt; vm_compute; reflexivity.
Qed.

(* a request whose params are nested 9999 deep round-trips alone (msg_rt) but not as a batch member:
   the batch theorem needs msg_rt_at 1 *)
Definition deep_req (n : N) : jmsg :=
  {| j_id := [49]; j_method := [109]; j_params := deep n; j_error := None; j_result := []; j_err := None |}.

Lemma deep_req_rt d n : tight_at (N.succ d) (deep n) = true -> params_ok (deep n) = true -> is_null (deep n) = false ->
  msg_rt_at d (deep_req n).
Proof.
  intros H1 H2 H3. constructor.
  - reflexivity.
  - right; reflexivity.
  - right. change (j_params (deep_req n)) with (deep n). repeat split; assumption.
  - left; reflexivity.
  - intros e He. discriminate He.
Qed.

Lemma parse_back_batch_refuted_at_depth_0 :
  msg_rt (deep_req 9999) /\
  (exists b, enc_msg (deep_req 9999) = Some b /\ parse_msgs b = InMsgs false [canon (deep_req 9999)]) /\
  (exists b, enc_msgs true [deep_req 9999] = Some b /\ parse_msgs b = InBad) /\
  msg_rt_at 1 (deep_req 9998).
Proof.
  split; [|split; [|split]].
  - apply deep_req_rt; vm_compute; reflexivity.
  - eexists. split; [vm_compute; reflexivity | vm_compute; reflexivity].
  - eexists. split; [vm_compute; reflexivity | vm_compute; reflexivity].
  - apply deep_req_rt; vm_compute; reflexivity.
Qed.

(* ------------------------------------------------------------------------- *)
(* Part G: fix F16/F17 - the encoder of a message never fails; an error whose data are not JSON is
   written without them *)

Theorem enc_msg_total : forall m, exists b, enc_msg m = Some b.
Proof.
  intros m. unfold enc_msg, enc_msg_gen. cbv zeta.
  destruct (negb (beq (j_method m) [])); [eexists; reflexivity|].
  destruct (negb (beq (j_result m) [])); [eexists; reflexivity|].
  destruct (j_error m) as [e|]; [|eexists; reflexivity].
  fold enc_error. destruct (enc_error_total e) as [eb ->]. eexists; reflexivity.
Qed.

Lemma enc_all_total : forall ms, exists bl, enc_all ms = Some bl.
Proof.
  induction ms as [|m ms [bl IH]]; [exists []; reflexivity|].
  destruct (enc_msg_total m) as [b Hb]. exists (b :: bl). rewrite enc_all_cons, Hb, IH. reflexivity.
Qed.

Theorem enc_msgs_total : forall batch ms, exists b, enc_msgs batch ms = Some b.
Proof.
  intros batch ms. rewrite enc_msgs_shape. destruct (enc_all_total ms) as [bl Hbl].
  destruct ms as [|m [|m2 ms2]]; try (rewrite Hbl; eexists; reflexivity).
  destruct batch; [rewrite Hbl; eexists; reflexivity | apply enc_msg_total].
Qed.

(* the message is written exactly as if its error had no data *)
Theorem enc_msg_drops_undeliverable_data : forall m e, j_error m = Some e -> marshal_error e = None ->
  enc_msg m = enc_msg (set_error (Some (drop_data e)) m).
Proof.
  intros m e He Hn. unfold enc_msg, enc_msg_gen, set_error. cbv zeta. cbn [j_id j_method j_params j_result j_error].
  rewrite He. fold enc_error. rewrite (enc_error_fallback e Hn).
  assert (Hd : enc_error (drop_data e) = marshal_error (drop_data e)).
  { destruct (marshal_error_no_data (drop_data e) eq_refl) as [b Hb]. rewrite Hb. exact (enc_error_marshal _ _ Hb). }
  rewrite Hd. reflexivity.
Qed.

Lemma canon_drop_data m e : j_error m = Some e -> marshal_error e = None ->
  canon (set_error (Some (drop_data e)) m) = canon m.
Proof.
  intros He Hn. apply marshal_error_none in Hn as [_ Hc].
  unfold canon, set_error. cbn [j_id j_method j_params j_result j_error j_err]. rewrite He.
  destruct (negb (beq (j_method m) [])); [reflexivity|].
  destruct (negb (beq (j_result m) [])); [reflexivity|].
  unfold drop_data. cbn [we_code we_msg we_data]. rewrite Hc. cbn [beq].
  destruct (compact []); reflexivity.
Qed.

(* ... and parses back, under the library's own parser, to the message with the data-less error *)
Theorem parse_back_undeliverable_data : forall m e b,
  j_error m = Some e -> marshal_error e = None -> msg_rt (set_error (Some (drop_data e)) m) ->
  enc_msg m = Some b ->
  parse_member b = canon m /\ parse_msgs b = InMsgs false [canon m] /\
  parse_requests b = Parsed [to_parsed (canon m)].
Proof.
  intros m e b He Hn Hrt Henc. rewrite (enc_msg_drops_undeliverable_data m e He Hn) in Henc.
  rewrite <- (canon_drop_data m e He Hn). exact (parse_back _ b Hrt Henc).
Qed.

(* before the fix: the error response could not be encoded, and a batch that contained it was
   lost as a whole (finding F17: the well-formed sibling got no reply) *)
Definition bad_data_err : werr := {| we_code := 7%Z; we_msg := [110; 111]; we_data := [123; 98; 97; 100] |}.
Definition bad_data_rsp : jmsg :=
  {| j_id := [50]; j_method := []; j_params := []; j_error := Some bad_data_err; j_result := []; j_err := None |}.
Definition good_rsp : jmsg :=
  {| j_id := [49]; j_method := []; j_params := []; j_error := None; j_result := [116; 114; 117; 101]; j_err := None |}.

Lemma encoder_refuted_without_F16 :
  marshal_error bad_data_err = None /\
  enc_msg_gen false bad_data_rsp = None /\
  enc_msgs_gen false true [good_rsp; bad_data_rsp] = None /\
  (exists b, enc_msgs_gen false true [good_rsp] = Some b) /\
  (exists b, enc_msgs true [good_rsp; bad_data_rsp] = Some b /\
             parse_msgs b = InMsgs true [canon good_rsp; canon bad_data_rsp]) /\
  j_error (canon bad_data_rsp) = Some {| we_code := 7%Z; we_msg := [110; 111]; we_data := [] |}.
Proof.
  split; [vm_compute; reflexivity|]. split; [vm_compute; reflexivity|]. split; [vm_compute; reflexivity|].
  split; [eexists; vm_compute; reflexivity|]. split; [|vm_compute; reflexivity].
  eexists. split; [vm_compute; reflexivity | vm_compute; reflexivity].
Qed.

Example parse_back_undeliverable_data_nonvacuous :
  j_error bad_data_rsp = Some bad_data_err /\ marshal_error bad_data_err = None /\
  msg_rt (set_error (Some (drop_data bad_data_err)) bad_data_rsp) /\ msg_rt_at 1 (set_error (Some (drop_data bad_data_err)) bad_data_rsp).
Proof.
  split; [reflexivity|]. split; [vm_compute; reflexivity|].
  assert (H : forall d, msg_rt_at d (set_error (Some (drop_data bad_data_err)) bad_data_rsp)).
  { intros d. constructor.
    - reflexivity.
    - right; reflexivity.
    - left; reflexivity.
    - left; reflexivity.
    - intros e He _ _. cbn in He. injection He as <-. split; [unfold int32_ok; cbn; split; discriminate|]. left. reflexivity. }
  split; apply H.
Qed.
