(* Wire: executable model of jrpc2's message parser and encoder (json.go, base.go, client.go
   marshalParams, jhttp/bridge.go marshalError).  Definitions only; proofs are in WireProofs.v.

   Go's map iteration order is random and jmessage.fail keeps the FIRST defect it meets, so the
   member parser is a function of an ORDERED field list: [parse_fields fs].  The canonical,
   deterministic [parse_member] uses document order (of the last occurrence of each key);
   [allowed_errs] is the set of errors that some iteration order can report. *)
From Coq Require Import List NArith ZArith Bool String Ascii.
From JV Require Import Bytes Sort Json Msg.
Import ListNotations.
Local Open Scope N_scope.

Definition bs (s : string) : bytes := map N_of_ascii (list_ascii_of_string s).

(* ------------------------------------------------------------------------- *)
(* constants *)
Definition version : bytes := Eval vm_compute in bs "2.0".
Definition k_jsonrpc : bytes := Eval vm_compute in bs "jsonrpc".
Definition k_id : bytes := Eval vm_compute in bs "id".
Definition k_method : bytes := Eval vm_compute in bs "method".
Definition k_params : bytes := Eval vm_compute in bs "params".
Definition k_error : bytes := Eval vm_compute in bs "error".
Definition k_result : bytes := Eval vm_compute in bs "result".

Definition mk_err (c : Z) (m : bytes) : werr := {| we_code := c; we_msg := m; we_data := [] |}.
Definition e_not_object := Eval vm_compute in mk_err ParseError (bs "request is not a JSON object").
Definition e_bad_version_key := Eval vm_compute in mk_err ParseError (bs "invalid version key").
Definition e_bad_id := Eval vm_compute in mk_err InvalidRequest (bs "invalid request ID").
Definition e_bad_method := Eval vm_compute in mk_err ParseError (bs "invalid method name").
Definition e_bad_params := Eval vm_compute in mk_err InvalidRequest (bs "parameters must be array or object").
Definition e_bad_error := Eval vm_compute in mk_err ParseError (bs "invalid error value").
Definition e_bad_version := Eval vm_compute in mk_err InvalidRequest (bs "invalid version marker").
Definition e_mixed := Eval vm_compute in mk_err InvalidRequest (bs "mixed request and reply fields").
Definition m_extra : bytes := Eval vm_compute in bs "extra fields in request".
(* errInvalidRequest (error.go): what jmessages.parseJSON / ParseRequests return for non-JSON *)
Definition e_invalid_request := Eval vm_compute in mk_err ParseError (bs "invalid request value").
(* marshalParams (client.go) *)
Definition e_params_required :=
  Eval vm_compute in mk_err InvalidRequest (bs "invalid parameters: array or object required").

(* ------------------------------------------------------------------------- *)
(* firstByte: bytes.TrimSpace, then the first byte or 0.  TrimSpace strips ASCII \t \n \v \f \r
   space and the (well-formed encodings of) U+0085 U+00A0 U+1680 U+2000-200A U+2028 U+2029
   U+202F U+205F U+3000. *)
Definition go_space_len (s : bytes) : nat :=
  match s with
  | [] => O
  | c :: r =>
    if (c =? 32) || ((9 <=? c) && (c <=? 13)) then 1%nat
    else match r with
      | c2 :: r2 =>
        if (c =? 194) && ((c2 =? 133) || (c2 =? 160)) then 2%nat
        else match r2 with
          | c3 :: _ =>
            if (c =? 225) && (c2 =? 154) && (c3 =? 128) then 3%nat
            else if (c =? 226) && (c2 =? 128) && (((128 <=? c3) && (c3 <=? 138)) || (c3 =? 168) || (c3 =? 169) || (c3 =? 175)) then 3%nat
            else if (c =? 226) && (c2 =? 129) && (c3 =? 159) then 3%nat
            else if (c =? 227) && (c2 =? 128) && (c3 =? 128) then 3%nat
            else O
          | [] => O
          end
      | [] => O
      end
  end.

(* k = bytes of an already recognised space rune still to skip *)
Fixpoint first_byte_k (k : nat) (s : bytes) : N :=
  match s with
  | [] => 0
  | c :: r =>
    match k with
    | S k' => first_byte_k k' r
    | O => match go_space_len s with O => c | S n => first_byte_k n r end
    end
  end.
Definition first_byte (s : bytes) : N := first_byte_k O s.

(* isValidID: empty, null, or first byte quote, minus, digit *)
Definition is_valid_id (v : bytes) : bool :=
  match v with
  | [] => true
  | c :: _ => is_null v || (c =? 34) || (c =? 45) || is_digit c
  end.

(* ------------------------------------------------------------------------- *)
(* json.Unmarshal(val, **Error).  Result: (value left in j.E, no error reported).
   Object keys match the struct tags "code" / "message" / "data" exactly or under encoding/json's
   case folding (ASCII case; U+017F folds to S).  Members are decoded in order, a later one
   overwrites; a type error leaves the field as it is and decoding continues. *)
Fixpoint fold_name (s : bytes) : bytes :=
  match s with
  | [] => []
  | c :: r =>
    if (97 <=? c) && (c <=? 122) then (c - 32) :: fold_name r
    else if c =? 197 then
      match r with
      | c2 :: r2 => if c2 =? 191 then 83 :: fold_name r2 else c :: fold_name r
      | [] => [c]
      end
    else c :: fold_name r
  end.
Definition f_code : bytes := Eval vm_compute in bs "CODE".
Definition f_message : bytes := Eval vm_compute in bs "MESSAGE".
Definition f_data : bytes := Eval vm_compute in bs "DATA".

(* decimal digits to N *)
Fixpoint dec_value (ds : bytes) (acc : N) : N :=
  match ds with [] => acc | c :: r => dec_value r (acc * 10 + (c - 48)) end.
(* strconv.ParseInt(lit, 10, 64) + OverflowInt for int32, on a JSON number literal *)
Definition int32_of_literal (lit : bytes) : option Z :=
  let (neg, ds) := match lit with c :: r => if c =? 45 then (true, r) else (false, lit) | [] => (false, []) end in
  if forallb is_digit ds && negb (beq ds []) then
    let n := dec_value ds 0 in
    if neg then (if n <=? 2147483648 then Some (- Z.of_N n)%Z else None)
    else (if n <=? 2147483647 then Some (Z.of_N n) else None)
  else None.

Definition err_zero : werr := {| we_code := 0%Z; we_msg := []; we_data := [] |}.

Definition err_member (st : werr * bool) (m : (bytes * bytes * bytes) * (bytes * cst * bytes)) : werr * bool :=
  let '(e, ok) := st in
  let key := fold_name (unquote (snd (fst (fst m)))) in
  let c := snd (fst (snd m)) in
  if beq key f_code then
    match c with
    | CNum lit => match int32_of_literal lit with
                  | Some z => ({| we_code := z; we_msg := we_msg e; we_data := we_data e |}, ok)
                  | None => (e, false)
                  end
    | CNull => (e, ok)
    | _ => (e, false)
    end
  else if beq key f_message then
    match c with
    | CStr b => ({| we_code := we_code e; we_msg := unquote b; we_data := we_data e |}, ok)
    | CNull => (e, ok)
    | _ => (e, false)
    end
  else if beq key f_data then
    ({| we_code := we_code e; we_msg := we_msg e; we_data := ctext c [] |}, ok)
  else (e, ok).

Definition unmarshal_error (val : bytes) : option werr * bool :=
  match parse_doc val with
  | None => (None, false)                       (* not reachable for a raw member value *)
  | Some (_, CNull, _) => (None, true)
  | Some (_, CObj _ ms, _) => let (e, ok) := fold_left err_member ms (err_zero, true) in (Some e, ok)
  | Some _ => (Some err_zero, false)
  end.

(* ------------------------------------------------------------------------- *)
(* jmessage.parseJSON *)

Inductive fkey := KVersion | KId | KMethod | KParams | KError | KResult | KOther.
Definition classify (k : bytes) : fkey :=
  if beq k k_jsonrpc then KVersion else if beq k k_id then KId else if beq k k_method then KMethod
  else if beq k k_params then KParams else if beq k k_error then KError else if beq k k_result then KResult
  else KOther.

(* scan state: the jmessage under construction, its version string and the extra keys *)
Record pstate := { ps_v : bytes; ps_m : jmsg; ps_extra : list bytes }.

Definition j_empty : jmsg :=
  {| j_id := []; j_method := []; j_params := []; j_error := None; j_result := []; j_err := None |}.
Definition ps_init : pstate := {| ps_v := []; ps_m := j_empty; ps_extra := [] |}.

(* fail(): keep the first defect *)
Definition fail (e : werr) (m : jmsg) : jmsg :=
  match j_err m with
  | Some _ => m
  | None => {| j_id := j_id m; j_method := j_method m; j_params := j_params m; j_error := j_error m;
               j_result := j_result m; j_err := Some e |}
  end.

Definition set_id v m := {| j_id := v; j_method := j_method m; j_params := j_params m; j_error := j_error m; j_result := j_result m; j_err := j_err m |}.
Definition set_method v m := {| j_id := j_id m; j_method := v; j_params := j_params m; j_error := j_error m; j_result := j_result m; j_err := j_err m |}.
Definition set_params v m := {| j_id := j_id m; j_method := j_method m; j_params := v; j_error := j_error m; j_result := j_result m; j_err := j_err m |}.
Definition set_error v m := {| j_id := j_id m; j_method := j_method m; j_params := j_params m; j_error := v; j_result := j_result m; j_err := j_err m |}.
Definition set_result v m := {| j_id := j_id m; j_method := j_method m; j_params := j_params m; j_error := j_error m; j_result := v; j_err := j_err m |}.

Definition params_ok (p : bytes) : bool :=
  let fb := first_byte p in (fb =? 0) || (fb =? 91) || (fb =? 123).

(* one iteration of `for key, val := range obj` *)
Definition scan_field (st : pstate) (kv : bytes * bytes) : pstate :=
  let (key, val) := kv in
  let m := ps_m st in
  match classify key with
  | KVersion =>
    match unmarshal_string val with
    | None => {| ps_v := ps_v st; ps_m := fail e_bad_version_key m; ps_extra := ps_extra st |}
    | Some None => st
    | Some (Some s) => {| ps_v := s; ps_m := m; ps_extra := ps_extra st |}
    end
  | KId =>
    {| ps_v := ps_v st; ps_extra := ps_extra st;
       ps_m := if is_valid_id val then set_id val m else fail e_bad_id m |}
  | KMethod =>
    match unmarshal_string val with
    | None => {| ps_v := ps_v st; ps_m := fail e_bad_method m; ps_extra := ps_extra st |}
    | Some None => st
    | Some (Some s) => {| ps_v := ps_v st; ps_m := set_method s m; ps_extra := ps_extra st |}
    end
  | KParams =>
    let m1 := if is_null val then m else set_params val m in
    {| ps_v := ps_v st; ps_extra := ps_extra st;
       ps_m := if params_ok (j_params m1) then m1 else fail e_bad_params m1 |}
  | KError =>
    let (e, ok) := unmarshal_error val in
    let m1 := set_error e m in
    {| ps_v := ps_v st; ps_extra := ps_extra st; ps_m := if ok then m1 else fail e_bad_error m1 |}
  | KResult => {| ps_v := ps_v st; ps_extra := ps_extra st; ps_m := set_result val m |}
  | KOther => {| ps_v := ps_v st; ps_m := m; ps_extra := ps_extra st ++ [key] |}
  end.

(* json.Marshal([]string) *)
Fixpoint join_with (sep : bytes) (l : list bytes) : bytes :=
  match l with
  | [] => []
  | [x] => x
  | x :: r => x ++ sep ++ join_with sep r
  end.
Definition marshal_strings (ks : list bytes) : bytes := 91 :: join_with [44] (map escape_string ks) ++ [93].
Definition e_extra (ks : list bytes) : werr :=
  {| we_code := InvalidRequest; we_msg := m_extra; we_data := marshal_strings ks |}.

Definition is_some {A} (o : option A) : bool := match o with Some _ => true | None => false end.

(* the checks after the loop *)
Definition finish (st : pstate) : jmsg :=
  let m := ps_m st in
  let m1 := if beq (ps_v st) version then m else fail e_bad_version m in
  let m2 := if negb (beq (j_method m1) []) && (is_some (j_error m1) || negb (beq (j_result m1) []))
            then fail e_mixed m1 else m1 in
  match j_err m2, ps_extra st with
  | None, _ :: _ => fail (e_extra (ps_extra st)) m2
  | _, _ => m2
  end.

(* the loop over the fields in the given iteration order, and the final checks *)
Definition parse_fields (fs : list (bytes * bytes)) : jmsg := finish (fold_left scan_field fs ps_init).

(* the map decoded from the member: None = "request is not a JSON object" *)
Definition member_fields (data : bytes) : option (list (bytes * bytes)) :=
  match raw_members data with Some ms => Some (last_wins ms) | None => None end.

(* the member parser for an explicit iteration order, given as a reordering of the field list *)
Definition parse_member_ord (order : list (bytes * bytes) -> list (bytes * bytes)) (data : bytes) : jmsg :=
  match member_fields data with
  | None => fail e_not_object j_empty
  | Some fs => parse_fields (order fs)
  end.
(* canonical: document order *)
Definition parse_member (data : bytes) : jmsg := parse_member_ord (fun fs => fs) data.

(* ------------------------------------------------------------------------- *)
(* The errors some iteration order can report (order-free classification) *)

Fixpoint lookup (k : bytes) (fs : list (bytes * bytes)) : option bytes :=
  match fs with
  | [] => None
  | (k', v) :: r => if beq k' k then Some v else lookup k r
  end.

Definition key_defect (kv : bytes * bytes) : option werr :=
  let (key, val) := kv in
  match classify key with
  | KVersion => match unmarshal_string val with None => Some e_bad_version_key | _ => None end
  | KId => if is_valid_id val then None else Some e_bad_id
  | KMethod => match unmarshal_string val with None => Some e_bad_method | _ => None end
  | KParams => if is_null val || params_ok val then None else Some e_bad_params
  | KError => if snd (unmarshal_error val) then None else Some e_bad_error
  | _ => None
  end.

Fixpoint key_defects (fs : list (bytes * bytes)) : list werr :=
  match fs with
  | [] => []
  | kv :: r => match key_defect kv with Some e => e :: key_defects r | None => key_defects r end
  end.

Definition str_field (k : bytes) (fs : list (bytes * bytes)) : bytes :=
  match lookup k fs with
  | Some v => match unmarshal_string v with Some (Some s) => s | _ => [] end
  | None => []
  end.
Definition has_error_value (fs : list (bytes * bytes)) : bool :=
  match lookup k_error fs with Some v => is_some (fst (unmarshal_error v)) | None => false end.
Definition extras (fs : list (bytes * bytes)) : list bytes :=
  map fst (filter (fun kv => match classify (fst kv) with KOther => true | _ => false end) fs).

Definition allowed_errs_fields (fs : list (bytes * bytes)) : list werr :=
  match key_defects fs with
  | d :: ds => d :: ds
  | [] =>
    if negb (beq (str_field k_jsonrpc fs) version) then [e_bad_version]
    else if negb (beq (str_field k_method fs) []) && (has_error_value fs || is_some (lookup k_result fs)) then [e_mixed]
    else match extras fs with [] => [] | ks => [e_extra ks] end
  end.

(* [] = the member is valid.  The data of the "extra fields" error lists the extra keys in
   iteration order: compare it as a set. *)
Definition allowed_errs (data : bytes) : list werr :=
  match member_fields data with
  | None => [e_not_object]
  | Some fs => allowed_errs_fields fs
  end.

(* ------------------------------------------------------------------------- *)
(* jmessages.parseJSON *)
(* the envelope: batch flag and the raw members *)
Definition split_msgs (data : bytes) : option (bool * list bytes) :=
  if negb (first_byte data =? 91) then
    match raw_value data with
    | Some raw => Some (false, [raw])
    | None => None
    end
  else
    match raw_elements data with
    | Some raws => Some (true, raws)
    | None => None
    end.

Definition parse_msgs (data : bytes) : inbound :=
  match split_msgs data with
  | Some (batch, raws) => InMsgs batch (map parse_member raws)
  | None => InBad
  end.

(* per member, the errors some map order can report ([] = valid member) *)
Definition allowed_errs_msgs (data : bytes) : option (list (list werr)) :=
  match split_msgs data with
  | Some (_, raws) => Some (map allowed_errs raws)
  | None => None
  end.

(* is the observed error one of the allowed ones?  The data of the extra-fields error is
   compared as a sorted list of its elements. *)
Definition werr_eqb (a b : werr) : bool :=
  Z.eqb (we_code a) (we_code b) && beq (we_msg a) (we_msg b) && beq (we_data a) (we_data b).
Fixpoint list_beq (a b : list bytes) : bool :=
  match a, b with
  | [], [] => true
  | x :: a', y :: b' => beq x y && list_beq a' b'
  | _, _ => false
  end.
Definition werr_matches (obs a : werr) : bool :=
  werr_eqb obs a ||
  (Z.eqb (we_code obs) (we_code a) && beq (we_msg obs) (we_msg a) && beq (we_msg a) m_extra &&
   match raw_elements (we_data obs), raw_elements (we_data a) with
   | Some x, Some y => list_beq (Sort.sort x) (Sort.sort y)
   | _, _ => false
   end).
Definition err_allowed (obs : werr) (allowed : list werr) : bool := existsb (werr_matches obs) allowed.

(* ParseRequests *)
Record parsed_request := { pr_id : bytes; pr_method : bytes; pr_params : bytes; pr_error : option werr }.
Inductive parse_result := TopError (e : werr) | Parsed (rs : list parsed_request).
Definition to_parsed (m : jmsg) : parsed_request :=
  {| pr_id := fix_id (j_id m); pr_method := j_method m; pr_params := j_params m; pr_error := j_err m |}.
Definition parse_requests (data : bytes) : parse_result :=
  match parse_msgs data with
  | InBad => TopError e_invalid_request
  | InMsgs _ ms => Parsed (map to_parsed ms)
  end.

(* ------------------------------------------------------------------------- *)
(* Encoding *)

(* strconv / encoding/json integer formatting *)
Fixpoint dec_digits (f : nat) (n : N) (acc : bytes) : bytes :=
  match f with
  | O => acc
  | S f' => if n <? 10 then (48 + n) :: acc else dec_digits f' (n / 10) ((48 + n mod 10) :: acc)
  end.
Definition n_dec (n : N) : bytes := dec_digits (S (N.size_nat n)) n [].
Definition z_dec (z : Z) : bytes :=
  match z with
  | Z0 => [48]
  | Zpos p => n_dec (Npos p)
  | Zneg p => 45 :: n_dec (Npos p)
  end.

Definition s_code : bytes := Eval vm_compute in bs "{""code"":".
Definition s_message : bytes := Eval vm_compute in bs ",""message"":".
Definition s_data : bytes := Eval vm_compute in bs ",""data"":".
Definition s_head : bytes := Eval vm_compute in bs "{""jsonrpc"":""2.0""".
Definition s_id : bytes := Eval vm_compute in bs ",""id"":".
Definition s_method : bytes := Eval vm_compute in bs ",""method"":".
Definition s_params : bytes := Eval vm_compute in bs ",""params"":".
Definition s_result : bytes := Eval vm_compute in bs ",""result"":".
Definition s_error : bytes := Eval vm_compute in bs ",""error"":".

(* json.Marshal of a non-nil pointer to Error: None = marshalling fails (data is not valid JSON) *)
Definition marshal_error (e : werr) : option bytes :=
  let head := s_code ++ z_dec (we_code e) ++
              (if beq (we_msg e) [] then [] else s_message ++ escape_string (we_msg e)) in
  if beq (we_data e) [] then Some (head ++ [125])
  else match compact (we_data e) with
       | Some d => Some (head ++ s_data ++ d ++ [125])
       | None => None
       end.

(* the error member jmessage.toJSON writes.  json.Marshal of the *Error fails when its data are
   not valid JSON.  Since fix F16/F17 (switch [fix16]) toJSON then encodes the error WITHOUT its
   data, json.Marshal(&Error{Code, Message}), which cannot fail, instead of returning Marshal's
   error (which made the server drop the whole record, and the client send an empty one). *)
Definition drop_data (e : werr) : werr := {| we_code := we_code e; we_msg := we_msg e; we_data := [] |}.
Definition enc_error_gen (fix16 : bool) (e : werr) : option bytes :=
  match marshal_error e with
  | Some eb => Some eb
  | None => if fix16 then marshal_error (drop_data e) else None
  end.
Definition enc_error : werr -> option bytes := enc_error_gen true.

(* jmessage.toJSON *)
Definition enc_msg_gen (fix16 : bool) (m : jmsg) : option bytes :=
  let head := s_head ++ (if beq (j_id m) [] then [] else s_id ++ j_id m) in
  if negb (beq (j_method m) []) then
    Some (head ++ s_method ++ escape_string (j_method m) ++
          (if beq (j_params m) [] then [] else s_params ++ j_params m) ++ [125])
  else if negb (beq (j_result m) []) then Some (head ++ s_result ++ j_result m ++ [125])
  else match j_error m with
       | Some e => match enc_error_gen fix16 e with
                   | Some eb => Some (head ++ s_error ++ eb ++ [125])
                   | None => None
                   end
       | None => Some (head ++ [125])
       end.
Definition enc_msg : jmsg -> option bytes := enc_msg_gen true.

Fixpoint enc_all_gen (fix16 : bool) (ms : list jmsg) : option (list bytes) :=
  match ms with
  | [] => Some []
  | m :: r => match enc_msg_gen fix16 m, enc_all_gen fix16 r with
              | Some b, Some bs' => Some (b :: bs')
              | _, _ => None
              end
  end.
Definition enc_all : list jmsg -> option (list bytes) := enc_all_gen true.

(* jmessages.toJSON; batch = the batch flag of the (first) message.  One member that cannot be
   encoded makes the whole record fail (before fix F16 that could happen: F17) *)
Definition enc_msgs_gen (fix16 : bool) (batch : bool) (ms : list jmsg) : option bytes :=
  match ms, batch with
  | [m], false => enc_msg_gen fix16 m
  | _, _ => match enc_all_gen fix16 ms with
            | Some bl => Some (91 :: join_with [44] bl ++ [93])
            | None => None
            end
  end.
Definition enc_msgs : bool -> list jmsg -> option bytes := enc_msgs_gen true.

(* Response.MarshalJSON (goes through jmessage.toJSON) *)
Definition response_marshal (id : bytes) (err : option werr) (result : bytes) : option bytes :=
  enc_msg {| j_id := id; j_method := []; j_params := []; j_error := err; j_result := result; j_err := None |}.

(* jhttp marshalError: its own json.Marshal(req.Error), not toJSON (no fallback there) ("null" for a nil pointer), id "" -> null *)
Definition s_bridge_id : bytes := Eval vm_compute in bs "{""jsonrpc"":""2.0"",""id"":".
Definition bridge_marshal_error (r : parsed_request) : option bytes :=
  match (match pr_error r with Some e => marshal_error e | None => Some null_bytes end) with
  | Some v => Some (s_bridge_id ++ (if beq (pr_id r) [] then null_bytes else pr_id r) ++ s_error ++ v ++ [125])
  | None => None
  end.

(* Client.marshalParams after json.Marshal: None = accepted, Some e = rejected *)
Definition check_params (pbits : bytes) : option werr :=
  let fb := first_byte pbits in
  if negb (fb =? 91) && negb (fb =? 123) && negb (is_null pbits) then Some e_params_required else None.
