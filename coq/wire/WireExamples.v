(* WireExamples: non-vacuity of the hypotheses of the C13 / C02 theorems, and concrete instances
   (each closed by vm_compute) of the JSON-level specifications, which are proved in WireSpecs.v. *)
From Coq Require Import List NArith ZArith Bool String Permutation.
From JV Require Import Bytes Json JsonProofs Msg Wire WireProofs.
Import ListNotations.
Local Open Scope string_scope.

Definition ex_params : bytes := Eval vm_compute in match compact (bs " [ 1 ,
 {""a<"" : ""x""} ] ") with Some q => q | None => [] end.
Definition ex_msg : jmsg :=
  {| j_id := bs """a1"""; j_method := bs "new
line""<>&"; j_params := ex_params; j_error := None; j_result := []; j_err := None |}.
Definition ex_err : werr := {| we_code := (-32000)%Z; we_msg := bs "boom
"; we_data := bs " { ""k"" :
 [ 1 ] } " |}.
Definition ex_rsp : jmsg := {| j_id := bs "17"; j_method := []; j_params := []; j_error := Some ex_err; j_result := []; j_err := None |}.

Example msg_ok_nonvacuous : msg_ok ex_msg /\ msg_ok ex_rsp.
Proof.
  split; constructor; try reflexivity; try discriminate.
  - right. split; reflexivity.
  - right. split; [exists (bs " [ 1 ,
 {""a<"" : ""x""} ] "); reflexivity | reflexivity].
  - left; reflexivity.
  - right. split; reflexivity.
  - left; reflexivity.
  - left; reflexivity.
  - intros e H. injection H as <-. apply err_ok_sendable. right. eexists. split; [vm_compute; reflexivity | reflexivity].
Qed.

(* an error whose data are not JSON is inside the domain as well (fix F16: they are left out) *)
Definition ex_bad_rsp : jmsg :=
  {| j_id := bs "18"; j_method := []; j_params := []; j_result := []; j_err := None;
     j_error := Some {| we_code := 7%Z; we_msg := bs "no"; we_data := bs "{bad" |} |}.
Example msg_ok_bad_data_nonvacuous :
  msg_ok ex_bad_rsp /\
  match enc_msgs true [ex_rsp; ex_bad_rsp] with Some b => line_safe b | None => false end = true.
Proof.
  split; [|vm_compute; reflexivity]. constructor; try reflexivity.
  - right. split; reflexivity.
  - left; reflexivity.
  - left; reflexivity.
  - intros e H. injection H as <-. right. intros q Hq. vm_compute in Hq. discriminate Hq.
Qed.

Example single_line_instance :
  match enc_msgs true [ex_msg; ex_rsp] with Some b => line_safe b | None => false end = true.
Proof. vm_compute. reflexivity. Qed.

(* a raw text with newlines is NOT line safe before compaction: the hypothesis "marshalled" matters *)
Example raw_not_safe : line_safe (bs " [ 1 ,
 2 ] ") = false.
Proof. vm_compute. reflexivity. Qed.

Example msg_rt_nonvacuous : msg_rt ex_msg /\ msg_rt ex_rsp /\ msg_rt_at 1 ex_msg /\ msg_rt_at 1 ex_rsp.
Proof.
  assert (He : forall d, d = 1%N \/ d = 2%N -> err_rt_at d ex_err).
  { intros d Hd. split; [unfold int32_ok; cbn; split; discriminate|]. right. eexists. split; [vm_compute; reflexivity|].
    destruct Hd as [-> | ->]; vm_compute; reflexivity. }
  assert (A : forall d, d = 0%N \/ d = 1%N -> msg_rt_at d ex_msg).
  { intros d Hd. constructor.
    - reflexivity.
    - right. reflexivity.
    - right. destruct Hd as [-> | ->]; repeat split; reflexivity.
    - left; reflexivity.
    - intros e H; discriminate H. }
  assert (B : forall d, d = 0%N \/ d = 1%N -> msg_rt_at d ex_rsp).
  { intros d Hd. constructor.
    - reflexivity.
    - right. reflexivity.
    - left; reflexivity.
    - left; reflexivity.
    - intros e H _ _. injection H as <-. apply He. destruct Hd as [-> | ->]; [left|right]; reflexivity. }
  unfold msg_rt. split; [apply A; auto | split; [apply B; auto | split; [apply A; auto | apply B; auto]]].
Qed.

Example parse_back_instance :
  match enc_msg ex_msg with Some b => Some (parse_member b) | None => None end = Some (canon ex_msg) /\
  match enc_msg ex_rsp with Some b => Some (parse_msgs b) | None => None end = Some (InMsgs false [canon ex_rsp]).
Proof. split; vm_compute; reflexivity. Qed.

(* the batch theorem: its hypotheses hold of a two-member batch, which parses back *)
Example parse_back_batch_nonvacuous :
  Forall (msg_rt_at 1) [ex_msg; ex_rsp] /\
  match enc_msgs true [ex_msg; ex_rsp] with
  | Some b => Some (parse_msgs b)
  | None => None
  end = Some (InMsgs true (map canon [ex_msg; ex_rsp])).
Proof.
  split; [|vm_compute; reflexivity].
  destruct msg_rt_nonvacuous as (_ & _ & A & B). constructor; [exact A|]. constructor; [exact B|]. constructor.
Qed.

(* the error codec theorem: its hypotheses hold of ex_err at depths 1 and 2 *)
Example error_round_trip_nonvacuous :
  err_rt_at 1 ex_err /\ err_rt_at 2 ex_err /\ marshal_error ex_err <> None /\ (N.succ 2 <= max_depth)%N.
Proof.
  assert (He : forall d, d = 1%N \/ d = 2%N -> err_rt_at d ex_err).
  { intros d Hd. split; [unfold int32_ok; cbn; split; discriminate|]. right. eexists. split; [vm_compute; reflexivity|].
    destruct Hd as [-> | ->]; vm_compute; reflexivity. }
  split; [apply He; auto|]. split; [apply He; auto|]. split; vm_compute; discriminate.
Qed.

(* instances of the JSON-level specifications *)
Definition ex_fields : list (bytes * bytes) :=
  [(k_jsonrpc, v20); (k_id, bs "-1.5e3"); (k_method, escape_string (j_method ex_msg)); (k_params, ex_params)].
Example spec_members_instance : raw_members (obj_text ex_fields) = Some ex_fields.
Proof. vm_compute. reflexivity. Qed.
Example spec_obj_tight_instance : tight_at 0 (obj_text ex_fields) = true /\ tight_at 1 (obj_text ex_fields) = true.
Proof. split; vm_compute; reflexivity. Qed.
Example spec_elements_instance :
  raw_elements (arr_text [obj_text ex_fields; bs "1"; bs """x"""]) = Some [obj_text ex_fields; bs "1"; bs """x"""].
Proof. vm_compute. reflexivity. Qed.
Example spec_raw_value_instance : raw_value (obj_text ex_fields) = Some (obj_text ex_fields).
Proof. vm_compute. reflexivity. Qed.
Example spec_string_instance :
  unmarshal_string (escape_string (j_method ex_msg)) = Some (Some (j_method ex_msg)) /\
  tight_at 5 (escape_string (j_method ex_msg)) = true.
Proof. split; vm_compute; reflexivity. Qed.
Example spec_error_codec_instance :
  match marshal_error ex_err with
  | Some b => fst (unmarshal_error b)
  | None => None
  end = Some {| we_code := (-32000)%Z; we_msg := we_msg ex_err; we_data := bs "{""k"":[1]}" |}.
Proof. vm_compute. reflexivity. Qed.
Example spec_lit_tight_instance : tight_at 2 (bs "-1.5e3") = true /\ tight_at 2 (bs """a1""") = true.
Proof. split; vm_compute; reflexivity. Qed.

(* order dependence of the reported defect, order independence of validity (C02) *)
Definition ex_two_defects : bytes := bs "{""jsonrpc"":""2.0"",""id"":[1],""method"":7,""params"":5}".
Example order_changes_the_report :
  option_map we_code (j_err (parse_member ex_two_defects)) = Some InvalidRequest /\
  option_map we_code (j_err (parse_member_ord (@rev _) ex_two_defects)) = Some InvalidRequest /\
  option_map we_msg (j_err (parse_member ex_two_defects)) <> option_map we_msg (j_err (parse_member_ord (@rev _) ex_two_defects)) /\
  List.length (allowed_errs ex_two_defects) = 3%nat.
Proof. repeat split; try (vm_compute; reflexivity). vm_compute. discriminate. Qed.
Example rev_is_an_order : forall fs : list (bytes * bytes), Permutation fs (rev fs).
Proof. intros fs. apply Permutation_rev. Qed.

Example null_id_nonvacuous :
  let rest := [(k_jsonrpc, v20); (k_method, bs """m""")] in
  ~ In k_id (keys_of rest) /\ NoDup (keys_of rest) /\ nonempty_vals rest /\
  is_notification (parse_fields ((k_id, null_bytes) :: rest)) = true.
Proof.
  cbv zeta. split; [|split; [|split]].
  - cbn. intros [H|[H|[]]]; discriminate H.
  - repeat constructor; cbn; intuition discriminate.
  - repeat constructor; discriminate.
  - vm_compute. reflexivity.
Qed.

Example parse_requests_total_nonvacuous :
  parse (bs "nope") = None /\ parse (bs "[{""jsonrpc"":""2.0"",""method"":""m""}, 5]") <> None.
Proof. split; vm_compute; [reflexivity | discriminate]. Qed.
