(* WireBridge: the body of a jhttp.Bridge reply (jhttp/bridge.go serveInternal, encodeResponses,
   getter.go writeJSON; base.go Response.MarshalJSON).
     msg_i := json.Marshal(rsp_i)            a Marshaler: MarshalJSON (= jmessage.toJSON) then compact
              | marshalError(req_i)           written by hand (Wire.bridge_marshal_error)
     body  := json.Marshal(msg_1)            one reply: a RawMessage, compacted
              | json.Marshal([]RawMessage)    several: an array, each member compacted
   compact = json.Compact with HTML escaping (Json.compact): it drops white space and rewrites
   < > & U+2028 U+2029 inside strings as \uXXXX.  The body is therefore on one line, valid UTF-8,
   valid JSON, and JSON-EQUAL (Json.parse) to what the library's encoder wrote - for which parse back
   holds.  It is byte-identical to it unless a string of the message holds one of those five
   characters raw; only an id chosen by the HTTP client can (results / params / error data were
   compacted before, messages are escaped by json.Marshal): [bridge_rewrites_html_ids]. *)
From Coq Require Import List NArith ZArith Bool Arith Lia.
From JV Require Import Bytes Sort Json JsonProofs JsonPrint JsonTree JsonEq Msg Wire WireProofs WireSpecs WireMore WireLink.
From JV Require ErrsMore.
Import ListNotations.
Local Open Scope N_scope.

(* json.Marshal(rsp) for a *jrpc2.Response *)
Definition bridge_member_response (id : bytes) (err : option werr) (result : bytes) : option bytes :=
  match response_marshal id err result with Some t => compact t | None => None end.

Fixpoint compact_all (ms : list bytes) : option (list bytes) :=
  match ms with
  | [] => Some []
  | m :: r => match compact m, compact_all r with Some q, Some l => Some (q :: l) | _, _ => None end
  end.

(* writeJSON of the collected results (never empty: no results = 204 No Content) *)
Definition bridge_body (msgs : list bytes) : option bytes :=
  match msgs with
  | [m] => compact m
  | _ => match compact_all msgs with Some l => Some (arr_text l) | None => None end
  end.

(* one compaction *)
Lemma compact_props d p : tight_at d p = true ->
  exists q, compact p = Some q /\ tight_at d q = true /\ no_ctl q = true /\ parse q = parse p /\
            (valid_utf8 p = true -> valid_utf8 q = true).
Proof.
  intros Ht. destruct (compact_tight_at d p Ht) as (q & Hq & Hqt). exists q. split; [exact Hq|]. split; [exact Hqt|].
  split; [exact (compact_no_ctl _ _ Hq)|]. split; [exact (compact_parse _ _ Hq)|]. exact (ErrsMore.compact_valid_utf8 p q Hq).
Qed.

(* a member: the response the encoder writes, compacted *)
Theorem bridge_member_reply : forall id err result t,
  let m := {| j_id := id; j_method := []; j_params := []; j_error := err; j_result := result; j_err := None |} in
  msg_rt_at' 1 m -> response_marshal id err result = Some t ->
  exists t', bridge_member_response id err result = Some t' /\
    tight_at 1 t' = true /\ no_ctl t' = true /\ parse t' = parse t /\ parse_member t = canon m /\
    (msg_ok' m -> valid_utf8 t' = true).
Proof.
  intros id err result t m Hrt Ht. unfold response_marshal in Ht. fold m in Ht.
  pose proof (enc_tight' 1 m t depth_le_3 Hrt Ht) as Htt.
  destruct (compact_props 1 t Htt) as (t' & Hc & A & B & C & D). exists t'.
  split; [unfold bridge_member_response, response_marshal; fold m; rewrite Ht; exact Hc|].
  split; [exact A|]. split; [exact B|]. split; [exact C|]. split.
  - exact (parse_back_member' m t (msg_rt_at'_mono 1 0 m ltac:(lia) Hrt) Ht).
  - intros Hok. apply D. destruct (enc_msg_safe' m Hok) as (b & Eb & Sb). rewrite Ht in Eb. apply some_eq in Eb. subst b.
    unfold line_safe in Sb. apply andb_true_iff in Sb as [_ Sb]. exact Sb.
Qed.

Lemma compact_all_spec : forall ms, Forall (fun m => tight_at 1 m = true) ms ->
  exists l, compact_all ms = Some l /\ Forall2 (fun m q => compact m = Some q /\ tight_at 1 q = true) ms l.
Proof.
  induction 1 as [|m ms Hm _ (l & E & F)]; [exists []; split; [reflexivity | constructor]|].
  destruct (compact_tight_at 1 m Hm) as (q & Hq & Hqt). exists (q :: l). cbn [compact_all]. rewrite Hq, E.
  split; [reflexivity | constructor; [split; assumption | exact F]].
Qed.

Lemma arr_parse bl : (forall v, In v bl -> tight_at 1 v = true) ->
  exists xs, parse (arr_text bl) = Some (JArr xs) /\ Forall2 (fun v x => parse v = Some x) bl xs.
Proof.
  intros H.
  assert (Ht : tight_at 0 (arr_text bl) = true) by (apply arr_tight; [exact depth_le_1 | exact H]).
  destruct (tight_tree _ Ht) as (c & Hp & _ & _).
  destruct (proj1 (parse_doc_first_byte _ _ _ _ Hp) (first_byte_arr bl)) as (w' & es & ->).
  assert (Hparse : parse (arr_text bl) = Some (JArr (map (fun e => cst_json (snd (fst e))) es))) by (unfold parse; rewrite Hp; reflexivity).
  eexists. split; [exact Hparse|].
  destruct (member_correspondence _ _ Hparse) as (raws & Hs & HF2).
  unfold split_msgs in Hs. rewrite first_byte_arr in Hs. cbn [N.eqb Pos.eqb negb] in Hs.
  rewrite (elements_spec bl H) in Hs. injection Hs as <-. exact HF2.
Qed.

Lemma no_ctl_join l : Forall (fun q => no_ctl q = true) l -> no_ctl (join_with [44] l) = true.
Proof.
  induction 1 as [|q l Hq _ IH]; [reflexivity|]. cbn [join_with]. destruct l as [|q2 l2]; [exact Hq|].
  rewrite !no_ctl_app, Hq, IH. reflexivity.
Qed.

Lemma valid_utf8_join l : Forall (fun q => valid_utf8 q = true) l -> valid_utf8 (join_with [44] l) = true.
Proof.
  induction 1 as [|q l Hq _ IH]; [reflexivity|]. cbn [join_with]. destruct l as [|q2 l2]; [exact Hq|].
  apply valid_utf8_app; [exact Hq|]. apply valid_utf8_app; [reflexivity | exact IH].
Qed.

(* the body: one line, valid JSON, JSON-equal member by member to the collected replies *)
Theorem bridge_body_reply : forall msgs, msgs <> [] -> Forall (fun m => tight_at 1 m = true) msgs ->
  exists body, bridge_body msgs = Some body /\ no_ctl body = true /\ valid body = true /\
    (Forall (fun m => valid_utf8 m = true) msgs -> valid_utf8 body = true) /\
    match msgs with
    | [m] => parse body = parse m
    | _ => exists xs, parse body = Some (JArr xs) /\ Forall2 (fun m x => parse m = Some x) msgs xs
    end.
Proof.
  intros msgs Hne HF.
  destruct (compact_all_spec msgs HF) as (l & El & F2).
  assert (Harr : exists body, match compact_all msgs with Some l => Some (arr_text l) | None => None end = Some body /\
                   no_ctl body = true /\ valid body = true /\
                   (Forall (fun m => valid_utf8 m = true) msgs -> valid_utf8 body = true) /\
                   exists xs, parse body = Some (JArr xs) /\ Forall2 (fun m x => parse m = Some x) msgs xs).
  { clear Hne. rewrite El. exists (arr_text l). split; [reflexivity|].
    assert (Hl : forall v, In v l -> tight_at 1 v = true).
    { clear El. induction F2 as [|m q ms l' [_ Hq] _ IH]; intros v Hv; [contradiction|].
      destruct Hv as [<-|Hv]; [exact Hq|]. inversion HF; subst. exact (IH H2 v Hv). }
    split.
    { unfold arr_text. rewrite no_ctl_cons, no_ctl_app. cbn [negb N.ltb N.compare Pos.compare Pos.compare_cont andb].
      rewrite no_ctl_join; [reflexivity|]. clear El Hl. induction F2 as [|m q ms l' [Hq _] _ IH]; constructor.
      - exact (compact_no_ctl _ _ Hq).
      - inversion HF; subst. exact (IH H2). }
    split; [exact (arr_valid l Hl)|]. split.
    { intros Hu. change (arr_text l) with ([91] ++ join_with [44] l ++ [93]).
      apply valid_utf8_app; [reflexivity|]. apply valid_utf8_app; [|reflexivity]. apply valid_utf8_join.
      clear El Hl. induction F2 as [|m q ms l' [Hq _] _ IH]; constructor.
      - inversion Hu; subst. exact (ErrsMore.compact_valid_utf8 m q Hq H1).
      - inversion HF; subst. inversion Hu; subst. exact (IH H2 H4). }
    destruct (arr_parse l Hl) as (xs & Hp & Hx). exists xs. split; [exact Hp|].
    clear El Hl Hp. revert xs Hx. induction F2 as [|m q ms l' [Hq _] _ IH]; intros xs Hx; inversion Hx; subst; constructor.
    - rewrite <- (compact_parse _ _ Hq). assumption.
    - inversion HF; subst. apply IH; assumption. }
  destruct msgs as [|m [|m2 ms]]; [contradiction| |exact Harr].
  inversion HF as [|? ? Hm _]; subst. destruct (compact_props 1 m Hm) as (q & Hq & A & B & C & D).
  exists q. cbn [bridge_body]. split; [exact Hq|]. split; [exact B|].
  split; [exact (tight_valid q (tight_depth_mono 1 0 q A ltac:(lia)))|]. split; [|exact C].
  intros Hu. inversion Hu; subst. exact (D H1).
Qed.

(* an id with an HTML metacharacter comes back JSON-equal, not byte-equal *)
Theorem bridge_rewrites_html_ids :
  exists t t', response_marshal [34; 60; 34] None [49] = Some t /\ bridge_member_response [34; 60; 34] None [49] = Some t' /\
    t <> t' /\ parse t' = parse t /\
    j_id (parse_member t) = [34; 60; 34] /\ j_id (parse_member t') = [34; 92; 117; 48; 48; 51; 99; 34] /\
    parse [34; 92; 117; 48; 48; 51; 99; 34] = parse [34; 60; 34].
Proof.
  eexists. eexists. split; [vm_compute; reflexivity|]. split; [vm_compute; reflexivity|].
  split; [discriminate|]. repeat split; vm_compute; reflexivity.
Qed.

Example bridge_body_reply_nonvacuous :
  exists t1 t2, bridge_member_response [49] None [91; 32; 49; 93] = Some t1 /\ bridge_marshal_error (to_parsed (parse_member [49])) = Some t2 /\
    Forall (fun m => tight_at 1 m = true) [t1; t2] /\ exists body, bridge_body [t1; t2] = Some body.
Proof.
  eexists. eexists. split; [vm_compute; reflexivity|]. split; [vm_compute; reflexivity|].
  split; [constructor; [vm_compute; reflexivity | constructor; [vm_compute; reflexivity | constructor]]|].
  eexists. vm_compute. reflexivity.
Qed.
