(* Msg: the parsed form of a protocol message (json.go: type jmessage) shared by the
   wire model (Wire.v), the server model and the client model. *)
From Coq Require Import List NArith ZArith Bool.
From JV Require Import Bytes.
Import ListNotations.

(* jrpc2.Error as it travels on the wire *)
Record werr := { we_code : Z; we_msg : bytes; we_data : bytes (* raw JSON, [] when absent *) }.

(* Error codes (code.go) *)
Definition ParseError : Z := (-32700)%Z.
Definition InvalidRequest : Z := (-32600)%Z.
Definition MethodNotFound : Z := (-32601)%Z.
Definition InvalidParams : Z := (-32602)%Z.
Definition InternalError : Z := (-32603)%Z.
Definition NoError : Z := (-32099)%Z.
Definition SystemError : Z := (-32098)%Z.
Definition Cancelled : Z := (-32097)%Z.
Definition DeadlineExceeded : Z := (-32096)%Z.

(* jmessage: "unset" raw fields are [] exactly as the Go code tests len(x) == 0 *)
Record jmsg := {
  j_id : bytes;            (* ID: raw JSON text of the id; [] when absent or rejected *)
  j_method : bytes;        (* M: decoded method name; [] when absent *)
  j_params : bytes;        (* P: raw params; [] when absent or null *)
  j_error : option werr;   (* E *)
  j_result : bytes;        (* R: raw result; [] when absent *)
  j_err : option werr      (* err: deferred validation error *)
}.

(* jmessages.parseJSON: not JSON at all, or (batch flag, members) *)
Inductive inbound := InBad | InMsgs (batch : bool) (ms : list jmsg).

Definition null_bytes : bytes := [110; 117; 108; 108]%N.
Definition is_null (b : bytes) : bool := beq b null_bytes.
(* fixID: "null" counts as unset *)
Definition fix_id (id : bytes) : bytes := if is_null id then [] else id.

Definition is_req_or_notif (m : jmsg) : bool :=
  negb (beq (j_method m) []) && (match j_error m with None => true | Some _ => false end) && beq (j_result m) [].
Definition is_notification (m : jmsg) : bool := is_req_or_notif m && beq (fix_id (j_id m)) [].
