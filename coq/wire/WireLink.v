(* WireLink: the transition models (srv/SrvModel.v, cli/CliModel.v) linked to the encoder.
   C10 "every record passed to Send is one complete JSON-RPC message (a JSON object or a non-empty
   array of objects)" and C13 "every message the library emits", at BYTE level:
   Part 0: what [enc_msgs] writes for a non-empty list of messages of the round-trip domain is a JSON
           object or a non-empty array of objects, and parses back member by member.
   Part S: the server model: OSend (responses), OSendReq (pushes).
   Part C: the client model: OSendReq (requests, batches), OSendRsp (callback replies). *)
From Coq Require Import List NArith ZArith Bool Arith Lia.
From JV Require Import Bytes Sort Json JsonProofs JsonPrint JsonTree JsonEq Msg Wire WireProofs WireSpecs WireMore.
From JV Require SrvModel SrvLemmas SrvC09 SrvC10 CliModel CliLemmas CliProofs CliShape.
Import ListNotations.
Local Open Scope N_scope.

(* ------------------------------------------------------------------------- *)
(* Part 0 *)

Definition is_obj (x : json) : Prop := exists kvs, x = JObj kvs.
(* one complete JSON-RPC message: a JSON object or a non-empty array of objects *)
Definition is_message_json (b : bytes) : Prop :=
  exists x, parse b = Some x /\ (is_obj x \/ exists xs, x = JArr xs /\ xs <> [] /\ Forall is_obj xs).

Lemma enc_msg_object d m b : N.succ (N.succ d) <= max_depth -> msg_rt_at' d m -> enc_msg m = Some b ->
  exists kvs, parse b = Some (JObj kvs).
Proof.
  intros Hd Hrt Henc. destruct (enc_msg_fields _ _ Henc) as (eb & -> & He0).
  pose proof (enc_fields_rt' d m eb Hrt He0) as He. clear He0.
  destruct (items_of_kvs (N.succ d) _ (fields_ok' d m eb Hd Hrt He)) as (items & Hkv & HF).
  assert (Hne : items <> []) by (intros ->; cbn in Hkv; exact (msg_fields_ne' m eb (eq_sym Hkv))).
  pose proof (obj_PV d items [] Hne ltac:(lia) HF) as Hpv. rewrite app_nil_r, Hkv in Hpv.
  unfold parse. rewrite (parse_doc_PV _ _ (PV_depth _ 0 _ _ _ Hpv (N.le_0_l d))). cbn [cst_json]. eexists; reflexivity.
Qed.

Lemma arr_objects bl : bl <> [] -> (forall v, In v bl -> tight_at 1 v = true /\ exists kvs, parse v = Some (JObj kvs)) ->
  exists xs, parse (arr_text bl) = Some (JArr xs) /\ xs <> [] /\ Forall is_obj xs.
Proof.
  intros Hne H.
  assert (Ht : tight_at 0 (arr_text bl) = true) by (apply arr_tight; [exact depth_le_1 | intros v Hv; exact (proj1 (H v Hv))]).
  destruct (tight_tree _ Ht) as (c & Hp & _ & _).
  destruct (proj1 (parse_doc_first_byte _ _ _ _ Hp) (first_byte_arr bl)) as (w' & es & ->).
  assert (Hparse : parse (arr_text bl) = Some (JArr (map (fun e => cst_json (snd (fst e))) es))) by (unfold parse; rewrite Hp; reflexivity).
  eexists. split; [exact Hparse|].
  destruct (member_correspondence _ _ Hparse) as (raws & Hs & HF2).
  unfold split_msgs in Hs. rewrite first_byte_arr in Hs. cbn [N.eqb Pos.eqb negb] in Hs.
  rewrite (elements_spec bl (fun v Hv => proj1 (H v Hv))) in Hs. injection Hs as <-.
  split.
  - intros E. rewrite E in HF2. inversion HF2. subst. contradiction.
  - revert H. clear -HF2. induction HF2 as [|v x bl' xs' Hvx _ IH]; intros H; constructor.
    + destruct (proj2 (H v (or_introl eq_refl))) as [kvs Hk]. rewrite Hk in Hvx. injection Hvx as <-. eexists; reflexivity.
    + apply IH. intros v' Hv'. apply H. right. exact Hv'.
Qed.

Theorem msgs_message_json : forall batch ms b, ms <> [] -> Forall (msg_rt_at' 1) ms -> enc_msgs batch ms = Some b ->
  is_message_json b /\ valid b = true /\
  parse_msgs b = InMsgs (batch || (1 <? length ms)%nat) (map (fun m => canon (norm m)) ms).
Proof.
  intros batch ms b Hne HF Henc. split; [|split; [exact (valid_json_msgs batch ms b HF Henc)|]].
  - destruct (batch || (1 <? length ms)%nat) eqn:Eflag.
    + assert (Hflag : batch = true \/ length ms <> 1%nat).
      { apply orb_true_iff in Eflag as [E|E]; [left; exact E | right; apply Nat.ltb_lt in E; lia]. }
      rewrite (enc_msgs_array batch ms Hflag) in Henc. destruct (enc_all ms) as [bl|] eqn:E; [|discriminate]. apply some_eq in Henc. subst b.
      pose proof (enc_all_spec _ _ E) as H2.
      assert (Hbl : bl <> []) by (intros ->; inversion H2; subst; contradiction).
      assert (Hall : forall v, In v bl -> tight_at 1 v = true /\ exists kvs, parse v = Some (JObj kvs)).
      { clear E Hbl Hne Hflag Eflag. induction H2 as [|m b1 ms' bl' Hb _ IH]; intros v Hin; [contradiction|].
        inversion HF as [|? ? Hm HF']; subst. destruct Hin as [<-|Hin]; [|exact (IH HF' v Hin)].
        split; [exact (enc_tight' 1 m b1 depth_le_3 Hm Hb) | exact (enc_msg_object 1 m b1 depth_le_3 Hm Hb)]. }
      destruct (arr_objects bl Hbl Hall) as (xs & Hp & Hx & Ho). exists (JArr xs). split; [exact Hp|]. right. exists xs. auto.
    + apply orb_false_iff in Eflag as [Eb El]. subst batch. apply Nat.ltb_ge in El.
      destruct ms as [|m [|m2 ms2]]; [contradiction | | cbn [length] in El; lia].
      inversion HF as [|? ? Hm _]; subst. change (enc_msgs false [m]) with (enc_msg m) in Henc.
      destruct (enc_msg_object 0 m b depth_le_2 (msg_rt_at'_mono 1 0 m ltac:(lia) Hm) Henc) as [kvs Hk].
      exists (JObj kvs). split; [exact Hk | left; eexists; reflexivity].
  - destruct (batch || (1 <? length ms)%nat) eqn:Eflag.
    + assert (Hflag : batch = true \/ length ms <> 1%nat).
      { apply orb_true_iff in Eflag as [E|E]; [left; exact E | right; apply Nat.ltb_lt in E; lia]. }
      exact (proj1 (parse_back_batch' batch ms b Hflag HF Henc)).
    + apply orb_false_iff in Eflag as [Eb El]. subst batch. apply Nat.ltb_ge in El.
      destruct ms as [|m [|m2 ms2]]; [contradiction | | cbn [length] in El; lia].
      inversion HF as [|? ? Hm _]; subst. change (enc_msgs false [m]) with (enc_msg m) in Henc.
      exact (parse_back_single' m b (msg_rt_at'_mono 1 0 m ltac:(lia) Hm) Henc).
Qed.

(* ------------------------------------------------------------------------- *)
(* Part S: the server model *)

(* the response member the server writes for [r]; [wild] = what json.Marshal returns for the
   ServerInfo value of the built-in rpc.serverInfo (the model leaves that result open: BWild) *)
Definition jmsg_of_rsp (wild : bytes) (r : SrvModel.rsp) : jmsg :=
  {| j_id := SrvModel.r_id r; j_method := []; j_params := [];
     j_error := match SrvModel.r_body r with
                | SrvModel.BErr c m => Some {| we_code := c; we_msg := m; we_data := [] |}
                | _ => None
                end;
     j_result := match SrvModel.r_body r with
                 | SrvModel.BRes raw => raw
                 | SrvModel.BWild => wild
                 | SrvModel.BErr _ _ => []
                 end;
     j_err := None |}.

(* the hypothesis on what the environment supplies: ids are those the member parser accepts (null,
   string or number literals: c13_ids_echoed_are_literals), handler results are what json.Marshal
   returns (one tight JSON value, valid two containers down), error codes are int32 *)
Definition rsp_rt (wild : bytes) (r : SrvModel.rsp) : Prop :=
  id_rt' (SrvModel.r_id r) /\
  match SrvModel.r_body r with
  | SrvModel.BRes raw => tight_at 2 raw = true
  | SrvModel.BErr c _ => int32_ok c
  | SrvModel.BWild => tight_at 2 wild = true
  end.

Lemma rsp_rt_msg wild r : rsp_rt wild r -> msg_rt_at' 1 (jmsg_of_rsp wild r).
Proof.
  intros [Hi Hb]. constructor; cbn [jmsg_of_rsp j_method j_id j_params j_result j_error].
  - reflexivity.
  - right. exact Hi.
  - left. reflexivity.
  - destruct (SrvModel.r_body r); [right; exact Hb | left; reflexivity | right; exact Hb].
  - intros e He _ _. destruct (SrvModel.r_body r); try discriminate He. injection He as <-. split; [exact Hb | left; reflexivity].
Qed.

Lemma norm_rsp wild r : norm (jmsg_of_rsp wild r) = jmsg_of_rsp wild r.
Proof. reflexivity. Qed.

Theorem srv_send_bytes : forall wild c s l s' os ok b rs,
  SrvLemmas.reach c s -> SrvModel.step s l = Some (s', os) -> In (SrvModel.OSend ok b rs) os ->
  rs <> [] /\
  (Forall (rsp_rt wild) rs ->
   exists bytes, enc_msgs b (map (jmsg_of_rsp wild) rs) = Some bytes /\
     is_message_json bytes /\ valid bytes = true /\
     parse_msgs bytes = InMsgs (b || (1 <? length rs)%nat) (map (fun r => canon (jmsg_of_rsp wild r)) rs)).
Proof.
  intros wild c s l s' os ok b rs R H I. pose proof (SrvC10.whole_messages c s l s' os ok b rs R H I) as Hne.
  split; [exact Hne|]. intros HF.
  destruct (enc_msgs_total b (map (jmsg_of_rsp wild) rs)) as [bytes Henc]. exists bytes. split; [exact Henc|].
  assert (Hne' : map (jmsg_of_rsp wild) rs <> []) by (destruct rs; [contradiction | discriminate]).
  assert (HF' : Forall (msg_rt_at' 1) (map (jmsg_of_rsp wild) rs)).
  { apply Forall_forall. intros m Hm. apply in_map_iff in Hm as (r & <- & Hr). apply rsp_rt_msg.
    rewrite Forall_forall in HF. exact (HF r Hr). }
  destruct (msgs_message_json b _ bytes Hne' HF' Henc) as (A & B & C).
  split; [exact A|]. split; [exact B|]. rewrite C, map_length, map_map. reflexivity.
Qed.

(* decimal ids of pushed calls are number literals *)
Lemma srv_dec_digits_lit : forall f n acc, (n < f)%nat ->
  exists x ds, SrvModel.dec_digits f n acc = x :: ds ++ acc /\ forallb is_digit (x :: ds) = true /\
               ((n = 0)%nat -> x = 48 /\ ds = []) /\ ((0 < n)%nat -> 49 <= x <= 57).
Proof.
  induction f as [|f IH]; intros n acc Hn; [lia|]. cbn [SrvModel.dec_digits].
  pose proof (Nat.div_mod n 10 ltac:(lia)) as Hdm. pose proof (Nat.mod_upper_bound n 10 ltac:(lia)) as Hm.
  remember (n / 10)%nat as q eqn:Eq. remember (n mod 10)%nat as r eqn:Er.
  assert (Hd : is_digit (48 + N.of_nat r) = true) by (apply is_digit_intro; lia).
  destruct (Nat.eqb_spec q 0) as [E|E].
  - exists (48 + N.of_nat r), []. split; [reflexivity|]. split; [cbn [forallb]; rewrite Hd; reflexivity|].
    split; [intros ->; split; [replace r with 0%nat by lia; reflexivity | reflexivity] | intros Hp; lia].
  - destruct (IH q ((48 + N.of_nat r) :: acc) ltac:(lia)) as (x & ds & E1 & E2 & _ & E4).
    exists x, (ds ++ [48 + N.of_nat r]). split; [rewrite E1, <- app_assoc; reflexivity|]. split.
    + cbn [forallb] in E2 |- *. apply andb_true_iff in E2 as [Ex Eds]. rewrite Ex, forallb_app, Eds. cbn [forallb]. rewrite Hd. reflexivity.
    + split; [intros ->; lia | intros _; apply E4; lia].
Qed.

Lemma srv_dec_of_nat_lit n : is_num_lit (SrvModel.dec_of_nat n) = true.
Proof.
  unfold SrvModel.dec_of_nat. destruct (srv_dec_digits_lit (S n) n [] ltac:(lia)) as (x & ds & E1 & E2 & E3 & E4).
  rewrite E1, app_nil_r. destruct n as [|n].
  - destruct (E3 eq_refl) as [-> ->]. reflexivity.
  - unfold is_num_lit. cbn [forallb] in E2. apply andb_true_iff in E2 as [_ Eds].
    rewrite (pnum_digits x ds (E4 ltac:(lia)) Eds). reflexivity.
Qed.

(* a request or notification of the single-record form: method, params *)
Definition jmsg_of_req (id method params : bytes) : jmsg :=
  {| j_id := id; j_method := method; j_params := params; j_error := None; j_result := []; j_err := None |}.

(* what the caller supplies: a non-empty method name, valid UTF-8; params absent, null, or what
   json.Marshal returned for an array / object (valid d+1 containers down) *)
Definition req_rt (d : N) (method params : bytes) : Prop :=
  method <> [] /\ valid_utf8 method = true /\
  (params = [] \/ params = null_bytes \/
   (tight_at (N.succ d) params = true /\ params_ok params = true /\ is_null params = false)).

Lemma req_rt_msg d id m p : (id = [] \/ id_rt' id) -> req_rt d m p -> msg_rt_at' d (jmsg_of_req id m p).
Proof.
  intros Hi (Hm & Hu & Hp). constructor; cbn [jmsg_of_req j_method j_id j_params j_result j_error].
  - exact Hu.
  - exact Hi.
  - exact Hp.
  - left. reflexivity.
  - intros e He. discriminate He.
Qed.

Theorem srv_sendreq_bytes : forall s l s' os ok id m p,
  SrvModel.step s l = Some (s', os) -> In (SrvModel.OSendReq ok id m p) os ->
  (id = [] \/ is_num_lit id = true) /\
  (req_rt 0 m p ->
   exists bytes, enc_msg (jmsg_of_req id m p) = Some bytes /\ is_message_json bytes /\ valid bytes = true /\
     parse_msgs bytes = InMsgs false [canon (norm (jmsg_of_req id m p))]).
Proof.
  intros s l s' os ok id m p H I.
  assert (Hid : id = [] \/ is_num_lit id = true).
  { destruct (SrvC10.sends_in_critical_sections _ _ _ _ H) as (s1 & os1 & _ & _ & C & _).
    assert (I' : In (SrvModel.OSendReq ok id m p) (filter SrvC10.is_chan_op os)) by (apply filter_In; split; [exact I | reflexivity]).
    destruct C; cbn [In] in I'; try contradiction; destruct I' as [I'|[]]; try discriminate I'.
    injection I' as _ <- _ _. destruct w; [right; apply srv_dec_of_nat_lit | left; reflexivity]. }
  split; [exact Hid|]. intros Hrt.
  assert (Hid' : id = [] \/ id_rt' id) by (destruct Hid as [E|E]; [left; exact E | right; right; rewrite E, orb_true_r; reflexivity]).
  destruct (enc_msg_total (jmsg_of_req id m p)) as [bytes Henc]. exists bytes. split; [exact Henc|].
  pose proof (req_rt_msg 0 id m p Hid' Hrt) as Hm.
  assert (HF : Forall (msg_rt_at' 1) [jmsg_of_req id m p] -> True) by auto.
  destruct (enc_msg_object 0 _ bytes depth_le_2 Hm Henc) as [kvs Hk].
  split; [exists (JObj kvs); split; [exact Hk | left; eexists; reflexivity]|].
  split; [exact (valid_json_msg _ _ Hm Henc) | exact (parse_back_single' _ _ Hm Henc)].
Qed.

Example srv_send_bytes_nonvacuous :
  exists s s' rs, SrvLemmas.reach SrvC09.cfg_push s /\
    SrvModel.step s (SrvModel.LRelDeliver 0) = Some (s', [SrvModel.OSend true false rs]) /\
    Forall (rsp_rt []) rs /\
    exists bytes, enc_msgs false (map (jmsg_of_rsp []) rs) = Some bytes /\ parse_msgs bytes = InMsgs false (map (fun r => canon (jmsg_of_rsp [] r)) rs).
Proof.
  destruct SrvC10.whole_messages_nonvacuous as (s & s' & R & H). exists s, s'. eexists. split; [exact R|]. split; [exact H|].
  split.
  - constructor; [|constructor]. split; [right; reflexivity | reflexivity].
  - eexists. split; [vm_compute; reflexivity|]. vm_compute. reflexivity.
Qed.

Example srv_sendreq_bytes_nonvacuous :
  req_rt 0 [109] [] /\ req_rt 0 [109] [91; 49; 93] /\ is_num_lit (SrvModel.dec_of_nat 10) = true /\
  exists bytes, enc_msg (jmsg_of_req (SrvModel.dec_of_nat 10) [109] [91; 49; 93]) = Some bytes /\
                parse_msgs bytes = InMsgs false [jmsg_of_req [49; 48] [109] [91; 49; 93]].
Proof.
  split; [split; [discriminate | split; [reflexivity | left; reflexivity]]|].
  split; [split; [discriminate | split; [reflexivity | right; right; repeat split; reflexivity]]|].
  split; [reflexivity|]. eexists. split; [vm_compute; reflexivity|]. vm_compute. reflexivity.
Qed.

(* ------------------------------------------------------------------------- *)
(* Part C: the client model *)

Lemma uint_digits u : forallb is_digit (CliModel.uint_bytes u) = true.
Proof. induction u; cbn [CliModel.uint_bytes forallb]; try reflexivity; rewrite IHu; reflexivity. Qed.

Lemma uint_lit u : Decimal.unorm u = u -> is_num_lit (CliModel.uint_bytes u) = true.
Proof.
  intros H. destruct u; cbn [CliModel.uint_bytes];
    try (unfold is_num_lit; rewrite pnum_digits; [reflexivity | lia | apply uint_digits]).
  - discriminate H.
  - unfold Decimal.unorm in H. rewrite DecimalFacts.nzhead_D0 in H. destruct (Decimal.nzhead u) eqn:E.
    + injection H as <-. reflexivity.
    + exfalso. exact (DecimalFacts.nzhead_nonzero u u0 E).
    + rewrite <- E in H. exfalso. exact (DecimalFacts.nzhead_nonzero u u H).
    + rewrite <- E in H. exfalso. exact (DecimalFacts.nzhead_nonzero u u H).
    + rewrite <- E in H. exfalso. exact (DecimalFacts.nzhead_nonzero u u H).
    + rewrite <- E in H. exfalso. exact (DecimalFacts.nzhead_nonzero u u H).
    + rewrite <- E in H. exfalso. exact (DecimalFacts.nzhead_nonzero u u H).
    + rewrite <- E in H. exfalso. exact (DecimalFacts.nzhead_nonzero u u H).
    + rewrite <- E in H. exfalso. exact (DecimalFacts.nzhead_nonzero u u H).
    + rewrite <- E in H. exfalso. exact (DecimalFacts.nzhead_nonzero u u H).
    + rewrite <- E in H. exfalso. exact (DecimalFacts.nzhead_nonzero u u H).
Qed.

(* the decimal ids the client allocates are number literals *)
Lemma id_text_lit k : is_num_lit (CliModel.id_text k) = true.
Proof.
  unfold CliModel.id_text. apply uint_lit.
  rewrite <- (DecimalNat.Unsigned.of_to k) at 2. rewrite DecimalNat.Unsigned.to_of. reflexivity.
Qed.

(* one member (id, method, params) of a request record *)
Definition jmsg_of_mem (mem : bytes * bytes * bytes) : jmsg := jmsg_of_req (fst (fst mem)) (snd (fst mem)) (snd mem).

Theorem cli_sendreq_bytes : forall c s l s' os ok batch ms,
  CliLemmas.reach c s -> CliModel.step s l = Some (s', os) -> In (CliModel.OSendReq ok batch ms) os ->
  ms <> [] /\ batch = negb (length ms =? 1)%nat /\
  Forall (fun mem => fst (fst mem) = [] \/ is_num_lit (fst (fst mem)) = true) ms /\
  (Forall (fun mem => req_rt 1 (snd (fst mem)) (snd mem)) ms ->
   exists bytes, enc_msgs batch (map jmsg_of_mem ms) = Some bytes /\
     is_message_json bytes /\ valid bytes = true /\
     parse_msgs bytes = InMsgs batch (map (fun mem => canon (norm (jmsg_of_mem mem))) ms)).
Proof.
  intros c s l s' os ok batch ms R H I.
  destruct (CliShape.sendreq_shape c s l s' os ok batch ms R H I) as (Hne & Hb & Hid).
  assert (Hid' : Forall (fun mem => fst (fst mem) = [] \/ is_num_lit (fst (fst mem)) = true) ms).
  { eapply Forall_impl; [|exact Hid]. intros mem [E|[k E]]; [left; exact E | right; rewrite E; apply id_text_lit]. }
  split; [exact Hne|]. split; [exact Hb|]. split; [exact Hid'|]. intros Hrt.
  destruct (enc_msgs_total batch (map jmsg_of_mem ms)) as [bytes Henc]. exists bytes. split; [exact Henc|].
  assert (Hne' : map jmsg_of_mem ms <> []) by (destruct ms; [contradiction | discriminate]).
  assert (HF : Forall (msg_rt_at' 1) (map jmsg_of_mem ms)).
  { apply Forall_forall. intros m Hm. apply in_map_iff in Hm as (mem & <- & Hmem).
    rewrite Forall_forall in Hid', Hrt.
    assert (Hi : fst (fst mem) = [] \/ id_rt' (fst (fst mem))).
    { destruct (Hid' mem Hmem) as [E|E]; [left; exact E | right; right; apply orb_true_iff; right; exact E]. }
    exact (req_rt_msg 1 _ _ _ Hi (Hrt mem Hmem)). }
  destruct (msgs_message_json batch _ bytes Hne' HF Henc) as (A & B & C).
  split; [exact A|]. split; [exact B|]. rewrite C, map_length, map_map. f_equal.
  rewrite Hb. destruct ms as [|m1 [|m2 ms2]]; [contradiction | reflexivity | reflexivity].
Qed.

(* the reply of an OnCallback handler *)
Definition jmsg_of_cbout (id : bytes) (o : CliModel.cbout) : jmsg :=
  {| j_id := id; j_method := []; j_params := [];
     j_error := match o with CliModel.CbErr c m => Some {| we_code := c; we_msg := m; we_data := [] |} | _ => None end;
     j_result := match o with CliModel.CbRes raw => raw | _ => [] end; j_err := None |}.

Definition cbout_rt (o : CliModel.cbout) : Prop :=
  match o with CliModel.CbRes raw => tight_at 1 raw = true | CliModel.CbErr c _ => int32_ok c end.

Theorem cli_sendrsp_bytes : forall s l s' os ok id o,
  CliModel.step s l = Some (s', os) -> In (CliModel.OSendRsp ok id o) os ->
  id_rt' id -> cbout_rt o ->
  exists bytes, enc_msg (jmsg_of_cbout id o) = Some bytes /\ is_message_json bytes /\ valid bytes = true /\
    parse_msgs bytes = InMsgs false [canon (jmsg_of_cbout id o)].
Proof.
  intros s l s' os ok id o _ _ Hid Ho.
  assert (Hm : msg_rt' (jmsg_of_cbout id o)).
  { constructor; cbn [jmsg_of_cbout j_method j_id j_params j_result j_error].
    - reflexivity.
    - right. exact Hid.
    - left. reflexivity.
    - destruct o; [right; exact Ho | left; reflexivity].
    - intros e He _ _. destruct o; [discriminate He|]. injection He as <-. split; [exact Ho | left; reflexivity]. }
  destruct (enc_msg_total (jmsg_of_cbout id o)) as [bytes Henc]. exists bytes. split; [exact Henc|].
  destruct (enc_msg_object 0 _ bytes depth_le_2 Hm Henc) as [kvs Hk].
  split; [exists (JObj kvs); split; [exact Hk | left; eexists; reflexivity]|].
  split; [exact (valid_json_msg _ _ Hm Henc)|].
  exact (parse_back_single' _ _ Hm Henc).
Qed.

Example cli_sendreq_bytes_nonvacuous :
  is_num_lit (CliModel.id_text 12) = true /\
  Forall (fun mem : bytes * bytes * bytes => req_rt 1 (snd (fst mem)) (snd mem))
         [(CliModel.id_text 1, [109], [91; 49; 93]); ([], [110], [])] /\
  exists bytes, enc_msgs true (map jmsg_of_mem [(CliModel.id_text 1, [109], [91; 49; 93]); ([], [110], [])]) = Some bytes /\
                parse_msgs bytes = InMsgs true (map jmsg_of_mem [([49], [109], [91; 49; 93]); ([], [110], [])]).
Proof.
  split; [reflexivity|]. split.
  - constructor; [|constructor; [|constructor]].
    + split; [discriminate|]. split; [reflexivity|]. right. right. repeat split; reflexivity.
    + split; [discriminate|]. split; [reflexivity|]. left. reflexivity.
  - eexists. split; [vm_compute; reflexivity|]. vm_compute. reflexivity.
Qed.

(* a reachable window of the client model in which a request record is sent *)
Example cli_sendreq_reach_nonvacuous :
  exists s s' os, CliLemmas.reach CliProofs.ex_cfg s /\ CliModel.step s (CliModel.LRelSend 0) = Some (s', os) /\
    In (CliModel.OSendReq true false [([49], [109], [91; 49; 93])]) os /\
    req_rt 1 [109] [91; 49; 93].
Proof.
  destruct (CliModel.run (CliLemmas.init_of CliProofs.ex_cfg) [CliModel.LOp 0 CliModel.KCall [CliProofs.ex_spec 49]; CliModel.LRelReq 0])
    as [[s oss]|] eqn:E; [|vm_compute in E; discriminate E].
  exists s. eexists. eexists. split; [exact (CliLemmas.run_reach _ _ _ _ _ (CliLemmas.reach_init _) E)|].
  vm_compute in E. injection E as <- _. split; [vm_compute; reflexivity|]. split; [left; reflexivity|].
  split; [discriminate|]. split; [reflexivity|]. right. right. repeat split; reflexivity.
Qed.

Example cli_sendrsp_bytes_nonvacuous :
  id_rt' [55] /\ cbout_rt (CliModel.CbRes [116; 114; 117; 101]) /\ cbout_rt (CliModel.CbErr (-32603)%Z [120]) /\
  exists bytes, enc_msg (jmsg_of_cbout [55] (CliModel.CbErr (-32603)%Z [120])) = Some bytes /\
                parse_msgs bytes = InMsgs false [canon (jmsg_of_cbout [55] (CliModel.CbErr (-32603)%Z [120]))].
Proof.
  split; [right; reflexivity|]. split; [reflexivity|]. split; [unfold cbout_rt, int32_ok; split; discriminate|].
  eexists. split; [vm_compute; reflexivity|]. vm_compute. reflexivity.
Qed.
