(* WireProofs: lemmas about the wire model (Wire.v) behind the property theorems of C13 and C02. *)
From Coq Require Import List NArith ZArith Bool Arith Lia Permutation.
From JV Require Import Bytes Sort Json JsonProofs Msg Wire.
Import ListNotations.
Local Open Scope N_scope.

(* ------------------------------------------------------------------------- *)
(* A. single line: no control byte, valid UTF-8 *)

Definition line_safe (b : bytes) : bool := no_ctl b && valid_utf8 b.

Lemma line_safe_app a b : line_safe a = true -> line_safe b = true -> line_safe (a ++ b) = true.
Proof.
  unfold line_safe. intros Ha Hb. apply andb_true_iff in Ha as [A1 A2]. apply andb_true_iff in Hb as [B1 B2].
  rewrite no_ctl_app, A1, B1, valid_utf8_app; auto.
Qed.

Lemma line_safe_ascii s : all_ascii s = true -> no_ctl s = true -> line_safe s = true.
Proof. intros A B. unfold line_safe. rewrite B, valid_utf8_ascii; auto. Qed.

Lemma line_safe_escape s : line_safe (escape_string s) = true.
Proof. unfold line_safe. rewrite escape_string_no_ctl, escape_string_valid. reflexivity. Qed.

Definition all_digits (s : bytes) : bool := forallb is_digit s.

Lemma is_digit_intro c : 48 <= c <= 57 -> is_digit c = true.
Proof. intros [A B]. unfold is_digit. apply andb_true_iff. split; apply N.leb_le; assumption. Qed.

Lemma dec_digits_ok f : forall n acc, all_digits acc = true -> all_digits (dec_digits f n acc) = true.
Proof.
  induction f as [|f IH]; intros n acc H; cbn [dec_digits]; [exact H|].
  destruct (n <? 10) eqn:E.
  - apply N.ltb_lt in E. cbn [all_digits forallb]. unfold all_digits in H. rewrite H.
    rewrite is_digit_intro by lia. reflexivity.
  - apply IH. cbn [all_digits forallb]. unfold all_digits in H. rewrite H.
    assert (Hd : n mod 10 < 10) by (apply N.mod_lt; discriminate).
    remember (n mod 10) as d. rewrite is_digit_intro by lia. reflexivity.
Qed.

Lemma all_digits_safe s : all_digits s = true -> line_safe s = true.
Proof.
  intros H. apply line_safe_ascii.
  - unfold all_ascii, all_digits in *. rewrite forallb_forall in *. intros x Hx. specialize (H x Hx).
    apply is_digit_rng in H. apply N.ltb_lt. lia.
  - unfold no_ctl, all_digits in *. rewrite forallb_forall in *. intros x Hx. specialize (H x Hx).
    apply is_digit_rng in H. apply ge32. lia.
Qed.

Lemma z_dec_safe z : line_safe (z_dec z) = true.
Proof.
  destruct z as [|p|p]; cbn [z_dec]; [reflexivity| |].
  - apply all_digits_safe. apply dec_digits_ok. reflexivity.
  - change (45 :: n_dec (N.pos p)) with ([45] ++ n_dec (N.pos p)). apply line_safe_app; [reflexivity|].
    apply all_digits_safe. apply dec_digits_ok. reflexivity.
Qed.

(* the domain of C13 *)
(* what json.Marshal returns for a marshalable value: a compact JSON text, valid UTF-8 *)
Definition marshalled (p : bytes) : Prop := (exists p0, compact p0 = Some p) /\ valid_utf8 p = true.
(* a request id: a JSON string or number literal, valid UTF-8 *)
Definition id_ok (i : bytes) : Prop := is_str_lit i || is_num_lit i = true /\ valid_utf8 i = true.
Definition unset_or (P : bytes -> Prop) (b : bytes) : Prop := b = [] \/ P b.
(* error data: valid JSON whose compaction is valid UTF-8; the message is ANY byte string *)
Definition err_ok (e : werr) : Prop := unset_or (fun d => exists q, compact d = Some q /\ valid_utf8 q = true) (we_data e).

Record msg_ok (m : jmsg) : Prop := {
  ok_method : valid_utf8 (j_method m) = true;
  ok_id : unset_or id_ok (j_id m);
  ok_params : unset_or marshalled (j_params m);
  ok_result : unset_or marshalled (j_result m);
  ok_error : forall e, j_error m = Some e -> err_ok e }.

Lemma marshalled_safe p : marshalled p -> line_safe p = true.
Proof. intros [[p0 H] V]. unfold line_safe. rewrite (compact_no_ctl _ _ H), V. reflexivity. Qed.

Lemma id_ok_safe i : id_ok i -> line_safe i = true.
Proof.
  intros [H V]. unfold line_safe. rewrite V, andb_true_r. apply orb_true_iff in H as [H|H].
  - apply str_lit_no_ctl; exact H.
  - apply num_lit_props in H. apply num_chars_no_ctl in H. apply H.
Qed.

Lemma marshal_error_safe e : err_ok e -> exists b, marshal_error e = Some b /\ line_safe b = true.
Proof.
  intros H. unfold marshal_error.
  assert (Hh : line_safe (s_code ++ z_dec (we_code e) ++ (if beq (we_msg e) [] then [] else s_message ++ escape_string (we_msg e))) = true).
  { apply line_safe_app; [reflexivity|]. apply line_safe_app; [apply z_dec_safe|].
    destruct (beq (we_msg e) []); [reflexivity|]. apply line_safe_app; [reflexivity | apply line_safe_escape]. }
  destruct H as [H|(q & Hq & Vq)].
  - rewrite H. cbn [beq]. eexists; split; [reflexivity|]. apply line_safe_app; [exact Hh | reflexivity].
  - destruct (beq (we_data e) []) eqn:Eb.
    + eexists; split; [reflexivity|]. apply line_safe_app; [exact Hh | reflexivity].
    + rewrite Hq. eexists; split; [reflexivity|].
      apply line_safe_app; [exact Hh|]. apply line_safe_app; [reflexivity|].
      apply line_safe_app; [|reflexivity]. unfold line_safe. rewrite (compact_no_ctl _ _ Hq), Vq. reflexivity.
Qed.

Lemma unset_or_safe (P : bytes -> Prop) b : (forall x, P x -> line_safe x = true) -> unset_or P b -> line_safe b = true.
Proof. intros HP [->|H]; [reflexivity | auto]. Qed.

Lemma enc_msg_safe m : msg_ok m -> exists b, enc_msg m = Some b /\ line_safe b = true.
Proof.
  intros [Hm Hi Hp Hr He]. unfold enc_msg.
  assert (Hhead : line_safe (s_head ++ (if beq (j_id m) [] then [] else s_id ++ j_id m)) = true).
  { apply line_safe_app; [reflexivity|]. destruct (beq (j_id m) []); [reflexivity|].
    apply line_safe_app; [reflexivity|]. exact (unset_or_safe _ _ id_ok_safe Hi). }
  destruct (negb (beq (j_method m) [])).
  - eexists; split; [reflexivity|]. apply line_safe_app; [exact Hhead|].
    apply line_safe_app; [reflexivity|]. apply line_safe_app; [apply line_safe_escape|].
    apply line_safe_app; [|reflexivity]. destruct (beq (j_params m) []); [reflexivity|].
    apply line_safe_app; [reflexivity|]. exact (unset_or_safe _ _ marshalled_safe Hp).
  - destruct (negb (beq (j_result m) [])).
    + eexists; split; [reflexivity|]. apply line_safe_app; [exact Hhead|].
      apply line_safe_app; [reflexivity|]. apply line_safe_app; [|reflexivity].
      exact (unset_or_safe _ _ marshalled_safe Hr).
    + destruct (j_error m) as [e|] eqn:Ee.
      * destruct (marshal_error_safe e (He e eq_refl)) as (eb & -> & Hs).
        eexists; split; [reflexivity|]. apply line_safe_app; [exact Hhead|].
        apply line_safe_app; [reflexivity|]. apply line_safe_app; [exact Hs | reflexivity].
      * eexists; split; [reflexivity|]. apply line_safe_app; [exact Hhead | reflexivity].
Qed.

Lemma join_safe bl : Forall (fun b => line_safe b = true) bl -> line_safe (join_with [44] bl) = true.
Proof.
  induction 1 as [|b bl Hb Hbl IH]; [reflexivity|]. cbn [join_with].
  destruct bl as [|b2 bl2]; [exact Hb|].
  apply line_safe_app; [exact Hb|]. apply line_safe_app; [reflexivity | exact IH].
Qed.

Lemma enc_all_safe ms : Forall msg_ok ms ->
  exists bl, enc_all ms = Some bl /\ length bl = length ms /\ Forall (fun b => line_safe b = true) bl.
Proof.
  induction 1 as [|m ms Hm _ (bl & E & L & F)]; [exists []; repeat split; constructor|].
  destruct (enc_msg_safe m Hm) as (b & Eb & Sb). cbn [enc_all]. rewrite Eb, E.
  exists (b :: bl). repeat split; [cbn; lia | constructor; assumption].
Qed.

(* every message, batch, response the encoder is asked to produce inside the domain IS produced,
   on one line, as valid UTF-8 *)
Lemma enc_msgs_safe batch ms : Forall msg_ok ms -> exists b, enc_msgs batch ms = Some b /\ line_safe b = true.
Proof.
  intros H. destruct (enc_all_safe ms H) as (bl & E & L & F).
  assert (Harr : exists b, match enc_all ms with Some bl => Some (91 :: join_with [44] bl ++ [93]) | None => None end = Some b
                           /\ line_safe b = true).
  { rewrite E. eexists; split; [reflexivity|].
    change (91 :: join_with [44] bl ++ [93]) with ([91] ++ join_with [44] bl ++ [93]).
    apply line_safe_app; [reflexivity|]. apply line_safe_app; [apply join_safe; exact F | reflexivity]. }
  unfold enc_msgs. destruct ms as [|m [|m2 ms2]]; try exact Harr.
  destruct batch; [exact Harr|]. apply enc_msg_safe. inversion H; assumption.
Qed.

Lemma line_safe_spec b : line_safe b = true <-> (forall c, In c b -> 32 <= c) /\ valid_utf8 b = true.
Proof.
  unfold line_safe, no_ctl. rewrite andb_true_iff, forallb_forall. split; intros [A B]; split; auto; intros c Hc; specialize (A c Hc).
  - apply negb_true_iff, N.ltb_ge in A. exact A.
  - apply ge32; exact A.
Qed.

(* ------------------------------------------------------------------------- *)
(* B. ParseRequests is total and fails exactly on non-JSON *)

Lemma go_space_len_O x r :
  (x =? 32) = false -> ((9 <=? x) && (x <=? 13)) = false ->
  (x =? 194) = false -> (x =? 225) = false -> (x =? 226) = false -> (x =? 227) = false ->
  go_space_len (x :: r) = O.
Proof.
  intros H1 H2 H3 H4 H5 H6. unfold go_space_len. rewrite H1, H2. cbn [orb].
  destruct r as [|c2 [|c3 r]]; [reflexivity | rewrite H3; reflexivity |].
  rewrite H3, H4, H5, H6. reflexivity.
Qed.

Lemma first_byte_ws s w s1 : split_ws s = (w, s1) -> first_byte s = first_byte s1.
Proof.
  revert w s1; induction s as [|c r IH]; intros w s1 H; cbn [split_ws] in H.
  - injection H as <- <-. reflexivity.
  - destruct (is_ws c) eqn:Ew.
    + destruct (split_ws r) as [w' r'] eqn:E. injection H as <- <-.
      unfold first_byte. cbn [first_byte_k].
      assert (Hg : go_space_len (c :: r) = 1%nat).
      { unfold go_space_len. unfold is_ws in Ew.
        assert (((c =? 32) || (9 <=? c) && (c <=? 13)) = true) as ->; [|reflexivity].
        repeat (apply orb_true_iff in Ew as [Ew|Ew]); apply N.eqb_eq in Ew; subst c; reflexivity. }
      rewrite Hg. cbn [first_byte_k]. exact (IH _ _ eq_refl).
    + injection H as <- <-. reflexivity.
Qed.

(* the first byte of a value decides its kind *)
Lemma pval_head f d s c r : pval f d s = Some (c, r) ->
  exists x s', s = x :: s' /\ go_space_len s = O /\
               ((x = 91 /\ exists w es, c = CArr w es) \/ (x <> 91 /\ forall w es, c <> CArr w es)).
Proof.
  destruct f as [|f]; [discriminate|]. cbn [pval].
  destruct s as [|x s']; [discriminate|]. cbn [tk]. intros H. exists x, s'. split; [reflexivity|].
  unfold tok_of in H.
  destruct (x =? 34) eqn:E34.
  { apply N.eqb_eq in E34; subst x. split; [apply go_space_len_O; reflexivity|]. right. split; [discriminate|].
    destruct (pstr s') as [[b r']|]; [|discriminate]. injection H as <- <-. discriminate. }
  destruct (x =? 91) eqn:E91.
  { apply N.eqb_eq in E91; subst x. split; [apply go_space_len_O; reflexivity|]. left. split; [reflexivity|].
    destruct (max_depth <=? d); [discriminate|]. destruct (split_ws s') as [w r1]. destruct (tk r1) as [t r2].
    destruct t; try (destruct (pelems f (N.succ d) w r1) as [[es r3]|]; [|discriminate]; injection H as <- <-; eauto).
    injection H as <- <-; eauto. }
  destruct (x =? 93); [discriminate|].
  destruct (x =? 123) eqn:E123.
  { apply N.eqb_eq in E123; subst x. split; [apply go_space_len_O; reflexivity|]. right. split; [discriminate|].
    destruct (max_depth <=? d); [discriminate|]. destruct (split_ws s') as [w r1]. destruct (tk r1) as [t r2].
    destruct t; try (destruct (pmems f (N.succ d) w r1) as [[ms r3]|]; [|discriminate]; injection H as <- <-; discriminate).
    injection H as <- <-; discriminate. }
  destruct (x =? 125); [discriminate|]. destruct (x =? 44); [discriminate|]. destruct (x =? 58); [discriminate|].
  (* scalar *)
  assert (Hx : x = 116 \/ x = 102 \/ x = 110 \/ x = 45 \/ 48 <= x <= 57).
  { unfold pscalar in H. cbn [strip_prefix lit_true lit_false lit_null] in H.
    destruct (116 =? x) eqn:A; [apply N.eqb_eq in A; auto|].
    destruct (102 =? x) eqn:B; [apply N.eqb_eq in B; auto|].
    destruct (110 =? x) eqn:C; [apply N.eqb_eq in C; auto|].
    destruct (pnum (x :: s')) as [[n r']|] eqn:En; [|discriminate].
    unfold pnum in En. cbn [p_sign] in En. destruct (x =? 45) eqn:D; [apply N.eqb_eq in D; auto|].
    unfold p_int in En. destruct (x =? 48) eqn:F; [apply N.eqb_eq in F; lia|].
    destruct (is_digit x) eqn:G; [apply is_digit_rng in G; auto | discriminate]. }
  split.
  - apply N.eqb_neq in E91.
    apply go_space_len_O; try (apply N.eqb_neq; lia).
    destruct Hx as [->|[->|[->|[->|Hx]]]]; try reflexivity.
    apply andb_false_iff. right. apply N.leb_gt. lia.
  - right. apply N.eqb_neq in E91. split; [exact E91|]. intros w es Hc. subst c.
    unfold pscalar in H. break H; try discriminate.
Qed.

Lemma parse_doc_first_byte s w c w1 : parse_doc s = Some (w, c, w1) ->
  (first_byte s = 91 <-> exists w' es, c = CArr w' es).
Proof.
  unfold parse_doc, parse_prefix, value_at.
  destruct (split_ws s) as [w0 s1] eqn:Es. rewrite (first_byte_ws _ _ _ Es).
  destruct (pval (fuel_of s1) 0 s1) as [[c0 r0]|] eqn:Ev; [|discriminate].
  destruct (split_ws r0) as [w2 r1]. destruct r1; [|discriminate]. intros H. injection H as _ <- _.
  destruct (pval_head _ _ _ _ _ Ev) as (x & s' & -> & Hg & Hk).
  unfold first_byte. cbn [first_byte_k]. rewrite Hg.
  destruct Hk as [[-> Hc]|[Hx Hc]]; split; auto; try contradiction.
  intros (w' & es & Hc'). exfalso. exact (Hc _ _ Hc').
Qed.

Lemma split_msgs_none s : split_msgs s = None <-> parse s = None.
Proof.
  unfold split_msgs, parse, raw_value, raw_elements.
  destruct (parse_doc s) as [[[w c] w1]|] eqn:E.
  - pose proof (parse_doc_first_byte _ _ _ _ E) as Hfb.
    destruct (first_byte s =? 91) eqn:Ef; cbn [negb]; split; try discriminate.
    apply N.eqb_eq in Ef. apply Hfb in Ef as (w' & es & ->). discriminate.
  - destruct (negb (first_byte s =? 91)); split; reflexivity.
Qed.

Lemma parse_requests_total s :
  (parse s = None -> parse_requests s = TopError e_invalid_request) /\
  (parse s <> None -> exists batch raws, split_msgs s = Some (batch, raws) /\
                                         parse_requests s = Parsed (map (fun r => to_parsed (parse_member r)) raws)).
Proof.
  unfold parse_requests, parse_msgs. split; intros H.
  - apply split_msgs_none in H. rewrite H. reflexivity.
  - destruct (split_msgs s) as [[batch raws]|] eqn:E.
    + exists batch, raws. split; [reflexivity|]. rewrite map_map. reflexivity.
    + exfalso. apply H. apply split_msgs_none. exact E.
Qed.
