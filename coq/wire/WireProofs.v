(* WireProofs: lemmas about the wire model (Wire.v) behind the property theorems of C13 and C02. *)
From Coq Require Import List NArith ZArith Bool Arith Lia Permutation.
From JV Require Import Bytes Sort Json JsonProofs Msg Wire.
Import ListNotations.
Local Open Scope N_scope.

(* ------------------------------------------------------------------------- *)
(* A. single line: no control byte, valid UTF-8 *)

Definition line_safe (b : bytes) : bool := no_ctl b && valid_utf8 b.

Lemma line_safe_app a b : line_safe a = true -> line_safe b = true -> line_safe (a ++ b) = true.
Proof.
  unfold line_safe. intros Ha Hb. apply andb_true_iff in Ha as [A1 A2]. apply andb_true_iff in Hb as [B1 B2].
  rewrite no_ctl_app, A1, B1, valid_utf8_app; auto.
Qed.

Lemma line_safe_ascii s : all_ascii s = true -> no_ctl s = true -> line_safe s = true.
Proof. intros A B. unfold line_safe. rewrite B, valid_utf8_ascii; auto. Qed.

Lemma line_safe_escape s : line_safe (escape_string s) = true.
Proof. unfold line_safe. rewrite escape_string_no_ctl, escape_string_valid. reflexivity. Qed.

Definition all_digits (s : bytes) : bool := forallb is_digit s.

Lemma is_digit_intro c : 48 <= c <= 57 -> is_digit c = true.
Proof. intros [A B]. unfold is_digit. apply andb_true_iff. split; apply N.leb_le; assumption. Qed.

Lemma dec_digits_ok f : forall n acc, all_digits acc = true -> all_digits (dec_digits f n acc) = true.
Proof.
  induction f as [|f IH]; intros n acc H; cbn [dec_digits]; [exact H|].
  destruct (n <? 10) eqn:E.
  - apply N.ltb_lt in E. cbn [all_digits forallb]. unfold all_digits in H. rewrite H.
    rewrite is_digit_intro by lia. reflexivity.
  - apply IH. cbn [all_digits forallb]. unfold all_digits in H. rewrite H.
    assert (Hd : n mod 10 < 10) by (apply N.mod_lt; discriminate).
    remember (n mod 10) as d. rewrite is_digit_intro by lia. reflexivity.
Qed.

Lemma all_digits_safe s : all_digits s = true -> line_safe s = true.
Proof.
  intros H. apply line_safe_ascii.
  - unfold all_ascii, all_digits in *. rewrite forallb_forall in *. intros x Hx. specialize (H x Hx).
    apply is_digit_rng in H. apply N.ltb_lt. lia.
  - unfold no_ctl, all_digits in *. rewrite forallb_forall in *. intros x Hx. specialize (H x Hx).
    apply is_digit_rng in H. apply ge32. lia.
Qed.

Lemma z_dec_safe z : line_safe (z_dec z) = true.
Proof.
  destruct z as [|p|p]; cbn [z_dec]; [reflexivity| |].
  - apply all_digits_safe. apply dec_digits_ok. reflexivity.
  - change (45 :: n_dec (N.pos p)) with ([45] ++ n_dec (N.pos p)). apply line_safe_app; [reflexivity|].
    apply all_digits_safe. apply dec_digits_ok. reflexivity.
Qed.

(* the domain of C13 *)
(* what json.Marshal returns for a marshalable value: a compact JSON text, valid UTF-8 *)
Definition marshalled (p : bytes) : Prop := (exists p0, compact p0 = Some p) /\ valid_utf8 p = true.
(* a request id: a JSON string or number literal, valid UTF-8 *)
Definition id_ok (i : bytes) : Prop := is_str_lit i || is_num_lit i = true /\ valid_utf8 i = true.
Definition unset_or (P : bytes -> Prop) (b : bytes) : Prop := b = [] \/ P b.
(* error data: valid JSON whose compaction is valid UTF-8; the message is ANY byte string *)
Definition err_ok (e : werr) : Prop := unset_or (fun d => exists q, compact d = Some q /\ valid_utf8 q = true) (we_data e).

(* an error the encoder of a message (jmessage.toJSON, fix F16) writes on one line: data that are
   not JSON at all are fine, they are left out; what is required is only that IF they are JSON,
   their compaction is valid UTF-8 *)
Definition err_sendable (e : werr) : Prop :=
  we_data e = [] \/ forall q, compact (we_data e) = Some q -> valid_utf8 q = true.

Lemma err_ok_sendable e : err_ok e -> err_sendable e.
Proof.
  intros [H|(q & Hq & Vq)]; [left; exact H|]. right. intros q' Hq'. rewrite Hq in Hq'. injection Hq' as <-. exact Vq.
Qed.

Record msg_ok (m : jmsg) : Prop := {
  ok_method : valid_utf8 (j_method m) = true;
  ok_id : unset_or id_ok (j_id m);
  ok_params : unset_or marshalled (j_params m);
  ok_result : unset_or marshalled (j_result m);
  ok_error : forall e, j_error m = Some e -> err_sendable e }.

Lemma marshalled_safe p : marshalled p -> line_safe p = true.
Proof. intros [[p0 H] V]. unfold line_safe. rewrite (compact_no_ctl _ _ H), V. reflexivity. Qed.

Lemma id_ok_safe i : id_ok i -> line_safe i = true.
Proof.
  intros [H V]. unfold line_safe. rewrite V, andb_true_r. apply orb_true_iff in H as [H|H].
  - apply str_lit_no_ctl; exact H.
  - apply num_lit_props in H. apply num_chars_no_ctl in H. apply H.
Qed.

Lemma marshal_error_safe e : err_ok e -> exists b, marshal_error e = Some b /\ line_safe b = true.
Proof.
  intros H. unfold marshal_error.
  assert (Hh : line_safe (s_code ++ z_dec (we_code e) ++ (if beq (we_msg e) [] then [] else s_message ++ escape_string (we_msg e))) = true).
  { apply line_safe_app; [reflexivity|]. apply line_safe_app; [apply z_dec_safe|].
    destruct (beq (we_msg e) []); [reflexivity|]. apply line_safe_app; [reflexivity | apply line_safe_escape]. }
  destruct H as [H|(q & Hq & Vq)].
  - rewrite H. cbn [beq]. eexists; split; [reflexivity|]. apply line_safe_app; [exact Hh | reflexivity].
  - destruct (beq (we_data e) []) eqn:Eb.
    + eexists; split; [reflexivity|]. apply line_safe_app; [exact Hh | reflexivity].
    + rewrite Hq. eexists; split; [reflexivity|].
      apply line_safe_app; [exact Hh|]. apply line_safe_app; [reflexivity|].
      apply line_safe_app; [|reflexivity]. unfold line_safe. rewrite (compact_no_ctl _ _ Hq), Vq. reflexivity.
Qed.

(* the error member of a message is always produced (fix F16) *)
Lemma marshal_error_no_data e : we_data e = [] -> exists b, marshal_error e = Some b.
Proof. intros H. unfold marshal_error. rewrite H. cbn [beq]. eexists; reflexivity. Qed.

Lemma enc_error_total e : exists b, enc_error e = Some b.
Proof.
  unfold enc_error, enc_error_gen. destruct (marshal_error e) as [b|]; [exists b; reflexivity|].
  apply marshal_error_no_data. reflexivity.
Qed.

Lemma marshal_error_none e : marshal_error e = None <-> (we_data e <> [] /\ compact (we_data e) = None).
Proof.
  unfold marshal_error. destruct (beq (we_data e) []) eqn:Eb.
  - apply beq_eq in Eb. split; [discriminate|]. intros [H _]. contradiction.
  - assert (Hne : we_data e <> []) by (intros H; rewrite H in Eb; discriminate Eb).
    destruct (compact (we_data e)); split; try discriminate; try (intros [_ H]; discriminate); auto.
Qed.

(* ... without its data when they are not JSON *)
Lemma enc_error_fallback e : marshal_error e = None -> enc_error e = marshal_error (drop_data e).
Proof. intros H. unfold enc_error, enc_error_gen. rewrite H. reflexivity. Qed.

Lemma enc_error_marshal e b : marshal_error e = Some b -> enc_error e = Some b.
Proof. intros H. unfold enc_error, enc_error_gen. rewrite H. reflexivity. Qed.

Lemma enc_error_safe e : err_sendable e -> exists b, enc_error e = Some b /\ line_safe b = true.
Proof.
  intros H.
  assert (Hok : err_ok e -> exists b, enc_error e = Some b /\ line_safe b = true).
  { intros Ho. destruct (marshal_error_safe e Ho) as (b & Hb & Sb). exists b. split; [exact (enc_error_marshal e b Hb) | exact Sb]. }
  destruct H as [H|H]; [apply Hok; left; exact H|].
  destruct (marshal_error e) as [b|] eqn:Em.
  - apply Hok. destruct (beq (we_data e) []) eqn:Eb; [left; apply beq_eq; exact Eb|].
    right. unfold marshal_error in Em. rewrite Eb in Em.
    destruct (compact (we_data e)) as [q|] eqn:Ec; [|discriminate]. exists q. split; [reflexivity | exact (H q eq_refl)].
  - rewrite (enc_error_fallback e Em). apply marshal_error_safe. left. reflexivity.
Qed.

Lemma unset_or_safe (P : bytes -> Prop) b : (forall x, P x -> line_safe x = true) -> unset_or P b -> line_safe b = true.
Proof. intros HP [->|H]; [reflexivity | auto]. Qed.

Lemma enc_msg_safe m : msg_ok m -> exists b, enc_msg m = Some b /\ line_safe b = true.
Proof.
  intros [Hm Hi Hp Hr He]. unfold enc_msg, enc_msg_gen.
  assert (Hhead : line_safe (s_head ++ (if beq (j_id m) [] then [] else s_id ++ j_id m)) = true).
  { apply line_safe_app; [reflexivity|]. destruct (beq (j_id m) []); [reflexivity|].
    apply line_safe_app; [reflexivity|]. exact (unset_or_safe _ _ id_ok_safe Hi). }
  destruct (negb (beq (j_method m) [])).
  - eexists; split; [reflexivity|]. apply line_safe_app; [exact Hhead|].
    apply line_safe_app; [reflexivity|]. apply line_safe_app; [apply line_safe_escape|].
    apply line_safe_app; [|reflexivity]. destruct (beq (j_params m) []); [reflexivity|].
    apply line_safe_app; [reflexivity|]. exact (unset_or_safe _ _ marshalled_safe Hp).
  - destruct (negb (beq (j_result m) [])).
    + eexists; split; [reflexivity|]. apply line_safe_app; [exact Hhead|].
      apply line_safe_app; [reflexivity|]. apply line_safe_app; [|reflexivity].
      exact (unset_or_safe _ _ marshalled_safe Hr).
    + destruct (j_error m) as [e|] eqn:Ee.
      * fold enc_error. destruct (enc_error_safe e (He e eq_refl)) as (eb & -> & Hs).
        eexists; split; [reflexivity|]. apply line_safe_app; [exact Hhead|].
        apply line_safe_app; [reflexivity|]. apply line_safe_app; [exact Hs | reflexivity].
      * eexists; split; [reflexivity|]. apply line_safe_app; [exact Hhead | reflexivity].
Qed.

Lemma join_safe bl : Forall (fun b => line_safe b = true) bl -> line_safe (join_with [44] bl) = true.
Proof.
  induction 1 as [|b bl Hb Hbl IH]; [reflexivity|]. cbn [join_with].
  destruct bl as [|b2 bl2]; [exact Hb|].
  apply line_safe_app; [exact Hb|]. apply line_safe_app; [reflexivity | exact IH].
Qed.

Lemma enc_all_cons m r :
  enc_all (m :: r) = match enc_msg m, enc_all r with
                     | Some b, Some bs' => Some (b :: bs')
                     | _, _ => None
                     end.
Proof. reflexivity. Qed.

Lemma enc_msgs_shape batch ms :
  enc_msgs batch ms = match ms, batch with
                      | [m], false => enc_msg m
                      | _, _ => match enc_all ms with
                                | Some bl => Some (91 :: join_with [44] bl ++ [93])
                                | None => None
                                end
                      end.
Proof. reflexivity. Qed.

Lemma enc_all_safe ms : Forall msg_ok ms ->
  exists bl, enc_all ms = Some bl /\ length bl = length ms /\ Forall (fun b => line_safe b = true) bl.
Proof.
  induction 1 as [|m ms Hm _ (bl & E & L & F)]; [exists []; repeat split; constructor|].
  destruct (enc_msg_safe m Hm) as (b & Eb & Sb). rewrite enc_all_cons, Eb, E.
  exists (b :: bl). repeat split; [cbn; lia | constructor; assumption].
Qed.

(* every message, batch, response the encoder is asked to produce inside the domain IS produced,
   on one line, as valid UTF-8 *)
Lemma enc_msgs_safe batch ms : Forall msg_ok ms -> exists b, enc_msgs batch ms = Some b /\ line_safe b = true.
Proof.
  intros H. destruct (enc_all_safe ms H) as (bl & E & L & F).
  assert (Harr : exists b, match enc_all ms with Some bl => Some (91 :: join_with [44] bl ++ [93]) | None => None end = Some b
                           /\ line_safe b = true).
  { rewrite E. eexists; split; [reflexivity|].
    change (91 :: join_with [44] bl ++ [93]) with ([91] ++ join_with [44] bl ++ [93]).
    apply line_safe_app; [reflexivity|]. apply line_safe_app; [apply join_safe; exact F | reflexivity]. }
  rewrite enc_msgs_shape. destruct ms as [|m [|m2 ms2]]; try exact Harr.
  destruct batch; [exact Harr|]. apply enc_msg_safe. inversion H; assumption.
Qed.

Lemma line_safe_spec b : line_safe b = true <-> (forall c, In c b -> 32 <= c) /\ valid_utf8 b = true.
Proof.
  unfold line_safe, no_ctl. rewrite andb_true_iff, forallb_forall. split; intros [A B]; split; auto; intros c Hc; specialize (A c Hc).
  - apply negb_true_iff, N.ltb_ge in A. exact A.
  - apply ge32; exact A.
Qed.

(* ------------------------------------------------------------------------- *)
(* B. ParseRequests is total and fails exactly on non-JSON *)

Lemma go_space_len_O x r :
  (x =? 32) = false -> ((9 <=? x) && (x <=? 13)) = false ->
  (x =? 194) = false -> (x =? 225) = false -> (x =? 226) = false -> (x =? 227) = false ->
  go_space_len (x :: r) = O.
Proof.
  intros H1 H2 H3 H4 H5 H6. unfold go_space_len. rewrite H1, H2. cbn [orb].
  destruct r as [|c2 [|c3 r]]; [reflexivity | rewrite H3; reflexivity |].
  rewrite H3, H4, H5, H6. reflexivity.
Qed.

Lemma first_byte_ws s w s1 : split_ws s = (w, s1) -> first_byte s = first_byte s1.
Proof.
  revert w s1; induction s as [|c r IH]; intros w s1 H; cbn [split_ws] in H.
  - injection H as <- <-. reflexivity.
  - destruct (is_ws c) eqn:Ew.
    + destruct (split_ws r) as [w' r'] eqn:E. injection H as <- <-.
      unfold first_byte. cbn [first_byte_k].
      assert (Hg : go_space_len (c :: r) = 1%nat).
      { unfold go_space_len. unfold is_ws in Ew.
        assert (((c =? 32) || (9 <=? c) && (c <=? 13)) = true) as ->; [|reflexivity].
        repeat (apply orb_true_iff in Ew as [Ew|Ew]); apply N.eqb_eq in Ew; subst c; reflexivity. }
      rewrite Hg. cbn [first_byte_k]. exact (IH _ _ eq_refl).
    + injection H as <- <-. reflexivity.
Qed.

(* the first byte of a value decides its kind *)
Lemma pval_head f d s c r : pval f d s = Some (c, r) ->
  exists x s', s = x :: s' /\ go_space_len s = O /\
               ((x = 91 /\ exists w es, c = CArr w es) \/ (x <> 91 /\ forall w es, c <> CArr w es)).
Proof.
  destruct f as [|f]; [discriminate|]. cbn [pval].
  destruct s as [|x s']; [discriminate|]. cbn [tk]. intros H. exists x, s'. split; [reflexivity|].
  unfold tok_of in H.
  destruct (x =? 34) eqn:E34.
  { apply N.eqb_eq in E34; subst x. split; [apply go_space_len_O; reflexivity|]. right. split; [discriminate|].
    destruct (pstr s') as [[b r']|]; [|discriminate]. injection H as <- <-. discriminate. }
  destruct (x =? 91) eqn:E91.
  { apply N.eqb_eq in E91; subst x. split; [apply go_space_len_O; reflexivity|]. left. split; [reflexivity|].
    destruct (max_depth <=? d); [discriminate|]. destruct (split_ws s') as [w r1]. destruct (tk r1) as [t r2].
    destruct t; try (destruct (pelems f (N.succ d) w r1) as [[es r3]|]; [|discriminate]; injection H as <- <-; eauto).
    injection H as <- <-; eauto. }
  destruct (x =? 93); [discriminate|].
  destruct (x =? 123) eqn:E123.
  { apply N.eqb_eq in E123; subst x. split; [apply go_space_len_O; reflexivity|]. right. split; [discriminate|].
    destruct (max_depth <=? d); [discriminate|]. destruct (split_ws s') as [w r1]. destruct (tk r1) as [t r2].
    destruct t; try (destruct (pmems f (N.succ d) w r1) as [[ms r3]|]; [|discriminate]; injection H as <- <-; discriminate).
    injection H as <- <-; discriminate. }
  destruct (x =? 125); [discriminate|]. destruct (x =? 44); [discriminate|]. destruct (x =? 58); [discriminate|].
  (* scalar *)
  assert (Hx : x = 116 \/ x = 102 \/ x = 110 \/ x = 45 \/ 48 <= x <= 57).
  { unfold pscalar in H. cbn [strip_prefix lit_true lit_false lit_null] in H.
    destruct (116 =? x) eqn:A; [apply N.eqb_eq in A; auto|].
    destruct (102 =? x) eqn:B; [apply N.eqb_eq in B; auto|].
    destruct (110 =? x) eqn:C; [apply N.eqb_eq in C; auto|].
    destruct (pnum (x :: s')) as [[n r']|] eqn:En; [|discriminate].
    unfold pnum in En. cbn [p_sign] in En. destruct (x =? 45) eqn:D; [apply N.eqb_eq in D; auto|].
    unfold p_int in En. destruct (x =? 48) eqn:F; [apply N.eqb_eq in F; lia|].
    destruct (is_digit x) eqn:G; [apply is_digit_rng in G; auto | discriminate]. }
  split.
  - apply N.eqb_neq in E91.
    apply go_space_len_O; try (apply N.eqb_neq; lia).
    destruct Hx as [->|[->|[->|[->|Hx]]]]; try reflexivity.
    apply andb_false_iff. right. apply N.leb_gt. lia.
  - right. apply N.eqb_neq in E91. split; [exact E91|]. intros w es Hc. subst c.
    unfold pscalar in H. break H; try discriminate.
Qed.

Lemma parse_doc_first_byte s w c w1 : parse_doc s = Some (w, c, w1) ->
  (first_byte s = 91 <-> exists w' es, c = CArr w' es).
Proof.
  unfold parse_doc, parse_prefix, value_at.
  destruct (split_ws s) as [w0 s1] eqn:Es. rewrite (first_byte_ws _ _ _ Es).
  destruct (pval (fuel_of s1) 0 s1) as [[c0 r0]|] eqn:Ev; [|discriminate].
  destruct (split_ws r0) as [w2 r1]. destruct r1; [|discriminate]. intros H. injection H as _ <- _.
  destruct (pval_head _ _ _ _ _ Ev) as (x & s' & -> & Hg & Hk).
  unfold first_byte. cbn [first_byte_k]. rewrite Hg.
  destruct Hk as [[-> Hc]|[Hx Hc]]; split; auto; try contradiction.
  intros (w' & es & Hc'). exfalso. exact (Hc _ _ Hc').
Qed.

Lemma split_msgs_none s : split_msgs s = None <-> parse s = None.
Proof.
  unfold split_msgs, parse, raw_value, raw_elements.
  destruct (parse_doc s) as [[[w c] w1]|] eqn:E.
  - pose proof (parse_doc_first_byte _ _ _ _ E) as Hfb.
    destruct (first_byte s =? 91) eqn:Ef; cbn [negb]; split; try discriminate.
    apply N.eqb_eq in Ef. apply Hfb in Ef as (w' & es & ->). discriminate.
  - destruct (negb (first_byte s =? 91)); split; reflexivity.
Qed.

Lemma parse_requests_total s :
  (parse s = None -> parse_requests s = TopError e_invalid_request) /\
  (parse s <> None -> exists batch raws, split_msgs s = Some (batch, raws) /\
                                         parse_requests s = Parsed (map (fun r => to_parsed (parse_member r)) raws)).
Proof.
  unfold parse_requests, parse_msgs. split; intros H.
  - apply split_msgs_none in H. rewrite H. reflexivity.
  - destruct (split_msgs s) as [[batch raws]|] eqn:E.
    + exists batch, raws. split; [reflexivity|]. rewrite map_map. reflexivity.
    + exfalso. apply H. apply split_msgs_none. exact E.
Qed.

(* ------------------------------------------------------------------------- *)
(* C. the member parser as a function of the field MAP: characterisation of parse_fields on a
   duplicate-free field list, hence independence from Go's map iteration order *)

Definition keys_of (fs : list (bytes * bytes)) : list bytes := map fst fs.

Lemma lookup_none k fs : ~ In k (keys_of fs) -> lookup k fs = None.
Proof.
  induction fs as [|[k' v] fs IH]; intros H; [reflexivity|]. cbn [lookup].
  destruct (beq_spec k' k) as [->|N]; [exfalso; apply H; left; reflexivity|]. apply IH. intros Hi; apply H; right; exact Hi.
Qed.

Lemma lookup_app_last k k' v fs :
  lookup k (fs ++ [(k', v)]) = match lookup k fs with Some x => Some x | None => if beq k' k then Some v else None end.
Proof.
  induction fs as [|[k2 v2] fs IH]; cbn [app lookup]; [reflexivity|]. destruct (beq k2 k); [reflexivity | exact IH].
Qed.

Lemma key_defects_app a b : key_defects (a ++ b) = key_defects a ++ key_defects b.
Proof.
  induction a as [|kv a IH]; [reflexivity|]. cbn [app key_defects]. destruct (key_defect kv); rewrite IH; reflexivity.
Qed.

Lemma extras_app a b : extras (a ++ b) = extras a ++ extras b.
Proof. unfold extras. rewrite filter_app, map_app. reflexivity. Qed.

Definition id_field (fs : list (bytes * bytes)) : bytes :=
  match lookup k_id fs with Some v => if is_valid_id v then v else [] | None => [] end.
Definition params_field (fs : list (bytes * bytes)) : bytes :=
  match lookup k_params fs with Some v => if is_null v then [] else v | None => [] end.
Definition error_field (fs : list (bytes * bytes)) : option werr :=
  match lookup k_error fs with Some v => fst (unmarshal_error v) | None => None end.
Definition result_field (fs : list (bytes * bytes)) : bytes :=
  match lookup k_result fs with Some v => v | None => [] end.

(* the state of the scan after the fields fs (any order), as a function of the map *)
Definition summary (fs : list (bytes * bytes)) : pstate :=
  {| ps_v := str_field k_jsonrpc fs;
     ps_m := {| j_id := id_field fs; j_method := str_field k_method fs; j_params := params_field fs;
                j_error := error_field fs; j_result := result_field fs; j_err := hd_error (key_defects fs) |};
     ps_extra := extras fs |}.

Lemma classify_spec k :
  match classify k with
  | KVersion => k = k_jsonrpc | KId => k = k_id | KMethod => k = k_method | KParams => k = k_params
  | KError => k = k_error | KResult => k = k_result
  | KOther => beq k k_jsonrpc = false /\ beq k k_id = false /\ beq k k_method = false /\ beq k k_params = false /\
              beq k k_error = false /\ beq k k_result = false
  end.
Proof.
  unfold classify.
  destruct (beq_spec k k_jsonrpc); [assumption|]. destruct (beq_spec k k_id); [assumption|].
  destruct (beq_spec k k_method); [assumption|]. destruct (beq_spec k k_params); [assumption|].
  destruct (beq_spec k k_error); [assumption|]. destruct (beq_spec k k_result); [assumption|].
  repeat split; reflexivity.
Qed.

Lemma hd_error_app_l {A} (a b : list A) : hd_error (a ++ b) = match hd_error a with Some x => Some x | None => hd_error b end.
Proof. destruct a; reflexivity. Qed.

Lemma fail_err e m : j_err (fail e m) = match j_err m with Some x => Some x | None => Some e end.
Proof. unfold fail. destruct (j_err m) eqn:E; [exact E | reflexivity]. Qed.

Ltac lk := rewrite ?lookup_app_last; cbn [beq k_jsonrpc k_id k_method k_params k_error k_result N.eqb Pos.eqb andb].

Lemma scan_summary fs k v : ~ In k (keys_of fs) -> scan_field (summary fs) (k, v) = summary (fs ++ [(k, v)]).
Proof.
  intros Hnew. pose proof (lookup_none _ _ Hnew) as Hl.
  unfold scan_field. pose proof (classify_spec k) as Hc.
  unfold summary. cbn [ps_m ps_v ps_extra]. unfold str_field, id_field, params_field, error_field, result_field.
  rewrite key_defects_app, extras_app, hd_error_app_l. cbn [key_defects key_defect].
  destruct (classify k) eqn:Ek.
  - (* jsonrpc *) subst k. lk. rewrite Hl.
    destruct (lookup k_id fs), (lookup k_method fs), (lookup k_params fs), (lookup k_error fs), (lookup k_result fs);
    (destruct (unmarshal_string v) as [[s|]|] eqn:Ev; unfold summary, str_field, id_field, params_field, error_field, result_field, fail;
     cbn [ps_m ps_v ps_extra j_err j_id j_method j_params j_error j_result]; rewrite ?Hl, ?app_nil_r;
     destruct (hd_error (key_defects fs)); reflexivity).
  - (* id *) subst k. lk. rewrite Hl.
    destruct (lookup k_jsonrpc fs), (lookup k_method fs), (lookup k_params fs), (lookup k_error fs), (lookup k_result fs);
    (destruct (is_valid_id v) eqn:Ev; unfold summary, str_field, id_field, params_field, error_field, result_field, fail, set_id;
     cbn [ps_m ps_v ps_extra j_err j_id j_method j_params j_error j_result]; rewrite ?Hl, ?app_nil_r;
     destruct (hd_error (key_defects fs)); reflexivity).
  - (* method *) subst k. lk. rewrite Hl.
    destruct (lookup k_jsonrpc fs), (lookup k_id fs), (lookup k_params fs), (lookup k_error fs), (lookup k_result fs);
    (destruct (unmarshal_string v) as [[s|]|] eqn:Ev; unfold summary, str_field, id_field, params_field, error_field, result_field, fail, set_method;
     cbn [ps_m ps_v ps_extra j_err j_id j_method j_params j_error j_result]; rewrite ?Hl, ?app_nil_r;
     destruct (hd_error (key_defects fs)); reflexivity).
  - (* params *) subst k. lk. rewrite Hl.
    assert (Hp0 : params_ok [] = true) by reflexivity.
    destruct (lookup k_jsonrpc fs), (lookup k_id fs), (lookup k_method fs), (lookup k_error fs), (lookup k_result fs);
    (unfold summary, str_field, id_field, params_field, error_field, result_field;
     cbn [ps_m ps_v ps_extra j_err j_id j_method j_params j_error j_result]; rewrite ?Hl;
     destruct (is_null v) eqn:Ev; cbn [orb]; unfold set_params, fail;
     cbn [ps_m ps_v ps_extra j_err j_id j_method j_params j_error j_result]; rewrite ?Hp0;
     [| destruct (params_ok v)];
     cbn [ps_m ps_v ps_extra j_err j_id j_method j_params j_error j_result]; rewrite ?app_nil_r;
     destruct (hd_error (key_defects fs)); reflexivity).
  - (* error *) subst k. lk. rewrite Hl.
    destruct (lookup k_jsonrpc fs), (lookup k_id fs), (lookup k_method fs), (lookup k_params fs), (lookup k_result fs);
    (destruct (unmarshal_error v) as [e ok] eqn:Ev; cbn [fst snd];
     unfold summary, str_field, id_field, params_field, error_field, result_field, fail, set_error;
     cbn [ps_m ps_v ps_extra j_err j_id j_method j_params j_error j_result]; rewrite ?Hl;
     destruct ok; cbn [ps_m ps_v ps_extra j_err j_id j_method j_params j_error j_result]; rewrite ?app_nil_r;
     destruct (hd_error (key_defects fs)); reflexivity).
  - (* result *) subst k. lk. rewrite Hl.
    destruct (lookup k_jsonrpc fs), (lookup k_id fs), (lookup k_method fs), (lookup k_params fs), (lookup k_error fs);
    (unfold summary, str_field, id_field, params_field, error_field, result_field, set_result;
     cbn [ps_m ps_v ps_extra j_err j_id j_method j_params j_error j_result]; rewrite ?Hl, ?app_nil_r;
     destruct (hd_error (key_defects fs)); reflexivity).
  - (* other *) destruct Hc as (H1 & H2 & H3 & H4 & H5 & H6). rewrite !lookup_app_last, H1, H2, H3, H4, H5, H6.
    replace (extras [(k, v)]) with [k] by (unfold extras; cbn [filter fst map]; rewrite Ek; reflexivity).
    destruct (lookup k_jsonrpc fs), (lookup k_id fs), (lookup k_method fs), (lookup k_params fs), (lookup k_error fs), (lookup k_result fs);
    (unfold summary, str_field, id_field, params_field, error_field, result_field;
     cbn [ps_m ps_v ps_extra j_err j_id j_method j_params j_error j_result]; rewrite ?app_nil_r;
     destruct (hd_error (key_defects fs)); reflexivity).
Qed.

Lemma fold_summary fs : NoDup (keys_of fs) -> fold_left scan_field fs ps_init = summary fs.
Proof.
  induction fs as [|[k v] fs IH] using rev_ind; intros Hnd; [reflexivity|].
  unfold keys_of in Hnd. rewrite map_app in Hnd. cbn [map fst] in Hnd.
  apply NoDup_remove in Hnd as [Hnd Hnin]. rewrite app_nil_r in Hnd, Hnin.
  rewrite fold_left_app. cbn [fold_left]. rewrite (IH Hnd). apply scan_summary. exact Hnin.
Qed.

Definition nonempty_vals (fs : list (bytes * bytes)) : Prop := Forall (fun kv => snd kv <> []) fs.

Lemma lookup_in k v fs : lookup k fs = Some v -> In (k, v) fs.
Proof.
  induction fs as [|[k' v'] fs IH]; [discriminate|]. cbn [lookup]. destruct (beq_spec k' k) as [->|N].
  - intros H; injection H as ->. left; reflexivity.
  - intros H. right. exact (IH H).
Qed.

Lemma finish_err st :
  j_err (finish st) =
  match j_err (ps_m st) with
  | Some d => Some d
  | None =>
    if negb (beq (ps_v st) version) then Some e_bad_version
    else if negb (beq (j_method (ps_m st)) []) && (is_some (j_error (ps_m st)) || negb (beq (j_result (ps_m st)) [])) then Some e_mixed
    else match ps_extra st with [] => None | _ :: _ => Some (e_extra (ps_extra st)) end
  end.
Proof.
  unfold finish, fail. destruct (j_err (ps_m st)) eqn:E0; destruct (beq (ps_v st) version);
  cbn [negb j_method j_error j_result j_err]; rewrite ?E0;
  destruct (negb (beq (j_method (ps_m st)) []) && (is_some (j_error (ps_m st)) || negb (beq (j_result (ps_m st)) [])));
  cbn [negb j_method j_error j_result j_err]; rewrite ?E0; try reflexivity;
  destruct (ps_extra st); cbn [j_err]; rewrite ?E0; reflexivity.
Qed.

Lemma finish_summary_err fs : nonempty_vals fs ->
  j_err (finish (summary fs)) = hd_error (allowed_errs_fields fs).
Proof.
  intros Hne. rewrite finish_err. unfold allowed_errs_fields, summary. cbn [ps_m ps_v ps_extra j_method j_error j_result j_err].
  destruct (key_defects fs) as [|d ds] eqn:Ed; cbn [hd_error]; [|reflexivity].
  assert (Hres : negb (beq (result_field fs) []) = is_some (lookup k_result fs)).
  { unfold result_field. destruct (lookup k_result fs) as [v|] eqn:El; [|reflexivity].
    apply lookup_in in El. unfold nonempty_vals in Hne. rewrite Forall_forall in Hne. specialize (Hne _ El). cbn [snd] in Hne.
    destruct (beq_spec v []); [contradiction | reflexivity]. }
  assert (Herr : is_some (error_field fs) = has_error_value fs) by (unfold error_field, has_error_value; destruct (lookup k_error fs); reflexivity).
  rewrite Hres, Herr.
  destruct (negb (beq (str_field k_jsonrpc fs) version)); [reflexivity|].
  destruct (negb (beq (str_field k_method fs) []) && (has_error_value fs || is_some (lookup k_result fs))); [reflexivity|].
  destruct (extras fs); reflexivity.
Qed.

Lemma fail_fields e m : j_id (fail e m) = j_id m /\ j_method (fail e m) = j_method m /\ j_params (fail e m) = j_params m /\
                        j_error (fail e m) = j_error m /\ j_result (fail e m) = j_result m.
Proof. unfold fail. destruct (j_err m); repeat split; reflexivity. Qed.

Definition same_fields (a b : jmsg) : Prop :=
  j_id a = j_id b /\ j_method a = j_method b /\ j_params a = j_params b /\ j_error a = j_error b /\ j_result a = j_result b.

Lemma same_fields_fail e m : same_fields (fail e m) m.
Proof. exact (fail_fields e m). Qed.

Lemma same_fields_trans a b c : same_fields a b -> same_fields b c -> same_fields a c.
Proof. unfold same_fields. intuition congruence. Qed.

Lemma same_fields_refl a : same_fields a a.
Proof. repeat split. Qed.

Lemma finish_fields st : same_fields (finish st) (ps_m st).
Proof.
  unfold finish.
  set (m1 := if beq (ps_v st) version then ps_m st else fail e_bad_version (ps_m st)).
  assert (H1 : same_fields m1 (ps_m st)) by (unfold m1; destruct (beq (ps_v st) version); [apply same_fields_refl | apply same_fields_fail]).
  set (m2 := if negb (beq (j_method m1) []) && (is_some (j_error m1) || negb (beq (j_result m1) [])) then fail e_mixed m1 else m1).
  assert (H2 : same_fields m2 m1) by (unfold m2; destruct (negb (beq (j_method m1) []) && _); [apply same_fields_fail | apply same_fields_refl]).
  destruct (j_err m2); [|destruct (ps_extra st)]; try exact (same_fields_trans _ _ _ H2 H1).
  exact (same_fields_trans _ _ _ (same_fields_fail _ _) (same_fields_trans _ _ _ H2 H1)).
Qed.

(* the result of the member scan, for any duplicate-free field order *)
Lemma parse_fields_char fs : NoDup (keys_of fs) -> nonempty_vals fs ->
  j_err (parse_fields fs) = hd_error (allowed_errs_fields fs) /\
  j_id (parse_fields fs) = id_field fs /\ j_method (parse_fields fs) = str_field k_method fs /\
  j_params (parse_fields fs) = params_field fs /\ j_error (parse_fields fs) = error_field fs /\
  j_result (parse_fields fs) = result_field fs.
Proof.
  intros Hnd Hne. unfold parse_fields. rewrite (fold_summary _ Hnd). split; [apply finish_summary_err; exact Hne|].
  destruct (finish_fields (summary fs)) as (A & B & C & D & E). rewrite A, B, C, D, E. repeat split.
Qed.

(* permutations of a duplicate-free field list *)
Lemma lookup_perm k fs fs' : NoDup (keys_of fs) -> Permutation fs fs' -> lookup k fs = lookup k fs'.
Proof.
  intros Hnd Hp. induction Hp as [|[k1 v1] l l' Hp IH|[k1 v1] [k2 v2] l|l1 l2 l3 Hp1 IH1 Hp2 IH2].
  - reflexivity.
  - cbn [lookup]. cbn [keys_of map fst] in Hnd. apply NoDup_cons_iff in Hnd as [_ Hnd]. rewrite (IH Hnd). reflexivity.
  - cbn [lookup]. cbn [keys_of map fst] in Hnd. apply NoDup_cons_iff in Hnd as [Hn _].
    destruct (beq_spec k1 k) as [->|N1], (beq_spec k2 k) as [->|N2]; try reflexivity.
    exfalso. apply Hn. left; reflexivity.
  - rewrite (IH1 Hnd). apply IH2. unfold keys_of in *. eapply Permutation_NoDup; [apply Permutation_map; exact Hp1 | exact Hnd].
Qed.

Lemma key_defects_perm fs fs' : Permutation fs fs' -> Permutation (key_defects fs) (key_defects fs').
Proof.
  induction 1 as [|kv l l' Hp IH|kv1 kv2 l|l1 l2 l3 Hp1 IH1 Hp2 IH2]; cbn [key_defects].
  - constructor.
  - destruct (key_defect kv); [constructor|]; exact IH.
  - destruct (key_defect kv1), (key_defect kv2); try apply Permutation_refl. apply perm_swap.
  - eapply Permutation_trans; eassumption.
Qed.

Lemma extras_perm fs fs' : Permutation fs fs' -> Permutation (extras fs) (extras fs').
Proof.
  intros H. unfold extras. apply Permutation_map.
  induction H as [|kv l l' Hp IH|kv1 kv2 l|l1 l2 l3 Hp1 IH1 Hp2 IH2]; cbn [filter].
  - constructor.
  - destruct (match classify (fst kv) with KOther => true | _ => false end); [constructor|]; exact IH.
  - destruct (match classify (fst kv1) with KOther => true | _ => false end),
             (match classify (fst kv2) with KOther => true | _ => false end); try apply Permutation_refl. apply perm_swap.
  - eapply Permutation_trans; eassumption.
Qed.

(* two reports are the same defect: equal, or the "extra fields" error listing the same keys in another order *)
Definition werr_equiv (e a : werr) : Prop :=
  e = a \/ exists ks ks', e = e_extra ks /\ a = e_extra ks' /\ Permutation ks ks'.

Definition allowed_rel (A B : list werr) : Prop :=
  Permutation A B \/ exists ks ks', A = [e_extra ks] /\ B = [e_extra ks'] /\ Permutation ks ks'.

Lemma allowed_perm fs fs' : NoDup (keys_of fs) -> Permutation fs fs' ->
  allowed_rel (allowed_errs_fields fs) (allowed_errs_fields fs').
Proof.
  intros Hnd Hp. unfold allowed_errs_fields.
  pose proof (key_defects_perm _ _ Hp) as Hk.
  destruct (key_defects fs) as [|d ds] eqn:E1.
  - apply Permutation_nil in Hk. rewrite Hk.
    unfold str_field, has_error_value. rewrite <- !(lookup_perm _ _ _ Hnd Hp).
    destruct (negb (beq match lookup k_jsonrpc fs with Some v => match unmarshal_string v with Some (Some s) => s | _ => [] end | None => [] end version));
      [left; apply Permutation_refl|].
    destruct (negb (beq match lookup k_method fs with Some v => match unmarshal_string v with Some (Some s) => s | _ => [] end | None => [] end []) &&
              (match lookup k_error fs with Some v => is_some (fst (unmarshal_error v)) | None => false end || is_some (lookup k_result fs)));
      [left; apply Permutation_refl|].
    pose proof (extras_perm _ _ Hp) as He.
    destruct (extras fs) as [|x xs] eqn:E2.
    + apply Permutation_nil in He. rewrite He. left; constructor.
    + destruct (extras fs') as [|y ys] eqn:E3; [apply Permutation_sym, Permutation_nil in He; discriminate|].
      right. exists (x :: xs), (y :: ys). repeat split. exact He.
  - destruct (key_defects fs') as [|d' ds'] eqn:E2; [apply Permutation_sym, Permutation_nil in Hk; discriminate|].
    left. exact Hk.
Qed.

Definition known_code (a : werr) : Prop := we_code a = ParseError \/ we_code a = InvalidRequest.

Lemma key_defect_code kv e : key_defect kv = Some e -> known_code e.
Proof.
  unfold key_defect, known_code. destruct kv as [k v]. intros H. break H; injection H as <-; cbn; auto.
Qed.

Lemma key_defects_code fs e : In e (key_defects fs) -> known_code e.
Proof.
  induction fs as [|kv fs IH]; cbn [key_defects]; [contradiction|].
  destruct (key_defect kv) as [d|] eqn:E; [|exact IH]. intros [<-|H]; [exact (key_defect_code _ _ E) | exact (IH H)].
Qed.

Lemma allowed_codes fs a : In a (allowed_errs_fields fs) -> known_code a.
Proof.
  unfold allowed_errs_fields. destruct (key_defects fs) as [|d ds] eqn:E.
  - unfold known_code. intros H. break H; try contradiction; destruct H as [<-|[]]; cbn; auto.
  - rewrite <- E. apply key_defects_code.
Qed.

Lemma key_defects_in fs e : In e (key_defects fs) -> exists kv, In kv fs /\ key_defect kv = Some e.
Proof.
  induction fs as [|kv fs IH]; cbn [key_defects]; [contradiction|].
  destruct (key_defect kv) as [d|] eqn:E.
  - intros [<-|H]; [exists kv; split; [left; reflexivity | exact E]|]. destruct (IH H) as (kv' & A & B). exists kv'. split; [right|]; assumption.
  - intros H. destruct (IH H) as (kv' & A & B). exists kv'. split; [right|]; assumption.
Qed.

Lemma nodup_perm fs fs' : NoDup (keys_of fs) -> Permutation fs fs' -> NoDup (keys_of fs').
Proof. intros H P. unfold keys_of in *. eapply Permutation_NoDup; [apply Permutation_map; exact P | exact H]. Qed.

Lemma nonempty_perm fs fs' : nonempty_vals fs -> Permutation fs fs' -> nonempty_vals fs'.
Proof. unfold nonempty_vals. intros H P. eapply Permutation_Forall; eassumption. Qed.

(* ORDER INDEPENDENCE of the member scan *)
Lemma fields_order_independent fs fs' : NoDup (keys_of fs) -> nonempty_vals fs -> Permutation fs fs' ->
  same_fields (parse_fields fs') (parse_fields fs) /\
  (j_err (parse_fields fs') = None <-> j_err (parse_fields fs) = None) /\
  (j_err (parse_fields fs) = None <-> allowed_errs_fields fs = []) /\
  (forall e, j_err (parse_fields fs') = Some e -> exists a, In a (allowed_errs_fields fs) /\ werr_equiv e a) /\
  (forall a, In a (allowed_errs_fields fs) -> known_code a) /\
  (forall a, In a (allowed_errs_fields fs) ->
     exists fs'' e, Permutation fs fs'' /\ j_err (parse_fields fs'') = Some e /\ werr_equiv e a).
Proof.
  intros Hnd Hne Hp.
  pose proof (nodup_perm _ _ Hnd Hp) as Hnd'. pose proof (nonempty_perm _ _ Hne Hp) as Hne'.
  destruct (parse_fields_char fs Hnd Hne) as (E & F1 & F2 & F3 & F4 & F5).
  destruct (parse_fields_char fs' Hnd' Hne') as (E' & G1 & G2 & G3 & G4 & G5).
  pose proof (allowed_perm _ _ Hnd Hp) as Hrel.
  assert (Hhd : forall e, hd_error (allowed_errs_fields fs') = Some e -> exists a, In a (allowed_errs_fields fs) /\ werr_equiv e a).
  { intros e He. destruct Hrel as [P|(ks & ks' & A & B & P)].
    - exists e. split; [|left; reflexivity]. eapply Permutation_in; [apply Permutation_sym; exact P|].
      destruct (allowed_errs_fields fs'); [discriminate|]. injection He as ->. left; reflexivity.
    - rewrite B in He. injection He as <-. exists (e_extra ks). rewrite A. split; [left; reflexivity|].
      right. exists ks', ks. repeat split. apply Permutation_sym; exact P. }
  assert (Hnil : allowed_errs_fields fs' = [] <-> allowed_errs_fields fs = []).
  { destruct Hrel as [P|(ks & ks' & A & B & P)].
    - split; intros H; rewrite H in P; [apply Permutation_sym in P|]; apply Permutation_nil in P; exact P.
    - rewrite A, B. split; discriminate. }
  assert (Hnone : forall l : list werr, hd_error l = None <-> l = []) by (intros [|x l]; split; auto; discriminate).
  repeat split.
  - rewrite G1, F1. unfold id_field. rewrite (lookup_perm _ _ _ Hnd Hp). reflexivity.
  - rewrite G2, F2. unfold str_field. rewrite (lookup_perm _ _ _ Hnd Hp). reflexivity.
  - rewrite G3, F3. unfold params_field. rewrite (lookup_perm _ _ _ Hnd Hp). reflexivity.
  - rewrite G4, F4. unfold error_field. rewrite (lookup_perm _ _ _ Hnd Hp). reflexivity.
  - rewrite G5, F5. unfold result_field. rewrite (lookup_perm _ _ _ Hnd Hp). reflexivity.
  - rewrite E', E, !Hnone. apply Hnil.
  - rewrite E', E, !Hnone. apply Hnil.
  - rewrite E. apply Hnone.
  - rewrite E. apply Hnone.
  - rewrite E'. exact Hhd.
  - apply allowed_codes.
  - intros a Ha. unfold allowed_errs_fields in Ha. destruct (key_defects fs) as [|d ds] eqn:Ed.
    + (* a single post-scan defect: reported in every order *)
      exists fs, a. split; [apply Permutation_refl|]. split; [|left; reflexivity].
      rewrite E. unfold allowed_errs_fields. rewrite Ed.
      break Ha; try contradiction; destruct Ha as [<-|[]]; reflexivity.
    + (* a key defect: reported by the order that visits its key first *)
      rewrite <- Ed in Ha. destruct (key_defects_in _ _ Ha) as (kv & Hin & Hkd).
      destruct (in_split _ _ Hin) as (l1 & l2 & ->).
      exists (kv :: l1 ++ l2), a. split; [apply Permutation_sym, Permutation_middle|].
      split; [|left; reflexivity].
      assert (P : Permutation (l1 ++ kv :: l2) (kv :: l1 ++ l2)) by apply Permutation_sym, Permutation_middle.
      destruct (parse_fields_char _ (nodup_perm _ _ Hnd P) (nonempty_perm _ _ Hne P)) as (E2 & _).
      rewrite E2. unfold allowed_errs_fields. cbn [key_defects]. rewrite Hkd. reflexivity.
Qed.

(* ------------------------------------------------------------------------- *)
(* D. member level *)

Lemma last_wins_keys l k : In k (keys_of (last_wins l)) -> In k (keys_of l).
Proof.
  induction l as [|[k' v] r IH]; cbn [last_wins]; [auto|].
  destruct (existsb (fun p => beq (fst p) k') r); cbn [keys_of map fst]; intros H.
  - right. exact (IH H).
  - destruct H as [H|H]; [left; exact H | right; exact (IH H)].
Qed.

Lemma last_wins_nodup l : NoDup (keys_of (last_wins l)).
Proof.
  induction l as [|[k v] r IH]; cbn [last_wins]; [constructor|].
  destruct (existsb (fun p => beq (fst p) k) r) eqn:E; [exact IH|].
  cbn [keys_of map fst]. constructor; [|exact IH]. intros Hin. apply last_wins_keys in Hin.
  unfold keys_of in Hin. apply in_map_iff in Hin as ([k' v'] & Hk & Hin). cbn [fst] in Hk. subst k'.
  assert (existsb (fun p => beq (fst p) k) r = true); [|congruence].
  apply existsb_exists. exists (k, v'). split; [exact Hin | apply beq_refl].
Qed.

Lemma last_wins_nonempty l : nonempty_vals l -> nonempty_vals (last_wins l).
Proof.
  unfold nonempty_vals. induction 1 as [|[k v] r Hkv Hr IH]; cbn [last_wins]; [constructor|].
  match goal with |- context [existsb ?f r] => destruct (existsb f r) end; [exact IH | constructor; assumption].
Qed.

Lemma member_fields_wf data fs : member_fields data = Some fs -> NoDup (keys_of fs) /\ nonempty_vals fs.
Proof.
  unfold member_fields. destruct (raw_members data) as [ms|] eqn:E; [|discriminate]. intros H; injection H as <-.
  split; [apply last_wins_nodup | apply last_wins_nonempty, (raw_members_nonempty _ _ E)].
Qed.

(* C02: validity and every parsed field of a member do not depend on the order in which Go's map
   iteration presents the fields; the reported defect is always one of allowed_errs, each element
   of allowed_errs is reported by some order, every code is -32700 or -32600 *)
Lemma member_order_independent data (order : list (bytes * bytes) -> list (bytes * bytes)) :
  (forall fs, Permutation fs (order fs)) ->
  let m := parse_member data in
  let m' := parse_member_ord order data in
  same_fields m' m /\
  (j_err m' = None <-> j_err m = None) /\
  (j_err m = None <-> allowed_errs data = []) /\
  (forall e, j_err m' = Some e -> exists a, In a (allowed_errs data) /\ werr_equiv e a) /\
  (forall a, In a (allowed_errs data) -> we_code a = ParseError \/ we_code a = InvalidRequest) /\
  (forall a, In a (allowed_errs data) ->
     exists order' e, (forall fs, member_fields data = Some fs -> Permutation fs (order' fs)) /\
                      j_err (parse_member_ord order' data) = Some e /\ werr_equiv e a).
Proof.
  intros Hord. unfold parse_member, parse_member_ord, allowed_errs.
  destruct (member_fields data) as [fs|] eqn:E.
  - destruct (member_fields_wf _ _ E) as [Hnd Hne].
    destruct (fields_order_independent fs (order fs) Hnd Hne (Hord fs)) as (A & B & C & D & F & G).
    repeat split; try apply A; try apply B; try apply C; try exact D; try exact F.
    intros a Ha. destruct (G a Ha) as (fs'' & e & P & He & Heq). exists (fun _ => fs''), e.
    split; [intros fs0 H0; injection H0 as <-; exact P | split; assumption].
  - repeat split; try discriminate.
    + intros e He. exists e_not_object. split; [left; reflexivity|]. left. cbn in He. injection He as <-. reflexivity.
    + intros a [<-|[]]. left; reflexivity.
    + intros a [<-|[]]. exists (fun fs => fs), e_not_object. split; [discriminate|]. split; [reflexivity | left; reflexivity].
Qed.

(* C13: ParseRequests flags exactly the structurally invalid members, with a defect of the allowed set *)
Lemma flags_agree s batch raws :
  split_msgs s = Some (batch, raws) ->
  parse_msgs s = InMsgs batch (map parse_member raws) /\
  parse_requests s = Parsed (map (fun r => to_parsed (parse_member r)) raws) /\
  forall r, In r raws ->
    (pr_error (to_parsed (parse_member r)) = None <-> allowed_errs r = []) /\
    (forall e, pr_error (to_parsed (parse_member r)) = Some e ->
       In e (allowed_errs r) /\ (we_code e = ParseError \/ we_code e = InvalidRequest)).
Proof.
  intros H. unfold parse_requests, parse_msgs. rewrite H. split; [reflexivity|]. split; [rewrite map_map; reflexivity|].
  intros r _. cbn [to_parsed pr_error].
  destruct (member_order_independent r (fun fs => fs) (fun fs => Permutation_refl fs)) as (_ & _ & C & D & F & _).
  split; [exact C|]. intros e He.
  unfold parse_member, parse_member_ord, allowed_errs in *. destruct (member_fields r) as [fs|] eqn:E.
  - destruct (member_fields_wf _ _ E) as [Hnd Hne]. destruct (parse_fields_char fs Hnd Hne) as (Eh & _).
    rewrite Eh in He. assert (Hin : In e (allowed_errs_fields fs)) by (destruct (allowed_errs_fields fs); [discriminate | injection He as ->; left; reflexivity]).
    split; [exact Hin | exact (F e Hin)].
  - cbn in He. injection He as <-. split; [left; reflexivity | left; reflexivity].
Qed.

(* C02, envelope level *)
Lemma not_json s : parse s = None <-> parse_msgs s = InBad.
Proof.
  unfold parse_msgs. rewrite <- split_msgs_none. destruct (split_msgs s) as [[b r]|]; split; try discriminate; reflexivity.
Qed.

Lemma empty_batch s : parse s = Some (JArr []) <-> exists b, parse_msgs s = InMsgs b [].
Proof.
  unfold parse_msgs, parse, split_msgs, raw_value, raw_elements.
  destruct (parse_doc s) as [[[w c] w1]|] eqn:E.
  - pose proof (parse_doc_first_byte _ _ _ _ E) as Hfb. split.
    + intros H. injection H as H. destruct c; try discriminate. cbn [cst_json] in H. injection H as H.
      apply map_eq_nil in H. subst es. assert (Hf : first_byte s = 91) by (apply Hfb; eauto).
      rewrite Hf. cbn [N.eqb Pos.eqb negb map]. eauto.
    + intros [b H]. destruct (first_byte s =? 91) eqn:Ef; cbn [negb] in H; [|discriminate].
      apply N.eqb_eq in Ef. apply Hfb in Ef as (w' & es & ->). injection H as _ H. apply map_eq_nil in H.
      apply map_eq_nil in H. subst es. reflexivity.
  - split; [discriminate|]. intros [b H]. destruct (negb (first_byte s =? 91)); discriminate.
Qed.

(* an id of null is the same as no id *)
Lemma null_id_is_absent rest :
  ~ In k_id (keys_of rest) -> NoDup (keys_of rest) -> nonempty_vals rest ->
  let m := parse_fields ((k_id, null_bytes) :: rest) in
  let m0 := parse_fields rest in
  fix_id (j_id m) = [] /\ fix_id (j_id m0) = [] /\
  j_method m = j_method m0 /\ j_params m = j_params m0 /\ j_error m = j_error m0 /\ j_result m = j_result m0 /\
  j_err m = j_err m0 /\ is_notification m = is_notification m0.
Proof.
  intros Hnin Hnd Hne.
  assert (Hnd1 : NoDup (keys_of ((k_id, null_bytes) :: rest))) by (cbn [keys_of map fst]; constructor; assumption).
  assert (Hne1 : nonempty_vals ((k_id, null_bytes) :: rest)) by (constructor; [discriminate | exact Hne]).
  destruct (parse_fields_char _ Hnd1 Hne1) as (E & F1 & F2 & F3 & F4 & F5).
  destruct (parse_fields_char _ Hnd Hne) as (E0 & G1 & G2 & G3 & G4 & G5).
  cbv zeta.
  assert (A1 : fix_id (j_id (parse_fields ((k_id, null_bytes) :: rest))) = []) by (rewrite F1; reflexivity).
  assert (A2 : fix_id (j_id (parse_fields rest)) = []) by (rewrite G1; unfold id_field; rewrite (lookup_none _ _ Hnin); reflexivity).
  assert (A3 : j_method (parse_fields ((k_id, null_bytes) :: rest)) = j_method (parse_fields rest)) by (rewrite F2, G2; reflexivity).
  assert (A4 : j_params (parse_fields ((k_id, null_bytes) :: rest)) = j_params (parse_fields rest)) by (rewrite F3, G3; reflexivity).
  assert (A5 : j_error (parse_fields ((k_id, null_bytes) :: rest)) = j_error (parse_fields rest)) by (rewrite F4, G4; reflexivity).
  assert (A6 : j_result (parse_fields ((k_id, null_bytes) :: rest)) = j_result (parse_fields rest)) by (rewrite F5, G5; reflexivity).
  repeat split; try assumption.
  - rewrite E, E0. reflexivity.
  - unfold is_notification, is_req_or_notif. rewrite A1, A2, A3, A5, A6. reflexivity.
Qed.

(* the id that can be echoed for a member, whatever else is wrong with it: the raw id when it is a
   string or number (or null), nothing otherwise *)
Lemma member_id_echo fs : NoDup (keys_of fs) -> nonempty_vals fs ->
  j_id (parse_fields fs) = match lookup k_id fs with Some v => if is_valid_id v then v else [] | None => [] end.
Proof. intros Hnd Hne. exact (proj1 (proj2 (parse_fields_char fs Hnd Hne))). Qed.

(* ------------------------------------------------------------------------- *)
(* E. parse back.  The encoder writes the object syntax by hand; that its output is read back by
   the JSON layer as the intended members is a statement about the JSON parser on printed texts.
   These JSON-level round-trip specifications are stated here as Definitions [spec_...] and used as
   section hypotheses by the wire-level argument; every one of them is PROVED in WireSpecs.v
   (from json/JsonPrint.v), where the unconditional theorems are derived. *)

Definition fld (kv : bytes * bytes) : bytes := 34 :: fst kv ++ 34 :: 58 :: snd kv.
Definition obj_open (kvs : list (bytes * bytes)) : bytes := 123 :: join_with [44] (map fld kvs).
Definition obj_text (kvs : list (bytes * bytes)) : bytes := obj_open kvs ++ [125].
Definition arr_text (vs : list bytes) : bytes := 91 :: join_with [44] vs ++ [93].
Definition plain_key (k : bytes) : bool := forallb (fun c => (97 <=? c) && (c <=? 122)) k.

(* JSON-level specifications (statements about coq/json/Json.v only) *)
Definition spec_members : Prop := forall kvs, kvs <> [] ->
  (forall kv, In kv kvs -> plain_key (fst kv) = true /\ tight_at 1 (snd kv) = true) ->
  raw_members (obj_text kvs) = Some kvs.
Definition spec_obj_tight : Prop := forall d kvs, kvs <> [] -> N.succ d <= max_depth ->
  (forall kv, In kv kvs -> plain_key (fst kv) = true /\ tight_at (N.succ d) (snd kv) = true) ->
  tight_at d (obj_text kvs) = true.
Definition spec_elements : Prop := forall vs, (forall v, In v vs -> tight_at 1 v = true) -> raw_elements (arr_text vs) = Some vs.
Definition spec_raw_value : Prop := forall v, tight_at 0 v = true -> raw_value v = Some v.
Definition spec_depth_mono : Prop := forall d v, tight_at (N.succ d) v = true -> tight_at d v = true.
Definition spec_string : Prop := forall s, valid_utf8 s = true ->
  unmarshal_string (escape_string s) = Some (Some s) /\ forall d, tight_at d (escape_string s) = true.
(* encoding/json's struct codec on jrpc2.Error: Unmarshal (Marshal e) gives e back (data compacted).
   Domain: the code is an int32 (the Go type of Error.Code); the compacted data, which sits one
   container below the error object, is valid at that depth (encoding/json's nesting limit).
   The unrestricted statement is false: WireSpecs.spec_error_codec_unrestricted_refuted. *)
Definition int32_ok (z : Z) : Prop := (-2147483648 <= z <= 2147483647)%Z.
(* e survives the trip when its object sits d containers deep *)
Definition err_rt_at (d : N) (e : werr) : Prop :=
  int32_ok (we_code e) /\
  (we_data e = [] \/ exists q, compact (we_data e) = Some q /\ tight_at (N.succ d) q = true).
Definition spec_error_codec : Prop := forall d e b, N.succ d <= max_depth -> err_rt_at d e -> marshal_error e = Some b ->
  tight_at d b = true /\
  unmarshal_error b = (Some {| we_code := we_code e;
                               we_msg := if valid_utf8 (we_msg e) then we_msg e else snd (true, match unmarshal_string (escape_string (we_msg e)) with Some (Some x) => x | _ => [] end);
                               we_data := match compact (we_data e) with Some q => if beq (we_data e) [] then [] else q | None => [] end |}, true).

(* in the round-trip domain the data are JSON: the error member is json.Marshal of the *Error *)
Lemma enc_error_rt d e eb : err_rt_at d e -> enc_error e = Some eb -> marshal_error e = Some eb.
Proof.
  intros [_ Hd] He. destruct (marshal_error e) as [b|] eqn:Em.
  - rewrite (enc_error_marshal e b Em) in He. exact He.
  - exfalso. unfold marshal_error in Em. destruct Hd as [Hd|(q & Hq & _)].
    + rewrite Hd in Em. discriminate Em.
    + rewrite Hq in Em. destruct (beq (we_data e) []); discriminate Em.
Qed.

Definition v20 : bytes := Eval vm_compute in escape_string version.

(* the members the encoder writes *)
Definition msg_fields (m : jmsg) (eb : bytes) : list (bytes * bytes) :=
  [(k_jsonrpc, v20)] ++ (if beq (j_id m) [] then [] else [(k_id, j_id m)]) ++
  (if negb (beq (j_method m) []) then
     (k_method, escape_string (j_method m)) :: (if beq (j_params m) [] then [] else [(k_params, j_params m)])
   else if negb (beq (j_result m) []) then [(k_result, j_result m)]
   else match j_error m with Some _ => [(k_error, eb)] | None => [] end).

Lemma join_snoc l x : l <> [] -> join_with [44] (l ++ [x]) = join_with [44] l ++ 44 :: x.
Proof.
  induction l as [|a l IH]; [contradiction|]. intros _. destruct l as [|b l].
  - reflexivity.
  - change ((a :: b :: l) ++ [x]) with (a :: (b :: l) ++ [x]). cbn [join_with].
    assert (H : (b :: l) ++ [x] = b :: (l ++ [x])) by reflexivity. rewrite H. rewrite <- H.
    rewrite IH by discriminate. rewrite <- !app_assoc. reflexivity.
Qed.

Lemma obj_snoc kvs kv : kvs <> [] -> obj_open (kvs ++ [kv]) = obj_open kvs ++ 44 :: fld kv.
Proof.
  intros H. unfold obj_open. rewrite map_app. cbn [map]. rewrite join_snoc; [reflexivity|].
  destruct kvs; [contradiction | discriminate].
Qed.

Lemma some_eq {A} (x y : A) : Some x = Some y -> y = x.
Proof. congruence. Qed.

Lemma enc_msg_fields m b : enc_msg m = Some b ->
  exists eb, b = obj_text (msg_fields m eb) /\ (forall e, j_error m = Some e -> negb (beq (j_method m) []) = false ->
                                                negb (beq (j_result m) []) = false -> enc_error e = Some eb).
Proof.
  unfold enc_msg, enc_msg_gen, msg_fields, obj_text. cbv zeta. fold enc_error.
  assert (Hb : exists base, base = [(k_jsonrpc, v20)] ++ (if beq (j_id m) [] then [] else [(k_id, j_id m)]) /\
               s_head ++ (if beq (j_id m) [] then [] else s_id ++ j_id m) = obj_open base /\ base <> []).
  { eexists; split; [reflexivity|]. destruct (beq (j_id m) []); [split; [reflexivity | discriminate]|].
    split; [|discriminate]. rewrite obj_snoc by discriminate. reflexivity. }
  destruct Hb as (base & Hbase & Hb & Hne). rewrite Hb.
  assert (Hm : forall rest, [(k_jsonrpc, v20)] ++ (if beq (j_id m) [] then [] else [(k_id, j_id m)]) ++ rest = base ++ rest)
    by (intros rest; rewrite Hbase, <- app_assoc; reflexivity).
  clear Hbase Hb.
  destruct (negb (beq (j_method m) [])).
  - intros H; apply some_eq in H; subst b. exists []. split; [|discriminate]. rewrite Hm.
    destruct (beq (j_params m) []).
    + rewrite obj_snoc by exact Hne. rewrite <- !app_assoc. reflexivity.
    + change (base ++ [(k_method, escape_string (j_method m)); (k_params, j_params m)])
        with (base ++ [(k_method, escape_string (j_method m))] ++ [(k_params, j_params m)]).
      rewrite (app_assoc base).
      rewrite obj_snoc by (destruct base; [contradiction | discriminate]).
      rewrite obj_snoc by exact Hne.
      rewrite <- !app_assoc. reflexivity.
  - destruct (negb (beq (j_result m) [])).
    + intros H; apply some_eq in H; subst b. exists []. split; [|discriminate]. rewrite Hm.
      rewrite obj_snoc by exact Hne. rewrite <- !app_assoc. reflexivity.
    + destruct (j_error m) as [e|].
      * destruct (enc_error e) as [eb|] eqn:Ee; [|discriminate]. intros H; apply some_eq in H; subst b. exists eb.
        split; [|intros e0 H0 _ _; apply some_eq in H0; subst e0; exact Ee]. rewrite Hm.
        rewrite obj_snoc by exact Hne. rewrite <- !app_assoc. reflexivity.
      * intros H; apply some_eq in H; subst b. exists []. split; [|discriminate]. rewrite Hm, app_nil_r. reflexivity.
Qed.

Definition spec_lit_tight : Prop := forall d i, is_str_lit i || is_num_lit i = true -> tight_at d i = true.

Lemma pnum_first x s n r : pnum (x :: s) = Some (n, r) -> x = 45 \/ 48 <= x <= 57.
Proof.
  unfold pnum. cbn [p_sign]. destruct (x =? 45) eqn:D; [apply N.eqb_eq in D; auto|].
  unfold p_int. destruct (x =? 48) eqn:F; [apply N.eqb_eq in F; intros _; right; lia|].
  destruct (is_digit x) eqn:G; [apply is_digit_rng in G; auto | discriminate].
Qed.

Lemma lit_tight : spec_lit_tight.
Proof.
  intros d i H. unfold tight_at, value_at. destruct i as [|x s]; [discriminate H|].
  assert (Hf : exists f, fuel_of (x :: s) = S f) by (exists (2 * length (x :: s) + 1)%nat; unfold fuel_of; lia).
  destruct Hf as [f ->]. cbn [pval tk].
  apply orb_true_iff in H as [H|H].
  - cbn [is_str_lit] in H. apply andb_true_iff in H as [Hx H]. apply N.eqb_eq in Hx; subst x.
    change (tok_of 34) with TQuote. cbv iota. destruct (pstr s) as [[b [|? ?]]|]; try discriminate H. reflexivity.
  - unfold is_num_lit in H. destruct (pnum (x :: s)) as [[n [|? ?]]|] eqn:E; try discriminate H.
    pose proof (pnum_first _ _ _ _ E) as Hx.
    assert (Ht : tok_of x = TOther).
    { unfold tok_of. repeat match goal with |- context [?a =? ?b] => replace (a =? b) with false by (symmetry; apply N.eqb_neq; lia) end. reflexivity. }
    rewrite Ht. cbv iota. unfold pscalar. cbn [strip_prefix lit_true lit_false lit_null].
    replace (116 =? x) with false by (symmetry; apply N.eqb_neq; lia).
    replace (102 =? x) with false by (symmetry; apply N.eqb_neq; lia).
    replace (110 =? x) with false by (symmetry; apply N.eqb_neq; lia).
    rewrite E. reflexivity.
Qed.

Lemma lit_valid_id i : is_str_lit i || is_num_lit i = true -> is_valid_id i = true /\ i <> [] /\ is_null i = false.
Proof.
  intros H. destruct i as [|x s]; [discriminate H|]. split; [|split; [discriminate|]].
  - cbn [is_valid_id]. apply orb_true_iff in H as [H|H].
    + cbn [is_str_lit] in H. apply andb_true_iff in H as [H _]. rewrite H. rewrite !orb_true_r. reflexivity.
    + unfold is_num_lit in H. destruct (pnum (x :: s)) as [[n r]|] eqn:E; [|discriminate].
      destruct (pnum_first _ _ _ _ E) as [->|Hd]; [rewrite !orb_true_r; reflexivity|].
      rewrite (is_digit_intro x Hd). rewrite !orb_true_r. reflexivity.
  - apply orb_true_iff in H as [H|H].
    + cbn [is_str_lit] in H. apply andb_true_iff in H as [H _]. apply N.eqb_eq in H; subst x. reflexivity.
    + unfold is_num_lit in H. destruct (pnum (x :: s)) as [[n r]|] eqn:E; [|discriminate].
      unfold is_null, null_bytes. cbn [beq]. destruct (pnum_first _ _ _ _ E) as [->|Hd]; [reflexivity|].
      replace (x =? 110) with false; [reflexivity|]. symmetry. apply N.eqb_neq. lia.
Qed.

(* the domain of the round trip, for a message that sits d containers deep (0: alone, 1: batch
   member): its values sit at depth d+1, the data of its error at depth d+2, and must be valid
   there (encoding/json's nesting limit of 10000 counts the envelope) *)
Record msg_rt_at (d : N) (m : jmsg) : Prop := {
  rt_method : valid_utf8 (j_method m) = true;
  rt_id : j_id m = [] \/ is_str_lit (j_id m) || is_num_lit (j_id m) = true;
  rt_params : j_params m = [] \/ (tight_at (N.succ d) (j_params m) = true /\ params_ok (j_params m) = true /\ is_null (j_params m) = false);
  rt_result : j_result m = [] \/ tight_at (N.succ d) (j_result m) = true;
  (* only an error that is emitted matters *)
  rt_error : forall e, j_error m = Some e -> j_method m = [] -> j_result m = [] -> err_rt_at (N.succ d) e }.
Definition msg_rt (m : jmsg) : Prop := msg_rt_at 0 m.

(* in that domain the error member the encoder writes is json.Marshal of the *Error *)
Lemma enc_fields_rt d m eb : msg_rt_at d m ->
  (forall e, j_error m = Some e -> negb (beq (j_method m) []) = false -> negb (beq (j_result m) []) = false -> enc_error e = Some eb) ->
  (forall e, j_error m = Some e -> negb (beq (j_method m) []) = false -> negb (beq (j_result m) []) = false -> marshal_error e = Some eb).
Proof.
  intros [Rm Ri Rp Rr Re] He e Ee Em Er. apply (enc_error_rt (N.succ d) e eb); [|exact (He e Ee Em Er)].
  apply (Re e Ee); [apply negb_false_iff, beq_eq in Em; exact Em | apply negb_false_iff, beq_eq in Er; exact Er].
Qed.

(* what a message denotes on the wire: the encoder ignores params without a method, a result next
   to a method, an error next to a result *)
Definition canon (m : jmsg) : jmsg :=
  if negb (beq (j_method m) []) then
    {| j_id := j_id m; j_method := j_method m; j_params := j_params m; j_error := None; j_result := []; j_err := None |}
  else if negb (beq (j_result m) []) then
    {| j_id := j_id m; j_method := []; j_params := []; j_error := None; j_result := j_result m; j_err := None |}
  else
    {| j_id := j_id m; j_method := []; j_params := []; j_result := []; j_err := None;
       j_error := match j_error m with
                  | Some e => Some {| we_code := we_code e;
                                      we_msg := if valid_utf8 (we_msg e) then we_msg e else snd (true, match unmarshal_string (escape_string (we_msg e)) with Some (Some x) => x | _ => [] end);
                                      we_data := match compact (we_data e) with Some q => if beq (we_data e) [] then [] else q | None => [] end |}
                  | None => None
                  end |}.

Lemma plain_keys : plain_key k_jsonrpc = true /\ plain_key k_id = true /\ plain_key k_method = true /\
                   plain_key k_params = true /\ plain_key k_result = true /\ plain_key k_error = true.
Proof. repeat split; reflexivity. Qed.

Section ParseBack.
  Hypothesis Hmem : spec_members.
  Hypothesis Hstr : spec_string.
  Hypothesis Herr : spec_error_codec.
  Let Hlit : spec_lit_tight := lit_tight.

  Lemma depth_le_1 : N.succ 0 <= max_depth. Proof. vm_compute; discriminate. Qed.
  Lemma depth_le_2 : N.succ (N.succ 0) <= max_depth. Proof. vm_compute; discriminate. Qed.
  Lemma depth_le_3 : N.succ (N.succ 1) <= max_depth. Proof. vm_compute; discriminate. Qed.

  Lemma fields_ok d m eb : N.succ (N.succ d) <= max_depth -> msg_rt_at d m ->
    (forall e, j_error m = Some e -> negb (beq (j_method m) []) = false -> negb (beq (j_result m) []) = false -> marshal_error e = Some eb) ->
    forall kv, In kv (msg_fields m eb) -> plain_key (fst kv) = true /\ tight_at (N.succ d) (snd kv) = true.
  Proof.
    intros Hd [Rm Ri Rp Rr Re] He kv. unfold msg_fields.
    assert (Hi : beq (j_id m) [] = false -> tight_at (N.succ d) (j_id m) = true).
    { intros Hb. destruct Ri as [Ri|Ri]; [rewrite Ri in Hb; discriminate | exact (Hlit _ _ Ri)]. }
    assert (Hp : beq (j_params m) [] = false -> tight_at (N.succ d) (j_params m) = true).
    { intros Hb. destruct Rp as [Rp|Rp]; [rewrite Rp in Hb; discriminate | apply Rp]. }
    assert (Hr : negb (beq (j_result m) []) = true -> tight_at (N.succ d) (j_result m) = true).
    { intros Hb. destruct Rr as [Rr|Rr]; [rewrite Rr in Hb; discriminate | exact Rr]. }
    assert (Hee : forall e, j_error m = Some e -> negb (beq (j_method m) []) = false -> negb (beq (j_result m) []) = false ->
                   tight_at (N.succ d) eb = true).
    { intros e Ee Em Er. refine (proj1 (Herr (N.succ d) e eb Hd _ (He e Ee Em Er))).
      apply (Re e Ee); [apply negb_false_iff, beq_eq in Em; exact Em | apply negb_false_iff, beq_eq in Er; exact Er]. }
    destruct (beq (j_id m) []) eqn:Ei; destruct (negb (beq (j_method m) [])) eqn:Em;
      try destruct (beq (j_params m) []) eqn:Ep; try destruct (negb (beq (j_result m) [])) eqn:Er;
      try destruct (j_error m) as [e|] eqn:Ee; cbn [app In];
      intros H; repeat (destruct H as [<-|H]); try contradiction; cbn [fst snd]; split; try reflexivity;
      try (apply Hi; reflexivity); try (apply Hp; reflexivity); try (apply Hr; reflexivity);
      try (apply (proj2 (Hstr _ Rm))); try (apply (Hee e eq_refl eq_refl eq_refl)).
    all: exact (Hlit _ _ eq_refl).
  Qed.

  Lemma msg_fields_nodup m eb : last_wins (msg_fields m eb) = msg_fields m eb.
  Proof.
    unfold msg_fields.
    destruct (beq (j_id m) []); destruct (negb (beq (j_method m) [])); try destruct (beq (j_params m) []);
      try destruct (negb (beq (j_result m) [])); try destruct (j_error m); reflexivity.
  Qed.

  Lemma msg_fields_ne m eb : msg_fields m eb <> [].
  Proof. unfold msg_fields. discriminate. Qed.

  (* every encoded message parses back, under the library's own member parser, to the message it denotes *)
  Lemma parse_back_member m b : msg_rt m -> enc_msg m = Some b -> parse_member b = canon m.
  Proof.
    intros Hrt Henc. destruct (enc_msg_fields _ _ Henc) as (eb & -> & He0).
    pose proof (enc_fields_rt 0 m eb Hrt He0) as He. clear He0.
    pose proof (fields_ok 0 m eb depth_le_2 Hrt He) as Hok.
    pose proof (Hmem _ (msg_fields_ne m eb) Hok) as Hraw.
    unfold parse_member, parse_member_ord, member_fields. rewrite Hraw, msg_fields_nodup.
    destruct Hrt as [Rm Ri Rp Rr Re].
    destruct (Hstr _ Rm) as [Hus _].
    assert (Hm0 : negb (beq (j_method m) []) = false -> j_method m = []) by (intros X; apply negb_false_iff, beq_eq in X; exact X).
    assert (Hr0 : negb (beq (j_result m) []) = false -> j_result m = []) by (intros X; apply negb_false_iff, beq_eq in X; exact X).
    assert (Hv : unmarshal_string v20 = Some (Some version)) by (vm_compute; reflexivity).
    unfold parse_fields, canon, msg_fields.
    destruct (beq (j_id m) []) eqn:Ei; destruct (negb (beq (j_method m) [])) eqn:Em;
      try destruct (beq (j_params m) []) eqn:Ep; try destruct (negb (beq (j_result m) [])) eqn:Er;
      try destruct (j_error m) as [e|] eqn:Ee;
      cbn [app fold_left scan_field classify beq k_jsonrpc k_id k_method k_params k_result k_error N.eqb Pos.eqb andb];
      rewrite ?Hv, ?Hus; cbn [ps_m ps_v ps_extra ps_init j_empty set_id set_method set_params set_result set_error].
    all: repeat match goal with
      | H : beq ?x [] = true |- _ => apply beq_eq in H
      | H : beq (j_id _) [] = false |- _ =>
        destruct Ri as [Ri|Ri]; [rewrite Ri in H; discriminate H|]; destruct (lit_valid_id _ Ri) as (Hvi & _ & _); rewrite Hvi; clear H
      | H : beq (j_params _) [] = false |- _ =>
        destruct Rp as [Rp|(_ & Hpo & Hnl)]; [rewrite Rp in H; discriminate H|]; rewrite Hnl; cbn [set_params set_method set_id j_params j_empty]; rewrite Hpo; clear H
      end.
    all: try (rewrite (proj2 (Herr 1 e eb depth_le_2 (Re e eq_refl (Hm0 eq_refl) (Hr0 eq_refl)) (He e eq_refl eq_refl eq_refl)))).
    all: unfold finish, set_method, set_params, set_id, set_result, set_error, j_empty, fail;
      cbn [ps_v ps_m ps_extra j_id j_method j_params j_error j_result j_err];
      change (beq version version) with true;
      cbn [negb is_some orb andb beq ps_v ps_m ps_extra j_id j_method j_params j_error j_result j_err];
      rewrite ?Em;
      cbn [negb is_some orb andb beq ps_v ps_m ps_extra j_id j_method j_params j_error j_result j_err].
    all: try (apply negb_false_iff, beq_eq in Em).
    all: try (apply negb_false_iff, beq_eq in Er).
    all: rewrite ?Ei, ?Ep, ?Em, ?Er; try reflexivity.
  Qed.

  (* the independent validator (the JSON layer alone, no code shared with the member scan) sees
     exactly the intended key set, with "jsonrpc" bound to "2.0" *)
  Lemma independent_members m b : msg_rt m -> enc_msg m = Some b ->
    exists eb, raw_members b = Some (msg_fields m eb) /\ lookup k_jsonrpc (msg_fields m eb) = Some v20 /\
               unmarshal_string v20 = Some (Some version).
  Proof.
    intros Hrt Henc. destruct (enc_msg_fields _ _ Henc) as (eb & -> & He0).
    pose proof (enc_fields_rt 0 m eb Hrt He0) as He. clear He0. exists eb.
    split; [exact (Hmem _ (msg_fields_ne m eb) (fields_ok 0 m eb depth_le_2 Hrt He))|]. split; [reflexivity | vm_compute; reflexivity].
  Qed.

  (* envelope level *)
  Hypothesis Hobj : spec_obj_tight.
  Hypothesis Hval : spec_raw_value.
  Hypothesis Helt : spec_elements.

  Lemma first_byte_obj kvs : first_byte (obj_text kvs) = 123.
  Proof. unfold obj_text, obj_open, first_byte. cbn [app first_byte_k]. rewrite go_space_len_O; reflexivity. Qed.

  Lemma parse_back_single m b : msg_rt m -> enc_msg m = Some b -> parse_msgs b = InMsgs false [canon m].
  Proof.
    intros Hrt Henc. pose proof (parse_back_member m b Hrt Henc) as Hpm.
    destruct (enc_msg_fields _ _ Henc) as (eb & Hb & He0).
    pose proof (enc_fields_rt 0 m eb Hrt He0) as He. clear He0.
    assert (Ht : tight_at 0 b = true).
    { rewrite Hb. apply Hobj; [apply msg_fields_ne | vm_compute; discriminate | exact (fields_ok 0 m eb depth_le_2 Hrt He)]. }
    unfold parse_msgs, split_msgs. rewrite Hb at 1. rewrite first_byte_obj. cbn [N.eqb Pos.eqb negb].
    rewrite (Hval _ Ht). cbn [map]. rewrite Hpm. reflexivity.
  Qed.
End ParseBack.

(* ------------------------------------------------------------------------- *)
(* F. statements in the form used by coq/props *)

Lemma single_line_msgs batch ms : Forall msg_ok ms ->
  exists b, enc_msgs batch ms = Some b /\ (forall c, In c b -> 32 <= c) /\ valid_utf8 b = true.
Proof.
  intros H. destruct (enc_msgs_safe batch ms H) as (b & E & S). exists b. split; [exact E|]. apply line_safe_spec. exact S.
Qed.

Lemma single_line_response id err result :
  msg_ok {| j_id := id; j_method := []; j_params := []; j_error := err; j_result := result; j_err := None |} ->
  exists b, response_marshal id err result = Some b /\ (forall c, In c b -> 32 <= c) /\ valid_utf8 b = true.
Proof.
  intros H. destruct (enc_msg_safe _ H) as (b & E & S). exists b. split; [exact E|]. apply line_safe_spec. exact S.
Qed.

Lemma single_line_error e : err_ok e ->
  exists b, marshal_error e = Some b /\ (forall c, In c b -> 32 <= c) /\ valid_utf8 b = true.
Proof.
  intros H. destruct (marshal_error_safe _ H) as (b & E & S). exists b. split; [exact E|]. apply line_safe_spec. exact S.
Qed.

Lemma parse_back_partial :
  spec_members -> spec_string -> spec_error_codec -> spec_obj_tight -> spec_raw_value ->
  forall m b, msg_rt m -> enc_msg m = Some b ->
    parse_member b = canon m /\ parse_msgs b = InMsgs false [canon m] /\
    parse_requests b = Parsed [to_parsed (canon m)].
Proof.
  intros H1 H2 H3 H5 H6 m b Hrt Henc.
  pose proof (parse_back_single H1 H2 H3 H5 H6 m b Hrt Henc) as Hs.
  split; [exact (parse_back_member H1 H2 H3 m b Hrt Henc)|]. split; [exact Hs|].
  unfold parse_requests. rewrite Hs. reflexivity.
Qed.

Lemma independent_partial :
  spec_members -> spec_string -> spec_error_codec ->
  forall m b, msg_rt m -> enc_msg m = Some b ->
    exists eb, raw_members b = Some (msg_fields m eb) /\ lookup k_jsonrpc (msg_fields m eb) = Some v20 /\
               unmarshal_string v20 = Some (Some version).
Proof. intros H1 H2 H3. exact (independent_members H1 H2 H3). Qed.
