(* WireMore: C13 beyond the first domain.
   Part A: the domains with NULL ids and NULL params.  Every server reply to an invalid or id-less
           member carries "id":null, and a client whose params value marshals to null writes
           "params":null; msg_ok / msg_rt exclude both (id_ok, rt_id, rt_params).  The domains
           msg_ok' / msg_rt_at' admit them, and single line / parse back / batch parse back are
           re-proved there.  A null id is kept by the member parser and is read as ABSENT by
           fixID (to_parsed, is_notification); null params are read as absent by the member parser
           itself: the denotation is [canon (norm m)]. *)
From Coq Require Import List NArith ZArith Bool Arith Lia.
From JV Require Import Bytes Sort Json JsonProofs JsonPrint JsonTree JsonEq Msg Wire WireProofs WireSpecs.
Import ListNotations.
Local Open Scope N_scope.

(* ------------------------------------------------------------------------- *)
(* Part A.1: single line *)

Definition id_ok' (i : bytes) : Prop := i = null_bytes \/ id_ok i.

Record msg_ok' (m : jmsg) : Prop := {
  ok'_method : valid_utf8 (j_method m) = true;
  ok'_id : unset_or id_ok' (j_id m);
  ok'_params : unset_or marshalled (j_params m);
  ok'_result : unset_or marshalled (j_result m);
  ok'_error : forall e, j_error m = Some e -> err_sendable e }.

Lemma msg_ok_ok' m : msg_ok m -> msg_ok' m.
Proof.
  intros [A B C D E]. constructor; try assumption.
  destruct B as [B|B]; [left; exact B | right; right; exact B].
Qed.

Lemma id_ok'_safe i : id_ok' i -> line_safe i = true.
Proof. intros [->|H]; [reflexivity | exact (id_ok_safe i H)]. Qed.

(* "params":null is inside the domain: null is what json.Marshal returns for a nil value *)
Lemma marshalled_null : marshalled null_bytes.
Proof. split; [exists null_bytes; vm_compute; reflexivity | reflexivity]. Qed.

Lemma enc_msg_safe' m : msg_ok' m -> exists b, enc_msg m = Some b /\ line_safe b = true.
Proof.
  intros [Hm Hi Hp Hr He]. unfold enc_msg, enc_msg_gen.
  assert (Hhead : line_safe (s_head ++ (if beq (j_id m) [] then [] else s_id ++ j_id m)) = true).
  { apply line_safe_app; [reflexivity|]. destruct (beq (j_id m) []); [reflexivity|].
    apply line_safe_app; [reflexivity|]. exact (unset_or_safe _ _ id_ok'_safe Hi). }
  destruct (negb (beq (j_method m) [])).
  - eexists; split; [reflexivity|]. apply line_safe_app; [exact Hhead|].
    apply line_safe_app; [reflexivity|]. apply line_safe_app; [apply line_safe_escape|].
    apply line_safe_app; [|reflexivity]. destruct (beq (j_params m) []); [reflexivity|].
    apply line_safe_app; [reflexivity|]. exact (unset_or_safe _ _ marshalled_safe Hp).
  - destruct (negb (beq (j_result m) [])).
    + eexists; split; [reflexivity|]. apply line_safe_app; [exact Hhead|].
      apply line_safe_app; [reflexivity|]. apply line_safe_app; [|reflexivity].
      exact (unset_or_safe _ _ marshalled_safe Hr).
    + destruct (j_error m) as [e|] eqn:Ee.
      * fold enc_error. destruct (enc_error_safe e (He e eq_refl)) as (eb & -> & Hs).
        eexists; split; [reflexivity|]. apply line_safe_app; [exact Hhead|].
        apply line_safe_app; [reflexivity|]. apply line_safe_app; [exact Hs | reflexivity].
      * eexists; split; [reflexivity|]. apply line_safe_app; [exact Hhead | reflexivity].
Qed.

Lemma enc_all_safe' ms : Forall msg_ok' ms ->
  exists bl, enc_all ms = Some bl /\ length bl = length ms /\ Forall (fun b => line_safe b = true) bl.
Proof.
  induction 1 as [|m ms Hm _ (bl & E & L & F)]; [exists []; repeat split; constructor|].
  destruct (enc_msg_safe' m Hm) as (b & Eb & Sb). rewrite enc_all_cons, Eb, E.
  exists (b :: bl). repeat split; [cbn; lia | constructor; assumption].
Qed.

Lemma enc_msgs_safe' batch ms : Forall msg_ok' ms -> exists b, enc_msgs batch ms = Some b /\ line_safe b = true.
Proof.
  intros H. destruct (enc_all_safe' ms H) as (bl & E & L & F).
  assert (Harr : exists b, match enc_all ms with Some bl => Some (91 :: join_with [44] bl ++ [93]) | None => None end = Some b
                           /\ line_safe b = true).
  { rewrite E. eexists; split; [reflexivity|].
    change (91 :: join_with [44] bl ++ [93]) with ([91] ++ join_with [44] bl ++ [93]).
    apply line_safe_app; [reflexivity|]. apply line_safe_app; [apply join_safe; exact F | reflexivity]. }
  rewrite enc_msgs_shape. destruct ms as [|m [|m2 ms2]]; try exact Harr.
  destruct batch; [exact Harr|]. apply enc_msg_safe'. inversion H; assumption.
Qed.

(* every message, batch, reply (null ids and null params included) is produced, on one line, as
   valid UTF-8 *)
Theorem single_line_msgs' batch ms : Forall msg_ok' ms ->
  exists b, enc_msgs batch ms = Some b /\ (forall c, In c b -> 32 <= c) /\ valid_utf8 b = true.
Proof.
  intros H. destruct (enc_msgs_safe' batch ms H) as (b & E & S). exists b. split; [exact E|]. apply line_safe_spec. exact S.
Qed.

Definition null_id_reply : jmsg :=
  {| j_id := null_bytes; j_method := []; j_params := []; j_error := Some e_invalid_request; j_result := []; j_err := None |}.

Example single_line_msgs'_nonvacuous :
  msg_ok' null_id_reply /\ ~ msg_ok null_id_reply /\
  exists b, enc_msgs false [null_id_reply] = Some b /\ has_prefix (s_head ++ s_id ++ null_bytes ++ s_error) b = true.
Proof.
  split; [|split].
  - constructor; try (left; reflexivity); try reflexivity.
    + right; left; reflexivity.
    + intros e He. injection He as <-. left; reflexivity.
  - intros [_ [H|[H _]] _ _ _]; [discriminate H | vm_compute in H; discriminate H].
  - eexists. split; [vm_compute; reflexivity|]. vm_compute. reflexivity.
Qed.

(* ------------------------------------------------------------------------- *)
(* Part A.2: parse back *)

Definition id_rt' (i : bytes) : Prop := i = null_bytes \/ is_str_lit i || is_num_lit i = true.

Record msg_rt_at' (d : N) (m : jmsg) : Prop := {
  rt'_method : valid_utf8 (j_method m) = true;
  rt'_id : j_id m = [] \/ id_rt' (j_id m);
  rt'_params : j_params m = [] \/ j_params m = null_bytes \/
               (tight_at (N.succ d) (j_params m) = true /\ params_ok (j_params m) = true /\ is_null (j_params m) = false);
  rt'_result : j_result m = [] \/ tight_at (N.succ d) (j_result m) = true;
  rt'_error : forall e, j_error m = Some e -> j_method m = [] -> j_result m = [] -> err_rt_at (N.succ d) e }.
Definition msg_rt' (m : jmsg) : Prop := msg_rt_at' 0 m.

Lemma msg_rt_rt' d m : msg_rt_at d m -> msg_rt_at' d m.
Proof.
  intros [A B C D E]. constructor; try assumption.
  - destruct B as [B|B]; [left; exact B | right; right; exact B].
  - destruct C as [C|C]; [left; exact C | right; right; exact C].
Qed.

(* null params are read as absent *)
Definition norm (m : jmsg) : jmsg := if is_null (j_params m) then set_params [] m else m.

Lemma norm_id m : is_null (j_params m) = false -> norm m = m.
Proof. intros H. unfold norm. rewrite H. reflexivity. Qed.

Lemma norm_fields m : j_id (norm m) = j_id m /\ j_method (norm m) = j_method m /\ j_error (norm m) = j_error m /\
                      j_result (norm m) = j_result m /\ j_err (norm m) = j_err m /\
                      j_params (norm m) = if is_null (j_params m) then [] else j_params m.
Proof. unfold norm. destruct (is_null (j_params m)) eqn:E; repeat split; try reflexivity. Qed.

Lemma null_tight d : tight_at d null_bytes = true.
Proof.
  unfold tight_at, value_at. change (fuel_of null_bytes) with 10%nat. cbn [pval tk null_bytes].
  change (tok_of 110) with TOther. cbv iota. reflexivity.
Qed.

Lemma id_rt'_facts i : id_rt' i -> is_valid_id i = true /\ forall d, tight_at d i = true.
Proof.
  intros [->|H]; [split; [reflexivity | exact null_tight]|].
  split; [exact (proj1 (lit_valid_id i H)) | intros d; exact (lit_tight d i H)].
Qed.

Lemma enc_fields_rt' d m eb : msg_rt_at' d m ->
  (forall e, j_error m = Some e -> negb (beq (j_method m) []) = false -> negb (beq (j_result m) []) = false -> enc_error e = Some eb) ->
  (forall e, j_error m = Some e -> negb (beq (j_method m) []) = false -> negb (beq (j_result m) []) = false -> marshal_error e = Some eb).
Proof.
  intros [Rm Ri Rp Rr Re] He e Ee Em Er. apply (enc_error_rt (N.succ d) e eb); [|exact (He e Ee Em Er)].
  apply (Re e Ee); [apply negb_false_iff, beq_eq in Em; exact Em | apply negb_false_iff, beq_eq in Er; exact Er].
Qed.

Lemma fields_ok' d m eb : N.succ (N.succ d) <= max_depth -> msg_rt_at' d m ->
  (forall e, j_error m = Some e -> negb (beq (j_method m) []) = false -> negb (beq (j_result m) []) = false -> marshal_error e = Some eb) ->
  forall kv, In kv (msg_fields m eb) -> plain_key (fst kv) = true /\ tight_at (N.succ d) (snd kv) = true.
Proof.
  intros Hd [Rm Ri Rp Rr Re] He kv. unfold msg_fields.
  assert (Hi : beq (j_id m) [] = false -> tight_at (N.succ d) (j_id m) = true).
  { intros Hb. destruct Ri as [Ri|Ri]; [rewrite Ri in Hb; discriminate | exact (proj2 (id_rt'_facts _ Ri) _)]. }
  assert (Hp : beq (j_params m) [] = false -> tight_at (N.succ d) (j_params m) = true).
  { intros Hb. destruct Rp as [Rp|[Rp|Rp]]; [rewrite Rp in Hb; discriminate | rewrite Rp; apply null_tight | apply Rp]. }
  assert (Hr : negb (beq (j_result m) []) = true -> tight_at (N.succ d) (j_result m) = true).
  { intros Hb. destruct Rr as [Rr|Rr]; [rewrite Rr in Hb; discriminate | exact Rr]. }
  assert (Hee : forall e, j_error m = Some e -> negb (beq (j_method m) []) = false -> negb (beq (j_result m) []) = false ->
                 tight_at (N.succ d) eb = true).
  { intros e Ee Em Er. refine (proj1 (error_codec_spec (N.succ d) e eb Hd _ (He e Ee Em Er))).
    apply (Re e Ee); [apply negb_false_iff, beq_eq in Em; exact Em | apply negb_false_iff, beq_eq in Er; exact Er]. }
  destruct (beq (j_id m) []) eqn:Ei; destruct (negb (beq (j_method m) [])) eqn:Em;
    try destruct (beq (j_params m) []) eqn:Ep; try destruct (negb (beq (j_result m) [])) eqn:Er;
    try destruct (j_error m) as [e|] eqn:Ee; cbn [app In];
    intros H; repeat (destruct H as [<-|H]); try contradiction; cbn [fst snd]; split; try reflexivity;
    try (apply Hi; reflexivity); try (apply Hp; reflexivity); try (apply Hr; reflexivity);
    try (apply (proj2 (string_spec _ Rm))); try (apply (Hee e eq_refl eq_refl eq_refl)).
  all: exact (lit_tight _ _ eq_refl).
Qed.

Lemma msg_fields_nodup' m eb : last_wins (msg_fields m eb) = msg_fields m eb.
Proof.
  unfold msg_fields.
  destruct (beq (j_id m) []); destruct (negb (beq (j_method m) [])); try destruct (beq (j_params m) []);
    try destruct (negb (beq (j_result m) [])); try destruct (j_error m); reflexivity.
Qed.

Lemma msg_fields_ne' m eb : msg_fields m eb <> [].
Proof. unfold msg_fields. discriminate. Qed.

Lemma canon_norm_req m : negb (beq (j_method m) []) = true ->
  canon (norm m) = {| j_id := j_id m; j_method := j_method m; j_params := if is_null (j_params m) then [] else j_params m;
                      j_error := None; j_result := []; j_err := None |}.
Proof.
  intros H. unfold canon. destruct (norm_fields m) as (A & B & C & D & E & F). rewrite B, H, A, F. reflexivity.
Qed.

Lemma canon_norm_other m : negb (beq (j_method m) []) = false -> canon (norm m) = canon m.
Proof.
  intros H. unfold canon. destruct (norm_fields m) as (A & B & C & D & E & F). rewrite B, H, A, C, D. reflexivity.
Qed.

Lemma parse_back_member' m b : msg_rt' m -> enc_msg m = Some b -> parse_member b = canon (norm m).
Proof.
  intros Hrt Henc. destruct (enc_msg_fields _ _ Henc) as (eb & -> & He0).
  pose proof (enc_fields_rt' 0 m eb Hrt He0) as He. clear He0.
  pose proof (fields_ok' 0 m eb depth_le_2 Hrt He) as Hok.
  pose proof (members_spec _ (msg_fields_ne' m eb) Hok) as Hraw.
  unfold parse_member, parse_member_ord, member_fields. rewrite Hraw, msg_fields_nodup'.
  destruct Hrt as [Rm Ri Rp Rr Re].
  destruct (string_spec _ Rm) as [Hus _].
  assert (Hm0 : negb (beq (j_method m) []) = false -> j_method m = []) by (intros X; apply negb_false_iff, beq_eq in X; exact X).
  assert (Hr0 : negb (beq (j_result m) []) = false -> j_result m = []) by (intros X; apply negb_false_iff, beq_eq in X; exact X).
  assert (Hv : unmarshal_string v20 = Some (Some version)) by (vm_compute; reflexivity).
  destruct (negb (beq (j_method m) [])) eqn:Em0; [rewrite (canon_norm_req m Em0) | rewrite (canon_norm_other m Em0)];
    unfold parse_fields, canon, msg_fields; rewrite Em0.
  all: destruct (beq (j_id m) []) eqn:Ei;
      try destruct (beq (j_params m) []) eqn:Ep; try destruct (negb (beq (j_result m) [])) eqn:Er;
      try destruct (j_error m) as [e|] eqn:Ee;
      cbn [app fold_left scan_field classify beq k_jsonrpc k_id k_method k_params k_result k_error N.eqb Pos.eqb andb];
      rewrite ?Hv, ?Hus; cbn [ps_m ps_v ps_extra ps_init j_empty set_id set_method set_params set_result set_error].
  all: repeat match goal with
    | H : beq ?x [] = true |- _ => apply beq_eq in H
    | H : beq (j_id _) [] = false |- _ =>
      destruct Ri as [Ri|Ri]; [rewrite Ri in H; discriminate H|]; rewrite (proj1 (id_rt'_facts _ Ri)); clear H
    | H : beq (j_params _) [] = false |- _ =>
      destruct Rp as [Rp|[Rp|(_ & Hpo & Hnl)]];
      [rewrite Rp in H; discriminate H
      |rewrite Rp; change (is_null null_bytes) with true; cbv iota; cbn [set_params set_method set_id j_params j_empty];
       change (params_ok []) with true; cbv iota
      |rewrite Hnl; cbn [set_params set_method set_id j_params j_empty]; rewrite Hpo]; clear H
    end.
  all: try (rewrite (proj2 (error_codec_spec 1 e eb depth_le_2 (Re e eq_refl (Hm0 eq_refl) (Hr0 eq_refl)) (He e eq_refl eq_refl eq_refl)))).
  all: unfold finish, set_method, set_params, set_id, set_result, set_error, j_empty, fail;
    cbn [ps_v ps_m ps_extra j_id j_method j_params j_error j_result j_err];
    change (beq version version) with true;
    cbn [negb is_some orb andb beq ps_v ps_m ps_extra j_id j_method j_params j_error j_result j_err];
    rewrite ?Em0;
    cbn [negb is_some orb andb beq ps_v ps_m ps_extra j_id j_method j_params j_error j_result j_err].
  all: try (apply negb_false_iff, beq_eq in Em0).
  all: try (apply negb_false_iff, beq_eq in Er).
  all: rewrite ?Ei, ?Ep, ?Em0, ?Er; try reflexivity.
Qed.

Lemma first_byte_obj' kvs : first_byte (obj_text kvs) = 123.
Proof. unfold obj_text, obj_open, first_byte. cbn [app first_byte_k]. rewrite go_space_len_O; reflexivity. Qed.

(* an encoded message is one JSON value at the depth of its domain *)
Lemma enc_tight' d m b : N.succ (N.succ d) <= max_depth -> msg_rt_at' d m -> enc_msg m = Some b -> tight_at d b = true.
Proof.
  intros Hd Hrt Henc. destruct (enc_msg_fields _ _ Henc) as (eb & -> & He0).
  pose proof (enc_fields_rt' d m eb Hrt He0) as He. clear He0.
  apply obj_tight_spec; [apply msg_fields_ne' | lia | exact (fields_ok' d m eb Hd Hrt He)].
Qed.

Lemma parse_back_single' m b : msg_rt' m -> enc_msg m = Some b -> parse_msgs b = InMsgs false [canon (norm m)].
Proof.
  intros Hrt Henc. pose proof (parse_back_member' m b Hrt Henc) as Hpm.
  pose proof (enc_tight' 0 m b depth_le_2 Hrt Henc) as Ht.
  destruct (enc_msg_fields _ _ Henc) as (eb & Hb & _).
  unfold parse_msgs, split_msgs. rewrite Hb at 1. rewrite first_byte_obj'. cbn [N.eqb Pos.eqb negb].
  rewrite (raw_value_spec _ Ht). cbn [map]. rewrite Hpm. reflexivity.
Qed.

(* every encoded message - a null id and null params included - parses back, under the library's
   own parser, to the message it denotes; the null id is kept by the member parser and reads as
   absent after fixID *)
Theorem parse_back' : forall m b, msg_rt' m -> enc_msg m = Some b ->
  parse_member b = canon (norm m) /\ parse_msgs b = InMsgs false [canon (norm m)] /\
  parse_requests b = Parsed [to_parsed (canon (norm m))] /\
  j_id (parse_member b) = j_id m /\
  (j_id m = null_bytes -> pr_id (to_parsed (parse_member b)) = [] /\
                          is_notification (parse_member b) = is_req_or_notif (parse_member b)) /\
  (j_params m = null_bytes -> j_params (parse_member b) = []).
Proof.
  intros m b Hrt Henc. pose proof (parse_back_member' m b Hrt Henc) as Hpm.
  pose proof (parse_back_single' m b Hrt Henc) as Hs.
  assert (Hid : j_id (canon (norm m)) = j_id m).
  { unfold canon. destruct (norm_fields m) as (A & B & _). rewrite B.
    destruct (negb (beq (j_method m) [])); [exact A|]. destruct (negb (beq (j_result (norm m)) [])); exact A. }
  split; [exact Hpm|]. split; [exact Hs|]. split; [unfold parse_requests; rewrite Hs; reflexivity|].
  rewrite Hpm. split; [exact Hid|]. split.
  - intros Hn. unfold to_parsed, is_notification. cbn [pr_id]. rewrite Hid, Hn. split; [reflexivity|].
    change (beq (fix_id null_bytes) []) with true. rewrite andb_true_r. reflexivity.
  - intros Hn. unfold canon. destruct (norm_fields m) as (_ & B & _ & _ & _ & F). rewrite B, F, Hn.
    destruct (negb (beq (j_method m) [])); [reflexivity|]. destruct (negb (beq (j_result (norm m)) [])); reflexivity.
Qed.

Lemma msg_rt_at'_mono d d' m : d' <= d -> msg_rt_at' d m -> msg_rt_at' d' m.
Proof.
  intros Hd [Rm Ri Rp Rr Re]. constructor.
  - exact Rm.
  - exact Ri.
  - destruct Rp as [Rp|[Rp|(A & B & C)]]; [left; exact Rp | right; left; exact Rp|]. right. right. split; [|split; assumption].
    apply (tight_depth_mono (N.succ d)); [exact A | lia].
  - destruct Rr as [Rr|Rr]; [left; exact Rr|]. right. apply (tight_depth_mono (N.succ d)); [exact Rr | lia].
  - intros e He Hm Hr. apply (err_rt_at_mono (N.succ d)); [lia | exact (Re e He Hm Hr)].
Qed.

(* arrays of messages: the text is an array whatever the flag says when there is not exactly one *)
Lemma enc_msgs_array batch ms : (batch = true \/ length ms <> 1%nat) ->
  enc_msgs batch ms = match enc_all ms with Some bl => Some (arr_text bl) | None => None end.
Proof.
  intros H. rewrite enc_msgs_shape. destruct ms as [|m [|m2 ms2]]; try reflexivity.
  destruct batch; [reflexivity|]. destruct H as [H|H]; [discriminate H | exfalso; apply H; reflexivity].
Qed.

(* batches (server batch replies, client batches), null ids and null params included: every member
   parses back, in order.  The record is an array when the batch flag is set AND when it is not but
   the number of members is not one (jmessages.toJSON: len(j) == 1 && !j[0].batch). *)
Theorem parse_back_batch' : forall batch ms b, (batch = true \/ length ms <> 1%nat) ->
  Forall (msg_rt_at' 1) ms -> enc_msgs batch ms = Some b ->
  parse_msgs b = InMsgs true (map (fun m => canon (norm m)) ms) /\
  parse_requests b = Parsed (map (fun m => to_parsed (canon (norm m))) ms).
Proof.
  intros batch ms b Hflag HF Henc.
  rewrite (enc_msgs_array batch ms Hflag) in Henc. clear Hflag. destruct (enc_all ms) as [bl|] eqn:E; [|discriminate]. apply some_eq in Henc. subst b.
  pose proof (enc_all_spec _ _ E) as H2.
  assert (Ht : forall v, In v bl -> tight_at 1 v = true).
  { clear E. induction H2 as [|m b ms' bl' Hb _ IH]; intros v Hin; [contradiction|].
    inversion HF as [|? ? Hm HF']; subst. destruct Hin as [<-|Hin]; [|exact (IH HF' v Hin)].
    exact (enc_tight' 1 m b depth_le_3 Hm Hb). }
  assert (Hmap : map parse_member bl = map (fun m => canon (norm m)) ms).
  { clear E Ht. induction H2 as [|m b ms' bl' Hb _ IH]; [reflexivity|].
    inversion HF as [|? ? Hm HF']; subst. cbn [map]. rewrite (IH HF').
    assert (Hm0 : msg_rt' m) by (apply (msg_rt_at'_mono 1); [lia | exact Hm]).
    rewrite (parse_back_member' m b Hm0 Hb). reflexivity. }
  assert (Hp : parse_msgs (arr_text bl) = InMsgs true (map (fun m => canon (norm m)) ms)).
  { unfold parse_msgs, split_msgs. rewrite first_byte_arr. cbn [N.eqb Pos.eqb negb].
    rewrite (elements_spec bl Ht), Hmap. reflexivity. }
  split; [exact Hp|]. unfold parse_requests. rewrite Hp, map_map. reflexivity.
Qed.

(* non-vacuity: the reply to a member without a usable id, and a request with null params *)
Definition null_params_req : jmsg :=
  {| j_id := [49]; j_method := [109]; j_params := null_bytes; j_error := None; j_result := []; j_err := None |}.

Lemma null_id_reply_rt d : msg_rt_at' d null_id_reply.
Proof.
  constructor; try (left; reflexivity); try reflexivity.
  - right; left; reflexivity.
  - intros e He _ _. injection He as <-. split; [unfold int32_ok; cbn; split; discriminate | left; reflexivity].
Qed.

Lemma null_params_req_rt d : msg_rt_at' d null_params_req.
Proof.
  constructor; try (left; reflexivity); try reflexivity.
  - right; right; reflexivity.
  - right; left; reflexivity.
  - intros e He. discriminate He.
Qed.

Example parse_back'_nonvacuous :
  msg_rt' null_id_reply /\ ~ msg_rt null_id_reply /\ msg_rt' null_params_req /\ ~ msg_rt null_params_req /\
  (exists b, enc_msg null_id_reply = Some b /\ j_id (parse_member b) = null_bytes /\ pr_id (to_parsed (parse_member b)) = []) /\
  (exists b, enc_msg null_params_req = Some b /\ j_params (parse_member b) = [] /\ j_method (parse_member b) = [109]).
Proof.
  split; [apply null_id_reply_rt|]. split.
  { intros [_ [H|H] _ _ _]; [discriminate H | vm_compute in H; discriminate H]. }
  split; [apply null_params_req_rt|]. split.
  { intros [_ _ [H|(_ & _ & H)] _ _]; [discriminate H | vm_compute in H; discriminate H]. }
  split; eexists; (split; [vm_compute; reflexivity|]); split; vm_compute; reflexivity.
Qed.

Example parse_back_batch'_nonvacuous :
  Forall (msg_rt_at' 1) [null_id_reply; null_params_req] /\
  exists b, enc_msgs false [null_id_reply; null_params_req] = Some b /\
            parse_msgs b = InMsgs true [canon (norm null_id_reply); canon (norm null_params_req)].
Proof.
  split; [constructor; [apply null_id_reply_rt | constructor; [apply null_params_req_rt | constructor]]|].
  eexists. split; [vm_compute; reflexivity|]. vm_compute. reflexivity.
Qed.

(* ------------------------------------------------------------------------- *)
(* Part B: null params, the batch flag, valid JSON, the ids that can be echoed *)

(* B.1: a client whose params value marshals to null writes "params":null (marshalParams lets
   null through); the member parser reads it as no params at all *)
Theorem params_null_is_absent : forall m b, msg_rt' m -> j_method m <> [] -> j_params m = null_bytes -> enc_msg m = Some b ->
  (exists pre, b = pre ++ s_params ++ null_bytes ++ [125]) /\
  parse_member b = canon (set_params [] m) /\ j_params (parse_member b) = [] /\
  parse_msgs b = InMsgs false [canon (set_params [] m)].
Proof.
  intros m b Hrt Hm Hp Henc. destruct (parse_back' m b Hrt Henc) as (A & B & _ & _ & _ & F).
  assert (Hn : norm m = set_params [] m) by (unfold norm; rewrite Hp; reflexivity).
  rewrite Hn in A, B. split; [|split; [exact A | split; [exact (F Hp) | exact B]]].
  unfold enc_msg, enc_msg_gen in Henc. destruct (beq_spec (j_method m) []) as [E|_]; [contradiction|]. cbn [negb] in Henc.
  rewrite Hp in Henc. change (beq null_bytes []) with false in Henc. cbv iota in Henc. apply some_eq in Henc. subst b.
  exists ((s_head ++ (if beq (j_id m) [] then [] else s_id ++ j_id m)) ++ s_method ++ escape_string (j_method m)).
  rewrite <- !app_assoc. reflexivity.
Qed.

Example params_null_is_absent_nonvacuous :
  msg_rt' null_params_req /\ j_method null_params_req <> [] /\ j_params null_params_req = null_bytes /\
  exists b, enc_msg null_params_req = Some b.
Proof. split; [apply null_params_req_rt|]. split; [discriminate|]. split; [reflexivity|]. eexists; vm_compute; reflexivity. Qed.

(* B.2: client batches have the flag unset: with zero or several members the record is an array
   all the same *)
Theorem parse_back_batch_flag : forall ms b, length ms <> 1%nat ->
  Forall (msg_rt_at' 1) ms -> enc_msgs false ms = Some b ->
  enc_msgs true ms = Some b /\
  parse_msgs b = InMsgs true (map (fun m => canon (norm m)) ms) /\
  parse_requests b = Parsed (map (fun m => to_parsed (canon (norm m))) ms).
Proof.
  intros ms b Hl HF Henc. split; [|exact (parse_back_batch' false ms b (or_intror Hl) HF Henc)].
  rewrite (enc_msgs_array true ms (or_introl eq_refl)). rewrite (enc_msgs_array false ms (or_intror Hl)) in Henc. exact Henc.
Qed.

Example parse_back_batch_flag_nonvacuous :
  length [null_id_reply; null_params_req] <> 1%nat /\ Forall (msg_rt_at' 1) [null_id_reply; null_params_req] /\
  (exists b, enc_msgs false [null_id_reply; null_params_req] = Some b) /\
  (exists b, enc_msgs false [] = Some b /\ parse_msgs b = InMsgs true []).
Proof.
  split; [discriminate|]. split; [exact (proj1 parse_back_batch'_nonvacuous)|].
  split; [eexists; vm_compute; reflexivity|]. eexists. split; [vm_compute; reflexivity|]. vm_compute. reflexivity.
Qed.

(* B.3: valid JSON, explicitly *)
Lemma arr_valid bl : (forall v, In v bl -> tight_at 1 v = true) -> valid (arr_text bl) = true.
Proof. intros H. apply tight_valid. apply arr_tight; [exact depth_le_1 | exact H]. Qed.

Theorem valid_json_msg : forall m b, msg_rt' m -> enc_msg m = Some b -> valid b = true.
Proof. intros m b Hrt Henc. exact (tight_valid _ (enc_tight' 0 m b depth_le_2 Hrt Henc)). Qed.

Theorem valid_json_msgs : forall batch ms b, Forall (msg_rt_at' 1) ms -> enc_msgs batch ms = Some b -> valid b = true.
Proof.
  intros batch ms b HF Henc.
  assert (Harr : forall b, match enc_all ms with Some bl => Some (arr_text bl) | None => None end = Some b -> valid b = true).
  { intros b0 H0. destruct (enc_all ms) as [bl|] eqn:E; [|discriminate]. apply some_eq in H0. subst b0.
    pose proof (enc_all_spec _ _ E) as H2. apply arr_valid. clear E Henc.
    induction H2 as [|m b1 ms' bl' Hb _ IH]; intros v Hin; [contradiction|].
    inversion HF as [|? ? Hm HF']; subst. destruct Hin as [<-|Hin]; [|exact (IH HF' v Hin)].
    exact (enc_tight' 1 m b1 depth_le_3 Hm Hb). }
  rewrite enc_msgs_shape in Henc. destruct ms as [|m [|m2 ms2]]; try exact (Harr b Henc).
  destruct batch; [exact (Harr b Henc)|]. inversion HF as [|? ? Hm _]; subst.
  exact (valid_json_msg m b (msg_rt_at'_mono 1 0 m ltac:(lia) Hm) Henc).
Qed.

(* ... and on the single-line domain msg_ok', under the nesting bound: what json.Marshal returned
   (a compacted text) is one tight value; it is valid where it sits when its nesting depth leaves
   room for the envelope (encoding/json's limit of 10000 counts the envelope) *)
Definition nest_ok (d : N) (m : jmsg) : Prop :=
  nest (j_params m) + N.succ d <= max_depth /\ nest (j_result m) + N.succ d <= max_depth /\
  (forall e q, j_error m = Some e -> compact (we_data e) = Some q -> nest q + N.succ (N.succ d) <= max_depth).

Lemma marshalled_tight d p : marshalled p -> nest p + d <= max_depth -> tight_at d p = true.
Proof. intros [[p0 H] _] Hn. exact (tight_shift p d (compact_tight _ _ H) Hn). Qed.

Lemma marshal_error_tight d e b : N.succ d <= max_depth ->
  (we_data e = [] \/ exists q, compact (we_data e) = Some q /\ tight_at (N.succ d) q = true) ->
  marshal_error e = Some b -> tight_at d b = true.
Proof.
  intros Hd Hdat Hm.
  destruct (marshal_error_text e b Hm) as (q & Hq & Hb).
  assert (Hcq : exists cq, beq (we_data e) [] = false -> PV (N.succ d) q cq []).
  { destruct (beq (we_data e) []) eqn:Ed; [exists CNull; discriminate|].
    destruct Hdat as [Hdat|(q' & Hq' & Ht)]; [rewrite Hdat in Ed; discriminate Ed|].
    rewrite (Hq eq_refl) in Hq'. injection Hq' as <-. destruct (tight_PV _ _ Ht) as [cq Hcq]. exists cq. intros _. exact Hcq. }
  destruct Hcq as [cq Hcq]. specialize (Hb cq).
  assert (HF : Forall (item_ok (N.succ d)) (err_items e q cq)).
  { unfold err_items. apply Forall_app. split; [|apply Forall_app; split].
    - constructor; [|constructor]. split; [reflexivity | apply z_dec_PV].
    - destruct (beq (we_msg e) []); constructor; [|constructor]. split; [reflexivity|].
      pose proof (escape_string_PV (we_msg e) (N.succ d) []) as H. rewrite app_nil_r in H. exact H.
    - destruct (beq (we_data e) []) eqn:Ed; constructor; [|constructor]. split; [reflexivity | exact (Hcq eq_refl)]. }
  assert (Hne : err_items e q cq <> []) by (unfold err_items; discriminate).
  pose proof (obj_PV d _ [] Hne Hd HF) as Hpv. rewrite app_nil_r, <- Hb in Hpv. exact (PV_tight _ _ _ Hpv).
Qed.

Lemma enc_error_tight d e eb : N.succ d <= max_depth ->
  (forall q, compact (we_data e) = Some q -> nest q + N.succ d <= max_depth) ->
  enc_error e = Some eb -> tight_at d eb = true.
Proof.
  intros Hd Hn He. destruct (marshal_error e) as [b|] eqn:Em.
  - rewrite (enc_error_marshal e b Em) in He. apply some_eq in He. subst eb.
    apply (marshal_error_tight d e b Hd); [|exact Em].
    destruct (beq_spec (we_data e) []) as [E|E]; [left; exact E|]. right.
    unfold marshal_error in Em. destruct (beq_spec (we_data e) []) as [E'|_]; [contradiction|].
    destruct (compact (we_data e)) as [q|] eqn:Ec; [|discriminate]. exists q. split; [reflexivity|].
    exact (tight_shift q _ (compact_tight _ _ Ec) (Hn q eq_refl)).
  - rewrite (enc_error_fallback e Em) in He. apply (marshal_error_tight d (drop_data e) eb Hd); [left; reflexivity | exact He].
Qed.

Lemma ok_fields_tight d m eb : N.succ (N.succ d) <= max_depth -> msg_ok' m -> nest_ok d m ->
  (forall e, j_error m = Some e -> negb (beq (j_method m) []) = false -> negb (beq (j_result m) []) = false -> enc_error e = Some eb) ->
  forall kv, In kv (msg_fields m eb) -> plain_key (fst kv) = true /\ tight_at (N.succ d) (snd kv) = true.
Proof.
  intros Hd [Om Oi Op Or Oe] (Np & Nr & Ne) He kv. unfold msg_fields.
  assert (Hi : beq (j_id m) [] = false -> tight_at (N.succ d) (j_id m) = true).
  { intros Hb. destruct Oi as [Oi|[Oi|[Oi _]]]; [rewrite Oi in Hb; discriminate | rewrite Oi; apply null_tight | exact (lit_tight _ _ Oi)]. }
  assert (Hp : beq (j_params m) [] = false -> tight_at (N.succ d) (j_params m) = true).
  { intros Hb. destruct Op as [Op|Op]; [rewrite Op in Hb; discriminate | exact (marshalled_tight _ _ Op Np)]. }
  assert (Hr : negb (beq (j_result m) []) = true -> tight_at (N.succ d) (j_result m) = true).
  { intros Hb. destruct Or as [Or|Or]; [rewrite Or in Hb; discriminate | exact (marshalled_tight _ _ Or Nr)]. }
  assert (Hee : forall e, j_error m = Some e -> negb (beq (j_method m) []) = false -> negb (beq (j_result m) []) = false ->
                 tight_at (N.succ d) eb = true).
  { intros e Ee Em Er. apply (enc_error_tight (N.succ d) e eb Hd); [|exact (He e Ee Em Er)]. intros q Hq. exact (Ne e q Ee Hq). }
  destruct (beq (j_id m) []) eqn:Ei; destruct (negb (beq (j_method m) [])) eqn:Em;
    try destruct (beq (j_params m) []) eqn:Ep; try destruct (negb (beq (j_result m) [])) eqn:Er;
    try destruct (j_error m) as [e|] eqn:Ee; cbn [app In];
    intros H; repeat (destruct H as [<-|H]); try contradiction; cbn [fst snd]; split; try reflexivity;
    try (apply Hi; reflexivity); try (apply Hp; reflexivity); try (apply Hr; reflexivity);
    try (apply (proj2 (unmarshal_string_escape _))); try (apply (Hee e eq_refl eq_refl eq_refl)).
  all: exact (lit_tight _ _ eq_refl).
Qed.

Lemma ok_enc_tight d m b : N.succ (N.succ d) <= max_depth -> msg_ok' m -> nest_ok d m -> enc_msg m = Some b -> tight_at d b = true.
Proof.
  intros Hd Hok Hn Henc. destruct (enc_msg_fields _ _ Henc) as (eb & -> & He).
  apply obj_tight_spec; [apply msg_fields_ne' | lia | exact (ok_fields_tight d m eb Hd Hok Hn He)].
Qed.

Theorem valid_json_ok : forall batch ms, Forall msg_ok' ms -> Forall (nest_ok 1) ms ->
  exists b, enc_msgs batch ms = Some b /\ valid b = true /\ (forall c, In c b -> 32 <= c) /\ valid_utf8 b = true.
Proof.
  intros batch ms Hok Hn. destruct (single_line_msgs' batch ms Hok) as (b & Henc & Hl & Hu). exists b.
  split; [exact Henc|]. split; [|split; assumption].
  assert (Harr : forall b, match enc_all ms with Some bl => Some (arr_text bl) | None => None end = Some b -> valid b = true).
  { intros b0 H0. destruct (enc_all ms) as [bl|] eqn:E; [|discriminate]. apply some_eq in H0. subst b0.
    pose proof (enc_all_spec _ _ E) as H2. apply arr_valid. clear E Henc.
    induction H2 as [|m b1 ms' bl' Hb _ IH]; intros v Hin; [contradiction|].
    inversion Hok as [|? ? Hm Hok']; subst. inversion Hn as [|? ? Hnm Hn']; subst.
    destruct Hin as [<-|Hin]; [|exact (IH Hok' Hn' v Hin)].
    exact (ok_enc_tight 1 m b1 depth_le_3 Hm Hnm Hb). }
  rewrite enc_msgs_shape in Henc. destruct ms as [|m [|m2 ms2]]; try exact (Harr b Henc).
  destruct batch; [exact (Harr b Henc)|]. inversion Hok as [|? ? Hm _]; subst. inversion Hn as [|? ? (N1 & N2 & N3) _]; subst.
  apply tight_valid. apply (ok_enc_tight 0 m b depth_le_2 Hm); [|exact Henc].
  split; [lia|]. split; [lia|]. intros e q He Hq. specialize (N3 e q He Hq). lia.
Qed.

Example valid_json_ok_nonvacuous :
  Forall msg_ok' [null_id_reply; good_rsp] /\ Forall (nest_ok 1) [null_id_reply; good_rsp].
Proof.
  split; [constructor; [exact (proj1 single_line_msgs'_nonvacuous) | constructor; [|constructor]]|].
  - constructor; try (left; reflexivity); try reflexivity.
    + right; right; split; reflexivity.
    + right. split; [exists [116; 114; 117; 101]; vm_compute; reflexivity | reflexivity].
    + intros e He; discriminate He.
  - constructor; [|constructor; [|constructor]]; (split; [vm_compute; discriminate|]; split; [vm_compute; discriminate|]);
      intros e q He Hq; cbn in He; try discriminate He. injection He as <-. vm_compute in Hq. discriminate Hq.
Qed.

(* B.4: every id the member parser accepts - hence every id a server can echo - is null, a string
   literal or a number literal: rt'_id covers them all *)
Lemma last_wins_in l kv : In kv (last_wins l) -> In kv l.
Proof.
  induction l as [|[k v] r IH]; cbn [last_wins]; [auto|].
  destruct (existsb (fun p => beq (fst p) k) r); intros H; [right; exact (IH H)|].
  destruct H as [H|H]; [left; exact H | right; exact (IH H)].
Qed.

Lemma raw_members_trees data ms : raw_members data = Some ms ->
  forall kv, In kv ms -> exists c, snd kv = ctext c [] /\ cwf 1 c = true.
Proof.
  unfold raw_members. destruct (parse_doc data) as [[[w c] w1]|] eqn:E; [|discriminate].
  pose proof (parse_doc_wf _ _ _ _ E) as Hwf.
  destruct c; try discriminate; intros H; injection H as <-; [intros kv []|].
  rewrite cwf_obj in Hwf. apply andb_true_iff in Hwf as [_ Hms]. rewrite forallb_forall in Hms.
  intros kv Hin. apply in_map_iff in Hin as (m & <- & Hm). specialize (Hms m Hm). unfold mem_wf in Hms.
  apply andb_true_iff in Hms as [Hms _]. apply andb_true_iff in Hms as [_ H5].
  exists (snd (fst (snd m))). split; [reflexivity | exact H5].
Qed.

Lemma valid_id_tree c d : cwf d c = true -> is_valid_id (ctext c []) = true ->
  ctext c [] = null_bytes \/ is_str_lit (ctext c []) = true \/ is_num_lit (ctext c []) = true.
Proof.
  intros Hwf Hv. destruct c; unfold ctext in *; cbn [cprint] in *.
  - left. reflexivity.
  - vm_compute in Hv. discriminate Hv.
  - vm_compute in Hv. discriminate Hv.
  - right. right. rewrite app_nil_r. exact Hwf.
  - right. left. cbn [cwf] in Hwf. cbn [is_str_lit]. change (34 =? 34) with true. cbn [andb].
    change (body ++ [34]) with (body ++ 34 :: []). apply body_okb_spec in Hwf. rewrite Hwf. reflexivity.
  - cbn [is_valid_id is_null beq null_bytes N.eqb Pos.eqb andb orb is_digit N.leb N.compare Pos.compare Pos.compare_cont] in Hv. discriminate Hv.
  - cbn [is_valid_id is_null beq null_bytes N.eqb Pos.eqb andb orb is_digit N.leb N.compare Pos.compare Pos.compare_cont] in Hv. discriminate Hv.
Qed.

Theorem ids_echoed_are_literals : forall data,
  let i := j_id (parse_member data) in
  i = [] \/ i = null_bytes \/ is_str_lit i = true \/ is_num_lit i = true.
Proof.
  intros data. cbv zeta. unfold parse_member, parse_member_ord.
  destruct (member_fields data) as [fs|] eqn:E; [|left; reflexivity].
  destruct (member_fields_wf _ _ E) as [Hnd Hne].
  rewrite (member_id_echo fs Hnd Hne).
  destruct (lookup k_id fs) as [v|] eqn:El; [|left; reflexivity].
  destruct (is_valid_id v) eqn:Ev; [|left; reflexivity]. right.
  unfold member_fields in E. destruct (raw_members data) as [ms|] eqn:Er; [|discriminate]. injection E as <-.
  destruct (raw_members_trees _ _ Er _ (last_wins_in _ _ (lookup_in _ _ _ El))) as (c & Hc & Hwf). cbn [snd] in Hc. subst v.
  exact (valid_id_tree c 1 Hwf Ev).
Qed.

(* ... so the reply that echoes the id of ANY parsed member is inside the round-trip domain *)
Corollary echoed_id_rt : forall data, j_id (parse_member data) = [] \/ id_rt' (j_id (parse_member data)).
Proof.
  intros data. destruct (ids_echoed_are_literals data) as [H|[H|[H|H]]]; [left; exact H | right; left; exact H | |];
    right; right; rewrite H; rewrite ?orb_true_r; reflexivity.
Qed.

Example ids_echoed_nonvacuous :
  j_id (parse_member [123; 34; 105; 100; 34; 58; 110; 117; 108; 108; 125]) = null_bytes /\
  j_id (parse_member [123; 34; 105; 100; 34; 58; 34; 120; 34; 125]) = [34; 120; 34] /\
  j_id (parse_member [123; 34; 105; 100; 34; 58; 45; 49; 125]) = [45; 49] /\
  j_id (parse_member [123; 34; 105; 100; 34; 58; 116; 114; 117; 101; 125]) = [].
Proof. repeat split; vm_compute; reflexivity. Qed.

(* ------------------------------------------------------------------------- *)
(* Part C: bridge replies.  jhttp marshalError writes the reply to a statically invalid request by
   hand: {"jsonrpc":"2.0","id":<id or null>,"error":<json.Marshal(req.Error)>}.  It is byte for byte
   what jmessage.toJSON writes for the message [bridge_err_msg r e], so everything proved about the
   encoder applies. *)

Definition bridge_err_msg (r : parsed_request) (e : werr) : jmsg :=
  {| j_id := if beq (pr_id r) [] then null_bytes else pr_id r; j_method := []; j_params := [];
     j_error := Some e; j_result := []; j_err := None |}.

Lemma bridge_error_is_enc r e b : pr_error r = Some e -> bridge_marshal_error r = Some b ->
  enc_msg (bridge_err_msg r e) = Some b /\ marshal_error e <> None.
Proof.
  unfold bridge_marshal_error. intros He. rewrite He. destruct (marshal_error e) as [v|] eqn:Em; [|discriminate].
  intros H. apply some_eq in H. subst b. split; [|discriminate].
  unfold enc_msg, enc_msg_gen, bridge_err_msg. cbn [j_id j_method j_params j_error j_result beq negb].
  fold enc_error. rewrite (enc_error_marshal e v Em). change s_bridge_id with (s_head ++ s_id).
  destruct (beq_spec (pr_id r) []) as [E|E].
  - change (beq null_bytes []) with false. cbv iota. rewrite <- !app_assoc. reflexivity.
  - destruct (beq_spec (pr_id r) []) as [E'|_]; [contradiction|]. rewrite <- !app_assoc. reflexivity.
Qed.

Lemma bridge_err_msg_rt d r e : (pr_id r = [] \/ id_rt' (pr_id r)) -> err_rt_at (N.succ d) e -> msg_rt_at' d (bridge_err_msg r e).
Proof.
  intros Hi He. constructor; try (left; reflexivity); try reflexivity.
  - right. cbn [bridge_err_msg j_id]. destruct Hi as [->|Hi]; [left; reflexivity|].
    destruct (beq (pr_id r) []); [left; reflexivity | exact Hi].
  - intros e0 H0 _ _. injection H0 as <-. exact He.
Qed.

Theorem bridge_error_reply : forall r e b,
  pr_error r = Some e -> (pr_id r = [] \/ id_rt' (pr_id r)) -> err_rt_at 1 e -> bridge_marshal_error r = Some b ->
  valid b = true /\
  parse_member b = canon (bridge_err_msg r e) /\ parse_msgs b = InMsgs false [canon (bridge_err_msg r e)] /\
  j_id (parse_member b) = (if beq (pr_id r) [] then null_bytes else pr_id r) /\
  j_error (parse_member b) = j_error (canon (bridge_err_msg r e)) /\
  (valid_utf8 (pr_id r) = true -> err_sendable e -> (forall c, In c b -> 32 <= c) /\ valid_utf8 b = true).
Proof.
  intros r e b Hpe Hi He Hb. destruct (bridge_error_is_enc r e b Hpe Hb) as [Henc _].
  pose proof (bridge_err_msg_rt 0 r e Hi He) as Hrt.
  destruct (parse_back' _ _ Hrt Henc) as (A & B & _ & D & _).
  assert (Hn : norm (bridge_err_msg r e) = bridge_err_msg r e) by reflexivity. rewrite Hn in A, B.
  split; [exact (valid_json_msg _ _ Hrt Henc)|]. split; [exact A|]. split; [exact B|]. split; [exact D|].
  split; [rewrite A; reflexivity|]. intros Hu Hs.
  assert (Hok : msg_ok' (bridge_err_msg r e)).
  { constructor; try (left; reflexivity); try reflexivity.
    - right. cbn [bridge_err_msg j_id]. destruct Hi as [Hi|Hi]; [rewrite Hi; left; reflexivity|].
      destruct (beq (pr_id r) []); [left; reflexivity|]. destruct Hi as [Hi|Hi]; [left; exact Hi | right; split; assumption].
    - intros e0 H0. injection H0 as <-. exact Hs. }
  destruct (enc_msg_safe' _ Hok) as (b' & Eb & Sb). rewrite Henc in Eb. apply some_eq in Eb. subst b'.
  apply line_safe_spec. exact Sb.
Qed.

(* the errors ParseRequests attaches to a member: a constant without data, or "extra fields" with
   the list of the keys *)
Lemma key_defect_nodata kv e : key_defect kv = Some e -> we_data e = [] /\ int32_ok (we_code e).
Proof.
  unfold key_defect. destruct kv as [k v]. intros H. break H; injection H as <-; split; try reflexivity; unfold int32_ok; cbn; split; discriminate.
Qed.

Lemma allowed_shape data e : In e (allowed_errs data) ->
  int32_ok (we_code e) /\ (we_data e = [] \/ exists ks, e = e_extra ks).
Proof.
  unfold allowed_errs. destruct (member_fields data) as [fs|].
  - unfold allowed_errs_fields. destruct (key_defects fs) as [|d0 ds] eqn:Ed.
    + intros H. break H; try contradiction; destruct H as [<-|[]];
        try (split; [unfold int32_ok; cbn; split; discriminate | left; reflexivity]).
      split; [unfold int32_ok; cbn; split; discriminate|]. right. eexists; reflexivity.
    + rewrite <- Ed. intros H. destruct (key_defects_in _ _ H) as (kv & _ & Hk).
      destruct (key_defect_nodata _ _ Hk) as [A B]. split; [exact B | left; exact A].
  - intros [<-|[]]. split; [unfold int32_ok; cbn; split; discriminate | left; reflexivity].
Qed.

Lemma marshal_strings_tight d ks : N.succ d <= max_depth -> tight_at d (marshal_strings ks) = true.
Proof.
  intros Hd. change (marshal_strings ks) with (arr_text (map escape_string ks)). apply arr_tight; [exact Hd|].
  intros v Hin. apply in_map_iff in Hin as (k & <- & _). exact (proj2 (unmarshal_string_escape k) _).
Qed.

Lemma parser_err_rt data e : In e (allowed_errs data) -> err_rt_at 1 e.
Proof.
  intros H. destruct (allowed_shape _ _ H) as [Hc [Hd|[ks ->]]]; split; try exact Hc; [left; exact Hd|].
  right. cbn [e_extra we_data]. apply compact_tight_at. apply marshal_strings_tight. vm_compute. discriminate.
Qed.

(* the reply the bridge writes for ANY member ParseRequests flags: produced, valid JSON, parses back
   under the library's own parser to the member's id (null when it has none that can be echoed) and
   the error; on one line and valid UTF-8 when the id is and the error carries no data *)
Theorem bridge_error_reply_parsed : forall data rs r e,
  parse_requests data = Parsed rs -> In r rs -> pr_error r = Some e ->
  exists b, bridge_marshal_error r = Some b /\ valid b = true /\
    parse_member b = canon (bridge_err_msg r e) /\ parse_msgs b = InMsgs false [canon (bridge_err_msg r e)] /\
    j_id (parse_member b) = (if beq (pr_id r) [] then null_bytes else pr_id r) /\
    (valid_utf8 (pr_id r) = true -> we_data e = [] -> (forall c, In c b -> 32 <= c) /\ valid_utf8 b = true).
Proof.
  intros data rs r e Hp Hin Hpe.
  unfold parse_requests in Hp. destruct (parse_msgs data) as [|batch ms] eqn:Epm; [discriminate|]. injection Hp as <-.
  unfold parse_msgs in Epm. destruct (split_msgs data) as [[bt raws]|] eqn:Es; [|discriminate]. injection Epm as _ <-.
  rewrite map_map in Hin. apply in_map_iff in Hin as (raw & <- & Hraw).
  destruct (flags_agree _ _ _ Es) as (_ & _ & Hfl). destruct (Hfl raw Hraw) as (_ & Hal). destruct (Hal e Hpe) as [Hall _].
  pose proof (parser_err_rt _ _ Hall) as Hert.
  assert (Hid : pr_id (to_parsed (parse_member raw)) = [] \/ id_rt' (pr_id (to_parsed (parse_member raw)))).
  { cbn [to_parsed pr_id]. unfold fix_id. destruct (is_null (j_id (parse_member raw))) eqn:En; [left; reflexivity|].
    destruct (echoed_id_rt raw) as [H|H]; [left; exact H | right; exact H]. }
  assert (Hm : exists v, marshal_error e = Some v).
  { destruct (marshal_error e) as [v|] eqn:Em; [eexists; reflexivity|]. exfalso. apply marshal_error_none in Em as [Hne Hc].
    destruct Hert as [_ [Hd|(q & Hq & _)]]; [contradiction | rewrite Hq in Hc; discriminate]. }
  destruct Hm as [v Hv].
  assert (Hb : exists b, bridge_marshal_error (to_parsed (parse_member raw)) = Some b).
  { unfold bridge_marshal_error. rewrite Hpe, Hv. eexists; reflexivity. }
  destruct Hb as [b Hb]. exists b. split; [exact Hb|].
  destruct (bridge_error_reply _ e b Hpe Hid Hert Hb) as (A & B & C & D & _ & F).
  split; [exact A|]. split; [exact B|]. split; [exact C|]. split; [exact D|].
  intros Hu Hd. apply F; [exact Hu | left; exact Hd].
Qed.

Example bridge_error_reply_nonvacuous :
  exists rs r e, parse_requests [91; 49; 93] = Parsed rs /\ In r rs /\ pr_error r = Some e /\ pr_id r = [] /\
    exists b, bridge_marshal_error r = Some b /\ has_prefix (s_head ++ s_id ++ null_bytes ++ s_error) b = true.
Proof.
  eexists. eexists. eexists. split; [vm_compute; reflexivity|]. split; [left; reflexivity|].
  split; [reflexivity|]. split; [reflexivity|]. eexists. split; vm_compute; reflexivity.
Qed.

(* ------------------------------------------------------------------------- *)
(* Part D: one entry per batch member, tied to the JSON value *)

Lemma tree_parse d c : cwf d c = true -> parse (ctext c []) = Some (cst_json c).
Proof.
  intros Hwf. pose proof (ctext_PV d c [] Hwf I) as Hpv.
  unfold parse. rewrite (parse_doc_PV _ _ (PV_depth _ 0 _ _ _ Hpv (N.le_0_l d))). reflexivity.
Qed.

Theorem member_correspondence : forall s xs, parse s = Some (JArr xs) ->
  exists raws, split_msgs s = Some (true, raws) /\ Forall2 (fun r x => parse r = Some x) raws xs.
Proof.
  intros s xs H. unfold parse in H. destruct (parse_doc s) as [[[w c] w1]|] eqn:E; [|discriminate].
  injection H as H. destruct c; try discriminate H. cbn [cst_json] in H. injection H as <-.
  pose proof (proj2 (parse_doc_first_byte _ _ _ _ E) (ex_intro _ w0 (ex_intro _ es eq_refl))) as Hfb.
  pose proof (parse_doc_wf _ _ _ _ E) as Hwf. rewrite cwf_arr in Hwf. apply andb_true_iff in Hwf as [_ Hes].
  exists (map (fun e : bytes * cst * bytes => ctext (snd (fst e)) []) es). split.
  - unfold split_msgs, raw_elements. rewrite Hfb, E. reflexivity.
  - clear E Hfb. induction es as [|e es IH]; [constructor|]. cbn [forallb map] in *. apply andb_true_iff in Hes as [He Hes].
    constructor; [|exact (IH Hes)]. unfold elem_wf in He. apply andb_true_iff in He as [He _]. apply andb_true_iff in He as [_ Hc].
    exact (tree_parse 1 _ Hc).
Qed.

Theorem member_correspondence_single : forall s x, parse s = Some x -> (forall xs, x <> JArr xs) ->
  exists raw, split_msgs s = Some (false, [raw]) /\ parse raw = Some x.
Proof.
  intros s x H Hx. unfold parse in H. destruct (parse_doc s) as [[[w c] w1]|] eqn:E; [|discriminate]. injection H as <-.
  assert (Hfb : first_byte s <> 91).
  { intros Hf. apply (parse_doc_first_byte _ _ _ _ E) in Hf as (w' & es & ->). exact (Hx _ eq_refl). }
  exists (ctext c []). split.
  - unfold split_msgs, raw_value. apply N.eqb_neq in Hfb. rewrite Hfb, E. reflexivity.
  - exact (tree_parse 0 c (parse_doc_wf _ _ _ _ E)).
Qed.

Example member_correspondence_nonvacuous :
  parse [32; 91; 49; 44; 32; 123; 125; 32; 93; 10] = Some (JArr [JNum [49]; JObj []]) /\
  split_msgs [32; 91; 49; 44; 32; 123; 125; 32; 93; 10] = Some (true, [[49]; [123; 125]]).
Proof. split; vm_compute; reflexivity. Qed.

(* ------------------------------------------------------------------------- *)
(* Part E: JSON-equality.  json.Marshal(RawMessage) = compaction keeps the abstract value
   (JsonEq.compact_parse), so the error data that arrive denote the value that was sent; params and
   results are already what json.Marshal returned and arrive byte for byte (parse_back'). *)

Theorem error_data_json_equal : forall m b e, msg_rt' m -> enc_msg m = Some b ->
  j_error m = Some e -> j_method m = [] -> j_result m = [] ->
  exists e', j_error (parse_member b) = Some e' /\ we_code e' = we_code e /\
             (valid_utf8 (we_msg e) = true -> we_msg e' = we_msg e) /\
             (we_data e = [] -> we_data e' = []) /\
             (we_data e <> [] -> we_data e' <> [] /\ parse (we_data e') = parse (we_data e) /\ parse (we_data e) <> None).
Proof.
  intros m b e Hrt Henc He Hm Hr. destruct (parse_back' m b Hrt Henc) as (A & _).
  assert (Hc : canon (norm m) = canon m) by (apply canon_norm_other; rewrite Hm; reflexivity).
  rewrite Hc in A. rewrite A. unfold canon. rewrite Hm, Hr, He. cbn [beq negb j_error].
  eexists. split; [reflexivity|]. cbn [we_code we_msg we_data]. split; [reflexivity|]. split.
  { intros Hv. rewrite Hv. reflexivity. }
  split.
  { intros Hd. rewrite Hd. destruct (compact []); reflexivity. }
  intros Hd. destruct (rt'_error _ _ Hrt e He Hm Hr) as [_ [Hd0|(q & Hq & Ht)]]; [contradiction|].
  rewrite Hq. destruct (beq_spec (we_data e) []) as [E|_]; [contradiction|].
  split.
  { intros ->. vm_compute in Ht. discriminate Ht. }
  pose proof (compact_parse _ _ Hq) as Hp. split; [exact Hp|]. rewrite <- Hp.
  unfold parse. destruct (tight_PV _ _ Ht) as [c Hc']. rewrite (parse_doc_PV _ _ (PV_depth _ 0 _ _ _ Hc' (N.le_0_l _))). discriminate.
Qed.

Definition ws_data_rsp : jmsg :=
  {| j_id := [49]; j_method := []; j_params := []; j_result := []; j_err := None;
     j_error := Some {| we_code := 7%Z; we_msg := [109]; we_data := [32; 91; 34; 60; 34; 44; 32; 49; 93] |} |}.

Example error_data_json_equal_nonvacuous :
  msg_rt' ws_data_rsp /\
  exists b e', enc_msg ws_data_rsp = Some b /\ j_error (parse_member b) = Some e' /\
               we_data e' = [91; 34; 92; 117; 48; 48; 51; 99; 34; 44; 49; 93] /\
               parse (we_data e') = Some (JArr [JStr [60]; JNum [49]]).
Proof.
  split.
  - constructor; try (left; reflexivity); try reflexivity.
    + right; right; reflexivity.
    + intros e He _ _. injection He as <-. split; [unfold int32_ok; cbn; split; discriminate|].
      right. eexists. split; vm_compute; reflexivity.
  - eexists. eexists. split; [vm_compute; reflexivity|]. split; [vm_compute; reflexivity|]. split; vm_compute; reflexivity.
Qed.
