(* Insertion sort on byte strings with Go's bytewise string order. *)
From Coq Require Import List NArith Bool Lia Sorting.Permutation Sorting.Sorted.
From JV Require Import Bytes.
Import ListNotations.

Fixpoint insert (x : bytes) (l : list bytes) : list bytes :=
  match l with
  | [] => [x]
  | y :: l' => if ble x y then x :: l else y :: insert x l'
  end.

Fixpoint sort (l : list bytes) : list bytes :=
  match l with
  | [] => []
  | x :: l' => insert x (sort l')
  end.

Definition ble_rel (a b : bytes) : Prop := ble a b = true.

Lemma insert_perm x l : Permutation (x :: l) (insert x l).
Proof.
  induction l as [|y l IH]; cbn; auto.
  destruct (ble x y); auto.
  eapply perm_trans; [apply perm_swap|]. constructor; auto.
Qed.

Lemma sort_perm l : Permutation l (sort l).
Proof.
  induction l as [|x l IH]; cbn; auto.
  eapply perm_trans; [|apply insert_perm]. constructor; auto.
Qed.

Lemma insert_hdrel a x l : ble_rel a x -> HdRel ble_rel a l -> HdRel ble_rel a (insert x l).
Proof.
  intros Hax H. destruct l as [|y l]; cbn; [constructor; auto|].
  inversion H; subst. destruct (ble x y); constructor; auto.
Qed.

Lemma insert_sorted x l : Sorted ble_rel l -> Sorted ble_rel (insert x l).
Proof.
  induction 1 as [|y l Hs IH Hh]; cbn; [repeat constructor|].
  destruct (ble x y) eqn:E.
  - constructor; [constructor; auto|constructor; exact E].
  - constructor; auto. apply insert_hdrel; auto.
    destruct (ble_total x y) as [H|H]; [congruence|exact H].
Qed.

Lemma sort_sorted l : Sorted ble_rel (sort l).
Proof. induction l as [|x l IH]; cbn; [constructor|apply insert_sorted; auto]. Qed.

Lemma sort_in x l : In x (sort l) <-> In x l.
Proof.
  split; intro H.
  - eapply Permutation_in; [apply Permutation_sym, sort_perm|exact H].
  - eapply Permutation_in; [apply sort_perm|exact H].
Qed.
