(* Bytes: byte strings as lists of N (each element intended to be < 256). *)
From Coq Require Import List NArith Bool Lia.
Import ListNotations.
Local Open Scope N_scope.

Definition byte := N.
Definition bytes := list N.

Fixpoint beq (a b : bytes) : bool :=
  match a, b with
  | [], [] => true
  | x :: a', y :: b' => (x =? y) && beq a' b'
  | _, _ => false
  end.

Lemma beq_spec a b : reflect (a = b) (beq a b).
Proof.
  revert b; induction a as [|x a IH]; intros [|y b]; cbn; try (constructor; congruence).
  destruct (N.eqb_spec x y) as [->|N]; cbn.
  - destruct (IH b) as [->|N]; constructor; congruence.
  - constructor; congruence.
Qed.

Lemma beq_refl a : beq a a = true.
Proof. destruct (beq_spec a a); congruence. Qed.

Lemma beq_eq a b : beq a b = true <-> a = b.
Proof. destruct (beq_spec a b); split; congruence. Qed.

Lemma beq_neq a b : beq a b = false <-> a <> b.
Proof. destruct (beq_spec a b); split; congruence. Qed.

(* bytewise lexicographic order: Go's string comparison *)
Fixpoint ble (a b : bytes) : bool :=
  match a, b with
  | [], _ => true
  | _ :: _, [] => false
  | x :: a', y :: b' => if x <? y then true else if x =? y then ble a' b' else false
  end.

Lemma ble_total a b : ble a b = true \/ ble b a = true.
Proof.
  revert b; induction a as [|x a IH]; intros [|y b]; cbn; auto.
  destruct (N.ltb_spec x y), (N.ltb_spec y x), (N.eqb_spec x y), (N.eqb_spec y x); auto; try lia.
Qed.

Lemma ble_refl a : ble a a = true.
Proof. induction a as [|x a IH]; cbn; auto. rewrite N.ltb_irrefl, N.eqb_refl; auto. Qed.

Lemma ble_trans a b c : ble a b = true -> ble b c = true -> ble a c = true.
Proof.
  revert b c; induction a as [|x a IH]; intros [|y b] [|z c]; cbn; auto; try discriminate.
  destruct (N.ltb_spec x y), (N.ltb_spec y z), (N.ltb_spec x z),
    (N.eqb_spec x y), (N.eqb_spec y z), (N.eqb_spec x z); auto; try lia; try discriminate.
  apply IH.
Qed.

Lemma ble_antisym a b : ble a b = true -> ble b a = true -> a = b.
Proof.
  revert b; induction a as [|x a IH]; intros [|y b]; cbn; auto; try discriminate.
  destruct (N.ltb_spec x y), (N.ltb_spec y x), (N.eqb_spec x y), (N.eqb_spec y x);
    try lia; try discriminate.
  intros; subst; f_equal; auto.
Qed.

Fixpoint has_prefix (p s : bytes) : bool :=
  match p, s with
  | [], _ => true
  | x :: p', y :: s' => (x =? y) && has_prefix p' s'
  | _ :: _, [] => false
  end.

Lemma has_prefix_spec p s : has_prefix p s = true <-> exists r, s = p ++ r.
Proof.
  revert s; induction p as [|x p IH]; intros s; cbn.
  - split; eauto.
  - destruct s as [|y s].
    + split; [discriminate|intros [r H]; discriminate].
    + rewrite andb_true_iff, N.eqb_eq, IH. split.
      * intros [-> [r ->]]; eauto.
      * intros [r H]; inversion H; eauto.
Qed.

(* ASCII helpers *)
Definition ascii_dot : N := 46.
