From Coq Require Import List NArith Bool Lia Sorting.Permutation Sorting.Sorted.
From JV Require Import Bytes Sort Dispatch.
Import ListNotations.
Local Open Scope N_scope.

(** * Map: exact whole-name lookup *)
Lemma map_exact m n : assign (AMap m) n = lookup n m.
Proof. reflexivity. Qed.

Lemma lookup_in {A} k (m : list (bytes * A)) v : lookup k m = Some v -> In (k, v) m.
Proof.
  induction m as [|[k' v'] m IH]; cbn; [discriminate|].
  destruct (beq_spec k k') as [->|N]; [intros [= ->]; auto|auto].
Qed.

Lemma lookup_none {A} k (m : list (bytes * A)) : lookup k m = None <-> ~ In k (map fst m).
Proof.
  induction m as [|[k' v'] m IH]; cbn; [tauto|].
  destruct (beq_spec k k') as [->|N]; [split; [discriminate|intros H; exfalso; auto]|].
  rewrite IH. split; intros H; [intros [E|E]; [congruence|auto]|auto].
Qed.

(** * split_dot: first-dot split *)
Lemma split_dot_some s a b :
  split_dot s = Some (a, b) <-> s = a ++ ascii_dot :: b /\ ~ In ascii_dot a.
Proof.
  revert a b; induction s as [|c r IH]; intros a b; cbn.
  - split; [discriminate|]. intros [H _]. destruct a; discriminate.
  - destruct (N.eqb_spec c ascii_dot) as [->|N].
    + split.
      * intros [= <- <-]; split; auto.
      * intros [H Hn]. destruct a as [|x a]; cbn in H.
        -- inversion H; auto.
        -- inversion H; subst. exfalso; apply Hn; left; auto.
    + destruct (split_dot r) as [[a' b']|] eqn:E.
      * split.
        -- intros [= <- <-]. destruct (proj1 (IH a' b') eq_refl) as [-> Hn].
           split; auto. intros [H|H]; [congruence|auto].
        -- intros [H Hn]. destruct a as [|x a]; cbn in H; inversion H; subst; [congruence|].
           assert (Hx : Some (a', b') = Some (a, b)).
           { apply IH. split; auto. intros Hin; apply Hn; right; auto. }
           injection Hx as -> ->; reflexivity.
      * split; [discriminate|].
        intros [H Hn]. destruct a as [|x a]; cbn in H; inversion H; subst; [congruence|].
        assert (Hx : None = Some (a, b)).
        { apply IH. split; auto. intros Hin; apply Hn; right; auto. }
        discriminate.
Qed.

Lemma split_dot_none s : split_dot s = None <-> ~ In ascii_dot s.
Proof.
  induction s as [|c r IH]; cbn; [tauto|].
  destruct (N.eqb_spec c ascii_dot) as [->|N].
  - split; [discriminate|intros H; exfalso; auto].
  - destruct (split_dot r) as [[a b]|]; split; try discriminate; auto.
    + intros H. exfalso. destruct IH as [_ IH]. assert (None = None :> option (bytes*bytes)) by auto.
      assert (~ In ascii_dot r) by (intros Hin; apply H; right; auto).
      specialize (IH H1). discriminate.
    + intros _ [H|H]; [congruence|]. destruct IH as [IH _]. apply IH; auto.
Qed.

(** * ServiceMap: split at the first dot only *)
Lemma svc_assign_unfold m n :
  assign (ASvc m) n =
  match split_dot n with
  | None => None
  | Some (svc, rest) => match lookup svc m with Some a' => assign a' rest | None => None end
  end.
Proof.
  cbn. destruct (split_dot n) as [[svc rest]|]; auto.
  induction m as [|[k a'] m IH]; cbn; auto.
  destruct (beq svc k); auto.
Qed.

Theorem service_split m n h :
  assign (ASvc m) n = Some h <->
  exists svc rest a', n = svc ++ ascii_dot :: rest /\ ~ In ascii_dot svc /\
                      lookup svc m = Some a' /\ assign a' rest = Some h.
Proof.
  rewrite svc_assign_unfold. split.
  - destruct (split_dot n) as [[svc rest]|] eqn:E; [|discriminate].
    destruct (lookup svc m) as [a'|] eqn:L; [|discriminate].
    intros H. apply split_dot_some in E as [-> Hn]. exists svc, rest, a'; auto.
  - intros (svc & rest & a' & -> & Hn & L & H).
    assert (E : split_dot (svc ++ ascii_dot :: rest) = Some (svc, rest)) by (apply split_dot_some; auto).
    rewrite E, L; auto.
Qed.

Theorem service_no_dot m n : ~ In ascii_dot n -> assign (ASvc m) n = None.
Proof. intros H. rewrite svc_assign_unfold. apply split_dot_none in H. rewrite H; auto. Qed.

Theorem service_unknown m svc rest :
  ~ In ascii_dot svc -> lookup svc m = None -> assign (ASvc m) (svc ++ ascii_dot :: rest) = None.
Proof.
  intros Hn L. rewrite svc_assign_unfold.
  assert (E : split_dot (svc ++ ascii_dot :: rest) = Some (svc, rest)) by (apply split_dot_some; auto).
  rewrite E, L; auto.
Qed.

(** * Names *)
Definition svc_names_raw (m : list (bytes * assigner)) : list bytes :=
  flat_map (fun p => match names (snd p) with
                     | None => [dot_join (fst p) star]
                     | Some ns => map (dot_join (fst p)) ns
                     end) m.

Lemma svc_names_unfold m : names (ASvc m) = Some (sort (svc_names_raw m)).
Proof.
  cbn. do 2 f_equal. unfold svc_names_raw.
  induction m as [|[svc a'] m IH]; cbn; auto. rewrite IH; auto.
Qed.

Theorem names_sorted a ns : names a = Some ns -> Sorted ble_rel ns.
Proof.
  destruct a as [m|m|m]; [cbn; intros [= <-]; apply sort_sorted|discriminate|].
  rewrite svc_names_unfold; intros [= <-]; apply sort_sorted.
Qed.

Theorem names_map_complete m n : In n (map fst m) <-> exists ns, names (AMap m) = Some ns /\ In n ns.
Proof.
  cbn. split.
  - intros H. exists (sort (map fst m)); split; [reflexivity|]. apply (proj2 (sort_in _ _)); exact H.
  - intros (ns & E & H). injection E as <-. apply (proj1 (sort_in _ _)) in H; exact H.
Qed.

(* Every listed name of a service map is "svc.name" for a listed name of the
   service's assigner (or "svc.*" when that assigner has no Names), and conversely. *)
Theorem names_svc_complete m n :
  (exists ns, names (ASvc m) = Some ns /\ In n ns) <->
  exists svc a', In (svc, a') m /\
    match names a' with
    | None => n = dot_join svc star
    | Some ns' => exists n', In n' ns' /\ n = dot_join svc n'
    end.
Proof.
  rewrite svc_names_unfold. split.
  - intros (ns & E & H). injection E as <-. apply (proj1 (sort_in _ _)) in H. unfold svc_names_raw in H.
    apply in_flat_map in H as ([svc a'] & Hin & H). exists svc, a'; split; auto. cbn in H.
    destruct (names a') as [ns'|].
    + apply in_map_iff in H as (n' & <- & H'); eauto.
    + destruct H as [<-|[]]; auto.
  - intros (svc & a' & Hin & H). exists (sort (svc_names_raw m)); split; [reflexivity|]. apply (proj2 (sort_in _ _)).
    unfold svc_names_raw. apply in_flat_map. exists (svc, a'); split; auto. cbn.
    destruct (names a') as [ns'|].
    + destruct H as (n' & H' & ->). apply in_map; auto.
    + subst; left; auto.
Qed.

(* A listed name is assignable to the leaf it names, provided the service key
   contains no dot and is the first entry with that key (always so for a Go map). *)
Theorem names_svc_assignable m svc a' n' h :
  lookup svc m = Some a' -> ~ In ascii_dot svc -> assign a' n' = Some h ->
  assign (ASvc m) (dot_join svc n') = Some h.
Proof.
  intros L Hn H. apply service_split. exists svc, n', a'. unfold dot_join; auto.
Qed.

(** * The reserved-prefix gate *)
Theorem gate_builtin_reserved a n :
  has_prefix rpc_prefix n = true ->
  server_assign true a n = if beq n rpc_server_info then Some TBuiltinInfo else None.
Proof. intros H. unfold server_assign. rewrite H; auto. Qed.

Theorem gate_builtin_other a n :
  has_prefix rpc_prefix n = false -> server_assign true a n = option_map TUser (assign a n).
Proof. intros H. unfold server_assign. rewrite H; auto. Qed.

Theorem gate_disabled a n : server_assign false a n = option_map TUser (assign a n).
Proof. reflexivity. Qed.

(* The gate does not consult the assigner for reserved names: the result is the
   same for every assigner. *)
Theorem gate_ignores_assigner a a' n :
  has_prefix rpc_prefix n = true -> server_assign true a n = server_assign true a' n.
Proof. intros H. rewrite !gate_builtin_reserved; auto. Qed.

(* The prefix is exactly the four bytes "rpc.": case variants, "rpc" alone,
   and names merely containing it are not reserved. *)
Theorem prefix_exact n : has_prefix rpc_prefix n = true <-> exists r, n = [114; 112; 99; 46] ++ r.
Proof. apply has_prefix_spec. Qed.

Theorem context_is_request b a r :
  d_ctx_assigner (dispatch_request b a r) = r /\ d_ctx_handler (dispatch_request b a r) = r /\
  d_target (dispatch_request b a r) = server_assign b a (rq_method r).
Proof. auto. Qed.

(** * Non-vacuity examples *)
Definition b_of (l : list N) : bytes := l.
Example ex_tree : assigner :=
  ASvc [([97], AMap [([120], 1%nat); ([121; 46; 122], 2%nat)]);      (* a -> {x:1, "y.z":2} *)
        ([98], ASvc [([99], AMap [([100], 3%nat)])]);                (* b -> {c -> {d:3}} *)
        ([111], AOpaque [([113], 4%nat)])].                          (* o -> opaque{q:4} *)
Example ex_assign1 : assign ex_tree [97; 46; 121; 46; 122] = Some 2%nat.  (* "a.y.z" *)
Proof. vm_compute; reflexivity. Qed.
Example ex_assign2 : assign ex_tree [98; 46; 99; 46; 100] = Some 3%nat.   (* "b.c.d" *)
Proof. vm_compute; reflexivity. Qed.
Example ex_names : names ex_tree =
  Some [[97;46;120]; [97;46;121;46;122]; [98;46;99;46;100]; [111;46;42]].
Proof. vm_compute; reflexivity. Qed.
Example ex_gate : server_assign true ex_tree [114;112;99;46;120] = None
               /\ server_assign false (AMap [([114;112;99;46;120], 7%nat)]) [114;112;99;46;120] = Some (TUser 7%nat)
               /\ server_assign true (AMap [([82;80;67;46;120], 8%nat)]) [82;80;67;46;120] = Some (TUser 8%nat).
Proof. vm_compute; auto. Qed.
