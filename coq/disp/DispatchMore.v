(* DispatchMore: further lemmas behind C17 - what rpc.serverInfo lists, Names of a
   Map, the LINK between the dispatch model (Dispatch.v) and what the server model
   (srv/SrvModel.v) does when it assigns a method, and the request context as the
   assigner and the handler see it.  New definitions here are specification-level and
   are not extracted; the extracted ones of Dispatch.v are unchanged. *)
From Coq Require Import List NArith ZArith Bool Arith Lia Sorting.Permutation Sorting.Sorted.
From JV Require Import Bytes Sort Msg Dispatch DispatchProofs.
From JV Require SrvModel.
Import ListNotations.

(* ------------------------------------------------------------------------- *)
(** * rpc.serverInfo: the method list                                         *)

Lemma names_none_iff a : names a = None <-> exists m, a = AOpaque m.
Proof.
  destruct a as [m|m|m].
  - cbn. split; [discriminate|intros [m' H]; discriminate].
  - cbn. split; [intros _; eauto|reflexivity].
  - rewrite svc_names_unfold. split; [discriminate|intros [m' H]; discriminate].
Qed.

(* the Methods field of rpc.serverInfo: Names(), sorted, for an assigner that is a
   Namer; ["*"] for one that is not *)
Lemma info_methods_spec a :
  (forall ns, names a = Some ns -> info_methods a = ns /\ Sorted ble_rel ns) /\
  (names a = None -> info_methods a = [star]) /\
  (names a = None <-> exists m, a = AOpaque m).
Proof.
  unfold info_methods. split; [|split].
  - intros ns H. rewrite H. split; [reflexivity|]. apply (names_sorted a ns H).
  - intros H. rewrite H. reflexivity.
  - apply names_none_iff.
Qed.

Example info_methods_nonvacuous :
  info_methods ex_tree = [[97;46;120]; [97;46;121;46;122]; [98;46;99;46;100]; [111;46;42]]%N /\
  info_methods (AOpaque [([113]%N, 4)]) = [star] /\
  info_methods (AMap [([98]%N, 1); ([97]%N, 2)]) = [[97]; [98]]%N.
Proof. vm_compute. repeat split. Qed.

(* ------------------------------------------------------------------------- *)
(** * Names of a Map: every key once                                          *)

(* a Go map has every key once; then Names() is a duplicate-free, sorted permutation
   of the keys (and a permutation of them in any case) *)
Lemma names_map_perm m :
  exists ns, names (AMap m) = Some ns /\ Permutation (map fst m) ns /\ Sorted ble_rel ns /\
             (NoDup (map fst m) -> NoDup ns).
Proof.
  exists (sort (map fst m)). split; [reflexivity|]. split; [apply sort_perm|]. split; [apply sort_sorted|].
  intros H. apply (Permutation_NoDup (sort_perm (map fst m)) H).
Qed.

Lemma names_map_nodup m :
  NoDup (map fst m) ->
  exists ns, names (AMap m) = Some ns /\ NoDup ns /\ Permutation (map fst m) ns /\ Sorted ble_rel ns.
Proof.
  intros H. destruct (names_map_perm m) as (ns & H1 & H2 & H3 & H4). exists ns. auto.
Qed.

Example names_map_nodup_nonvacuous :
  NoDup (map fst [([98]%N, 1); ([97]%N, 2); ([97; 46]%N, 3)]) /\
  names (AMap [([98]%N, 1); ([97]%N, 2); ([97; 46]%N, 3)]) = Some [[97]; [97; 46]; [98]]%N.
Proof.
  split; [|vm_compute; reflexivity].
  repeat constructor; cbn; intuition discriminate.
Qed.

(* ------------------------------------------------------------------------- *)
(** * The link to the server model                                            *)

(* The server model (SrvModel.state) carries the method set of the user's assigner as
   a list of names (c_methods) and the DisableBuiltin setting (c_builtin, negated).
   Its assign_method IS the gate of Dispatch.v applied to the Map with those names
   (the handler identity is irrelevant to the server model: 0 for all). *)
Definition methods_assigner (ms : list bytes) : assigner := AMap (map (fun k => (k, 0)) ms).
Definition is_builtin (t : target) : bool := match t with TBuiltinInfo => true | TUser _ => false end.

Lemma lookup_methods m ms :
  lookup m (map (fun k => (k, 0)) ms) = if SrvModel.mem_bytes m ms then Some 0 else None.
Proof.
  induction ms as [|k ms IH]; [reflexivity|]. cbn [map lookup SrvModel.mem_bytes].
  destruct (beq m k); [reflexivity|exact IH].
Qed.

Lemma assign_method_link s m :
  SrvModel.assign_method s m =
  option_map is_builtin (server_assign (SrvModel.c_builtin s) (methods_assigner (SrvModel.c_methods s)) m).
Proof.
  unfold SrvModel.assign_method, server_assign, methods_assigner.
  change SrvModel.rpc_prefix with rpc_prefix. change SrvModel.rpc_server_info with rpc_server_info.
  destruct (SrvModel.c_builtin s && has_prefix rpc_prefix m).
  - destruct (beq m rpc_server_info); reflexivity.
  - cbn [assign]. rewrite lookup_methods. destruct (SrvModel.mem_bytes m (SrvModel.c_methods s)); reflexivity.
Qed.

(* the model's names are the assigner's Names() *)
Lemma methods_assigner_names ms :
  exists ns, names (methods_assigner ms) = Some ns /\ Permutation ms ns /\ Sorted ble_rel ns.
Proof.
  destruct (names_map_perm (map (fun k => (k, 0)) ms)) as (ns & H1 & H2 & H3 & _).
  exists ns. split; [exact H1|]. split; [|exact H3].
  rewrite map_map in H2. cbn [fst] in H2. rewrite map_id in H2. exact H2.
Qed.

Section MkTask.
  Import SrvModel.

  Lemma is_nil_false_local (b : bytes) : is_nil b = false <-> b <> [].
  Proof. destruct b; cbn; split; congruence. Qed.

  (* A request that passed the pre-checks (no duplicate id, no deferred error, a
     non-empty method): setContext ran (t_hasctx) and the task is what the gate of
     Dispatch.v says for its method - method-not-found when the gate yields no
     target, ready to run (the built-in or a user handler) otherwise. *)
  Lemma mk_task_dispatch s u ids m :
    pre_err s ids m = None -> j_method m <> [] ->
    let t := mk_task s u ids m in
    t_hasctx t = true /\ t_method t = j_method m /\
    match server_assign (c_builtin s) (methods_assigner (c_methods s)) (j_method m) with
    | None => t_pre t = Some err_not_found /\ t_st t = TSkip /\ t_builtin t = false
    | Some tg => t_pre t = None /\ t_st t = TAtAcquire /\ t_builtin t = is_builtin tg
    end.
  Proof.
    intros P Nm. unfold mk_task. rewrite P. apply is_nil_false_local in Nm. rewrite Nm.
    rewrite assign_method_link.
    destruct (server_assign (c_builtin s) (methods_assigner (c_methods s)) (j_method m)) as [tg|];
      cbn; repeat split; reflexivity.
  Qed.

  (* ... spelled out with the gate theorems of C17 *)
  Lemma mk_task_gate s u ids m :
    pre_err s ids m = None -> j_method m <> [] ->
    let t := mk_task s u ids m in
    (* reserved names, built-ins enabled: the user's methods are not consulted *)
    (c_builtin s = true -> has_prefix Dispatch.rpc_prefix (j_method m) = true ->
       (j_method m = Dispatch.rpc_server_info -> t_pre t = None /\ t_builtin t = true /\ t_st t = TAtAcquire) /\
       (j_method m <> Dispatch.rpc_server_info -> t_pre t = Some err_not_found /\ t_st t = TSkip)) /\
    (* any other name, and every name when built-ins are disabled: the assigner decides *)
    (c_builtin s = false \/ has_prefix Dispatch.rpc_prefix (j_method m) = false ->
       (assign (methods_assigner (c_methods s)) (j_method m) = None <-> ~ In (j_method m) (c_methods s)) /\
       (~ In (j_method m) (c_methods s) -> t_pre t = Some err_not_found /\ t_st t = TSkip) /\
       (In (j_method m) (c_methods s) -> t_pre t = None /\ t_builtin t = false /\ t_st t = TAtAcquire)).
  Proof.
    intros P Nm t. destruct (mk_task_dispatch s u ids m P Nm) as (_ & _ & H). fold t in H.
    split.
    - intros B Pf. rewrite B, (gate_builtin_reserved _ _ Pf) in H. split.
      + intros E. rewrite E, beq_refl in H. cbn in H. tauto.
      + intros N. destruct (beq_spec (j_method m) Dispatch.rpc_server_info) as [E|_]; [congruence|]. tauto.
    - intros D.
      assert (G : server_assign (c_builtin s) (methods_assigner (c_methods s)) (j_method m) =
                  option_map TUser (assign (methods_assigner (c_methods s)) (j_method m))).
      { destruct D as [B|Pf]; [rewrite B; apply gate_disabled|].
        destruct (c_builtin s); [apply gate_builtin_other; exact Pf|apply gate_disabled]. }
      rewrite G in H. unfold methods_assigner in H |- *. cbn [assign] in H |- *.
      rewrite lookup_methods in H |- *.
      destruct (mem_bytes (j_method m) (c_methods s)) eqn:M.
      + assert (Hin : In (j_method m) (c_methods s)).
        { clear -M. induction (c_methods s) as [|k l IH]; cbn in M; [discriminate|].
          destruct (beq_spec (j_method m) k) as [->|N]; [left; reflexivity|right; apply IH; exact M]. }
        cbn in H. split; [split; [discriminate|intros Hn; contradiction]|].
        split; [intros Hn; contradiction|intros _; tauto].
      + assert (Hnin : ~ In (j_method m) (c_methods s)).
        { clear -M. induction (c_methods s) as [|k l IH]; cbn in M |- *; [tauto|].
          destruct (beq_spec (j_method m) k) as [->|N]; [discriminate|].
          intros [E|Hin]; [congruence|apply IH; assumption]. }
        cbn in H. split; [split; auto|]. split; [intros _; tauto|intros Hin; contradiction].
  Qed.

  (* The pre-gates: a request with a duplicate id or a deferred validation error, or
     with an empty method name, fails BEFORE setContext and the assignment: the task
     does not depend on the assigner or on the DisableBuiltin setting at all (s' is any
     state with the same set of ids in use), and it carries no context. *)
  Lemma mk_task_pregate s s' u ids m :
    used s = used s' ->
    pre_err s ids m <> None \/ j_method m = [] ->
    let t := mk_task s u ids m in
    mk_task s' u ids m = t /\ t_hasctx t = false /\ t_st t = TSkip /\ t_builtin t = false /\
    (forall e, pre_err s ids m = Some e -> t_pre t = Some e) /\
    (pre_err s ids m = None -> t_pre t = Some err_empty_method).
  Proof.
    intros Hu H t.
    assert (Hp : pre_err s' ids m = pre_err s ids m) by (unfold pre_err; rewrite Hu; reflexivity).
    unfold t, mk_task. rewrite Hp.
    destruct (pre_err s ids m) as [e|] eqn:P.
    - cbn. repeat split; auto. discriminate.
    - destruct H as [H|H]; [congruence|]. rewrite H. cbn. repeat split; auto. discriminate.
  Qed.

  (* when the pre-checks fail: a request id already in use by an earlier request or
     repeated in its own batch is a duplicate, whatever else the request says *)
  Lemma pre_err_duplicate s ids m :
    fix_id (j_id m) <> [] ->
    assoc (fix_id (j_id m)) (used s) <> None \/ 1 < count_bytes (fix_id (j_id m)) ids ->
    pre_err s ids m = Some err_dup.
  Proof.
    intros Ni D. unfold pre_err. apply is_nil_false_local in Ni. rewrite Ni. cbn [negb andb].
    destruct D as [D|D].
    - destruct (assoc (fix_id (j_id m)) (used s)); [reflexivity|congruence].
    - apply Nat.ltb_lt in D. rewrite D, orb_true_r. reflexivity.
  Qed.

  (* the tasks of the transition system are made by mk_task: the dispatcher's
     nextRequest step appends, for the batch at the head of the queue, one task per
     member *)
  Lemma dequeue_tasks s batch ms q :
    inq s = (batch, ms) :: q ->
    tasks (dequeue s) =
    tasks s ++ map (mk_task s (length (units s)) (map (fun m => fix_id (j_id m)) ms)) ms.
  Proof. intros H. unfold dequeue. rewrite H. reflexivity. Qed.
End MkTask.

Definition lk_state (builtin : bool) (methods : list bytes) : SrvModel.state :=
  SrvModel.init 1 false builtin methods false.
Definition lk_msg (id method : bytes) : jmsg :=
  {| j_id := id; j_method := method; j_params := []; j_error := None; j_result := []; j_err := None |}.

Example mk_task_link_nonvacuous :
  let ms := [[97]; [114;112;99;46;120]]%N in             (* "a", "rpc.x" *)
  let t b meth := SrvModel.mk_task (lk_state b ms) 0 [[49]%N] (lk_msg [49]%N meth) in
  SrvModel.pre_err (lk_state true ms) [[49]%N] (lk_msg [49]%N [97]%N) = None /\
  (* "a": the user handler; "b": not found; "rpc.x": reserved / with DisableBuiltin assigned *)
  SrvModel.t_pre (t true [97]%N) = None /\
  SrvModel.t_pre (t true [98]%N) = Some SrvModel.err_not_found /\
  SrvModel.t_pre (t true [114;112;99;46;120]%N) = Some SrvModel.err_not_found /\
  SrvModel.t_pre (t false [114;112;99;46;120]%N) = None /\
  SrvModel.t_builtin (t true Dispatch.rpc_server_info) = true /\
  SrvModel.t_pre (t false Dispatch.rpc_server_info) = Some SrvModel.err_not_found /\
  (* pre-gates: empty method; duplicate id *)
  SrvModel.t_pre (t true []) = Some SrvModel.err_empty_method /\
  SrvModel.t_pre (SrvModel.mk_task (lk_state true ms) 0 [[49]; [49]]%N (lk_msg [49]%N [97]%N)) = Some SrvModel.err_dup.
Proof. vm_compute. repeat split. Qed.

(* ------------------------------------------------------------------------- *)
(** * The request context, as the assigner and the handler see it              *)

(* A context, as far as ctx.go can observe it: the value stored under
   inboundRequestKey and whether there is one under serverKey.  Both key types are
   unexported, so the base context (ServerOptions.NewContext) has neither. *)
Record ctx := { cx_inbound : option request; cx_server : bool }.
Definition base_ctx : ctx := {| cx_inbound := None; cx_server := false |}.

(* server.go setContext: context.WithValue(s.newctx(), inboundRequestKey{}, t.hreq);
   it runs before assignLocked, which passes this context to the assigner *)
Definition set_context (base : ctx) (r : request) : ctx :=
  {| cx_inbound := Some r; cx_server := cx_server base |}.
(* server.go invoke: context.WithValue(base, serverKey{}, s), given to the handler *)
Definition invoke_ctx (c : ctx) : ctx := {| cx_inbound := cx_inbound c; cx_server := true |}.

(* ctx.go *)
Definition inbound_request (c : ctx) : option request := cx_inbound c.   (* nil when there is none *)
Inductive sfc_result := SfcServer | SfcPanic.                            (* ctx.Value(serverKey{}).( *Server) *)
Definition server_from_context (c : ctx) : sfc_result := if cx_server c then SfcServer else SfcPanic.

(* The dispatch of one valid request, with the contexts: the one the assigner is
   called with (None: the assigner is not called - a reserved name while built-ins
   are enabled) and the one the handler is called with (None: there is no handler). *)
Record dispatch' := {
  d'_target : option target;
  d'_ctx_assigner : option ctx;
  d'_ctx_handler : option ctx
}.

Definition dispatch_request' (builtin : bool) (a : assigner) (r : request) : dispatch' :=
  let c := set_context base_ctx r in
  let tg := server_assign builtin a (rq_method r) in
  {| d'_target := tg;
     d'_ctx_assigner := if builtin && has_prefix rpc_prefix (rq_method r) then None else Some c;
     d'_ctx_handler := match tg with Some _ => Some (invoke_ctx c) | None => None end |}.

Lemma dispatch_context b a r :
  let d := dispatch_request' b a r in
  (* the same target, and the same inbound request, as the extracted dispatch_request *)
  d'_target d = d_target (dispatch_request b a r) /\
  (forall c, d'_ctx_assigner d = Some c ->
     inbound_request c = Some (d_ctx_assigner (dispatch_request b a r))) /\
  (forall c, d'_ctx_handler d = Some c ->
     inbound_request c = Some (d_ctx_handler (dispatch_request b a r))) /\
  (* assigner and handler see the request being dispatched *)
  (forall c, d'_ctx_assigner d = Some c -> inbound_request c = Some r) /\
  (forall c, d'_ctx_handler d = Some c -> inbound_request c = Some r) /\
  (* the handler's context has the server, the assigner's does not *)
  (forall c, d'_ctx_handler d = Some c -> server_from_context c = SfcServer) /\
  (forall c, d'_ctx_assigner d = Some c -> server_from_context c = SfcPanic) /\
  (* who is called at all *)
  (d'_ctx_assigner d = None <-> b = true /\ has_prefix rpc_prefix (rq_method r) = true) /\
  (d'_ctx_handler d = None <-> d'_target d = None) /\
  (* the handler's context is the assigner's plus the server *)
  (forall ca ch, d'_ctx_assigner d = Some ca -> d'_ctx_handler d = Some ch -> ch = invoke_ctx ca).
Proof.
  unfold dispatch_request', dispatch_request. cbn [d'_target d'_ctx_assigner d'_ctx_handler d_target d_ctx_assigner d_ctx_handler].
  split; [reflexivity|].
  destruct (b && has_prefix rpc_prefix (rq_method r)) eqn:G;
    destruct (server_assign b a (rq_method r)) as [tg|];
    repeat split; try discriminate; try (intros c [= <-]; reflexivity);
    try (intros ca ch [= <-] [= <-]; reflexivity); try reflexivity;
    try (apply andb_true_iff in G; tauto);
    try (intros [-> H]; cbn in G; congruence);
    try (intros [Hb Hp]; rewrite Hb, Hp in G; discriminate).
Qed.

Example dispatch_context_nonvacuous :
  let r m := {| rq_id := Some [49]%N; rq_method := m; rq_params := [] |} in
  (* "a.x": assigner and handler are called; the assigner has no server *)
  dispatch_request' true ex_tree (r [97; 46; 120]%N) =
    {| d'_target := Some (TUser 1);
       d'_ctx_assigner := Some {| cx_inbound := Some (r [97; 46; 120]%N); cx_server := false |};
       d'_ctx_handler := Some {| cx_inbound := Some (r [97; 46; 120]%N); cx_server := true |} |} /\
  (* rpc.serverInfo: the assigner is not called, the built-in handler is *)
  d'_ctx_assigner (dispatch_request' true ex_tree (r rpc_server_info)) = None /\
  d'_ctx_handler (dispatch_request' true ex_tree (r rpc_server_info)) =
    Some {| cx_inbound := Some (r rpc_server_info); cx_server := true |} /\
  (* unknown: the assigner is called, no handler *)
  d'_ctx_handler (dispatch_request' true ex_tree (r [122]%N)) = None /\
  d'_ctx_assigner (dispatch_request' true ex_tree (r [122]%N)) <> None /\
  server_from_context base_ctx = SfcPanic.
Proof. vm_compute. repeat split; discriminate. Qed.
