(* DispatchReach: the gate of Dispatch.v as an INVARIANT of the server model's
   transition system (srv/SrvModel.v): in every reachable state of every server
   configuration, every task was dispatched through the gate of that configuration. *)
From Coq Require Import List NArith ZArith Bool Arith Lia.
From RecordUpdate Require Import RecordUpdate.
From JV Require Import Bytes Msg SrvModel SrvLemmas SrvBasics SrvC01 SrvC08c.
From JV Require Dispatch DispatchProofs DispatchMore.
Import ListNotations.

(* the assigner of a configuration: the Map with the configuration's method names *)
Definition cfg_assign (c : config) (m : bytes) : option Dispatch.target :=
  Dispatch.server_assign (cf_builtin c) (DispatchMore.methods_assigner (cf_methods c)) m.

(* task t was made by checkAndAssign under configuration c: either it failed a
   pre-check (no context was attached, the assigner was not consulted), or its
   context was attached and it is what the gate says for its method *)
Definition gated (c : config) (t : task) : Prop :=
  (t_hasctx t = true ->
     match cfg_assign c (t_method t) with
     | None => t_pre t = Some err_not_found
     | Some tg => t_pre t = None /\ t_builtin t = DispatchMore.is_builtin tg
     end) /\
  (t_hasctx t = false -> t_pre t <> None /\ t_builtin t = false).

Lemma gated_le c t t' : task_le t t' -> gated c t -> gated c t'.
Proof.
  intros [_ _ Hm _ Hp Hh Hb _ _] [G1 G2]. unfold gated. rewrite Hm, Hp, Hh, Hb. split; assumption.
Qed.

Lemma mk_task_method s u ids m : t_method (mk_task s u ids m) = j_method m.
Proof.
  unfold mk_task. destruct (pre_err s ids m); auto. destruct (is_nil (j_method m)); auto.
  destruct (assign_method s (j_method m)); auto.
Qed.

Lemma mk_task_gated c s u ids m :
  c_builtin s = cf_builtin c -> c_methods s = cf_methods c -> gated c (mk_task s u ids m).
Proof.
  intros Hb Hm.
  destruct (pre_err s ids m) as [e|] eqn:P.
  - destruct (DispatchMore.mk_task_pregate s s u ids m eq_refl) as (_ & Hh & _ & Hbt & Hp & _).
    { left. congruence. }
    split; [intros H; congruence|]. intros _. split; [rewrite (Hp e P); discriminate|exact Hbt].
  - destruct (j_method m) as [|x r] eqn:Em.
    + destruct (DispatchMore.mk_task_pregate s s u ids m eq_refl) as (_ & Hh & _ & Hbt & _ & Hp).
      { right. exact Em. }
      split; [intros H; congruence|]. intros _. split; [rewrite (Hp P); discriminate|exact Hbt].
    + destruct (DispatchMore.mk_task_dispatch s u ids m P) as (Hh & Hmt & H).
      { rewrite Em. discriminate. }
      split; [|intros Hf; congruence]. intros _.
      unfold cfg_assign. rewrite mk_task_method, <- Hb, <- Hm.
      destruct (Dispatch.server_assign (c_builtin s) (DispatchMore.methods_assigner (c_methods s)) (j_method m)) as [tg|].
      * destruct H as (H1 & _ & H3). auto.
      * destruct H as (H1 & _). exact H1.
Qed.

Lemma dequeue_gated c s :
  c_builtin s = cf_builtin c -> c_methods s = cf_methods c ->
  (forall k t, nth_error (tasks s) k = Some t -> gated c t) ->
  forall k t, nth_error (tasks (dequeue s)) k = Some t -> gated c t.
Proof.
  intros Hb Hm H k t E. unfold dequeue in E.
  destruct (inq s) as [|[b ms] q]; [destruct (running s); cbn in E; eauto|].
  cbn in E. destruct (Nat.lt_ge_cases k (length (tasks s))) as [Lt|Ge].
  - rewrite nth_error_app1 in E by auto. eauto.
  - rewrite nth_error_app2 in E by auto. apply nth_error_In, in_map_iff in E as (m & <- & _).
    apply mk_task_gated; assumption.
Qed.

Lemma cfg_fields c s : reachf c s -> c_builtin s = cf_builtin c /\ c_methods s = cf_methods c.
Proof. intros R. pose proof (cfg_const c s R) as H. unfold cfgp in H. injection H as _ _ Hb Hm _. auto. Qed.

Theorem reachf_gated c s : reachf c s -> forall k t, nth_error (tasks s) k = Some t -> gated c t.
Proof.
  induction 1 as [|s l s' os R IH Cr H|s s' os R IH H]; intros k t' E'.
  - destruct k; discriminate.
  - pose proof (reachf_inv _ _ R) as I. destruct (cfg_fields c s R) as [Hb Hm].
    destruct (raw_shape_ok _ _ _ _ I H) as [_ L| -> |u un _ _ _ _ L]; [| eapply dequeue_gated; eauto |].
    all: destruct (nth_error (tasks s) k) as [t|] eqn:E;
      [ destruct (raw_step_ok _ _ _ _ I H) as [_ [X _]]; destruct (X _ _ E) as (t2 & E2 & Le);
        rewrite E' in E2; injection E2 as <-; eapply gated_le; eauto
      | apply nth_error_None in E; apply nth_error_some_lt in E'; lia ].
  - destruct (cfg_fields c s R) as [Hb Hm].
    apply settle1_inv in H. destruct H; cbn in E'; eauto. eapply dequeue_gated; eauto.
Qed.

(* On the transition system: in every reachable state of a server with configuration
   c (method names cf_methods, built-ins enabled iff cf_builtin), every task whose
   context was attached is exactly what the gate of C17 says for its method; every
   other task failed a pre-check. *)
Theorem reach_gated c s k t :
  reach c s -> nth_error (tasks s) k = Some t ->
  (t_hasctx t = true ->
     match Dispatch.server_assign (cf_builtin c) (DispatchMore.methods_assigner (cf_methods c)) (t_method t) with
     | None => t_pre t = Some err_not_found
     | Some tg => t_pre t = None /\ t_builtin t = DispatchMore.is_builtin tg
     end) /\
  (t_hasctx t = false -> t_pre t <> None /\ t_builtin t = false).
Proof. intros R E. apply reach_reachf in R. exact (reachf_gated c s R k t E). Qed.

(* ... so a task that may run (no recorded error) is either the built-in
   rpc.serverInfo - only when built-ins are enabled - or a method of the assigner
   under its exact name, never a reserved rpc.* name while built-ins are enabled *)
Theorem reach_runnable_assigned c s k t :
  reach c s -> nth_error (tasks s) k = Some t -> t_pre t = None ->
  (t_builtin t = true /\ cf_builtin c = true /\ t_method t = Dispatch.rpc_server_info) \/
  (t_builtin t = false /\ In (t_method t) (cf_methods c) /\
   (cf_builtin c = true -> has_prefix Dispatch.rpc_prefix (t_method t) = false)).
Proof.
  intros R E P. destruct (reach_gated c s k t R E) as [G1 G2].
  destruct (t_hasctx t) eqn:Hh; [|destruct (G2 eq_refl) as [N _]; congruence].
  specialize (G1 eq_refl). unfold Dispatch.server_assign in G1.
  destruct (cf_builtin c && has_prefix Dispatch.rpc_prefix (t_method t)) eqn:G.
  - apply andb_true_iff in G. destruct G as [Gb Gp].
    destruct (beq_spec (t_method t) Dispatch.rpc_server_info) as [Es|Ns]; [|congruence].
    destruct G1 as [_ G1]. left. auto.
  - unfold DispatchMore.methods_assigner in G1. cbn [Dispatch.assign] in G1.
    rewrite DispatchMore.lookup_methods in G1.
    destruct (mem_bytes (t_method t) (cf_methods c)) eqn:M; cbn in G1; [|congruence].
    destruct G1 as [_ G1]. right. split; [exact G1|]. split; [apply mem_bytes_in; exact M|].
    intros Hb. rewrite Hb in G. exact G.
Qed.

Example reach_gated_nonvacuous :
  exists s t, reach ex_cfg s /\ nth_error (tasks s) 0 = Some t /\ t_hasctx t = true /\ t_pre t = None /\
              In (t_method t) (cf_methods ex_cfg).
Proof.
  exists (st_of ex_cfg ex_tr_running). eexists.
  split; [apply reach_st_of; vm_compute; discriminate|]. vm_compute. repeat split; auto.
Qed.
