(* Dispatch: model of handler.Map / handler.ServiceMap (Assign, Names) and of the
   server's reserved-prefix gate (server.go assignLocked).  Executable; extracted
   and run against the real code by the C17 correspondence check. *)
From Coq Require Import List NArith Bool Lia.
From JV Require Import Bytes Sort.
Import ListNotations.
Local Open Scope N_scope.

(* Handler identities are natural numbers (the harness gives each leaf handler a tag). *)
Inductive assigner :=
| AMap (m : list (bytes * nat))          (* handler.Map *)
| AOpaque (m : list (bytes * nat))       (* an Assigner that is not a Namer: exact lookup, no Names *)
| ASvc (m : list (bytes * assigner)).    (* handler.ServiceMap *)

Fixpoint lookup {A} (k : bytes) (m : list (bytes * A)) : option A :=
  match m with
  | [] => None
  | (k', v) :: m' => if beq k k' then Some v else lookup k m'
  end.

(* strings.SplitN(s, ".", 2): None when there is no '.', else (before, after) the first one *)
Fixpoint split_dot (s : bytes) : option (bytes * bytes) :=
  match s with
  | [] => None
  | c :: r => if c =? ascii_dot then Some ([], r)
              else match split_dot r with
                   | Some (a, b) => Some (c :: a, b)
                   | None => None
                   end
  end.

Fixpoint assign (a : assigner) (n : bytes) {struct a} : option nat :=
  match a with
  | AMap m => lookup n m
  | AOpaque m => lookup n m
  | ASvc m =>
      match split_dot n with
      | None => None
      | Some (svc, rest) =>
          (fix go (m : list (bytes * assigner)) : option nat :=
             match m with
             | [] => None
             | (k, a') :: m' => if beq svc k then assign a' rest else go m'
             end) m
      end
  end.

Definition dot_join (svc n : bytes) : bytes := svc ++ ascii_dot :: n.
Definition star : bytes := [42].

(* Names: None when the assigner is not a Namer *)
Fixpoint names (a : assigner) : option (list bytes) :=
  match a with
  | AMap m => Some (sort (map fst m))
  | AOpaque _ => None
  | ASvc m =>
      Some (sort ((fix go (m : list (bytes * assigner)) : list bytes :=
                     match m with
                     | [] => []
                     | (svc, a') :: m' =>
                         match names a' with
                         | None => [dot_join svc star]
                         | Some ns => map (dot_join svc) ns
                         end ++ go m'
                     end) m))
  end.

(* The server gate. *)
Inductive target := TBuiltinInfo | TUser (h : nat).

Definition rpc_prefix : bytes := [114; 112; 99; 46].                         (* "rpc." *)
Definition rpc_server_info : bytes :=
  [114; 112; 99; 46; 115; 101; 114; 118; 101; 114; 73; 110; 102; 111].     (* "rpc.serverInfo" *)

Definition server_assign (builtin : bool) (a : assigner) (n : bytes) : option target :=
  if builtin && has_prefix rpc_prefix n then
    if beq n rpc_server_info then Some TBuiltinInfo else None
  else option_map TUser (assign a n).

(* What rpc.serverInfo lists as methods: Names() for a Namer, ["*"] otherwise. *)
Definition info_methods (a : assigner) : list bytes :=
  match names a with Some ns => ns | None => [star] end.

(* The dispatch of one valid request: which handler runs, and what request the
   context given to assigner and handler carries (InboundRequest). *)
Record request := { rq_id : option bytes; rq_method : bytes; rq_params : bytes }.
Record dispatch := { d_target : option target; d_ctx_assigner : request; d_ctx_handler : request }.

Definition dispatch_request (builtin : bool) (a : assigner) (r : request) : dispatch :=
  {| d_target := server_assign builtin a (rq_method r); d_ctx_assigner := r; d_ctx_handler := r |}.
