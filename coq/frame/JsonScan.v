(* JsonScan: a validating scanner for ONE JSON value at the front of a byte string,
   following the grammar of Go's encoding/json scanner (scanner.go):

   * white space is space, \t, \r, \n;
   * strings: any byte >= 0x20 except the quote and the backslash (bytes >= 0x80 are
     accepted without UTF-8 validation, as Go's scanner does), escapes: backslash followed
     by one of  quote \ / b f n r t  or by u and four hex digits;
   * numbers: optional minus; 0 or a non-zero digit followed by digits; optionally a dot and
     one or more digits; optionally e or E, an optional sign and one or more digits
     (longest match);
   * literals true, false, null;
   * arrays and objects, nested at most 10000 deep (maxNestingDepth: the 10001st open
     bracket is a syntax error).

   The scanner looks at the bytes strictly left to right and stops at the first byte that
   cannot continue a value ([Syntax]) or at the end of the input inside a value ([Trunc]),
   which is how Go's byte-at-a-time scanner classifies the two; on success it returns the
   unconsumed rest.  A number ends at the first byte that cannot continue it (not consumed),
   or at the end of the input.

   Fuelled recursive descent; fuel [S (2 * length s)] always suffices
   (JsonScanProofs.scan_value_fuel).  Definitions only. *)
From Coq Require Import List NArith Bool Lia.
From JV Require Import Bytes.
Import ListNotations.
Local Open Scope N_scope.

Inductive outcome :=
| Done (rest : bytes)
| Syntax
| Trunc
| NoFuel.

Definition is_ws (c : N) : bool := (c =? 32) || (c =? 9) || (c =? 13) || (c =? 10).

Fixpoint skip_ws (s : bytes) : bytes :=
  match s with
  | c :: r => if is_ws c then skip_ws r else s
  | [] => []
  end.

Definition is_digit (c : N) : bool := (48 <=? c) && (c <=? 57).
Definition is_digit19 (c : N) : bool := (49 <=? c) && (c <=? 57).
Definition is_hex (c : N) : bool :=
  is_digit c || ((97 <=? c) && (c <=? 102)) || ((65 <=? c) && (c <=? 70)).
(* b f n r t backslash slash quote *)
Definition is_esc1 (c : N) : bool :=
  (c =? 98) || (c =? 102) || (c =? 110) || (c =? 114) || (c =? 116) || (c =? 92) || (c =? 47) || (c =? 34).
Definition is_exp (c : N) : bool := (c =? 101) || (c =? 69).
Definition is_sign (c : N) : bool := (c =? 43) || (c =? 45).

(* string body, after the opening quote *)
Inductive sstate := SPlain | SEsc | SHex (k : nat).   (* SHex k: k more hex digits after this one *)

Fixpoint scan_str (st : sstate) (s : bytes) : outcome :=
  match s with
  | [] => Trunc
  | c :: s' =>
      match st with
      | SPlain => if c =? 34 then Done s'
                  else if c =? 92 then scan_str SEsc s'
                  else if c <? 32 then Syntax
                  else scan_str SPlain s'
      | SEsc => if is_esc1 c then scan_str SPlain s'
                else if c =? 117 then scan_str (SHex 3) s'
                else Syntax
      | SHex k => if is_hex c then match k with
                                   | O => scan_str SPlain s'
                                   | S k' => scan_str (SHex k') s'
                                   end
                  else Syntax
      end
  end.

(* number, after its first byte; the states of scanner.go *)
Inductive nstate := NNeg | NZero | NInt | NDot | NFrac | NExp | NExpSign | NExpDig.

Fixpoint scan_num (st : nstate) (s : bytes) : outcome :=
  match s with
  | [] => match st with
          | NZero | NInt | NFrac | NExpDig => Done []
          | _ => Trunc
          end
  | c :: s' =>
      match st with
      | NNeg => if c =? 48 then scan_num NZero s' else if is_digit19 c then scan_num NInt s' else Syntax
      | NZero => if c =? 46 then scan_num NDot s' else if is_exp c then scan_num NExp s' else Done s
      | NInt => if is_digit c then scan_num NInt s'
                else if c =? 46 then scan_num NDot s' else if is_exp c then scan_num NExp s' else Done s
      | NDot => if is_digit c then scan_num NFrac s' else Syntax
      | NFrac => if is_digit c then scan_num NFrac s' else if is_exp c then scan_num NExp s' else Done s
      | NExp => if is_sign c then scan_num NExpSign s' else if is_digit c then scan_num NExpDig s' else Syntax
      | NExpSign => if is_digit c then scan_num NExpDig s' else Syntax
      | NExpDig => if is_digit c then scan_num NExpDig s' else Done s
      end
  end.

(* the rest of a literal, after its first byte *)
Fixpoint scan_lit (l : bytes) (s : bytes) : outcome :=
  match l with
  | [] => Done s
  | a :: l' => match s with
               | [] => Trunc
               | c :: s' => if c =? a then scan_lit l' s' else Syntax
               end
  end.

Definition max_depth : N := 10000.
Definition lit_rue : bytes := [114; 117; 101].
Definition lit_alse : bytes := [97; 108; 115; 101].
Definition lit_ull : bytes := [117; 108; 108].

(* [d] = number of arrays/objects currently open *)
Fixpoint scan_value (f : nat) (d : N) (s : bytes) {struct f} : outcome :=
  match f with
  | O => NoFuel
  | S f' =>
      match skip_ws s with
      | [] => Trunc
      | c :: s' =>
          if c =? 34 then scan_str SPlain s'
          else if c =? 123 then                       (* { *)
            if max_depth <=? d then Syntax
            else match skip_ws s' with
                 | [] => Trunc
                 | c2 :: s2 => if c2 =? 125 then Done s2 else scan_members f' (d + 1) (c2 :: s2)
                 end
          else if c =? 91 then                        (* [ *)
            if max_depth <=? d then Syntax
            else match skip_ws s' with
                 | [] => Trunc
                 | c2 :: s2 => if c2 =? 93 then Done s2 else scan_elems f' (d + 1) (c2 :: s2)
                 end
          else if c =? 45 then scan_num NNeg s'
          else if c =? 48 then scan_num NZero s'
          else if is_digit19 c then scan_num NInt s'
          else if c =? 116 then scan_lit lit_rue s'
          else if c =? 102 then scan_lit lit_alse s'
          else if c =? 110 then scan_lit lit_ull s'
          else Syntax
      end
  end
(* value ( "," value )* "]" *)
with scan_elems (f : nat) (d : N) (s : bytes) {struct f} : outcome :=
  match f with
  | O => NoFuel
  | S f' =>
      match scan_value f' d s with
      | Done r => match skip_ws r with
                  | [] => Trunc
                  | c :: r' => if c =? 44 then scan_elems f' d r'
                               else if c =? 93 then Done r' else Syntax
                  end
      | o => o
      end
  end
(* string ":" value ( "," string ":" value )* "}" *)
with scan_members (f : nat) (d : N) (s : bytes) {struct f} : outcome :=
  match f with
  | O => NoFuel
  | S f' =>
      match skip_ws s with
      | [] => Trunc
      | c :: s1 =>
          if c =? 34 then
            match scan_str SPlain s1 with
            | Done s2 =>
                match skip_ws s2 with
                | [] => Trunc
                | c2 :: s3 =>
                    if c2 =? 58 then
                      match scan_value f' d s3 with
                      | Done s4 => match skip_ws s4 with
                                   | [] => Trunc
                                   | c3 :: s5 => if c3 =? 44 then scan_members f' d s5
                                                 else if c3 =? 125 then Done s5 else Syntax
                                   end
                      | o => o
                      end
                    else Syntax
                end
            | o => o
            end
          else Syntax
      end
  end.

Definition scan_fuel (s : bytes) : nat := S (length s + length s).

(* the next value of [s] (leading white space allowed) *)
Definition scan (s : bytes) : outcome := scan_value (scan_fuel s) 0 s.
