(* Direct: model of channel.Direct (channel/channel.go) and of IsErrClosing.

   Direct() returns two ends connected by two unbuffered Go channels; records are passed
   by reference, without framing.  One direction is modelled: the queue of records sent
   and not yet received, and whether the sending end has been closed.  (The Go channel is
   synchronous - Send blocks until the peer receives - which the sequential model shows
   as the queue; a Recv on an empty open direction blocks.)

   Definitions only; proofs in DirectProofs.v. *)
From Coq Require Import List NArith Bool Lia.
From JV Require Import Bytes FrameBase.
Import ListNotations.
Local Open Scope N_scope.

Record dstate := { dqueue : list bytes; dclosed : bool }.
Definition dinit : dstate := {| dqueue := []; dclosed := false |}.

Inductive dsend_result := DSent (st : dstate) | DSendErr.     (* "send on closed channel" (recovered panic) *)
Inductive drecv_result := DRecv (r : bytes) (st : dstate) | DEOF | DBlocked.
Inductive dclose_result := DClosed (st : dstate) | DCloseCrash. (* close of closed channel: an unrecovered panic *)

(* d.send <- msg; a send on a closed Go channel panics, Send recovers and returns an error *)
Definition dsend (st : dstate) (r : bytes) : dsend_result :=
  if dclosed st then DSendErr else DSent {| dqueue := dqueue st ++ [r]; dclosed := false |}.

(* msg, ok := <-d.recv; if ok { return msg, nil }; return nil, io.EOF *)
Definition drecv (st : dstate) : drecv_result :=
  match dqueue st with
  | r :: q => DRecv r {| dqueue := q; dclosed := dclosed st |}
  | [] => if dclosed st then DEOF else DBlocked
  end.

(* close(d.send) *)
Definition dclose (st : dstate) : dclose_result :=
  if dclosed st then DCloseCrash else DClosed {| dqueue := dqueue st; dclosed := true |}.

Fixpoint dsend_all (st : dstate) (rs : list bytes) : option dstate :=
  match rs with
  | [] => Some st
  | r :: rs' => match dsend st r with DSent st' => dsend_all st' rs' | DSendErr => None end
  end.

(* receive until the first repeated error, as for the stream framings *)
Fixpoint drecv_all (fuel : nat) (prev_eof : bool) (st : dstate) : list item :=
  match fuel with
  | O => [IOutOfFuel]
  | S f => match drecv st with
           | DRecv r st' => IRec r :: drecv_all f false st'
           | DEOF => if prev_eof then [] else IErr EEOF :: drecv_all f true st
           | DBlocked => [IErr EOther]          (* would block for ever: not an answer Recv gives *)
           end
  end.

(* IsErrClosing(err) = err != nil && (errors.Is(err, ErrClosed) || errors.Is(err, net.ErrClosed)).
   Error values as trees: errors.Is walks Unwrap() error and Unwrap() []error. *)
Inductive goerr :=
| GNil
| GErrClosed            (* channel.ErrClosed *)
| GNetErrClosed         (* net.ErrClosed *)
| GEOF
| GLeaf (id : N)        (* any other sentinel *)
| GWrap (inner : goerr)                 (* fmt.Errorf("...%w", inner) *)
| GJoin (a b : goerr).                  (* errors.Join(a, b): nil members are dropped *)

Fixpoint err_is (target : goerr -> bool) (e : goerr) : bool :=
  target e ||
  match e with
  | GWrap i => err_is target i
  | GJoin a b => err_is target a || err_is target b
  | _ => false
  end.

Definition is_err_closing (e : goerr) : bool :=
  match e with
  | GNil => false
  | _ => err_is (fun x => match x with GErrClosed => true | _ => false end) e
         || err_is (fun x => match x with GNetErrClosed => true | _ => false end) e
  end.
