(* FrameSpec: REFERENCE GRAMMARS of the framings, written from the package documentation
   (doc comments of channel.Split/Line, StrictHeader/Header/LSP, RawJSON) and from RFC 8259,
   independently of the Recv code and of its models: each is a relation
   [frame ... s r rest] "the stream s starts with a frame whose payload is r and which is
   followed by rest".  Nothing here is executable or extracted; C12's soundness theorems
   say that a record returned by the model of Recv satisfies the relation.
   The grammar of the header framings is in HdrSpec.v. *)
From Coq Require Import List NArith ZArith Bool Lia.
From JV Require Import Bytes.
Import ListNotations.
Local Open Scope N_scope.

(* ---- Split(b) / Line ------------------------------------------------------
   "Split returns a framing in which each message is terminated by the specified byte
   value.  The framing has the constraint that outbound records may not contain the split
   byte internally." *)
Module SplitSpec.
  Definition frame (b : N) (s r rest : bytes) : Prop :=
    s = r ++ b :: rest /\ ~ In b r.

  (* the encoding of a record sequence *)
  Definition encode (b : N) (rs : list bytes) : bytes := concat (map (fun r => r ++ [b]) rs).
End SplitSpec.
